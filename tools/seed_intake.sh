#!/bin/bash
# usage: seed_intake.sh <PROP e.g. C09> <A|B> <pkg dir for the demo, relative to repo root> <go test -run regex> [check ids to run, default PROP]
# Verifies a seeded change delivered by a sub-agent in /tmp/seedout-<prop>/<letter>:
#   applies to a scratch worktree of /repo HEAD, builds, runs the pinned suite, runs the demo with and
#   without the change, then runs our check(s) against the changed tree. Stores everything in
#   /verif/seeded/<PROP>-<letter>/ with meta.json.
export GOFLAGS=-mod=mod GOPROXY=off GOSUMDB=off GOTOOLCHAIN=local
PROP=$1; L=$2; PKG=$3; RUN=$4; shift 4; CHECKS=${@:-$PROP}
prop=$(echo $PROP | tr A-Z a-z)
SRC=/tmp/seedout-$prop/$L
DST=/verif/seeded/$PROP-$L
[ -f $SRC/patch.diff ] || { echo "no patch in $SRC"; exit 9; }
mkdir -p $DST; cp $SRC/patch.diff $DST/; cp $SRC/README.md $DST/README.md 2>/dev/null
DEMO=$(ls $SRC/*_test.go 2>/dev/null | head -1)
[ -n "$DEMO" ] && cp $DEMO $DST/demo_test.go
WT=$(mktemp -d /tmp/wt-seed-XXXXXX); rmdir $WT
git -C /repo worktree add -q $WT HEAD || exit 9
res() { echo "$1" | tee -a $WT.res; }
: > $WT.res
cp $DST/demo_test.go $WT/$PKG/zz_seed_demo_test.go
# without the change
(cd $WT && go test -vet=off -count=1 -run "$RUN" ./$PKG/ > $WT.d0 2>&1); d0=$?
git -C $WT apply $DST/patch.diff || { echo PATCH FAILED; git -C /repo worktree remove --force $WT; exit 9; }
(cd $WT && go build ./... > $WT.b 2>&1); b=$?
(cd $WT && go test -vet=off -count=1 -run "$RUN" ./$PKG/ > $WT.d1 2>&1); d1=$?
rm -f $WT/$PKG/zz_seed_demo_test.go
(cd $WT && go test -vet=off -count=1 ./... > $WT.s 2>&1); s=$?
if [ $s -ne 0 ]; then (cd $WT && go test -vet=off -count=1 ./... > $WT.s 2>&1); s=$?; fi
res "build_with_change_exit=$b suite_with_change_exit=$s demo_without_change_exit=$d0 demo_with_change_exit=$d1"
caught=""
for C in $CHECKS; do
  (cd /verif && VERIF_REPO=$WT ./check $C quick > $WT.c 2>&1); rc=$?
  keys=$(grep -o "key=[^ :]*" $WT.c | sort -u | head -5 | tr '\n' ' ')
  res "check=$C quick exit=$rc $keys"
  [ $rc -eq 1 ] && caught="$caught $C"
done
python3 - "$PROP" "$L" "$DST" "$WT.res" "$PKG" "$RUN" "$caught" <<'PY'
import json,sys,re
prop,l,dst,resf,pkg,run,caught=sys.argv[1:8]
lines=open(resf).read().strip().split("\n")
kv=dict(x.split("=") for x in lines[0].split())
meta={"property":prop,"id":prop+"-"+l,"source":"independent sub-agent given only the property text and its own worktree",
 "demo":{"file":"demo_test.go","install_as":pkg+"/zz_seed_demo_test.go","command":"go test -vet=off -count=1 -run '%s' ./%s/"%(run,pkg)},
 "confirmed":{"compiles":kv["build_with_change_exit"]=="0","pinned_suite_passes_with_change":kv["suite_with_change_exit"]=="0",
   "demo_passes_without_change":kv["demo_without_change_exit"]=="0","demo_fails_with_change":kv["demo_with_change_exit"]!="0"},
 "checks_run":lines[1:],"caught_by_quick":caught.split()}
try:
    readme=open(dst+"/README.md").read()
    meta["needs_to_manifest"]=readme[:0]
except Exception: pass
json.dump(meta,open(dst+"/meta.json","w"),indent=1)
print(json.dumps(meta["confirmed"]), "caught_by:", caught)
PY
python3 /verif/tools/seed_needs.py $DST/ >/dev/null
rm -f $WT.res $WT.d0 $WT.d1 $WT.b $WT.s $WT.c
git -C /repo worktree remove --force $WT; git -C /repo worktree prune
