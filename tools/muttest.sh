#!/bin/sh
# usage: muttest.sh <ID> <patchfile|-> [tier]   (patch read from stdin if '-')
# applies a patch to a scratch worktree of /repo HEAD and runs the check against it
ID=$1; P=$2; TIER=${3:-quick}
WT=$(mktemp -d /tmp/wt-mut-XXXXXX); rmdir $WT
git -C /repo worktree add -q $WT HEAD || exit 9
if [ "$P" = "-" ]; then git -C $WT apply - ; else git -C $WT apply "$P"; fi || { echo "PATCH FAILED"; git -C /repo worktree remove --force $WT; exit 9; }
(cd $WT && GOFLAGS=-mod=mod GOPROXY=off GOSUMDB=off GOTOOLCHAIN=local go build ./... ) || { echo "MUTANT DOES NOT COMPILE"; git -C /repo worktree remove --force $WT; exit 9; }
cd /verif && VERIF_REPO=$WT ./check $ID $TIER > $WT.log 2>&1; rc=$?
grep -E "^VIOLATION|^INCONCLUSIVE|^KNOWN|key=" $WT.log | cut -c1-260 | head -${MUT_LINES:-6}
tail -1 $WT.log | cut -c1-200
echo "exit=$rc"
rm -f $WT.log
git -C /repo worktree remove --force $WT; git -C /repo worktree prune
