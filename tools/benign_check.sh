#!/bin/bash
# usage: [BENIGN_ROUND=2] benign_check.sh <PROP e.g. C09> <A|B|C> [extra check ids]
#        round 2 reads /tmp/benign2-<prop>/<letter> and stores under benign/<PROP>-2<letter>
# A property-preserving change delivered by a sub-agent in /tmp/benign-<prop>/<letter>/patch.diff is applied to a
# scratch worktree of /repo HEAD; build (with and without the verif tag) and the pinned suite must pass; then
# the quick checks of the property itself and of every property anchored in a file the patch touches must
# stay SILENT (exit 0). Results go to /verif/benign/<PROP>-<letter>/.
export GOFLAGS=-mod=mod GOPROXY=off GOSUMDB=off GOTOOLCHAIN=local
PROP=$1; L=$2; shift 2; EXTRA=$@
prop=$(echo $PROP | tr A-Z a-z)
R=${BENIGN_ROUND:-1}
if [ "$R" = "1" ]; then SRC=/tmp/benign-$prop/$L; DST=/verif/benign/$PROP-$L; else SRC=/tmp/benign$R-$prop/$L; DST=/verif/benign/$PROP-$R$L; fi
[ -f $SRC/patch.diff ] || { echo "no patch in $SRC"; exit 9; }
mkdir -p $DST; cp $SRC/patch.diff $DST/; cp $SRC/README.md $DST/ 2>/dev/null
CHECKS=$(python3 - "$PROP" "$DST/patch.diff" $EXTRA <<'PY'
import sys,json,re
prop,patch=sys.argv[1:3]; extra=sys.argv[3:]
files=set(re.findall(r'^\+\+\+ b/(\S+)',open(patch).read(),re.M))
out=[prop]
for l in open('/verif/properties.jsonl'):
    l=l.strip()
    if not l: continue
    p=json.loads(l)
    if set(p['anchors']['files'])&files and p['id'] not in out: out.append(p['id'])
for e in extra:
    if e not in out: out.append(e)
print(' '.join(out))
PY
)
WT=$(mktemp -d /tmp/wt-benign-XXXXXX); rmdir $WT
git -C /repo worktree add -q $WT HEAD || exit 9
git -C $WT apply $DST/patch.diff || { echo "$PROP-$L PATCH FAILED"; git -C /repo worktree remove --force $WT; exit 9; }
(cd $WT && go build ./... > $WT.b 2>&1); b=$?
(cd $WT && go build -tags verif ./... > $WT.bv 2>&1); bv=$?
(cd $WT && go test -vet=off -count=1 ./... > $WT.s 2>&1); s=$?
if [ $s -ne 0 ]; then (cd $WT && go test -vet=off -count=1 ./... > $WT.s 2>&1); s=$?; fi
: > $WT.res
for C in $CHECKS; do
  (cd /verif && VERIF_REPO=$WT ./check $C quick > $WT.c 2>&1); rc=$?
  keys=$(grep -o "key=[^ :]*" $WT.c | sort -u | head -6 | tr '\n' ' ')
  inc=$(grep -m2 '^INCONCLUSIVE' $WT.c | cut -c1-200 | tr '\n' '|')
  echo "check=$C quick exit=$rc $keys $inc" >> $WT.res
  if [ $rc -ne 0 ]; then cp $WT.c $DST/alarm-$C.log; fi
done
python3 - "$PROP" "$L" "$DST" "$WT.res" "$b" "$bv" "$s" <<'PY'
import json,sys,re
prop,l,dst,resf,b,bv,s=sys.argv[1:8]
lines=[x for x in open(resf).read().strip().split("\n") if x]
alarms=[re.match(r'check=(C\d+)',x).group(1) for x in lines if ' exit=0 ' not in x+' ']
import os
meta={"property":prop,"id":os.path.basename(dst),"kind":"property-preserving change (must NOT be flagged)",
 "source":"independent sub-agent given only the property text and its own worktree",
 "confirmed":{"compiles":b=="0","compiles_with_verif_tag":bv=="0","pinned_suite_passes_with_change":s=="0"},
 "checks_run":lines,"alarms":alarms}
json.dump(meta,open(dst+"/meta.json","w"),indent=1)
print(prop+"-"+l, json.dumps(meta["confirmed"]), "alarms:", alarms)
PY
rm -f $WT.res $WT.b $WT.bv $WT.s $WT.c
git -C /repo worktree remove --force $WT; git -C /repo worktree prune
