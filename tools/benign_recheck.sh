#!/bin/bash
# usage: benign_recheck.sh <benign id e.g. C19-C> <check ids that changed ...>
# Re-runs, against the stored property-preserving change (applied to a scratch worktree of /repo HEAD), those of
# the given checks that the change was originally judged by (meta.json checks_run) and rewrites their lines and
# the alarms list. Used after a check gained a phase: the new phase must stay silent on every benign change.
export GOFLAGS=-mod=mod GOPROXY=off GOSUMDB=off GOTOOLCHAIN=local
ID=$1; shift; CHANGED="$@"
DST=/verif/benign/$ID
[ -f $DST/patch.diff ] || { echo "no $DST/patch.diff"; exit 9; }
CHECKS=$(python3 - "$DST/meta.json" $CHANGED <<'PY'
import json,re,sys
d=json.load(open(sys.argv[1])); ch=set(sys.argv[2:])
print(' '.join(c for c in (re.match(r'check=(C\d+)',l).group(1) for l in d['checks_run']) if c in ch))
PY
)
[ -n "$CHECKS" ] || exit 0
WT=$(mktemp -d /tmp/wt-brechk-XXXXXX); rmdir $WT
git -C /repo worktree add -q $WT HEAD || exit 9
git -C $WT apply $DST/patch.diff || { echo "$ID PATCH FAILED"; git -C /repo worktree remove --force $WT; exit 9; }
: > $WT.res
for C in $CHECKS; do
  (cd /verif && VERIF_REPO=$WT ./check $C quick > $WT.c 2>&1); rc=$?
  keys=$(grep -o "key=[^ :]*" $WT.c | sort -u | head -6 | tr '\n' ' ')
  inc=$(grep -m2 '^INCONCLUSIVE' $WT.c | cut -c1-200 | tr '\n' '|')
  echo "check=$C quick exit=$rc $keys $inc" >> $WT.res
  if [ $rc -ne 0 ]; then cp $WT.c $DST/alarm-$C.log; else rm -f $DST/alarm-$C.log; fi
done
python3 - "$DST" "$WT.res" <<'PY'
import json,sys,re
dst,resf=sys.argv[1:3]
new={re.match(r'check=(C\d+)',x).group(1):x for x in open(resf).read().strip().split("\n") if x}
d=json.load(open(dst+"/meta.json"))
d["checks_run"]=[new.get(re.match(r'check=(C\d+)',l).group(1),l) for l in d["checks_run"]]
d["alarms"]=[re.match(r'check=(C\d+)',x).group(1) for x in d["checks_run"] if ' exit=0 ' not in x+' ']
json.dump(d,open(dst+"/meta.json","w"),indent=1)
print(d["id"],"rechecked:",' '.join(sorted(new)),"alarms:",d["alarms"])
PY
rm -f $WT.res $WT.c
git -C /repo worktree remove --force $WT; git -C /repo worktree prune
