#!/bin/sh
# runs every mutants/<ID>/*.diff (and seeded/*/patch.diff via their meta) against its check; prints a table
# usage: run_mutants.sh [ID ...]
cd /verif
IDS=${@:-$(ls mutants)}
for id in $IDS; do
  for p in mutants/$id/*.diff; do
    [ -f "$p" ] || continue
    out=$(MUT_LINES=2 tools/muttest.sh $id /verif/$p 2>&1)
    rc=$(echo "$out" | sed -n 's/^exit=//p')
    echo "$id $(basename $p) exit=$rc $(echo "$out" | grep -m1 'key=' | cut -c1-120)"
  done
done
