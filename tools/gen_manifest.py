#!/usr/bin/env python3
"""Regenerates /verif/MANIFEST.json. A property is claimed iff harness/cmd/<id>/main.go
exists AND it is listed in BUILT below (set by hand once the check is trusted)."""
import json, os, subprocess
ROOT = os.path.dirname(os.path.dirname(os.path.abspath(__file__)))

BUILT = set(open(os.path.join(ROOT, "tools", "built.txt")).read().split())

HOOK_COMMITS = subprocess.run(["git", "-C", "/repo", "log", "--format=%h %s", "--grep=^verif:"], capture_output=True, text=True).stdout.strip().split("\n")

P = {
 "C01": dict(level="exploration", tech="runtime monitoring: unique-token reply oracle over adversarial fake connections + loopback servers, buffer-pool sanitizer, Go race detector, hook-driven schedule perturbation",
   text="Every returned reply is matched byte-for-byte (ID aside) against the reply the adversary produced for that call's own unique question/token; reorder/delay/duplicate/stray-ID/late-reply policies, colliding caller IDs, wire-ID wrap-around with held queries, pool sanitizer and race detector watch the same executions. Sampled schedules/inputs: 'held on K executions', not a proof.",
   note="Trusts the harness connection/servers to deliver exactly what the adversary injected, the independent wire parser, and Go's race detector; kernel-level reordering and >65536-query ID reuse are out of scope (property scope)."),
 "C02": dict(level="exploration", tech="runtime monitoring: event-ordered loss oracle (reply consumed by the reader => call must return exactly that reply) with windows forced by a synchronous fake connection and verif hook points; race detector",
   text="The arrival windows the statement names (before the send returns, between send and wait, while waiting; with EOF / read error right after the reply) are constructed deterministically and repeated; a consumed reply followed by an error, timeout or later-transmission reply is the violation. Staggered phase: idle/dial timeouts of 100-300 ms with several queries outstanding and answers later than the idle timeout but well inside the reply-wait timeout and the callers' deadlines.",
   note="'Received' = taken from the fake connection by the client's reader goroutine. Only arrivals >=200 ms before the deadline are judged."),
 "C03": dict(level="exploration", tech="runtime monitoring: differential oracle on EntryHandler / real sockets with independent wire parser over generated queries x generated plugin compositions",
   text="Wire-level generated queries (valid and malformed) through generated compositions of the real built-in plugins; the reply bytes are parsed independently and compared with the query and with the recorded plugin-chain outcome (ID, raw question, QR/RA, rcode class, UDP size bound, TC on shrink, exactly one reply).",
   note="Plugin outcome recorded by a wrapper around the entry executable; independent parser lib/wire trusted."),
 "C04": dict(level="exploration", tech="runtime monitoring: unique-marker collision detection through the real cache plugin (store pass, lookup pass, both orders)",
   text="Each query of a family stores a unique marker; a second pass records which marker every hit carries; a foreign marker is a collision witness. Exhaustive over all 65536 types (and classes in thorough), the 8 flag combinations and name families. Chain and multi-cache phases: the cache inside real sequences with redirect / dual_selector / hosts before, behind and between up to three caches; served question = asked question and the answer was issued for exactly that question.",
   note="Cache sized so that eviction does not hide entries (hit ratio checked, else inconclusive)."),
 "C05": dict(level="exploration", tech="runtime monitoring: bracketed-time TTL oracle with entries of chosen age injected through /load_dump, expiry read back through /dump, gated lazy-refresh bursts under the race detector",
   text="TTL ageing, floor, expiry boundary, admission rules per rcode/TC/zero-TTL, negative lifetimes and single-flight lazy refresh are observed on the real plugin for thousands of injected entries and concurrent bursts.",
   note="Wall clock read by mosdns is bracketed (t0,t1); a result is accepted iff right for some instant in the bracket."),
 "C06": dict(level="exploration", tech="runtime monitoring: trace-equality differential against an independent reference interpreter over generated rule text",
   text="Random and template sequence programs (jump/goto/return/accept/reject, negation, wrappers re-running continuations sequentially and concurrently) are built through the real parser and executed; ordered matcher/action traces, final response and error must equal the reference interpreter's.",
   note="Reference interpreter written from the statement; shares no code with chain.go."),
 "C07": dict(level="fault_enumeration", tech="runtime monitoring: fault-script enumeration (fault x injection point x ender x transport x callers) with bounded-progress watchdogs, goroutine/connection leak monitor, race detector",
   text="Every single fault x point x ender combination is enumerated on fake connections; each call must return within a generous bound after its enabling event, Close must fail later calls without dial/write, and no transport goroutine or open connection may remain.",
   note="Liveness restated as bounded progress (bounds >= 10x nominal); an execution that would return after the bound is misjudged."),
 "C08": dict(level="fault_enumeration", tech="runtime monitoring: connection-kill scripts with per-connection attempt accounting from the fake network's write log",
   text="Server kill scripts (close after reply, after idling, reset on next write, close with k in flight, k consecutive reused failures) enumerated up to a length; a call may fail only for the four reasons the statement lists and no query is written on more than 4 connections. Reply-then-close phase: the last answered query's Write returns only after the client consumed the reply / saw the close; an answered query must neither fail nor be transmitted again.",
   note="Attempts counted by connection from the harness log; UDP resends on one socket are one attempt."),
 "C09": dict(level="exploration", tech="runtime monitoring: barrier-phase concurrency bound, conservation invariant read under the code's own locks (VerifSnapshot hook) at quiescent points, capacity probes after random histories; race detector",
   text="Upper bound measured in phases where no call can have returned; reserved/queued counters must be zero at quiescence and never negative; after arbitrary histories a live connection must admit exactly its limit before a new dial; early reservations must survive a successful dial. Admission ledger: single-driver histories over every way capacity is taken and given back (reserve, refused, withdraw, completed, failed, cancelled) with the admission decision judged after every step.",
   note="Needs the verif-only snapshot shim; histories are sampled."),
 "C10": dict(level="exploration", tech="runtime monitoring: byte-wise pristine-copy comparison after adversarial in-place mutation of stored and served messages; race detector (cache vs mutator races are violations)",
   text="Every field reachable from a served or stored message is mutated in place; later hits must still equal the pristine packed answer (TTL ageing and ID aside); a concurrent phase lets the race detector find shared state.",
   note="Pristine copy made by the harness before the store."),
 "C11": dict(level="exploration", tech="runtime monitoring: recorded concurrent histories checked offline with porcupine against a nondeterministic may-forget model (partitioned by key), Len() sampling, race detector",
   text="Many short concurrent histories with colliding shards, expiries around now, flushes, sweeps and Range; porcupine decides per key whether observed values are explainable; capacity sampled; races in the anchored packages are violations.",
   note="Porcupine timeouts are inconclusive; per-key flush semantics."),
 "C12": dict(level="exploration", tech="runtime monitoring: differential oracle against a naive linear reference matcher over generated rule sets and derived names",
   text="Rule sets over a tiny label alphabet (overlap, nesting, non-boundary suffixes, duplicates) and names derived from them; Match result and value precedence compared with a reference written from the statement. Concurrent-lookup phase: 8 barrier-released goroutines per shared matcher instance on 11 load routes, every concurrent answer checked against the reference.",
   note="Where the statement leaves ties open any allowed candidate is accepted."),
 "C13": dict(level="exploration", tech="runtime monitoring: differential oracle (linear scan over original prefixes) + structural invariant of the sorted list read through a verif hook",
   text="Random prefix multisets (all lengths, nesting, adjacency, duplicates, mapped forms, shuffled orders) probed at boundary addresses; Contains compared with an independent bit compare; sorted/disjoint/masked invariant asserted after Sort.",
   note="Zoned addresses out of scope."),
 "C14": dict(level="exploration", tech="runtime monitoring: event-ordered scripted in-memory upstreams (released via verif hook), expected outcome computed from the statement; leak monitor; race detector",
   text="Outcome vectors x arrival orders x cancellations enumerated (thorough: full product); the returned reply/error, the set of queried upstreams, payload privacy and goroutine termination are checked.",
   note="Uses the verif-only VerifNewForward constructor and the forward.result.delivered hook."),
 "C15": dict(level="exploration", tech="runtime monitoring: two-point OPT observation (upstream-side and client-side bytes) with independent parser over generated client OPTs x upstream OPTs x plugin chains",
   text="What reaches the upstream and what reaches the client are parsed independently; OPT count, DO mirroring, option allow-lists derived from the generated chain, OPT TTL field integrity and absence of OPT in cache dumps are checked.",
   note="Allow-lists derived from the structured chain description."),
 "C16": dict(level="exploration", tech="runtime monitoring: independent framer round-trips over every length/chunking class, garbage streams, concurrent pipelined replies on real loopback TCP/TLS/DoQ; pool sanitizer; race detector",
   text="Every writer/reader pair is round-tripped through an independent framer with PRNG content; out-of-range lengths must be refused; garbage must error, never panic; concurrent server replies must arrive as intact frames.",
   note="Thorough enumerates every length 13..65535."),
 "C17": dict(level="exploration", tech="runtime monitoring: dual-listener (UDP+TCP same port) oracle over header flag words with unique tokens; pool sanitizer",
   text="For each UDP reply flag word the harness knows which listener saw the query and which reply was returned; TC set must cause the same query over TCP and return the TCP reply; TC clear must not open TCP.",
   note="TCP failure outcome judged leniently (statement is silent)."),
 "C18": dict(level="exploration", tech="runtime monitoring: syscall tracing (strace connect/sendmsg) + SOCKS5/loopback/TLS-SNI observers over the address grammar",
   text="Every generated address string is either rejected at creation or every observed socket destination / SNI equals what the user wrote (defaults 53/853/443, dial_addr override). History phase: bootstrap refreshes forced through the bootstrap.tryupdate hook; new connections must settle on the newest resolved address, SNI unchanged.",
   note="Expected destination derived from the structured case, not by re-parsing the string."),
 "C19": dict(level="fault_enumeration", tech="runtime monitoring: dump/reload differential with independent decoder, every truncation point of the dump stream, damaged/hostile inputs with heap watchdog",
   text="Reloaded caches must serve the same answers/TTLs/expiries; every prefix of a dump must report an error and add only entries of the intact dump; hostile inputs must not panic, hang or allocate without bound. Overlapping dumps (API handler, real listener, periodic file dump, Close) on one cache must each reload to the live entries; the dump file written by overlapping file dumps is judged as a restart would read it.",
   note="Thorough enumerates all prefixes of several dumps."),
 "C20": dict(level="exploration", tech="runtime monitoring: trace rules over scripted primary/secondary executables with the completion-signal interleaving forced at verif hook points; race detector",
   text="Outcome x timing x standby x hook-pause x cancellation cells repeated; R1-R6 trace rules decide each execution; the standby race is forced deterministically by pausing the primary after it signalled done. Every failing branch draws its error kind (plain, context-flavoured, net timeout, sentinel, joined/wrapped) and is judged by the same rules.",
   note="R1 uses the sound 'timer cannot fire early' bound; no upper-bound timing verdicts."),
}

def main():
    checks, na = [], []
    for pid in sorted(P):
        p = P[pid]
        have = os.path.exists(os.path.join(ROOT, "harness", "cmd", pid.lower(), "main.go")) and pid in BUILT
        if not have:
            na.append({"property_id": pid, "reason": "check not yet built/trusted in this commit (runtime monitoring applies; see DESIGN.md section 4 " + pid + ")"})
            continue
        checks.append({
            "property_id": pid,
            "quick_cmd": "./check %s quick" % pid,
            "thorough_cmd": "./check %s thorough" % pid,
            "evidence_file": "/verif/evidence/%s.json" % pid,
            "replay_cmd_template": "./check %s --replay {path}" % pid,
            "engine": "harness",
            "level_claimed": {"category": p["level"], "text": p["text"], "design_ref": "DESIGN.md section 4, " + pid},
            "level_note": p["note"],
            "technique": p["tech"],
        })
    m = {
        "version": 1,
        "setup_cmd": "./setup.sh",
        "hooks": {
            "guard": "verif",
            "enable": "go build -tags verif (Go build tag); harness module replaces github.com/IrineSistiana/mosdns/v5 => /repo so every check rebuilds the current working tree with hooks on",
            "baseline_off_cmd": "cd /repo && GOFLAGS=-mod=mod GOPROXY=off GOSUMDB=off go test -json -vet=off -count=1 -timeout 25m ./...",
            "source_commits": HOOK_COMMITS,
            "add_only": True,
        },
        "engines": [{"name": "harness", "path": "/verif/harness", "serves_properties": [c["property_id"] for c in checks],
                     "kind_free_text": "Go module of workload+monitor programs (one per property) run by /verif/check: race detector, buffer-pool sanitizer, leak monitor, verif schedule hooks, porcupine, strace"}],
        "checks": checks,
        "not_applicable": na,
        "notes": "exit 3 from a check = inconclusive (never a VIOLATION). KNOWN_FINDINGS.txt lists fixed/known findings. VERIF_REPO=<dir> ./check ... runs a check against another checkout (seeded changes) without touching /repo.",
    }
    json.dump(m, open(os.path.join(ROOT, "MANIFEST.json"), "w"), indent=1)
    print("claimed:", [c["property_id"] for c in checks])

main()
