#!/bin/bash
# usage: seed_auto.sh <PROP> <LETTER> [extra check ids]  - derives demo package dir and test regex from the delivered files
PROP=$1; L=$2; shift 2
prop=$(echo $PROP | tr A-Z a-z)
SRC=/tmp/seedout-$prop/$L
DEMO=$(ls $SRC/*_test.go 2>/dev/null | head -1)
[ -n "$DEMO" ] || { echo "$PROP-$L: no demo test file"; exit 9; }
RUN="^($(grep -ho '^func Test[A-Za-z0-9_]*' $DEMO | sed 's/func //' | paste -sd'|'))\$"
PKG=$(grep -ho 'go test[^`]*' $SRC/README.md | grep -o '\./[A-Za-z0-9_/]*' | head -1 | sed 's|^\./||; s|/$||')
[ -d /repo/$PKG ] && [ -n "$PKG" ] || { echo "$PROP-$L: cannot derive package dir ($PKG)"; exit 9; }
echo "== $PROP-$L pkg=$PKG run=$RUN"
/verif/tools/seed_intake.sh $PROP $L $PKG "$RUN" $PROP "$@" 2>&1 | grep -v "^$" | grep -v "^build_with" | cut -c1-330
