#!/bin/bash
# usage: seed_recheck.sh <NAME e.g. C09-G> [check ids; default: the checks recorded in meta.json]
# Re-runs the quick checks against the seeded change (patch applied to a scratch worktree of /repo HEAD)
# and rewrites checks_run / caught_by_quick in seeded/<NAME>/meta.json. Demo and suite results are kept.
export GOFLAGS=-mod=mod GOPROXY=off GOSUMDB=off GOTOOLCHAIN=local
NAME=$1; shift
DST=/verif/seeded/$NAME
[ -f $DST/patch.diff ] || { echo "no $DST/patch.diff"; exit 9; }
CHECKS=${@:-$(python3 -c "
import json,re;d=json.load(open('$DST/meta.json'));print(' '.join(re.match(r'check=(C\d+)',l).group(1) for l in d['checks_run']))")}
WT=$(mktemp -d /tmp/wt-rechk-XXXXXX); rmdir $WT
git -C /repo worktree add -q $WT HEAD || exit 9
# a seed whose premise was removed by a later fix is re-created on its own base: meta.apply_first names a
# diff (relative to /verif) that is applied before the seed's patch
FIRST=$(python3 -c "
import json;print(json.load(open('$DST/meta.json')).get('apply_first',''))")
if [ -n "$FIRST" ]; then git -C $WT apply /verif/$FIRST || { echo "$NAME apply_first FAILED"; git -C /repo worktree remove --force $WT; exit 9; }; fi
git -C $WT apply $DST/patch.diff || { echo "$NAME PATCH FAILED"; git -C /repo worktree remove --force $WT; exit 9; }
: > $WT.res
for C in $CHECKS; do
  (cd /verif && VERIF_REPO=$WT ./check $C quick > $WT.c 2>&1); rc=$?
  keys=$(grep -o "key=[^ :]*" $WT.c | sort -u | head -5 | tr '\n' ' ')
  echo "check=$C quick exit=$rc $keys" >> $WT.res
done
python3 - "$DST" "$WT.res" <<'PY'
import json,sys,re
dst,resf=sys.argv[1:3]
lines=[l for l in open(resf).read().strip().split("\n") if l]
d=json.load(open(dst+"/meta.json"))
# merge: lines of checks that were not re-run are kept
new={re.match(r'check=(C\d+)',l).group(1):l for l in lines}
kept=[l for l in d.get("checks_run",[]) if re.match(r'check=(C\d+)',l).group(1) not in new]
own=d["property"]
lines=sorted(kept+lines,key=lambda l:(re.match(r'check=(C\d+)',l).group(1)!=own,))
d["checks_run"]=lines
d["caught_by_quick"]=[re.match(r'check=(C\d+)',l).group(1) for l in lines if ' exit=1 ' in l+' ']
json.dump(d,open(dst+"/meta.json","w"),indent=1)
print(d["id"],"caught_by:",d["caught_by_quick"], "| not:", [re.match(r'check=(C\d+)',l).group(1) for l in lines if ' exit=1 ' not in l+' '])
PY
rm -f $WT.res $WT.c
git -C /repo worktree remove --force $WT; git -C /repo worktree prune
