#!/bin/bash
# usage: sweep.sh "<seeds>" [tier] [ids...]  -> one line per (id, seed) with exit code and wall time
SEEDS=${1:-"1 2 3"}; TIER=${2:-quick}; shift 2 2>/dev/null
IDS=${@:-$(cat "$(dirname "$0")/built.txt")}
cd "$(dirname "$0")/.."
for s in $SEEDS; do for id in $IDS; do
  t0=$(date +%s)
  out=$(VERIF_SEED=$s ./check $id $TIER 2>&1); rc=$?
  t1=$(date +%s)
  echo "$id seed=$s tier=$TIER exit=$rc wall=$((t1-t0))s $(echo "$out" | grep -E '^VIOLATION|^INCONCLUSIVE|^KNOWN' | head -3 | cut -c1-200 | tr '\n' '|')"
done; done
