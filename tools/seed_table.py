#!/usr/bin/env python3
"""prints a markdown table of /verif/seeded/*/meta.json (used for DESIGN.md 11.5)"""
import json,glob,os,re
rows=[]
for m in sorted(glob.glob('/verif/seeded/*/meta.json')):
    d=json.load(open(m)); sid=d['id']
    readme=open(os.path.dirname(m)+'/README.md').read() if os.path.exists(os.path.dirname(m)+'/README.md') else ''
    patch=open(os.path.dirname(m)+'/patch.diff').read()
    files=sorted(set(re.findall(r'^\+\+\+ b/(\S+)',patch,re.M)))
    c=d['confirmed']; ok=all(c.values())
    keys=[]
    for l in d['checks_run']:
        mm=re.match(r'check=(C\d+) quick exit=(\d+) ?(.*)',l)
        if mm and mm.group(2)=='1': keys.append(mm.group(1)+': '+', '.join(k.replace('key=','') for k in mm.group(3).split()[:3]))
    rows.append((sid,', '.join(os.path.basename(f) for f in files),'yes' if ok else 'NO',' / '.join(keys) if keys else '**not caught**'))
print('| seeded change | files touched | confirmed (builds, suite green, demo fails with / passes without) | caught by (quick) — first keys |')
print('|---|---|---|---|')
for r in rows: print('| %s | %s | %s | %s |'%r)
