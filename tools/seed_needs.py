#!/usr/bin/env python3
"""Fills meta.json's needs_to_manifest from the author's README.md (the section or paragraph that says
what the change needs in order to manifest). Usage: seed_needs.py [dir ...] (default: all of seeded/)."""
import json,glob,os,re,sys
def extract(readme):
    lines=readme.split('\n')
    # 1. a heading mentioning "manifest" (or "needs"/"trigger"): take its body
    for i,l in enumerate(lines):
        if re.match(r'\s*(#+|\*\*)',l) and re.search(r'manifest|what it needs|needs to|trigger',l,re.I) and not l.startswith('# '):
            inline=re.sub(r'^\s*(#+\s*|\*\*)','',l)
            body=[]
            for m in lines[i+1:]:
                if re.match(r'\s*#+\s',m) or (re.match(r'\s*\*\*[^*]+\*\*\s*$',m) and body): break
                body.append(m)
            txt=(inline+'\n'+'\n'.join(body)).strip()
            if len(txt)>40: return txt
    # 2. paragraphs mentioning "manifest"
    paras=re.split(r'\n\s*\n',readme)
    hit=[p.strip() for p in paras if re.search(r'manifest',p,re.I)]
    if hit: return '\n\n'.join(hit[:2])
    hit=[p.strip() for p in paras if re.search(r'\bneeds?\b|\brequires?\b|only when|only if',p,re.I)]
    if hit: return hit[0]
    return ''
dirs=sys.argv[1:] or sorted(glob.glob('/verif/seeded/*/'))
n=0
for d in dirs:
    m=os.path.join(d,'meta.json'); r=os.path.join(d,'README.md')
    if not (os.path.exists(m) and os.path.exists(r)): continue
    meta=json.load(open(m))
    txt=extract(open(r).read())
    txt=re.sub(r'\s+\n','\n',txt)[:1500]
    meta['needs_to_manifest']=txt or 'see README.md'
    if 'title' not in meta:
        meta['title']=open(r).readline().strip().lstrip('# ').strip()[:300]
    json.dump(meta,open(m,'w'),indent=1); n+=1
    if not txt: print('no text found:',d)
print('filled',n)
