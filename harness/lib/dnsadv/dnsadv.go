// Package dnsadv builds the uniquely-tokenised queries and replies used by the
// transport workloads: every query has a unique question name carrying the call
// sequence number, every reply carries a unique TXT token, so that one returned
// reply identifies exactly which adversary event produced it.
package dnsadv

import (
	"encoding/binary"
	"fmt"
	"strconv"
	"strings"

	"verifharness/lib/wire"
)

// Query builds a query with the given caller ID for call seq.
// name: q<seq>-<salt>.<suite>.test.
func Query(id uint16, seq int, salt uint32, suite string, qtype uint16) []byte {
	name := fmt.Sprintf("q%d-%x.%s.test.", seq, salt, suite)
	return wire.NewBuilder(id, 0x0100).Question(wire.EncodeName(name), qtype, 1).Bytes()
}

// QueryInfo is what the adversary extracts from a received query.
type QueryInfo struct {
	WireID uint16
	Seq    int    // -1 if the name does not carry one
	QSect  []byte // raw question section bytes
	Name   string
}

// ParseQuery extracts the wire ID, the call sequence number and the raw
// question section from a query.
func ParseQuery(b []byte) (QueryInfo, error) {
	qi := QueryInfo{Seq: -1}
	if len(b) < 12 {
		return qi, wire.ErrShort
	}
	qi.WireID = binary.BigEndian.Uint16(b)
	qs, err := wire.QuestionWire(b)
	if err != nil {
		return qi, err
	}
	qi.QSect = append([]byte(nil), qs...)
	m, err := wire.Parse(b)
	if err != nil || len(m.Questions) != 1 {
		return qi, fmt.Errorf("bad query: %v", err)
	}
	qi.Name = m.Questions[0].Name
	qi.Seq = SeqOfName(qi.Name)
	return qi, nil
}

// SeqOfName returns the call sequence number encoded in a question name, or -1.
func SeqOfName(name string) int {
	if !strings.HasPrefix(name, "q") {
		return -1
	}
	i := strings.IndexByte(name, '-')
	if i < 0 {
		return -1
	}
	n, err := strconv.Atoi(name[1:i])
	if err != nil {
		return -1
	}
	return n
}

// Reply builds a reply: header(wireID, flags) + echoed question + TXT(token) +
// optional padding TXT of pad bytes (content from fill).
func Reply(wireID uint16, flags uint16, qsect []byte, token string, pad int, fill byte) []byte {
	b := make([]byte, 12, 12+len(qsect)+32+len(token)+pad+pad/255+16)
	binary.BigEndian.PutUint16(b[0:], wireID)
	binary.BigEndian.PutUint16(b[2:], flags)
	binary.BigEndian.PutUint16(b[4:], 1)
	b = append(b, qsect...)
	an := 1
	appendTXT := func(rd []byte) {
		b = append(b, 0xC0, 0x0C) // pointer to the question name
		b = binary.BigEndian.AppendUint16(b, 16)
		b = binary.BigEndian.AppendUint16(b, 1)
		b = binary.BigEndian.AppendUint32(b, 60)
		b = binary.BigEndian.AppendUint16(b, uint16(len(rd)))
		b = append(b, rd...)
	}
	appendTXT(wire.TXTRdata(token))
	if pad > 0 {
		p := make([]byte, pad)
		for i := range p {
			p[i] = fill + byte(i)
		}
		appendTXT(wire.TXTRdata(string(p)))
		an++
	}
	binary.BigEndian.PutUint16(b[6:], uint16(an))
	return b
}

// ReplyInfo is what a monitor extracts from a returned reply.
type ReplyInfo struct {
	ID    uint16
	Name  string
	Seq   int
	Token string
	Flags uint16
}

// ParseReply decodes a reply built by Reply.
func ParseReply(b []byte) (ReplyInfo, error) {
	ri := ReplyInfo{Seq: -1}
	m, err := wire.Parse(b)
	if err != nil {
		return ri, err
	}
	ri.ID = m.ID
	ri.Flags = m.Flags
	if len(m.Questions) != 1 {
		return ri, fmt.Errorf("reply has %d questions", len(m.Questions))
	}
	ri.Name = m.Questions[0].Name
	ri.Seq = SeqOfName(ri.Name)
	if len(m.Answer) > 0 && m.Answer[0].Type == 16 {
		if ss := wire.TXTStrings(m.Answer[0].Rdata); len(ss) > 0 {
			ri.Token = ss[0]
		}
	}
	return ri, nil
}
