//go:build nopoolsan

package poolsan

// attach: the driver builds with tag nopoolsan when hook.go does not compile
// against the tree under test (pool.GetBuf / pool.ReleaseBuf are no longer
// assignable package variables). The checks then run without this sanitizer
// instead of not running at all.
func attach() bool { return false }
