// Package poolsan is a sanitizer for mosdns' hand-managed byte-buffer pool
// (pkg/pool.GetBuf / ReleaseBuf, both exported package variables).
//
// Install() replaces both before any mosdns goroutine exists. Every buffer is a
// fresh allocation filled with 0xA5 (nothing may rely on zeroed or recycled
// memory). Release requires the buffer to be live (else double/foreign
// release), poisons its whole capacity with 0xDD and parks it in a quarantine;
// when it leaves the quarantine the poison must be intact (else write after
// release). Check() lets a monitor assert that a buffer handed to it is live.
package poolsan

import (
	"bytes"
	"fmt"
	"math/bits"
	"runtime"
	"sync"
	"sync/atomic"
)

const (
	fillByte   = 0xA5
	poisonByte = 0xDD
)

// Report describes one sanitizer finding.
type Report struct {
	Kind  string // double-release | foreign-release | write-after-release | use-after-release | bad-cap
	Stack string
	Info  string
}

type entry struct {
	bp   *[]byte
	size int
}

var (
	mu        sync.Mutex
	installed bool
	live      map[*[]byte]int // -> requested size
	released  map[*[]byte]bool
	ring      []entry
	ringBytes int
	maxBytes  = 96 << 20
	maxRing   = 16384
	reports   []Report
	onReport  func(Report)

	Gets     atomic.Int64
	Releases atomic.Int64
	Evicted  atomic.Int64
)

// Install activates the sanitizer. cb (may be nil) is called for every finding.
func Install(cb func(Report)) {
	mu.Lock()
	defer mu.Unlock()
	if installed {
		onReport = cb
		return
	}
	installed = true
	onReport = cb
	live = map[*[]byte]int{}
	released = map[*[]byte]bool{}
	if !attach() {
		// built with tag nopoolsan: this tree's pool cannot be replaced (see hook_off.go)
		disabled = true
		fmt.Println("NOTE: pool sanitizer not attached: pkg/pool of this tree does not export GetBuf / ReleaseBuf as variables; buffers are not poisoned, use-after-release is left to the race detector and the byte-level oracles")
	}
}

// disabled: Install could not replace the pool (tag nopoolsan); Check accepts everything.
var disabled bool

// Attached reports whether the sanitizer replaced the pool.
func Attached() bool { mu.Lock(); defer mu.Unlock(); return installed && !disabled }

func capFor(size int) int {
	bit := bits.Len(uint(size))
	if bit > 20 {
		return size
	}
	return (1 << bit) - 1
}

func get(size int) *[]byte {
	if size < 0 {
		panic("poolsan: negative buffer size")
	}
	c := capFor(size)
	b := make([]byte, c)
	memset(b, fillByte)
	b = b[:size]
	bp := &b
	Gets.Add(1)
	mu.Lock()
	live[bp] = size
	mu.Unlock()
	return bp
}

func stack() string {
	buf := make([]byte, 8192)
	n := runtime.Stack(buf, false)
	return string(buf[:n])
}

func report(kind, info string) {
	r := Report{Kind: kind, Stack: stack(), Info: info}
	mu.Lock()
	if len(reports) < 100 {
		reports = append(reports, r)
	}
	cb := onReport
	mu.Unlock()
	if cb != nil {
		cb(r)
	}
}

func release(bp *[]byte) {
	Releases.Add(1)
	mu.Lock()
	_, isLive := live[bp]
	wasReleased := released[bp]
	if isLive {
		delete(live, bp)
	}
	mu.Unlock()
	if !isLive {
		if wasReleased {
			report("double-release", fmt.Sprintf("buffer %p released twice", bp))
		} else {
			report("foreign-release", fmt.Sprintf("buffer %p was not obtained from the pool (or left the quarantine long ago)", bp))
		}
		return
	}
	c := cap(*bp)
	if bit := bits.Len(uint(c)); bit <= 20 && c != (1<<bit)-1 {
		report("bad-cap", fmt.Sprintf("released buffer has cap %d (the real pool panics on this)", c))
	}
	full := (*bp)[:c]
	memset(full, poisonByte)
	var evict []entry
	mu.Lock()
	released[bp] = true
	ring = append(ring, entry{bp: bp, size: c})
	ringBytes += c
	for len(ring) > maxRing || ringBytes > maxBytes {
		e := ring[0]
		ring = ring[1:]
		ringBytes -= e.size
		delete(released, e.bp)
		evict = append(evict, e)
	}
	mu.Unlock()
	for _, e := range evict {
		Evicted.Add(1)
		checkPoison(e)
	}
}

func checkPoison(e entry) {
	full := (*e.bp)[:cap(*e.bp)]
	if cap(*e.bp) != e.size {
		report("write-after-release", fmt.Sprintf("slice header of released buffer %p changed (cap %d -> %d)", e.bp, e.size, cap(*e.bp)))
		return
	}
	for off := 0; off < len(full); off += len(poisonBlock) {
		chunk := full[off:]
		if len(chunk) > len(poisonBlock) {
			chunk = chunk[:len(poisonBlock)]
		}
		if bytes.Equal(chunk, poisonBlock[:len(chunk)]) {
			continue
		}
		for i, b := range chunk {
			if b != poisonByte {
				report("write-after-release", fmt.Sprintf("released buffer %p modified at offset %d (0x%02x)", e.bp, off+i, b))
				return
			}
		}
	}
}

var poisonBlock = bytes.Repeat([]byte{poisonByte}, 4096)

// memset fills b with c using doubling copies (one instrumented range access
// per copy instead of one per byte under the race detector).
func memset(b []byte, c byte) {
	if len(b) == 0 {
		return
	}
	b[0] = c
	for i := 1; i < len(b); i *= 2 {
		copy(b[i:], b[:i])
	}
}

// Check asserts that bp is a live pool buffer (not released). what names the
// hand-over point for the report.
func Check(bp *[]byte, what string) bool {
	mu.Lock()
	if disabled {
		mu.Unlock()
		return true
	}
	_, isLive := live[bp]
	wasReleased := released[bp]
	mu.Unlock()
	if isLive {
		return true
	}
	if wasReleased {
		report("use-after-release", what+": buffer handed out after it was released to the pool")
	} else {
		report("use-after-release", what+": buffer is not a live pool buffer")
	}
	return false
}

// Sweep verifies the poison of everything in quarantine (call at quiescent points).
func Sweep() {
	mu.Lock()
	es := append([]entry(nil), ring...)
	mu.Unlock()
	for _, e := range es {
		checkPoison(e)
	}
}

// Live returns the number of buffers obtained and not yet released.
func Live() int { mu.Lock(); defer mu.Unlock(); return len(live) }

// Reports returns the findings so far.
func Reports() []Report { mu.Lock(); defer mu.Unlock(); return append([]Report(nil), reports...) }
