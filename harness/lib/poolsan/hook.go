//go:build !nopoolsan

package poolsan

import "github.com/IrineSistiana/mosdns/v5/pkg/pool"

// attach replaces the pool's exported function variables.
func attach() bool {
	pool.GetBuf = get
	pool.ReleaseBuf = release
	return true
}
