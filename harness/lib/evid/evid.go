// Package evid is the verdict/evidence/replay writer shared by all property
// programs. It implements the interface contract of the task: evidence JSON per
// EVIDENCE.schema.json, "VIOLATION property=<id> replay=<path>" lines,
// "KNOWN-FINDING: property=<id> ..." lines for findings listed in
// KNOWN_FINDINGS.txt, exit 0 / 1 / 3 (held / violated / inconclusive; 2 is what a Go panic exits with).
package evid

import (
	"bufio"
	"encoding/json"
	"flag"
	"fmt"
	"hash/fnv"
	"os"
	"path/filepath"
	"regexp"
	"sort"
	"strconv"
	"strings"
	"sync"
	"time"
)

type violation struct {
	Key    string `json:"key"`
	What   string `json:"what"`
	Count  int    `json:"count"`
	Replay string `json:"replay"`
	Known  bool   `json:"known"`

	printed bool
}

// Reporter collects what one run observed.
type Reporter struct {
	ID    string
	Level string
	Tier  string
	Seed  int64

	EvidencePath string
	ReplayDir    string
	KnownPath    string
	ReplayFile   string // --replay <file>: re-execute that case

	start time.Time

	mu           sync.Mutex
	evals        int64
	distinct     map[uint64]struct{}
	rule         string
	samples      []any
	maxSamples   int
	counters     map[string]int64
	sets         map[string]map[string]struct{}
	extra        map[string]any
	assumptions  []string
	viols        map[string]*violation
	violOrder    []string
	known        map[string]string
	inconclusive []string
	exhaustive   *bool
}

// New parses the common flags / environment and returns a Reporter.
// usage: prog [-tier quick|thorough] [-seed N] [-evidence path] [-replaydir dir] [-known file] [-replay file]
func New(id, level string) *Reporter {
	r := &Reporter{
		ID: id, Level: level,
		start:      time.Now(),
		distinct:   map[uint64]struct{}{},
		counters:   map[string]int64{},
		sets:       map[string]map[string]struct{}{},
		extra:      map[string]any{},
		viols:      map[string]*violation{},
		known:      map[string]string{},
		maxSamples: 8,
	}
	tier := os.Getenv("VERIF_TIER")
	if tier == "" {
		tier = "quick"
	}
	seed := int64(1)
	if s := os.Getenv("VERIF_SEED"); s != "" {
		if v, err := strconv.ParseInt(s, 10, 64); err == nil {
			seed = v
		}
	}
	root := os.Getenv("VERIF_ROOT")
	if root == "" {
		root = "/verif"
	}
	fs := flag.NewFlagSet(id, flag.ExitOnError)
	fs.StringVar(&r.Tier, "tier", tier, "quick|thorough")
	fs.Int64Var(&r.Seed, "seed", seed, "PRNG seed")
	fs.StringVar(&r.EvidencePath, "evidence", filepath.Join(root, "evidence", id+".json"), "evidence file")
	fs.StringVar(&r.ReplayDir, "replaydir", filepath.Join(root, "evidence", "replay"), "replay dir")
	fs.StringVar(&r.KnownPath, "known", filepath.Join(root, "KNOWN_FINDINGS.txt"), "known findings file")
	fs.StringVar(&r.ReplayFile, "replay", "", "replay file to re-execute")
	_ = fs.Parse(os.Args[1:])
	if r.Tier != "quick" && r.Tier != "thorough" {
		fmt.Fprintf(os.Stderr, "bad tier %q\n", r.Tier)
		os.Exit(2)
	}
	r.loadKnown()
	return r
}

var knownRe = regexp.MustCompile(`^known:\s+property=(\S+)\s+key=(\S+)\s+(.*)$`)

func (r *Reporter) loadKnown() {
	f, err := os.Open(r.KnownPath)
	if err != nil {
		return
	}
	defer f.Close()
	sc := bufio.NewScanner(f)
	for sc.Scan() {
		m := knownRe.FindStringSubmatch(strings.TrimSpace(sc.Text()))
		if m == nil || m[1] != r.ID {
			continue
		}
		r.known[m[2]] = m[3]
	}
}

// Thorough reports whether the thorough tier was requested.
func (r *Reporter) Thorough() bool { return r.Tier == "thorough" }

// Pick returns q in the quick tier and t in the thorough tier.
func (r *Reporter) Pick(q, t int) int {
	if r.Thorough() {
		return t
	}
	return q
}

// SetRule states how cases are generated and what makes one non-trivial.
func (r *Reporter) SetRule(s string) { r.mu.Lock(); r.rule = s; r.mu.Unlock() }

// Assume records an assumption / trusted-base item.
func (r *Reporter) Assume(s string) {
	r.mu.Lock()
	r.assumptions = append(r.assumptions, s)
	r.mu.Unlock()
}

// Eval counts n evaluated cases.
func (r *Reporter) Eval(n int) { r.mu.Lock(); r.evals += int64(n); r.mu.Unlock() }

// Nontrivial records the fingerprint of a case that satisfies the property's
// non-triviality rule; distinct fingerprints are counted.
func (r *Reporter) Nontrivial(fp string) {
	h := fnv.New64a()
	h.Write([]byte(fp))
	k := h.Sum64()
	r.mu.Lock()
	r.distinct[k] = struct{}{}
	r.mu.Unlock()
}

// Sample keeps up to maxSamples written-out cases.
func (r *Reporter) Sample(v any) {
	r.mu.Lock()
	if len(r.samples) < r.maxSamples {
		r.samples = append(r.samples, v)
	}
	r.mu.Unlock()
}

// WantSample reports whether another sample would be kept.
func (r *Reporter) WantSample() bool {
	r.mu.Lock()
	defer r.mu.Unlock()
	return len(r.samples) < r.maxSamples
}

// Count adds n to a named monitor counter (written into coverage).
func (r *Reporter) Count(name string, n int64) { r.mu.Lock(); r.counters[name] += n; r.mu.Unlock() }

// Max keeps the maximum of a named counter.
func (r *Reporter) Max(name string, v int64) {
	r.mu.Lock()
	if v > r.counters[name] {
		r.counters[name] = v
	}
	r.mu.Unlock()
}

// Get returns a counter.
func (r *Reporter) Get(name string) int64 { r.mu.Lock(); defer r.mu.Unlock(); return r.counters[name] }

// SetAdd adds member to a named set; the set sizes are written as distinct_<name>.
func (r *Reporter) SetAdd(name, member string) {
	r.mu.Lock()
	s := r.sets[name]
	if s == nil {
		s = map[string]struct{}{}
		r.sets[name] = s
	}
	if len(s) < 1<<20 {
		s[member] = struct{}{}
	}
	r.mu.Unlock()
}

// SetLen returns the size of a named set.
func (r *Reporter) SetLen(name string) int {
	r.mu.Lock()
	defer r.mu.Unlock()
	return len(r.sets[name])
}

// Extra stores an arbitrary value in coverage.
func (r *Reporter) Extra(k string, v any) { r.mu.Lock(); r.extra[k] = v; r.mu.Unlock() }

// Exhaustive marks the run as having enumerated a finite space completely.
func (r *Reporter) Exhaustive(b bool) { r.mu.Lock(); r.exhaustive = &b; r.mu.Unlock() }

// Inconclusive records that part of the run could not decide (exit 2 if no violation).
func (r *Reporter) Inconclusive(format string, a ...any) {
	r.mu.Lock()
	if len(r.inconclusive) < 50 {
		r.inconclusive = append(r.inconclusive, fmt.Sprintf(format, a...))
	}
	r.mu.Unlock()
}

var keySan = regexp.MustCompile(`[^A-Za-z0-9._~-]+`)

// Violation records a violation identified by a stable key (failing input /
// call site / schedule class). The first witness per key is written to a replay
// file; later ones only count.
func (r *Reporter) Violation(key, what string, replay any) {
	key = keySan.ReplaceAllString(key, "_")
	r.mu.Lock()
	defer r.mu.Unlock()
	if v := r.viols[key]; v != nil {
		v.Count++
		return
	}
	v := &violation{Key: key, What: what, Count: 1}
	_, v.Known = r.known[key]
	_ = os.MkdirAll(r.ReplayDir, 0o755)
	name := fmt.Sprintf("%s-%s-seed%d.json", r.ID, key, r.Seed)
	if len(name) > 180 {
		name = name[:180] + ".json"
	}
	v.Replay = filepath.Join(r.ReplayDir, name)
	doc := map[string]any{
		"property": r.ID, "key": key, "what": what, "seed": r.Seed, "tier": r.Tier, "case": replay,
	}
	b, err := json.MarshalIndent(doc, "", " ")
	if err != nil {
		b, _ = json.MarshalIndent(map[string]any{"property": r.ID, "key": key, "what": what, "seed": r.Seed, "case": fmt.Sprintf("%+v", replay)}, "", " ")
	}
	_ = os.WriteFile(v.Replay, b, 0o644)
	r.viols[key] = v
	r.violOrder = append(r.violOrder, key)
	// print at once: if the workload later hangs or crashes the finding is not lost
	if v.Known {
		fmt.Printf("KNOWN-FINDING: property=%s %s (key=%s)\n", r.ID, r.known[key], key)
	} else {
		fmt.Printf("VIOLATION property=%s replay=%s\n", r.ID, v.Replay)
		fmt.Printf("  key=%s: %s\n", key, what)
	}
	v.printed = true
	os.Stdout.Sync()
}

// Violations returns the number of distinct violation keys so far (known included).
func (r *Reporter) Violations() int { r.mu.Lock(); defer r.mu.Unlock(); return len(r.viols) }

// LoadReplay decodes the "case" member of the replay file given with -replay.
func (r *Reporter) LoadReplay(into any) error {
	b, err := os.ReadFile(r.ReplayFile)
	if err != nil {
		return err
	}
	var doc struct {
		Seed int64           `json:"seed"`
		Case json.RawMessage `json:"case"`
	}
	if err := json.Unmarshal(b, &doc); err != nil {
		return err
	}
	r.Seed = doc.Seed
	return json.Unmarshal(doc.Case, into)
}

// Write writes the evidence file (without exiting) and returns the exit code.
func (r *Reporter) Write() int {
	r.mu.Lock()
	defer r.mu.Unlock()
	cov := map[string]any{
		"evaluations":         r.evals,
		"distinct_nontrivial": len(r.distinct),
		"rule":                r.rule,
		"samples":             r.samples,
	}
	if r.samples == nil {
		cov["samples"] = []any{}
	}
	if r.exhaustive != nil {
		cov["exhaustive"] = *r.exhaustive
	}
	names := make([]string, 0, len(r.counters))
	for k := range r.counters {
		names = append(names, k)
	}
	sort.Strings(names)
	mon := map[string]int64{}
	for _, k := range names {
		mon[k] = r.counters[k]
	}
	cov["monitor_counters"] = mon
	for k, s := range r.sets {
		cov["distinct_"+k] = len(s)
		mem := make([]string, 0, len(s))
		for m := range s {
			mem = append(mem, m)
		}
		sort.Strings(mem)
		if len(mem) > 25 {
			mem = mem[:25]
		}
		cov["some_"+k] = mem
	}
	for k, v := range r.extra {
		cov[k] = v
	}
	unknown := 0
	var vl []*violation
	for _, k := range r.violOrder {
		v := r.viols[k]
		vl = append(vl, v)
		if !v.Known {
			unknown++
		}
	}
	if len(vl) > 0 {
		cov["violation_keys"] = vl
	}
	if len(r.inconclusive) > 0 {
		cov["inconclusive"] = r.inconclusive
	}
	verdict := "held_on_observed"
	code := 0
	switch {
	case unknown > 0:
		verdict, code = "violated", 1
	case len(r.inconclusive) > 0:
		verdict, code = "inconclusive", 3
	case len(vl) > 0:
		verdict = "held_except_known_findings"
	}
	cov["verdict"] = verdict
	doc := map[string]any{
		"property_id": r.ID,
		"tier":        r.Tier,
		"seed":        r.Seed,
		"level":       r.Level,
		"coverage":    cov,
		"assumptions": r.assumptions,
		"wall_s":      time.Since(r.start).Seconds(),
		"violations":  unknown,
	}
	if r.assumptions == nil {
		doc["assumptions"] = []string{}
	}
	b, _ := json.MarshalIndent(doc, "", " ")
	_ = os.MkdirAll(filepath.Dir(r.EvidencePath), 0o755)
	tmp := r.EvidencePath + ".tmp"
	if err := os.WriteFile(tmp, b, 0o644); err == nil {
		_ = os.Rename(tmp, r.EvidencePath)
	}
	for _, v := range vl {
		switch {
		case v.printed:
			fmt.Printf("  (key=%s seen %d times this run)\n", v.Key, v.Count)
		case v.Known:
			fmt.Printf("KNOWN-FINDING: property=%s %s (key=%s, seen %d times this run)\n", r.ID, r.known[v.Key], v.Key, v.Count)
		default:
			fmt.Printf("VIOLATION property=%s replay=%s\n", r.ID, v.Replay)
			fmt.Printf("  key=%s count=%d: %s\n", v.Key, v.Count, v.What)
		}
	}
	for _, s := range r.inconclusive {
		fmt.Printf("INCONCLUSIVE property=%s %s\n", r.ID, s)
	}
	fmt.Printf("%s %s seed=%d: %s; evaluations=%d distinct_nontrivial=%d wall=%.1fs\n",
		r.ID, r.Tier, r.Seed, verdict, r.evals, len(r.distinct), time.Since(r.start).Seconds())
	return code
}

// Finish writes the evidence and exits with the verdict's code.
func (r *Reporter) Finish() {
	code := r.Write()
	os.Stdout.Sync()
	os.Exit(code)
}

// CaseLog appends case descriptors to a file *before* each case runs so that a
// crash (panic, fatal error, watchdog kill) can be attributed to the last case.
type CaseLog struct {
	mu sync.Mutex
	f  *os.File
}

// OpenCaseLog opens the file named by env VERIF_CASELOG (set by the driver);
// with the variable unset it logs nowhere.
func OpenCaseLog() *CaseLog {
	p := os.Getenv("VERIF_CASELOG")
	if p == "" {
		return &CaseLog{}
	}
	f, err := os.OpenFile(p, os.O_CREATE|os.O_WRONLY|os.O_TRUNC, 0o644)
	if err != nil {
		return &CaseLog{}
	}
	return &CaseLog{f: f}
}

// Log overwrites the record of the current case.
func (c *CaseLog) Log(v any) {
	if c.f == nil {
		return
	}
	b, _ := json.Marshal(v)
	c.mu.Lock()
	_ = c.f.Truncate(0)
	_, _ = c.f.WriteAt(append(b, '\n'), 0)
	c.mu.Unlock()
}
