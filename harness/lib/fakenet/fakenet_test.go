package fakenet

import (
	"io"
	"testing"
	"time"
)

func TestBasic(t *testing.T) {
	n := NewNet()
	c := n.NewConn(true)
	c.OnWrite = func(c *Conn, b []byte) error { c.Inject(b); return nil }
	c.Write([]byte("abcdef"))
	c.MaxRead = 4
	p := make([]byte, 10)
	k, err := c.Read(p)
	if k != 4 || err != nil {
		t.Fatal(k, err)
	}
	k, _ = c.Read(p)
	if k != 2 {
		t.Fatal(k)
	}
	c.SetReadDeadline(time.Now().Add(20 * time.Millisecond))
	t0 := time.Now()
	_, err = c.Read(p)
	if err == nil || time.Since(t0) < 15*time.Millisecond {
		t.Fatal(err)
	}
	c.SetReadDeadline(time.Time{})
	go func() { time.Sleep(10 * time.Millisecond); c.InjectEOF() }()
	_, err = c.Read(p)
	if err != io.EOF {
		t.Fatal(err)
	}
	go func() { time.Sleep(10 * time.Millisecond); c.Close() }()
	c2 := n.NewConn(false)
	go func() { time.Sleep(10 * time.Millisecond); c2.Close() }()
	_, err = c2.Read(p)
	if err != io.ErrClosedPipe {
		t.Fatal(err)
	}
}
