// Package fakenet provides an adversarial in-memory connection implementing
// mosdns' transport.NetConn. The peer ("adversary") is harness code: it sees
// every client Write synchronously through OnWrite, decides what becomes
// readable and when (Inject / InjectEOF / InjectErr), and can observe exactly
// which injected units the client's reader has consumed.
//
// All state is guarded by one mutex; the OnWrite callback runs outside it.
package fakenet

import (
	"errors"
	"io"
	"net"
	"os"
	"sync"
	"sync/atomic"
	"time"
)

// ErrInjected is the default injected I/O error.
var ErrInjected = errors.New("fakenet: injected i/o error")

type timeoutErr struct{}

func (timeoutErr) Error() string   { return "fakenet: i/o timeout" }
func (timeoutErr) Timeout() bool   { return true }
func (timeoutErr) Temporary() bool { return true }
func (timeoutErr) Unwrap() error   { return os.ErrDeadlineExceeded }

// ErrTimeout is returned when a deadline expires.
var ErrTimeout net.Error = timeoutErr{}

// deadline is a resettable deadline (same idea as net.Pipe's pipeDeadline).
type deadline struct {
	mu     sync.Mutex
	timer  *time.Timer
	cancel chan struct{}
}

func makeDeadline() deadline { return deadline{cancel: make(chan struct{})} }

func (d *deadline) set(t time.Time) {
	d.mu.Lock()
	defer d.mu.Unlock()
	if d.timer != nil && !d.timer.Stop() {
		<-d.cancel // wait for the timer callback to finish and close cancel
	}
	d.timer = nil
	closed := isClosed(d.cancel)
	if t.IsZero() {
		if closed {
			d.cancel = make(chan struct{})
		}
		return
	}
	if dur := time.Until(t); dur > 0 {
		if closed {
			d.cancel = make(chan struct{})
		}
		c := d.cancel
		d.timer = time.AfterFunc(dur, func() { close(c) })
		return
	}
	if !closed {
		close(d.cancel)
	}
}

func (d *deadline) wait() chan struct{} {
	d.mu.Lock()
	defer d.mu.Unlock()
	return d.cancel
}

func isClosed(c <-chan struct{}) bool {
	select {
	case <-c:
		return true
	default:
		return false
	}
}

// DeadlineRec records one Set*Deadline call.
type DeadlineRec struct {
	Kind string // "r", "w", "rw"
	At   time.Duration
	In   time.Duration // deadline relative to the call time (0 = cleared)
	Seq  int64         // global event sequence number
}

// WriteRec records one client Write.
type WriteRec struct {
	At   time.Duration
	Data []byte
	Err  error
	Seq  int64
}

type unit struct {
	data []byte
	id   int64 // injection id
}

// Conn is one fake connection (client side is what mosdns sees).
type Conn struct {
	ID      int
	Created int64 // value of the shared event counter when the conn was created
	Stream  bool  // true: byte stream (Read may return partial units); false: datagrams
	base    time.Time
	seq     *atomic.Int64

	// OnWrite is called for every client Write, outside the conn's lock, before
	// Write returns. A non-nil error is returned to the client as the write error.
	OnWrite func(c *Conn, b []byte) error
	// OnWriteFail is called (outside the lock) when a client Write fails because
	// of an injected write fault, an expired write deadline, or because the
	// connection is already closed: the bytes never reached the adversary.
	OnWriteFail func(c *Conn, b []byte, err error)
	// OnRead is called (outside the lock) after the client's Read consumed injected data.
	OnRead func(c *Conn, injectID int64, n int)
	// OnClose is called once on the first client Close.
	OnClose func(c *Conn)
	// MaxRead limits the bytes returned by one Read in stream mode (0 = no limit).
	// ChunkFn, if set, decides per read (argument: bytes available in the head unit).
	MaxRead int
	ChunkFn func(avail int) int
	// CloseDelay makes the first Close() take this long to return.
	CloseDelay time.Duration
	// Coalesce (stream mode, no chunking configured): a Read returns bytes of
	// several injected units at once, as a TCP socket does.
	Coalesce bool
	// DelayReadDeadline delays every SetReadDeadline call by this long before it
	// takes effect (models the calling goroutine being descheduled right there).
	DelayReadDeadline time.Duration
	// DelayReadTimeout: a Read that ends because the read deadline passed returns
	// its timeout error this much later (the window in which a connection's
	// timer has fired but its reader has not reacted yet).
	DelayReadTimeout time.Duration
	// ErrWithData: the Read that hands out the last queued byte also returns the
	// pending read error (io.Reader allows n > 0 together with err != nil;
	// crypto/tls does it when a close_notify follows the data).
	ErrWithData bool

	mu           sync.Mutex
	changed      chan struct{}
	rq           []unit
	rerr         error // returned by Read once rq is drained
	closed       bool
	closeN       int
	closedSeq    int64
	rdl, wdl     deadline
	nextInj      int64
	consumed     map[int64]bool // fully consumed injection ids
	consumedN    int64
	readsBlocked int // readers currently parked in Read
	readCalls    int64

	writes      []WriteRec
	deadlines   []DeadlineRec
	failWrite   map[int]error // 1-based write index -> error
	failFrom    int
	failFromErr error
	writeN      int
	KeepWrites  bool // keep copies of written data (default true via New)
	User        any  // program-specific state
}

// New creates a connection. seq may be nil (a private counter is used).
func New(id int, stream bool, base time.Time, seq *atomic.Int64) *Conn {
	if seq == nil {
		seq = new(atomic.Int64)
	}
	return &Conn{
		ID: id, Stream: stream, base: base, seq: seq, Created: seq.Add(1),
		changed:    make(chan struct{}),
		rdl:        makeDeadline(),
		wdl:        makeDeadline(),
		consumed:   map[int64]bool{},
		KeepWrites: true,
	}
}

func (c *Conn) broadcastLocked() {
	close(c.changed)
	c.changed = make(chan struct{})
}

func (c *Conn) now() time.Duration { return time.Since(c.base) }

// ---- client side (transport.NetConn) ----

func (c *Conn) Read(p []byte) (int, error) {
	c.mu.Lock()
	c.readCalls++
	for {
		if c.closed {
			c.mu.Unlock()
			return 0, io.ErrClosedPipe
		}
		if isClosed(c.rdl.wait()) {
			d := c.DelayReadTimeout
			c.mu.Unlock()
			if d > 0 {
				time.Sleep(d) // the reader is "descheduled" between the timer firing and Read returning
			}
			return 0, ErrTimeout
		}
		if len(c.rq) > 0 {
			u := &c.rq[0]
			n := len(u.data)
			if c.Stream && c.Coalesce && c.MaxRead == 0 && c.ChunkFn == nil {
				// like a real TCP socket: one Read returns as much of the queued
				// stream as fits, across injection boundaries
				total := 0
				var doneIDs []int64
				for len(c.rq) > 0 && total < len(p) {
					u := &c.rq[0]
					k := copy(p[total:], u.data)
					u.data = u.data[k:]
					total += k
					if len(u.data) == 0 {
						doneIDs = append(doneIDs, u.id)
						c.consumed[u.id] = true
						c.consumedN++
						c.rq = c.rq[1:]
					}
				}
				var rerr error
				if c.ErrWithData && len(c.rq) == 0 {
					rerr = c.rerr
				}
				c.broadcastLocked()
				cb := c.OnRead
				c.mu.Unlock()
				if cb != nil {
					for _, id := range doneIDs {
						cb(c, id, total)
					}
				}
				return total, rerr
			}
			if c.Stream {
				lim := len(p)
				if c.ChunkFn != nil {
					if k := c.ChunkFn(n); k > 0 && k < lim {
						lim = k
					}
				} else if c.MaxRead > 0 && c.MaxRead < lim {
					lim = c.MaxRead
				}
				if n > lim {
					n = lim
				}
				copy(p, u.data[:n])
				u.data = u.data[n:]
			} else {
				n = copy(p, u.data) // datagram: excess is dropped
				u.data = nil
			}
			id := u.id
			done := len(u.data) == 0
			if done {
				c.rq = c.rq[1:]
				c.consumed[id] = true
				c.consumedN++
			}
			var rerr error
			if c.ErrWithData && len(c.rq) == 0 {
				rerr = c.rerr
			}
			c.broadcastLocked()
			cb := c.OnRead
			c.mu.Unlock()
			if cb != nil && done {
				cb(c, id, n)
			}
			return n, rerr
		}
		if c.rerr != nil {
			err := c.rerr
			c.mu.Unlock()
			return 0, err
		}
		ch, dl := c.changed, c.rdl.wait()
		c.readsBlocked++
		c.broadcastLocked()
		ch = c.changed
		c.mu.Unlock()
		select {
		case <-ch:
		case <-dl:
		}
		c.mu.Lock()
		c.readsBlocked--
	}
}

func (c *Conn) Write(p []byte) (int, error) {
	c.mu.Lock()
	if c.closed {
		wf := c.OnWriteFail
		c.mu.Unlock()
		if wf != nil {
			wf(c, append([]byte(nil), p...), io.ErrClosedPipe)
		}
		return 0, io.ErrClosedPipe
	}
	if isClosed(c.wdl.wait()) {
		wf := c.OnWriteFail
		c.mu.Unlock()
		if wf != nil {
			wf(c, append([]byte(nil), p...), ErrTimeout)
		}
		return 0, ErrTimeout
	}
	c.writeN++
	idx := c.writeN
	var ferr error
	if c.failWrite != nil {
		ferr = c.failWrite[idx]
	}
	if ferr == nil && c.failFrom > 0 && idx >= c.failFrom {
		ferr = c.failFromErr
	}
	rec := WriteRec{At: c.now(), Seq: c.seq.Add(1), Err: ferr}
	if c.KeepWrites {
		rec.Data = append([]byte(nil), p...)
	}
	c.writes = append(c.writes, rec)
	cb := c.OnWrite
	wf := c.OnWriteFail
	c.mu.Unlock()
	if ferr != nil {
		if wf != nil {
			wf(c, append([]byte(nil), p...), ferr)
		}
		return 0, ferr
	}
	if cb != nil {
		if err := cb(c, append([]byte(nil), p...)); err != nil {
			return 0, err
		}
	}
	return len(p), nil
}

func (c *Conn) Close() error {
	c.mu.Lock()
	c.closeN++
	first := !c.closed
	c.closed = true
	if first {
		c.closedSeq = c.seq.Add(1)
	}
	c.broadcastLocked()
	cb := c.OnClose
	delay := c.CloseDelay
	c.mu.Unlock()
	if first && delay > 0 {
		// a slow Close (TLS close_notify, proxied connection): reads and writes
		// already fail, but the call itself takes a while to return
		time.Sleep(delay)
	}
	if first && cb != nil {
		cb(c)
	}
	if !first {
		return io.ErrClosedPipe
	}
	return nil
}

func (c *Conn) recDeadline(kind string, t time.Time) {
	now := c.now()
	var in time.Duration
	if !t.IsZero() {
		in = time.Until(t)
	}
	c.mu.Lock()
	if len(c.deadlines) < 1<<16 {
		c.deadlines = append(c.deadlines, DeadlineRec{Kind: kind, At: now, In: in, Seq: c.seq.Add(1)})
	}
	c.mu.Unlock()
}

// Like real net.Conn implementations (and net.Pipe), the Set*Deadline methods
// fail once the connection has been closed.
func (c *Conn) SetDeadline(t time.Time) error {
	c.recDeadline("rw", t)
	if c.IsClosed() {
		return io.ErrClosedPipe
	}
	c.rdl.set(t)
	c.wdl.set(t)
	return nil
}

func (c *Conn) SetReadDeadline(t time.Time) error {
	if d := c.DelayReadDeadline; d > 0 {
		time.Sleep(d)
	}
	c.recDeadline("r", t)
	if c.IsClosed() {
		return io.ErrClosedPipe
	}
	c.rdl.set(t)
	return nil
}

func (c *Conn) SetWriteDeadline(t time.Time) error {
	c.recDeadline("w", t)
	if c.IsClosed() {
		return io.ErrClosedPipe
	}
	c.wdl.set(t)
	return nil
}

// ---- adversary side ----

// Inject makes data readable (one datagram, or bytes appended to the stream).
// It returns the injection id.
func (c *Conn) Inject(data []byte) int64 {
	c.mu.Lock()
	c.nextInj++
	id := c.nextInj
	c.rq = append(c.rq, unit{data: append([]byte(nil), data...), id: id})
	c.broadcastLocked()
	c.mu.Unlock()
	return id
}

// InjectWithErr queues data and the read error that follows it in one step, so
// that (with ErrWithData) the Read handing out the last byte of data is
// guaranteed to return the error as well.
func (c *Conn) InjectWithErr(data []byte, err error) int64 {
	c.mu.Lock()
	c.nextInj++
	id := c.nextInj
	c.rq = append(c.rq, unit{data: append([]byte(nil), data...), id: id})
	c.rerr = err
	c.broadcastLocked()
	c.mu.Unlock()
	return id
}

// InjectEOF makes Read return io.EOF once everything injected so far is consumed.
func (c *Conn) InjectEOF() { c.InjectErr(io.EOF) }

// InjectErr makes Read return err once everything injected so far is consumed.
func (c *Conn) InjectErr(err error) {
	c.mu.Lock()
	c.rerr = err
	c.broadcastLocked()
	c.mu.Unlock()
}

// FailWrite makes the k-th (1-based) client Write fail with err.
func (c *Conn) FailWrite(k int, err error) {
	c.mu.Lock()
	if c.failWrite == nil {
		c.failWrite = map[int]error{}
	}
	c.failWrite[k] = err
	c.mu.Unlock()
}

// FailWritesFromNow makes the next and every later client Write fail with err
// (a socket whose sends fail persistently, e.g. ENETUNREACH).
func (c *Conn) FailWritesFromNow(err error) {
	c.mu.Lock()
	c.failFrom = c.writeN + 1
	c.failFromErr = err
	c.mu.Unlock()
}

// FailNextWrite makes the next client Write fail with err.
func (c *Conn) FailNextWrite(err error) {
	c.mu.Lock()
	if c.failWrite == nil {
		c.failWrite = map[int]error{}
	}
	c.failWrite[c.writeN+1] = err
	c.mu.Unlock()
}

// ReadErrSet reports whether a read error / EOF has been injected.
func (c *Conn) ReadErrSet() bool { c.mu.Lock(); defer c.mu.Unlock(); return c.rerr != nil }

// ClearWriteFaults disarms write failures that have not fired yet.
func (c *Conn) ClearWriteFaults() {
	c.mu.Lock()
	c.failWrite = nil
	c.failFrom = 0
	c.mu.Unlock()
}

// Consumed reports whether injection id was fully read by the client.
func (c *Conn) Consumed(id int64) bool {
	c.mu.Lock()
	defer c.mu.Unlock()
	return c.consumed[id]
}

// WaitConsumed blocks until injection id has been fully read, the connection is
// closed, or the timeout expires. It reports whether it was consumed.
func (c *Conn) WaitConsumed(id int64, timeout time.Duration) bool {
	t := time.NewTimer(timeout)
	defer t.Stop()
	for {
		c.mu.Lock()
		if c.consumed[id] {
			c.mu.Unlock()
			return true
		}
		if c.closed {
			c.mu.Unlock()
			return false
		}
		ch := c.changed
		c.mu.Unlock()
		select {
		case <-ch:
		case <-t.C:
			return false
		}
	}
}

// WaitReaderParked blocks until a client Read is parked with nothing to read
// (i.e. the reader consumed everything and came back), or timeout.
func (c *Conn) WaitReaderParked(timeout time.Duration) bool {
	t := time.NewTimer(timeout)
	defer t.Stop()
	for {
		c.mu.Lock()
		if c.readsBlocked > 0 && len(c.rq) == 0 {
			c.mu.Unlock()
			return true
		}
		if c.closed {
			c.mu.Unlock()
			return false
		}
		ch := c.changed
		c.mu.Unlock()
		select {
		case <-ch:
		case <-t.C:
			return false
		}
	}
}

// WaitClosed blocks until the client closed the connection, or timeout.
func (c *Conn) WaitClosed(timeout time.Duration) bool {
	t := time.NewTimer(timeout)
	defer t.Stop()
	for {
		c.mu.Lock()
		if c.closed {
			c.mu.Unlock()
			return true
		}
		ch := c.changed
		c.mu.Unlock()
		select {
		case <-ch:
		case <-t.C:
			return false
		}
	}
}

// ClosedSeq returns the shared event counter value at the first Close (0 if open).
func (c *Conn) ClosedSeq() int64 { c.mu.Lock(); defer c.mu.Unlock(); return c.closedSeq }

// IsClosed reports whether the client closed the connection.
func (c *Conn) IsClosed() bool { c.mu.Lock(); defer c.mu.Unlock(); return c.closed }

// CloseCount returns how many times Close was called.
func (c *Conn) CloseCount() int { c.mu.Lock(); defer c.mu.Unlock(); return c.closeN }

// Writes returns a copy of the write log.
func (c *Conn) Writes() []WriteRec {
	c.mu.Lock()
	defer c.mu.Unlock()
	return append([]WriteRec(nil), c.writes...)
}

// WriteCount returns the number of client writes so far.
func (c *Conn) WriteCount() int { c.mu.Lock(); defer c.mu.Unlock(); return c.writeN }

// ReadDeadlineIn reports whether a read deadline is currently in force and how
// far in the future it lies (negative once it has passed), from the log of
// Set*Deadline calls.
func (c *Conn) ReadDeadlineIn() (time.Duration, bool) {
	c.mu.Lock()
	defer c.mu.Unlock()
	for i := len(c.deadlines) - 1; i >= 0; i-- {
		d := c.deadlines[i]
		if d.Kind == "w" {
			continue
		}
		if d.In == 0 {
			return 0, false
		}
		return d.At + d.In - c.now(), true
	}
	return 0, false
}

// Deadlines returns a copy of the deadline log.
func (c *Conn) Deadlines() []DeadlineRec {
	c.mu.Lock()
	defer c.mu.Unlock()
	return append([]DeadlineRec(nil), c.deadlines...)
}

// Pending returns the number of injected units not yet fully consumed.
func (c *Conn) Pending() int { c.mu.Lock(); defer c.mu.Unlock(); return len(c.rq) }

// ReadCalls returns how many times Read was entered.
func (c *Conn) ReadCalls() int64 { c.mu.Lock(); defer c.mu.Unlock(); return c.readCalls }

// Net tracks every connection handed out by a dial function.
type Net struct {
	Base  time.Time
	Seq   atomic.Int64
	mu    sync.Mutex
	conns []*Conn
}

// NewNet creates a connection registry with a fresh monotonic base.
func NewNet() *Net { return &Net{Base: time.Now()} }

// NewConn creates and registers a connection.
func (n *Net) NewConn(stream bool) *Conn { return n.NewConnUser(stream, nil) }

// NewConnUser creates and registers a connection with its User field set
// before the connection becomes visible through Conns().
func (n *Net) NewConnUser(stream bool, user any) *Conn {
	n.mu.Lock()
	c := New(len(n.conns)+1, stream, n.Base, &n.Seq)
	c.User = user
	n.conns = append(n.conns, c)
	n.mu.Unlock()
	return c
}

// Conns returns all connections created so far.
func (n *Net) Conns() []*Conn {
	n.mu.Lock()
	defer n.mu.Unlock()
	return append([]*Conn(nil), n.conns...)
}

// OpenCount returns created and not-yet-closed connection counts.
func (n *Net) OpenCount() (created, open int) {
	for _, c := range n.Conns() {
		created++
		if !c.IsClosed() {
			open++
		}
	}
	return
}
