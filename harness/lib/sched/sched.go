//go:build verif

// Package sched drives mosdns' verif schedule points (pkg/verifhook): counting,
// seeded perturbation and deterministic forcing of interleavings.
package sched

import (
	"math/rand"
	"runtime"
	"sync"
	"sync/atomic"
	"time"

	"github.com/IrineSistiana/mosdns/v5/pkg/verifhook"
)

// Handler runs at a named point with the hook's argument.
type Handler func(name string, arg any)

var (
	mu       sync.RWMutex
	handlers = map[string][]Handler{}
	counts   sync.Map // name -> *atomic.Int64
	perturb  atomic.Pointer[perturbCfg]
	order    sync.Mutex
	orderFp  = map[string]struct{}{}
	lastName string
)

type perturbCfg struct {
	mu     sync.Mutex
	rng    *rand.Rand
	prob   float64
	maxDur time.Duration
	names  map[string]bool // nil = all
}

func init() { verifhook.Set(dispatch) }

func dispatch(name string, arg any) {
	v, ok := counts.Load(name)
	if !ok {
		v, _ = counts.LoadOrStore(name, new(atomic.Int64))
	}
	v.(*atomic.Int64).Add(1)

	order.Lock()
	if lastName != "" && len(orderFp) < 4096 {
		orderFp[lastName+">"+name] = struct{}{}
	}
	lastName = name
	order.Unlock()

	if p := perturb.Load(); p != nil && (p.names == nil || p.names[name]) {
		p.mu.Lock()
		x := p.rng.Float64()
		var d time.Duration
		if p.maxDur > 0 {
			d = time.Duration(p.rng.Int63n(int64(p.maxDur)))
		}
		p.mu.Unlock()
		if x < p.prob {
			if x < p.prob/2 || d == 0 {
				runtime.Gosched()
			} else {
				time.Sleep(d)
			}
		}
	}

	mu.RLock()
	hs := handlers[name]
	mu.RUnlock()
	for _, h := range hs {
		h(name, arg)
	}
}

// On registers a handler for a point; it returns a function that removes it.
func On(name string, h Handler) (remove func()) {
	mu.Lock()
	handlers[name] = append(append([]Handler(nil), handlers[name]...), h)
	idx := len(handlers[name]) - 1
	mu.Unlock()
	return func() {
		mu.Lock()
		hs := append([]Handler(nil), handlers[name]...)
		if idx < len(hs) {
			hs[idx] = func(string, any) {}
		}
		handlers[name] = hs
		mu.Unlock()
	}
}

// Reset removes all handlers and perturbation.
func Reset() {
	mu.Lock()
	handlers = map[string][]Handler{}
	mu.Unlock()
	perturb.Store(nil)
}

// Perturb enables seeded random Gosched / sleeps (0..maxDur) at the named
// points (all points if names is empty) with the given probability.
func Perturb(seed int64, prob float64, maxDur time.Duration, names ...string) {
	cfg := &perturbCfg{rng: rand.New(rand.NewSource(seed)), prob: prob, maxDur: maxDur}
	if len(names) > 0 {
		cfg.names = map[string]bool{}
		for _, n := range names {
			cfg.names[n] = true
		}
	}
	perturb.Store(cfg)
}

// NoPerturb disables perturbation.
func NoPerturb() { perturb.Store(nil) }

// Counts returns how often each point was reached.
func Counts() map[string]int64 {
	out := map[string]int64{}
	counts.Range(func(k, v any) bool {
		out[k.(string)] = v.(*atomic.Int64).Load()
		return true
	})
	return out
}

// Count returns how often one point was reached.
func Count(name string) int64 {
	if v, ok := counts.Load(name); ok {
		return v.(*atomic.Int64).Load()
	}
	return 0
}

// DistinctSuccessions returns the number of distinct (point -> next point) pairs
// observed globally: a cheap measure of interleaving diversity.
func DistinctSuccessions() int {
	order.Lock()
	defer order.Unlock()
	return len(orderFp)
}

// Gate blocks goroutines arriving at a point until released.
type Gate struct {
	mu      sync.Mutex
	open    bool
	ch      chan struct{}
	arrived chan struct{}
	n       atomic.Int64
}

// NewGate returns a closed gate.
func NewGate() *Gate {
	return &Gate{ch: make(chan struct{}), arrived: make(chan struct{}, 1024)}
}

// Wait parks the caller until the gate is opened (or the timeout passes; a gate
// never blocks forever so that a wrong schedule cannot hang the run).
func (g *Gate) Wait(timeout time.Duration) bool {
	g.n.Add(1)
	select {
	case g.arrived <- struct{}{}:
	default:
	}
	g.mu.Lock()
	ch := g.ch
	g.mu.Unlock()
	t := time.NewTimer(timeout)
	defer t.Stop()
	select {
	case <-ch:
		return true
	case <-t.C:
		return false
	}
}

// Open releases everyone parked and everyone arriving later.
func (g *Gate) Open() {
	g.mu.Lock()
	if !g.open {
		g.open = true
		close(g.ch)
	}
	g.mu.Unlock()
}

// Arrived returns the number of goroutines that reached the gate.
func (g *Gate) Arrived() int64 { return g.n.Load() }

// WaitArrived waits until at least one more goroutine arrived, or timeout.
func (g *Gate) WaitArrived(timeout time.Duration) bool {
	t := time.NewTimer(timeout)
	defer t.Stop()
	select {
	case <-g.arrived:
		return true
	case <-t.C:
		return false
	}
}
