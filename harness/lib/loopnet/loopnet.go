// Package loopnet runs real loopback DNS servers (UDP, TCP, TLS, DoH over
// HTTP/2, DoQ) whose answers are decided by harness code. A Handler receives
// every query together with a reply function it may call zero or more times,
// immediately or later from another goroutine (the transport decides whether
// more than one reply can be delivered).
package loopnet

import (
	"context"
	"crypto/ecdsa"
	"crypto/elliptic"
	"crypto/rand"
	"crypto/tls"
	"crypto/x509"
	"crypto/x509/pkix"
	"encoding/base64"
	"encoding/binary"
	"fmt"
	"io"
	"math/big"
	"net"
	"net/http"
	"sync"
	"time"

	"github.com/quic-go/quic-go"
	"github.com/quic-go/quic-go/http3"
)

// Handler decides the answers. proto is "udp", "tcp", "tls", "https", "h3" or "quic".
// connID identifies the transport connection (0 for udp / https).
type Handler func(q []byte, proto string, connID int, reply func(b []byte))

// PKI is a throw-away CA with one leaf certificate.
type PKI struct {
	Pool *x509.CertPool
	Cert tls.Certificate
}

// NewPKI creates a CA and a leaf valid for the given IPs and DNS names.
func NewPKI(ips []net.IP, names []string) (*PKI, error) {
	caKey, err := ecdsa.GenerateKey(elliptic.P256(), rand.Reader)
	if err != nil {
		return nil, err
	}
	caTpl := &x509.Certificate{
		SerialNumber: big.NewInt(1), Subject: pkix.Name{CommonName: "verif harness CA"},
		NotBefore: time.Now().Add(-time.Hour), NotAfter: time.Now().Add(48 * time.Hour),
		IsCA: true, KeyUsage: x509.KeyUsageCertSign | x509.KeyUsageDigitalSignature, BasicConstraintsValid: true,
	}
	caDER, err := x509.CreateCertificate(rand.Reader, caTpl, caTpl, &caKey.PublicKey, caKey)
	if err != nil {
		return nil, err
	}
	caCert, _ := x509.ParseCertificate(caDER)
	leafKey, err := ecdsa.GenerateKey(elliptic.P256(), rand.Reader)
	if err != nil {
		return nil, err
	}
	leafTpl := &x509.Certificate{
		SerialNumber: big.NewInt(2), Subject: pkix.Name{CommonName: "verif harness leaf"},
		NotBefore: time.Now().Add(-time.Hour), NotAfter: time.Now().Add(48 * time.Hour),
		KeyUsage: x509.KeyUsageDigitalSignature, ExtKeyUsage: []x509.ExtKeyUsage{x509.ExtKeyUsageServerAuth},
		IPAddresses: ips, DNSNames: names,
	}
	leafDER, err := x509.CreateCertificate(rand.Reader, leafTpl, caCert, &leafKey.PublicKey, caKey)
	if err != nil {
		return nil, err
	}
	pool := x509.NewCertPool()
	pool.AddCert(caCert)
	return &PKI{Pool: pool, Cert: tls.Certificate{Certificate: [][]byte{leafDER}, PrivateKey: leafKey}}, nil
}

// Server is one running listener.
type Server struct {
	Proto string
	Addr  string // host:port
	close func()
}

// NewServer wraps a listener a program runs itself (so that URL works for it).
func NewServer(proto, addr string, closeFn func()) *Server {
	return &Server{Proto: proto, Addr: addr, close: closeFn}
}

// Close stops the server.
func (s *Server) Close() {
	if s.close != nil {
		s.close()
	}
}

// ServeUDP starts a UDP DNS server on 127.0.0.1.
func ServeUDP(h Handler) (*Server, error) {
	pc, err := net.ListenPacket("udp", "127.0.0.1:0")
	if err != nil {
		return nil, err
	}
	var wmu sync.Mutex
	go func() {
		buf := make([]byte, 65535)
		for {
			n, from, err := pc.ReadFrom(buf)
			if err != nil {
				return
			}
			q := append([]byte(nil), buf[:n]...)
			h(q, "udp", 0, func(b []byte) {
				wmu.Lock()
				pc.WriteTo(b, from)
				wmu.Unlock()
			})
		}
	}()
	return &Server{Proto: "udp", Addr: pc.LocalAddr().String(), close: func() { pc.Close() }}, nil
}

func serveStream(ln net.Listener, proto string, h Handler) *Server {
	var mu sync.Mutex
	conns := map[net.Conn]bool{}
	nextID := 0
	go func() {
		for {
			c, err := ln.Accept()
			if err != nil {
				return
			}
			mu.Lock()
			conns[c] = true
			nextID++
			id := nextID
			mu.Unlock()
			go func() {
				defer func() {
					c.Close()
					mu.Lock()
					delete(conns, c)
					mu.Unlock()
				}()
				var wmu sync.Mutex
				for {
					hdr := make([]byte, 2)
					if _, err := io.ReadFull(c, hdr); err != nil {
						return
					}
					q := make([]byte, binary.BigEndian.Uint16(hdr))
					if _, err := io.ReadFull(c, q); err != nil {
						return
					}
					h(q, proto, id, func(b []byte) {
						f := make([]byte, 2+len(b))
						binary.BigEndian.PutUint16(f, uint16(len(b)))
						copy(f[2:], b)
						wmu.Lock()
						c.Write(f)
						wmu.Unlock()
					})
				}
			}()
		}
	}()
	return &Server{Proto: proto, Addr: ln.Addr().String(), close: func() {
		ln.Close()
		mu.Lock()
		for c := range conns {
			c.Close()
		}
		mu.Unlock()
	}}
}

// ServeTCP starts a plain TCP DNS server.
func ServeTCP(h Handler) (*Server, error) {
	ln, err := net.Listen("tcp", "127.0.0.1:0")
	if err != nil {
		return nil, err
	}
	return serveStream(ln, "tcp", h), nil
}

// ServeTLS starts a DoT server.
func ServeTLS(pki *PKI, h Handler) (*Server, error) {
	ln, err := tls.Listen("tcp", "127.0.0.1:0", &tls.Config{Certificates: []tls.Certificate{pki.Cert}})
	if err != nil {
		return nil, err
	}
	return serveStream(ln, "tls", h), nil
}

// ServeDoH starts a DoH server (HTTP/2 via ALPN, GET and POST) at /dns-query.
func ServeDoH(pki *PKI, h Handler) (*Server, error) {
	ln, err := net.Listen("tcp", "127.0.0.1:0")
	if err != nil {
		return nil, err
	}
	mux := dohMux(h, "https")
	srv := &http.Server{Handler: mux, TLSConfig: &tls.Config{Certificates: []tls.Certificate{pki.Cert}, NextProtos: []string{"h2", "http/1.1"}}}
	go srv.ServeTLS(ln, "", "")
	return &Server{Proto: "https", Addr: ln.Addr().String(), close: func() { srv.Close() }}, nil
}

// ServeDoH3 starts a DoH server speaking HTTP/3 at /dns-query.
func ServeDoH3(pki *PKI, h Handler) (*Server, error) {
	pc, err := net.ListenPacket("udp", "127.0.0.1:0")
	if err != nil {
		return nil, err
	}
	srv := &http3.Server{Handler: dohMux(h, "h3"), TLSConfig: http3.ConfigureTLSConfig(&tls.Config{Certificates: []tls.Certificate{pki.Cert}}), QUICConfig: &quic.Config{MaxIncomingStreams: 1000, MaxIdleTimeout: 30 * time.Second}}
	go srv.Serve(pc)
	return &Server{Proto: "h3", Addr: pc.LocalAddr().String(), close: func() { srv.Close(); pc.Close() }}, nil
}

func dohMux(h Handler, proto string) *http.ServeMux {
	mux := http.NewServeMux()
	mux.HandleFunc("/dns-query", func(w http.ResponseWriter, r *http.Request) {
		var q []byte
		var err error
		if r.Method == http.MethodGet {
			q, err = base64.RawURLEncoding.DecodeString(r.URL.Query().Get("dns"))
		} else {
			q, err = io.ReadAll(io.LimitReader(r.Body, 65535))
		}
		if err != nil {
			http.Error(w, "bad request", 400)
			return
		}
		done := make(chan []byte, 1)
		h(q, proto, 0, func(b []byte) {
			select {
			case done <- b:
			default: // only one reply per HTTP request can be delivered
			}
		})
		select {
		case b := <-done:
			w.Header().Set("Content-Type", "application/dns-message")
			w.Write(b)
		case <-r.Context().Done():
		case <-time.After(8 * time.Second):
			http.Error(w, "timeout", 504)
		}
	})
	return mux
}

// ServeDoQ starts a DNS-over-QUIC server (ALPN "doq").
func ServeDoQ(pki *PKI, h Handler) (*Server, error) {
	pc, err := net.ListenPacket("udp", "127.0.0.1:0")
	if err != nil {
		return nil, err
	}
	tr := &quic.Transport{Conn: pc}
	ln, err := tr.Listen(&tls.Config{Certificates: []tls.Certificate{pki.Cert}, NextProtos: []string{"doq"}}, &quic.Config{MaxIncomingStreams: 1000, MaxIdleTimeout: 30 * time.Second})
	if err != nil {
		pc.Close()
		return nil, err
	}
	ctx, cancel := context.WithCancel(context.Background())
	var mu sync.Mutex
	nextID := 0
	go func() {
		for {
			c, err := ln.Accept(ctx)
			if err != nil {
				return
			}
			mu.Lock()
			nextID++
			id := nextID
			mu.Unlock()
			go func() {
				for {
					st, err := c.AcceptStream(ctx)
					if err != nil {
						return
					}
					go func() {
						hdr := make([]byte, 2)
						if _, err := io.ReadFull(st, hdr); err != nil {
							st.CancelRead(0)
							st.CancelWrite(0)
							return
						}
						q := make([]byte, binary.BigEndian.Uint16(hdr))
						if _, err := io.ReadFull(st, q); err != nil {
							st.CancelRead(0)
							st.CancelWrite(0)
							return
						}
						var once sync.Once
						h(q, "quic", id, func(b []byte) {
							once.Do(func() { // one reply per stream
								f := make([]byte, 2+len(b))
								binary.BigEndian.PutUint16(f, uint16(len(b)))
								copy(f[2:], b)
								st.Write(f)
								st.Close()
							})
						})
					}()
				}
			}()
		}
	}()
	return &Server{Proto: "quic", Addr: pc.LocalAddr().String(), close: func() {
		cancel()
		ln.Close()
		tr.Close()
		pc.Close()
	}}, nil
}

// URL returns the mosdns upstream address for a server (pipeline selects the
// +pipeline aliases for tcp/tls).
func (s *Server) URL(pipeline bool) string {
	switch s.Proto {
	case "udp":
		return "udp://" + s.Addr
	case "tcp":
		if pipeline {
			return "tcp+pipeline://" + s.Addr
		}
		return "tcp://" + s.Addr
	case "tls":
		if pipeline {
			return "tls+pipeline://" + s.Addr
		}
		return "tls://" + s.Addr
	case "https":
		return "https://" + s.Addr + "/dns-query"
	case "h3":
		return "h3://" + s.Addr + "/dns-query"
	case "quic":
		return "quic://" + s.Addr
	}
	panic(fmt.Sprintf("bad proto %q", s.Proto))
}
