// Package leak finds goroutines that are still inside mosdns code at a point
// where the harness knows everything should have wound down.
package leak

import (
	"regexp"
	"runtime"
	"strings"
	"time"
)

// Goroutine is one parsed goroutine of a runtime.Stack(all) dump.
type Goroutine struct {
	Header string
	Text   string
}

func dump() string {
	buf := make([]byte, 1<<20)
	for {
		n := runtime.Stack(buf, true)
		if n < len(buf) {
			return string(buf[:n])
		}
		buf = make([]byte, 2*len(buf))
	}
}

// Snapshot returns the goroutines whose stack contains a frame matching any of
// the given substrings (e.g. "mosdns/v5/pkg/upstream/transport.") and none of
// the exclude substrings.
func Snapshot(match []string, exclude []string) []Goroutine {
	var out []Goroutine
	for _, g := range strings.Split(dump(), "\n\n") {
		g = strings.TrimSpace(g)
		if g == "" {
			continue
		}
		ok := false
		for _, m := range match {
			if strings.Contains(g, m) {
				ok = true
				break
			}
		}
		if !ok {
			continue
		}
		for _, x := range exclude {
			if strings.Contains(g, x) {
				ok = false
				break
			}
		}
		if !ok {
			continue
		}
		hdr := g
		if i := strings.IndexByte(g, '\n'); i >= 0 {
			hdr = g[:i]
		}
		out = append(out, Goroutine{Header: hdr, Text: g})
	}
	return out
}

// WaitNone polls until no matching goroutine remains or the bound expires; it
// returns what remains.
func WaitNone(match, exclude []string, bound time.Duration) []Goroutine {
	deadline := time.Now().Add(bound)
	for {
		gs := Snapshot(match, exclude)
		if len(gs) == 0 || time.Now().After(deadline) {
			return gs
		}
		time.Sleep(5 * time.Millisecond)
	}
}

var addrRe = regexp.MustCompile(`0x[0-9a-f]+|\+0x[0-9a-f]+|goroutine \d+|:\d+`)

// Fingerprint strips addresses, goroutine ids and line numbers.
func Fingerprint(g Goroutine) string { return addrRe.ReplaceAllString(g.Text, "") }

// Full returns the full dump (witness for hangs).
func Full() string { return dump() }
