// Package wire is a minimal DNS wire-format reader/writer and stream framer that
// shares no code with miekg/dns or mosdns. Oracles use it so that they do not
// check the code under test with the code under test.
package wire

import (
	"encoding/binary"
	"errors"
	"fmt"
	"strings"
)

// Header is the 12-byte DNS header.
type Header struct {
	ID             uint16
	Flags          uint16
	QD, AN, NS, AR uint16
}

func (h Header) QR() bool    { return h.Flags&0x8000 != 0 }
func (h Header) Opcode() int { return int(h.Flags>>11) & 0xF }
func (h Header) AA() bool    { return h.Flags&0x0400 != 0 }
func (h Header) TC() bool    { return h.Flags&0x0200 != 0 }
func (h Header) RD() bool    { return h.Flags&0x0100 != 0 }
func (h Header) RA() bool    { return h.Flags&0x0080 != 0 }
func (h Header) Z() bool     { return h.Flags&0x0040 != 0 }
func (h Header) AD() bool    { return h.Flags&0x0020 != 0 }
func (h Header) CD() bool    { return h.Flags&0x0010 != 0 }
func (h Header) Rcode() int  { return int(h.Flags & 0xF) }

// Question is the first question, with the raw (uncompressed) name bytes as
// they appear on the wire (length-prefixed labels incl. the root byte).
type Question struct {
	RawName []byte
	Name    string // presentation-ish: labels joined by '.', bytes escaped \DDD when not printable or '.'
	Type    uint16
	Class   uint16
}

// RR is one resource record.
type RR struct {
	NameRaw []byte // decompressed wire form
	Name    string
	Type    uint16
	Class   uint16
	TTL     uint32
	Rdata   []byte // raw rdata bytes (compression pointers inside are NOT expanded)
	RdOff   int    // offset of rdata in the message
}

// Option is one EDNS0 option.
type Option struct {
	Code uint16
	Data []byte
}

// OPT is a decoded OPT pseudo-record.
type OPT struct {
	UDPSize  uint16
	ExtRcode uint8
	Version  uint8
	DO       bool
	Z        uint16 // the 15 flag bits other than DO
	TTL      uint32 // raw ttl field
	Options  []Option
}

// Msg is a parsed message.
type Msg struct {
	Header
	Questions []Question
	Answer    []RR
	Ns        []RR
	Extra     []RR
	Len       int // bytes consumed
}

var (
	ErrShort   = errors.New("wire: short message")
	ErrPointer = errors.New("wire: bad compression pointer")
	ErrLabel   = errors.New("wire: bad label")
)

// ParseHeader parses only the header.
func ParseHeader(b []byte) (Header, error) {
	if len(b) < 12 {
		return Header{}, ErrShort
	}
	return Header{
		ID:    binary.BigEndian.Uint16(b[0:]),
		Flags: binary.BigEndian.Uint16(b[2:]),
		QD:    binary.BigEndian.Uint16(b[4:]),
		AN:    binary.BigEndian.Uint16(b[6:]),
		NS:    binary.BigEndian.Uint16(b[8:]),
		AR:    binary.BigEndian.Uint16(b[10:]),
	}, nil
}

// readName reads a possibly compressed name at off; returns decompressed raw
// wire form, and the offset after the name in the original position.
func readName(b []byte, off int) (raw []byte, next int, err error) {
	jumped := false
	hops := 0
	next = -1
	for {
		if off >= len(b) {
			return nil, 0, ErrShort
		}
		l := int(b[off])
		switch l & 0xC0 {
		case 0x00:
			if l == 0 {
				raw = append(raw, 0)
				if !jumped {
					next = off + 1
				}
				if len(raw) > 255 {
					return nil, 0, ErrLabel
				}
				return raw, next, nil
			}
			if off+1+l > len(b) {
				return nil, 0, ErrShort
			}
			raw = append(raw, b[off:off+1+l]...)
			off += 1 + l
		case 0xC0:
			if off+2 > len(b) {
				return nil, 0, ErrShort
			}
			ptr := int(binary.BigEndian.Uint16(b[off:]) & 0x3FFF)
			if !jumped {
				next = off + 2
			}
			jumped = true
			hops++
			if hops > 64 || ptr >= len(b) {
				return nil, 0, ErrPointer
			}
			off = ptr
		default:
			return nil, 0, ErrLabel
		}
	}
}

// NameString renders a raw wire name.
func NameString(raw []byte) string {
	var sb strings.Builder
	i := 0
	for i < len(raw) {
		l := int(raw[i])
		if l == 0 {
			break
		}
		i++
		for _, c := range raw[i : i+l] {
			if c == '.' || c == '\\' {
				sb.WriteByte('\\')
				sb.WriteByte(c)
			} else if c < 0x21 || c > 0x7e {
				fmt.Fprintf(&sb, "\\%03d", c)
			} else {
				sb.WriteByte(c)
			}
		}
		sb.WriteByte('.')
		i += l
	}
	if sb.Len() == 0 {
		return "."
	}
	return sb.String()
}

func readRR(b []byte, off int) (RR, int, error) {
	raw, n, err := readName(b, off)
	if err != nil {
		return RR{}, 0, err
	}
	if n+10 > len(b) {
		return RR{}, 0, ErrShort
	}
	rr := RR{NameRaw: raw, Name: NameString(raw)}
	rr.Type = binary.BigEndian.Uint16(b[n:])
	rr.Class = binary.BigEndian.Uint16(b[n+2:])
	rr.TTL = binary.BigEndian.Uint32(b[n+4:])
	rdl := int(binary.BigEndian.Uint16(b[n+8:]))
	n += 10
	if n+rdl > len(b) {
		return RR{}, 0, ErrShort
	}
	rr.Rdata = b[n : n+rdl]
	rr.RdOff = n
	return rr, n + rdl, nil
}

// Parse parses a whole message (all sections).
func Parse(b []byte) (*Msg, error) {
	h, err := ParseHeader(b)
	if err != nil {
		return nil, err
	}
	m := &Msg{Header: h}
	off := 12
	for i := 0; i < int(h.QD); i++ {
		raw, n, err := readName(b, off)
		if err != nil {
			return nil, fmt.Errorf("question %d: %w", i, err)
		}
		if n+4 > len(b) {
			return nil, ErrShort
		}
		// raw question name bytes as on the wire (questions are normally uncompressed)
		q := Question{RawName: raw, Name: NameString(raw)}
		q.Type = binary.BigEndian.Uint16(b[n:])
		q.Class = binary.BigEndian.Uint16(b[n+2:])
		m.Questions = append(m.Questions, q)
		off = n + 4
	}
	for sec, cnt := range []uint16{h.AN, h.NS, h.AR} {
		for i := 0; i < int(cnt); i++ {
			rr, n, err := readRR(b, off)
			if err != nil {
				return nil, fmt.Errorf("section %d rr %d: %w", sec, i, err)
			}
			switch sec {
			case 0:
				m.Answer = append(m.Answer, rr)
			case 1:
				m.Ns = append(m.Ns, rr)
			case 2:
				m.Extra = append(m.Extra, rr)
			}
			off = n
		}
	}
	m.Len = off
	return m, nil
}

// QuestionWire returns the exact wire bytes of the first question (name, type,
// class) assuming an uncompressed question directly after the header.
func QuestionWire(b []byte) ([]byte, error) {
	if len(b) < 12 {
		return nil, ErrShort
	}
	off := 12
	for {
		if off >= len(b) {
			return nil, ErrShort
		}
		l := int(b[off])
		if l&0xC0 != 0 {
			return nil, ErrLabel
		}
		off += 1 + l
		if l == 0 {
			break
		}
	}
	if off+4 > len(b) {
		return nil, ErrShort
	}
	return b[12 : off+4], nil
}

// OPTs returns the decoded OPT records of the additional section.
func (m *Msg) OPTs() []OPT {
	var out []OPT
	for _, rr := range m.Extra {
		if rr.Type != 41 {
			continue
		}
		o := OPT{UDPSize: rr.Class, TTL: rr.TTL}
		o.ExtRcode = uint8(rr.TTL >> 24)
		o.Version = uint8(rr.TTL >> 16)
		o.DO = rr.TTL&0x8000 != 0
		o.Z = uint16(rr.TTL & 0x7FFF)
		d := rr.Rdata
		for len(d) >= 4 {
			code := binary.BigEndian.Uint16(d)
			l := int(binary.BigEndian.Uint16(d[2:]))
			if 4+l > len(d) {
				break
			}
			o.Options = append(o.Options, Option{Code: code, Data: append([]byte(nil), d[4:4+l]...)})
			d = d[4+l:]
		}
		out = append(out, o)
	}
	return out
}

// CountNonOPT returns the number of non-OPT records in the additional section.
func (m *Msg) CountNonOPT() int {
	n := 0
	for _, rr := range m.Extra {
		if rr.Type != 41 {
			n++
		}
	}
	return n
}

// ---- building ----

// EncodeName encodes dot-separated labels (no escapes; use EncodeLabels for raw bytes).
func EncodeName(name string) []byte {
	name = strings.TrimSuffix(name, ".")
	if name == "" {
		return []byte{0}
	}
	var labels [][]byte
	for _, l := range strings.Split(name, ".") {
		labels = append(labels, []byte(l))
	}
	return EncodeLabels(labels)
}

// EncodeLabels encodes raw labels into wire form.
func EncodeLabels(labels [][]byte) []byte {
	var out []byte
	for _, l := range labels {
		out = append(out, byte(len(l)))
		out = append(out, l...)
	}
	return append(out, 0)
}

// Builder builds a message without compression.
type Builder struct {
	buf []byte
}

// NewBuilder starts a message with the given id and flags.
func NewBuilder(id, flags uint16) *Builder {
	b := &Builder{buf: make([]byte, 12, 512)}
	binary.BigEndian.PutUint16(b.buf[0:], id)
	binary.BigEndian.PutUint16(b.buf[2:], flags)
	return b
}

func (b *Builder) bump(off int) {
	binary.BigEndian.PutUint16(b.buf[off:], binary.BigEndian.Uint16(b.buf[off:])+1)
}

// Question appends a question.
func (b *Builder) Question(rawName []byte, typ, class uint16) *Builder {
	b.buf = append(b.buf, rawName...)
	b.buf = binary.BigEndian.AppendUint16(b.buf, typ)
	b.buf = binary.BigEndian.AppendUint16(b.buf, class)
	b.bump(4)
	return b
}

// RR appends a record to section sec (0 answer, 1 authority, 2 additional).
// Records must be appended in section order.
func (b *Builder) RR(sec int, rawName []byte, typ, class uint16, ttl uint32, rdata []byte) *Builder {
	b.buf = append(b.buf, rawName...)
	b.buf = binary.BigEndian.AppendUint16(b.buf, typ)
	b.buf = binary.BigEndian.AppendUint16(b.buf, class)
	b.buf = binary.BigEndian.AppendUint32(b.buf, ttl)
	b.buf = binary.BigEndian.AppendUint16(b.buf, uint16(len(rdata)))
	b.buf = append(b.buf, rdata...)
	b.bump(6 + 2*sec)
	return b
}

// OPT appends an OPT record to the additional section.
func (b *Builder) OPT(udpSize uint16, extRcode, version uint8, do bool, z uint16, opts []Option) *Builder {
	ttl := uint32(extRcode)<<24 | uint32(version)<<16 | uint32(z&0x7FFF)
	if do {
		ttl |= 0x8000
	}
	var rd []byte
	for _, o := range opts {
		rd = binary.BigEndian.AppendUint16(rd, o.Code)
		rd = binary.BigEndian.AppendUint16(rd, uint16(len(o.Data)))
		rd = append(rd, o.Data...)
	}
	return b.RR(2, []byte{0}, 41, udpSize, ttl, rd)
}

// SetCounts overrides the section counters (for malformed messages).
func (b *Builder) SetCounts(qd, an, ns, ar uint16) *Builder {
	binary.BigEndian.PutUint16(b.buf[4:], qd)
	binary.BigEndian.PutUint16(b.buf[6:], an)
	binary.BigEndian.PutUint16(b.buf[8:], ns)
	binary.BigEndian.PutUint16(b.buf[10:], ar)
	return b
}

// Bytes returns the message.
func (b *Builder) Bytes() []byte { return b.buf }

// TXTRdata encodes one or more character-strings.
func TXTRdata(ss ...string) []byte {
	var out []byte
	for _, s := range ss {
		for len(s) > 255 {
			out = append(out, 255)
			out = append(out, s[:255]...)
			s = s[255:]
		}
		out = append(out, byte(len(s)))
		out = append(out, s...)
	}
	return out
}

// TXTStrings decodes TXT rdata.
func TXTStrings(rd []byte) []string {
	var out []string
	for len(rd) > 0 {
		l := int(rd[0])
		if 1+l > len(rd) {
			break
		}
		out = append(out, string(rd[1:1+l]))
		rd = rd[1+l:]
	}
	return out
}

// ---- stream framing (independent of mosdns/dnsutils) ----

// Frame prepends the two-byte big-endian length. It panics if len(msg) > 65535.
func Frame(msg []byte) []byte {
	if len(msg) > 65535 {
		panic("wire.Frame: message too long")
	}
	out := make([]byte, 2+len(msg))
	out[0] = byte(len(msg) >> 8)
	out[1] = byte(len(msg))
	copy(out[2:], msg)
	return out
}

// Deframer incrementally splits a byte stream into frames.
type Deframer struct {
	buf []byte
}

// Feed appends stream bytes and returns all complete frames now available.
func (d *Deframer) Feed(p []byte) [][]byte {
	d.buf = append(d.buf, p...)
	var out [][]byte
	for len(d.buf) >= 2 {
		l := int(d.buf[0])<<8 | int(d.buf[1])
		if len(d.buf) < 2+l {
			break
		}
		out = append(out, append([]byte(nil), d.buf[2:2+l]...))
		d.buf = d.buf[2+l:]
	}
	return out
}

// Rest returns the bytes of an incomplete trailing frame.
func (d *Deframer) Rest() []byte { return d.buf }
