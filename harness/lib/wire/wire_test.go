package wire

import (
	"bytes"
	"testing"

	"github.com/miekg/dns"
)

func TestCrossCheck(t *testing.T) {
	m := new(dns.Msg)
	m.SetQuestion("Ab.example.org.", dns.TypeA)
	m.Response = true
	for i := 0; i < 5; i++ {
		rr, _ := dns.NewRR("Ab.example.org. 300 IN A 1.2.3.4")
		m.Answer = append(m.Answer, rr)
	}
	o := m.SetEdns0(1232, true)
	_ = o
	m.Compress = true
	b, err := m.Pack()
	if err != nil {
		t.Fatal(err)
	}
	p, err := Parse(b)
	if err != nil {
		t.Fatal(err)
	}
	if len(p.Answer) != 5 || p.Answer[3].Name != "Ab.example.org." || p.Answer[3].TTL != 300 {
		t.Fatalf("%+v", p)
	}
	opts := p.OPTs()
	if len(opts) != 1 || !opts[0].DO || opts[0].UDPSize != 1232 {
		t.Fatalf("%+v", opts)
	}
	bb := NewBuilder(7, 0x0100).Question(EncodeName("x.y."), 1, 1).OPT(4096, 0, 0, true, 0, []Option{{Code: 8, Data: []byte{0, 1, 24, 0, 1, 2, 3}}}).Bytes()
	m2 := new(dns.Msg)
	if err := m2.Unpack(bb); err != nil {
		t.Fatal(err)
	}
	if m2.Question[0].Name != "x.y." || m2.IsEdns0() == nil || !m2.IsEdns0().Do() {
		t.Fatal(m2)
	}
	var d Deframer
	fr := append(Frame([]byte("hello")), Frame([]byte("wor"))...)
	var got [][]byte
	for _, c := range fr {
		got = append(got, d.Feed([]byte{c})...)
	}
	if len(got) != 2 || !bytes.Equal(got[1], []byte("wor")) {
		t.Fatal(got)
	}
}
