module verifharness

go 1.22.0

require (
	github.com/IrineSistiana/mosdns/v5 v5.0.0
	github.com/anishathalye/porcupine v1.3.0
	github.com/miekg/dns v1.1.62
	github.com/prometheus/client_golang v1.20.5
	github.com/prometheus/client_model v0.6.1
	github.com/quic-go/quic-go v0.48.2
	go.uber.org/zap v1.27.0
	golang.org/x/net v0.32.0
	google.golang.org/protobuf v1.35.2
	gopkg.in/yaml.v3 v3.0.1
)

require (
	github.com/IrineSistiana/go-bytes-pool v0.0.0-20230918115058-c72bd9761c57 // indirect
	github.com/beorn7/perks v1.0.1 // indirect
	github.com/cespare/xxhash/v2 v2.3.0 // indirect
	github.com/fsnotify/fsnotify v1.8.0 // indirect
	github.com/go-chi/chi/v5 v5.1.0 // indirect
	github.com/google/nftables v0.2.0 // indirect
	github.com/hashicorp/hcl v1.0.0 // indirect
	github.com/josharian/native v1.1.0 // indirect
	github.com/kardianos/service v1.2.2 // indirect
	github.com/klauspost/compress v1.17.11 // indirect
	github.com/magiconair/properties v1.8.9 // indirect
	github.com/mdlayher/netlink v1.7.2 // indirect
	github.com/mdlayher/socket v0.5.1 // indirect
	github.com/mitchellh/mapstructure v1.5.0 // indirect
	github.com/munnerz/goautoneg v0.0.0-20191010083416-a7dc8b61c822 // indirect
	github.com/nadoo/ipset v0.5.0 // indirect
	github.com/pelletier/go-toml/v2 v2.2.3 // indirect
	github.com/prometheus/common v0.61.0 // indirect
	github.com/prometheus/procfs v0.15.1 // indirect
	github.com/quic-go/qpack v0.5.1 // indirect
	github.com/sagikazarmark/slog-shim v0.1.0 // indirect
	github.com/spf13/afero v1.11.0 // indirect
	github.com/spf13/cast v1.7.0 // indirect
	github.com/spf13/cobra v1.8.1 // indirect
	github.com/spf13/pflag v1.0.5 // indirect
	github.com/spf13/viper v1.19.0 // indirect
	github.com/subosito/gotenv v1.6.0 // indirect
	go.uber.org/multierr v1.11.0 // indirect
	go4.org/netipx v0.0.0-20231129151722-fdeea329fbba // indirect
	golang.org/x/crypto v0.30.0 // indirect
	golang.org/x/exp v0.0.0-20241210194714-1829a127f884 // indirect
	golang.org/x/sync v0.10.0 // indirect
	golang.org/x/sys v0.28.0 // indirect
	golang.org/x/text v0.21.0 // indirect
	golang.org/x/time v0.8.0 // indirect
	gopkg.in/ini.v1 v1.67.0 // indirect
)

replace github.com/IrineSistiana/mosdns/v5 => /repo

replace github.com/nadoo/ipset v0.5.0 => github.com/IrineSistiana/ipset v0.5.1-0.20220703061533-6e0fc3b04c0a
