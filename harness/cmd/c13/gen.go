package main

import (
	"encoding/hex"
	"fmt"
	"math/rand"
	"net/netip"
	"sort"
	"strconv"
	"strings"
	"sync/atomic"
)

// nrm is a prefix in the unified 128-bit space; b may carry host bits.
type nrm struct {
	b    a16
	bits int
}

type gen struct {
	r    *rand.Rand
	wide bool // many unrelated long prefixes: sorted lists stay long
}

func mix(seed int64, phase string, idx int) int64 {
	h := uint64(seed)*0x9e3779b97f4a7c15 + 0x1234567
	for _, ch := range []byte(phase) {
		h = (h ^ uint64(ch)) * 0x100000001b3
	}
	h ^= uint64(idx) * 0xff51afd7ed558ccd
	h ^= h >> 33
	h *= 0xc4ceb9fe1a85ec53
	h ^= h >> 29
	return int64(h & 0x7fffffffffffffff)
}

func p16(s string) a16 { return netip.MustParseAddr(s).As16() }

var hot = []a16{
	p16("::"), p16("ffff:ffff:ffff:ffff:ffff:ffff:ffff:ffff"), p16("8000::"), p16("7fff:ffff:ffff:ffff:ffff:ffff:ffff:ffff"),
	p16("2001:db8::"), p16("2001:db8:0:1::"), p16("fe80::1"), p16("::1"),
	p16("::ffff:0:0"), p16("::ffff:255.255.255.255"), p16("::fffe:ffff:ffff"), p16("::1:0:0:0"),
	p16("::ffff:10.0.0.0"), p16("::ffff:10.255.255.255"), p16("::ffff:192.168.0.0"), p16("::ffff:127.255.255.255"),
	p16("::ffff:128.0.0.0"), p16("::ffff:203.0.113.7"), p16("::ffff:0.0.0.1"), p16("::0.0.0.255"),
}

func (g *gen) rand16() a16 {
	var a a16
	g.r.Read(a[:])
	return a
}

// randAddr: fully random, a hot base, or random with a long run of 0s / 1s at
// the low end (carry / borrow boundaries).
func (g *gen) randAddr(v4 bool) a16 {
	var a a16
	switch g.r.Intn(4) {
	case 0:
		a = hot[g.r.Intn(len(hot))]
	case 1:
		a = g.rand16()
		k := g.r.Intn(129)
		v := g.r.Intn(2) == 0
		for i := 128 - k; i < 128; i++ {
			setBit(&a, i, v)
		}
	default:
		a = g.rand16()
	}
	if v4 && !isMapped(a) {
		var b4 [4]byte
		copy(b4[:], a[12:])
		a = v4to16(b4)
	}
	return a
}

func (g *gen) randBits(lo, hi int) int {
	if lo >= hi {
		return lo
	}
	if g.r.Intn(10) < 6 {
		return lo + g.r.Intn(hi-lo+1)
	}
	// clustered at the ends and around byte boundaries
	c := []int{lo, lo + 1, hi, hi - 1, hi - 2}
	for b := (lo/8 + 1) * 8; b < hi; b += 8 {
		c = append(c, b-1, b, b+1)
	}
	v := c[g.r.Intn(len(c))]
	if v < lo {
		v = lo
	}
	if v > hi {
		v = hi
	}
	return v
}

// fresh prefixes are mostly long enough not to swallow the rest of the set
// (3 of 4), so that sorted lists keep many entries; the remaining quarter uses
// the whole length range.
func (g *gen) fresh() nrm {
	long := g.wide || g.r.Intn(4) != 0
	lo := func(l int) int {
		if long {
			return l
		}
		return 0
	}
	switch k := g.r.Intn(10); {
	case k < 5: // IPv4 (or its mapped spelling, decided by present)
		return nrm{g.randAddr(true), 96 + g.randBits(lo(10), 32)}
	case k < 6: // v6 prefix reaching over the mapped range
		return nrm{g.randAddr(true), g.randBits(lo(80), 96)}
	default:
		return nrm{g.randAddr(false), g.randBits(lo(20), 128)}
	}
}

// shorter picks a length below bits: usually a few bits less, sometimes anything.
func (g *gen) shorter(bits int) int {
	if g.wide {
		b := bits - 1 - g.r.Intn(3)
		if b < 0 {
			b = 0
		}
		return b
	}
	if g.r.Intn(10) < 7 {
		b := bits - 1 - g.r.Intn(8)
		if b < 0 {
			b = 0
		}
		return b
	}
	return g.randBits(0, bits)
}

// withHost keeps the first bits bits and randomises (or clears) the rest.
func (g *gen) withHost(n nrm) nrm {
	f := firstOf(n.b, n.bits)
	if g.r.Intn(2) == 0 {
		return nrm{f, n.bits}
	}
	rnd := g.rand16()
	hm := lastOf(a16{}, n.bits)
	for i := range f {
		f[i] |= rnd[i] & hm[i]
	}
	return nrm{f, n.bits}
}

// derive makes a prefix related to n: duplicate, same base with another length,
// child (low end / high end / random), parent, sibling, or the block touching n
// on either side.
func (g *gen) derive(n nrm) nrm {
	f, l := firstOf(n.b, n.bits), lastOf(n.b, n.bits)
	switch g.r.Intn(10) {
	case 0: // duplicate
		return n
	case 1: // same base, longer
		return nrm{f, g.randBits(n.bits, 128)}
	case 2: // child somewhere inside
		nb := g.randBits(n.bits, 128)
		rnd := g.rand16()
		hm := lastOf(a16{}, n.bits)
		for i := range f {
			f[i] |= rnd[i] & hm[i]
		}
		return nrm{f, nb}
	case 3: // child at the top end
		return nrm{l, g.randBits(n.bits, 128)}
	case 4: // parent / ancestor
		return nrm{n.b, g.shorter(n.bits)}
	case 5: // sibling
		if n.bits == 0 {
			return n
		}
		setBit(&f, n.bits-1, !getBit(f, n.bits-1))
		return nrm{f, n.bits}
	case 6, 7: // block starting right after n
		x, ok := inc(l)
		if !ok {
			return nrm{l, g.shorter(n.bits)}
		}
		tz := trailingZeros(x)
		switch g.r.Intn(3) {
		case 0:
			return nrm{x, n.bits}
		case 1:
			return nrm{x, g.randBits(128-tz, 128)} // starts exactly at x
		}
		return nrm{x, g.randBits(g.shorter(n.bits), 128)}
	case 8: // block ending right before n
		x, ok := dec(f)
		if !ok {
			return nrm{f, g.shorter(n.bits)}
		}
		to := trailingOnes(x)
		switch g.r.Intn(3) {
		case 0:
			return nrm{x, n.bits}
		case 1:
			return nrm{x, g.randBits(128-to, 128)} // ends exactly at x
		}
		return nrm{x, g.randBits(g.shorter(n.bits), 128)}
	default: // same base, shorter (only equal-base if the dropped bits are zero: force that)
		nb := g.shorter(n.bits)
		return nrm{firstOf(n.b, nb), nb}
	}
}

func groups(a a16) [8]uint16 {
	var g [8]uint16
	for i := range g {
		g[i] = uint16(a[2*i])<<8 | uint16(a[2*i+1])
	}
	return g
}

func dotted(b []byte) string {
	return strconv.Itoa(int(b[0])) + "." + strconv.Itoa(int(b[1])) + "." + strconv.Itoa(int(b[2])) + "." + strconv.Itoa(int(b[3]))
}

var textForms = []string{"canonical", "expanded", "zero-padded", "upper", "dotted-tail"}

func (g *gen) v6text(a a16) (string, string) {
	gr := groups(a)
	f := g.r.Intn(7)
	if f >= len(textForms) {
		f = 0
	}
	var parts []string
	switch f {
	case 0:
		return netip.AddrFrom16(a).String(), textForms[0]
	case 1:
		for _, x := range gr {
			parts = append(parts, strconv.FormatUint(uint64(x), 16))
		}
	case 2:
		for _, x := range gr {
			parts = append(parts, fmt.Sprintf("%04x", x))
		}
	case 3:
		for _, x := range gr {
			parts = append(parts, strings.ToUpper(strconv.FormatUint(uint64(x), 16)))
		}
	case 4:
		for _, x := range gr[:6] {
			parts = append(parts, strconv.FormatUint(uint64(x), 16))
		}
		parts = append(parts, dotted(a[12:]))
	}
	return strings.Join(parts, ":"), textForms[f]
}

var leads = []string{"", "", "", " ", "\t", "  \t "}
var trails = []string{"", "", "", " ", "\t", "   \t", " # comment", "# glued comment", " #", "#", " plain words after a blank",
	" # was 10.0.0.0/8 before", " # ::/0", "\r", " \r", " # c\r", "  # 1.2.3.4 and 5.6.7.8/9 \t"}
var noises = []string{"", " ", "\t", "# comment line", "  # 192.0.2.0/24 disabled", "#", "\r", "   \t  ", "#10.0.0.0/8"}

// text spellings used (index into textForms; last slot = dotted IPv4)
var formSeen [6]atomic.Int64

// present turns a unified prefix into a loadable item: IPv4 spelling where
// possible (2/3), else IPv6 (which for mapped bases is the ::ffff:a.b.c.d/96+n
// spelling); bare address for full-length prefixes half of the time.
func (g *gen) present(n nrm, forceV6 bool) (Item, string) {
	var it Item
	form := "v4"
	if n.bits >= 96 && isMapped(firstOf(n.b, 96)) && !forceV6 && g.r.Intn(3) != 0 {
		it.V4 = true
		copy(it.raw4[:], n.b[12:])
		it.Bits = n.bits - 96
		it.Addr = hex.EncodeToString(it.raw4[:])
		it.Text = dotted(it.raw4[:])
		it.Bare = it.Bits == 32 && g.r.Intn(2) == 0
	} else {
		it.raw16 = n.b
		it.Bits = n.bits
		it.Addr = hex.EncodeToString(it.raw16[:])
		it.Text, form = g.v6text(n.b)
		it.Bare = it.Bits == 128 && g.r.Intn(2) == 0
	}
	if !it.Bare {
		it.Text += "/" + strconv.Itoa(it.Bits)
	}
	it.Lead = leads[g.r.Intn(len(leads))]
	it.Trail = trails[g.r.Intn(len(trails))]
	if g.r.Intn(6) == 0 {
		for k := 1 + g.r.Intn(2); k > 0; k-- {
			it.Noise = append(it.Noise, noises[g.r.Intn(len(noises))])
		}
	}
	return it, form
}

// selfCheckItem guards the harness' own text formatter: the text must parse (with
// the standard library, trusted) to exactly the address and length the oracle
// assumes. A mismatch is a harness bug, never a verdict.
func selfCheckItem(it *Item) error {
	want := it.prefix()
	if it.Bare {
		a, err := netip.ParseAddr(it.Text)
		if err != nil || a != want.Addr() {
			return fmt.Errorf("text %q does not parse to %v", it.Text, want.Addr())
		}
		return nil
	}
	p, err := netip.ParsePrefix(it.Text)
	if err != nil || p != want {
		return fmt.Errorf("text %q does not parse to %v (%v)", it.Text, want, err)
	}
	return nil
}

var fixedProbes = []a16{
	p16("::"), p16("ffff:ffff:ffff:ffff:ffff:ffff:ffff:ffff"), p16("::ffff:0.0.0.0"), p16("::ffff:255.255.255.255"),
	p16("::fffe:ffff:ffff"), p16("::1:0:0:0"), p16("::1"), p16("8000::"), p16("7fff:ffff:ffff:ffff:ffff:ffff:ffff:ffff"),
	p16("::ffff:127.255.255.255"), p16("::ffff:128.0.0.0"), p16("ffff:ffff:ffff:ffff:ffff:ffff:ffff:fffe"),
}

func mkProbe(a a16, role string) Probe {
	return Probe{Addr: hex.EncodeToString(a[:]), Role: role, a: a}
}

// probes: first/last address of every prefix, the neighbours just outside, the
// fixed extremes, random addresses, and addresses that differ from a prefix
// around its length boundary.
func (g *gen) probes(c *Case, extra []a16) {
	n := len(c.Items)
	stride := 1
	if n > 120 {
		stride = n / 120
	}
	off := 0
	if stride > 1 {
		off = g.r.Intn(stride)
	}
	for i := off; i < n; i += stride {
		it := &c.Items[i]
		f, l := firstOf(it.r.base, it.r.bits), lastOf(it.r.base, it.r.bits)
		c.Probes = append(c.Probes, mkProbe(f, "first"), mkProbe(l, "last"))
		if x, ok := dec(f); ok {
			c.Probes = append(c.Probes, mkProbe(x, "before"))
		}
		if x, ok := inc(l); ok {
			c.Probes = append(c.Probes, mkProbe(x, "after"))
		}
	}
	for _, a := range fixedProbes {
		c.Probes = append(c.Probes, mkProbe(a, "fixed"))
	}
	for _, a := range extra {
		c.Probes = append(c.Probes, mkProbe(a, "leaf"))
	}
	for k := 0; k < 4; k++ {
		c.Probes = append(c.Probes, mkProbe(g.randAddr(k%2 == 0), "random"))
	}
	for k := 0; k < 6 && n > 0; k++ {
		it := &c.Items[g.r.Intn(n)]
		a := it.r.base
		switch g.r.Intn(3) {
		case 0: // flip one bit near the length boundary
			p := it.r.bits - 2 + g.r.Intn(5)
			if p < 0 {
				p = 0
			}
			if p > 127 {
				p = 127
			}
			setBit(&a, p, !getBit(a, p))
		case 1: // random host part
			rnd := g.rand16()
			hm := lastOf(a16{}, it.r.bits)
			for i := range a {
				a[i] = a[i]&^hm[i] | rnd[i]&hm[i]
			}
		default: // flip a random bit
			p := g.r.Intn(128)
			setBit(&a, p, !getBit(a, p))
		}
		c.Probes = append(c.Probes, mkProbe(a, "near"))
	}
}

func (g *gen) orders(c *Case) {
	n := len(c.Items)
	id := make([]int, n)
	for i := range id {
		id[i] = i
	}
	o1 := append([]int(nil), id...)
	g.r.Shuffle(n, func(i, j int) { o1[i], o1[j] = o1[j], o1[i] })
	o2 := append([]int(nil), id...)
	switch c.Idx % 3 {
	case 0, 1: // pre-sorted by (base, length), ascending or descending
		asc := c.Idx%3 == 0
		sort.SliceStable(o2, func(i, j int) bool {
			a, b := c.Items[o2[i]].r, c.Items[o2[j]].r
			x := cmp16(firstOf(a.base, a.bits), firstOf(b.base, b.bits))
			if x == 0 {
				x = a.bits - b.bits
			}
			if asc {
				return x < 0
			}
			return x > 0
		})
	default:
		g.r.Shuffle(n, func(i, j int) { o2[i], o2[j] = o2[j], o2[i] })
	}
	c.Orders = [][]int{id, o1, o2}
}

func (g *gen) finish(c *Case, ns []nrm, forceV6 func(i int) bool, extra []a16) error {
	c.Items = make([]Item, len(ns))
	for i, n := range ns {
		it, form := g.present(n, forceV6 != nil && forceV6(i))
		c.Items[i] = it
		fi := 5
		for k, f := range textForms {
			if f == form {
				fi = k
			}
		}
		formSeen[fi].Add(1)
		if err := selfCheckItem(&c.Items[i]); err != nil {
			return err
		}
	}
	c.ready = true
	if err := c.prepare(); err != nil {
		return err
	}
	c.NoFinalNL = g.r.Intn(3) == 0
	g.orders(c)
	g.probes(c, extra)
	return nil
}

// ---- phases ---------------------------------------------------------------

// genRandom: a multiset grown from a few fresh prefixes by the derive
// operators. The first prefix has a forced length so that every length of both
// families is certainly used.
func genRandom(seed int64, idx int, maxN int) (*Case, error) {
	cs := mix(seed, "random", idx)
	g := &gen{r: rand.New(rand.NewSource(cs))}
	c := &Case{Phase: "random", Idx: idx, Seed: cs}
	var n int
	switch k := g.r.Intn(100); {
	case k < 55:
		n = 2 + g.r.Intn(7)
	case k < 85:
		n = 9 + g.r.Intn(16)
	case k < 97:
		n = 25 + g.r.Intn(56)
	default:
		n = 100 + g.r.Intn(maxN-99)
	}
	ns := make([]nrm, 0, n)
	var first nrm
	forced6 := false
	if idx%2 == 0 {
		first = nrm{g.randAddr(true), 96 + (idx/2)%33}
	} else {
		first = nrm{g.randAddr(false), (idx / 2) % 129}
		forced6 = true
	}
	ns = append(ns, g.withHost(first))
	freshPct := 22
	if (n >= 25 && g.r.Intn(10) < 6) || (n < 25 && g.r.Intn(4) == 0) {
		g.wide, freshPct = true, 60
	}
	for len(ns) < n {
		var x nrm
		if g.r.Intn(100) < freshPct {
			x = g.fresh()
		} else {
			x = g.derive(ns[g.r.Intn(len(ns))])
		}
		ns = append(ns, g.withHost(x))
	}
	err := g.finish(c, ns, func(i int) bool { return i == 0 && forced6 }, nil)
	return c, err
}

// genPair: every ordered pair of lengths of a family, in four geometric
// relations (same base / top end / touching after / touching before), plus an
// optional third related prefix.
func genPair(seed int64, idx int, v4 bool, la, lb, rel int) (*Case, error) {
	cs := mix(seed, "pair", idx)
	g := &gen{r: rand.New(rand.NewSource(cs))}
	c := &Case{Phase: "pair", Idx: idx, Seed: cs}
	off := 0
	if v4 {
		off = 96
	}
	A := nrm{g.randAddr(v4), la + off}
	B := nrm{bits: lb + off}
	fa, lst := firstOf(A.b, A.bits), lastOf(A.b, A.bits)
	switch rel {
	case 0:
		m := A.bits
		if B.bits < m {
			m = B.bits
		}
		A.b = firstOf(A.b, m)
		B.b = A.b
	case 1:
		B.b = lst
	case 2:
		if x, ok := inc(lst); ok {
			B.b = x
		} else {
			B.b, _ = dec(fa)
		}
	default:
		if x, ok := dec(fa); ok {
			B.b = x
		} else {
			B.b, _ = inc(lst)
		}
	}
	ns := []nrm{g.withHost(A), g.withHost(B)}
	if g.r.Intn(2) == 0 {
		ns = append(ns, g.withHost(g.derive(ns[g.r.Intn(2)])))
	}
	// keep the family of the pair: A in its own family; B too where it still fits
	err := g.finish(c, ns, func(i int) bool { return !v4 && i < 2 }, nil)
	if v4 && err == nil {
		// force the IPv4 spelling for A (and B if possible) so that the v4 length is really used
		for i := 0; i < 2; i++ {
			n := ns[i]
			if n.bits >= 96 && isMapped(firstOf(n.b, 96)) && !c.Items[i].V4 && g.r.Intn(4) != 0 {
				it := &c.Items[i]
				it.V4 = true
				copy(it.raw4[:], n.b[12:])
				it.Bits = n.bits - 96
				it.Addr = hex.EncodeToString(it.raw4[:])
				it.Text = dotted(it.raw4[:])
				it.Bare = false
				it.Text += "/" + strconv.Itoa(it.Bits)
				if err := selfCheckItem(it); err != nil {
					return c, err
				}
			}
		}
		err = c.prepare()
	}
	return c, err
}

var subtreeRoots = []nrm{
	{p16("::ffff:203.0.113.8"), 125},
	{p16("2001:db8::aa8"), 125},
	{p16("::"), 125},
	{p16("ffff:ffff:ffff:ffff:ffff:ffff:ffff:fff8"), 125},
	{p16("::ffff:0.0.0.0"), 125},
	{p16("::ffff:255.255.255.248"), 125},
	{p16("::fffe:ffff:fff8"), 125}, // ends right below the mapped range
	{p16("7fff:ffff:ffff:ffff:ffff:ffff:ffff:fff8"), 125},
}

// genSubtree: the subset `mask` of the 15 prefixes of a complete 3-level
// subtree (1 + 2 + 4 + 8 nodes; leaves are single addresses). All 32767
// non-empty subsets are enumerated.
func genSubtree(seed int64, idx int, loc int, mask int) (*Case, error) {
	cs := mix(seed, "subtree", idx)
	g := &gen{r: rand.New(rand.NewSource(cs))}
	c := &Case{Phase: "subtree", Idx: idx, Seed: cs}
	root := subtreeRoots[loc]
	var ns []nrm
	node := 0
	for d := 0; d <= 3; d++ {
		for j := 0; j < 1<<d; j++ {
			if mask&(1<<node) != 0 {
				b := root.b
				b[15] = b[15]&0xf8 | byte(j<<(3-d))
				ns = append(ns, g.withHost(nrm{b, root.bits + d}))
			}
			node++
		}
	}
	var leaves []a16
	for j := 0; j < 8; j++ {
		b := root.b
		b[15] = b[15]&0xf8 | byte(j)
		leaves = append(leaves, b)
	}
	err := g.finish(c, ns, nil, leaves)
	return c, err
}
