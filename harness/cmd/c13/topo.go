package main

// Multi-plugin topologies of the ip_set layer: a random DAG of 3..9 ip_set
// plugins (own ips / files, and/or `sets:` references to plugins built earlier,
// shared referenced sets, 1..6 group members so that group slices have spare
// capacity), built in dependency order inside one test Mosdns. Each set is
// probed right after its construction and again after ALL sets are built, both
// times against the oracle union of its own and transitively referenced
// prefixes: a set damaged by the construction of a later set shows in the
// second round.

import (
	"fmt"
	"math/rand"
	"net/netip"
	"strings"
	"sync/atomic"

	"github.com/IrineSistiana/mosdns/v5/coremain"
	"github.com/IrineSistiana/mosdns/v5/pkg/matcher/netlist"
	"github.com/IrineSistiana/mosdns/v5/plugin/data_provider"
	"github.com/IrineSistiana/mosdns/v5/plugin/data_provider/ip_set"
)

type TopoNode struct {
	Tag  string   `json:"tag"`
	IPs  []int    `json:"ips,omitempty"`  // item indices given as args.ips
	File []int    `json:"file,omitempty"` // item indices written to a file given as args.files
	Sets []string `json:"sets,omitempty"` // tags of plugins built earlier
}

var (
	nTopoCases, nTopoPlugins, nTopoSetsOnly, nTopoSharedFirstRef, nTopoSpareCap, nTopoQueries atomic.Int64
	nTopoSharedHub                                                                            atomic.Int64
	nTopoDamagedLater                                                                         atomic.Int64
	topoMembers                                                                               [8]atomic.Int64 // group length of the built plugin, 0..6, 7+
)

func genTopo(seed int64, idx int) (*Case, error) {
	cs := mix(seed, "topology", idx)
	g := &gen{r: rand.New(rand.NewSource(cs))}
	c := &Case{Phase: "topology", Idx: idx, Seed: cs}
	k := 3 + g.r.Intn(7)
	var ns []nrm
	members := make([]int, k)
	// half of the cases are built around one shared referenced set (see genTopoShared)
	if idx%2 == 1 {
		return genTopoShared(g, c)
	}
	for i := 0; i < k; i++ {
		nd := TopoNode{Tag: fmt.Sprintf("s%d", i)}
		own := 0
		if i == 0 || g.r.Intn(100) < 50 {
			own = 1 + g.r.Intn(4)
		}
		want := 1 + g.r.Intn(6) // target number of group members
		nsets := want
		if own > 0 {
			nsets--
		}
		if nsets > i {
			nsets = i
		}
		if own == 0 && nsets == 0 && i > 0 {
			nsets = 1
		}
		if i > 0 && g.r.Intn(40) == 0 { // rarely: a completely empty set
			own, nsets = 0, 0
		}
		// referenced sets: distinct earlier plugins; the first one is, 3 times
		// out of 5, an earlier plugin whose group is not full (3, 5 or 6 members)
		perm := g.r.Perm(i)
		if nsets > 0 && g.r.Intn(5) < 3 {
			var hubs []int
			for j := 0; j < i; j++ {
				if m := members[j]; m == 3 || m == 5 || m == 6 {
					hubs = append(hubs, j)
				}
			}
			if len(hubs) > 0 {
				h := hubs[g.r.Intn(len(hubs))]
				for x, v := range perm {
					if v == h {
						perm[0], perm[x] = perm[x], perm[0]
					}
				}
			}
		}
		for _, j := range perm[:nsets] {
			nd.Sets = append(nd.Sets, fmt.Sprintf("s%d", j))
		}
		for o := 0; o < own; o++ {
			var x nrm
			if len(ns) == 0 || g.r.Intn(100) < 45 {
				g.wide = true
				x = g.fresh()
			} else {
				x = g.derive(ns[g.r.Intn(len(ns))])
			}
			ns = append(ns, g.withHost(x))
			if idx%4 == 0 && g.r.Intn(3) == 0 {
				nd.File = append(nd.File, len(ns)-1)
			} else {
				nd.IPs = append(nd.IPs, len(ns)-1)
			}
		}
		members[i] = nsets
		if own > 0 {
			members[i]++
		}
		c.Topo = append(c.Topo, nd)
	}
	if err := g.finish(c, ns, nil, nil); err != nil {
		return c, err
	}
	c.Orders = nil
	return c, nil
}

// genTopoShared: some plain sets, one "hub" set that groups 1..6 of them (with
// or without prefixes of its own), some more plain sets, and then 2..3 sets
// without own prefixes that list the hub (usually first) plus one or two other
// sets. 3..9 plugins in all.
func genTopoShared(g *gen, c *Case) (*Case, error) {
	a, b, n := 2+g.r.Intn(4), g.r.Intn(3), 2+g.r.Intn(2)
	for a+1+b+n > 9 {
		if b > 0 {
			b--
		} else {
			a--
		}
	}
	var ns []nrm
	g.wide = true
	ownItems := func(nd *TopoNode, k int) {
		for o := 0; o < k; o++ {
			var x nrm
			if len(ns) == 0 || g.r.Intn(100) < 50 {
				x = g.fresh()
			} else {
				x = g.derive(ns[g.r.Intn(len(ns))])
			}
			ns = append(ns, g.withHost(x))
			if c.Idx%4 == 1 && g.r.Intn(3) == 0 {
				nd.File = append(nd.File, len(ns)-1)
			} else {
				nd.IPs = append(nd.IPs, len(ns)-1)
			}
		}
	}
	tag := func() string { return fmt.Sprintf("s%d", len(c.Topo)) }
	for i := 0; i < a; i++ {
		nd := TopoNode{Tag: tag()}
		ownItems(&nd, 1+g.r.Intn(3))
		c.Topo = append(c.Topo, nd)
	}
	hub := TopoNode{Tag: tag()}
	hubOwn := 0
	if g.r.Intn(10) < 3 {
		hubOwn = 1
		ownItems(&hub, 1+g.r.Intn(2))
	}
	hubSets := 1 + g.r.Intn(a)
	if g.r.Intn(2) == 0 { // a group length after which append leaves spare capacity
		if m := []int{3, 5, 6}[g.r.Intn(3)] - hubOwn; m >= 1 && m <= a {
			hubSets = m
		}
	}
	for _, j := range g.r.Perm(a)[:hubSets] {
		hub.Sets = append(hub.Sets, c.Topo[j].Tag)
	}
	hubIdx := len(c.Topo)
	c.Topo = append(c.Topo, hub)
	for i := 0; i < b; i++ {
		nd := TopoNode{Tag: tag()}
		ownItems(&nd, 1+g.r.Intn(3))
		c.Topo = append(c.Topo, nd)
	}
	for i := 0; i < n; i++ {
		nd := TopoNode{Tag: tag()}
		var others []int
		for j := range c.Topo {
			if j != hubIdx {
				others = append(others, j)
			}
		}
		g.r.Shuffle(len(others), func(x, y int) { others[x], others[y] = others[y], others[x] })
		nd.Sets = []string{hub.Tag}
		for _, j := range others[:1+g.r.Intn(2)] {
			nd.Sets = append(nd.Sets, c.Topo[j].Tag)
		}
		if g.r.Intn(5) == 0 { // hub not first
			nd.Sets[0], nd.Sets[1] = nd.Sets[1], nd.Sets[0]
		}
		c.Topo = append(c.Topo, nd)
	}
	if err := g.finish(c, ns, nil, nil); err != nil {
		return c, err
	}
	c.Orders = nil
	return c, nil
}

func (c *Case) topoString() string {
	var sb strings.Builder
	for i, nd := range c.Topo {
		if i > 0 {
			sb.WriteString("; ")
		}
		sb.WriteString(nd.Tag + "{")
		var parts []string
		if len(nd.IPs) > 0 {
			var t []string
			for _, ix := range nd.IPs {
				t = append(t, c.Items[ix].Text)
			}
			parts = append(parts, "ips:["+strings.Join(t, " ")+"]")
		}
		if len(nd.File) > 0 {
			var t []string
			for _, ix := range nd.File {
				t = append(t, c.Items[ix].Text)
			}
			parts = append(parts, "file:["+strings.Join(t, " ")+"]")
		}
		if len(nd.Sets) > 0 {
			parts = append(parts, "sets:["+strings.Join(nd.Sets, " ")+"]")
		}
		sb.WriteString(strings.Join(parts, " ") + "}")
	}
	return sb.String()
}

// topoShape is the part of the non-triviality fingerprint that describes the DAG.
func (c *Case) topoShape() string {
	var sb strings.Builder
	for _, nd := range c.Topo {
		fmt.Fprintf(&sb, "%s:%d:%d:%s|", nd.Tag, len(nd.IPs), len(nd.File), strings.Join(nd.Sets, ","))
	}
	return sb.String()
}

func (e *env) runTopo(c *Case, res *caseResult) {
	// validate the description (replay files)
	idxOf := map[string]int{}
	for i, nd := range c.Topo {
		for _, ix := range append(append([]int(nil), nd.IPs...), nd.File...) {
			if ix < 0 || ix >= len(c.Items) {
				res.harnessErr = "topology: bad item index"
				return
			}
		}
		for _, s := range nd.Sets {
			if _, ok := idxOf[s]; !ok {
				res.harnessErr = "topology: set referenced before it is built"
				return
			}
		}
		idxOf[nd.Tag] = i
	}
	for i := range c.Items {
		if c.Items[i].V4 {
			lenSeen4[c.Items[i].Bits].Add(1)
		} else {
			lenSeen6[c.Items[i].Bits].Add(1)
		}
	}
	if e.mos == nil {
		e.plugins = map[string]any{}
		e.mos = coremain.NewTestMosdnsWithPlugins(e.plugins)
	}
	for k := range e.plugins {
		delete(e.plugins, k)
	}
	nTopoCases.Add(1)

	// oracle: own + transitively referenced prefixes
	closure := make([][]rule, len(c.Topo))
	for i, nd := range c.Topo {
		for _, ix := range nd.IPs {
			closure[i] = append(closure[i], c.Items[ix].r)
		}
		for _, ix := range nd.File {
			closure[i] = append(closure[i], c.Items[ix].r)
		}
		for _, s := range nd.Sets {
			closure[i] = append(closure[i], closure[idxOf[s]]...)
		}
	}
	qs := make([]query, 0, len(c.Probes)*2)
	for i := range c.Probes {
		p := c.Probes[i].a
		qs = append(qs, query{netip.AddrFrom16(p), i, "v6"})
		if isMapped(p) {
			var b4 [4]byte
			copy(b4[:], p[12:])
			qs = append(qs, query{netip.AddrFrom4(b4), i, "v4"})
		}
	}
	exp := make([][]bool, len(c.Topo))
	for i := range c.Topo {
		exp[i] = make([]bool, len(c.Probes))
		for pi := range c.Probes {
			exp[i][pi] = oracleContains(closure[i], c.Probes[pi].a)
			if exp[i][pi] {
				res.nTrue++
			} else {
				res.nFalse++
			}
		}
	}
	// firstBad returns the index of the first query answered differently from the oracle
	firstBad := func(i int, m netlist.Matcher) int {
		bad := -1
		for qi, q := range qs {
			if m.Match(q.addr) != exp[i][q.probe] && bad < 0 {
				bad = qi
			}
		}
		nTopoQueries.Add(int64(len(qs)))
		return bad
	}

	// the shape in which an aliased group slice would show: two sets without own
	// prefixes, each listing >= 2 sets, starting with the same set whose group
	// has 3, 5 or 6 members (append leaves spare capacity there)
	{
		cnt := map[string]int{}
		for _, nd := range c.Topo {
			if len(nd.IPs)+len(nd.File) == 0 && len(nd.Sets) >= 2 {
				h := c.Topo[idxOf[nd.Sets[0]]]
				m := len(h.Sets)
				if len(h.IPs)+len(h.File) > 0 {
					m++
				}
				if m == 3 || m == 5 || m == 6 {
					cnt[h.Tag]++
					if cnt[h.Tag] == 2 {
						nTopoSharedHub.Add(1)
					}
				}
			}
		}
	}
	// the layer below first: the own prefixes of every set, loaded the same way
	// into a plain list outside any plugin. If that is already wrong the finding
	// belongs to the single-set layers, not to the cooperation of several plugins.
	for _, nd := range c.Topo {
		if len(nd.IPs)+len(nd.File) == 0 {
			continue
		}
		var own []rule
		var ips []string
		for _, ix := range nd.IPs {
			own, ips = append(own, c.Items[ix].r), append(ips, c.Items[ix].Text)
		}
		for _, ix := range nd.File {
			own = append(own, c.Items[ix].r)
		}
		l := netlist.NewList()
		err := ip_set.LoadFromIPs(ips, l)
		if err == nil && len(nd.File) > 0 {
			err = netlist.LoadFromReader(l, strings.NewReader(readerText(c, nd.File, 0, len(nd.File), !c.NoFinalNL)))
		}
		if err != nil {
			res.loadErrs = append(res.loadErrs, fmt.Sprintf("ipset/LoadFromIPs+LoadFromReader rejected well-formed input: %v", err))
			return
		}
		l.Sort()
		for _, q := range qs {
			if want := oracleContains(own, c.Probes[q.probe].a); l.Match(q.addr) != want {
				kind := "false-negative"
				if !want {
					kind = "false-positive"
				}
				res.findings = append(res.findings, finding{"ipset", "ipset-" + kind,
					fmt.Sprintf("ipset (LoadFromIPs + LoadFromReader into one plain list, before building a plugin topology): Match(%v) [probe role %s] = %v, but the loaded prefixes %s cover it: %v",
						q.addr, c.Probes[q.probe].Role, !want, showRules(own, 12), want)})
				return
			}
		}
	}
	provs := make([]data_provider.IPMatcherProvider, len(c.Topo))
	okAtBuild := make([]bool, len(c.Topo))
	firstRef := map[string]int{}
	for i, nd := range c.Topo {
		args := &ip_set.Args{Sets: nd.Sets}
		for _, ix := range nd.IPs {
			args.IPs = append(args.IPs, c.Items[ix].Text)
		}
		if len(nd.File) > 0 {
			f, err := e.tmpFile(readerText(c, nd.File, 0, len(nd.File), !c.NoFinalNL))
			if err != nil {
				res.harnessErr = "harness: " + err.Error()
				return
			}
			args.Files = []string{f}
		}
		p, err := e.info.NewPlugin(coremain.NewBP(nd.Tag, e.mos), args)
		if err != nil {
			res.loadErrs = append(res.loadErrs, fmt.Sprintf("ipset-topology/%s rejected well-formed input: %v", nd.Tag, err))
			return
		}
		prov, ok := p.(data_provider.IPMatcherProvider)
		if !ok {
			res.harnessErr = "harness: ip_set plugin is not an IPMatcherProvider"
			return
		}
		e.plugins[nd.Tag] = p
		provs[i] = prov
		nTopoPlugins.Add(1)
		if len(nd.IPs)+len(nd.File) == 0 && len(nd.Sets) > 0 {
			nTopoSetsOnly.Add(1)
			firstRef[nd.Sets[0]]++
			if firstRef[nd.Sets[0]] == 2 {
				nTopoSharedFirstRef.Add(1)
			}
		}
		m := prov.GetIPMatcher()
		if mg, ok := m.(ip_set.MatcherGroup); ok {
			l := len(mg)
			if l > 7 {
				l = 7
			}
			topoMembers[l].Add(1)
			if cap(mg) > len(mg) {
				nTopoSpareCap.Add(1)
			}
		}
		okAtBuild[i] = firstBad(i, m) < 0
	}

	// after ALL sets are built
	for i, nd := range c.Topo {
		m := provs[i].GetIPMatcher()
		bad := firstBad(i, m)
		if bad >= 0 {
			q := qs[bad]
			got := !exp[i][q.probe]
			kind := "false-negative"
			if got {
				kind = "false-positive"
			}
			when := "it was already wrong right after its own construction"
			if okAtBuild[i] {
				when = "it answered every probe correctly right after its own construction, i.e. it was damaged by the construction of a later set"
				nTopoDamagedLater.Add(1)
			}
			res.findings = append(res.findings, finding{"ipset-topology", "ipset-topology-" + kind,
				fmt.Sprintf("ip_set plugins built in this order: %s. After all were built, set %s: Match(%v) [probe role %s, %s form of %s] = %v, but its own and transitively referenced prefixes %s cover it: %v; %s",
					c.topoString(), nd.Tag, q.addr, c.Probes[q.probe].Role, q.form, show16(c.Probes[q.probe].a), got,
					showRules(closure[i], 12), exp[i][q.probe], when)})
			return
		}
		// structure: every list reachable from the set is well-formed, and together
		// they cover exactly the closure
		var lists []*netlist.List
		if flatten(m, &lists) {
			var all []rule
			for _, l := range lists {
				es, sorted := l.VerifEntries()
				nStructChecks.Add(1)
				nEntries.Add(int64(len(es)))
				rs, sf := checkEntries(es, sorted)
				if sf != nil {
					res.findings = append(res.findings, finding{"ipset-topology", "struct-" + sf.kind,
						fmt.Sprintf("topology %s, set %s: %s", c.topoString(), nd.Tag, sf.detail)})
					return
				}
				all = append(all, rs...)
			}
			if got, want := rulesUnion(all), rulesUnion(append([]rule(nil), closure[i]...)); !sameUnion(got, want) {
				res.findings = append(res.findings, finding{"ipset-topology", "struct-union-differs",
					fmt.Sprintf("topology %s: after all sets were built the lists reachable from set %s cover %s but its own and referenced prefixes cover %s",
						c.topoString(), nd.Tag, showUnion(got), showUnion(want))})
				return
			}
		}
	}
}

func showRules(rs []rule, max int) string {
	var sb strings.Builder
	sb.WriteByte('[')
	for i, r := range rs {
		if i >= max {
			fmt.Fprintf(&sb, " …+%d", len(rs)-max)
			break
		}
		if i > 0 {
			sb.WriteByte(' ')
		}
		fmt.Fprintf(&sb, "%s/%d", show16(firstOf(r.base, r.bits)), r.bits)
	}
	sb.WriteByte(']')
	return sb.String()
}
