package main

// Phase "rules": the TEXT of one rule at its edge values.
//
// A case is a small set of ordinary rules plus one rule whose text is the
// product of an address form and a length form:
//   address forms: dotted IPv4, IPv6 (canonical / expanded / zero-padded /
//     upper case / dotted tail), IPv4-mapped (dotted and hex), IPv4-compatible,
//     with a zone, in brackets, with a port, IPv4 with zero-padded / hex /
//     out-of-range octets, too few / too many parts, as one integer, padded with
//     blanks, empty, malformed IPv6, a host name;
//   length forms: none, every interesting length 0..128 (valid for IPv6, the
//     ones above 32 out of range for IPv4), lengths beyond 128 up to beyond
//     2^64 (including values that wrap to a valid length in 8 / 16 / 32 / 64
//     bits), negative, with '+', with leading zeros, empty, with blanks, hex /
//     float / non-ASCII digits / trailing garbage, doubled, dotted netmask.
// The set is loaded through netlist.LoadFromText, LoadFromReader,
// ip_set.LoadFromIPs, ip_set.LoadFromFiles, the ip_set plugin built from YAML
// args (ips / files / sets-only), and the anonymous sets of client_ip / resp_ip /
// ptr_ip (inline and &file).
//
// Oracle (built together with the text, no parser involved): every edge rule
// has a list of acceptable READINGS (address, length in 0..32 / 0..128). A
// canonical rule has exactly one and must be honoured. Any other text may be
// refused (error or panic at load), may contribute nothing, or may contribute
// exactly one of its readings; a length outside the family's range has no
// reading. In every case the set must answer all probes exactly as "ordinary
// rules + that one reading" does: never more.

import (
	"encoding/hex"
	"fmt"
	"math/rand"
	"net/netip"
	"strconv"
	"strings"
	"sync"
	"sync/atomic"

	"github.com/IrineSistiana/mosdns/v5/pkg/matcher/netlist"
	"github.com/IrineSistiana/mosdns/v5/plugin/data_provider/ip_set"
)

type Cand struct {
	Base string `json:"base"` // hex, 32 digits, unified space
	Bits int    `json:"bits"` // unified (IPv4 length + 96)
	Why  string `json:"reading"`
	r    rule
}

type RuleSpec struct {
	Text      string `json:"text"`
	AddrForm  string `json:"address_form"`
	LenForm   string `json:"length_form"`
	Canonical bool   `json:"canonical"`
	Cands     []Cand `json:"acceptable_readings"`
	Pos       int    `json:"position"` // the edge rule is loaded before Items[Pos]
	Style     int    `json:"yaml_style"`
	Matcher   string `json:"matcher"`
}

var ruleLayers = []string{"text", "reader", "ips", "files", "plugin", "matcher"}

var (
	nRulesCases, nRulesLoads, nRulesRefused, nRulesPanicked, nRulesAccepted, nRulesQueries atomic.Int64
	nRulesNontriv, nRulesCanonical, nRulesNoReading                                        atomic.Int64
	rulesMu                                                                                sync.Mutex
	rulesByLen                                                                             = map[string]map[string]int64{}
	rulesByAddr                                                                            = map[string]map[string]int64{}
	rulesByLayer                                                                           = map[string]map[string]int64{}
	rulesSamples                                                                           []any
)

func rulesTally(m map[string]map[string]int64, k, outcome string) {
	x := m[k]
	if x == nil {
		x = map[string]int64{}
		m[k] = x
	}
	x[outcome]++
}

// ---- address forms -----------------------------------------------------------

type addrOut struct {
	text  string
	max   int   // 32 or 128: the family whose lengths apply
	nat   []a16 // natural readings of the address in the unified space (none: no reading)
	canon bool
}

type addrForm struct {
	name string
	mk   func(g *gen) addrOut
}

func rand4(g *gen) [4]byte {
	a := g.randAddr(true)
	var b [4]byte
	copy(b[:], a[12:])
	return b
}

func rand6(g *gen) a16 {
	for {
		a := g.randAddr(false)
		if !isMapped(a) {
			return a
		}
	}
}

func groupsText(a a16, f string, n int) string {
	gr := groups(a)
	var parts []string
	for _, x := range gr[:n] {
		parts = append(parts, fmt.Sprintf(f, x))
	}
	return strings.Join(parts, ":")
}

func octalReading(fields [4]string) ([4]byte, bool) {
	var b [4]byte
	for i, f := range fields {
		v, err := strconv.ParseUint(f, 8, 8)
		if err != nil {
			return b, false
		}
		b[i] = byte(v)
	}
	return b, true
}

var addrForms = []addrForm{
	{"ipv4", func(g *gen) addrOut { b := rand4(g); return addrOut{dotted(b[:]), 32, []a16{v4to16(b)}, true} }},
	{"ipv6", func(g *gen) addrOut { a := rand6(g); return addrOut{netip.AddrFrom16(a).String(), 128, []a16{a}, true} }},
	{"ipv6-expanded", func(g *gen) addrOut { a := rand6(g); return addrOut{groupsText(a, "%x", 8), 128, []a16{a}, true} }},
	{"ipv6-zero-padded", func(g *gen) addrOut { a := rand6(g); return addrOut{groupsText(a, "%04x", 8), 128, []a16{a}, true} }},
	{"ipv6-upper-case", func(g *gen) addrOut { a := rand6(g); return addrOut{groupsText(a, "%X", 8), 128, []a16{a}, true} }},
	{"ipv6-dotted-tail", func(g *gen) addrOut {
		a := rand6(g)
		return addrOut{groupsText(a, "%x", 6) + ":" + dotted(a[12:]), 128, []a16{a}, true}
	}},
	{"ipv4-mapped-dotted", func(g *gen) addrOut {
		b := rand4(g)
		return addrOut{"::ffff:" + dotted(b[:]), 128, []a16{v4to16(b)}, true}
	}},
	{"ipv4-mapped-hex", func(g *gen) addrOut {
		b := rand4(g)
		return addrOut{fmt.Sprintf("::ffff:%x:%x", uint16(b[0])<<8|uint16(b[1]), uint16(b[2])<<8|uint16(b[3])), 128, []a16{v4to16(b)}, true}
	}},
	{"ipv4-mapped-expanded", func(g *gen) addrOut {
		b := rand4(g)
		return addrOut{"0:0:0:0:0:ffff:" + dotted(b[:]), 128, []a16{v4to16(b)}, true}
	}},
	{"ipv4-compatible", func(g *gen) addrOut {
		b := rand4(g)
		var a a16
		copy(a[12:], b[:])
		return addrOut{"::" + dotted(b[:]), 128, []a16{a}, true}
	}},
	{"ipv6-zone", func(g *gen) addrOut {
		a := p16("fe80::")
		g.r.Read(a[8:])
		return addrOut{netip.AddrFrom16(a).String() + "%eth0", 128, []a16{a}, false}
	}},
	{"ipv6-brackets", func(g *gen) addrOut { a := rand6(g); return addrOut{"[" + netip.AddrFrom16(a).String() + "]", 128, []a16{a}, false} }},
	{"ipv6-brackets-port", func(g *gen) addrOut {
		a := rand6(g)
		return addrOut{"[" + netip.AddrFrom16(a).String() + "]:53", 128, []a16{a}, false}
	}},
	{"ipv4-port", func(g *gen) addrOut { b := rand4(g); return addrOut{dotted(b[:]) + ":53", 32, []a16{v4to16(b)}, false} }},
	{"ipv4-zero-padded-octets", func(g *gen) addrOut {
		b := rand4(g)
		b[1] %= 100 // the padding must change the text
		var f [4]string
		for i := range f {
			f[i] = fmt.Sprintf("%03d", b[i])
		}
		nat := []a16{v4to16(b)}
		if o, ok := octalReading(f); ok {
			nat = append(nat, v4to16(o))
		}
		return addrOut{strings.Join(f[:], "."), 32, nat, false}
	}},
	{"ipv4-one-leading-zero", func(g *gen) addrOut {
		b := rand4(g)
		f := [4]string{strconv.Itoa(int(b[0])), strconv.Itoa(int(b[1])), strconv.Itoa(int(b[2])), "0" + strconv.Itoa(int(b[3]))}
		nat := []a16{v4to16(b)}
		if o, ok := octalReading(f); ok {
			nat = append(nat, v4to16(o))
		}
		return addrOut{strings.Join(f[:], "."), 32, nat, false}
	}},
	{"ipv4-hex-octets", func(g *gen) addrOut {
		b := rand4(g)
		return addrOut{fmt.Sprintf("0x%x.0x%x.0x%x.0x%x", b[0], b[1], b[2], b[3]), 32, []a16{v4to16(b)}, false}
	}},
	{"ipv4-as-integer", func(g *gen) addrOut {
		b := rand4(g)
		v := uint32(b[0])<<24 | uint32(b[1])<<16 | uint32(b[2])<<8 | uint32(b[3])
		if v < 1000 {
			v += 1 << 24
			b = u32to4(v)
		}
		return addrOut{strconv.FormatUint(uint64(v), 10), 32, []a16{v4to16(b)}, false}
	}},
	{"ipv4-octet-256", func(g *gen) addrOut {
		b := rand4(g)
		return addrOut{fmt.Sprintf("%d.%d.%d.%d", b[0], b[1], 256+int(b[2])%44, b[3]), 32, nil, false}
	}},
	{"ipv4-three-parts", func(g *gen) addrOut { b := rand4(g); return addrOut{fmt.Sprintf("%d.%d.%d", b[0], b[1], b[2]), 32, nil, false} }},
	{"ipv4-five-parts", func(g *gen) addrOut { b := rand4(g); return addrOut{dotted(b[:]) + ".7", 32, nil, false} }},
	{"ipv4-trailing-dot", func(g *gen) addrOut { b := rand4(g); return addrOut{dotted(b[:]) + ".", 32, []a16{v4to16(b)}, false} }},
	{"ipv4-empty-octet", func(g *gen) addrOut { b := rand4(g); return addrOut{fmt.Sprintf("%d..%d.%d", b[0], b[2], b[3]), 32, nil, false} }},
	{"ipv4-blank-before", func(g *gen) addrOut { b := rand4(g); return addrOut{" " + dotted(b[:]), 32, []a16{v4to16(b)}, false} }},
	{"ipv4-tab-before", func(g *gen) addrOut { b := rand4(g); return addrOut{"\t" + dotted(b[:]), 32, []a16{v4to16(b)}, false} }},
	{"ipv4-blank-after", func(g *gen) addrOut { b := rand4(g); return addrOut{dotted(b[:]) + " ", 32, []a16{v4to16(b)}, false} }},
	{"ipv6-blank-before", func(g *gen) addrOut { a := rand6(g); return addrOut{" " + netip.AddrFrom16(a).String(), 128, []a16{a}, false} }},
	{"empty", func(g *gen) addrOut { return addrOut{"", 32 + 96*g.r.Intn(2), nil, false} }},
	{"ipv6-nine-groups", func(g *gen) addrOut { a := rand6(g); return addrOut{groupsText(a, "%x", 8) + ":9", 128, nil, false} }},
	{"ipv6-seven-groups", func(g *gen) addrOut { a := rand6(g); return addrOut{groupsText(a, "%x", 7), 128, nil, false} }},
	{"ipv6-two-ellipses", func(g *gen) addrOut { return addrOut{"2001::db8::1", 128, nil, false} }},
	{"ipv6-triple-colon", func(g *gen) addrOut { return addrOut{":::1", 128, []a16{p16("::1")}, false} }},
	{"ipv6-five-digit-group", func(g *gen) addrOut {
		a := rand6(g)
		a[0] |= 0x10
		return addrOut{"0" + groupsText(a, "%04x", 8), 128, []a16{a}, false}
	}},
	{"ipv6-bad-hex", func(g *gen) addrOut { return addrOut{"2001:db8::g", 128, nil, false} }},
	{"host-name", func(g *gen) addrOut { return addrOut{pick(g.r, "localhost", "example.org", "a.b.c.d"), 32 + 96*g.r.Intn(2), nil, false} }},
}

// ---- length forms --------------------------------------------------------------

type lenOut struct {
	suffix string
	bits   []int // readings in the family's own scale; none: no reading
	canon  bool
}

type lenForm struct {
	name string
	mk   func(max int) lenOut
}

func inRange(max int, vs ...int) []int {
	var out []int
	for _, v := range vs {
		if v >= 0 && v <= max {
			out = append(out, v)
		}
	}
	return out
}

var lenForms = func() []lenForm {
	fs := []lenForm{{"none", func(max int) lenOut { return lenOut{"", []int{max}, true} }}}
	// decimal lengths 0..128: valid for IPv6; those above 32 are out of range for IPv4
	for _, v := range []int{0, 1, 2, 7, 8, 9, 15, 16, 17, 23, 24, 25, 30, 31, 32, 33, 34, 40, 48, 63, 64, 65, 95, 96, 97, 119, 120, 121, 126, 127, 128} {
		v := v
		fs = append(fs, lenForm{fmt.Sprintf("decimal %d", v), func(max int) lenOut {
			if v <= max {
				return lenOut{"/" + strconv.Itoa(v), []int{v}, true}
			}
			return lenOut{"/" + strconv.Itoa(v), nil, false}
		}})
	}
	// out of range for both families; many wrap to a valid length in a narrower integer
	for _, s := range []string{"129", "130", "160", "224", "255", "256", "257", "264", "280", "288", "384", "32768", "65535", "65536", "65544", "65560",
		"2147483647", "2147483648", "2147483672", "4294967295", "4294967296", "4294967304", "4294967320", "4294967328",
		"9223372036854775807", "9223372036854775808", "9223372036854775832", "18446744073709551615", "18446744073709551616", "18446744073709551640",
		"340282366920938463463374607431768211456", "99999999999999999999999999999999999999999999"} {
		s := s
		fs = append(fs, lenForm{"too large " + s, func(int) lenOut { return lenOut{"/" + s, nil, false} }})
	}
	fs = append(fs, lenForm{"negative zero -0", func(max int) lenOut { return lenOut{"/-0", []int{0}, false} }})
	for _, s := range []string{"-1", "-8", "-24", "-32", "-33", "-96", "-104", "-128", "-129", "-232", "-2147483648", "-4294967272", "-4294967295", "-9223372036854775808", "-18446744073709551592"} {
		s := s
		fs = append(fs, lenForm{"negative " + s, func(int) lenOut { return lenOut{"/" + s, nil, false} }})
	}
	for _, v := range []int{0, 8, 24, 32, 33, 128, 129} {
		v := v
		fs = append(fs, lenForm{fmt.Sprintf("plus sign +%d", v), func(max int) lenOut { return lenOut{"/+" + strconv.Itoa(v), inRange(max, v), false} }})
	}
	for _, s := range []string{"00", "01", "08", "010", "024", "032", "033", "040", "0128", "0129", "0200", "000000000000000000000024", "0000000000000000000000000000129"} {
		s := s
		fs = append(fs, lenForm{"leading zeros " + s, func(max int) lenOut {
			var vs []int
			if d, err := strconv.ParseUint(s, 10, 32); err == nil {
				vs = append(vs, int(d))
			}
			if o, err := strconv.ParseUint(s, 8, 32); err == nil {
				vs = append(vs, int(o))
			}
			return lenOut{"/" + s, inRange(max, vs...), false}
		}})
	}
	fs = append(fs,
		lenForm{"empty", func(max int) lenOut { return lenOut{"/", []int{max}, false} }},
		lenForm{"blank before the length", func(max int) lenOut { return lenOut{"/ 8", []int{8}, false} }},
		lenForm{"tab before the length", func(max int) lenOut { return lenOut{"/\t8", []int{8}, false} }},
		lenForm{"blank before the slash", func(max int) lenOut { return lenOut{" /8", []int{8}, false} }},
		lenForm{"blank after the length", func(max int) lenOut { return lenOut{"/8 ", []int{8}, false} }},
		lenForm{"blank then out of range", func(max int) lenOut { return lenOut{"/ 999", nil, false} }},
		lenForm{"trailing letter", func(max int) lenOut { return lenOut{"/8a", []int{8}, false} }},
		lenForm{"letter", func(max int) lenOut { return lenOut{"/a", nil, false} }},
		lenForm{"hex 0x18", func(max int) lenOut { return lenOut{"/0x18", []int{24}, false} }},
		lenForm{"hex 0x81 (out of range)", func(max int) lenOut { return lenOut{"/0x81", nil, false} }},
		lenForm{"binary 0b11000", func(max int) lenOut { return lenOut{"/0b11000", []int{24}, false} }},
		lenForm{"exponent 1e1", func(max int) lenOut { return lenOut{"/1e1", []int{10}, false} }},
		lenForm{"exponent 1e3 (out of range)", func(max int) lenOut { return lenOut{"/1e3", nil, false} }},
		lenForm{"float 8.0", func(max int) lenOut { return lenOut{"/8.0", []int{8}, false} }},
		lenForm{"underscore 2_4", func(max int) lenOut { return lenOut{"/2_4", []int{24}, false} }},
		lenForm{"arabic-indic digit", func(max int) lenOut { return lenOut{"/٨", []int{8}, false} }},
		lenForm{"fullwidth digits", func(max int) lenOut { return lenOut{"/２４", []int{24}, false} }},
		lenForm{"fullwidth digits (out of range)", func(max int) lenOut { return lenOut{"/９９９", nil, false} }},
		lenForm{"doubled /8/8", func(max int) lenOut { return lenOut{"/8/8", []int{8}, false} }},
		lenForm{"double slash", func(max int) lenOut { return lenOut{"//8", []int{8}, false} }},
		lenForm{"slash after the length", func(max int) lenOut { return lenOut{"/8/", []int{8}, false} }},
		lenForm{"doubled, second out of range", func(max int) lenOut { return lenOut{"/8/999", []int{8}, false} }},
		lenForm{"dotted netmask", func(max int) lenOut { return lenOut{"/255.255.255.0", inRange(32, 24*max/32), false} }},
		lenForm{"percent", func(max int) lenOut { return lenOut{"/8%", []int{8}, false} }},
	)
	return fs
}()

// ---- generator -----------------------------------------------------------------

func genRules(seed int64, idx, ai, li int) (*Case, error) {
	cs := mix(seed, "rules", idx)
	g := &gen{r: rand.New(rand.NewSource(cs)), wide: true}
	r := g.r
	c := &Case{Phase: "rules", Idx: idx, Seed: cs}
	if ai < 0 || ai >= len(addrForms) || li < 0 || li >= len(lenForms) {
		return c, fmt.Errorf("rules: bad form index")
	}
	// ordinary rules: 0..3, never the whole space (so that "everything" shows)
	nb := 1 + r.Intn(3)
	if r.Intn(8) == 0 {
		nb = 0
	}
	var ns []nrm
	for len(ns) < nb {
		x := g.fresh()
		if x.bits < 8 || (x.bits < 104 && isMapped(firstOf(x.b, 96))) || covers(x.b, x.bits, v4to16([4]byte{})) {
			continue
		}
		ns = append(ns, g.withHost(x))
	}
	if err := g.finish(c, ns, nil, nil); err != nil {
		return c, err
	}
	for i := range c.Items {
		c.Items[i].Lead, c.Items[i].Trail, c.Items[i].Noise = "", "", nil
	}
	c.Orders = nil

	af, lf := addrForms[ai], lenForms[li]
	ao := af.mk(g)
	lo := lf.mk(ao.max)
	sp := &RuleSpec{Text: ao.text + lo.suffix, AddrForm: af.name, LenForm: lf.name, Canonical: ao.canon && lo.canon,
		Pos: r.Intn(len(c.Items) + 1), Style: idx % 4, Matcher: matcherTypes[idx%len(matcherTypes)]}
	c.Rl = sp
	off := 0
	if ao.max == 32 {
		off = 96
	}
	addCand := func(a a16, bits int, why string) {
		for _, x := range sp.Cands {
			if x.r == (rule{a, bits}) {
				return
			}
		}
		sp.Cands = append(sp.Cands, Cand{Base: hex.EncodeToString(a[:]), Bits: bits, Why: why, r: rule{a, bits}})
	}
	for _, a := range ao.nat {
		for _, b := range lo.bits {
			addCand(a, b+off, fmt.Sprintf("%s/%d", show16(a), b+off))
		}
	}
	// the list format ignores what follows the first blank: the first field alone is a reading too
	if f := strings.Fields(sp.Text); len(f) > 0 && f[0] != sp.Text && !sp.Canonical {
		if a, bits, ok := trustedParse(f[0]); ok {
			addCand(a, bits, fmt.Sprintf("first blank-separated field %q alone", f[0]))
		}
	}
	// guards of the generator (harness matters, never a verdict)
	a, bits, ok := trustedParse(sp.Text)
	switch {
	case sp.Canonical && (!ok || len(sp.Cands) != 1 || sp.Cands[0].r != (rule{a, bits})):
		return c, fmt.Errorf("rules: canonical text %q does not parse to its single reading", sp.Text)
	case !sp.Canonical && ok:
		found := false
		for _, x := range sp.Cands {
			found = found || x.r == (rule{a, bits})
		}
		if !found {
			return c, fmt.Errorf("rules: the standard library reads %q as %s/%d, which is not among the acceptable readings", sp.Text, show16(a), bits)
		}
	}
	if strings.ContainsAny(sp.Text, "\n#") {
		return c, fmt.Errorf("rules: text %q contains a line or comment character", sp.Text)
	}

	// probes: everything around the ordinary rules (finish did that), around every
	// reading, the address itself, and the corners of both families
	for _, x := range sp.Cands {
		f, l := firstOf(x.r.base, x.r.bits), lastOf(x.r.base, x.r.bits)
		c.Probes = append(c.Probes, mkProbe(f, "reading-first"), mkProbe(l, "reading-last"))
		if y, ok := dec(f); ok {
			c.Probes = append(c.Probes, mkProbe(y, "reading-before"))
		}
		if y, ok := inc(l); ok {
			c.Probes = append(c.Probes, mkProbe(y, "reading-after"))
		}
		c.Probes = append(c.Probes, mkProbe(x.r.base, "reading-address"))
	}
	// the address of the edge rule itself (every reading "address/anything" covers it) and its surroundings
	for _, a := range ao.nat {
		c.Probes = append(c.Probes, mkProbe(a, "edge-address"))
		x := a
		x[15] ^= 1
		c.Probes = append(c.Probes, mkProbe(x, "edge-address-last-bit-flipped"))
		for _, l := range []int{8, 16, 24, 31, 32} {
			bits := l + 96 // IPv4 lengths in the unified space
			if off == 0 {
				bits = l * 4 // 32, 64, 96, 124, 128
			}
			c.Probes = append(c.Probes, mkProbe(firstOf(a, bits), fmt.Sprintf("edge-address-first-of-/%d", bits)), mkProbe(lastOf(a, bits), fmt.Sprintf("edge-address-last-of-/%d", bits)))
		}
	}
	for _, s := range []string{"::ffff:0.0.0.1", "::ffff:1.1.1.1", "::ffff:8.8.8.8", "::ffff:10.1.2.3", "::ffff:100.64.0.1", "::ffff:127.0.0.1", "::ffff:169.254.1.1",
		"::ffff:192.0.2.1", "::ffff:198.51.100.7", "::ffff:223.255.255.255", "::ffff:224.0.0.1", "::ffff:255.255.255.254",
		"2001:db8::1", "2001:db7:ffff:ffff:ffff:ffff:ffff:ffff", "fe80::1", "fc00::1", "2000::", "3fff:ffff:ffff:ffff:ffff:ffff:ffff:ffff", "100::", "ff02::1", "::2", "::fffe:0:0", "64:ff9b::1"} {
		c.Probes = append(c.Probes, mkProbe(p16(s), "corner"))
	}
	return c, nil
}

// trustedParse: the standard library's reading of a rule text (trusted, see the assumptions).
func trustedParse(s string) (a16, int, bool) {
	var p netip.Prefix
	if strings.IndexByte(s, '/') >= 0 {
		x, err := netip.ParsePrefix(s)
		if err != nil {
			return a16{}, 0, false
		}
		p = x
	} else {
		x, err := netip.ParseAddr(s)
		if err != nil {
			return a16{}, 0, false
		}
		p = netip.PrefixFrom(x.WithZone(""), x.BitLen())
	}
	if p.Addr().Is4() {
		return v4to16(p.Addr().As4()), p.Bits() + 96, true
	}
	return p.Addr().As16(), p.Bits(), true
}

func (sp *RuleSpec) prepare() error {
	for i := range sp.Cands {
		x := &sp.Cands[i]
		b, err := hex.DecodeString(x.Base)
		if err != nil || len(b) != 16 || x.Bits < 0 || x.Bits > 128 {
			return fmt.Errorf("rules: bad reading #%d", i)
		}
		copy(x.r.base[:], b)
		x.r.bits = x.Bits
	}
	if sp.Canonical && len(sp.Cands) != 1 {
		return fmt.Errorf("rules: a canonical rule has exactly one reading")
	}
	if strings.ContainsAny(sp.Text, "\n#") {
		return fmt.Errorf("rules: text contains a line or comment character")
	}
	return nil
}

func (sp *RuleSpec) shape() string { return "rules|" + sp.AddrForm + "|" + sp.LenForm + "|" + sp.Text }

func (sp *RuleSpec) readings() string {
	if len(sp.Cands) == 0 {
		return "none (the text is not a rule: refuse it or ignore it)"
	}
	var s []string
	for _, x := range sp.Cands {
		s = append(s, x.Why)
	}
	return strings.Join(s, " | ")
}

// ---- running a case --------------------------------------------------------------

func (e *env) runRules(c *Case, res *caseResult) {
	sp := c.Rl
	if err := sp.prepare(); err != nil {
		res.harnessErr = err.Error()
		return
	}
	if sp.Pos < 0 || sp.Pos > len(c.Items) {
		res.harnessErr = "rules: bad position"
		return
	}
	nRulesCases.Add(1)
	if sp.Canonical {
		nRulesCanonical.Add(1)
	}
	if len(sp.Cands) == 0 {
		nRulesNoReading.Add(1)
	}
	// the texts in load order
	var texts []string
	for i := 0; i <= len(c.Items); i++ {
		if i == sp.Pos {
			texts = append(texts, sp.Text)
		}
		if i < len(c.Items) {
			texts = append(texts, c.Items[i].Text)
			if c.Items[i].V4 {
				lenSeen4[c.Items[i].Bits].Add(1)
			} else {
				lenSeen6[c.Items[i].Bits].Add(1)
			}
		}
	}
	base := make([]rule, len(c.Items))
	for i := range c.Items {
		base[i] = c.Items[i].r
	}
	// expected answers under every acceptable outcome: [0] = the rule contributes nothing, [k] = reading k-1
	np := len(c.Probes)
	exps := make([][]bool, 1+len(sp.Cands))
	anyReading := make([]bool, np) // covered by the ordinary rules or by any reading
	for k := range exps {
		exps[k] = make([]bool, np)
	}
	for pi := range c.Probes {
		p := c.Probes[pi].a
		b := oracleContains(base, p)
		exps[0][pi] = b
		anyReading[pi] = b
		for k, x := range sp.Cands {
			v := b || covers(x.r.base, x.r.bits, p)
			exps[k+1][pi] = v
			anyReading[pi] = anyReading[pi] || v
		}
	}
	ref := exps[0]
	if len(sp.Cands) > 0 {
		ref = exps[1]
	}
	for pi := range ref {
		if ref[pi] {
			res.nTrue++
		} else {
			res.nFalse++
		}
	}
	qs := make([]query, 0, np*2)
	for i := range c.Probes {
		p := c.Probes[i].a
		qs = append(qs, query{netip.AddrFrom16(p), i, "v6"})
		if isMapped(p) {
			var b4 [4]byte
			copy(b4[:], p[12:])
			qs = append(qs, query{netip.AddrFrom4(b4), i, "v4"})
		}
	}

	judged := 0
	var found *finding
	outcome := func(layer, what string) {
		rulesMu.Lock()
		rulesTally(rulesByLen, sp.LenForm, what)
		rulesTally(rulesByAddr, sp.AddrForm, what)
		rulesTally(rulesByLayer, layer, what)
		rulesMu.Unlock()
	}
	// try runs one load; load returns the matcher or the error that refused the set
	try := func(layer, path string, load func() (matcher, error)) bool {
		if found != nil || res.harnessErr != "" {
			return false
		}
		nRulesLoads.Add(1)
		var m matcher
		var err error
		if p := guarded(func() { m, err = load() }); p != "" {
			if sp.Canonical {
				found = &finding{layer, "panic-rules-" + layer, fmt.Sprintf("%s panicked while loading the well-formed rules %q: %s", path, texts, p)}
				return false
			}
			nRulesPanicked.Add(1)
			nRulesRefused.Add(1)
			judged++
			outcome(layer, "refused (panic at load)")
			return true
		}
		if err != nil {
			if isHarnessErr(err) {
				res.harnessErr = err.Error()
				return false
			}
			if sp.Canonical {
				res.loadErrs = append(res.loadErrs, fmt.Sprintf("rules/%s rejected well-formed input %q: %v", path, sp.Text, err))
				return false
			}
			nRulesRefused.Add(1)
			judged++
			outcome(layer, "refused (error)")
			return true
		}
		got := make([]bool, len(qs))
		if p := guarded(func() {
			for qi, q := range qs {
				got[qi] = m.Match(q.addr)
			}
		}); p != "" {
			found = &finding{layer, "panic-rules-" + layer, fmt.Sprintf("%s accepted the rules %q and then panicked in Match: %s", path, texts, p)}
			return false
		}
		nRulesQueries.Add(int64(len(qs)))
		nRulesAccepted.Add(1)
		for kk := range exps {
			k := (kk + 1) % len(exps) // the readings first, "contributes nothing" last
			if k == 0 && sp.Canonical {
				continue
			}
			ok := true
			for qi, q := range qs {
				if got[qi] != exps[k][q.probe] {
					ok = false
					break
				}
			}
			if ok {
				judged++
				switch {
				case sp.Canonical:
					outcome(layer, "accepted, honoured")
				case k == 0 && len(sp.Cands) > 0 && !sameBools(exps[0], exps[1]):
					outcome(layer, "accepted, contributes nothing")
				case k == 0:
					outcome(layer, "accepted, contributes nothing beyond the ordinary rules")
				default:
					outcome(layer, "accepted as one of its readings")
				}
				return true
			}
		}
		// no acceptable outcome explains the answers: name the most telling query
		kind, bad := "", -1
		for qi, q := range qs {
			if got[qi] && !anyReading[q.probe] {
				kind, bad = "false-positive", qi
				break
			}
		}
		must := exps[0] // what the set must contain under every acceptable outcome
		if sp.Canonical {
			must = exps[1]
		}
		if bad < 0 {
			for qi, q := range qs {
				if !got[qi] && must[q.probe] {
					kind, bad = "false-negative", qi
					break
				}
			}
		}
		if bad < 0 {
			kind = "mixed-reading"
			for qi, q := range qs {
				if got[qi] != ref[q.probe] {
					bad = qi
					break
				}
			}
		}
		q := qs[bad]
		nWrong := 0
		for qi, q := range qs {
			if got[qi] && !anyReading[q.probe] {
				nWrong++
			}
		}
		why := "neither the ordinary rules nor any reading of the edge rule cover it"
		switch kind {
		case "false-negative":
			why = "an ordinary rule of the set (or the canonical edge rule) covers it"
		case "mixed-reading":
			why = "the answers fit no single reading"
		}
		form := "not canonical: may be refused, ignored, or read as one of the readings"
		if sp.Canonical {
			form = "canonical: must be honoured"
		}
		found = &finding{layer, "rules-" + layer + "-" + kind,
			fmt.Sprintf("%s accepted the rules %q without error; edge rule %q (address form %s, length form %s; %s) has the acceptable readings: %s; but Match(%v) [probe %s, %s form of %s] = %v: %s; %d of %d queries about addresses outside every reading were answered 'contained'",
				path, texts, sp.Text, sp.AddrForm, sp.LenForm, form, sp.readings(), q.addr, c.Probes[q.probe].Role, q.form, show16(c.Probes[q.probe].a), got[bad], why, nWrong, len(qs))}
		return false
	}
	listLoad := func(f func(l *netlist.List) error) func() (matcher, error) {
		return func() (matcher, error) {
			l := netlist.NewList()
			if err := f(l); err != nil {
				return nil, err
			}
			l.Sort()
			return l, nil
		}
	}

	try("text", "netlist.LoadFromText", listLoad(func(l *netlist.List) error {
		for _, t := range texts {
			if err := netlist.LoadFromText(l, t); err != nil {
				return err
			}
		}
		return nil
	}))
	content := strings.Join(texts, "\n")
	if c.Idx%3 != 0 {
		content += "\n"
	}
	try("reader", "netlist.LoadFromReader", listLoad(func(l *netlist.List) error {
		return netlist.LoadFromReader(l, strings.NewReader(content))
	}))
	try("ips", "ip_set.LoadFromIPs", listLoad(func(l *netlist.List) error { return ip_set.LoadFromIPs(texts, l) }))
	file, err := e.lineFile(30, []byte(content))
	if err != nil {
		res.harnessErr = "harness: " + err.Error()
		return
	}
	try("files", "ip_set.LoadFromFiles", listLoad(func(l *netlist.List) error { return ip_set.LoadFromFiles([]string{file}, l) }))

	e.ensureMos()
	e.clearPlugins()
	try("plugin", "ip_set plugin (ips: from YAML args)", func() (matcher, error) {
		m, _, _, err := e.buildIPSet("rlmain", texts, nil, nil, sp.Style)
		return m, err
	})
	try("plugin", "ip_set plugin (files:)", func() (matcher, error) {
		m, _, _, err := e.buildIPSet("rlmain", nil, []string{file}, nil, sp.Style)
		return m, err
	})
	try("plugin", "ip_set plugin (sets only -> ip_set with ips: from YAML args)", func() (matcher, error) {
		delete(e.plugins, "rlsub")
		if _, _, _, err := e.buildIPSet("rlsub", texts, nil, nil, (sp.Style+1)%4); err != nil {
			return nil, err
		}
		m, _, _, err := e.buildIPSet("rlmain", nil, nil, []string{"rlsub"}, sp.Style)
		return m, err
	})
	// the quick setup splits at blanks and reads '$' / '&' prefixes: only texts that stay one field
	if f := strings.Fields(sp.Text); len(f) == 1 && f[0] == sp.Text && !strings.HasPrefix(sp.Text, "$") && !strings.HasPrefix(sp.Text, "&") {
		try("matcher", sp.Matcher+" (rules inline)", func() (matcher, error) { return e.quickMatcher(sp.Matcher, strings.Join(texts, " ")) })
	}
	try("matcher", sp.Matcher+" (&file)", func() (matcher, error) { return e.quickMatcher(sp.Matcher, "&"+file) })

	if found != nil {
		res.findings = append(res.findings, *found)
	}
	res.extNT = found == nil && judged > 0
	if res.extNT {
		nRulesNontriv.Add(1)
		rulesMu.Lock()
		if len(rulesSamples) < 4 && !sp.Canonical && c.Idx%7 == 0 {
			rulesSamples = append(rulesSamples, map[string]any{"idx": c.Idx, "rules": texts, "edge_rule": sp.Text, "address_form": sp.AddrForm, "length_form": sp.LenForm,
				"acceptable_readings": sp.readings(), "probes": len(c.Probes), "loads_judged": judged})
		}
		rulesMu.Unlock()
	}
}

func sameBools(a, b []bool) bool {
	for i := range a {
		if a[i] != b[i] {
			return false
		}
	}
	return true
}

func rulesEvidence() {
	rep.Count("rules_cases", nRulesCases.Load())
	rep.Count("rules_cases_nontrivial", nRulesNontriv.Load())
	rep.Count("rules_cases_with_canonical_edge_rule", nRulesCanonical.Load())
	rep.Count("rules_cases_whose_edge_rule_has_no_reading", nRulesNoReading.Load())
	rep.Count("rules_loads", nRulesLoads.Load())
	rep.Count("rules_loads_refused", nRulesRefused.Load())
	rep.Count("rules_loads_refused_by_panic", nRulesPanicked.Load())
	rep.Count("rules_loads_accepted_and_compared", nRulesAccepted.Load())
	rep.Count("rules_queries", nRulesQueries.Load())
	rep.Count("rules_address_forms", int64(len(addrForms)))
	rep.Count("rules_length_forms", int64(len(lenForms)))
	rulesMu.Lock()
	rep.Extra("rules_outcomes_per_length_form", rulesByLen)
	rep.Extra("rules_outcomes_per_address_form", rulesByAddr)
	rep.Extra("rules_outcomes_per_layer", rulesByLayer)
	rep.Extra("rules_sample_cases", rulesSamples)
	rulesMu.Unlock()
}

func rulesDemands() {
	if nRulesCases.Load() == 0 {
		return
	}
	rulesMu.Lock()
	defer rulesMu.Unlock()
	for _, f := range lenForms {
		if len(rulesByLen[f.name]) == 0 {
			rep.Inconclusive("rules: no load with length form %q was judged", f.name)
		}
	}
	for _, f := range addrForms {
		if len(rulesByAddr[f.name]) == 0 {
			rep.Inconclusive("rules: no load with address form %q was judged", f.name)
		}
	}
	for _, l := range ruleLayers {
		if len(rulesByLayer[l]) == 0 {
			rep.Inconclusive("rules: layer %s was never judged", l)
		}
	}
	if nRulesRefused.Load() == 0 || nRulesAccepted.Load() == 0 || nRulesNontriv.Load() == 0 {
		rep.Inconclusive("rules: a monitor observed nothing (refused=%d accepted=%d nontrivial=%d)", nRulesRefused.Load(), nRulesAccepted.Load(), nRulesNontriv.Load())
	}
}
