package main

import (
	"encoding/hex"
	"fmt"
	"net/netip"
	"os"
	"runtime/debug"
	"strings"
	"sync/atomic"
	"testing/iotest"

	"github.com/IrineSistiana/mosdns/v5/coremain"
	"github.com/IrineSistiana/mosdns/v5/pkg/matcher/netlist"
	"github.com/IrineSistiana/mosdns/v5/plugin/data_provider"
	"github.com/IrineSistiana/mosdns/v5/plugin/data_provider/ip_set"
)

// Item is one loaded prefix or bare address, written out so that a replay file
// re-executes the case without the generator.
type Item struct {
	V4    bool     `json:"v4"`
	Addr  string   `json:"addr"` // hex, 8 (v4) or 32 (v6) digits, host bits as loaded
	Bits  int      `json:"bits"` // in the item's own family (0..32 / 0..128)
	Bare  bool     `json:"bare,omitempty"`
	Text  string   `json:"text"`            // what the text loaders are given
	Lead  string   `json:"lead,omitempty"`  // reader decoration before the text
	Trail string   `json:"trail,omitempty"` // reader decoration after the text (comment, blanks, CR)
	Noise []string `json:"noise,omitempty"` // blank / comment-only lines put before this item

	raw4  [4]byte
	raw16 a16
	r     rule
}

type Probe struct {
	Addr string `json:"addr"` // hex, 32 digits
	Role string `json:"role"`
	a    a16
}

type Case struct {
	Phase     string   `json:"phase"`
	Idx       int      `json:"idx"`
	Seed      int64    `json:"seed"`
	Items     []Item   `json:"items"`
	Orders    [][]int  `json:"orders"`
	NoFinalNL bool     `json:"no_final_newline,omitempty"`
	Probes    []Probe  `json:"probes"`
	Tags      []string `json:"tags,omitempty"`
	// topology phase only: several cooperating ip_set plugins (see topo.go)
	Topo []TopoNode `json:"topo,omitempty"`
	// lines phase only: the source as physical lines, and the bait planted in its comments (see lines.go)
	Src   *Source `json:"source,omitempty"`
	Baits []Item  `json:"baits,omitempty"`
	// sizes phase only: the set is regenerated from this description (see sizes.go)
	Sz *SizeSpec `json:"sizes,omitempty"`
	// rules phase only: the edge rule loaded together with Items (see rules.go)
	Rl *RuleSpec `json:"edge_rule,omitempty"`

	ready bool
}

// prepItems decodes the hex fields (replay) and derives the oracle rules.
func prepItems(items []Item, ready bool) error {
	for i := range items {
		it := &items[i]
		if !ready {
			b, err := hex.DecodeString(it.Addr)
			if err != nil {
				return err
			}
			switch {
			case it.V4 && len(b) == 4:
				copy(it.raw4[:], b)
			case !it.V4 && len(b) == 16:
				copy(it.raw16[:], b)
			default:
				return fmt.Errorf("item %d: bad address length", i)
			}
		}
		max := 128
		if it.V4 {
			max = 32
		}
		if it.Bits < 0 || it.Bits > max || (it.Bare && it.Bits != max) {
			return fmt.Errorf("item %d: bad length", i)
		}
		if it.V4 {
			it.r = rule{v4to16(it.raw4), it.Bits + 96}
		} else {
			it.r = rule{it.raw16, it.Bits}
		}
	}
	return nil
}

func (c *Case) prepare() error {
	if err := prepItems(c.Items, c.ready); err != nil {
		return err
	}
	if err := prepItems(c.Baits, c.ready); err != nil {
		return err
	}
	if !c.ready {
		for i := range c.Probes {
			b, err := hex.DecodeString(c.Probes[i].Addr)
			if err != nil || len(b) != 16 {
				return fmt.Errorf("probe %d: bad address", i)
			}
			copy(c.Probes[i].a[:], b)
		}
	}
	for _, o := range c.Orders {
		if len(o) != len(c.Items) {
			return fmt.Errorf("order length")
		}
		for _, k := range o {
			if k < 0 || k >= len(c.Items) {
				return fmt.Errorf("order index")
			}
		}
	}
	c.ready = true
	return nil
}

func (it *Item) prefix() netip.Prefix {
	if it.V4 {
		return netip.PrefixFrom(netip.AddrFrom4(it.raw4), it.Bits)
	}
	return netip.PrefixFrom(netip.AddrFrom16(it.raw16), it.Bits)
}

var layers = []string{"append", "text", "reader", "ipset"}

var appendVariants = []string{"variadic", "one-by-one", "append-sort-append-sort", "resort-after-empty-append"}
var ipsetVariants = []string{"LoadFromIPs", "LoadFromFiles", "plugin(ips+files+sets)", "plugin(ips+sets)"}

type matcher interface{ Match(netip.Addr) bool }

// loaded is what one (layer, order) load produced.
type loaded struct {
	m       matcher
	lists   []*netlist.List
	inputs  int // prefixes that went in
	variant string
	err     error
}

type env struct {
	id   int
	dir  string
	seq  int
	info coremain.PluginTypeInfo

	mos     *coremain.Mosdns
	plugins map[string]any
}

func (e *env) tmpFile(content string) (string, error) {
	e.seq++
	p := fmt.Sprintf("%s/w%d-%d.txt", e.dir, e.id, e.seq%4)
	return p, os.WriteFile(p, []byte(content), 0o644)
}

func readerText(c *Case, order []int, from, to int, finalNL bool) string {
	var sb strings.Builder
	for k := from; k < to; k++ {
		it := &c.Items[order[k]]
		for _, n := range it.Noise {
			sb.WriteString(n)
			sb.WriteByte('\n')
		}
		sb.WriteString(it.Lead)
		sb.WriteString(it.Text)
		sb.WriteString(it.Trail)
		if k != to-1 || finalNL {
			sb.WriteByte('\n')
		}
	}
	return sb.String()
}

func flatten(m netlist.Matcher, out *[]*netlist.List) bool {
	switch v := m.(type) {
	case *netlist.List:
		*out = append(*out, v)
		return true
	case ip_set.MatcherGroup:
		for _, x := range v {
			if !flatten(x, out) {
				return false
			}
		}
		return true
	}
	return false
}

func (e *env) load(c *Case, layer string, oi int) (ld loaded) {
	order := c.Orders[oi]
	n := len(order)
	ld.inputs = n
	l := netlist.NewList()
	switch layer {
	case "append":
		v := c.Idx % len(appendVariants) // one variant per case: differences between its 3 loads are due to the order alone
		ld.variant = appendVariants[v]
		ps := make([]netip.Prefix, n)
		for k, ix := range order {
			ps[k] = c.Items[ix].prefix()
		}
		switch v {
		case 0:
			l.Append(ps...)
		case 1:
			for _, p := range ps {
				l.Append(p)
			}
		case 2:
			h := n / 2
			l.Append(ps[:h]...)
			l.Sort()
			l.Append(ps[h:]...)
		case 3:
			l.Append(ps...)
			l.Sort()
			l.Append()
			l.Sort()
		}
		l.Sort()
	case "text":
		ld.variant = "LoadFromText"
		for _, ix := range order {
			if err := netlist.LoadFromText(l, c.Items[ix].Text); err != nil {
				ld.err = fmt.Errorf("LoadFromText(%q): %w", c.Items[ix].Text, err)
				return
			}
		}
		l.Sort()
	case "reader":
		txt := readerText(c, order, 0, n, !c.NoFinalNL)
		var err error
		if c.Idx%2 == 0 {
			ld.variant = "LoadFromReader"
			err = netlist.LoadFromReader(l, strings.NewReader(txt))
		} else {
			ld.variant = "LoadFromReader(one byte at a time)"
			err = netlist.LoadFromReader(l, iotest.OneByteReader(strings.NewReader(txt)))
		}
		if err != nil {
			ld.err = fmt.Errorf("LoadFromReader(%q): %w", txt, err)
			return
		}
		l.Sort()
	case "ipset":
		// the file-backed variants cost six system calls per file: every 4th case
		// (one variant per case, see above)
		var v int
		switch c.Idx % 4 {
		case 0:
			v = 1 + (c.Idx/4)%2
		case 1:
			v = 0
		default:
			v = 3
		}
		ld.variant = ipsetVariants[v]
		switch v {
		case 0:
			ips := make([]string, n)
			for k, ix := range order {
				ips[k] = c.Items[ix].Text
			}
			if err := ip_set.LoadFromIPs(ips, l); err != nil {
				ld.err = err
				return
			}
			l.Sort()
		case 1:
			h := (n + 1) / 2
			f1, err := e.tmpFile(readerText(c, order, 0, h, true))
			if err != nil {
				ld.err = fmt.Errorf("harness: %w", err)
				return
			}
			f2, err := e.tmpFile(readerText(c, order, h, n, !c.NoFinalNL))
			if err != nil {
				ld.err = fmt.Errorf("harness: %w", err)
				return
			}
			if err := ip_set.LoadFromFiles([]string{f1, "", f2}, l); err != nil {
				ld.err = err
				return
			}
			l.Sort()
		case 2, 3:
			// items dealt round-robin to: args.ips, (a file,) and a second ip_set
			// plugin referenced through args.sets
			var ips, sub []string
			var fileIdx []int
			parts := 5 - v
			for k, ix := range order {
				switch g := (k + c.Idx) % parts; {
				case g == 0:
					ips = append(ips, c.Items[ix].Text)
				case g == 1:
					sub = append(sub, c.Items[ix].Text)
				default:
					fileIdx = append(fileIdx, ix)
				}
			}
			var files []string
			if v == 2 {
				f, err := e.tmpFile(readerText(c, fileIdx, 0, len(fileIdx), !c.NoFinalNL))
				if err != nil {
					ld.err = fmt.Errorf("harness: %w", err)
					return
				}
				files = []string{f}
			}
			// one test Mosdns per worker (building one registers the process and
			// Go metric collectors, far more work than the case itself); its plugin
			// map is ours, so the "sub" entry is replaced per load
			if e.mos == nil {
				e.plugins = map[string]any{}
				e.mos = coremain.NewTestMosdnsWithPlugins(e.plugins)
			}
			delete(e.plugins, "sub")
			subP, err := e.info.NewPlugin(coremain.NewBP("sub", e.mos), &ip_set.Args{IPs: sub})
			if err != nil {
				ld.err = err
				return
			}
			e.plugins["sub"] = subP
			mainP, err := e.info.NewPlugin(coremain.NewBP("main", e.mos), &ip_set.Args{IPs: ips, Files: files, Sets: []string{"sub"}})
			if err != nil {
				ld.err = err
				return
			}
			prov, ok := mainP.(data_provider.IPMatcherProvider)
			if !ok {
				ld.err = fmt.Errorf("harness: ip_set plugin is not an IPMatcherProvider")
				return
			}
			mm := prov.GetIPMatcher()
			ld.m = mm
			ld.lists = []*netlist.List{}
			if !flatten(mm, &ld.lists) {
				ld.lists = nil
			}
			return
		}
	}
	ld.m = l
	ld.lists = []*netlist.List{l}
	return
}

type query struct {
	addr  netip.Addr
	probe int
	form  string // v6 | v4 | unmap
}

type finding struct {
	layer string
	key   string
	what  string
}

// hot counters (flushed into the evidence at the end)
var (
	nLoads, nQueries, nTrue, nFalse, nV4FormQueries, nStructChecks, nEntries, nInputs atomic.Int64
	nMergedAway, nOrderCmp, nContainsVsMatch, nPluginLists, nReaderNoise              atomic.Int64
	layerLoads                                                                        [4]atomic.Int64
	lenSeen4                                                                          [33]atomic.Int64
	lenSeen6                                                                          [129]atomic.Int64
	entriesHist                                                                       [8]atomic.Int64 // sorted-list sizes: 0,1,2,3-4,5-8,9-16,17-64,65+
	nOrderDependent                                                                   atomic.Int64
	nInvalidTrue, nZonedAsked, nZonedFalse                                            atomic.Int64
)

type caseResult struct {
	findings   []finding
	loadErrs   []string
	harnessErr string
	nTrue      int
	nFalse     int
	entries    []string // of the first append load, for samples
	linesNT    bool     // lines phase: the case is non-trivial (see runLines)
	extNT      bool     // sizes / rules phase: the case is non-trivial (see runSizes, runRules)
}

func (e *env) runCase(c *Case) (res caseResult) {
	var curLayer = "harness"
	defer func() {
		if p := recover(); p != nil {
			st := string(debug.Stack())
			if len(st) > 3000 {
				st = st[:3000]
			}
			res.findings = append(res.findings, finding{curLayer, "panic-" + curLayer,
				fmt.Sprintf("panic while loading/querying a well-formed set through %s: %v\n%s", curLayer, p, st)})
		}
	}()
	if err := c.prepare(); err != nil {
		res.harnessErr = err.Error()
		return
	}
	if len(c.Topo) > 0 {
		curLayer = "ipset-topology"
		e.runTopo(c, &res)
		return
	}
	if c.Src != nil {
		curLayer = "lines"
		e.runLines(c, &res)
		return
	}
	if c.Sz != nil {
		curLayer = "sizes"
		e.runSizes(c, &res)
		return
	}
	if c.Rl != nil {
		curLayer = "rules"
		e.runRules(c, &res)
		return
	}
	rules := make([]rule, len(c.Items))
	for i := range c.Items {
		rules[i] = c.Items[i].r
		if c.Items[i].V4 {
			lenSeen4[c.Items[i].Bits].Add(1)
		} else {
			lenSeen6[c.Items[i].Bits].Add(1)
		}
		nReaderNoise.Add(int64(len(c.Items[i].Noise)))
	}
	want := rulesUnion(append([]rule(nil), rules...))

	// queries + expected answers
	qs := make([]query, 0, len(c.Probes)*2)
	exp := make([]bool, len(c.Probes))
	for i := range c.Probes {
		p := c.Probes[i].a
		exp[i] = oracleContains(rules, p)
		if exp[i] {
			res.nTrue++
		} else {
			res.nFalse++
		}
		qs = append(qs, query{netip.AddrFrom16(p), i, "v6"})
		if isMapped(p) {
			var b4 [4]byte
			copy(b4[:], p[12:])
			qs = append(qs, query{netip.AddrFrom4(b4), i, "v4"})
			if i%4 == 0 {
				qs = append(qs, query{netip.AddrFrom16(p).Unmap(), i, "unmap"})
			}
		}
	}

	type lres struct {
		got     []bool
		variant string
	}
	for li, layer := range layers {
		curLayer = layer
		var per []lres
		var fs []finding
		failed := false
		for oi := range c.Orders {
			ld := e.load(c, layer, oi)
			nLoads.Add(1)
			layerLoads[li].Add(1)
			if ld.err != nil {
				if strings.HasPrefix(ld.err.Error(), "harness:") {
					res.harnessErr = ld.err.Error()
				} else {
					res.loadErrs = append(res.loadErrs, fmt.Sprintf("%s/%s rejected well-formed input: %v", layer, ld.variant, ld.err))
				}
				failed = true
				break
			}
			got := make([]bool, len(qs))
			firstBad := -1
			var cV4, cCM int64
			for qi, q := range qs {
				g := ld.m.Match(q.addr)
				got[qi] = g
				if g != exp[q.probe] && firstBad < 0 {
					firstBad = qi
				}
				if q.form != "v6" {
					cV4++
				}
				if l, ok := ld.m.(*netlist.List); ok && qi%2 == 0 {
					cCM++
					if l.Contains(q.addr) != g && len(fs) == 0 {
						fs = append(fs, finding{layer, layer + "-match-differs-from-contains",
							fmt.Sprintf("Match(%v)=%v but Contains gives the opposite", q.addr, g)})
					}
				}
			}
			nQueries.Add(int64(len(qs)))
			// out of scope for the verdict (invalid / zoned addresses): must not
			// panic; what was answered is only recorded
			if ld.m.Match(netip.Addr{}) {
				nInvalidTrue.Add(1)
			}
			for pi := range exp {
				if exp[pi] {
					nZonedAsked.Add(1)
					if !ld.m.Match(netip.AddrFrom16(c.Probes[pi].a).WithZone("eth0")) {
						nZonedFalse.Add(1)
					}
					break
				}
			}
			nV4FormQueries.Add(cV4)
			nContainsVsMatch.Add(cCM)
			per = append(per, lres{got, ld.variant})
			if firstBad >= 0 {
				q := qs[firstBad]
				kind := "false-negative"
				if got[firstBad] {
					kind = "false-positive"
				}
				fs = append(fs, finding{layer, layer + "-" + kind,
					fmt.Sprintf("%s (%s, load order #%d %s): Match(%v) [probe role %s, %s form of %s] = %v, but the loaded prefixes %s cover it: %v",
						layer, ld.variant, oi, showOrder(c.Orders[oi]), q.addr, c.Probes[q.probe].Role, q.form, show16(c.Probes[q.probe].a),
						got[firstBad], texts(c, 12), exp[q.probe])})
			}
			// structural invariant
			if ld.lists != nil {
				var all []rule
				structOK := true
				for _, l := range ld.lists {
					es, sorted := l.VerifEntries()
					nStructChecks.Add(1)
					nEntries.Add(int64(len(es)))
					if layer == "ipset" && len(ld.lists) > 1 {
						nPluginLists.Add(1)
					}
					entriesHist[histBucket(len(es))].Add(1)
					rs, sf := checkEntries(es, sorted)
					if sf != nil {
						fs = append(fs, finding{layer, "struct-" + sf.kind,
							fmt.Sprintf("%s (%s, order #%d): after Sort: %s; inputs %s", layer, ld.variant, oi, sf.detail, texts(c, 12))})
						structOK = false
						break
					}
					if l.Len() != len(es) {
						fs = append(fs, finding{layer, "struct-len", fmt.Sprintf("Len()=%d but %d entries", l.Len(), len(es))})
					}
					all = append(all, rs...)
					if li == 0 && oi == 0 && len(es) <= 12 && res.entries == nil {
						for _, e := range es {
							res.entries = append(res.entries, e.String())
						}
					}
				}
				if structOK {
					nInputs.Add(int64(ld.inputs))
					nMergedAway.Add(int64(ld.inputs - len(all)))
					if got := rulesUnion(all); !sameUnion(got, want) {
						fs = append(fs, finding{layer, "struct-union-differs",
							fmt.Sprintf("%s (%s, order #%d): the sorted entries cover %s but the inputs %s cover %s",
								layer, ld.variant, oi, showUnion(got), texts(c, 12), showUnion(want))})
					}
				}
			}
		}
		if failed {
			break // higher layers are built on this one
		}
		// order independence, compared directly between the loads
		dep := false
		for oi := 1; oi < len(per); oi++ {
			nOrderCmp.Add(1)
			for qi := range qs {
				if per[oi].got[qi] != per[0].got[qi] {
					dep = true
					if len(fs) == 0 { // cannot happen if both agree with the oracle; kept as a guard
						fs = append(fs, finding{layer, layer + "-order-dependent", "answers differ between load orders"})
					}
					break
				}
			}
		}
		if len(fs) > 0 {
			// one finding class per case: the first content finding, else the first structural one
			f := fs[0]
			for _, x := range fs {
				if !strings.HasPrefix(x.key, "struct-") {
					f = x
					break
				}
			}
			if dep {
				nOrderDependent.Add(1)
				if !strings.HasPrefix(f.key, "struct-") && !strings.HasSuffix(f.key, "-order-dependent") {
					f.what = "the answers also differ between the 3 load orders of the same multiset; " + f.what
				}
			}
			res.findings = append(res.findings, f)
			break // report the lowest failing layer only: the layers above are built on it
		}
	}
	return
}

func texts(c *Case, max int) string {
	var sb strings.Builder
	sb.WriteByte('[')
	for i := range c.Items {
		if i >= max {
			fmt.Fprintf(&sb, " …+%d", len(c.Items)-max)
			break
		}
		if i > 0 {
			sb.WriteByte(' ')
		}
		sb.WriteString(c.Items[i].Text)
	}
	sb.WriteByte(']')
	return sb.String()
}

func showUnion(u []interval) string {
	var sb strings.Builder
	sb.WriteByte('{')
	for i, x := range u {
		if i >= 6 {
			fmt.Fprintf(&sb, " …+%d", len(u)-6)
			break
		}
		if i > 0 {
			sb.WriteByte(' ')
		}
		fmt.Fprintf(&sb, "%s..%s", show16(x.lo), show16(x.hi))
	}
	sb.WriteByte('}')
	return sb.String()
}

var histNames = []string{"0", "1", "2", "3-4", "5-8", "9-16", "17-64", "65+"}

func histBucket(n int) int {
	switch {
	case n <= 2:
		return n
	case n <= 4:
		return 3
	case n <= 8:
		return 4
	case n <= 16:
		return 5
	case n <= 64:
		return 6
	}
	return 7
}

func showOrder(o []int) string {
	if len(o) <= 16 {
		return fmt.Sprint(o)
	}
	return fmt.Sprintf("%v…(%d items)", o[:16], len(o))
}
