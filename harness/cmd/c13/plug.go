package main

// Shared plumbing of the phases "sizes" and "rules": ip_set plugins are built the
// way coremain builds them from a configuration file (YAML text -> yaml.v3 ->
// map[string]any -> utils.WeakDecode into the registered args type ->
// registered constructor), and anonymous sets through the quick setup of the
// three IP matchers (client_ip, resp_ip, ptr_ip).

import (
	"context"
	"fmt"
	"net/netip"
	"strconv"
	"strings"

	"github.com/IrineSistiana/mosdns/v5/coremain"
	"github.com/IrineSistiana/mosdns/v5/pkg/matcher/netlist"
	"github.com/IrineSistiana/mosdns/v5/pkg/query_context"
	"github.com/IrineSistiana/mosdns/v5/pkg/utils"
	"github.com/IrineSistiana/mosdns/v5/plugin/data_provider"
	"github.com/IrineSistiana/mosdns/v5/plugin/data_provider/ip_set"
	"github.com/IrineSistiana/mosdns/v5/plugin/executable/sequence"
	_ "github.com/IrineSistiana/mosdns/v5/plugin/matcher/ptr_ip"
	"github.com/miekg/dns"
	"go.uber.org/zap"
	"gopkg.in/yaml.v3"
)

var matcherTypes = []string{"client_ip", "resp_ip", "ptr_ip"}

func (e *env) ensureMos() {
	if e.mos == nil {
		e.plugins = map[string]any{}
		e.mos = coremain.NewTestMosdnsWithPlugins(e.plugins)
	}
}

func (e *env) clearPlugins() {
	for k := range e.plugins {
		delete(e.plugins, k)
	}
}

// yamlScalar writes s as a YAML scalar: 0 plain, 1 single-quoted, 2 double-quoted.
func yamlScalar(s string, style int) string {
	switch style {
	case 0:
		return s
	case 1:
		return "'" + strings.ReplaceAll(s, "'", "''") + "'"
	}
	return strconv.Quote(s) // Go's escapes \t \" \\ \uXXXX are valid in YAML double-quoted scalars
}

var yamlStyleNames = []string{"plain", "single-quoted", "double-quoted", "flow-sequence"}

// yamlArgs writes the args of an ip_set plugin as a YAML mapping. style 3 puts
// the ips into a flow sequence of double-quoted scalars.
func yamlArgs(ips, files, sets []string, style int) string {
	var sb strings.Builder
	list := func(key string, xs []string, st int) {
		if xs == nil {
			return
		}
		if len(xs) == 0 {
			sb.WriteString(key + ": []\n")
			return
		}
		if st == 3 {
			sb.WriteString(key + ": [")
			for i, x := range xs {
				if i > 0 {
					sb.WriteString(", ")
				}
				sb.WriteString(yamlScalar(x, 2))
			}
			sb.WriteString("]\n")
			return
		}
		sb.WriteString(key + ":\n")
		for _, x := range xs {
			sb.WriteString("  - " + yamlScalar(x, st) + "\n")
		}
	}
	list("ips", ips, style)
	list("files", files, 2)
	list("sets", sets, 2)
	if sb.Len() == 0 {
		return "{}\n"
	}
	return sb.String()
}

func sameStrings(a, b []string) bool {
	if len(a) != len(b) {
		return false
	}
	for i := range a {
		if a[i] != b[i] {
			return false
		}
	}
	return true
}

// decodeIPSetArgs runs YAML text through the decoders a configuration file goes
// through. If the spelling chosen by the harness does not come out as the
// intended strings (a harness matter: e.g. a plain scalar that YAML reads as
// something else), the double-quoted spelling is used instead.
func (e *env) decodeIPSetArgs(ips, files, sets []string, style int) (any, string, error) {
	for _, st := range []int{style, 2} {
		var m map[string]any
		txt := yamlArgs(ips, files, sets, st)
		if err := yaml.Unmarshal([]byte(txt), &m); err != nil {
			continue
		}
		args := e.info.NewArgs()
		if err := utils.WeakDecode(m, args); err != nil {
			if st == 2 {
				return nil, "", fmt.Errorf("args decoder: %w", err)
			}
			continue
		}
		a, ok := args.(*ip_set.Args)
		if !ok {
			return nil, "", fmt.Errorf("harness: ip_set args type is %T", args)
		}
		if sameStrings(a.IPs, ips) && sameStrings(a.Files, files) && sameStrings(a.Sets, sets) {
			return args, yamlStyleNames[st], nil
		}
	}
	return nil, "", fmt.Errorf("harness: YAML spelling of the args does not decode to the intended strings")
}

// buildIPSet constructs an ip_set plugin from YAML args and registers it under tag.
func (e *env) buildIPSet(tag string, ips, files, sets []string, style int) (netlist.Matcher, []*netlist.List, string, error) {
	e.ensureMos()
	args, st, err := e.decodeIPSetArgs(ips, files, sets, style)
	if err != nil {
		return nil, nil, st, err
	}
	p, err := e.info.NewPlugin(coremain.NewBP(tag, e.mos), args)
	if err != nil {
		return nil, nil, st, err
	}
	prov, ok := p.(data_provider.IPMatcherProvider)
	if !ok {
		return nil, nil, st, fmt.Errorf("harness: ip_set plugin is not an IPMatcherProvider")
	}
	e.plugins[tag] = p
	mm := prov.GetIPMatcher()
	lists := []*netlist.List{}
	if !flatten(mm, &lists) {
		lists = nil
	}
	return mm, lists, st, nil
}

// ptrName is the harness' own spelling of the reverse-lookup name of an address.
func ptrName(a netip.Addr) string {
	var sb strings.Builder
	if a.Is4() {
		b := a.As4()
		for i := 3; i >= 0; i-- {
			sb.WriteString(strconv.Itoa(int(b[i])))
			sb.WriteByte('.')
		}
		sb.WriteString("in-addr.arpa.")
		return sb.String()
	}
	const hexd = "0123456789abcdef"
	b := a.As16()
	for i := 15; i >= 0; i-- {
		sb.WriteByte(hexd[b[i]&0xf])
		sb.WriteByte('.')
		sb.WriteByte(hexd[b[i]>>4])
		sb.WriteByte('.')
	}
	sb.WriteString("ip6.arpa.")
	return sb.String()
}

type ptrIPAdapter struct{ m sequence.Matcher }

func (x *ptrIPAdapter) Match(a netip.Addr) bool {
	if !a.IsValid() {
		return false
	}
	q := new(dns.Msg)
	q.SetQuestion(ptrName(a.WithZone("")), dns.TypePTR)
	ok, err := x.m.Match(context.Background(), query_context.NewContext(q))
	return ok && err == nil
}

// quickMatcher builds "<type> <expr>" as a sequence would and adapts it to Match(addr).
func (e *env) quickMatcher(typ, expr string) (matcher, error) {
	e.ensureMos()
	setup := sequence.GetMatchQuickSetup(typ)
	if setup == nil {
		return nil, fmt.Errorf("harness: matcher type %s is not registered", typ)
	}
	sm, err := setup(sequence.NewBQ(e.mos, zap.NewNop()), expr)
	if err != nil {
		return nil, err
	}
	switch typ {
	case "resp_ip":
		return &respIPAdapter{sm, newQCtx()}, nil
	case "ptr_ip":
		return &ptrIPAdapter{sm}, nil
	}
	return &clientIPAdapter{sm, newQCtx()}, nil
}

// guarded runs f and turns a panic into a string (first line + the topmost frames).
func guarded(f func()) (panicked string) {
	defer func() {
		if p := recover(); p != nil {
			panicked = fmt.Sprint(p)
			if panicked == "" {
				panicked = "panic"
			}
		}
	}()
	f()
	return ""
}

func isHarnessErr(err error) bool {
	return err != nil && strings.HasPrefix(err.Error(), "harness:")
}
