package main

// Phase "lines": list sources as TEXT, in every line-length class.
//
// The other phases give the text loaders short, tidy lines. Here a source is a
// sequence of physical lines whose lengths fall just below / at / just above
// 4096, 8192, 12288, 16384, 32768, 65536 and 131072 bytes (and in between):
// entries with long trailing comments, long pure comment lines, long blank
// lines, entries behind a long run of blanks (also straddling a boundary) and
// entries followed by a long run of blanks, terminated by LF or CRLF, with or
// without a final newline. Comments are seeded with "bait": text that would be
// a perfectly good address or CIDR if a loader ever started to parse in the
// middle of a line (at every multiple of a power of two relative to the line
// or to the file, in aligned fixed-width cells, behind blanks, at random
// places, flush with the end of the line).
//
// What the source means is decided by the harness' own reference parser
// (refParse: split at LF, trim ASCII blanks, cut at the first '#', cut at the
// first ' ', the rest is one address or CIDR). The source is then handed to
//   - netlist.LoadFromReader through readers that deliver it whole, one byte at
//     a time, in halves, in fixed chunks, with the last data together with EOF,
//     and through readers that FAIL after k bytes,
//   - ip_set.LoadFromFiles (1..3 files),
//   - the real ip_set plugin constructor with the lines dealt to ips: / files: /
//     a referenced set with its own ips: and files:,
//   - the real client_ip / resp_ip matcher constructors ("ip &file $set").
// Oracle: a load either is refused with an error, or the resulting set answers
// every probe (first/last/neighbours of every entry AND of every bait) exactly
// as the reference prefixes do and, where the lists can be reached, its sorted
// entries cover exactly their union. Never more (bait loaded), never silently
// fewer (lines dropped, read error swallowed).

import (
	"bytes"
	"context"
	"errors"
	"fmt"
	"io"
	"math/rand"
	"net"
	"net/netip"
	"os"
	"sort"
	"strings"
	"sync"
	"sync/atomic"
	"testing/iotest"

	"github.com/IrineSistiana/mosdns/v5/coremain"
	"github.com/IrineSistiana/mosdns/v5/pkg/matcher/netlist"
	"github.com/IrineSistiana/mosdns/v5/pkg/query_context"
	"github.com/IrineSistiana/mosdns/v5/plugin/data_provider"
	"github.com/IrineSistiana/mosdns/v5/plugin/data_provider/ip_set"
	"github.com/IrineSistiana/mosdns/v5/plugin/executable/sequence"
	_ "github.com/IrineSistiana/mosdns/v5/plugin/matcher/client_ip"
	_ "github.com/IrineSistiana/mosdns/v5/plugin/matcher/resp_ip"
	"github.com/miekg/dns"
	"go.uber.org/zap"
)

// Overlay is a piece of text written over the filler of a line.
type Overlay struct {
	Off  int    `json:"off"`
	Text string `json:"text"`
	Bait int    `json:"bait"` // index into Case.Baits, -1: entry / comment opener
}

// Cells fills the line from From on with fixed-width cells "<bait><sep><filler>".
type Cells struct {
	W    int    `json:"w"`
	From int    `json:"from"`
	Toks []int  `json:"toks"`
	Sep  string `json:"sep"`
}

type SrcLine struct {
	Kind  string    `json:"kind"`
	Item  int       `json:"item"` // index into Case.Items of the entry on this line, -1: none
	Len   int       `json:"len"`  // bytes, without the terminator
	Fill  string    `json:"fill"` // one character, repeated Len times, then overlaid
	Over  []Overlay `json:"over,omitempty"`
	Cells *Cells    `json:"cells,omitempty"`
	End   string    `json:"end"`                // "\n" or "\r\n"
	To    string    `json:"to,omitempty"`       // plugin layers: "" main files, "ips", "sub" (file of the referenced set), "subips"
	Bait  string    `json:"strategy,omitempty"` // how bait was placed (evidence only)
	Start int       `json:"start,omitempty"`    // byte offset of the line in order #0 (evidence only)
}

type Source struct {
	Lines     []SrcLine `json:"lines"`
	Orders    [][]int   `json:"orders"`
	NoFinalNL bool      `json:"no_final_newline,omitempty"`
	NFiles    int       `json:"nfiles"`
	Reader    string    `json:"reader"` // second reader variant
	Chunk     int       `json:"chunk,omitempty"`
	FailAt    int       `json:"fail_at"` // the failing reader delivers this many bytes of order #0
	FailData  bool      `json:"fail_with_data,omitempty"`
	FailErr   int       `json:"fail_err"`
	Matcher   string    `json:"matcher"`
}

var lineBounds = []int{4096, 8192, 12288, 16384, 32768, 65536, 131072}

// classes whose longest line is at most this long must be loadable by someone
// (coverage demand, not a verdict): bufio.Scanner's documented default limit is
// 64 KiB, lines near or above it may legitimately be refused.
const mustLoadBelow = 65533

type lenClassT struct {
	name   string
	lo, hi int
}

var lenClasses = func() []lenClassT {
	var cs []lenClassT
	lo := 0
	for _, b := range lineBounds {
		cs = append(cs,
			lenClassT{fmt.Sprintf("%06d..%06d", lo, b-3), lo, b - 3},
			lenClassT{fmt.Sprintf("%06d..%06d (just below %d)", b-2, b-1, b), b - 2, b - 1},
			lenClassT{fmt.Sprintf("%06d (exactly %d)", b, b), b, b},
			lenClassT{fmt.Sprintf("%06d..%06d (just above %d)", b+1, b+2, b), b + 1, b + 2})
		lo = b + 3
	}
	cs = append(cs, lenClassT{fmt.Sprintf("%06d..", lo), lo, 1 << 40})
	return cs
}()

func lenClass(l int) int {
	for i, c := range lenClasses {
		if l >= c.lo && l <= c.hi {
			return i
		}
	}
	return len(lenClasses) - 1
}

// ---- counters ----------------------------------------------------------------

var (
	nLinesCases, nLinesLoads, nLinesAccepted, nLinesRefused      atomic.Int64
	nLinesLong, nLinesBaitsPlanted, nLinesBaitAtPow2             atomic.Int64
	nLinesBaitProbes, nLinesBaitProbesFalse, nLinesBytes         atomic.Int64
	nLinesFailLoads, nLinesFailRefused, nLinesFailCompleteAnyway atomic.Int64
	nLinesQueries, nLinesStruct, nLinesStraddle, nLinesNontriv   atomic.Int64
	classAccepted, classRefused                                  [40]atomic.Int64
	classLines                                                   [40]atomic.Int64
	linesMu                                                      sync.Mutex
	linesTally                                                   = map[string]map[string]int64{}
	linesSamples                                                 []any
)

func tally(group, member string, n int64) {
	linesMu.Lock()
	m := linesTally[group]
	if m == nil {
		m = map[string]int64{}
		linesTally[group] = m
	}
	m[member] += n
	linesMu.Unlock()
}

func linesEvidence() {
	rep.Count("lines_cases", nLinesCases.Load())
	rep.Count("lines_cases_nontrivial", nLinesNontriv.Load())
	rep.Count("lines_source_bytes", nLinesBytes.Load())
	rep.Count("lines_long_lines", nLinesLong.Load())
	rep.Count("lines_entries_straddling_a_boundary", nLinesStraddle.Load())
	rep.Count("lines_loads", nLinesLoads.Load())
	rep.Count("lines_loads_accepted_and_compared", nLinesAccepted.Load())
	rep.Count("lines_loads_refused_with_error", nLinesRefused.Load())
	rep.Count("lines_queries", nLinesQueries.Load())
	rep.Count("lines_struct_checks", nLinesStruct.Load())
	rep.Count("lines_bait_tokens_planted", nLinesBaitsPlanted.Load())
	rep.Count("lines_bait_tokens_at_4k_multiples", nLinesBaitAtPow2.Load())
	rep.Count("lines_bait_probes", nLinesBaitProbes.Load())
	rep.Count("lines_bait_probe_queries_answered_not_contained", nLinesBaitProbesFalse.Load())
	rep.Count("lines_failing_reader_loads", nLinesFailLoads.Load())
	rep.Count("lines_failing_reader_refused", nLinesFailRefused.Load())
	rep.Count("lines_failing_reader_accepted_with_complete_set", nLinesFailCompleteAnyway.Load())
	cl := map[string]any{}
	for i, c := range lenClasses {
		if n := classLines[i].Load() + classAccepted[i].Load() + classRefused[i].Load(); n > 0 {
			cl[c.name] = map[string]int64{"long_lines": classLines[i].Load(), "loads_accepted_of_sources_with_this_longest_line": classAccepted[i].Load(), "loads_refused": classRefused[i].Load()}
		}
	}
	rep.Extra("lines_length_classes", cl)
	linesMu.Lock()
	for k, v := range linesTally {
		rep.Extra("lines_"+k, v)
	}
	rep.Extra("lines_sample_sources", linesSamples)
	linesMu.Unlock()
}

// linesDemands: the monitor must have observed something in every part of the
// new dimension (only evaluated when nothing was violated).
func linesDemands() {
	if nLinesCases.Load() == 0 {
		return // replay of a case of another phase
	}
	for i, c := range lenClasses {
		if c.hi > mustLoadBelow {
			continue
		}
		if classAccepted[i].Load() == 0 {
			rep.Inconclusive("lines: no source whose longest line has %s bytes was accepted by any loader (accepted=0, refused=%d): nothing compared in this length class", c.name, classRefused[i].Load())
		}
	}
	linesMu.Lock()
	defer linesMu.Unlock()
	for _, l := range []string{"reader", "files", "plugin", "matcher"} {
		if linesTally["accepted_loads"][l] == 0 {
			rep.Inconclusive("lines: layer %s never accepted a source", l)
		}
	}
	for _, k := range []string{"entry+comment", "comment", "blank", "blanks+entry", "blanks+entry(straddling)", "entry+blanks"} {
		if linesTally["long_line_kinds"][k] == 0 {
			rep.Inconclusive("lines: no long line of kind %q was generated", k)
		}
	}
	for _, k := range []string{"LF", "CRLF", "source without final newline"} {
		if linesTally["long_line_terminators"][k] == 0 {
			rep.Inconclusive("lines: no long line with terminator class %q", k)
		}
	}
	if nLinesBaitProbesFalse.Load() == 0 || nLinesBaitAtPow2.Load() == 0 || nLinesFailLoads.Load() == 0 || nLinesNontriv.Load() == 0 {
		rep.Inconclusive("lines: a monitor observed nothing (bait probes answered false=%d, bait at 4 KiB multiples=%d, failing-reader loads=%d, nontrivial=%d)",
			nLinesBaitProbesFalse.Load(), nLinesBaitAtPow2.Load(), nLinesFailLoads.Load(), nLinesNontriv.Load())
	}
}

// ---- building the text ---------------------------------------------------------

func (c *Case) lineBytes(ln *SrcLine) []byte {
	b := bytes.Repeat([]byte(ln.Fill[:1]), ln.Len)
	if cl := ln.Cells; cl != nil && len(cl.Toks) > 0 && cl.W > 0 {
		k := 0
		for off := cl.From; off >= 0; off += cl.W {
			t := c.Baits[cl.Toks[k%len(cl.Toks)]].Text + cl.Sep
			if off+len(t) > ln.Len {
				break
			}
			copy(b[off:], t)
			k++
		}
	}
	for _, o := range ln.Over {
		copy(b[o.Off:], o.Text)
	}
	return b
}

func (c *Case) joinLines(ids []int, finalNL bool) []byte {
	var bb bytes.Buffer
	for k, id := range ids {
		ln := &c.Src.Lines[id]
		bb.Write(c.lineBytes(ln))
		if k == len(ids)-1 && !finalNL {
			break
		}
		bb.WriteString(ln.End)
	}
	return bb.Bytes()
}

func (c *Case) prepareSource() error {
	s := c.Src
	for i := range s.Lines {
		ln := &s.Lines[i]
		if len(ln.Fill) != 1 || ln.Fill == "\n" || ln.Len < 0 || ln.Len > 1<<22 {
			return fmt.Errorf("line %d: bad fill/len", i)
		}
		if ln.End != "\n" && ln.End != "\r\n" {
			return fmt.Errorf("line %d: bad terminator", i)
		}
		if ln.Item < -1 || ln.Item >= len(c.Items) {
			return fmt.Errorf("line %d: bad item", i)
		}
		for _, o := range ln.Over {
			if o.Off < 0 || o.Off+len(o.Text) > ln.Len || strings.Contains(o.Text, "\n") || o.Bait < -1 || o.Bait >= len(c.Baits) {
				return fmt.Errorf("line %d: bad overlay", i)
			}
		}
		if cl := ln.Cells; cl != nil {
			if cl.W < 1 || cl.From < 0 || strings.Contains(cl.Sep, "\n") {
				return fmt.Errorf("line %d: bad cells", i)
			}
			for _, t := range cl.Toks {
				if t < 0 || t >= len(c.Baits) {
					return fmt.Errorf("line %d: bad cell token", i)
				}
			}
		}
		if (ln.To == "ips" || ln.To == "subips") && ln.Item < 0 {
			return fmt.Errorf("line %d: only entry lines can be given as ips", i)
		}
	}
	if len(s.Orders) == 0 {
		return fmt.Errorf("no line order")
	}
	for _, o := range s.Orders {
		if len(o) != len(s.Lines) {
			return fmt.Errorf("order length")
		}
		seen := make([]bool, len(o))
		for _, k := range o {
			if k < 0 || k >= len(o) || seen[k] {
				return fmt.Errorf("order is not a permutation")
			}
			seen[k] = true
		}
	}
	if s.NFiles < 1 {
		s.NFiles = 1
	}
	return nil
}

// ---- reference parser ----------------------------------------------------------

func isBlank(b byte) bool { return b == ' ' || b == '\t' || b == '\r' || b == '\v' || b == '\f' }

// refParse is the harness' reading of the documented list format. It shares no
// code with the loader under test; netip parsing of a single token is trusted.
func refParse(src []byte) ([]rule, error) {
	var rs []rule
	for n, ln := range bytes.Split(src, []byte{'\n'}) {
		for len(ln) > 0 && isBlank(ln[0]) {
			ln = ln[1:]
		}
		for len(ln) > 0 && isBlank(ln[len(ln)-1]) {
			ln = ln[:len(ln)-1]
		}
		if i := bytes.IndexByte(ln, '#'); i >= 0 {
			ln = ln[:i]
		}
		if i := bytes.IndexByte(ln, ' '); i >= 0 {
			ln = ln[:i]
		}
		if len(ln) == 0 {
			continue
		}
		tok := string(ln)
		var a netip.Addr
		var bits int
		if strings.IndexByte(tok, '/') >= 0 {
			p, err := netip.ParsePrefix(tok)
			if err != nil {
				return nil, fmt.Errorf("line %d: %v", n+1, err)
			}
			a, bits = p.Addr(), p.Bits()
		} else {
			x, err := netip.ParseAddr(tok)
			if err != nil || x.Zone() != "" {
				return nil, fmt.Errorf("line %d: %q is not an address", n+1, tok)
			}
			a, bits = x, x.BitLen()
		}
		if a.Is4() {
			rs = append(rs, rule{v4to16(a.As4()), bits + 96})
		} else {
			rs = append(rs, rule{a.As16(), bits})
		}
	}
	return rs, nil
}

// ---- readers ---------------------------------------------------------------------

type chunkReader struct {
	b []byte
	n int
}

func (r *chunkReader) Read(p []byte) (int, error) {
	if len(r.b) == 0 {
		return 0, io.EOF
	}
	n := r.n
	if n > len(p) {
		n = len(p)
	}
	if n > len(r.b) {
		n = len(r.b)
	}
	copy(p, r.b[:n])
	r.b = r.b[n:]
	return n, nil
}

var failErrs = []error{errors.New("verif: injected read error"), io.ErrUnexpectedEOF, iotest.ErrTimeout, os.ErrDeadlineExceeded}

// failReader delivers b and then fails (with the last data or on the next call).
type failReader struct {
	b        []byte
	err      error
	withData bool
}

func (r *failReader) Read(p []byte) (int, error) {
	if len(r.b) == 0 {
		return 0, r.err
	}
	n := copy(p, r.b)
	r.b = r.b[n:]
	if len(r.b) == 0 && r.withData {
		return n, r.err
	}
	return n, nil
}

var readerVariants = []string{"one-byte", "half", "data-with-eof", "chunks"}

func (s *Source) reader(b []byte) io.Reader {
	switch s.Reader {
	case "one-byte":
		return iotest.OneByteReader(bytes.NewReader(b))
	case "half":
		return iotest.HalfReader(bytes.NewReader(b))
	case "data-with-eof":
		return iotest.DataErrReader(bytes.NewReader(b))
	case "chunks":
		n := s.Chunk
		if n < 1 {
			n = 1
		}
		return &chunkReader{b, n}
	}
	return bytes.NewReader(b)
}

// ---- matcher adapters ------------------------------------------------------------

type clientIPAdapter struct {
	m sequence.Matcher
	q *query_context.Context
}

func (x *clientIPAdapter) Match(a netip.Addr) bool {
	x.q.ServerMeta.ClientAddr = a
	ok, err := x.m.Match(context.Background(), x.q)
	return ok && err == nil
}

type respIPAdapter struct {
	m sequence.Matcher
	q *query_context.Context
}

func (x *respIPAdapter) Match(a netip.Addr) bool {
	r := new(dns.Msg)
	r.SetReply(x.q.Q())
	if a.Is4() {
		r.Answer = []dns.RR{&dns.A{Hdr: dns.RR_Header{Name: "verif.test.", Rrtype: dns.TypeA, Class: dns.ClassINET, Ttl: 1}, A: net.IP(a.AsSlice())}}
	} else {
		r.Answer = []dns.RR{&dns.AAAA{Hdr: dns.RR_Header{Name: "verif.test.", Rrtype: dns.TypeAAAA, Class: dns.ClassINET, Ttl: 1}, AAAA: net.IP(a.AsSlice())}}
	}
	x.q.SetResponse(r)
	ok, err := x.m.Match(context.Background(), x.q)
	return ok && err == nil
}

func newQCtx() *query_context.Context {
	q := new(dns.Msg)
	q.SetQuestion("verif.test.", dns.TypeA)
	return query_context.NewContext(q)
}

// ---- running a case ---------------------------------------------------------------

func (e *env) lineFile(k int, content []byte) (string, error) {
	p := fmt.Sprintf("%s/w%d-L%d.txt", e.dir, e.id, k)
	return p, os.WriteFile(p, content, 0o644)
}

// where describes where bait covering p was planted.
func (c *Case) baitWitness(p a16) string {
	for bi := range c.Baits {
		b := &c.Baits[bi]
		if !covers(b.r.base, b.r.bits, p) {
			continue
		}
		var at []string
		for li := range c.Src.Lines {
			ln := &c.Src.Lines[li]
			for _, o := range ln.Over {
				if o.Bait == bi && len(at) < 4 {
					at = append(at, fmt.Sprintf("byte offset %d of line id %d (%s, %d bytes)", o.Off, li, ln.Kind, ln.Len))
				}
			}
			if cl := ln.Cells; cl != nil && len(at) < 4 {
				for k, t := range cl.Toks {
					if t == bi {
						at = append(at, fmt.Sprintf("byte offsets %d+%d*k of line id %d (%s, %d bytes)", cl.From+k*cl.W, cl.W*len(cl.Toks), li, ln.Kind, ln.Len))
						break
					}
				}
			}
		}
		if len(at) > 0 {
			return fmt.Sprintf("it is covered by the text %q that only occurs inside comments, at %s", b.Text, strings.Join(at, "; "))
		}
	}
	return "no comment text covers it either"
}

func (c *Case) srcSummary(order []int) string {
	var sb strings.Builder
	for k, id := range order {
		if k >= 14 {
			fmt.Fprintf(&sb, " …+%d", len(order)-k)
			break
		}
		ln := &c.Src.Lines[id]
		if k > 0 {
			sb.WriteString(" | ")
		}
		fmt.Fprintf(&sb, "#%d(id %d) %s", k+1, id, ln.Kind)
		if ln.Item >= 0 {
			fmt.Fprintf(&sb, " %s", c.Items[ln.Item].Text)
		}
		fmt.Fprintf(&sb, " %dB", ln.Len)
		if ln.End == "\r\n" {
			sb.WriteString(" CRLF")
		}
		nb := 0
		for _, o := range ln.Over {
			if o.Bait >= 0 {
				nb++
			}
		}
		if nb > 0 || ln.Cells != nil {
			fmt.Fprintf(&sb, " bait:%s", ln.Bait)
		}
		if ln.To != "" {
			fmt.Fprintf(&sb, " ->%s", ln.To)
		}
	}
	if c.Src.NoFinalNL {
		sb.WriteString(" (no final newline)")
	}
	return sb.String()
}

func (s *Source) shape() string {
	var sb strings.Builder
	for i := range s.Lines {
		ln := &s.Lines[i]
		if ln.Len < 1000 {
			continue
		}
		fmt.Fprintf(&sb, "%s:%d:%s:%d:%s;", ln.Kind, ln.Len, ln.Bait, len(ln.Over), ln.End)
	}
	return sb.String()
}

func (e *env) runLines(c *Case, res *caseResult) {
	if err := c.prepareSource(); err != nil {
		res.harnessErr = "lines: " + err.Error()
		return
	}
	s := c.Src
	nLinesCases.Add(1)
	for i := range c.Items {
		if c.Items[i].V4 {
			lenSeen4[c.Items[i].Bits].Add(1)
		} else {
			lenSeen6[c.Items[i].Bits].Add(1)
		}
	}

	// the meaning of the source: reference parser over the very bytes that are loaded
	full := c.joinLines(s.Orders[0], !s.NoFinalNL)
	rules, err := refParse(full)
	if err != nil {
		res.harnessErr = "lines: generated source is not well-formed: " + err.Error()
		return
	}
	{ // guard of the generator: the entries the reference parser sees are the intended ones, in order
		k := 0
		for _, id := range s.Orders[0] {
			if it := s.Lines[id].Item; it >= 0 {
				if k >= len(rules) || rules[k] != c.Items[it].r {
					res.harnessErr = fmt.Sprintf("lines: reference parser and generator disagree on entry #%d (line id %d)", k, id)
					return
				}
				k++
			}
		}
		if k != len(rules) {
			res.harnessErr = fmt.Sprintf("lines: reference parser sees %d entries, the generator intended %d", len(rules), k)
			return
		}
	}
	want := rulesUnion(append([]rule(nil), rules...))
	nLinesBytes.Add(int64(len(full)))

	longest, nLong := 0, 0
	ends := map[string]bool{}
	for i := range s.Lines {
		ln := &s.Lines[i]
		l := ln.Len + len(ln.End) - 1 // bytes before the LF
		if l > longest {
			longest = l
		}
		if l >= lineBounds[0]-2 {
			nLong++
			nLinesLong.Add(1)
			classLines[lenClass(l)].Add(1)
			tally("long_line_kinds", ln.Kind, 1)
			if ln.Bait != "" {
				tally("bait_strategies", ln.Bait, 1)
			}
			ends[ln.End] = true
		}
		for _, o := range ln.Over {
			if o.Bait >= 0 {
				nLinesBaitsPlanted.Add(1)
				if o.Off > 0 && (o.Off%4096 == 0 || (ln.Start+o.Off)%4096 == 0) {
					nLinesBaitAtPow2.Add(1)
				}
			}
		}
		if cl := ln.Cells; cl != nil {
			nLinesBaitsPlanted.Add(int64((ln.Len - cl.From) / cl.W))
			nLinesBaitAtPow2.Add(int64(ln.Len / 4096))
		}
		if ln.Kind == "blanks+entry(straddling)" {
			nLinesStraddle.Add(1)
		}
	}
	for k := range ends {
		if k == "\n" {
			tally("long_line_terminators", "LF", 1)
		} else {
			tally("long_line_terminators", "CRLF", 1)
		}
	}
	if s.NoFinalNL {
		tally("long_line_terminators", "source without final newline", 1)
	}
	cls := lenClass(longest)

	// queries + expected answers
	qs := make([]query, 0, len(c.Probes)*2)
	exp := make([]bool, len(c.Probes))
	for i := range c.Probes {
		p := c.Probes[i].a
		exp[i] = oracleContains(rules, p)
		if exp[i] {
			res.nTrue++
		} else {
			res.nFalse++
		}
		if strings.HasPrefix(c.Probes[i].Role, "bait") {
			nLinesBaitProbes.Add(1)
		}
		qs = append(qs, query{netip.AddrFrom16(p), i, "v6"})
		if isMapped(p) {
			var b4 [4]byte
			copy(b4[:], p[12:])
			qs = append(qs, query{netip.AddrFrom4(b4), i, "v4"})
		}
	}

	accepted := 0
	// judge compares one accepted load with the reference; nil = agrees
	judge := func(layer, variant string, order []int, m matcher, lists []*netlist.List, prelude string) *finding {
		accepted++
		nLinesAccepted.Add(1)
		if layer != "reader-fail" {
			classAccepted[cls].Add(1)
		}
		tally("accepted_loads", layer, 1)
		for _, q := range qs {
			g := m.Match(q.addr)
			if g == exp[q.probe] {
				if !g && strings.HasPrefix(c.Probes[q.probe].Role, "bait") {
					nLinesBaitProbesFalse.Add(1)
				}
				continue
			}
			kind, why := "false-negative", "an entry of the source covers it"
			if g {
				kind, why = "false-positive", "no entry of the source covers it; "+c.baitWitness(c.Probes[q.probe].a)
			}
			return &finding{layer, "lines-" + layer + "-" + kind,
				fmt.Sprintf("%s%s (%s) accepted the source [%s] (longest line %d bytes) without error, but Match(%v) [probe role %s, %s form of %s] = %v while the reference reading of the source %s gives %v: %s",
					prelude, layer, variant, c.srcSummary(order), longest, q.addr, c.Probes[q.probe].Role, q.form, show16(c.Probes[q.probe].a), g, showRules(rules, 10), exp[q.probe], why)}
		}
		nLinesQueries.Add(int64(len(qs)))
		if lists != nil {
			var all []rule
			for _, l := range lists {
				es, sorted := l.VerifEntries()
				nLinesStruct.Add(1)
				rs, sf := checkEntries(es, sorted)
				if sf != nil {
					return &finding{layer, "lines-struct-" + sf.kind, fmt.Sprintf("%s (%s), source [%s]: after Sort: %s", layer, variant, c.srcSummary(order), sf.detail)}
				}
				all = append(all, rs...)
			}
			if got := rulesUnion(all); !sameUnion(got, want) {
				return &finding{layer, "lines-struct-union-differs",
					fmt.Sprintf("%s%s (%s) accepted the source [%s] without error; its sorted entries cover %s but the entries of the source %s cover %s",
						prelude, layer, variant, c.srcSummary(order), showUnion(got), showRules(rules, 10), showUnion(want))}
			}
		}
		return nil
	}
	refused := func(layer string) {
		nLinesRefused.Add(1)
		if layer != "reader-fail" {
			classRefused[cls].Add(1)
		}
		tally("refused_loads", layer, 1)
	}

	var found *finding
	defer func() {
		if found != nil {
			res.findings = append(res.findings, *found)
		}
		res.linesNT = found == nil && accepted > 0 && nLong > 0 && res.nTrue > 0 && res.nFalse > 0
		if res.linesNT {
			nLinesNontriv.Add(1)
			linesMu.Lock()
			if len(linesSamples) < 3 {
				linesSamples = append(linesSamples, map[string]any{"idx": c.Idx, "source": c.srcSummary(s.Orders[0]), "bytes": len(full),
					"reference_entries": showRules(rules, 10), "probes": len(c.Probes), "expected_contained": res.nTrue, "expected_not_contained": res.nFalse,
					"accepted_loads_agreeing_with_reference": accepted})
			}
			linesMu.Unlock()
		}
	}()

	// ---- layer 1: LoadFromReader, whole and through the case's reader variant ----
	for oi, order := range s.Orders {
		txt := full
		if oi > 0 {
			txt = c.joinLines(order, !s.NoFinalNL)
		}
		for v := 0; v < 2; v++ {
			variant := "bytes.Reader"
			var rd io.Reader = bytes.NewReader(txt)
			if v == 1 {
				variant = s.Reader
				if variant == "chunks" {
					variant = fmt.Sprintf("chunks of %d", s.Chunk)
				}
				rd = s.reader(txt)
			}
			l := netlist.NewList()
			nLinesLoads.Add(1)
			tally("reader_variants", strings.Fields(variant)[0], 1)
			if err := netlist.LoadFromReader(l, rd); err != nil {
				refused("reader")
				continue
			}
			l.Sort()
			if found = judge("reader", fmt.Sprintf("LoadFromReader over %s, line order #%d", variant, oi), order, l, []*netlist.List{l}, ""); found != nil {
				return
			}
		}
	}

	// ---- layer 2: a reader that fails after FailAt bytes ----
	{
		k := s.FailAt
		if k < 0 {
			k = 0
		}
		if k > len(full) {
			k = len(full)
		}
		ferr := failErrs[((s.FailErr%len(failErrs))+len(failErrs))%len(failErrs)]
		l := netlist.NewList()
		nLinesLoads.Add(1)
		nLinesFailLoads.Add(1)
		err := netlist.LoadFromReader(l, &failReader{b: append([]byte(nil), full[:k]...), err: ferr, withData: s.FailData})
		if err != nil {
			nLinesFailRefused.Add(1)
			refused("reader-fail")
		} else {
			l.Sort()
			pre := fmt.Sprintf("the reader delivered %d of the %d bytes and then failed with %q, yet LoadFromReader returned nil: ", k, len(full), ferr)
			if found = judge("reader-fail", "failing reader", s.Orders[0], l, []*netlist.List{l}, pre); found != nil {
				return
			}
			nLinesFailCompleteAnyway.Add(1) // nothing that matters was lost
		}
	}

	// ---- layer 3: ip_set.LoadFromFiles ----
	for oi, order := range s.Orders {
		var files []string
		n := len(order)
		for f := 0; f < s.NFiles; f++ {
			from, to := n*f/s.NFiles, n*(f+1)/s.NFiles
			p, err := e.lineFile(f, c.joinLines(order[from:to], !s.NoFinalNL || f%2 == 0))
			if err != nil {
				res.harnessErr = "harness: " + err.Error()
				return
			}
			files = append(files, p)
			if f == 0 {
				files = append(files, "")
			}
		}
		l := netlist.NewList()
		nLinesLoads.Add(1)
		if err := ip_set.LoadFromFiles(files, l); err != nil {
			refused("files")
			continue
		}
		l.Sort()
		if found = judge("files", fmt.Sprintf("ip_set.LoadFromFiles, %d files, line order #%d", s.NFiles, oi), order, l, []*netlist.List{l}, ""); found != nil {
			return
		}
	}

	// ---- layers 4 and 5: real constructors, lines dealt to ips / files / a referenced set ----
	if e.mos == nil {
		e.plugins = map[string]any{}
		e.mos = coremain.NewTestMosdnsWithPlugins(e.plugins)
	}
	for oi, order := range s.Orders {
		var ips, subIPs []string
		var mainIDs, subIDs []int
		for _, id := range order {
			ln := &s.Lines[id]
			switch ln.To {
			case "ips":
				ips = append(ips, c.Items[ln.Item].Text)
			case "subips":
				subIPs = append(subIPs, c.Items[ln.Item].Text)
			case "sub":
				subIDs = append(subIDs, id)
			default:
				mainIDs = append(mainIDs, id)
			}
		}
		var files, subFiles []string
		n := len(mainIDs)
		for f := 0; f < s.NFiles; f++ {
			from, to := n*f/s.NFiles, n*(f+1)/s.NFiles
			p, err := e.lineFile(f, c.joinLines(mainIDs[from:to], !s.NoFinalNL || f%2 == 1))
			if err != nil {
				res.harnessErr = "harness: " + err.Error()
				return
			}
			files = append(files, p)
		}
		if len(subIDs) > 0 {
			p, err := e.lineFile(7, c.joinLines(subIDs, !s.NoFinalNL))
			if err != nil {
				res.harnessErr = "harness: " + err.Error()
				return
			}
			subFiles = []string{p}
		}
		for k := range e.plugins {
			delete(e.plugins, k)
		}
		nLinesLoads.Add(1)
		subP, err := e.info.NewPlugin(coremain.NewBP("lsub", e.mos), &ip_set.Args{IPs: subIPs, Files: subFiles})
		if err != nil {
			refused("plugin")
			continue
		}
		e.plugins["lsub"] = subP
		how := fmt.Sprintf("%d ips + %d files (%d lines) + set lsub{%d ips, %d files (%d lines)}, line order #%d", len(ips), len(files), len(mainIDs), len(subIPs), len(subFiles), len(subIDs), oi)

		mainP, err := e.info.NewPlugin(coremain.NewBP("lmain", e.mos), &ip_set.Args{IPs: ips, Files: files, Sets: []string{"lsub"}})
		if err != nil {
			refused("plugin")
		} else {
			prov, ok := mainP.(data_provider.IPMatcherProvider)
			if !ok {
				res.harnessErr = "harness: ip_set plugin is not an IPMatcherProvider"
				return
			}
			mm := prov.GetIPMatcher()
			lists := []*netlist.List{}
			if !flatten(mm, &lists) {
				lists = nil
			}
			if found = judge("plugin", "ip_set constructor with "+how, order, mm, lists, ""); found != nil {
				return
			}
		}

		// the matcher's anonymous set, same ingredients in quick-setup spelling
		var parts []string
		for k := 0; k < len(ips) || k < len(files); k++ {
			if k < len(files) {
				parts = append(parts, "&"+files[k])
			}
			if k < len(ips) {
				parts = append(parts, ips[k])
			}
		}
		parts = append(parts, "$lsub")
		setup := sequence.GetMatchQuickSetup(s.Matcher)
		if setup == nil {
			res.harnessErr = "harness: matcher type " + s.Matcher + " is not registered"
			return
		}
		nLinesLoads.Add(1)
		sm, err := setup(sequence.NewBQ(e.mos, zap.NewNop()), strings.Join(parts, " "))
		if err != nil {
			refused("matcher")
			continue
		}
		var ad matcher
		if s.Matcher == "resp_ip" {
			ad = &respIPAdapter{sm, newQCtx()}
		} else {
			ad = &clientIPAdapter{sm, newQCtx()}
		}
		tally("matcher_types", s.Matcher, 1)
		if found = judge("matcher", s.Matcher+" quick setup with "+how, order, ad, nil, ""); found != nil {
			return
		}
	}
}

// ---- generator --------------------------------------------------------------------

func (g *gen) pickLen() int {
	r := g.r
	var b int
	switch k := r.Intn(100); {
	case k < 34:
		b = 4096
	case k < 52:
		b = 8192
	case k < 62:
		b = 12288
	case k < 72:
		b = 16384
	case k < 82:
		b = 32768
	case k < 96:
		b = 65536
	default:
		b = 131072
	}
	switch r.Intn(10) {
	case 0, 1:
		return b
	case 2:
		return b - 1
	case 3:
		return b - 2
	case 4:
		return b + 1
	case 5:
		return b + 2
	case 6:
		return b + 3 + r.Intn(300)
	case 7:
		return b - 3 - r.Intn(300)
	default:
		if b >= 65536 {
			return b + 3 + r.Intn(b/2)
		}
		return b + 3 + r.Intn(b-6) // somewhere between this boundary and the next power of two
	}
}

var longKinds = []string{"entry+comment", "comment", "blank", "blanks+entry", "entry+blanks"}

func pick[T any](r *rand.Rand, xs ...T) T { return xs[r.Intn(len(xs))] }

// placeBaits writes bait tokens at the candidate offsets (ascending), skipping
// those that would touch the head or each other.
func (g *gen) placeBaits(c *Case, ln *SrcLine, headEnd int, offs []int) {
	sort.Ints(offs)
	last := headEnd
	for _, off := range offs {
		if off < last || off < headEnd {
			continue
		}
		bi := g.r.Intn(len(c.Baits))
		t := c.Baits[bi].Text + pick(g.r, " ", " ", "#", " #", " # ")
		if off+len(t) > ln.Len {
			t = c.Baits[bi].Text
			if off+len(t) != ln.Len { // flush with the end of the line is fine, otherwise skip
				continue
			}
		}
		ln.Over = append(ln.Over, Overlay{off, t, bi})
		last = off + len(t)
	}
}

func (g *gen) makeLong(c *Case, ln *SrcLine, start int) {
	r := g.r
	ln.Start = start
	switch ln.Kind {
	case "entry+comment", "comment":
		head := pick(r, "", "", "", " ", "\t", " \t ")
		if ln.Kind == "comment" {
			head += pick(r, "#", "# ", "#\t", "##", "#")
		} else {
			head += c.Items[ln.Item].Text + pick(r, " ", "#", " # ", " #", "  ", " \t", "# ", " ")
		}
		ln.Len = g.pickLen()
		ln.Fill = pick(r, "x", "x", "x", "-", "#", "x")
		ln.Over = []Overlay{{0, head, -1}}
		he := len(head)
		maxTok := 0
		for i := range c.Baits {
			if l := len(c.Baits[i].Text); l > maxTok {
				maxTok = l
			}
		}
		switch k := r.Intn(100); {
		case k < 28: // at every multiple of a power of two, relative to the line
			step := pick(r, 4096, 4096, 4096, 4096, 4096, 512, 1024, 2048, 8192, 16384)
			ln.Bait = fmt.Sprintf("line-aligned/%d", step)
			var offs []int
			for o := step; o < ln.Len; o += step {
				offs = append(offs, o)
			}
			g.placeBaits(c, ln, he, offs)
		case k < 40: // ... relative to the file
			step := pick(r, 4096, 4096, 4096, 512, 8192, 32768)
			ln.Bait = fmt.Sprintf("file-aligned/%d", step)
			var offs []int
			for o := (step - start%step) % step; o < ln.Len; o += step {
				offs = append(offs, o)
			}
			g.placeBaits(c, ln, he, offs)
		case k < 62: // aligned cells all along the line
			w := 16
			for w < maxTok+2 {
				w *= 2
			}
			if r.Intn(3) == 0 {
				w *= 2
			}
			phase := 0
			how := "line"
			switch r.Intn(4) {
			case 0:
				phase, how = (w-start%w)%w, "file"
			case 1:
				phase, how = r.Intn(w), "random"
			}
			from := phase
			for from < he {
				from += w
			}
			toks := r.Perm(len(c.Baits))
			ln.Cells = &Cells{W: w, From: from, Toks: toks, Sep: pick(r, " ", " ", "#", " # ")}
			ln.Bait = fmt.Sprintf("cells/%d/%s-aligned", w, how)
		case k < 84: // blank-filled comment: bait is the first thing after any run of blanks
			ln.Fill = pick(r, " ", " ", "\t")
			ln.Bait = "behind-blanks"
			var offs []int
			for o := 0; o < ln.Len; o += 4096 { // one per 4 KiB block, at a random place
				offs = append(offs, o+r.Intn(4096))
			}
			if r.Intn(2) == 0 {
				offs = append(offs, ln.Len-maxTok-1-r.Intn(40))
			}
			g.placeBaits(c, ln, he, offs)
		case k < 95: // random places and off-by-one around the 4 KiB multiples
			ln.Bait = "random+off-by-one"
			var offs []int
			for n := 1 + r.Intn(4); n > 0; n-- {
				offs = append(offs, r.Intn(ln.Len))
			}
			for o := 4096; o < ln.Len; o += 4096 {
				offs = append(offs, o+pick(r, -1, 1, -2, 2, 0))
			}
			g.placeBaits(c, ln, he, offs)
		default:
			ln.Bait = "none"
		}
		// sometimes: the last bait ends flush with the line
		if ln.Cells == nil && len(ln.Over) > 1 && r.Intn(6) == 0 {
			o := &ln.Over[len(ln.Over)-1]
			o.Text = c.Baits[o.Bait].Text
			ln.Len = o.Off + len(o.Text)
			ln.Bait += "+flush"
		}
	case "blank":
		ln.Len = g.pickLen()
		ln.Fill = pick(r, " ", " ", "\t")
	case "blanks+entry":
		ln.Fill = pick(r, " ", " ", "\t")
		t := c.Items[ln.Item].Text
		tail := pick(r, 0, 0, 0, 1, 2, 7)
		if r.Intn(2) == 0 { // the entry straddles (or touches) a boundary
			b := pick(r, 4096, 4096, 4096, 8192, 8192, 12288, 16384, 32768, 65536)
			off := b - r.Intn(len(t)+1)
			ln.Len = off + len(t) + tail
			ln.Over = []Overlay{{off, t, -1}}
			ln.Kind = "blanks+entry(straddling)"
		} else {
			ln.Len = g.pickLen()
			ln.Over = []Overlay{{ln.Len - len(t) - tail, t, -1}}
		}
	case "entry+blanks":
		ln.Fill = pick(r, " ", " ", "\t")
		ln.Len = g.pickLen()
		head := pick(r, "", "", " ", "\t") + c.Items[ln.Item].Text
		trailing := r.Intn(5) < 2
		if trailing || ln.Fill == " " || r.Intn(2) == 0 {
			head += " "
		}
		ln.Over = []Overlay{{0, head, -1}}
		if trailing { // more text after the blanks: still a comment
			bi := r.Intn(len(c.Baits))
			t := pick(r, "", "", "#", "# ") + c.Baits[bi].Text
			if r.Intn(2) == 0 {
				t += pick(r, " ", " was here", " # x")
			}
			off := ln.Len - len(t)
			if r.Intn(3) == 0 && ln.Len > 4096+len(t) { // or right behind a 4 KiB multiple
				off = 4096 * (1 + r.Intn(ln.Len/4096))
				if off+len(t) > ln.Len {
					off = ln.Len - len(t)
				}
			}
			ln.Over = append(ln.Over, Overlay{off, t, bi})
			ln.Bait = "after-blanks"
		}
	}
}

func genLines(seed int64, idx int) (*Case, error) {
	cs := mix(seed, "lines", idx)
	g := &gen{r: rand.New(rand.NewSource(cs)), wide: true}
	r := g.r
	c := &Case{Phase: "lines", Idx: idx, Seed: cs}

	nItems := 1 + r.Intn(7)
	if r.Intn(30) == 0 {
		nItems = 0
	}
	var ns []nrm
	for len(ns) < nItems {
		var x nrm
		if len(ns) == 0 || r.Intn(100) < 55 {
			x = g.fresh()
		} else {
			x = g.derive(ns[r.Intn(len(ns))])
		}
		ns = append(ns, g.withHost(x))
	}
	if err := g.finish(c, ns, nil, nil); err != nil {
		return c, err
	}
	c.Orders = nil

	// bait: prefixes that must NOT end up in the set (unless an entry covers them anyway)
	nb := 1 + r.Intn(5)
	for len(c.Baits) < nb {
		var x nrm
		switch k := r.Intn(12); {
		case k == 0:
			x = nrm{a16{}, 0}
		case k == 1:
			x = nrm{v4to16([4]byte{}), 96}
		case k < 5 && len(ns) > 0:
			x = g.derive(ns[r.Intn(len(ns))])
		default:
			x = g.fresh()
		}
		it, _ := g.present(g.withHost(x), false)
		it.Lead, it.Trail, it.Noise = "", "", nil
		if err := selfCheckItem(&it); err != nil {
			return c, err
		}
		c.Baits = append(c.Baits, it)
	}
	if err := prepItems(c.Baits, true); err != nil {
		return c, err
	}
	for i := range c.Baits {
		b := &c.Baits[i]
		f, l := firstOf(b.r.base, b.r.bits), lastOf(b.r.base, b.r.bits)
		c.Probes = append(c.Probes, mkProbe(f, "bait-first"), mkProbe(l, "bait-last"))
		if x, ok := dec(f); ok && i%2 == 0 {
			c.Probes = append(c.Probes, mkProbe(x, "bait-before"))
		}
		if x, ok := inc(l); ok && i%2 == 1 {
			c.Probes = append(c.Probes, mkProbe(x, "bait-after"))
		}
	}

	// ---- the lines ----
	s := &Source{NoFinalNL: c.NoFinalNL, NFiles: 1 + r.Intn(3), Matcher: pick(r, "client_ip", "resp_ip")}
	c.Src = s
	short := func(text string, item int) SrcLine {
		return SrcLine{Kind: "short", Item: item, Len: len(text), Fill: "x", Over: []Overlay{{0, text, -1}}}
	}
	for i := range c.Items {
		it := &c.Items[i]
		for _, n := range it.Noise {
			s.Lines = append(s.Lines, short(n, -1))
		}
		s.Lines = append(s.Lines, short(it.Lead+it.Text+it.Trail, i))
	}
	nLong := 1
	switch k := r.Intn(100); {
	case k < 4:
		nLong = 0
	case k < 62:
		nLong = 1
	case k < 90:
		nLong = 2
	default:
		nLong = 3
	}
	for k := 0; k < nLong; k++ {
		kind := longKinds[0]
		switch x := r.Intn(100); {
		case x < 35:
			kind = "entry+comment"
		case x < 65:
			kind = "comment"
		case x < 72:
			kind = "blank"
		case x < 85:
			kind = "blanks+entry"
		default:
			kind = "entry+blanks"
		}
		if kind != "comment" && kind != "blank" {
			var cand []int
			for i := range s.Lines {
				if s.Lines[i].Kind == "short" && s.Lines[i].Item >= 0 {
					cand = append(cand, i)
				}
			}
			if len(cand) == 0 {
				kind = "comment"
			} else {
				s.Lines[cand[r.Intn(len(cand))]].Kind = kind
				continue
			}
		}
		at := r.Intn(len(s.Lines) + 1)
		s.Lines = append(s.Lines, SrcLine{})
		copy(s.Lines[at+1:], s.Lines[at:])
		s.Lines[at] = SrcLine{Kind: kind, Item: -1, Fill: "x"}
	}
	endStyle := r.Intn(4) // 0,1: LF; 2: CRLF; 3: mixed
	start := 0
	for i := range s.Lines {
		ln := &s.Lines[i]
		switch endStyle {
		case 2:
			ln.End = "\r\n"
		case 3:
			ln.End = pick(r, "\n", "\r\n")
		default:
			ln.End = "\n"
		}
		if ln.Kind != "short" {
			ln.Over = nil
			g.makeLong(c, ln, start)
		}
		start += ln.Len + len(ln.End)
		// where the line goes in the plugin layers
		if ln.Kind == "short" && ln.Item >= 0 {
			switch r.Intn(10) {
			case 0, 1:
				ln.To = "ips"
			case 2:
				ln.To = "subips"
			case 3:
				ln.To = "sub"
			}
		} else if r.Intn(5) == 0 {
			ln.To = "sub"
		}
	}
	n := len(s.Lines)
	id := make([]int, n)
	for i := range id {
		id[i] = i
	}
	s.Orders = [][]int{id}
	if n > 1 {
		o := append([]int(nil), id...)
		r.Shuffle(n, func(i, j int) { o[i], o[j] = o[j], o[i] })
		s.Orders = append(s.Orders, o)
	}
	s.Reader = readerVariants[idx%len(readerVariants)]
	s.Chunk = pick(r, 1+r.Intn(64), 4095, 4096, 4097, 8192, 1000+r.Intn(70000), 512, 65536)
	total := start
	switch r.Intn(6) {
	case 0:
		s.FailAt = 0
	case 1:
		s.FailAt = total
	case 2:
		s.FailAt = r.Intn(total + 1)
	case 3: // right after a line
		k, off := r.Intn(n+1), 0
		for i := 0; i < k; i++ {
			off += s.Lines[i].Len + len(s.Lines[i].End)
		}
		s.FailAt = off
	case 4:
		s.FailAt = 4096 * r.Intn(total/4096+1)
	default: // inside the last line
		if n == 0 {
			s.FailAt = 0 // empty source
		} else {
			last := &s.Lines[n-1]
			s.FailAt = total - r.Intn(last.Len+len(last.End)+1)
		}
	}
	s.FailData = r.Intn(2) == 0
	s.FailErr = r.Intn(len(failErrs))
	return c, c.prepareSource()
}
