// C13 — IP sets contain exactly the addresses their prefixes cover.
//
// Generated multisets of IPv4 / IPv6 prefixes and bare addresses are loaded into
// the real netlist.List through every loading path (Append in several call
// patterns, LoadFromText, LoadFromReader with comments and blank lines, the
// ip_set plugin's LoadFromIPs / LoadFromFiles / NewIPSet with ips+files+sets)
// in three different load orders each. Every probe address is then asked of the
// set in IPv6 form and, where it is IPv4-mapped, in IPv4 form too, and the
// answer is compared with a linear scan over the original prefixes that uses the
// harness' own bit comparison on 16-byte addresses (oracle.go). After Sort the
// internal slice (VerifEntries) must consist of zone-less, masked 128-bit
// prefixes, strictly increasing, pairwise disjoint, covering exactly the union
// of the inputs (interval-union equality, computed independently).
//
// Phase "lines" (lines.go) hands the text loaders sources whose physical lines
// fall in every length class around 4 KiB .. 128 KiB (long trailing comments,
// long comment / blank lines, entries behind or before long runs of blanks,
// LF / CRLF, with / without final newline), with address-like bait planted in
// the comments, through whole / one-byte / half / chunked / failing readers,
// ip_set.LoadFromFiles, the ip_set constructor (ips + files + sets) and the
// client_ip / resp_ip matcher constructors. A load is either refused with an
// error or must agree with the harness' own reference parser of the format.
//
// Phase "sizes" (sizes.go): sets of every size class (1 .. 70000 rules; single
// addresses only, prefixes only, mixed, duplicates, nested, runs; IPv4 / IPv6 /
// mixed / mapped spelling) through every load path, including the ip_set
// plugin built from YAML args by the real args decoder and the anonymous sets
// of client_ip / resp_ip / ptr_ip.
//
// Phase "rules" (rules.go): one rule whose TEXT is at an edge value (address
// form x length form: lengths -1, 0, 32, 33, 128, 129, 2^32+24, '+8', '08', ...)
// among ordinary rules, through the same load paths: refused, or exactly one
// acceptable reading of the text - never more.
package main

import (
	"encoding/json"
	"fmt"
	"os"
	"path/filepath"
	"runtime"
	"sort"
	"strings"
	"sync"
	"sync/atomic"
	"time"

	"github.com/IrineSistiana/mosdns/v5/coremain"
	"github.com/IrineSistiana/mosdns/v5/plugin/data_provider/ip_set"

	"verifharness/lib/evid"
)

var rep *evid.Reporter

type job struct {
	phase string
	idx   int
	a, b  int // phase parameters
	c, d  int
}

func (j job) make(seed int64, maxN int) (*Case, error) {
	switch j.phase {
	case "random":
		return genRandom(seed, j.idx, maxN)
	case "pair":
		return genPair(seed, j.idx, j.a == 4, j.b, j.c, j.d)
	case "subtree":
		return genSubtree(seed, j.idx, j.a, j.b)
	case "topology":
		return genTopo(seed, j.idx)
	case "lines":
		return genLines(seed, j.idx)
	case "sizes":
		return genSizes(seed, j.idx, j.a, sizeComps[j.b], sizeFams[j.c])
	case "rules":
		return genRules(seed, j.idx, j.a, j.b)
	}
	return nil, fmt.Errorf("unknown phase %q", j.phase)
}

// relation flags of a set, computed on the oracle's unified rules
const (
	fDup = 1 << iota
	fSameBase
	fNested
	fAdjacent
	fV4
	fV6
	fMappedSpelling
	fHostBits
	fBare
	fWholeSpace
	fV6OverMapped
)

var flagNames = []string{"dup", "same-base-other-length", "nested", "adjacent", "v4", "v6", "mapped-spelling", "host-bits", "bare", "slash-0", "v6-prefix-over-mapped-range"}

func classify(c *Case) (flags int, fp string) {
	type nr struct {
		f    a16
		bits int
	}
	rs := make([]nr, len(c.Items))
	mappedBase := v4to16([4]byte{})
	for i := range c.Items {
		it := &c.Items[i]
		rs[i] = nr{firstOf(it.r.base, it.r.bits), it.r.bits}
		if rs[i].f != it.r.base {
			flags |= fHostBits
		}
		if it.V4 {
			flags |= fV4
		} else {
			flags |= fV6
			if it.Bits >= 96 && isMapped(it.raw16) {
				flags |= fMappedSpelling
			}
			if it.Bits < 96 && covers(it.r.base, it.r.bits, mappedBase) {
				flags |= fV6OverMapped
			}
		}
		if it.Bare {
			flags |= fBare
		}
		if it.r.bits == 0 {
			flags |= fWholeSpace
		}
	}
	sort.Slice(rs, func(i, j int) bool {
		if x := cmp16(rs[i].f, rs[j].f); x != 0 {
			return x < 0
		}
		return rs[i].bits < rs[j].bits
	})
	var sb strings.Builder
	for i, r := range rs {
		sb.Write(r.f[:])
		sb.WriteByte(byte(r.bits))
		if r.bits == 128 {
			sb.WriteByte(1)
		}
		if i == 0 {
			continue
		}
		p := rs[i-1]
		switch {
		case p.f == r.f && p.bits == r.bits:
			flags |= fDup
		case p.f == r.f:
			flags |= fSameBase
		case covers(p.f, p.bits, r.f):
			flags |= fNested
		default:
			if x, ok := inc(lastOf(p.f, p.bits)); ok && x == r.f {
				flags |= fAdjacent
			}
		}
	}
	return flags, sb.String()
}

func flagString(f int) string {
	var s []string
	for i, n := range flagNames {
		if f&(1<<i) != 0 {
			s = append(s, n)
		}
	}
	return strings.Join(s, "+")
}

type workerState struct {
	cur   atomic.Pointer[Case]
	since atomic.Int64
}

func main() {
	rep = evid.New("C13", "exploration")
	rep.SetRule("cases = multisets of IPv4/IPv6 prefixes and bare addresses (random sets grown by duplicate / same-base / child / parent / sibling / touching-block operators; every ordered pair of lengths 0..32 and 0..128 in 4 geometric relations; all 32767 subsets of a complete 3-level prefix subtree at 8 places incl. both ends of the address space and of the mapped range; random DAGs of 3..9 cooperating ip_set plugins with shared referenced sets, each set probed after its own and after all constructions against its own + transitively referenced prefixes), each loaded in 3 orders through Append, LoadFromText, LoadFromReader and ip_set, probed at first/last/neighbour addresses of every prefix + extremes + random, in v6 and v4 form; plus text sources of 0..7 entries whose physical lines have lengths just below / at / just above / between 4096, 8192, 12288, 16384, 32768, 65536, 131072 bytes (entry + long comment, long comment, long blank line, blanks + entry also straddling a boundary, entry + blanks + trailing text; LF / CRLF / no final newline; address-like bait inside the comments at line- and file-relative multiples of 512..32768, in aligned cells, behind blanks, at random offsets, flush with the line end), loaded in 2 line orders through LoadFromReader (whole, 1-byte, half, chunked, data-with-EOF and failing readers), LoadFromFiles, the ip_set constructor with lines dealt to ips / 1..3 files / a referenced set, and client_ip / resp_ip quick setup, probed additionally at first/last/neighbours of every bait; every load must be refused with an error or agree with the reference parser (a lines case is non-trivial if it has a line >= 4094 bytes, at least one load was accepted and the reference answers both true and false). A case of the other phases is non-trivial if it has >= 2 prefixes of which at least two are duplicates, share a base, are nested or touch, and the oracle answers both true and false for its probes; distinct = distinct multisets of (masked base, length). Phase sizes: sets of n rules for n = 1, 2, 3, every power of two up to 4096 (thorough 16384) with both neighbours, 100, 1000, 5000 and a few sets of 10000..70000 (thorough ..200000) rules, composed of single addresses only / prefixes only / both / single addresses + one prefix / prefixes + one address / n distinct addresses + duplicates / copies of 1..4 rules / rules nested in 1..4 parents / n consecutive addresses, in IPv4, IPv6, mixed and IPv4-mapped spelling, each loaded through List.Append, LoadFromReader, ip_set.LoadFromIPs, the ip_set plugin built from YAML args through the real args decoder (ips / files / ips+files / sets-only over ips / sets-only over files) and the anonymous sets of client_ip, resp_ip and ptr_ip (inline / &file / $set), probed at first/last/neighbours of a sample of the rules incl. the lowest and highest (a sizes case is non-trivial if all paths agreed with the oracle, which answered both true and false; distinct = (n, composition, family, generator seed)). Phase rules: 0..3 ordinary rules + one rule whose text is <address form> x <length form> (36 address forms incl. mapped, zone, brackets, zero-padded / hex / out-of-range octets, blanks, malformed; 130 length forms: none, 0..128, beyond 128 up to beyond 2^64 incl. values that wrap to valid lengths, negative, '+', leading zeros, empty, blanks, hex / float / non-ASCII digits, doubled, netmask) through LoadFromText, LoadFromReader, LoadFromIPs, LoadFromFiles, the ip_set plugin from YAML args (ips / files / sets-only) and client_ip / resp_ip / ptr_ip (inline / &file): each load must be refused, or answer every probe as 'ordinary rules + one acceptable reading of the edge rule' (a rules case is non-trivial if at least one load was judged; distinct = (address form, length form, text))")
	rep.Assume("net/netip parsing and formatting (ParseAddr, ParsePrefix, AddrFrom4/16, As16) are trusted; the oracle itself uses only byte arrays and its own bit compare, cross-checked against math/big at start-up")
	rep.Assume("zoned addresses and invalid netip.Addr / netip.Prefix values are out of scope and never generated")
	rep.Assume("text inputs are restricted to forms the loaders document: one address or CIDR per line, '#' comments, text after the first blank ignored, surrounding blanks/tabs/CR; a tab directly before '#' is not generated (the loader rejects such a line with an error, it does not mis-load it)")
	rep.Assume("lines phase: the list format is read as: lines end at LF; blanks (space, tab, CR, VT, FF) around a line are ignored; everything from the first '#', and from the first space, is comment; the rest is one address or CIDR. A loader may refuse any source with an error (e.g. lines beyond a length limit, a failing reader); only sources it accepts are compared. A lone CR inside a line is never followed by bait")
	rep.Assume("rules phase: a rule in canonical text form (what net/netip accepts: no sign, no leading zeros, length 0..32 / 0..128, no zone in a prefix) has exactly one reading and must be honoured; for any other text the acceptable outcomes are: refused at load (error, or a panic at load), contributes nothing, or contributes exactly one of its listed natural readings (decimal / octal value of a padded number, the address without zone / brackets / port / blanks, the first blank-separated field alone as the list format has it); a length outside 0..32 / 0..128 has no reading")
	rep.Assume("sizes phase: sets of more than 140 rules are probed at a sample of 140 rules (always including the lowest and the highest one)")
	rep.Assume("universals are sampled: a clean run means 'held on the generated sets and probes', not 'verified'")

	if err := selfTest(rep.Seed); err != nil {
		rep.Inconclusive("harness self-test of the oracle's bit arithmetic failed: %v", err)
		rep.Finish()
	}
	info, ok := coremain.GetPluginType(ip_set.PluginType)
	if !ok {
		rep.Inconclusive("plugin type ip_set is not registered")
		rep.Finish()
	}

	dir := os.Getenv("VERIF_TMP")
	ownDir := false
	if dir == "" {
		d, err := os.MkdirTemp("", "verif-c13-")
		if err != nil {
			rep.Inconclusive("cannot create scratch dir: %v", err)
			rep.Finish()
		}
		dir, ownDir = d, true
	}
	cleanup := func() {
		if ownDir {
			os.RemoveAll(dir)
		} else {
			m, _ := filepath.Glob(filepath.Join(dir, "w*-*.txt"))
			for _, f := range m {
				os.Remove(f)
			}
		}
	}

	if rep.ReplayFile != "" {
		var c Case
		if err := rep.LoadReplay(&c); err != nil {
			rep.Inconclusive("cannot load replay file: %v", err)
			rep.Finish()
		}
		e := &env{id: 0, dir: dir, info: info}
		res := e.runCase(&c)
		rep.Eval(1)
		report(&c, res)
		rep.Count("probes", int64(len(c.Probes)))
		_, fp := classify(&c)
		rep.Nontrivial(fp)
		cleanup()
		rep.Finish()
	}

	// ---- the fixed, seed-determined case list ----
	var jobs []job
	idx := 0
	add := func(j job) { j.idx = idx; idx++; jobs = append(jobs, j) }
	nRandom := rep.Pick(30000, 2000000)
	maxN := rep.Pick(400, 1200)
	for i := 0; i < nRandom; i++ {
		add(job{phase: "random"})
	}
	pairReps := rep.Pick(1, 3)
	for rp := 0; rp < pairReps; rp++ {
		for _, fam := range []int{4, 6} {
			max := 32
			if fam == 6 {
				max = 128
			}
			for la := 0; la <= max; la++ {
				for lb := 0; lb <= max; lb++ {
					if rep.Thorough() {
						for rel := 0; rel < 4; rel++ {
							add(job{phase: "pair", a: fam, b: la, c: lb, d: rel})
						}
					} else if fam == 4 {
						for rel := 0; rel < 4; rel++ {
							add(job{phase: "pair", a: fam, b: la, c: lb, d: rel})
						}
					} else {
						add(job{phase: "pair", a: fam, b: la, c: lb, d: (la + 2*lb + int(rep.Seed)) & 3})
					}
				}
			}
		}
	}
	for mask := 1; mask < 1<<15; mask++ {
		if rep.Thorough() {
			for loc := range subtreeRoots {
				add(job{phase: "subtree", a: loc, b: mask})
			}
		} else {
			add(job{phase: "subtree", a: (mask + int(rep.Seed)) % len(subtreeRoots), b: mask})
		}
	}

	for i, n := 0, rep.Pick(8000, 300000); i < n; i++ {
		add(job{phase: "topology"})
	}

	// text sources in every line-length class (lines.go); appended last so that the
	// case indices (and with them the cases) of the phases above stay what they were
	for i, n := 0, rep.Pick(1500, 40000); i < n; i++ {
		add(job{phase: "lines"})
	}

	// sets of every size class x composition x family (sizes.go); the few very
	// large sets first. Appended after the phases above so that their case indices stay.
	{
		small, big := sizeClassList(rep.Thorough())
		bigCombos := [][2]int{{0, 0}, {2, 2}, {1, 1}, {5, 2}, {0, 2}, {0, 1}, {2, 0}, {3, 0}, {0, 3}}
		for i, n := range big {
			k := 1
			if rep.Thorough() {
				k = 3
			}
			for x := 0; x < k; x++ {
				cb := bigCombos[(i+x*4+int(rep.Seed))%len(bigCombos)]
				add(job{phase: "sizes", a: n, b: cb[0], c: cb[1]})
			}
		}
		for rp, reps := 0, rep.Pick(1, 3); rp < reps; rp++ {
			for i, n := range small {
				for ci := range sizeComps {
					if ci < 3 || rep.Thorough() { // singles / prefixes / mixed x v4 / v6 / mixed: full cross
						for fi := 0; fi < 3; fi++ {
							add(job{phase: "sizes", a: n, b: ci, c: fi})
						}
						if rep.Thorough() || ci == (i+int(rep.Seed))%3 {
							add(job{phase: "sizes", a: n, b: ci, c: 3})
						}
					} else {
						add(job{phase: "sizes", a: n, b: ci, c: (i + ci + rp + int(rep.Seed)) % len(sizeFams)})
					}
				}
			}
		}
	}
	// one rule at the edge values of its text: every address form x every length form (rules.go)
	for rp, reps := 0, rep.Pick(1, 6); rp < reps; rp++ {
		for ai := range addrForms {
			for li := range lenForms {
				add(job{phase: "rules", a: ai, b: li})
			}
		}
	}

	nw := runtime.GOMAXPROCS(0)
	if nw > 16 {
		nw = 16
	}
	ws := make([]*workerState, nw)
	var next atomic.Int64
	var wg sync.WaitGroup
	var mu sync.Mutex
	flagSets := map[int]int{}
	phaseCount := map[string]int64{}
	var nontrivial, loadErrCount int64
	sampled := map[string]int{}
	done := make(chan struct{})

	for w := 0; w < nw; w++ {
		ws[w] = &workerState{}
		wg.Add(1)
		go func(w int) {
			defer wg.Done()
			e := &env{id: w, dir: dir, info: info}
			localFlags := map[int]int{}
			localPhase := map[string]int64{}
			var localNT int64
			for {
				k := int(next.Add(1)) - 1
				if k >= len(jobs) {
					break
				}
				j := jobs[k]
				c, err := j.make(rep.Seed, maxN)
				if err != nil {
					rep.Inconclusive("harness: generator self-check failed for %s #%d: %v", j.phase, j.idx, err)
					continue
				}
				ws[w].cur.Store(c)
				ws[w].since.Store(time.Now().UnixNano())
				res := e.runCase(c)
				ws[w].cur.Store(nil)
				rep.Eval(1)
				flags, fp := classify(c)
				if len(c.Topo) > 0 {
					fp += c.topoShape()
				}
				localFlags[flags]++
				localPhase[c.Phase]++
				nt := len(c.Items) >= 2 && flags&(fDup|fSameBase|fNested|fAdjacent) != 0 && res.nTrue > 0 && res.nFalse > 0
				if c.Src != nil {
					nt = res.linesNT
					fp += "|" + c.Src.shape()
				}
				if c.Sz != nil {
					nt, fp = res.extNT, c.Sz.shape()
				}
				if c.Rl != nil {
					nt, fp = res.extNT, fp+"|"+c.Rl.shape()
				}
				if nt {
					localNT++
					rep.Nontrivial(fp)
				}
				nTrue.Add(int64(res.nTrue))
				nFalse.Add(int64(res.nFalse))
				if len(res.loadErrs) > 0 {
					mu.Lock()
					loadErrCount++
					mu.Unlock()
				}
				report(c, res)
				if nt && c.Src == nil && c.Sz == nil && c.Rl == nil && len(c.Items) <= 6 && len(res.findings) == 0 && rep.WantSample() {
					mu.Lock()
					take := sampled[c.Phase] < 3
					if take {
						sampled[c.Phase]++
					}
					mu.Unlock()
					if take {
						rep.Sample(sampleOf(c, res, flags))
					}
				}
			}
			mu.Lock()
			for k, v := range localFlags {
				flagSets[k] += v
			}
			for k, v := range localPhase {
				phaseCount[k] += v
			}
			nontrivial += localNT
			mu.Unlock()
		}(w)
	}

	// generous watchdog: a case takes milliseconds; one that runs for minutes is
	// reported as inconclusive (termination is not what C13 states)
	go func() {
		t := time.NewTicker(2 * time.Second)
		defer t.Stop()
		for {
			select {
			case <-done:
				return
			case <-t.C:
				for _, s := range ws {
					c := s.cur.Load()
					if c != nil && time.Since(time.Unix(0, s.since.Load())) > 150*time.Second {
						p := filepath.Join(rep.ReplayDir, fmt.Sprintf("C13-stuck-seed%d.json", rep.Seed))
						_ = os.MkdirAll(rep.ReplayDir, 0o755)
						b, _ := json.MarshalIndent(map[string]any{"property": "C13", "key": "stuck", "seed": rep.Seed, "case": c}, "", " ")
						_ = os.WriteFile(p, b, 0o644)
						rep.Inconclusive("a case (%s #%d, %d prefixes) did not finish within 150 s; written to %s", c.Phase, c.Idx, len(c.Items), p)
						cleanup()
						rep.Finish()
					}
				}
			}
		}
	}()

	wg.Wait()
	close(done)
	cleanup()

	// ---- evidence ----
	rep.Count("cases_nontrivial_total", nontrivial)
	for k, v := range phaseCount {
		rep.Count("cases_phase_"+k, v)
	}
	rep.Count("loads", nLoads.Load())
	for i, l := range layers {
		rep.Count("loads_"+l, layerLoads[i].Load())
	}
	rep.Count("queries", nQueries.Load())
	rep.Count("queries_in_v4_form", nV4FormQueries.Load())
	rep.Count("probe_expected_contained", nTrue.Load())
	rep.Count("probe_expected_not_contained", nFalse.Load())
	rep.Count("contains_vs_match_comparisons", nContainsVsMatch.Load())
	rep.Count("struct_checks_lists", nStructChecks.Load())
	rep.Count("struct_entries_checked", nEntries.Load())
	rep.Count("struct_inputs", nInputs.Load())
	rep.Count("struct_inputs_merged_away", nMergedAway.Load())
	rep.Count("plugin_loads_with_several_lists", nPluginLists.Load())
	rep.Count("order_comparisons", nOrderCmp.Load())
	rep.Count("cases_with_order_dependent_answers", nOrderDependent.Load())
	rep.Count("reader_noise_lines_per_order", nReaderNoise.Load())
	rep.Count("cases_with_rejected_input", loadErrCount)
	rep.Count("topology_cases", nTopoCases.Load())
	rep.Count("topology_plugins_built", nTopoPlugins.Load())
	rep.Count("topology_plugins_with_only_sets", nTopoSetsOnly.Load())
	rep.Count("topology_sets_only_plugins_sharing_their_first_reference", nTopoSharedFirstRef.Load())
	rep.Count("topology_groups_with_spare_capacity", nTopoSpareCap.Load())
	rep.Count("topology_cases_with_two_sets_only_plugins_starting_from_the_same_non_full_group", nTopoSharedHub.Load())
	rep.Count("topology_queries", nTopoQueries.Load())
	rep.Count("topology_sets_damaged_by_a_later_construction", nTopoDamagedLater.Load())
	linesEvidence()
	sizesEvidence()
	rulesEvidence()
	tm := map[string]int64{}
	for i := range topoMembers {
		n := fmt.Sprint(i)
		if i == 7 {
			n = "7+"
		}
		tm[n] = topoMembers[i].Load()
	}
	rep.Extra("topology_group_lengths", tm)
	rep.Extra("out_of_scope_observations_not_judged", map[string]int64{
		"invalid_addr_queries_answered_true":             nInvalidTrue.Load(),
		"zoned_form_of_a_covered_address_asked":          nZonedAsked.Load(),
		"zoned_form_of_a_covered_address_answered_false": nZonedFalse.Load(),
	})
	l4, l6 := 0, 0
	var miss []string
	for i := range lenSeen4 {
		if lenSeen4[i].Load() > 0 {
			l4++
		} else {
			miss = append(miss, fmt.Sprintf("v4/%d", i))
		}
	}
	for i := range lenSeen6 {
		if lenSeen6[i].Load() > 0 {
			l6++
		} else {
			miss = append(miss, fmt.Sprintf("v6/%d", i))
		}
	}
	rep.Count("distinct_v4_lengths_loaded", int64(l4))
	rep.Count("distinct_v6_lengths_loaded", int64(l6))
	forms := map[string]int64{}
	for i := range formSeen {
		n := "ipv4-dotted"
		if i < len(textForms) {
			n = "ipv6-" + textForms[i]
		}
		forms[n] = formSeen[i].Load()
	}
	rep.Extra("text_spellings", forms)
	hist := map[string]int64{}
	for i, n := range histNames {
		hist[n] = entriesHist[i].Load()
	}
	rep.Extra("sorted_list_sizes", hist)
	perFlag := map[string]int{}
	for f, n := range flagSets {
		rep.SetAdd("relation_classes", flagString(f))
		for i, name := range flagNames {
			if f&(1<<i) != 0 {
				perFlag[name] += n
			}
		}
	}
	rep.Extra("cases_per_feature", perFlag)
	rep.Extra("append_variants", appendVariants)
	rep.Extra("ipset_variants", ipsetVariants)

	if rep.Violations() > 0 {
		// a failing layer stops the layers built on it: the coverage demands below do not apply
		rep.Finish()
	}
	if len(miss) > 0 {
		rep.Inconclusive("prefix lengths never loaded: %v", miss)
	}
	for _, name := range flagNames {
		if perFlag[name] == 0 {
			rep.Inconclusive("no generated set had feature %q", name)
		}
	}
	if nTrue.Load() == 0 || nFalse.Load() == 0 || nStructChecks.Load() == 0 || nMergedAway.Load() == 0 ||
		nV4FormQueries.Load() == 0 || nPluginLists.Load() == 0 || nontrivial == 0 {
		rep.Inconclusive("a monitor observed nothing (true=%d false=%d struct=%d merged=%d v4form=%d plugin=%d nontrivial=%d)",
			nTrue.Load(), nFalse.Load(), nStructChecks.Load(), nMergedAway.Load(), nV4FormQueries.Load(), nPluginLists.Load(), nontrivial)
	}
	if nTopoSetsOnly.Load() == 0 || nTopoSharedFirstRef.Load() == 0 || nTopoSpareCap.Load() == 0 {
		rep.Inconclusive("the multi-plugin monitor observed nothing (sets-only plugins=%d, shared first reference=%d, groups with spare capacity=%d)",
			nTopoSetsOnly.Load(), nTopoSharedFirstRef.Load(), nTopoSpareCap.Load())
	}
	linesDemands()
	sizesDemands()
	rulesDemands()
	for i, l := range layers {
		if layerLoads[i].Load() == 0 && rep.Violations() == 0 {
			rep.Inconclusive("layer %s was never exercised", l)
		}
	}
	rep.Finish()
}

var inconcOnce sync.Map

func report(c *Case, res caseResult) {
	if res.harnessErr != "" {
		rep.Inconclusive("harness problem in %s #%d: %s", c.Phase, c.Idx, res.harnessErr)
	}
	for _, e := range res.loadErrs {
		// a loader that refuses a well-formed line leaves nothing to compare:
		// not a C13 violation, but the property could not be evaluated
		k := e
		if i := strings.Index(k, ":"); i > 0 {
			k = k[:i]
		}
		if _, dup := inconcOnce.LoadOrStore(k, true); !dup {
			rep.Inconclusive("%s (%s #%d)", e, c.Phase, c.Idx)
		}
	}
	for _, f := range res.findings {
		rep.Violation(f.key, f.what, c)
	}
}

func sampleOf(c *Case, res caseResult, flags int) any {
	var items []string
	for i := range c.Items {
		items = append(items, c.Items[i].Text)
	}
	var pr []string
	for i := range c.Probes {
		if i >= 10 {
			break
		}
		pr = append(pr, c.Probes[i].Role+":"+show16(c.Probes[i].a))
	}
	return map[string]any{
		"phase": c.Phase, "idx": c.Idx, "loaded": items, "orders": c.Orders, "topology": c.topoString(),
		"features": flagString(flags), "probes": len(c.Probes), "some_probes": pr,
		"oracle_contained": res.nTrue, "oracle_not_contained": res.nFalse,
		"entries_after_sort": res.entries, "all_loaders_agreed_with_oracle": true,
	}
}
