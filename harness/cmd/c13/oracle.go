package main

// Independent reference semantics for C13. Nothing in this file uses
// netip.Prefix.Contains / Masked / Addr.Compare: addresses are plain 16-byte
// arrays, IPv4 a.b.c.d is unified with ::ffff:a.b.c.d by the oracle itself, and
// "prefix P/n covers x" is a comparison of the first n bits.

import (
	"bytes"
	"fmt"
	"math/big"
	"math/rand"
	"net/netip"
	"sort"
)

type a16 = [16]byte

// v4to16 is the oracle's own unification of an IPv4 address with its
// IPv4-mapped IPv6 form.
func v4to16(b [4]byte) a16 {
	var r a16
	r[10], r[11] = 0xff, 0xff
	copy(r[12:], b[:])
	return r
}

func isMapped(a a16) bool {
	for i := 0; i < 10; i++ {
		if a[i] != 0 {
			return false
		}
	}
	return a[10] == 0xff && a[11] == 0xff
}

// covers reports whether the first bits bits of p equal those of base.
func covers(base a16, bits int, p a16) bool {
	full, rem := bits>>3, uint(bits&7)
	for i := 0; i < full; i++ {
		if base[i] != p[i] {
			return false
		}
	}
	if rem != 0 && (base[full]^p[full])>>(8-rem) != 0 {
		return false
	}
	return true
}

// firstOf / lastOf: lowest and highest address of the block a/bits.
func firstOf(a a16, bits int) a16 {
	var r a16
	full, rem := bits>>3, uint(bits&7)
	copy(r[:full], a[:full])
	if rem != 0 {
		r[full] = a[full] & ^byte(0xff>>rem)
	}
	return r
}

func lastOf(a a16, bits int) a16 {
	r := firstOf(a, bits)
	full, rem := bits>>3, uint(bits&7)
	if rem != 0 {
		r[full] |= byte(0xff >> rem)
		full++
	}
	for i := full; i < 16; i++ {
		r[i] = 0xff
	}
	return r
}

func inc(a a16) (a16, bool) {
	for i := 15; i >= 0; i-- {
		a[i]++
		if a[i] != 0 {
			return a, true
		}
	}
	return a, false // wrapped
}

func dec(a a16) (a16, bool) {
	for i := 15; i >= 0; i-- {
		a[i]--
		if a[i] != 0xff {
			return a, true
		}
	}
	return a, false // wrapped
}

func cmp16(a, b a16) int { return bytes.Compare(a[:], b[:]) }

func getBit(a a16, i int) bool { return a[i>>3]&(0x80>>uint(i&7)) != 0 }

func setBit(a *a16, i int, v bool) {
	if v {
		a[i>>3] |= 0x80 >> uint(i&7)
	} else {
		a[i>>3] &^= 0x80 >> uint(i&7)
	}
}

// trailingZeros counts zero bits at the low end (128 for ::).
func trailingZeros(a a16) int {
	n := 0
	for i := 127; i >= 0 && !getBit(a, i); i-- {
		n++
	}
	return n
}

func trailingOnes(a a16) int {
	n := 0
	for i := 127; i >= 0 && getBit(a, i); i-- {
		n++
	}
	return n
}

// rule is one loaded prefix in the oracle's unified 128-bit space. base keeps
// whatever host bits the input had: covers() ignores them by construction.
type rule struct {
	base a16
	bits int
}

func oracleContains(rs []rule, p a16) bool {
	for i := range rs {
		if covers(rs[i].base, rs[i].bits, p) {
			return true
		}
	}
	return false
}

type interval struct{ lo, hi a16 }

// normUnion turns blocks into the canonical list of maximal address intervals
// (overlapping and touching blocks fused). Two sets of prefixes cover the same
// addresses iff their normUnion lists are equal.
func normUnion(iv []interval) []interval {
	if len(iv) == 0 {
		return nil
	}
	sort.Slice(iv, func(i, j int) bool {
		if c := cmp16(iv[i].lo, iv[j].lo); c != 0 {
			return c < 0
		}
		return cmp16(iv[i].hi, iv[j].hi) < 0
	})
	out := []interval{iv[0]}
	for _, x := range iv[1:] {
		cur := &out[len(out)-1]
		next, ok := inc(cur.hi)
		if !ok || cmp16(x.lo, next) <= 0 { // cur reaches the top, or x starts inside / right after cur
			if cmp16(x.hi, cur.hi) > 0 {
				cur.hi = x.hi
			}
			continue
		}
		out = append(out, x)
	}
	return out
}

func rulesUnion(rs []rule) []interval {
	iv := make([]interval, len(rs))
	for i, r := range rs {
		iv[i] = interval{firstOf(r.base, r.bits), lastOf(r.base, r.bits)}
	}
	return normUnion(iv)
}

func sameUnion(a, b []interval) bool {
	if len(a) != len(b) {
		return false
	}
	for i := range a {
		if a[i] != b[i] {
			return false
		}
	}
	return true
}

func hex16(a a16) string { return fmt.Sprintf("%x", a[:]) }

func show16(a a16) string { return netip.AddrFrom16(a).String() } // display only

// structFinding describes a broken structural invariant of a sorted list.
type structFinding struct {
	kind   string
	detail string
}

// checkEntries verifies the per-list invariant on what VerifEntries returned:
// all entries 128-bit, zone-less, masked, strictly increasing by base and
// pairwise disjoint. It returns the entries as oracle rules.
func checkEntries(es []netip.Prefix, sorted bool) ([]rule, *structFinding) {
	if !sorted {
		return nil, &structFinding{"sorted-flag-false", "VerifEntries reports sorted=false after Sort()"}
	}
	rs := make([]rule, len(es))
	for i, e := range es {
		ad := e.Addr()
		if !ad.IsValid() || !ad.Is6() || ad.Zone() != "" || e.Bits() < 0 || e.Bits() > 128 {
			return nil, &structFinding{"entry-not-128bit", fmt.Sprintf("entry #%d %v is not a zone-less 128-bit prefix", i, e)}
		}
		b := ad.As16()
		rs[i] = rule{b, e.Bits()}
		if firstOf(b, e.Bits()) != b {
			return nil, &structFinding{"entry-not-masked", fmt.Sprintf("entry #%d %v has host bits set", i, e)}
		}
		if i > 0 {
			if cmp16(rs[i-1].base, b) >= 0 {
				return nil, &structFinding{"entries-not-increasing", fmt.Sprintf("entry #%d %v does not start after entry #%d %v", i, e, i-1, es[i-1])}
			}
			if cmp16(lastOf(rs[i-1].base, rs[i-1].bits), b) >= 0 {
				return nil, &structFinding{"entries-overlap", fmt.Sprintf("entry #%d %v overlaps entry #%d %v", i, e, i-1, es[i-1])}
			}
		}
	}
	return rs, nil
}

// selfTest checks the bit helpers above against math/big so that a slip in the
// oracle's own arithmetic cannot turn into a verdict.
func selfTest(seed int64) error {
	r := rand.New(rand.NewSource(seed ^ 0x5e1f))
	one := big.NewInt(1)
	top := new(big.Int).Lsh(one, 128)
	toBig := func(a a16) *big.Int { return new(big.Int).SetBytes(a[:]) }
	for n := 0; n < 20000; n++ {
		var a, p a16
		r.Read(a[:])
		r.Read(p[:])
		bits := r.Intn(129)
		if n%3 == 0 { // make p share a long run with a
			k := r.Intn(129)
			for i := 0; i < k; i++ {
				setBit(&p, i, getBit(a, i))
			}
		}
		hostMask := new(big.Int).Sub(new(big.Int).Lsh(one, uint(128-bits)), one)
		f := new(big.Int).AndNot(toBig(a), hostMask)
		l := new(big.Int).Or(f, hostMask)
		if toBig(firstOf(a, bits)).Cmp(f) != 0 || toBig(lastOf(a, bits)).Cmp(l) != 0 {
			return fmt.Errorf("firstOf/lastOf(%x,%d)", a, bits)
		}
		pb := toBig(p)
		want := pb.Cmp(f) >= 0 && pb.Cmp(l) <= 0
		if covers(a, bits, p) != want {
			return fmt.Errorf("covers(%x,%d,%x)", a, bits, p)
		}
		if (cmp16(a, p) < 0) != (toBig(a).Cmp(pb) < 0) {
			return fmt.Errorf("cmp16")
		}
		ia, ok := inc(a)
		w := new(big.Int).Add(toBig(a), one)
		if ok != (w.Cmp(top) < 0) || (ok && toBig(ia).Cmp(w) != 0) {
			return fmt.Errorf("inc(%x)", a)
		}
		da, ok := dec(a)
		w = new(big.Int).Sub(toBig(a), one)
		if ok != (w.Sign() >= 0) || (ok && toBig(da).Cmp(w) != 0) {
			return fmt.Errorf("dec(%x)", a)
		}
	}
	var z, f a16
	for i := range f {
		f[i] = 0xff
	}
	if _, ok := dec(z); ok {
		return fmt.Errorf("dec(0)")
	}
	if _, ok := inc(f); ok {
		return fmt.Errorf("inc(max)")
	}
	if trailingZeros(z) != 128 || trailingOnes(f) != 128 || lastOf(z, 0) != f || firstOf(f, 0) != z {
		return fmt.Errorf("edge helpers")
	}
	// normUnion: [0..5] [6..9] [11..12] -> [0..9] [11..12]
	mk := func(x byte) a16 { var a a16; a[15] = x; return a }
	u := normUnion([]interval{{mk(11), mk(12)}, {mk(6), mk(9)}, {mk(0), mk(5)}, {mk(2), mk(3)}})
	if len(u) != 2 || u[0] != (interval{mk(0), mk(9)}) || u[1] != (interval{mk(11), mk(12)}) {
		return fmt.Errorf("normUnion")
	}
	return nil
}
