package main

// Phase "sizes": sets of every SIZE class.
//
// The other phases load a handful of rules (the random phase a few hundred that
// mostly merge). Here the number of rules is the dimension: 1, 2, 3 and every
// power of two up to 4096 with its two neighbours, round decimal sizes, and a
// few sets of 10000 .. 70000 rules (beyond 2^16), composed of
//   - single addresses only, real prefixes only, both mixed,
//   - single addresses plus exactly one prefix / prefixes plus one address,
//   - n distinct single addresses plus duplicates of them,
//   - n rules that are copies of 1..4 rules, n rules nested in 1..4 parents
//     (both merge down to a few entries), n consecutive addresses,
// in IPv4, IPv6, mixed and IPv4-mapped spelling. Every set goes through every
// load path that ends in something a query is matched against:
//   netlist.List.Append, netlist.LoadFromReader, ip_set.LoadFromIPs,
//   the ip_set plugin built from YAML args (ips / files / ips+files / sets only),
//   the anonymous sets of client_ip, resp_ip and ptr_ip (inline, &file, $set).
// Oracle: membership of first/last/neighbour addresses of a sample of the
// loaded rules (always including the lowest and highest rule), fixed extremes
// and random addresses, against the linear scan of oracle.go; where the lists
// can be reached, their sorted entries must cover exactly the union of the rules.

import (
	"fmt"
	"math/rand"
	"net/netip"
	"sort"
	"strconv"
	"strings"
	"sync"
	"sync/atomic"

	"github.com/IrineSistiana/mosdns/v5/pkg/matcher/netlist"
	"github.com/IrineSistiana/mosdns/v5/plugin/data_provider/ip_set"
)

type SizeSpec struct {
	N     int      `json:"n"`           // size class (see buildSizes for what it counts per composition)
	Comp  string   `json:"composition"` // one of sizeComps
	Fam   string   `json:"family"`      // one of sizeFams
	Seed  int64    `json:"gen_seed"`    // the rules are regenerated from (n, composition, family, gen_seed)
	Rules int      `json:"rules"`       // number of rules loaded
	Head  []string `json:"first_rules,omitempty"`
	Style int      `json:"yaml_style"`

	ents []szEnt
}

type szEnt struct {
	r    rule
	text string
	pfx  netip.Prefix
}

var sizeComps = []string{"singles", "prefixes", "mixed", "singles+1prefix", "prefixes+1single", "singles+dups", "dups", "nested", "run"}
var sizeFams = []string{"v4", "v6", "mixed", "v4-mapped-spelling"}

var sizeLayers = []string{"list", "ips", "plugin", "matcher"}

var (
	nSizesCases, nSizesLoads, nSizesQueries, nSizesRules, nSizesStruct, nSizesNontriv atomic.Int64
	nSizesMemberProbes, nSizesMemberTrue, nSizesNonMemberFalse                        atomic.Int64
	nSizesDroppedGroups, nSizesUnionDiffers, nSizesUnionDiffersMembershipHolds        atomic.Int64
	sizesMu                                                                           sync.Mutex
	sizesByClass                                                                      = map[string]int64{}
	sizesByComp                                                                       = map[string]int64{}
	sizesByFam                                                                        = map[string]int64{}
	sizesByPath                                                                       = map[string]int64{}
	sizesEntriesAfterSort                                                             = map[string]int64{}
	sizesSamples                                                                      []any
)

// sizeClassList: the sizes of the quick / thorough tier. big sizes come first
// in the job list (they take longest).
func sizeClassList(thorough bool) (small, big []int) {
	seen := map[int]bool{}
	add := func(dst *[]int, v int) {
		if v >= 1 && !seen[v] {
			seen[v] = true
			*dst = append(*dst, v)
		}
	}
	maxP := 12
	if thorough {
		maxP = 14
	}
	for p := 0; p <= maxP; p++ {
		add(&small, 1<<p-1)
		add(&small, 1<<p)
		add(&small, 1<<p+1)
	}
	for _, v := range []int{6, 10, 12, 100, 1000, 5000} {
		add(&small, v)
	}
	sort.Ints(small)
	if thorough {
		for _, v := range []int{32767, 32768, 32769, 50000, 65535, 65536, 65537, 70000, 100000, 131071, 131072, 131073, 200000} {
			add(&big, v)
		}
	} else {
		for _, v := range []int{10000, 16385, 65536, 65537, 70000} {
			add(&big, v)
		}
	}
	return
}

func sizeClassName(n int) string {
	switch {
	case n <= 4:
		return fmt.Sprintf("%06d", n)
	case n&(n-1) == 0:
		return fmt.Sprintf("%06d (2^%d)", n, bitsLen(n)-1)
	case (n+1)&n == 0:
		return fmt.Sprintf("%06d (2^%d-1)", n, bitsLen(n))
	case (n-1)&(n-2) == 0:
		return fmt.Sprintf("%06d (2^%d+1)", n, bitsLen(n-1)-1)
	}
	return fmt.Sprintf("%06d", n)
}

func bitsLen(n int) int {
	k := 0
	for ; n > 0; n >>= 1 {
		k++
	}
	return k
}

func pow2Bucket(n int) string {
	if n == 0 {
		return "0"
	}
	lo := 1 << (bitsLen(n) - 1)
	if lo == n {
		return fmt.Sprintf("%06d", n)
	}
	return fmt.Sprintf("%06d..%06d", lo+1, 2*lo-1)
}

// ---- generator ---------------------------------------------------------------

type szB struct {
	r      *rand.Rand
	fam    string
	seen   map[rule]bool
	last4  uint32
	have4  bool
	last6  a16
	have6  bool
	reg6   [3]a16
	runFam string
}

func (b *szB) pickFam() string {
	switch b.fam {
	case "v4":
		return "v4"
	case "v6":
		return "v6"
	case "v4-mapped-spelling":
		return "mapped"
	}
	switch k := b.r.Intn(12); {
	case k < 4:
		return "v6"
	case k < 5:
		return "mapped"
	}
	return "v4"
}

func u32to4(v uint32) [4]byte { return [4]byte{byte(v >> 24), byte(v >> 16), byte(v >> 8), byte(v)} }

func (b *szB) addr(fam string) a16 {
	if fam == "v6" {
		if b.have6 && b.r.Intn(3) == 0 {
			a := b.last6
			for k := 1 + b.r.Intn(3); k > 0; k-- {
				if x, ok := inc(a); ok {
					a = x
				}
			}
			b.last6 = a
			return a
		}
		var a a16
		b.r.Read(a[:])
		if b.r.Intn(2) == 0 { // inside one of three regions: long common prefixes
			reg := b.reg6[b.r.Intn(3)]
			copy(a[:8], reg[:8])
			if b.r.Intn(2) == 0 {
				copy(a[8:14], reg[8:14])
			}
		}
		if a[0] == 0 { // keep away from ::/8 (mapped range): this is the IPv6 family
			a[0] = 0x20
		}
		b.last6, b.have6 = a, true
		return a
	}
	var v uint32
	if b.have4 && b.r.Intn(3) == 0 {
		v = b.last4 + 1 + uint32(b.r.Intn(3))
	} else {
		v = b.r.Uint32()
	}
	b.last4, b.have4 = v, true
	return v4to16(u32to4(v))
}

// ent writes a rule of the unified space in the spelling of fam.
func (b *szB) ent(fam string, a a16, bits int, bare bool) szEnt {
	e := szEnt{r: rule{a, bits}}
	switch fam {
	case "v4":
		var b4 [4]byte
		copy(b4[:], a[12:])
		e.text = dotted(b4[:])
		if !bare {
			e.text += "/" + strconv.Itoa(bits-96)
		}
		e.pfx = netip.PrefixFrom(netip.AddrFrom4(b4), bits-96)
	case "mapped":
		e.text = "::ffff:" + dotted(a[12:])
		if !bare {
			e.text += "/" + strconv.Itoa(bits)
		}
		e.pfx = netip.PrefixFrom(netip.AddrFrom16(a), bits)
	default:
		e.text = netip.AddrFrom16(a).String()
		if !bare {
			e.text += "/" + strconv.Itoa(bits)
		}
		e.pfx = netip.PrefixFrom(netip.AddrFrom16(a), bits)
	}
	return e
}

func (b *szB) single() szEnt {
	for {
		fam := b.pickFam()
		a := b.addr(fam)
		k := rule{a, 128}
		if b.seen[k] {
			continue
		}
		b.seen[k] = true
		return b.ent(fam, a, 128, b.r.Intn(2) == 0)
	}
}

// prefix: a rule that is not a single address. Host bits are kept half of the time.
func (b *szB) prefix() szEnt {
	for {
		fam := b.pickFam()
		var a a16
		var bits int
		if fam == "v6" {
			a = b.addr(fam)
			bits = 32 + b.r.Intn(96)
			if b.r.Intn(4) == 0 {
				bits = 16 + b.r.Intn(112)
			}
		} else {
			a = v4to16(u32to4(b.r.Uint32()))
			bits = 96 + 20 + b.r.Intn(12)
			if b.r.Intn(4) == 0 {
				bits = 96 + 8 + b.r.Intn(24)
			}
		}
		k := rule{firstOf(a, bits), bits}
		if b.seen[k] {
			continue
		}
		b.seen[k] = true
		if b.r.Intn(2) == 0 {
			a = k.base
		}
		return b.ent(fam, a, bits, false)
	}
}

// child: a rule inside parent (longer prefix or single address).
func (b *szB) child(fam string, parent rule) szEnt {
	a := firstOf(parent.base, parent.bits)
	var rnd a16
	b.r.Read(rnd[:])
	hm := lastOf(a16{}, parent.bits)
	for i := range a {
		a[i] |= rnd[i] & hm[i]
	}
	bits := 128
	if b.r.Intn(2) == 0 && parent.bits < 127 {
		bits = parent.bits + 1 + b.r.Intn(127-parent.bits)
	}
	return b.ent(fam, a, bits, bits == 128 && b.r.Intn(2) == 0)
}

// buildSizes regenerates the rules of a sizes case from its spec.
func buildSizes(sp *SizeSpec) error {
	if sp.N < 1 || sp.N > 1<<20 {
		return fmt.Errorf("sizes: bad n")
	}
	r := rand.New(rand.NewSource(sp.Seed))
	b := &szB{r: r, fam: sp.Fam, seen: map[rule]bool{}}
	for i := range b.reg6 {
		r.Read(b.reg6[i][:])
		b.reg6[i][0] = 0x20 | b.reg6[i][0]&0x1f
	}
	ok := false
	for _, f := range sizeFams {
		ok = ok || f == sp.Fam
	}
	if !ok {
		return fmt.Errorf("sizes: unknown family %q", sp.Fam)
	}
	n := sp.N
	var es []szEnt
	switch sp.Comp {
	case "singles":
		for len(es) < n {
			es = append(es, b.single())
		}
	case "prefixes":
		for len(es) < n {
			es = append(es, b.prefix())
		}
	case "mixed":
		for len(es) < n {
			if r.Intn(2) == 0 {
				es = append(es, b.single())
			} else {
				es = append(es, b.prefix())
			}
		}
	case "singles+1prefix":
		for len(es) < n-1 {
			es = append(es, b.single())
		}
		es = append(es, b.prefix())
	case "prefixes+1single":
		for len(es) < n-1 {
			es = append(es, b.prefix())
		}
		es = append(es, b.single())
	case "singles+dups": // n DISTINCT single addresses, and n/2+1 further copies of some of them
		for len(es) < n {
			es = append(es, b.single())
		}
		for k := n/2 + 1; k > 0; k-- {
			d := es[r.Intn(n)]
			// the copy in the other spelling (bare <-> /len)
			if i := strings.IndexByte(d.text, '/'); i >= 0 {
				d.text = d.text[:i]
			} else {
				d.text += "/" + strconv.Itoa(d.pfx.Bits())
			}
			es = append(es, d)
		}
	case "dups": // n rules, copies of 1..4 rules
		k := 1 + r.Intn(4)
		var base []szEnt
		for i := 0; i < k; i++ {
			if r.Intn(2) == 0 {
				base = append(base, b.single())
			} else {
				base = append(base, b.prefix())
			}
		}
		for len(es) < n {
			es = append(es, base[len(es)%k])
		}
	case "nested": // n rules inside 1..4 parents
		k := 1 + r.Intn(4)
		if k > n {
			k = n
		}
		type par struct {
			fam string
			r    rule
		}
		var ps []par
		for i := 0; i < k; i++ {
			fam := b.pickFam()
			var a a16
			var bits int
			if fam == "v6" {
				a, bits = b.addr(fam), 16+r.Intn(49)
			} else {
				a, bits = v4to16(u32to4(r.Uint32())), 96+8+r.Intn(13)
			}
			ps = append(ps, par{fam, rule{firstOf(a, bits), bits}})
			es = append(es, b.ent(fam, a, bits, false))
		}
		for len(es) < n {
			p := ps[r.Intn(k)]
			es = append(es, b.child(p.fam, p.r))
		}
	case "run": // n consecutive single addresses, crossing byte boundaries
		fam := b.pickFam()
		a := b.addr(fam)
		a[14], a[15] = 0xff, byte(0x100-(n/3)%200)
		for len(es) < n {
			es = append(es, b.ent(fam, a, 128, r.Intn(2) == 0))
			x, ok := inc(a)
			if !ok || (fam != "v6" && !isMapped(x)) {
				break
			}
			a = x
		}
	default:
		return fmt.Errorf("sizes: unknown composition %q", sp.Comp)
	}
	// order: as generated (random) / shuffled / ascending / descending
	switch r.Intn(4) {
	case 0:
		r.Shuffle(len(es), func(i, j int) { es[i], es[j] = es[j], es[i] })
	case 1, 2:
		asc := r.Intn(2) == 0
		sort.SliceStable(es, func(i, j int) bool {
			x := cmp16(firstOf(es[i].r.base, es[i].r.bits), firstOf(es[j].r.base, es[j].r.bits))
			if x == 0 {
				x = es[i].r.bits - es[j].r.bits
			}
			if asc {
				return x < 0
			}
			return x > 0
		})
	}
	sp.ents = es
	sp.Rules = len(es)
	sp.Head = nil
	for i := 0; i < len(es) && i < 6; i++ {
		sp.Head = append(sp.Head, es[i].text)
	}
	return nil
}

func genSizes(seed int64, idx int, n int, comp, fam string) (*Case, error) {
	cs := mix(seed, "sizes", idx)
	c := &Case{Phase: "sizes", Idx: idx, Seed: cs}
	sp := &SizeSpec{N: n, Comp: comp, Fam: fam, Seed: cs, Style: idx % 4}
	c.Sz = sp
	if err := buildSizes(sp); err != nil {
		return c, err
	}
	// guard of the generator: every text parses (standard library, trusted) to the rule the oracle uses
	step := 1
	if len(sp.ents) > 4000 {
		step = len(sp.ents) / 4000
	}
	for i := 0; i < len(sp.ents); i += step {
		e := &sp.ents[i]
		var p netip.Prefix
		var err error
		if strings.IndexByte(e.text, '/') >= 0 {
			p, err = netip.ParsePrefix(e.text)
		} else {
			var a netip.Addr
			a, err = netip.ParseAddr(e.text)
			if err == nil {
				p = netip.PrefixFrom(a, a.BitLen())
			}
		}
		if err != nil || p != e.pfx {
			return c, fmt.Errorf("sizes: text %q does not parse to %v (%v)", e.text, e.pfx, err)
		}
		var u rule
		if p.Addr().Is4() {
			u = rule{v4to16(p.Addr().As4()), p.Bits() + 96}
		} else {
			u = rule{p.Addr().As16(), p.Bits()}
		}
		if u != e.r {
			return c, fmt.Errorf("sizes: text %q is not the oracle's rule", e.text)
		}
	}
	// probes: a sample of the rules (always the lowest and the highest one), extremes, random
	r := rand.New(rand.NewSource(cs ^ 0x51e5))
	es := sp.ents
	pick := map[int]bool{}
	lo, hi := 0, 0
	for i := range es {
		if cmp16(firstOf(es[i].r.base, es[i].r.bits), firstOf(es[lo].r.base, es[lo].r.bits)) < 0 {
			lo = i
		}
		if cmp16(firstOf(es[i].r.base, es[i].r.bits), firstOf(es[hi].r.base, es[hi].r.bits)) > 0 {
			hi = i
		}
	}
	pick[lo], pick[hi] = true, true
	const maxSample = 140
	if len(es) <= maxSample {
		for i := range es {
			pick[i] = true
		}
	} else {
		for len(pick) < maxSample {
			pick[r.Intn(len(es))] = true
		}
	}
	idxs := make([]int, 0, len(pick))
	for i := range pick {
		idxs = append(idxs, i)
	}
	sort.Ints(idxs)
	for _, i := range idxs {
		rl := es[i].r
		f, l := firstOf(rl.base, rl.bits), lastOf(rl.base, rl.bits)
		tag := fmt.Sprintf(" of rule #%d %s", i, es[i].text)
		c.Probes = append(c.Probes, mkProbe(f, "first"+tag))
		if l != f {
			c.Probes = append(c.Probes, mkProbe(l, "last"+tag))
		}
		if x, ok := dec(f); ok {
			c.Probes = append(c.Probes, mkProbe(x, "before"+tag))
		}
		if x, ok := inc(l); ok {
			c.Probes = append(c.Probes, mkProbe(x, "after"+tag))
		}
	}
	for _, a := range fixedProbes {
		c.Probes = append(c.Probes, mkProbe(a, "fixed"))
	}
	g := &gen{r: r}
	for k := 0; k < 12; k++ {
		c.Probes = append(c.Probes, mkProbe(g.randAddr(k%2 == 0), "random"))
	}
	c.ready = true
	return c, nil
}

func (sp *SizeSpec) shape() string {
	return fmt.Sprintf("sizes|%d|%s|%s|%d", sp.N, sp.Comp, sp.Fam, sp.Seed)
}

func (sp *SizeSpec) describe() string {
	more := ""
	if sp.Rules > len(sp.Head) {
		more = fmt.Sprintf(" …+%d", sp.Rules-len(sp.Head))
	}
	return fmt.Sprintf("%d rules (size class %d, composition %s, family %s: [%s%s])", sp.Rules, sp.N, sp.Comp, sp.Fam, strings.Join(sp.Head, " "), more)
}

// ---- running a case ------------------------------------------------------------

func (e *env) sizeFile(k int, lines []string, finalNL bool) (string, error) {
	var sb strings.Builder
	for i, l := range lines {
		sb.WriteString(l)
		if i != len(lines)-1 || finalNL {
			sb.WriteByte('\n')
		}
	}
	return e.lineFile(20+k, []byte(sb.String()))
}

func (e *env) runSizes(c *Case, res *caseResult) {
	sp := c.Sz
	if sp.ents == nil {
		if err := buildSizes(sp); err != nil {
			res.harnessErr = err.Error()
			return
		}
	}
	es := sp.ents
	n := len(es)
	nSizesCases.Add(1)
	nSizesRules.Add(int64(n))
	rules := make([]rule, n)
	texts := make([]string, n)
	for i := range es {
		rules[i] = es[i].r
		texts[i] = es[i].text
		if es[i].pfx.Addr().Is4() {
			lenSeen4[es[i].pfx.Bits()].Add(1)
		} else {
			lenSeen6[es[i].pfx.Bits()].Add(1)
		}
	}
	want := rulesUnion(append([]rule(nil), rules...))

	qs := make([]query, 0, len(c.Probes)*2)
	exp := make([]bool, len(c.Probes))
	var members int64
	for i := range c.Probes {
		p := c.Probes[i].a
		exp[i] = oracleContains(rules, p)
		if exp[i] {
			res.nTrue++
		} else {
			res.nFalse++
		}
		if strings.HasPrefix(c.Probes[i].Role, "first") || strings.HasPrefix(c.Probes[i].Role, "last") {
			members++
		}
		qs = append(qs, query{netip.AddrFrom16(p), i, "v6"})
		if isMapped(p) {
			var b4 [4]byte
			copy(b4[:], p[12:])
			qs = append(qs, query{netip.AddrFrom4(b4), i, "v4"})
		}
	}
	nSizesMemberProbes.Add(members)

	var member, structural []finding
	judge := func(layer, path string, m matcher, lists []*netlist.List) {
		nSizesLoads.Add(1)
		sizesMu.Lock()
		sizesByPath[path]++
		sizesMu.Unlock()
		bad, nBad, nBadMember := -1, 0, 0
		var mt, nf int64
		for qi, q := range qs {
			g := m.Match(q.addr)
			if g != exp[q.probe] {
				if bad < 0 {
					bad = qi
				}
				nBad++
				if exp[q.probe] {
					nBadMember++
				}
			} else if g {
				mt++
			} else {
				nf++
			}
		}
		nSizesQueries.Add(int64(len(qs)))
		nSizesMemberTrue.Add(mt)
		nSizesNonMemberFalse.Add(nf)
		if bad >= 0 {
			q := qs[bad]
			kind := "false-negative"
			if !exp[q.probe] {
				kind = "false-positive"
			}
			member = append(member, finding{layer, "sizes-" + layer + "-" + kind,
				fmt.Sprintf("set of %s loaded through %s: Match(%v) [probe: %s, %s form of %s] = %v, but the linear scan over the loaded rules gives %v; in all %d of %d queries answered wrongly (%d of them about addresses the rules cover)",
					sp.describe(), path, q.addr, c.Probes[q.probe].Role, q.form, show16(c.Probes[q.probe].a), !exp[q.probe], exp[q.probe], nBad, len(qs), nBadMember)})
		}
		if lists == nil {
			return
		}
		var all []rule
		for _, l := range lists {
			ents, sorted := l.VerifEntries()
			nSizesStruct.Add(1)
			rs, sf := checkEntries(ents, sorted)
			if sf != nil {
				structural = append(structural, finding{layer, "sizes-struct-" + sf.kind,
					fmt.Sprintf("set of %s loaded through %s: after Sort: %s", sp.describe(), path, sf.detail)})
				return
			}
			if l.Len() != len(ents) {
				structural = append(structural, finding{layer, "sizes-struct-len", fmt.Sprintf("set of %s loaded through %s: Len()=%d but %d entries", sp.describe(), path, l.Len(), len(ents))})
			}
			all = append(all, rs...)
		}
		if path == "List.Append" {
			sizesMu.Lock()
			sizesEntriesAfterSort[pow2Bucket(len(all))]++
			sizesMu.Unlock()
		}
		if len(lists) == 0 && n > 0 {
			nSizesDroppedGroups.Add(1)
		}
		if got := rulesUnion(all); !sameUnion(got, want) {
			// the entries that can be seen do not cover what the rules cover. What C13
			// states is membership: ask about the addresses where the two differ.
			nSizesUnionDiffers.Add(1)
			for _, a := range unionDiffWitnesses(got, want) {
				ex := oracleContains(rules, a)
				if g := m.Match(netip.AddrFrom16(a)); g != ex {
					kind := "false-negative"
					if !ex {
						kind = "false-positive"
					}
					member = append(member, finding{layer, "sizes-" + layer + "-" + kind,
						fmt.Sprintf("set of %s loaded through %s: the sorted entries of its %d list(s) cover %s but the rules cover %s; Match(%s) = %v, the linear scan over the loaded rules gives %v",
							sp.describe(), path, len(lists), showUnion(got), showUnion(want), show16(a), g, ex)})
					return
				}
			}
			nSizesUnionDiffersMembershipHolds.Add(1)
		}
	}
	refused := func(path string, err error) {
		if isHarnessErr(err) {
			res.harnessErr = err.Error()
			return
		}
		res.loadErrs = append(res.loadErrs, fmt.Sprintf("sizes/%s rejected a well-formed set of %d rules: %v", path, n, err))
	}

	// ---- layer list ----
	{
		l := netlist.NewList()
		ps := make([]netip.Prefix, n)
		for i := range es {
			ps[i] = es[i].pfx
		}
		l.Append(ps...)
		l.Sort()
		judge("list", "List.Append", l, []*netlist.List{l})
	}
	{
		l := netlist.NewList()
		if err := netlist.LoadFromReader(l, strings.NewReader(strings.Join(texts, "\n")+"\n")); err != nil {
			refused("LoadFromReader", err)
		} else {
			l.Sort()
			judge("list", "LoadFromReader", l, []*netlist.List{l})
		}
	}
	// ---- layer ips ----
	{
		l := netlist.NewList()
		if err := ip_set.LoadFromIPs(texts, l); err != nil {
			refused("LoadFromIPs", err)
		} else {
			l.Sort()
			judge("ips", "ip_set.LoadFromIPs", l, []*netlist.List{l})
		}
	}
	// ---- files used by the layers below: all rules in 1..3 files / the second half in one file ----
	nf := 1 + c.Idx%3
	var files []string
	for f := 0; f < nf; f++ {
		p, err := e.sizeFile(f, texts[n*f/nf:n*(f+1)/nf], (c.Idx+f)%2 == 0)
		if err != nil {
			res.harnessErr = "harness: " + err.Error()
			return
		}
		files = append(files, p)
	}
	half := n / 2
	halfFile, err := e.sizeFile(5, texts[half:], c.Idx%2 == 1)
	if err != nil {
		res.harnessErr = "harness: " + err.Error()
		return
	}
	// ---- layer plugin ----
	e.ensureMos()
	e.clearPlugins()
	type plug struct {
		path              string
		ips, files, sets  []string
		subIPs, subFiles  []string
	}
	for _, pl := range []plug{
		{path: "ip_set plugin (ips)", ips: texts},
		{path: fmt.Sprintf("ip_set plugin (%d files)", nf), files: files},
		{path: "ip_set plugin (first half ips + second half in a file)", ips: texts[:half], files: []string{halfFile}},
		{path: "ip_set plugin (sets only -> ip_set with ips)", sets: []string{"szsub"}, subIPs: texts},
		{path: "ip_set plugin (sets only -> ip_set with files)", sets: []string{"szsub"}, subFiles: files},
	} {
		delete(e.plugins, "szsub")
		if pl.sets != nil {
			if _, _, _, err := e.buildIPSet("szsub", pl.subIPs, pl.subFiles, nil, sp.Style); err != nil {
				refused(pl.path+" [referenced set]", err)
				continue
			}
		}
		mm, lists, st, err := e.buildIPSet("szmain", pl.ips, pl.files, pl.sets, sp.Style)
		if err != nil {
			refused(pl.path, err)
			continue
		}
		judge("plugin", pl.path+", args as YAML ("+st+" scalars)", mm, lists)
	}
	// ---- layer matcher: anonymous sets of the three IP matchers ----
	delete(e.plugins, "szsub")
	if _, _, _, err := e.buildIPSet("szsub", texts, nil, nil, sp.Style); err != nil {
		refused("ip_set plugin (ips) [for $szsub]", err)
	}
	inline := strings.Join(texts, " ")
	for mi, typ := range matcherTypes {
		var exprs []struct{ path, expr string }
		exprs = append(exprs, struct{ path, expr string }{typ + " (all rules inline)", inline})
		// the other spellings rotate over the matcher types
		switch (c.Idx + mi) % 3 {
		case 0:
			exprs = append(exprs, struct{ path, expr string }{typ + " (&file …)", "&" + strings.Join(files, " &")})
		case 1:
			exprs = append(exprs, struct{ path, expr string }{typ + " (first half inline + &file)", strings.Join(texts[:half], " ") + " &" + halfFile})
		default:
			if e.plugins["szsub"] != nil {
				exprs = append(exprs, struct{ path, expr string }{typ + " ($set)", "$szsub"})
			}
		}
		for _, x := range exprs {
			m, err := e.quickMatcher(typ, x.expr)
			if err != nil {
				refused(x.path, err)
				continue
			}
			judge("matcher", x.path, m, nil)
		}
	}

	switch {
	case len(member) > 0:
		res.findings = append(res.findings, member[0])
	case len(structural) > 0:
		res.findings = append(res.findings, structural[0])
	}
	res.extNT = len(res.findings) == 0 && res.nTrue > 0 && res.nFalse > 0
	if res.extNT {
		nSizesNontriv.Add(1)
	}
	sizesMu.Lock()
	sizesByClass[sizeClassName(sp.N)]++
	sizesByComp[sp.Comp]++
	sizesByFam[sp.Fam]++
	if res.extNT && len(sizesSamples) < 3 && n >= 200 {
		sizesSamples = append(sizesSamples, map[string]any{"idx": c.Idx, "set": sp.describe(), "probes": len(c.Probes),
			"expected_contained": res.nTrue, "expected_not_contained": res.nFalse, "all_load_paths_agreed_with_oracle": true})
	}
	sizesMu.Unlock()
}

// unionDiffWitnesses: addresses around the first place where two interval lists differ.
func unionDiffWitnesses(a, b []interval) []a16 {
	var out []a16
	i := 0
	for i < len(a) && i < len(b) && a[i] == b[i] {
		i++
	}
	for _, l := range [][]interval{a, b} {
		for k := i; k < len(l) && k < i+2; k++ {
			out = append(out, l[k].lo, l[k].hi)
		}
	}
	return out
}

func sizesEvidence() {
	rep.Count("sizes_cases", nSizesCases.Load())
	rep.Count("sizes_cases_nontrivial", nSizesNontriv.Load())
	rep.Count("sizes_rules_generated", nSizesRules.Load())
	rep.Count("sizes_loads_compared", nSizesLoads.Load())
	rep.Count("sizes_queries", nSizesQueries.Load())
	rep.Count("sizes_probes_of_loaded_rules", nSizesMemberProbes.Load())
	rep.Count("sizes_queries_answered_contained_as_expected", nSizesMemberTrue.Load())
	rep.Count("sizes_queries_answered_not_contained_as_expected", nSizesNonMemberFalse.Load())
	rep.Count("sizes_struct_checks", nSizesStruct.Load())
	rep.Count("sizes_plugin_groups_without_any_list", nSizesDroppedGroups.Load())
	rep.Count("sizes_visible_entries_differ_from_rules", nSizesUnionDiffers.Load())
	rep.Count("sizes_visible_entries_differ_but_membership_holds_not_judged", nSizesUnionDiffersMembershipHolds.Load())
	sizesMu.Lock()
	rep.Extra("sizes_cases_per_size_class", sizesByClass)
	rep.Extra("sizes_cases_per_composition", sizesByComp)
	rep.Extra("sizes_cases_per_family", sizesByFam)
	rep.Extra("sizes_loads_per_path", sizesByPath)
	rep.Extra("sizes_entries_after_sort", sizesEntriesAfterSort)
	rep.Extra("sizes_sample_sets", sizesSamples)
	sizesMu.Unlock()
}

func sizesDemands() {
	if nSizesCases.Load() == 0 {
		return
	}
	sizesMu.Lock()
	defer sizesMu.Unlock()
	for _, k := range sizeComps {
		if sizesByComp[k] == 0 {
			rep.Inconclusive("sizes: no set of composition %q was run", k)
		}
	}
	for _, k := range sizeFams {
		if sizesByFam[k] == 0 {
			rep.Inconclusive("sizes: no set of family %q was run", k)
		}
	}
	if nSizesMemberTrue.Load() == 0 || nSizesNonMemberFalse.Load() == 0 || nSizesStruct.Load() == 0 || nSizesNontriv.Load() == 0 {
		rep.Inconclusive("sizes: a monitor observed nothing (contained=%d not contained=%d struct=%d nontrivial=%d)",
			nSizesMemberTrue.Load(), nSizesNonMemberFalse.Load(), nSizesStruct.Load(), nSizesNontriv.Load())
	}
	for _, typ := range matcherTypes {
		if sizesByPath[typ+" (all rules inline)"] == 0 {
			rep.Inconclusive("sizes: matcher %s never accepted a set", typ)
		}
	}
}
