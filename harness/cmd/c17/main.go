// C17 — truncated UDP replies are retried over TCP.
//
// A harness DNS server listens on UDP and TCP on the same loopback port. Every
// query has a unique question; the UDP reply's 16-bit flag word is the case.
// The oracle knows which listener saw the query and which bytes were returned.
package main

import (
	"bytes"
	"context"
	"encoding/binary"
	"fmt"
	"io"
	"math/rand"
	"net"
	"os"
	"sync"
	"sync/atomic"
	"syscall"
	"time"

	"github.com/IrineSistiana/mosdns/v5/pkg/pool"
	"github.com/IrineSistiana/mosdns/v5/pkg/upstream"

	"verifharness/lib/dnsadv"
	"verifharness/lib/evid"
	"verifharness/lib/poolsan"
	"verifharness/lib/wire"
)

var (
	rep     *evid.Reporter
	caselog *evid.CaseLog
	seqCtr  atomic.Int64
)

type caseT struct {
	Seq     int    `json:"seq"`
	Flags   uint16 `json:"udp_reply_flags"`
	Pad     int    `json:"udp_reply_pad"` // -1: the UDP reply is a bare 12-byte header
	TCPMode string `json:"tcp_mode"`      // answer | close | none | garbage | slowclose
	ID      uint16 `json:"caller_id"`
	// abandoned-retry sequences: the TCP side answers after TCPDelayMs, the caller's
	// context lasts CtxMs (0 = 5 s)
	// TCPFlags != 0: header flags of the TCP reply (default 0x8180); the TCP reply is
	// final whatever its flags say, TC included
	TCPFlags uint16 `json:"tcp_reply_flags,omitempty"`
	// Size > 0: the UDP reply is exactly this many bytes long (Pad is ignored)
	Size       int `json:"udp_reply_size,omitempty"`
	TCPDelayMs int `json:"tcp_delay_ms,omitempty"`
	CtxMs      int `json:"ctx_ms,omitempty"`
}

type obs struct {
	mu       sync.Mutex
	udpSeen  int
	udpQuery []byte
	udpReply []byte
	tcpConns int
	tcpQuery []byte
	tcpReply []byte
}

type server struct {
	mode   string // tcp behaviour of this server
	pc     net.PacketConn
	ln     net.Listener
	holdFd int // mode "none": bound, not listening tcp socket that keeps the port
	addr   string
	mu     sync.Mutex
	cases  map[int]*caseT
	obs    map[int]*obs
}

func (s *server) get(seq int) (*caseT, *obs) {
	s.mu.Lock()
	defer s.mu.Unlock()
	return s.cases[seq], s.obs[seq]
}

func newServer(mode string) (*server, error) {
	s := &server{mode: mode, cases: map[int]*caseT{}, obs: map[int]*obs{}}
	for try := 0; try < 50; try++ {
		pc, err := net.ListenPacket("udp", "127.0.0.1:0")
		if err != nil {
			return nil, err
		}
		port := pc.LocalAddr().(*net.UDPAddr).Port
		if mode == "none" {
			// Nothing may listen on the TCP port for as long as this server lives: a
			// socket that is bound but never listens keeps the port (connections to
			// it are reset) - a port that was only probed and released can be handed
			// to any other process on the machine, whose server then answers.
			fd, err := syscall.Socket(syscall.AF_INET, syscall.SOCK_STREAM|syscall.SOCK_CLOEXEC, 0)
			if err != nil {
				pc.Close()
				return nil, err
			}
			if err := syscall.Bind(fd, &syscall.SockaddrInet4{Port: port, Addr: [4]byte{127, 0, 0, 1}}); err != nil {
				syscall.Close(fd)
				pc.Close()
				continue
			}
			s.holdFd = fd
			s.pc, s.addr = pc, fmt.Sprintf("127.0.0.1:%d", port)
			break
		}
		ln, err := net.Listen("tcp", fmt.Sprintf("127.0.0.1:%d", port))
		if err != nil {
			pc.Close()
			continue
		}
		s.pc, s.ln, s.addr = pc, ln, fmt.Sprintf("127.0.0.1:%d", port)
		break
	}
	if s.pc == nil {
		return nil, fmt.Errorf("no port")
	}
	go s.serveUDP()
	if s.ln != nil {
		go s.serveTCP()
	}
	return s, nil
}

func (s *server) serveUDP() {
	buf := make([]byte, 65535)
	for {
		n, from, err := s.pc.ReadFrom(buf)
		if err != nil {
			return
		}
		q := append([]byte(nil), buf[:n]...)
		qi, err := dnsadv.ParseQuery(q)
		if err != nil {
			continue
		}
		c, o := s.get(qi.Seq)
		if c == nil {
			continue
		}
		o.mu.Lock()
		o.udpSeen++
		first := o.udpSeen == 1
		if first {
			o.udpQuery = q
			if c.Pad < 0 {
				// header-only reply: 12 bytes, zero counts (the smallest valid DNS message)
				o.udpReply = make([]byte, 12)
				binary.BigEndian.PutUint16(o.udpReply, qi.WireID)
				binary.BigEndian.PutUint16(o.udpReply[2:], c.Flags)
			} else if c.Size > 0 {
				o.udpReply = replyOfSize(qi, c.Flags, c.Size)
				if len(o.udpReply) != c.Size {
					rep.Inconclusive("harness: could not build a reply of exactly %d bytes (got %d)", c.Size, len(o.udpReply))
				}
			} else {
				o.udpReply = dnsadv.Reply(qi.WireID, c.Flags, qi.QSect, fmt.Sprintf("udp/q%d", qi.Seq), c.Pad, byte(qi.Seq))
			}
		}
		// a resend gets the same reply with the resend's wire id
		r := append([]byte(nil), o.udpReply...)
		binary.BigEndian.PutUint16(r, qi.WireID)
		o.mu.Unlock()
		s.pc.WriteTo(r, from)
	}
}

// replyOfSize builds a well-formed reply of exactly size bytes (padding TXT).
func replyOfSize(qi dnsadv.QueryInfo, flags uint16, size int) []byte {
	tok := fmt.Sprintf("udp/q%d", qi.Seq)
	pad := size - len(dnsadv.Reply(qi.WireID, flags, qi.QSect, tok, 1, 0)) + 1
	for try := 0; try < 600 && pad > 0; try++ {
		r := dnsadv.Reply(qi.WireID, flags, qi.QSect, tok, pad, byte(qi.Seq))
		if len(r) == size {
			return r
		}
		if len(r) > size {
			pad--
		} else {
			pad++
		}
	}
	// sizes a TXT chunk boundary makes unreachable: lengthen the token instead
	for len(tok) < 200 {
		tok += "x"
		pad = size - len(dnsadv.Reply(qi.WireID, flags, qi.QSect, tok, 1, 0)) + 1
		for try := 0; try < 8 && pad > 0; try++ {
			r := dnsadv.Reply(qi.WireID, flags, qi.QSect, tok, pad, byte(qi.Seq))
			if len(r) == size {
				return r
			}
			pad += size - len(r)
		}
	}
	return dnsadv.Reply(qi.WireID, flags, qi.QSect, tok, 0, 0)
}

func (s *server) serveTCP() {
	for {
		conn, err := s.ln.Accept()
		if err != nil {
			return
		}
		go func(conn net.Conn) {
			defer conn.Close()
			onConn := 0 // queries received on this connection
			for {
				conn.SetDeadline(time.Now().Add(10 * time.Second))
				hdr := make([]byte, 2)
				if _, err := io.ReadFull(conn, hdr); err != nil {
					return
				}
				q := make([]byte, binary.BigEndian.Uint16(hdr))
				if _, err := io.ReadFull(conn, q); err != nil {
					return
				}
				qi, err := dnsadv.ParseQuery(q)
				if err != nil {
					return
				}
				c, o := s.get(qi.Seq)
				if c == nil {
					return
				}
				onConn++
				o.mu.Lock()
				o.tcpConns++
				o.tcpQuery = q
				var r []byte
				if s.mode == "flaky" && onConn > 1 {
					// the query is read completely, then the connection is closed unanswered
					o.mu.Unlock()
					return
				}
				if s.mode == "answer" || s.mode == "flaky" {
					tf := uint16(0x8180)
					if c.TCPFlags != 0 {
						tf = c.TCPFlags
					}
					r = dnsadv.Reply(qi.WireID, tf, qi.QSect, fmt.Sprintf("tcp/q%d", qi.Seq), 900+qi.Seq%700, byte(qi.Seq>>3))
					o.tcpReply = r
				}
				o.mu.Unlock()
				switch s.mode {
				case "answer", "flaky":
					if c.TCPDelayMs > 0 {
						time.Sleep(time.Duration(c.TCPDelayMs) * time.Millisecond)
					}
					conn.Write(wire.Frame(r))
				case "close":
					return
				case "garbage":
					conn.Write([]byte{0, 5, 1, 2, 3, 4, 5}) // frame shorter than a header
					return
				case "halfreply":
					conn.Write([]byte{0, 200, 1, 2, 3})
					return
				}
			}
		}(conn)
	}
}

func runCase(s *server, u upstream.Upstream, c *caseT) {
	o := &obs{}
	s.mu.Lock()
	s.cases[c.Seq] = c
	s.obs[c.Seq] = o
	s.mu.Unlock()
	defer func() {
		s.mu.Lock()
		delete(s.cases, c.Seq)
		delete(s.obs, c.Seq)
		s.mu.Unlock()
	}()
	q := dnsadv.Query(c.ID, c.Seq, 17, "c17", 1)
	qcopy := append([]byte(nil), q...)
	ctxDur := 5 * time.Second
	if c.CtxMs > 0 {
		ctxDur = time.Duration(c.CtxMs) * time.Millisecond
	}
	ctx, cancel := context.WithTimeout(context.Background(), ctxDur)
	rb, err := u.ExchangeContext(ctx, q)
	cancel()
	rep.Eval(1)
	if c.CtxMs > 0 && err != nil {
		// the caller's context ended first: an error is all the statement asks for
		rep.Count("abandoned_calls_returned_error", 1)
		return
	}
	o.mu.Lock()
	defer o.mu.Unlock()
	tc := c.Flags&0x0200 != 0
	cls := "tc-clear"
	if tc {
		cls = "tc-set-tcp-" + s.mode
	}
	wit := map[string]any{"case": c, "tcp_side": s.mode, "udp_queries_seen": o.udpSeen, "tcp_queries_seen": o.tcpConns, "error": fmt.Sprint(err)}
	if !bytes.Equal(q, qcopy) {
		rep.Violation("query-buffer-modified", "ExchangeContext modified the caller's query", wit)
	}
	var got []byte
	if err == nil && rb == nil {
		rep.Violation("nil-reply-without-error-"+cls, "ExchangeContext returned (nil, nil): neither a reply nor an error", wit)
		return
	}
	if err == nil {
		if !poolsan.Check(rb, "c17 reply") {
			return
		}
		got = append([]byte(nil), *rb...)
		pool.ReleaseBuf(rb)
		wit["returned_hex"] = fmt.Sprintf("%x", trunc(got, 96))
	}
	if o.udpSeen == 0 {
		rep.Inconclusive("case %+v: the UDP listener never saw the query (err=%v)", c, err)
		return
	}
	expectUDP := append([]byte(nil), o.udpReply...)
	binary.BigEndian.PutUint16(expectUDP, c.ID)
	switch {
	case !tc:
		if o.tcpConns > 0 {
			rep.Violation("tcp-opened-without-tc", fmt.Sprintf("UDP reply flags %#04x have TC clear but the query was also sent over TCP", c.Flags), wit)
			return
		}
		if err != nil {
			rep.Violation("untruncated-udp-reply-not-returned", fmt.Sprintf("UDP reply flags %#04x (TC clear) was received but the call failed: %v", c.Flags, err), wit)
			return
		}
		if !bytes.Equal(got, expectUDP) {
			rep.Violation("untruncated-udp-reply-altered", "the returned reply differs from the UDP reply the server sent", wit)
			return
		}
		rep.Count("tc_clear_returned_udp_reply_unchanged", 1)
	case tc && (s.mode == "answer" || s.mode == "flaky"):
		if o.tcpConns == 0 {
			key := "tc-set-no-tcp-retry"
			if err == nil && bytes.Equal(got, expectUDP) {
				key = "tc-set-truncated-udp-reply-returned-without-tcp"
			}
			rep.Violation(key, fmt.Sprintf("UDP reply flags %#04x have TC set but the TCP listener never received the query", c.Flags), wit)
			return
		}
		if !bytes.Equal(o.tcpQuery[2:], qcopy[2:]) {
			rep.Violation("tcp-query-differs", "the query sent over TCP is not the caller's query", wit)
			return
		}
		if err != nil {
			rep.Violation("tc-set-tcp-reply-not-returned", fmt.Sprintf("TCP answered but the call failed: %v", err), wit)
			return
		}
		expectTCP := append([]byte(nil), o.tcpReply...)
		binary.BigEndian.PutUint16(expectTCP, binary.BigEndian.Uint16(o.tcpQuery)) // server echoes the wire id it got
		if !bytes.Equal(got, expectTCP) {
			key := "tc-set-wrong-reply-returned"
			if bytes.Equal(got, expectUDP) {
				key = "tc-set-truncated-udp-reply-returned-although-tcp-answered"
			}
			rep.Violation(key, "TC was set and TCP answered, but the call did not return the TCP reply", wit)
			return
		}
		if binary.BigEndian.Uint16(got) != c.ID {
			rep.Violation("tcp-reply-id-mismatch", "reply ID differs from the caller's", wit)
			return
		}
		if o.tcpConns != 1 && s.mode == "answer" {
			rep.Violation("query-sent-over-tcp-more-than-once", fmt.Sprintf("the query was sent %d times over TCP although the first TCP query was answered", o.tcpConns), wit)
			return
		}
		rep.Count("tc_set_returned_tcp_reply", 1)
		if c.TCPFlags != 0 {
			rep.Count("tcp_replies_with_arbitrary_flags_returned", 1)
			if c.TCPFlags&0x0200 != 0 {
				rep.Count("tcp_replies_with_tc_set_returned_as_final", 1)
			}
		}
	default: // TC set, TCP side fails
		if s.mode != "none" && o.tcpConns == 0 {
			rep.Violation("tc-set-no-tcp-retry", fmt.Sprintf("UDP reply flags %#04x have TC set but the TCP listener never received the query", c.Flags), wit)
			return
		}
		if err == nil && !bytes.Equal(got, expectUDP) {
			// statement is silent on what to return when TCP fails: an error or (leniently) the truncated reply; nothing else
			rep.Violation("tc-set-tcp-failed-foreign-reply", "TCP side failed and the call returned a reply that is neither an error nor the truncated UDP reply", wit)
			return
		}
		rep.Count("tc_set_tcp_failed_outcome_ok", 1)
	}
	rep.Nontrivial(fmt.Sprintf("%s|flags%04x|pad%d", cls, c.Flags, (c.Pad+300)/300))
	if c.Pad < 0 {
		rep.Count("header_only_udp_replies_judged", 1)
	}
	rep.SetAdd("flag_words", fmt.Sprintf("%04x", c.Flags))
	if rep.WantSample() && c.Seq%97 == 0 {
		rep.Sample(wit)
	}
}

// sharedBufferPhase: ExchangeContext "MUST NOT keep or modify m", so callers may
// share one packed query between concurrent calls. 8 goroutines share ONE query
// buffer against an always-TC UDP side; a watcher samples the buffer while the
// calls run. Oracle: the buffer never differs from the original, every query the
// TCP listener receives is byte-identical to it, every returned reply carries
// the caller's ID.
func sharedBufferPhase(s *server, u upstream.Upstream) {
	seq := int(seqCtr.Add(1))
	c := &caseT{Seq: seq, Flags: 0x8380, Pad: 40, TCPMode: "answer", ID: 0xBEEF} // TC set
	o := &obs{}
	s.mu.Lock()
	s.cases[seq] = c
	s.obs[seq] = o
	s.mu.Unlock()
	q := dnsadv.Query(c.ID, seq, 99, "c17", 1)
	orig := append([]byte(nil), q...)
	stop := make(chan struct{})
	var modified atomic.Int64
	go func() {
		for {
			select {
			case <-stop:
				return
			default:
			}
			if !bytes.Equal(q, orig) {
				modified.Add(1)
			}
		}
	}()
	var wg sync.WaitGroup
	var wrongID, foreignTCP, okN atomic.Int64
	for g := 0; g < 8; g++ {
		wg.Add(1)
		go func() {
			defer wg.Done()
			for i := 0; i < 150; i++ {
				ctx, cancel := context.WithTimeout(context.Background(), 5*time.Second)
				rb, err := u.ExchangeContext(ctx, q)
				cancel()
				rep.Eval(1)
				if err != nil || rb == nil {
					continue
				}
				okN.Add(1)
				if binary.BigEndian.Uint16(*rb) != c.ID {
					wrongID.Add(1)
				}
				pool.ReleaseBuf(rb)
				o.mu.Lock()
				if o.tcpQuery != nil && !bytes.Equal(o.tcpQuery[2:], orig[2:]) {
					foreignTCP.Add(1)
				}
				o.mu.Unlock()
			}
		}()
	}
	wg.Wait()
	close(stop)
	wit := map[string]any{"scenario": "8 concurrent calls share one query buffer; UDP always answers TC", "calls_ok": okN.Load(), "buffer_seen_modified": modified.Load(), "replies_with_wrong_id": wrongID.Load(), "tcp_queries_differing_from_callers_query": foreignTCP.Load()}
	switch {
	case modified.Load() > 0:
		rep.Violation("query-buffer-modified-during-call", "the caller's query buffer was observed modified while ExchangeContext calls were running on it (shared by concurrent callers)", wit)
	case foreignTCP.Load() > 0:
		rep.Violation("tcp-query-differs-shared-buffer", "the query retried over TCP is not the caller's query", wit)
	case wrongID.Load() > 0:
		rep.Violation("tcp-reply-id-mismatch-shared-buffer", "a returned reply carries an ID that is not the caller's", wit)
	default:
		rep.Count("shared_buffer_calls_ok", okN.Load())
		if okN.Load() > 0 {
			rep.Nontrivial("shared-buffer|tc")
		}
	}
}

// sizeBoundaries: UDP replies whose exact length sits on and around every size
// class a receive path might care about (512, 1232, 4 KiB, 8 KiB ... up to 65 000 bytes: "any size"), with TC clear
// and TC set. "Replies without TC are returned as they
// are and no TCP connection is opened for them."
func sizeBoundaries(servers map[string]*server, ups map[string]upstream.Upstream, rng *rand.Rand) {
	sizes := []int{100, 511, 512, 513, 1231, 1232, 1233, 2047, 2048, 2049, 4000, 4093, 4094, 4095, 4096, 4097, 8191, 8192, 16384, 32768, 65000}
	for _, size := range sizes {
		for _, tc := range []bool{false, true} {
			for _, mode := range []string{"answer", "none"} {
				f := uint16(0x8180)
				if tc {
					f |= 0x0200
				}
				c := &caseT{Seq: int(seqCtr.Add(1)), Flags: f, Size: size, TCPMode: mode, ID: uint16(rng.Intn(65536))}
				caselog.Log(map[string]any{"size_boundary": c})
				runCase(servers[mode], ups[mode], c)
				rep.Count(fmt.Sprintf("size_boundary_cases:%d", size), 1)
			}
		}
	}
}

// flakyTCPReuse: the TCP side answers the first query of every connection and
// closes, unanswered, on the second one (after reading it completely). A
// sequence of truncated exchanges on one upstream therefore keeps hitting reused
// connections that die under the query; the upstream must send the same query
// again over a new connection to the same server and return that reply.
func flakyTCPReuse(rng *rand.Rand) {
	s, err := newServer("flaky")
	if err != nil {
		rep.Inconclusive("flaky tcp: cannot start server: %v", err)
		return
	}
	u, err := upstream.NewUpstream("udp://"+s.addr, upstream.Opt{})
	if err != nil {
		rep.Inconclusive("flaky tcp: NewUpstream: %v", err)
		return
	}
	defer u.Close()
	for i := 0; i < rep.Pick(40, 400); i++ {
		c := &caseT{Seq: int(seqCtr.Add(1)), Flags: 0x8380 | uint16(rng.Intn(16)), Pad: []int{0, 50, 1100}[rng.Intn(3)], TCPMode: "flaky", ID: uint16(rng.Intn(65536))}
		caselog.Log(map[string]any{"flaky_tcp_reuse": c})
		runCase(s, u, c)
		rep.Count("tc_queries_against_a_tcp_side_that_kills_reused_connections", 1)
	}
}

// abandonedRetries: sequences on ONE upstream in which some TCP retries are
// abandoned (the caller's context ends before the delayed TCP reply) and the late
// reply arrives while the connection is idle again; the following truncated
// queries reuse that connection and must each get the TCP reply to their own
// query.
func abandonedRetries(s *server, rng *rand.Rand) {
	for round := 0; round < rep.Pick(3, 20); round++ {
		u, err := upstream.NewUpstream("udp://"+s.addr, upstream.Opt{})
		if err != nil {
			rep.Inconclusive("abandoned retries: NewUpstream: %v", err)
			return
		}
		steps := 2 + rng.Intn(3)
		for st := 0; st < steps; st++ {
			ab := &caseT{Seq: int(seqCtr.Add(1)), Flags: 0x8380, Pad: 30, TCPMode: "answer", ID: uint16(rng.Intn(65536)), TCPDelayMs: 200 + rng.Intn(100), CtxMs: 60 + rng.Intn(60)}
			caselog.Log(map[string]any{"abandoned_retry": ab})
			runCase(s, u, ab)
			// let the late reply arrive and the connection go back to the idle pool
			time.Sleep(time.Duration(ab.TCPDelayMs+120) * time.Millisecond)
			for k := 0; k < 1+rng.Intn(3); k++ {
				c := &caseT{Seq: int(seqCtr.Add(1)), Flags: 0x8380 | uint16(rng.Intn(16)), Pad: []int{0, 50, 1100}[rng.Intn(3)], TCPMode: "answer", ID: uint16(rng.Intn(65536))}
				caselog.Log(map[string]any{"after_abandoned_retry": c})
				runCase(s, u, c)
				rep.Count("tc_queries_after_an_abandoned_tcp_retry", 1)
			}
		}
		u.Close()
	}
}

// optionVariants: the same server reached through udp upstreams created with
// every option NewUpstream accepts — those documented as meaningless for plain
// UDP (socks5, pipelining, http3, bootstrap with an IP address) and dial_addr
// spellings of the server's own address. None of them may change where the
// query or its TCP retry goes: the harness server must see the UDP query and,
// for TC replies, the TCP retry; a recorder standing in for the "other host"
// (the socks5 address) must see nothing.
func optionVariants(s *server, rng *rand.Rand) {
	rec, err := net.Listen("tcp", "127.0.0.1:0")
	if err != nil {
		rep.Inconclusive("option variants: cannot listen: %v", err)
		return
	}
	defer rec.Close()
	var recConns atomic.Int64
	go func() {
		for {
			c, err := rec.Accept()
			if err != nil {
				return
			}
			recConns.Add(1)
			c.Close()
		}
	}()
	host, _, _ := net.SplitHostPort(s.addr)
	variants := []struct {
		name string
		opt  upstream.Opt
	}{
		{"socks5", upstream.Opt{Socks5: rec.Addr().String()}},
		{"dial_addr=same", upstream.Opt{DialAddr: s.addr}},
		{"dial_addr=host-only", upstream.Opt{DialAddr: host}},
		{"enable_pipeline", upstream.Opt{EnablePipeline: true}},
		{"enable_http3", upstream.Opt{EnableHTTP3: true}},
		{"idle_timeout", upstream.Opt{IdleTimeout: time.Second}},
		{"bootstrap", upstream.Opt{Bootstrap: rec.Addr().String()}},
		{"everything", upstream.Opt{Socks5: rec.Addr().String(), DialAddr: s.addr, EnablePipeline: true, EnableHTTP3: true, IdleTimeout: time.Second, Bootstrap: rec.Addr().String()}},
	}
	pads := []int{0, 50, 1100}
	for _, v := range variants {
		u, err := upstream.NewUpstream("udp://"+s.addr, v.opt)
		if err != nil {
			// refusing an option outright is not a silent redirection
			rep.Count("option_variant_refused_at_creation:"+v.name, 1)
			continue
		}
		before := recConns.Load()
		for i := 0; i < rep.Pick(48, 400); i++ {
			f := uint16(rng.Intn(65536))
			if i%2 == 0 {
				f |= 0x0200
			} else {
				f &^= 0x0200
			}
			c := &caseT{Seq: int(seqCtr.Add(1)), Flags: f, Pad: pads[rng.Intn(len(pads))], TCPMode: "answer", ID: uint16(rng.Intn(65536))}
			caselog.Log(map[string]any{"option_variant": v.name, "case": c})
			runCase(s, u, c)
			rep.Count("option_variant_cases:"+v.name, 1)
		}
		u.Close()
		if n := recConns.Load() - before; n > 0 {
			rep.Violation("tcp-went-to-another-host-option-"+v.name, fmt.Sprintf("udp upstream created with option %s opened %d TCP connection(s) to %s, which is not the server (%s)", v.name, n, rec.Addr(), s.addr), map[string]any{"option": v.name, "server": s.addr, "other_host": rec.Addr().String()})
		} else {
			rep.Nontrivial("option-variant|" + v.name)
		}
	}
}

func trunc(b []byte, n int) []byte {
	if len(b) > n {
		return b[:n]
	}
	return b
}

func main() {
	rep = evid.New("C17", "exploration")
	caselog = evid.OpenCaseLog()
	poolsan.Install(func(r poolsan.Report) {
		rep.Violation("poolsan-"+r.Kind, "buffer-pool sanitizer: "+r.Kind+": "+r.Info, map[string]any{"stack": r.Stack})
	})
	rep.SetRule("one case = one exchange through upstream.NewUpstream(\"udp://127.0.0.1:port\") with a unique question; the harness server answers over UDP with a chosen 16-bit flag word and reply size, and its TCP listener on the same port answers / closes / sends a bad frame / is absent; every tier enumerates all 65536 flag words (thorough 8 rounds with other sizes/TCP behaviours/IDs); non-trivial = distinct (TC class, TCP behaviour, flag word, size class)")
	rep.Assume("when TC is set and TCP fails the statement does not say what is returned: an error or the truncated UDP reply are both accepted, any other reply is a violation")

	servers := map[string]*server{}
	ups := map[string]upstream.Upstream{}
	for _, m := range []string{"answer", "close", "garbage", "halfreply", "none"} {
		s, err := newServer(m)
		if err != nil {
			fmt.Println("cannot start server:", err)
			os.Exit(3)
		}
		servers[m] = s
		u, err := upstream.NewUpstream("udp://"+s.addr, upstream.Opt{})
		if err != nil {
			fmt.Println("cannot create upstream:", err)
			os.Exit(3)
		}
		ups[m] = u
	}
	rng := rand.New(rand.NewSource(rep.Seed))

	if rep.ReplayFile != "" {
		var w struct {
			Case caseT  `json:"case"`
			TCP  string `json:"tcp_side"`
		}
		if err := rep.LoadReplay(&w); err != nil {
			fmt.Println("cannot load replay:", err)
			os.Exit(3)
		}
		w.Case.Seq = int(seqCtr.Add(1))
		runCase(servers[w.TCP], ups[w.TCP], &w.Case)
		rep.Finish()
	}

	var flagWords []uint16
	for round := 0; round < rep.Pick(1, 8); round++ {
		for f := 0; f < 65536; f++ {
			flagWords = append(flagWords, uint16(f))
		}
	}
	rep.Exhaustive(true)
	rep.Extra("enumerated_space", "all 65536 flag words of the UDP reply header (quick: once, thorough: 8 times with different sizes / TCP behaviours / caller IDs)")
	rng.Shuffle(len(flagWords), func(i, j int) { flagWords[i], flagWords[j] = flagWords[j], flagWords[i] })
	type job struct {
		mode string
		c    *caseT
	}
	jobs := make(chan job, 256)
	var wg sync.WaitGroup
	for w := 0; w < 16; w++ {
		wg.Add(1)
		go func() {
			defer wg.Done()
			for j := range jobs {
				caselog.Log(j)
				runCase(servers[j.mode], ups[j.mode], j.c)
			}
		}()
	}
	pads := []int{-1, 0, 1, 50, 400, 1100, 3000} // -1 = bare 12-byte header
	for i, f := range flagWords {
		mode := "answer"
		if f&0x0200 != 0 {
			mode = []string{"answer", "answer", "close", "garbage", "halfreply", "none"}[i%6]
		} else if i%8 == 7 {
			mode = "none"
		}
		var id uint16
		switch i % 5 {
		case 0:
			id = 0
		case 1:
			id = 0xFFFF
		default:
			id = uint16(rng.Intn(65536))
		}
		ct := &caseT{Seq: int(seqCtr.Add(1)), Flags: f, Pad: pads[rng.Intn(len(pads))], TCPMode: mode, ID: id}
		if mode == "answer" && f&0x0200 != 0 && i%3 == 0 {
			ct.TCPFlags = uint16(rng.Intn(65536)) | 0x8000 // any flag word, TC included
		}
		jobs <- job{mode, ct}
	}
	close(jobs)
	wg.Wait()
	sharedBufferPhase(servers["answer"], ups["answer"])
	optionVariants(servers["answer"], rng)
	abandonedRetries(servers["answer"], rng)
	sizeBoundaries(servers, ups, rng)
	flakyTCPReuse(rng)
	for _, u := range ups {
		u.Close()
	}
	poolsan.Sweep()
	if rep.Get("tc_set_returned_tcp_reply") == 0 || rep.Get("tc_clear_returned_udp_reply_unchanged") == 0 || rep.Get("tc_set_tcp_failed_outcome_ok") == 0 {
		rep.Inconclusive("a verdict class was never observed")
	}
	rep.Finish()
}
