package main

// Child-process side of phases (b) and (c). Every load that might crash, hang
// or exhaust memory runs here; the case descriptor is written to a per-child
// case log BEFORE it executes so the parent can attribute a dead child.

import (
	"bufio"
	"encoding/json"
	"fmt"
	"io"
	"os"
	"path/filepath"
	"regexp"
	"runtime"
	"runtime/debug"
	"runtime/metrics"
	"strings"
	"sync/atomic"
	"syscall"
	"time"

	"verifharness/lib/poolsan"
)

type childJob struct {
	Mode     string `json:"mode"` // trunc | damage
	Out      string `json:"out"`
	CaseLog  string `json:"caselog"`
	Tmp      string `json:"tmp"`
	Thorough bool   `json:"thorough"`

	// trunc
	DumpName  string `json:"dump_name,omitempty"`
	DumpFile  string `json:"dump_file,omitempty"`
	Prefixes  []int  `json:"prefixes,omitempty"`
	FileEvery int    `json:"file_every,omitempty"` // every n-th prefix is also loaded through the start-up file path

	// damage
	Seed      int64        `json:"seed,omitempty"`
	Indices   []int        `json:"indices,omitempty"`
	BaseFiles []string     `json:"base_files,omitempty"`
	KeysFile  string       `json:"keys_file,omitempty"`
	Explicit  []damageCase `json:"explicit,omitempty"` // replay: run exactly these inputs
}

type childViol struct {
	Key    string `json:"key"`
	What   string `json:"what"`
	Detail string `json:"detail,omitempty"` // stack etc.; kept in the replay file only
}

type childResult struct {
	Mode     string      `json:"mode"`
	Dump     string      `json:"dump,omitempty"`
	P        int         `json:"p"`
	ViaFile  bool        `json:"via_file,omitempty"`
	Idx      int         `json:"idx"`
	Kind     string      `json:"kind,omitempty"`
	Desc     string      `json:"desc,omitempty"`
	Len      int         `json:"len"`
	Code     int         `json:"code"`
	Layer    string      `json:"layer"`
	Held     int         `json:"held"`
	HeapGrow int64       `json:"heap_grow"`
	LiveGrow int64       `json:"live_grow,omitempty"` // peak growth of the live heap (after forced GC) at reads of the input
	LiveObs  int         `json:"live_obs,omitempty"`  // number of such observations
	Alloc    int64       `json:"alloc"`
	Micros   int64       `json:"us"`
	PostDump string      `json:"post_dump,omitempty"`
	Probed   int         `json:"probed,omitempty"`
	ProbeHit int         `json:"probe_hit,omitempty"`
	Viols    []childViol `json:"viols,omitempty"`
	Done     bool        `json:"done,omitempty"` // last line of a child that finished its job
}

func (r *childResult) describe() string {
	if r.Mode == "trunc" {
		return fmt.Sprintf("the first %d bytes of dump %q (via dump_file: %v)", r.P, r.Dump, r.ViaFile)
	}
	return fmt.Sprintf("damaged input #%d (%s: %s, %d bytes)", r.Idx, r.Kind, r.Desc, r.Len)
}

const (
	heapLimit     = 256 << 20
	smallInput    = 64 << 10
	caseWatchdog  = 120 * time.Second
	exitHang      = 7
	exitChildFail = 9
)

var layerRe = regexp.MustCompile(`^[^,:]*`)

func layerOf(code int, msg string) string {
	if code == 200 {
		return "accepted"
	}
	l := strings.TrimSpace(layerRe.FindString(msg))
	if len(l) > 48 {
		l = l[:48]
	}
	if l == "" {
		l = fmt.Sprintf("status-%d", code)
	}
	return l
}

var mosFrameRe = regexp.MustCompile(`(?m)^(github\.com/IrineSistiana/mosdns/v5/\S+?)\((?:0x|\)|\{|\.\.\.|\?)`)

func crashKey(stack string) string {
	m := mosFrameRe.FindStringSubmatch(stack)
	if m == nil {
		return "crash-outside-mosdns"
	}
	parts := strings.Split(m[1], "/")
	return "crash-" + parts[len(parts)-1]
}

// heap sampler
var heapSamples = []metrics.Sample{
	{Name: "/memory/classes/heap/objects:bytes"},
	{Name: "/memory/classes/heap/unused:bytes"},
	{Name: "/gc/heap/allocs:bytes"},
}

func heapNow(s []metrics.Sample) (inuse, allocs int64) {
	metrics.Read(s)
	return int64(s[0].Value.Uint64() + s[1].Value.Uint64()), int64(s[2].Value.Uint64())
}

type sampler struct {
	stop chan struct{}
	done chan struct{}
	peak atomic.Int64
}

func startSampler() *sampler {
	s := &sampler{stop: make(chan struct{}), done: make(chan struct{})}
	go func() {
		defer close(s.done)
		smp := append([]metrics.Sample(nil), heapSamples...)
		t := time.NewTicker(300 * time.Microsecond)
		defer t.Stop()
		for {
			in, _ := heapNow(smp)
			if in > s.peak.Load() {
				s.peak.Store(in)
			}
			select {
			case <-s.stop:
				return
			case <-t.C:
			}
		}
	}()
	return s
}

func (s *sampler) finish() int64 {
	close(s.stop)
	<-s.done
	smp := append([]metrics.Sample(nil), heapSamples...)
	in, _ := heapNow(smp)
	if in > s.peak.Load() {
		s.peak.Store(in)
	}
	return s.peak.Load()
}

type childState struct {
	job     childJob
	out     *bufio.Writer
	outF    *os.File
	clog    *os.File
	current atomic.Value // string: current case descriptor
	started atomic.Int64 // unix nanos of the current case start, 0 = idle
	canon   map[string]string
	dumpLen int
}

// sampledReader samples the heap at every read of the input: a buffer sized
// from the input is alive while the loader asks for the bytes to fill it.
type sampledReader struct {
	b   []byte
	off int
	s   *sampler
	smp []metrics.Sample

	// live mode: before handing out the next (small) piece of input, force a
	// complete collection and record what is still reachable. Whatever the
	// loader keeps alive across blocks shows up here; garbage does not, so the
	// collector's timing has no influence on the figure.
	live     bool
	liveBase int64
	livePeak int64
	liveObs  int
}

func liveHeap(smp []metrics.Sample) int64 {
	runtime.GC()
	metrics.Read(smp)
	return int64(smp[0].Value.Uint64())
}

func (r *sampledReader) Read(p []byte) (int, error) {
	if r.s != nil {
		in, _ := heapNow(r.smp)
		if in > r.s.peak.Load() {
			r.s.peak.Store(in)
		}
	}
	if r.live {
		if g := liveHeap(r.smp) - r.liveBase; g > r.livePeak {
			r.livePeak = g
		}
		r.liveObs++
		if len(p) > 1024 {
			p = p[:1024]
		}
	}
	if r.off >= len(r.b) {
		return 0, io.EOF
	}
	n := copy(p, r.b[r.off:])
	r.off += n
	return n, nil
}

func (cs *childState) logCase(v any) {
	b, _ := json.Marshal(v)
	cs.current.Store(string(b))
	if cs.clog != nil {
		_ = cs.clog.Truncate(0)
		_, _ = cs.clog.WriteAt(append(b, '\n'), 0)
	}
}

func (cs *childState) emit(r *childResult) {
	b, _ := json.Marshal(r)
	cs.out.Write(b)
	cs.out.WriteByte('\n')
	if len(r.Viols) > 0 || r.Done {
		cs.out.Flush()
	}
}

func (cs *childState) tupleOf(e dumpEntry) string {
	c, ok := cs.canon[string(e.Msg)]
	if !ok {
		c = canonMsg(e.Msg)
		if len(cs.canon) < 100000 {
			cs.canon[string(e.Msg)] = c
		}
	}
	return fmt.Sprintf("%x|%d|%d|%d|%x", e.Key, e.CacheExp, e.MsgExp, e.Stored, c)
}

func childMain(jobPath string) {
	var job childJob
	b, err := os.ReadFile(jobPath)
	if err == nil {
		err = json.Unmarshal(b, &job)
	}
	if err != nil {
		fmt.Fprintln(os.Stderr, "c19 child: bad job:", err)
		os.Exit(exitChildFail)
	}
	runtime.GOMAXPROCS(2)
	cs := &childState{job: job, canon: map[string]string{}}
	cs.outF, err = os.OpenFile(job.Out, os.O_CREATE|os.O_WRONLY|os.O_APPEND, 0o644)
	if err != nil {
		fmt.Fprintln(os.Stderr, "c19 child:", err)
		os.Exit(exitChildFail)
	}
	cs.out = bufio.NewWriterSize(cs.outF, 1<<16)
	cs.clog, _ = os.OpenFile(job.CaseLog, os.O_CREATE|os.O_WRONLY|os.O_TRUNC, 0o644)

	// watchdog: one case must finish within caseWatchdog
	go func() {
		for {
			time.Sleep(500 * time.Millisecond)
			st := cs.started.Load()
			if st != 0 && time.Since(time.Unix(0, st)) > caseWatchdog {
				cur, _ := cs.current.Load().(string)
				buf := make([]byte, 1<<20)
				n := runtime.Stack(buf, true)
				fmt.Fprintf(os.Stderr, "C19-CHILD-HANG case=%s\n%s\n", cur, buf[:n])
				os.Exit(exitHang)
			}
		}
	}()

	switch job.Mode {
	case "trunc":
		poolsan.Install(func(r poolsan.Report) {
			cur, _ := cs.current.Load().(string)
			cs.emit(&childResult{Mode: "trunc", Dump: job.DumpName, P: -1, Viols: []childViol{{Key: "poolsan-" + r.Kind, What: "buffer-pool sanitizer during load of a truncated dump: " + r.Kind + ": " + r.Info + " case=" + cur, Detail: r.Stack}}})
		})
		cs.runTrunc()
	case "damage":
		// a hard ceiling so that a runaway allocation fails in this process only
		lim := syscall.Rlimit{Cur: 8 << 30, Max: 8 << 30}
		_ = syscall.Setrlimit(syscall.RLIMIT_AS, &lim)
		// keep heap-in-use close to the live heap: garbage waiting for the next
		// collection is not what "allocates without bound" is about
		debug.SetGCPercent(25)
		cs.runDamage()
	default:
		fmt.Fprintln(os.Stderr, "c19 child: bad mode")
		os.Exit(exitChildFail)
	}
	cs.emit(&childResult{Mode: job.Mode, Done: true, P: -1, Idx: -1})
	cs.out.Flush()
	cs.outF.Close()
	os.Exit(0)
}

// guarded runs f, turning a panic on this goroutine into a violation record.
func guarded(r *childResult, f func()) {
	defer func() {
		if p := recover(); p != nil {
			st := string(debug.Stack())
			top := mosFrameRe.FindStringSubmatch(st)
			frame := "no mosdns frame"
			if top != nil {
				frame = top[1]
			}
			r.Viols = append(r.Viols, childViol{Key: crashKey(st), What: fmt.Sprintf("panic: %v (first mosdns frame: %s) while handling %s", p, frame, r.describe()), Detail: st})
		}
	}()
	f()
}

func (cs *childState) runTrunc() {
	job := cs.job
	D, err := os.ReadFile(job.DumpFile)
	if err != nil {
		fmt.Fprintln(os.Stderr, "c19 child:", err)
		os.Exit(exitChildFail)
	}
	cs.dumpLen = len(D)
	dd, err := decodeDump(D)
	if err != nil {
		fmt.Fprintln(os.Stderr, "c19 child: intact dump does not decode:", err)
		os.Exit(exitChildFail)
	}
	full := map[string]bool{}
	for _, e := range dd.Entries {
		full[cs.tupleOf(e)] = true
	}
	for n, p := range job.Prefixes {
		if p < 0 || p >= len(D) {
			continue
		}
		modes := []bool{false}
		if job.FileEvery > 0 && n%job.FileEvery == 0 {
			modes = append(modes, true)
		}
		for _, viaFile := range modes {
			cs.logCase(map[string]any{"phase": "trunc", "dump": job.DumpName, "p": p, "via_file": viaFile, "dump_len": len(D)})
			r := &childResult{Mode: "trunc", Dump: job.DumpName, P: p, ViaFile: viaFile, Len: p}
			t0 := time.Now()
			cs.started.Store(t0.UnixNano())
			guarded(r, func() { cs.truncCase(r, D[:p], full, viaFile) })
			cs.started.Store(0)
			r.Micros = time.Since(t0).Microseconds()
			cs.emit(r)
		}
	}
}

func (cs *childState) truncCase(r *childResult, in []byte, full map[string]bool, viaFile bool) {
	var b *box
	if viaFile {
		f := filepath.Join(cs.job.Tmp, fmt.Sprintf("trunc-%d.dump", os.Getpid()))
		if err := os.WriteFile(f, in, 0o644); err != nil {
			r.Layer = "harness: " + err.Error()
			return
		}
		defer os.Remove(f)
		b = newBox(0, f)
		errs := b.errorLogs()
		if len(errs) == 0 {
			r.Code = 200
			r.Layer = "accepted"
			r.Viols = append(r.Viols, childViol{Key: "truncated-file-load-logs-no-error", What: fmt.Sprintf("start-up load of the first %d of %d bytes of dump %q as dump_file logged no error", len(in), cs.dumpLen, cs.job.DumpName)})
		} else {
			r.Code = 500
			r.Layer = layerOf(500, strings.TrimPrefix(errs[0], "failed to load cache dump: "))
		}
	} else {
		b = newBox(0, "")
		code, msg := b.load(in)
		r.Code, r.Layer = code, layerOf(code, msg)
		if code >= 200 && code < 300 {
			r.Viols = append(r.Viols, childViol{Key: "truncated-load-reports-success", What: fmt.Sprintf("POST /load_dump of the first %d bytes of dump %q answered %d %q", len(in), cs.job.DumpName, code, msg)})
		}
	}
	defer b.close()
	code, own := b.dump()
	if code != 200 {
		r.Viols = append(r.Viols, childViol{Key: "dump-failed-after-truncated-load", What: fmt.Sprintf("GET /dump after loading a %d-byte prefix answered %d", len(in), code)})
		return
	}
	od, err := decodeDump(own)
	if err != nil {
		r.Viols = append(r.Viols, childViol{Key: "dump-undecodable-after-truncated-load", What: fmt.Sprintf("after loading a %d-byte prefix the cache's own dump does not decode: %v", len(in), err)})
		return
	}
	r.Held = len(od.Entries)
	for _, e := range od.Entries {
		if !full[cs.tupleOf(e)] {
			qk, _ := questionKey(e.Msg)
			r.Viols = append(r.Viols, childViol{Key: "truncated-load-adds-foreign-entry", What: fmt.Sprintf("after loading the first %d bytes of dump %q the cache holds an entry the intact dump does not contain: key=%x question=%s cache_exp=%d msg_exp=%d stored=%d msg=%x", len(in), cs.job.DumpName, e.Key, qk, e.CacheExp, e.MsgExp, e.Stored, e.Msg)})
			break
		}
	}
	if sz := b.counters().size; sz != int64(len(od.Entries)) {
		r.PostDump = fmt.Sprintf("size gauge %d, dump %d", sz, len(od.Entries))
	}
}

func (cs *childState) runDamage() {
	job := cs.job
	dc := &damageCtx{}
	for _, f := range job.BaseFiles {
		b, err := os.ReadFile(f)
		if err != nil {
			fmt.Fprintln(os.Stderr, "c19 child:", err)
			os.Exit(exitChildFail)
		}
		_, raw, err := gunzipAll(b)
		if err != nil {
			fmt.Fprintln(os.Stderr, "c19 child: base dump:", err)
			os.Exit(exitChildFail)
		}
		dc.Bases = append(dc.Bases, b)
		dc.Raws = append(dc.Raws, raw)
	}
	if job.KeysFile != "" {
		if b, err := os.ReadFile(job.KeysFile); err == nil {
			_ = json.Unmarshal(b, &dc.Keys)
		}
	}
	run := func(c damageCase) {
		cs.logCase(map[string]any{"phase": "damage", "idx": c.Idx, "kind": c.Kind, "desc": c.Desc, "len": len(c.Input), "seed": c.Seed})
		r := &childResult{Mode: "damage", Idx: c.Idx, Kind: c.Kind, Desc: c.Desc, Len: len(c.Input), P: -1}
		runtime.GC()
		smp := append([]metrics.Sample(nil), heapSamples...)
		base, a0 := heapNow(smp)
		s := startSampler()
		t0 := time.Now()
		cs.started.Store(t0.UnixNano())
		guarded(r, func() { cs.damageCase(r, c, s) })
		cs.started.Store(0)
		r.Micros = time.Since(t0).Microseconds()
		peak := s.finish()
		_, a1 := heapNow(smp)
		r.Alloc = a1 - a0
		r.HeapGrow = peak - base
		if r.HeapGrow > r.Alloc { // cannot have grown by more than was allocated
			r.HeapGrow = r.Alloc
		}
		if len(c.Input) <= smallInput && r.HeapGrow > heapLimit {
			r.Viols = append(r.Viols, childViol{Key: "unbounded-allocation-" + c.Kind, What: fmt.Sprintf("loading a %d-byte input (%s) grew the heap in use by %d MiB (limit %d MiB; %d MiB allocated in total)", len(c.Input), c.Desc, r.HeapGrow>>20, heapLimit>>20, r.Alloc>>20)})
		}
		cs.emit(r)
	}
	for _, c := range job.Explicit {
		run(c)
	}
	for _, i := range job.Indices {
		run(genDamage(job.Seed, i, dc, job.Thorough))
	}
}

func (cs *childState) damageCase(r *childResult, c damageCase, s *sampler) {
	b := newBox(60, "")
	defer b.close()
	smp := append([]metrics.Sample(nil), heapSamples...)
	rd := &sampledReader{b: c.Input, s: s, smp: smp}
	if c.LiveLimit > 0 {
		rd.live = true
		rd.liveBase = liveHeap(smp) // the input itself and the empty cache are part of the base
	}
	code, msg := b.loadFrom(rd)
	if in, _ := heapNow(smp); in > s.peak.Load() { // the moment the load returns
		s.peak.Store(in)
	}
	r.Code, r.Layer = code, layerOf(code, msg)
	if rd.live {
		r.LiveGrow, r.LiveObs = rd.livePeak, rd.liveObs
		if rd.livePeak > c.LiveLimit {
			r.Viols = append(r.Viols, childViol{Key: "retains-stream-while-loading", What: fmt.Sprintf("while loading a %d-byte input (%s) the loader kept %d MiB of heap alive (measured after a forced collection at each of %d reads of the input; limit %d MiB = %d x the 1 MiB block limit): memory grows with the decompressed size of the stream instead of the size of one block", len(c.Input), c.Desc, rd.livePeak>>20, rd.liveObs, c.LiveLimit>>20, c.LiveLimit>>20)})
		}
	}
	// the cache must remain usable: its own dump, and queries for what it admitted
	dcode, own := b.dump()
	if dcode != 200 {
		r.PostDump = fmt.Sprintf("status %d", dcode)
	} else if od, err := decodeDump(own); err != nil {
		r.PostDump = "undecodable: " + err.Error()
	} else {
		r.Held = len(od.Entries)
	}
	for i, q := range c.Probes {
		if i >= 64 {
			break
		}
		cl, _ := probe(b, q.msg(uint16(i)))
		r.Probed++
		if cl == "hit" || cl == "stale" {
			r.ProbeHit++
		}
	}
}
