package main

// (f) Entry SIZE classes.
//
// The cache keeps answers as dns.Msg values that came off the wire. A legal
// reply (<= 65535 bytes on the wire) with a large RRset under a long owner name
// is, as a dns.Msg, far larger than a DNS message once it is packed without
// name compression: hundreds of KiB, up to ~2.4 MiB for NS/MX records. How the
// dump encodes such an entry is the plugin's business; that a cache holding
// them dumps and reloads completely is the property. The scenarios of this file
// put answers of every size class - about 1 KiB, 8 KiB, 60 KiB, 70 KiB, 200 KiB,
// 440 KiB, 600 KiB and "as much as a 64 KiB message can be made to hold"
// (thorough also 500 and 900 KiB), measured without name compression - into
// the cache, alone, in groups and among hundreds of ordinary entries, and dump /
// reload them several times (every dump walks the cache in another order, so
// the large entries land at other positions of the blocks and the blocks reach
// other sizes). Every intact dump must load completely; the reloaded cache is
// compared entry by entry and question by question like in phase (a).

import (
	"fmt"
	"math/rand"
	"sort"
	"strings"

	"github.com/miekg/dns"
)

type sizeMix struct {
	Bytes  int  `json:"uncompressed_bytes"`
	N      int  `json:"n"`
	Raw    bool `json:"incompressible,omitempty"` // random TXT strings: name compression gains nothing (<= 64000 bytes)
	Spread bool `json:"spread,omitempty"`         // every answer draws its own size from 2 KiB .. Bytes
}

var sizeClasses = []int{1 << 10, 8 << 10, 60 << 10, 70 << 10, 200 << 10, 440 << 10}

const sizeMax = 2400 << 10 // more than any record type reaches within 65535 wire bytes: genSized shrinks the RRset until it fits

var sizedTypes = []string{"a", "aaaa", "ns", "mx", "txt"}

// sizedShape: approximate bytes one record takes on the wire (owner and rdata
// names compressed) and in an uncompressed re-pack, for an owner name of L wire
// bytes. Used only to choose the record count; the real sizes are measured.
func sizedShape(t string, L int) (wire, uncomp int) {
	switch t {
	case "a":
		return 16, L + 14
	case "aaaa":
		return 28, L + 26
	case "ns":
		return 20, 2*L + 16
	case "mx":
		return 22, 2*L + 18
	default: // txt, one 8-byte string
		return 21, L + 19
	}
}

// longOwner returns a name, unique for idx, whose wire form has exactly L bytes.
func longOwner(rng *rand.Rand, idx int, L int) string {
	const suffix = "c19.test."
	prefix := fmt.Sprintf("s%d", idx)
	if L > 255 {
		L = 255
	}
	fill := (L - 1) - len(prefix) - 1 - len(suffix)
	if fill == 1 {
		prefix += "x"
		fill = 0
	}
	var sb strings.Builder
	sb.WriteString(prefix)
	sb.WriteByte('.')
	for fill > 0 {
		c := fill
		if c > 64 {
			c = 64
		}
		if fill-c == 1 {
			c--
		}
		sb.WriteString(randLabel(rng, c-1))
		sb.WriteByte('.')
		fill -= c
	}
	sb.WriteString(suffix)
	return sb.String()
}

// genSized builds a question and the upstream reply for it whose uncompressed
// packed size is about target bytes while it still is a legal DNS message
// (<= 65535 bytes) in the compressed form an upstream sends.
func genSized(rng *rand.Rand, idx int, target int, raw bool) (*entSpec, error) {
	t := sizedTypes[rng.Intn(len(sizedTypes))]
	if target >= sizeMax {
		t = []string{"ns", "mx"}[rng.Intn(2)] // the types that grow most when re-packed
	}
	want := int(float64(target) * (0.92 + 0.16*rng.Float64())) // the sums of a block's entries should not repeat
	if raw {
		t = "rtxt"
		if want > 64000 {
			want = 64000 - rng.Intn(2000)
		}
	}
	maxL := 254
	if t == "ns" || t == "mx" {
		maxL = 246 // "n1234." + owner must be a name, too
	}
	// shortest owner name with which `want` bytes fit a 64 KiB message
	minL := 24
	for ; minL < maxL; minL++ {
		w, u := sizedShape(t, minL)
		if want/u*w <= 60000 {
			break
		}
	}
	L := minL + rng.Intn(maxL-minL+1)
	name := longOwner(rng, idx, L)
	_, u := sizedShape(t, L)
	n := (want + u/2) / u
	if raw {
		L = 24 + rng.Intn(40)
		name = longOwner(rng, idx, L)
		n = 1 + want/1016 // records of up to four 250-byte strings
	}
	if n < 1 {
		n = 1
	}
	base := uint32(3600 + rng.Intn(80000))
	same := rng.Intn(2) == 0
	ttl := func() uint32 {
		if same {
			return base
		}
		return base + uint32(rng.Intn(4000))
	}
	q := qspec{Name: name, AD: rng.Intn(5) == 0, CD: rng.Intn(6) == 0, DO: rng.Intn(4) == 0}
	switch t {
	case "a":
		q.Qtype = dns.TypeA
	case "aaaa":
		q.Qtype = dns.TypeAAAA
	case "ns":
		q.Qtype = dns.TypeNS
	case "mx":
		q.Qtype = dns.TypeMX
	default:
		q.Qtype = dns.TypeTXT
	}
	var up *dns.Msg
	var wireLen int
	for attempt := 0; ; attempt++ {
		m := new(dns.Msg)
		m.Answer = make([]dns.RR, 0, n)
		left := want - 12 - 2*L - 4
		for i := 0; i < n; i++ {
			switch t {
			case "rtxt":
				left -= 12
				var ss []string
				for k := 0; k < 4 && left > 1; k++ {
					c := min(250, left-1)
					ss = append(ss, randLabel(rng, c))
					left -= c + 1
				}
				if len(ss) == 0 {
					continue
				}
				m.Answer = append(m.Answer, &dns.TXT{Hdr: hdr(name, dns.TypeTXT, ttl()), Txt: ss})
			case "a":
				m.Answer = append(m.Answer, &dns.A{Hdr: hdr(name, dns.TypeA, ttl()), A: randIP4(rng)})
			case "aaaa":
				m.Answer = append(m.Answer, &dns.AAAA{Hdr: hdr(name, dns.TypeAAAA, ttl()), AAAA: randIP6(rng)})
			case "ns":
				m.Answer = append(m.Answer, &dns.NS{Hdr: hdr(name, dns.TypeNS, ttl()), Ns: fmt.Sprintf("n%d.%s", i, name)})
			case "mx":
				m.Answer = append(m.Answer, &dns.MX{Hdr: hdr(name, dns.TypeMX, ttl()), Preference: uint16(i), Mx: fmt.Sprintf("m%d.%s", i, name)})
			default:
				m.Answer = append(m.Answer, &dns.TXT{Hdr: hdr(name, dns.TypeTXT, ttl()), Txt: []string{randLabel(rng, 8)}})
			}
		}
		m.SetReply(q.msg(uint16(rng.Intn(65536))))
		m.RecursionAvailable = true
		m.Compress = true // what an upstream server sends
		wireb, err := m.Pack()
		if err != nil {
			return nil, fmt.Errorf("sized reply (%s x %d, owner of %d bytes) does not pack: %v", t, n, L, err)
		}
		if len(wireb) > dns.MaxMsgSize {
			if attempt > 12 {
				return nil, fmt.Errorf("sized reply (%s x %d, owner of %d bytes) needs %d bytes on the wire", t, n, L, len(wireb))
			}
			n = int(int64(n) * 64000 / int64(len(wireb)))
			want = int(int64(want) * 64000 / int64(len(wireb)))
			continue
		}
		up = new(dns.Msg)
		if err := up.Unpack(wireb); err != nil { // what the upstream transport hands to the cache
			return nil, fmt.Errorf("sized reply does not unpack: %v", err)
		}
		wireLen = len(wireb)
		break
	}
	if q.DO && rng.Intn(2) == 0 {
		up.SetEdns0(4096, true)
	}
	s := &entSpec{Idx: idx, Q: q, Via: "exec", Kind: "sized-" + t, Group: "long", Up: up, Resp: stripOpt(up), Plain: true}
	s.OrigTTL = ttlVector(s.Resp)
	s.MinTTL = minOf(s.OrigTTL)
	s.WireLen = wireLen
	s.PackedLen = s.Resp.Len() // Compress is false: the uncompressed length
	s.SizeClass = target
	return s, nil
}

func kib(n int) string {
	if n < 1024 {
		return fmt.Sprintf("%dB", n)
	}
	return fmt.Sprintf("%dK", (n+512)/1024)
}

func fillBucket(n int) string {
	switch {
	case n < 64<<10:
		return "<64K"
	case n < 256<<10:
		return "64K-256K"
	case n < 512<<10:
		return "256K-512K"
	case n < 640<<10:
		return "512K-640K"
	case n < 768<<10:
		return "640K-768K"
	case n < 896<<10:
		return "768K-896K"
	case n < 1<<20:
		return "896K-1M"
	}
	return ">=1M"
}

func msgBucket(n int) string {
	switch {
	case n < 512:
		return "<512B"
	case n < 4<<10:
		return "512B-4K"
	case n < 32<<10:
		return "4K-32K"
	case n <= 65535:
		return "32K-64K"
	case n < 128<<10:
		return "64K-128K"
	case n < 320<<10:
		return "128K-320K"
	case n < 480<<10:
		return "320K-480K"
	case n < 1<<20:
		return "480K-1M"
	}
	return ">=1M"
}

// plainLen is the size of a dumped message's CONTENT: its length when packed
// without name compression, however the dump encodes it.
func plainLen(b []byte) int {
	m := new(dns.Msg)
	if err := m.Unpack(b); err != nil {
		return len(b)
	}
	m.Compress = false
	return m.Len()
}

// sizeKey extends a violation key by the size class of the largest answer in
// the dump concerned: answers that fit a DNS message uncompressed (no suffix),
// answers above 64 KiB, answers above 480 KiB.
func sizeKey(key string, dd *decodedDump) string {
	largest := 0
	for i := range dd.Entries {
		if n := plainLen(dd.Entries[i].Msg); n > largest {
			largest = n
		}
	}
	switch {
	case largest <= 65535:
		return key
	case largest < 480<<10:
		return key + "-answers-above-64KiB"
	}
	return key + "-answers-above-480KiB"
}

// blockLens returns the length of every block of a decoded dump.
func blockLens(dd *decodedDump) []int {
	out := make([]int, len(dd.BlockEnds))
	prev := 0
	for i, e := range dd.BlockEnds {
		out[i] = e - prev - 8
		prev = e
	}
	return out
}

// describeBlocks names the composition of a dump's largest blocks: this is the
// witness when an intact dump is refused.
func describeBlocks(dd *decodedDump) string {
	lens := blockLens(dd)
	type bl struct{ i, n int }
	var bs []bl
	for i, n := range lens {
		bs = append(bs, bl{i, n})
	}
	sort.Slice(bs, func(a, b int) bool { return bs[a].n > bs[b].n })
	if len(bs) > 3 {
		bs = bs[:3]
	}
	start := make([]int, len(lens)+1)
	for i, n := range dd.BlockSizes {
		start[i+1] = start[i] + n
	}
	var parts []string
	for _, b := range bs {
		var big []string
		small, smallBytes := 0, 0
		for _, e := range dd.Entries[start[b.i]:start[b.i+1]] {
			if pl := plainLen(e.Msg); pl >= 4096 {
				if pl != len(e.Msg) {
					big = append(big, fmt.Sprintf("%d(%d without name compression)", len(e.Msg), pl))
				} else {
					big = append(big, fmt.Sprint(len(e.Msg)))
				}
			} else {
				small++
				smallBytes += len(e.Msg)
			}
		}
		if len(big) > 24 {
			big = append(big[:24], fmt.Sprintf("... %d more", len(big)-24))
		}
		parts = append(parts, fmt.Sprintf("block #%d of %d: %d bytes, %d entries (answers >= 4 KiB in block order: [%s] bytes as dumped; %d smaller ones, %d bytes)", b.i+1, len(lens), b.n, dd.BlockSizes[b.i], strings.Join(big, " "), small, smallBytes))
	}
	return strings.Join(parts, "; ")
}

// observeBlocks records what a dump looked like: block fill levels, and for
// every message above 4 KiB how full its block already was when it was added.
func observeBlocks(scName string, dd *decodedDump) {
	lens := blockLens(dd)
	start := 0
	for bi, n := range dd.BlockSizes {
		rep.Max("size_max_block_bytes", int64(lens[bi]))
		rep.SetAdd("size_block_fill_levels", fillBucket(lens[bi]))
		before := 0
		for k, e := range dd.Entries[start : start+n] {
			rep.Max("size_max_entry_msg_bytes_as_dumped", int64(len(e.Msg)))
			pl := len(e.Msg)
			if pl > 2048 {
				pl = plainLen(e.Msg)
			}
			if pl > 65535 {
				rep.Count("size_entries_above_64KiB_dumped", 1)
				if pl >= 480<<10 {
					rep.Count("size_entries_above_480KiB_dumped", 1)
				}
				rep.Max("size_max_entry_msg_bytes_without_name_compression", int64(pl))
				pos := "middle"
				if k == 0 {
					pos = "first"
				} else if k == n-1 {
					pos = "last"
				}
				rep.SetAdd("size_large_entry_position_x_block_fill_before", fmt.Sprintf("%s answer, %s in block, block held %s before", msgBucket(pl), pos, fillBucket(before)))
			}
			rep.SetAdd("size_entry_classes_without_name_compression", msgBucket(pl))
			rep.SetAdd("size_entry_classes_as_dumped", msgBucket(len(e.Msg)))
			before += len(e.Msg) + len(e.Key) + 24
		}
		start += n
	}
}

// sizeRounds dumps A again and again and loads every dump into a fresh cache;
// the reloaded cache's own dump must hold the same entries.
func sizeRounds(st *scenState, A *box, rc map[string]any) {
	sc := st.sc
	for r := 1; r <= sc.Rounds; r++ {
		caselog.Log(map[string]any{"phase": "fidelity-size-round", "scenario": sc, "round": r})
		code, b := A.dump()
		if code != 200 {
			rep.Violation("dump-failed", fmt.Sprintf("%s: round %d: GET /dump answered %d", sc.Name, r, code), rc)
			return
		}
		D := append([]byte(nil), b...)
		dd, err := decodeDump(D)
		if err != nil {
			rep.Violation("dump-undecodable", fmt.Sprintf("%s: round %d: the independent reader cannot decode the dump: %v", sc.Name, r, err), rc)
			return
		}
		observeBlocks(sc.Name, dd)
		rep.Eval(1)
		rep.Count("size_rounds", 1)
		B := newBox(sc.Lazy, "")
		codeL, msg := B.load(D)
		if codeL != 200 {
			rep.Violation(sizeKey("intact-dump-rejected", dd), fmt.Sprintf("%s: round %d: POST /load_dump of the cache's own dump (%d bytes, %d entries in %d blocks) answered %d %q; %s", sc.Name, r, len(D), len(dd.Entries), len(dd.BlockSizes), codeL, msg, describeBlocks(dd)), rc)
			B.close()
			return
		}
		codeB, DB := B.dump()
		var ddB *decodedDump
		if codeB == 200 {
			ddB, err = decodeDump(DB)
		}
		if codeB != 200 || err != nil {
			rep.Violation("dump-failed", fmt.Sprintf("%s: round %d: dump of the reloaded cache: status %d, %v", sc.Name, r, codeB, err), rc)
			B.close()
			return
		}
		missing, extra, what := diffDumps(dd, ddB)
		B.close()
		if missing+extra > 0 {
			rep.Violation(sizeKey("redump-differs", dd), fmt.Sprintf("%s: round %d: dump of the reloaded cache differs from the loaded dump in %d missing / %d extra entries; first: %s; %s", sc.Name, r, missing, extra, what, describeBlocks(dd)), rc)
			return
		}
		rep.Count("size_rounds_reloaded_completely", 1)
		rep.Nontrivial(fmt.Sprintf("size/%s/round%d/%v", sc.Name, r, blockLens(dd)))
	}
}

// sizeScenarios is the list of (f) cache contents.
func sizeScenarios(seed int64, thorough bool) []scenario {
	K := 1 << 10
	rounds := 3
	if thorough {
		rounds = 12
	}
	sc := []scenario{
		// a handful of very large RRsets among fewer ordinary entries than one block holds
		{Name: "sizes-6x440K-among-60", Sizes: []sizeMix{{Bytes: 440 * K, N: 6}}, NExec: 60, Rounds: rounds},
		{Name: "sizes-ladder-among-100", Sizes: []sizeMix{{Bytes: 1 * K, N: 30}, {Bytes: 8 * K, N: 20}, {Bytes: 60 * K, N: 6}, {Bytes: 70 * K, N: 6}, {Bytes: 200 * K, N: 3}, {Bytes: 440 * K, N: 2}}, NExec: 100, Lazy: 86400, Rounds: rounds},
		{Name: "sizes-24x70K", Sizes: []sizeMix{{Bytes: 70 * K, N: 24}}, Rounds: rounds},
		{Name: "sizes-8x200K-3x440K-among-300", Sizes: []sizeMix{{Bytes: 200 * K, N: 8}, {Bytes: 440 * K, N: 3}}, NExec: 300, Rounds: rounds},
		{Name: "sizes-150x8K", Sizes: []sizeMix{{Bytes: 8 * K, N: 150}}, Rounds: rounds},
		{Name: "sizes-file-restart-4x440K-10x70K-among-50", Sizes: []sizeMix{{Bytes: 440 * K, N: 4}, {Bytes: 70 * K, N: 10}}, NExec: 50, ViaFile: true},
	}
	// beyond half a MiB: a 64 KiB wire message of NS/MX/A records under a ~250-byte owner name
	// re-packs to 0.5 - 2.4 MiB; sizeMax asks for as much as a legal message can be made to hold
	sc = append(sc,
		scenario{Name: "sizes-3x600K-3x440K-among-40", Sizes: []sizeMix{{Bytes: 600 * K, N: 3}, {Bytes: 440 * K, N: 3}}, NExec: 40, Rounds: rounds},
		scenario{Name: "sizes-one-largest-possible-among-40", Sizes: []sizeMix{{Bytes: sizeMax, N: 1}}, NExec: 40, Rounds: 1},
	)
	// answers that name compression cannot shrink (random TXT strings): whatever the dump's
	// encoding, these entries stay near the size of a DNS message and fill blocks quickly
	sc = append(sc,
		scenario{Name: "sizes-120-incompressible-2K-to-64K", Sizes: []sizeMix{{Bytes: 64 * K, N: 120, Raw: true, Spread: true}}, Rounds: rounds},
		scenario{Name: "sizes-40x60K-incompressible", Sizes: []sizeMix{{Bytes: 60 * K, N: 40, Raw: true}}, Rounds: rounds},
		scenario{Name: "sizes-incompressible-50x30K-20x8K-10x60K-and-4x440K-among-30", Sizes: []sizeMix{{Bytes: 30 * K, N: 50, Raw: true}, {Bytes: 8 * K, N: 20, Raw: true}, {Bytes: 60 * K, N: 10, Raw: true}, {Bytes: 440 * K, N: 4}}, NExec: 30, Rounds: rounds},
	)
	classes := append([]int(nil), sizeClasses...)
	if thorough {
		classes = append(classes, 500*K, 600*K, 900*K, sizeMax)
		sc = append(sc,
			scenario{Name: "sizes-5x500K-among-40", Sizes: []sizeMix{{Bytes: 500 * K, N: 5}}, NExec: 40, Rounds: rounds},
			scenario{Name: "sizes-40x60K-among-700", Sizes: []sizeMix{{Bytes: 60 * K, N: 40}}, NExec: 700, Rounds: rounds},
		)
	}
	// every class alone in the cache, and once among hundreds of ordinary entries
	for i, c := range classes {
		sc = append(sc, scenario{Name: "sizes-one-" + kib(c) + "-alone", Sizes: []sizeMix{{Bytes: c, N: 1}}, Rounds: 1})
		if thorough || i%2 == int(seed&1) || c > 65535 {
			sc = append(sc, scenario{Name: "sizes-one-" + kib(c) + "-among-250", Sizes: []sizeMix{{Bytes: c, N: 1}}, NExec: 250, Rounds: 2})
		}
	}
	// seed-drawn compositions: two or three classes, 0.5 - 4 MiB in total
	rng := rand.New(rand.NewSource(seed*7907 + 19))
	for k := 0; k < map[bool]int{false: 3, true: 12}[thorough]; k++ {
		var mix []sizeMix
		var parts []string
		budget := (512 + rng.Intn(3584)) * K
		nc := 2 + rng.Intn(2)
		for j := 0; j < nc; j++ {
			c := classes[rng.Intn(len(classes))]
			if j == 0 {
				c = classes[3+rng.Intn(len(classes)-3)] // at least one class above 64 KiB
			}
			n := budget / nc / c
			if n < 1 {
				n = 1
			}
			if n > 120 {
				n = 120
			}
			mix = append(mix, sizeMix{Bytes: c, N: n, Raw: c <= 60*K && rng.Intn(3) == 0})
			parts = append(parts, fmt.Sprintf("%dx%s", n, kib(c)))
		}
		ord := []int{0, 20, 60, 110, 300}[rng.Intn(5)]
		sc = append(sc, scenario{Name: fmt.Sprintf("sizes-drawn-%s-among-%d", strings.Join(parts, "-"), ord), Sizes: mix, NExec: ord, Lazy: []int{0, 3600}[rng.Intn(2)], Rounds: rounds})
	}
	for i := range sc {
		sc[i].NoShort = true
		sc[i].Seed = seed*1000003 + int64(i)*104729 + 977
	}
	return sc
}
