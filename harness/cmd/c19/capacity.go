package main

// (d) Configuration space: dump -> reload round trips of caches that are NOT
// generously sized.
//
// Phases (a)-(c) use one roomy cache (size 2^18). Here the cache arguments come
// from the configuration space itself - `size` unset / 0 / negative / 1 / around
// every multiple of 64 and 128 / below, at and above the documented minimum of
// 1024 / larger; lazy_cache_ttl on and off; dump_interval unset / 0 / negative /
// 1 / 3600 - spelled as YAML and decoded the way coremain decodes plugin
// arguments (yaml -> map -> utils.WeakDecode) or as a sequence quick-setup
// string ("cache 300"). Each configuration is offered entry counts below, at
// and above every boundary in sight: the dump block size (128), the configured
// size (and its round-up to a block), the capacity the backend really has.
//
// Oracle, per case:
//   - what the source cache holds at dump time is what its dump contains
//     (independent reader) and what its "cache dumped" log line counts;
//   - a cache with the SAME configuration that loads this dump holds exactly
//     these entries afterwards (same key, message, three times), serves every
//     question the source served, with the same answer and remaining TTL;
//   - a cache with ANOTHER configuration ends up holding as many of them as it
//     does when the very same questions are stored through Exec (the capacity
//     reference is the real cache, never a formula of the harness), and holds
//     nothing the dump does not contain;
//   - the same holds for a hand-written dump with arbitrary block sizes loaded
//     into the small cache;
//   - the loader's "cache dump loaded" count lies between what the cache holds
//     afterwards and what the file contains.

import (
	"context"
	"fmt"
	"math/rand"
	"os"
	"path/filepath"
	"regexp"
	"runtime"
	"sort"
	"strings"
	"sync"
	"time"

	"github.com/IrineSistiana/mosdns/v5/pkg/query_context"
	"github.com/IrineSistiana/mosdns/v5/pkg/utils"
	cacheplugin "github.com/IrineSistiana/mosdns/v5/plugin/executable/cache"
	"github.com/IrineSistiana/mosdns/v5/plugin/executable/sequence"
	"github.com/miekg/dns"
	"github.com/prometheus/client_golang/prometheus"
	dto "github.com/prometheus/client_model/go"
	"go.uber.org/zap"
	"go.uber.org/zap/zapcore"
	"go.uber.org/zap/zaptest/observer"
	"gopkg.in/yaml.v3"
)

// capCfg is one point of the configuration space, kept as the user would
// write it.
type capCfg struct {
	Spelling string `json:"spelling"` // yaml | quick
	Text     string `json:"text"`     // YAML args, or the quick-setup argument string
	SizeSet  bool   `json:"size_set"`
	Size     int    `json:"size"`
	Lazy     int    `json:"lazy_cache_ttl"`
	IvSet    bool   `json:"dump_interval_set"`
	Interval int    `json:"dump_interval"`
}

func (c capCfg) sizeClass() string {
	switch {
	case !c.SizeSet:
		return "size-unset"
	case c.Size <= 0:
		return "size-nonpositive"
	case c.Size < 1024:
		return "size-below-1024"
	case c.Size == 1024:
		return "size-1024"
	}
	return "size-above-1024"
}

func (c capCfg) sizeName() string {
	if !c.SizeSet {
		return "unset"
	}
	return fmt.Sprint(c.Size)
}

// nominal figures, used ONLY to choose entry counts around the boundaries;
// no verdict depends on them.
func (c capCfg) nominalCapacity() int {
	s := c.Size
	if !c.SizeSet || s < 1024 {
		s = 1024
	}
	return s / 64 * 64
}

func roundUp(n, m int) int { return (n + m - 1) / m * m }

func mkCfg(rng *rand.Rand, sizeSet bool, size, lazy int, ivSet bool, iv int, quick bool) capCfg {
	c := capCfg{Spelling: "yaml", SizeSet: sizeSet, Size: size, Lazy: lazy, IvSet: ivSet, Interval: iv}
	if quick {
		c.Spelling, c.Lazy, c.IvSet, c.Interval = "quick", 0, false, 0
		if sizeSet {
			c.Text = fmt.Sprint(size)
		}
		return c
	}
	var lines []string
	if sizeSet {
		switch rng.Intn(4) {
		case 0:
			lines = append(lines, fmt.Sprintf("size: %q", fmt.Sprint(size))) // weakly typed input
		default:
			lines = append(lines, fmt.Sprintf("size: %d", size))
		}
	}
	if lazy != 0 || rng.Intn(3) == 0 {
		lines = append(lines, fmt.Sprintf("lazy_cache_ttl: %d", lazy))
	}
	if ivSet {
		lines = append(lines, fmt.Sprintf("dump_interval: %d", iv))
	}
	rng.Shuffle(len(lines), func(i, j int) { lines[i], lines[j] = lines[j], lines[i] })
	c.Text = strings.Join(lines, "\n")
	if c.Text != "" {
		c.Text += "\n"
	}
	return c
}

// open builds the real plugin from the configuration text. dumpFile is added to
// the decoded arguments (it is a path of this run, not part of the case).
func (c capCfg) open(dumpFile string) (*box, error) {
	core, logs := observer.New(zapcore.InfoLevel)
	logger := zap.New(core)
	var cp *cacheplugin.Cache
	switch c.Spelling {
	case "quick":
		if dumpFile != "" {
			return nil, fmt.Errorf("quick setup has no dump file")
		}
		f := sequence.GetExecQuickSetup(cacheplugin.PluginType)
		if f == nil {
			return nil, fmt.Errorf("no quick setup registered for %q", cacheplugin.PluginType)
		}
		p, err := f(sequence.NewBQ(nil, logger), c.Text)
		if err != nil {
			return nil, fmt.Errorf("quick setup %q: %w", c.Text, err)
		}
		var ok bool
		if cp, ok = p.(*cacheplugin.Cache); !ok {
			return nil, fmt.Errorf("quick setup returned %T", p)
		}
	default:
		var raw any
		if err := yaml.Unmarshal([]byte(c.Text), &raw); err != nil {
			return nil, fmt.Errorf("yaml: %w", err)
		}
		args := new(cacheplugin.Args)
		if raw != nil {
			if err := utils.WeakDecode(raw, args); err != nil {
				return nil, fmt.Errorf("decode args: %w", err)
			}
		}
		args.DumpFile = dumpFile
		cp = cacheplugin.NewCache(args, cacheplugin.Opts{Logger: logger})
	}
	b := &box{c: cp, api: cp.Api(), reg: prometheus.NewRegistry(), logs: logs, fast: map[string]prometheus.Metric{}}
	_ = cp.RegMetricsTo(b.reg)
	_ = cp.RegMetricsTo(metricCapture{b})
	for _, n := range []string{"hit_total", "lazy_hit_total", "size_current"} {
		if b.fast[n] == nil {
			return nil, fmt.Errorf("the plugin registered no metric %s", n)
		}
	}
	return b, nil
}

// metricCapture is a prometheus.Registerer that only remembers the plugin's
// collectors, so a single metric can be read without gathering a registry.
type metricCapture struct{ b *box }

var fqNameRe = regexp.MustCompile(`fqName: "([^"]*)"`)

func (m metricCapture) Register(c prometheus.Collector) error {
	if mt, ok := c.(prometheus.Metric); ok {
		if g := fqNameRe.FindStringSubmatch(mt.Desc().String()); g != nil {
			m.b.fast[g[1]] = mt
		}
	}
	return nil
}
func (m metricCapture) MustRegister(cs ...prometheus.Collector) {
	for _, c := range cs {
		_ = m.Register(c)
	}
}
func (m metricCapture) Unregister(prometheus.Collector) bool { return true }

func (b *box) fastVal(name string) int64 {
	var d dto.Metric
	if err := b.fast[name].Write(&d); err != nil {
		return -1
	}
	if d.Counter != nil {
		return int64(d.Counter.GetValue())
	}
	return int64(d.Gauge.GetValue())
}

func (b *box) fastSize() int { return int(b.fastVal("size_current")) }

// fastProbe is probe() without registry gathering.
func fastProbe(b *box, q *dns.Msg) (class string, r *dns.Msg) {
	h0, l0 := b.fastVal("hit_total"), b.fastVal("lazy_hit_total")
	r, err := b.exec(q, nil)
	h1, l1 := b.fastVal("hit_total"), b.fastVal("lazy_hit_total")
	switch {
	case err != nil:
		return "error", r
	case l1 > l0 && r != nil:
		return "stale", r
	case h1 > h0 && r != nil:
		return "hit", r
	case r == nil:
		return "miss", nil
	}
	return "odd", r
}

// store forces (q -> up) into the cache whether or not q is cached already.
func (b *box) store(q, up *dns.Msg) error {
	term := sequence.ExecutableFunc(func(_ context.Context, qCtx *query_context.Context) error {
		qCtx.SetResponse(up)
		return nil
	})
	w := sequence.NewChainWalker([]*sequence.ChainNode{{RE: b.c}, {E: term}}, nil)
	ctx, cancel := context.WithTimeout(context.Background(), 10*time.Second)
	defer cancel()
	return w.ExecNext(ctx, query_context.NewContext(q))
}

// infoCounts returns the `entries` field of every info line with this message.
func (b *box) infoCounts(msg string) []int64 {
	var out []int64
	for _, e := range b.logs.All() {
		if e.Message != msg {
			continue
		}
		if v, ok := e.ContextMap()["entries"]; ok {
			switch n := v.(type) {
			case int64:
				out = append(out, n)
			case int:
				out = append(out, int64(n))
			}
		}
	}
	return out
}

type capCase struct {
	Name   string  `json:"name"`
	Cfg    capCfg  `json:"config"`
	Load   *capCfg `json:"reload_config,omitempty"` // nil: the reloading cache has the same configuration
	N      int     `json:"entries_offered"`
	NClass string  `json:"count_class"`
	Fill   string  `json:"fill"`                  // exec | inject | mixed
	Blocks []int   `json:"block_sizes,omitempty"` // of the hand-written dump (inject, mixed)
	Path   string  `json:"path"`                  // api | file | periodic
	Seed   int64   `json:"seed"`
}

type capViol struct {
	key, what string
	extra     map[string]any
}

type capResult struct {
	c                      capCase
	viols                  []capViol
	inconclusive           []string
	live, held, want       int
	offered                int
	srcEvicted             bool
	injectLive, injectHeld int
	injectWant             int
	hitBoth, staleBoth     int
	ttlJudged              int
	skipped                int
	dumpLogChecked         bool
	loadLogChecked         bool
	loadLog                int64
	blocks                 int
	refSame                bool
	compared               bool
}

func (r *capResult) viol(key, format string, a ...any) {
	r.viols = append(r.viols, capViol{key: key, what: fmt.Sprintf(format, a...)})
}

const capSafeKinds = "a aaaa cname-a mx-extra txt srv ns-glue unknown-type caa https soa edns-a flags-a nodata"

func capSpecs(rng *rand.Rand, c capCase, nowS int64) (inj, ex []*entSpec) {
	kinds := strings.Fields(capSafeKinds)
	nInj := 0
	switch c.Fill {
	case "inject":
		nInj = c.N
	case "mixed":
		nInj = c.N / 2
	}
	for i := 0; i < c.N; i++ {
		kind := "a"
		if rng.Intn(100) < 12 {
			kind = kinds[rng.Intn(len(kinds))]
		}
		if i < nInj {
			s := &entSpec{Idx: i, Via: "inject", Kind: kind}
			age := []int64{0, 1, 59, 300, int64(rng.Intn(5000))}[rng.Intn(5)]
			r := rng.Intn(100)
			var gen ttlGen
			switch {
			case r < 80:
				s.Group = "fresh"
				base := uint32(age) + 600 + uint32(rng.Intn(100000))
				gen = func() uint32 { return base + uint32(rng.Intn(3))*uint32(rng.Intn(1000)) }
			case r < 92:
				s.Group = "stale"
				if age < 100 {
					age = 100 + int64(rng.Intn(5000))
				}
				base := uint32(1 + rng.Int63n(age-60))
				first := true
				gen = func() uint32 {
					if first {
						first = false
						return base
					}
					return base + uint32(rng.Intn(2))*uint32(rng.Intn(100000))
				}
			default:
				s.Group = "dead"
				gen = longTTLs(rng)
			}
			q, up := genReply(rng, i, kind, gen, 0)
			s.Q, s.Resp = q, stripOpt(up)
			s.OrigTTL = ttlVector(s.Resp)
			s.MinTTL = minOf(s.OrigTTL)
			s.Stored = nowS - age
			far := int64(900 + rng.Intn(100000))
			switch s.Group {
			case "fresh":
				s.MsgExp = s.Stored + int64(s.MinTTL)
				s.CacheExp = s.MsgExp
				if c.Cfg.Lazy > 0 && rng.Intn(2) == 0 {
					s.CacheExp = nowS + far + int64(c.Cfg.Lazy)
				}
			case "stale":
				s.MsgExp = s.Stored + int64(s.MinTTL) // at least 60 s ago
				s.CacheExp = nowS + far
			case "dead":
				s.CacheExp = nowS - 60 - int64(rng.Intn(100000))
				s.MsgExp = s.CacheExp
			}
			inj = append(inj, s)
			continue
		}
		s := &entSpec{Idx: i, Via: "exec", Kind: kind, Group: "long"}
		gen := longTTLs(rng)
		if kind == "nodata" {
			gen = fixedTTLs([]uint32{uint32(600 + rng.Intn(5000))}) // empty answers live min(ttl,300) s
		}
		q, up := genReply(rng, i, kind, gen, 0)
		s.Q, s.Up, s.Resp = q, up, stripOpt(up)
		s.OrigTTL = ttlVector(s.Resp)
		s.MinTTL = minOf(s.OrigTTL)
		s.Plain = up.Rcode == dns.RcodeSuccess && len(up.Answer) > 0
		ex = append(ex, s)
	}
	return
}

// capRef asks the real cache how many of these questions a cache with this
// configuration can hold: they are stored through Exec and the size gauge is
// read. The keys it then dumps are returned so the caller can verify that the
// reference stored the same keys.
func capRef(cfg capCfg, qs []qspec) (int, map[string]bool, error) {
	rc := cfg
	R, err := rc.open("")
	if err != nil {
		return 0, nil, err
	}
	defer R.close()
	for i, q := range qs {
		qm := q.msg(uint16(i))
		tok := new(dns.Msg)
		tok.SetReply(qm)
		tok.Answer = []dns.RR{&dns.A{Hdr: hdr(q.Name, dns.TypeA, 86400), A: []byte{10, 9, 9, 9}}}
		if err := R.store(qm, tok); err != nil {
			return 0, nil, err
		}
	}
	n := R.fastSize()
	code, b := R.dump()
	if code != 200 {
		return n, nil, fmt.Errorf("reference cache /dump: %d", code)
	}
	d, err := decodeDump(b)
	if err != nil {
		return n, nil, fmt.Errorf("reference cache dump: %v", err)
	}
	keys := make(map[string]bool, len(d.Entries))
	for _, e := range d.Entries {
		keys[string(e.Key)] = true
	}
	return n, keys, nil
}

func describeCfg(c capCfg) string {
	if c.Spelling == "quick" {
		return fmt.Sprintf("quick setup \"cache %s\"", c.Text)
	}
	return fmt.Sprintf("args {%s}", strings.ReplaceAll(strings.TrimSpace(c.Text), "\n", ", "))
}

func runCapCase(c capCase) *capResult {
	res := &capResult{c: c, offered: c.N}
	rng := rand.New(rand.NewSource(c.Seed))
	nowS := time.Now().Unix()
	loadCfg := c.Cfg
	same := c.Load == nil
	if !same {
		loadCfg = *c.Load
	}
	cfgTxt := describeCfg(c.Cfg)

	dir, err := os.MkdirTemp(tmpDir, "cap-")
	if err != nil {
		res.inconclusive = append(res.inconclusive, "mkdtemp: "+err.Error())
		return res
	}
	defer os.RemoveAll(dir)
	fileA, fileB := "", ""
	if c.Path != "api" {
		fileA, fileB = filepath.Join(dir, "a.dump"), filepath.Join(dir, "b.dump")
	}

	inj, ex := capSpecs(rng, c, nowS)
	specs := append(append([]*entSpec(nil), inj...), ex...)
	byName := make(map[string]*entSpec, len(specs))
	for _, s := range specs {
		byName[fmt.Sprintf("%s/%d", s.Q.Name, s.Q.Qtype)] = s
	}

	// ---- hand-written dump for the injected entries ----
	var X []byte
	var injLive []qspec
	if len(inj) > 0 {
		if err := harvestKeys(inj); err != nil {
			res.inconclusive = append(res.inconclusive, err.Error())
			return res
		}
		es := make([]dumpEntry, len(inj))
		for i, s := range inj {
			es[i] = s.dumpEntry()
			if s.Group != "dead" {
				injLive = append(injLive, s.Q)
			}
		}
		X = craftDump(es, c.Blocks)
		if fileA != "" {
			_ = os.WriteFile(fileA, X, 0o644)
		}
	}

	// ---- source cache ----
	A, err := c.Cfg.open(fileA)
	if err != nil {
		res.inconclusive = append(res.inconclusive, "source cache: "+err.Error())
		return res
	}
	aClosed := false
	defer func() {
		if !aClosed {
			A.close()
		}
	}()
	if X != nil {
		if fileA != "" {
			if errs := A.errorLogs(); len(errs) > 0 {
				res.viol("wellformed-dump-rejected", "%s: start-up load of a well-formed dump file (independent writer, %d entries, block sizes %v) logged: %v", cfgTxt, len(inj), c.Blocks, errs)
				return res
			}
		} else if code, msg := A.load(X); code != 200 {
			res.viol("wellformed-dump-rejected", "%s: POST /load_dump of a well-formed dump (independent writer, %d entries, block sizes %v) answered %d %q", cfgTxt, len(inj), c.Blocks, code, msg)
			return res
		}
		res.injectLive = len(injLive)
		res.injectHeld = A.fastSize()
		want, _, err := capRef(c.Cfg, injLive)
		if err != nil {
			res.inconclusive = append(res.inconclusive, "capacity reference: "+err.Error())
			return res
		}
		res.injectWant = want
		if res.injectHeld < want {
			res.viol("load-underfills-cache-"+c.Cfg.sizeClass(), "%s: a well-formed dump with %d live entries (blocks of %v entries) was loaded into the empty cache, which then holds %d entries; the same cache holds %d of these questions when they are stored through Exec", cfgTxt, len(injLive), c.Blocks, res.injectHeld, want)
		}
	}
	for _, s := range ex {
		qm := s.Q.msg(uint16(rng.Intn(65536)))
		s.U0 = time.Now()
		err := A.store(qm, s.Up.Copy())
		s.U1 = time.Now()
		if err != nil {
			res.inconclusive = append(res.inconclusive, "store: "+err.Error())
			return res
		}
	}
	if c.Path == "periodic" {
		// the periodic dump only runs after 1024 updates: refresh entries until then
		for n := len(ex); n < 1100 && len(ex) > 0; n++ {
			s := ex[n%len(ex)]
			t0 := time.Now()
			_ = A.store(s.Q.msg(uint16(n)), s.Up.Copy())
			s.U0, s.U1 = minTime(s.U0, t0), time.Now()
		}
	}

	// ---- what the source holds ----
	classA := make([]string, len(specs))
	ansA := make([]*dns.Msg, len(specs))
	tA0 := make([]time.Time, len(specs))
	tA1 := make([]time.Time, len(specs))
	for i, s := range specs {
		tA0[i] = time.Now()
		classA[i], ansA[i] = fastProbe(A, s.Q.msg(uint16(i)))
		tA1[i] = time.Now()
	}
	sizeA := A.fastSize()

	// ---- D ----
	var D []byte
	switch c.Path {
	case "api":
		code, b := A.dump()
		if code != 200 {
			res.viol("dump-failed", "%s: GET /dump answered %d", cfgTxt, code)
			return res
		}
		D = append([]byte(nil), b...)
	case "file":
		A.close()
		aClosed = true
		for _, m := range A.errorLogs() {
			if strings.HasPrefix(m, "failed to dump cache") {
				res.viol("dump-failed", "%s: Close() could not write the dump file: %s", cfgTxt, m)
				return res
			}
		}
		if D, err = os.ReadFile(fileA); err != nil {
			res.inconclusive = append(res.inconclusive, "read dump file: "+err.Error())
			return res
		}
	case "periodic":
		deadline := time.Now().Add(150 * time.Second)
		for len(A.infoCounts("cache dumped")) == 0 {
			if errs := A.errorLogs(); len(errs) > 1 || (len(errs) == 1 && !strings.HasPrefix(errs[0], "failed to load cache dump")) {
				res.viol("dump-failed", "%s: the periodic dump logged: %v", cfgTxt, errs)
				return res
			}
			if time.Now().After(deadline) {
				res.inconclusive = append(res.inconclusive, fmt.Sprintf("%s: no periodic dump within 150 s of %d updates", cfgTxt, 1100))
				return res
			}
			time.Sleep(50 * time.Millisecond)
		}
		if D, err = os.ReadFile(fileA); err != nil {
			res.inconclusive = append(res.inconclusive, "read dump file: "+err.Error())
			return res
		}
	}
	dd, err := decodeDump(D)
	if err != nil {
		res.viol("dump-undecodable", "%s: the independent reader cannot decode the dump of a cache holding %d entries: %v", cfgTxt, sizeA, err)
		return res
	}
	res.live = len(dd.Entries)
	res.blocks = len(dd.BlockSizes)
	res.srcEvicted = sizeA < len(specs)-countGroup(inj, "dead")
	if len(dd.Entries) != sizeA {
		res.viol("dump-count-differs-from-cache-size", "%s: the cache holds %d entries (none of them near its expiry), its dump contains %d", cfgTxt, sizeA, len(dd.Entries))
	}
	if c.Path != "api" {
		if n := A.infoCounts("cache dumped"); len(n) > 0 {
			res.dumpLogChecked = true
			if n[len(n)-1] != int64(len(dd.Entries)) {
				res.viol("dump-log-count-wrong", "%s: the cache logged \"cache dumped\" entries=%d, the file contains %d entries", cfgTxt, n[len(n)-1], len(dd.Entries))
			}
		}
	}
	byKey := map[string]*dumpEntry{}
	byQ := map[string]*dumpEntry{}
	var dQs []qspec
	unknownQ := 0
	for i := range dd.Entries {
		e := &dd.Entries[i]
		if byKey[string(e.Key)] != nil {
			res.viol("dump-duplicate-key", "%s: key %x dumped twice", cfgTxt, e.Key)
		}
		byKey[string(e.Key)] = e
		qk, _ := questionKey(e.Msg)
		byQ[qk] = e
		if s := byName[qk]; s != nil {
			dQs = append(dQs, s.Q)
		} else {
			unknownQ++
		}
	}
	entryOf := func(s *entSpec) *dumpEntry {
		if s.Key != nil {
			return byKey[string(s.Key)]
		}
		return byQ[fmt.Sprintf("%s/%d", s.Q.Name, s.Q.Qtype)]
	}
	if unknownQ > 0 {
		res.viol("dump-holds-foreign-entry", "%s: the dump contains %d entries for questions nobody stored", cfgTxt, unknownQ)
	}
	for i, s := range specs {
		if (classA[i] == "hit" || classA[i] == "stale") && entryOf(s) == nil {
			res.viol("dump-misses-live-entry", "%s: %s (%s/%s) is served by the cache (%s) and is not in its dump of %d entries", cfgTxt, s.Q.Name, s.Via, s.Group, classA[i], len(dd.Entries))
			break
		}
	}

	// ---- capacity reference for the reloading configuration ----
	want, refKeys, err := capRef(loadCfg, dQs)
	if err != nil {
		res.inconclusive = append(res.inconclusive, "capacity reference: "+err.Error())
		return res
	}
	for k := range refKeys {
		if byKey[k] == nil {
			res.inconclusive = append(res.inconclusive, fmt.Sprintf("%s: the capacity reference stored a key the dump does not contain", cfgTxt))
			return res
		}
	}
	res.want = want
	if same {
		if want != len(dd.Entries) {
			res.inconclusive = append(res.inconclusive, fmt.Sprintf("%s: the source cache held %d entries but an equally configured cache holds only %d of the same questions", cfgTxt, len(dd.Entries), want))
			return res
		}
		res.refSame = true
	}

	// ---- B <- D ----
	loadTxt := "an empty cache with the same configuration"
	if !same {
		loadTxt = "an empty cache with " + describeCfg(loadCfg)
	}
	var B *box
	if c.Path == "api" {
		if B, err = loadCfg.open(""); err != nil {
			res.inconclusive = append(res.inconclusive, "reloading cache: "+err.Error())
			return res
		}
		if code, msg := B.load(D); code != 200 {
			B.close()
			res.viol("intact-dump-rejected", "%s: POST /load_dump of the cache's own dump (%d bytes, %d entries) into %s answered %d %q", cfgTxt, len(D), len(dd.Entries), loadTxt, code, msg)
			return res
		}
	} else {
		_ = os.WriteFile(fileB, D, 0o644)
		if B, err = loadCfg.open(fileB); err != nil {
			res.inconclusive = append(res.inconclusive, "reloading cache: "+err.Error())
			return res
		}
		if errs := B.errorLogs(); len(errs) > 0 {
			B.close()
			res.viol("intact-dump-rejected", "%s: restart of %s with the dump file (%d bytes, %d entries) logged: %v", cfgTxt, loadTxt, len(D), len(dd.Entries), errs)
			return res
		}
	}
	defer B.close()
	res.held = B.fastSize()
	if c.Path != "api" {
		if n := B.infoCounts("cache dump loaded"); len(n) == 1 {
			res.loadLogChecked = true
			res.loadLog = n[0]
			if n[0] < int64(res.held) || n[0] > int64(len(dd.Entries)) {
				res.viol("load-log-count-wrong", "%s: start-up logged \"cache dump loaded\" entries=%d; the file contains %d entries and the cache holds %d afterwards", cfgTxt, n[0], len(dd.Entries), res.held)
			}
		} else {
			res.viol("load-log-missing", "%s: start-up with an intact dump file logged neither an error nor \"cache dump loaded\" (%d such lines)", cfgTxt, len(n))
		}
	}

	codeB, DB := B.dump()
	if codeB != 200 {
		res.viol("dump-failed", "%s: GET /dump of the reloaded cache answered %d", cfgTxt, codeB)
		return res
	}
	ddB, err := decodeDump(DB)
	if err != nil {
		res.viol("dump-undecodable", "%s: dump of the reloaded cache: %v", cfgTxt, err)
		return res
	}
	res.compared = true
	sa, sb := tupleSet(dd.Entries), tupleSet(ddB.Entries)
	bk := map[string]*dumpEntry{}
	for i := range ddB.Entries {
		bk[string(ddB.Entries[i].Key)] = &ddB.Entries[i]
	}
	missing, firstMissing := 0, ""
	for i := range dd.Entries {
		e := &dd.Entries[i]
		if sb[tupleOf(*e)] > 0 {
			continue
		}
		qk, _ := questionKey(e.Msg)
		if o := bk[string(e.Key)]; o != nil {
			res.viol("reload-alters-entry", "%s: %s: the dump has (cache_exp=%d msg_exp=%d stored=%d msg %dB), after the reload the cache dumps (cache_exp=%d msg_exp=%d stored=%d msg %dB)", cfgTxt, qk, e.CacheExp, e.MsgExp, e.Stored, len(e.Msg), o.CacheExp, o.MsgExp, o.Stored, len(o.Msg))
			continue
		}
		missing++
		if firstMissing == "" {
			firstMissing = qk
		}
	}
	for i := range ddB.Entries {
		e := &ddB.Entries[i]
		if sa[tupleOf(*e)] == 0 && byKey[string(e.Key)] == nil {
			qk, _ := questionKey(e.Msg)
			res.viol("reload-adds-foreign-entry", "%s: after the reload the cache holds %s (cache_exp=%d msg_exp=%d stored=%d), which the dump does not contain", cfgTxt, qk, e.CacheExp, e.MsgExp, e.Stored)
			break
		}
	}
	loaderSaid := ""
	if res.loadLogChecked {
		loaderSaid = fmt.Sprintf(", the loader logged entries=%d", res.loadLog)
	}
	switch {
	case same && (missing > 0 || res.held < len(dd.Entries)):
		res.viol("reload-drops-live-entries-"+c.Cfg.sizeClass(), "%s, %d entries offered (%s, path %s): the cache held %d live entries at dump time (dump: %d entries in %d blocks); %s that loaded this dump without reporting an error holds %d, %d live entries are gone (first: %s)%s", cfgTxt, c.N, c.Fill, c.Path, sizeA, len(dd.Entries), len(dd.BlockSizes), loadTxt, res.held, missing, firstMissing, loaderSaid)
	case !same && res.held < want:
		k := "reload-underfills-smaller-cache"
		if want == len(dd.Entries) {
			k = "reload-drops-live-entries-other-size"
		}
		res.viol(k, "%s, %d entries offered (%s, path %s): dump of %d live entries in %d blocks; %s that loaded it without reporting an error holds %d entries, but holds %d of the very same questions when they are stored through Exec%s", cfgTxt, c.N, c.Fill, c.Path, len(dd.Entries), len(dd.BlockSizes), loadTxt, res.held, want, loaderSaid)
	}

	// ---- every question, source and reloaded cache ----
	for i, s := range specs {
		e := entryOf(s)
		t1 := time.Now()
		cb, rb := fastProbe(B, s.Q.msg(uint16(i)))
		t2 := time.Now()
		ca, ra := classA[i], ansA[i]
		if e != nil {
			near := func(x int64) bool { return x >= tA0[i].Unix()-1 && x <= t2.Unix()+1 }
			if near(e.MsgExp) || near(e.CacheExp) {
				res.skipped++
				continue
			}
		}
		if ca != cb {
			if cb == "miss" && e != nil && bk[string(e.Key)] == nil && (!same || missing > 0) {
				continue // the entry is not in the reloaded cache: judged above, once per case
			}
			if same || (cb != "miss") {
				res.viol("reload-class-differs-"+ca+"-"+cb, "%s: %s (%s/%s): the source cache answers %q, %s that loaded its dump answers %q", cfgTxt, s.Q.Name, s.Via, s.Group, ca, loadTxt, cb)
			}
			continue
		}
		if ca != "hit" && ca != "stale" {
			continue
		}
		if semantic(ra) != semantic(rb) {
			res.viol("reload-answer-differs", "%s: %s: the reloaded cache serves a different answer", cfgTxt, s.Q.Name)
			continue
		}
		ta, tb := ttlVector(ra), ttlVector(rb)
		if ca == "stale" {
			res.staleBoth++
			if !eqU32(ta, tb) {
				res.viol("reload-ttl-differs", "%s: %s (stale): TTLs source=%v reloaded=%v", cfgTxt, s.Q.Name, ta, tb)
			}
			continue
		}
		res.hitBoth++
		if e == nil {
			continue
		}
		// remaining TTLs to the second: the dump says when the message was stored
		sT := time.Unix(e.Stored, 0)
		aLo, aHi := floorSec(tA0[i].Sub(sT))-1, floorSec(tA1[i].Sub(sT)) // the source knows the sub-second part
		if _, ok := fitElapsed(s.OrigTTL, ta, aLo, aHi); !ok {
			res.skipped++
			continue
		}
		bLo, bHi := floorSec(t1.Sub(sT)), floorSec(t2.Sub(sT))
		res.ttlJudged++
		if _, ok := fitElapsed(s.OrigTTL, tb, bLo, bHi); !ok {
			res.viol("reload-ttl-differs", "%s: %s (%s/%s): original TTLs %v, stored at %d; the source serves %v, the reloaded cache serves %v - not the remaining TTLs for any age in [%d,%d]", cfgTxt, s.Q.Name, s.Via, s.Group, s.OrigTTL, e.Stored, ta, tb, bLo, bHi)
		}
	}
	return res
}

func minTime(a, b time.Time) time.Time {
	if a.Before(b) {
		return a
	}
	return b
}

func countGroup(ss []*entSpec, g string) int {
	n := 0
	for _, s := range ss {
		if s.Group == g {
			n++
		}
	}
	return n
}

// ---------------------------------------------------------------------------
// case list

type sizeSpec struct {
	set  bool
	size int
}

var capSizes = []sizeSpec{
	{false, 0}, {true, 0}, {true, -1}, {true, -4096},
	{true, 1}, {true, 63}, {true, 64}, {true, 65}, {true, 127}, {true, 128}, {true, 129},
	{true, 300}, {true, 512}, {true, 640}, {true, 1000}, {true, 1023},
	{true, 1024}, {true, 1025}, {true, 1087}, {true, 1088}, {true, 1500}, {true, 2048}, {true, 5000},
}

type countPick struct {
	n     int
	class string
}

// countGroups lists, for one configuration, the entry counts worth offering,
// grouped by the boundary they sit at.
func countGroups(c capCfg) [][]countPick {
	C := c.nominalCapacity()
	var small, cfgB, between, capB []countPick
	for _, n := range []int{0, 1, 127, 128, 129, 255, 256, 257, 384} {
		if n < C/2 {
			small = append(small, countPick{n, "blocks-below-capacity"})
		}
	}
	if c.SizeSet && c.Size > 1 && c.Size < C {
		s := c.Size
		ru := roundUp(s, 128)
		for _, n := range []int{s - 1, s, s + 1, ru} {
			cfgB = append(cfgB, countPick{n, "at-configured-size"})
		}
		for _, n := range []int{ru + 1, ru + 128, ru + 129, (ru + C) / 2, C - 129} {
			if n > ru && n < C {
				between = append(between, countPick{n, "between-configured-size-and-capacity"})
			}
		}
	} else if c.SizeSet && c.Size == 1 {
		for _, n := range []int{2, 130, 300, 700, 895} {
			between = append(between, countPick{n, "between-configured-size-and-capacity"})
		}
	} else {
		for _, n := range []int{C / 2, C - 129, C * 3 / 4} {
			between = append(between, countPick{n, "approaching-capacity"})
		}
	}
	for _, n := range []int{C - 1, C, C + 1, C + 257, 2 * C} {
		capB = append(capB, countPick{n, "at-or-above-capacity"})
	}
	return [][]countPick{small, cfgB, between, capB}
}

var capBlockPatterns = [][]int{{128}, {1}, {7, 128, 200}, {50}, {1000}, {64}, {129, 127}}

func capCases(seed int64, thorough bool) []capCase {
	rng := rand.New(rand.NewSource(seed ^ 0x19ca9))
	var out []capCase
	add := func(cfg capCfg, load *capCfg, p countPick, fill, path string) {
		c := capCase{Cfg: cfg, Load: load, N: p.n, NClass: p.class, Fill: fill, Path: path, Seed: seed*1000003 + int64(len(out))*104729 + 19}
		if fill != "exec" {
			c.Blocks = capBlockPatterns[rng.Intn(len(capBlockPatterns))]
		}
		c.Name = fmt.Sprintf("size-%s/lazy-%d/%s/n-%d/%s/%s", cfg.sizeName(), cfg.Lazy, cfg.Spelling, p.n, fill, path)
		if load != nil {
			c.Name += "/reload-into-size-" + load.sizeName()
		}
		out = append(out, c)
	}
	ivs := []struct {
		set bool
		iv  int
	}{{false, 0}, {true, 0}, {true, -7}, {true, 3600}, {true, 600}}
	pickCfg := func(sz sizeSpec, path string) capCfg {
		lazy := []int{0, 0, 3600, 86400}[rng.Intn(4)]
		iv := ivs[rng.Intn(len(ivs))]
		quick := path == "api" && rng.Intn(5) == 0
		return mkCfg(rng, sz.set, sz.size, lazy, iv.set, iv.iv, quick)
	}
	pickFill := func() string { return []string{"exec", "exec", "exec", "exec", "inject", "mixed"}[rng.Intn(6)] }
	pickPath := func() string { return []string{"api", "api", "file"}[rng.Intn(3)] }
	for _, sz := range capSizes {
		probe := mkCfg(rng, sz.set, sz.size, 0, false, 0, false)
		for _, g := range countGroups(probe) {
			if len(g) == 0 {
				continue
			}
			picks := g
			if !thorough {
				picks = []countPick{g[rng.Intn(len(g))]}
			}
			for _, p := range picks {
				paths := []string{pickPath()}
				if thorough {
					paths = []string{"api", "file"}
				}
				for _, path := range paths {
					add(pickCfg(sz, path), nil, p, pickFill(), path)
				}
			}
		}
	}
	// the periodic dump (dump_interval: 1) as the writer
	per := []sizeSpec{{true, 300}, {false, 0}, {true, 1500}}
	if thorough {
		per = append(per, sizeSpec{true, 1}, sizeSpec{true, 1024}, sizeSpec{true, 640})
	}
	for _, sz := range per {
		cfg := mkCfg(rng, sz.set, sz.size, []int{0, 3600}[rng.Intn(2)], true, 1, false)
		g := countGroups(cfg)
		p := g[2][rng.Intn(len(g[2]))]
		add(cfg, nil, p, "exec", "periodic")
	}
	// dumps taken under one configuration, loaded under another
	cross := [][2]sizeSpec{
		{{true, 300}, {false, 0}}, {{false, 0}, {true, 300}}, {{true, 5000}, {true, 1024}}, {{true, 1024}, {true, 5000}},
		{{true, 2048}, {true, 300}}, {{true, 300}, {true, 2048}}, {{true, 1}, {true, 1025}}, {{true, 5000}, {true, -1}},
		{{true, 1500}, {true, 1087}}, {{true, 640}, {true, 1500}},
	}
	for _, pr := range cross {
		path := pickPath()
		src := pickCfg(pr[0], path)
		if src.Spelling == "quick" {
			src = mkCfg(rng, pr[0].set, pr[0].size, src.Lazy, false, 0, false)
		}
		dst := mkCfg(rng, pr[1].set, pr[1].size, src.Lazy, false, 0, false)
		g := countGroups(src)
		var pool []countPick
		pool = append(pool, g[2]...)
		pool = append(pool, g[3][:3]...)
		n := 1
		if thorough {
			n = 3
		}
		for i := 0; i < n; i++ {
			add(src, &dst, pool[rng.Intn(len(pool))], pickFill(), path)
		}
	}
	return out
}

// ---------------------------------------------------------------------------

func reportCapResult(r *capResult) {
	c := r.c
	rep.Eval(1)
	rep.Count("cap_cases", 1)
	rep.Count("cap_entries_offered", int64(r.offered))
	rep.Count("cap_entries_live_at_dump", int64(r.live))
	rep.Count("cap_entries_held_after_reload", int64(r.held))
	rep.Count("cap_dump_blocks", int64(r.blocks))
	rep.Count("cap_questions_served_by_both", int64(r.hitBoth))
	rep.Count("cap_stale_served_by_both", int64(r.staleBoth))
	rep.Count("cap_ttl_vectors_judged", int64(r.ttlJudged))
	rep.Count("cap_probes_skipped", int64(r.skipped))
	rep.SetAdd("cap_configurations", describeCfg(c.Cfg))
	rep.SetAdd("cap_classes", fmt.Sprintf("%s x %s x %s x %s", c.Cfg.sizeClass(), c.NClass, c.Fill, c.Path))
	if r.compared {
		rep.Count("cap_reloads_compared", 1)
		rep.Count("cap_reloads_compared:"+c.Cfg.sizeClass(), 1)
		if r.live > 0 {
			rep.Nontrivial("cap/" + c.Name)
		}
		if c.Cfg.SizeSet && c.Cfg.Size > 0 && r.live > c.Cfg.Size {
			rep.Count("cap_reloads_with_more_live_entries_than_configured_size", 1)
			if r.live > roundUp(c.Cfg.Size, 128) {
				rep.Count("cap_reloads_with_more_live_entries_than_configured_size_rounded_to_a_block", 1)
			}
		}
		if r.srcEvicted {
			rep.Count("cap_reloads_of_a_source_that_had_evicted", 1)
		}
		if r.live > 0 && r.live%128 == 0 {
			rep.Count("cap_reloads_of_whole_blocks_only", 1)
		}
		if c.Load != nil {
			rep.Count("cap_reloads_under_another_configuration", 1)
			if r.want < r.live {
				rep.Count("cap_reloads_into_a_cache_too_small_for_the_dump", 1)
			}
		}
		if r.refSame {
			rep.Count("cap_capacity_reference_confirmed_by_source", 1)
		}
		rep.Max("cap_max_live_entries", int64(r.live))
	}
	if r.injectLive > 0 {
		rep.Count("cap_handwritten_dumps_loaded_into_configured_cache", 1)
		if r.injectWant < r.injectLive {
			rep.Count("cap_handwritten_dumps_larger_than_the_cache", 1)
		}
	}
	if r.dumpLogChecked {
		rep.Count("cap_dump_log_counts_checked", 1)
	}
	if r.loadLogChecked {
		rep.Count("cap_load_log_counts_checked", 1)
	}
	if c.Path == "periodic" && r.compared {
		rep.Count("cap_periodic_dumps_reloaded", 1)
	}
	for _, m := range r.inconclusive {
		rep.Inconclusive("capacity case %s: %s", c.Name, m)
	}
	for _, v := range r.viols {
		rep.Violation(v.key, v.what, replayCase{Phase: "capacity", Cap: &r.c})
	}
}

func runCapacityPhase() {
	cases := capCases(rep.Seed, rep.Thorough())
	t0 := time.Now()
	runCapCases(cases)
	rep.Extra("cap_phase_wall_ms", time.Since(t0).Milliseconds())
	if rep.Violations() == 0 {
		need := []string{"cap_reloads_compared:size-unset", "cap_reloads_compared:size-nonpositive", "cap_reloads_compared:size-below-1024", "cap_reloads_compared:size-1024", "cap_reloads_compared:size-above-1024",
			"cap_reloads_with_more_live_entries_than_configured_size_rounded_to_a_block", "cap_reloads_of_a_source_that_had_evicted", "cap_reloads_under_another_configuration",
			"cap_handwritten_dumps_loaded_into_configured_cache", "cap_load_log_counts_checked", "cap_periodic_dumps_reloaded", "cap_ttl_vectors_judged"}
		for _, k := range need {
			if rep.Get(k) == 0 {
				rep.Inconclusive("configuration phase: nothing observed for %s", k)
			}
		}
	}
}

func runCapCases(cases []capCase) {
	par := runtime.NumCPU()
	if par > 12 {
		par = 12
	}
	if par < 2 {
		par = 2
	}
	// longest first (the periodic ones wait for a ticker)
	order := make([]int, len(cases))
	for i := range order {
		order[i] = i
	}
	sort.SliceStable(order, func(a, b int) bool {
		pa, pb := cases[order[a]].Path == "periodic", cases[order[b]].Path == "periodic"
		if pa != pb {
			return pa
		}
		return cases[order[a]].N > cases[order[b]].N
	})
	results := make([]*capResult, len(cases))
	sem := make(chan struct{}, par)
	var wg sync.WaitGroup
	for _, i := range order {
		wg.Add(1)
		sem <- struct{}{}
		go func(i int) {
			defer wg.Done()
			defer func() { <-sem }()
			caselog.Log(map[string]any{"phase": "capacity", "case": cases[i]})
			results[i] = runCapCase(cases[i])
		}(i)
	}
	wg.Wait()
	sampled := 0
	for _, r := range results {
		reportCapResult(r)
		if r.compared && r.c.Cfg.sizeClass() == "size-below-1024" && r.live > roundUp(r.c.Cfg.Size, 128) && sampled < 2 {
			sampled++
			rep.Sample(map[string]any{"phase": "capacity", "case": r.c, "live_at_dump": r.live, "dump_blocks": r.blocks, "capacity_reference": r.want, "held_after_reload": r.held, "served_by_both": r.hitBoth, "ttl_vectors_judged": r.ttlJudged})
		}
	}
}
