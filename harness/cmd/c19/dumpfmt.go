package main

// Independent reader / writer for the cache dump format.
//
// Nothing here uses mosdns' generated protobuf code or its gzip library: the
// stream is opened with the standard library's compress/gzip, blocks are
// framed by hand (8-byte big-endian length) and the protobuf payload is walked
// field by field by number. The writer hand-encodes protobuf as well, so it can
// also produce encodings the generated code would never emit.

import (
	"bytes"
	"compress/gzip"
	"encoding/binary"
	"errors"
	"fmt"
	"io"
	"regexp"
	"sync"
)

const dumpName = "mosdns_cache_v2"

// dumpEntry is one decoded CachedEntry.
type dumpEntry struct {
	Key      []byte
	Msg      []byte
	CacheExp int64
	MsgExp   int64
	Stored   int64
	Present  uint8 // bit n-1 set: field n was present on the wire
	Unknown  int   // fields with other numbers
}

type decodedDump struct {
	Name       string
	Entries    []dumpEntry
	BlockSizes []int // entries per block
	BlockEnds  []int // offset (in the uncompressed stream) of the end of each block
	RawLen     int   // uncompressed length
}

func readVarint(b []byte) (uint64, int) {
	var v uint64
	for i := 0; i < len(b) && i < 10; i++ {
		c := b[i]
		if i == 9 && c > 1 {
			return 0, -1
		}
		v |= uint64(c&0x7f) << (7 * uint(i))
		if c < 0x80 {
			return v, i + 1
		}
	}
	return 0, -1
}

// pbWalk calls f for every field of one protobuf message.
func pbWalk(b []byte, f func(num int, wt int, v uint64, data []byte) error) error {
	for len(b) > 0 {
		tag, n := readVarint(b)
		if n < 0 {
			return errors.New("bad tag varint")
		}
		b = b[n:]
		num, wt := int(tag>>3), int(tag&7)
		if num == 0 {
			return errors.New("field number 0")
		}
		switch wt {
		case 0:
			v, n := readVarint(b)
			if n < 0 {
				return errors.New("bad varint")
			}
			b = b[n:]
			if err := f(num, wt, v, nil); err != nil {
				return err
			}
		case 1:
			if len(b) < 8 {
				return errors.New("short fixed64")
			}
			if err := f(num, wt, binary.LittleEndian.Uint64(b), nil); err != nil {
				return err
			}
			b = b[8:]
		case 5:
			if len(b) < 4 {
				return errors.New("short fixed32")
			}
			if err := f(num, wt, uint64(binary.LittleEndian.Uint32(b)), nil); err != nil {
				return err
			}
			b = b[4:]
		case 2:
			l, n := readVarint(b)
			if n < 0 {
				return errors.New("bad length varint")
			}
			b = b[n:]
			if l > uint64(len(b)) {
				return errors.New("length-delimited field overruns message")
			}
			if err := f(num, wt, l, b[:l]); err != nil {
				return err
			}
			b = b[l:]
		default:
			return fmt.Errorf("unsupported wire type %d", wt)
		}
	}
	return nil
}

func decodeEntry(b []byte) (dumpEntry, error) {
	var e dumpEntry
	err := pbWalk(b, func(num, wt int, v uint64, data []byte) error {
		switch {
		case num == 1 && wt == 2:
			e.Key = append([]byte(nil), data...)
			e.Present |= 1
		case num == 2 && wt == 2:
			e.Msg = append([]byte(nil), data...)
			e.Present |= 2
		case num == 3 && wt == 0:
			e.CacheExp = int64(v)
			e.Present |= 4
		case num == 4 && wt == 0:
			e.MsgExp = int64(v)
			e.Present |= 8
		case num == 5 && wt == 0:
			e.Stored = int64(v)
			e.Present |= 16
		case num >= 1 && num <= 5:
			return fmt.Errorf("field %d has wire type %d", num, wt)
		default:
			e.Unknown++
		}
		return nil
	})
	return e, err
}

// decodeRaw decodes the uncompressed block stream.
func decodeRaw(raw []byte, d *decodedDump) error {
	off := 0
	for off < len(raw) {
		if len(raw)-off < 8 {
			return fmt.Errorf("short block header at %d", off)
		}
		l := binary.BigEndian.Uint64(raw[off:])
		off += 8
		if l > uint64(len(raw)-off) {
			return fmt.Errorf("block of %d bytes at %d overruns stream", l, off)
		}
		blk := raw[off : off+int(l)]
		off += int(l)
		n := 0
		err := pbWalk(blk, func(num, wt int, v uint64, data []byte) error {
			if num == 1 && wt == 2 {
				e, err := decodeEntry(data)
				if err != nil {
					return err
				}
				d.Entries = append(d.Entries, e)
				n++
			}
			return nil
		})
		if err != nil {
			return err
		}
		d.BlockSizes = append(d.BlockSizes, n)
		d.BlockEnds = append(d.BlockEnds, off)
	}
	return nil
}

// gunzipAll returns the gzip name and the complete uncompressed payload of a
// single-member gzip stream (checksum verified).
func gunzipAll(b []byte) (string, []byte, error) {
	zr, err := gzip.NewReader(bytes.NewReader(b))
	if err != nil {
		return "", nil, fmt.Errorf("gzip header: %w", err)
	}
	zr.Multistream(false)
	raw, err := io.ReadAll(zr)
	if err != nil {
		return zr.Name, raw, fmt.Errorf("gzip body: %w", err)
	}
	return zr.Name, raw, nil
}

var (
	unknownVersionName = regexp.MustCompile(`^mosdns_cache_v[0-9]+$`)
	unknownVersionOnce sync.Once
)

// decodeDump is the independent reader.
func decodeDump(b []byte) (*decodedDump, error) {
	name, raw, err := gunzipAll(b)
	if err != nil {
		return nil, err
	}
	d := &decodedDump{Name: name, RawLen: len(raw)}
	if name != dumpName {
		if rep != nil && unknownVersionName.MatchString(name) {
			// a well-formed header of ANOTHER format version: this tree writes a dump format the
			// independent reader does not know (key or block layout may differ). Nothing about
			// fidelity can be decided with a reader for v2: inconclusive, not a finding.
			unknownVersionOnce.Do(func() {
				rep.Inconclusive("this tree writes dump format %q; the independent reader of this check knows %q only - the check has to be ported to the new format before it can decide C19", name, dumpName)
				rep.Finish()
			})
		}
		return d, fmt.Errorf("gzip name %q", name)
	}
	if err := decodeRaw(raw, d); err != nil {
		return d, err
	}
	return d, nil
}

// ---- writer ----

func putVarint(b []byte, v uint64) []byte {
	for v >= 0x80 {
		b = append(b, byte(v)|0x80)
		v >>= 7
	}
	return append(b, byte(v))
}

func pbBytes(b []byte, num int, data []byte) []byte {
	b = putVarint(b, uint64(num)<<3|2)
	b = putVarint(b, uint64(len(data)))
	return append(b, data...)
}

func pbInt(b []byte, num int, v int64) []byte {
	b = putVarint(b, uint64(num)<<3|0)
	return putVarint(b, uint64(v))
}

// encodeEntry writes all five fields explicitly (also zero values), in field order.
func encodeEntry(e dumpEntry) []byte {
	var b []byte
	b = pbBytes(b, 1, e.Key)
	b = pbBytes(b, 2, e.Msg)
	b = pbInt(b, 3, e.CacheExp)
	b = pbInt(b, 4, e.MsgExp)
	b = pbInt(b, 5, e.Stored)
	return b
}

func encodeBlock(es []dumpEntry) []byte {
	var b []byte
	for _, e := range es {
		b = pbBytes(b, 1, encodeEntry(e))
	}
	return b
}

func frameBlock(blk []byte) []byte {
	h := make([]byte, 8, 8+len(blk))
	binary.BigEndian.PutUint64(h, uint64(len(blk)))
	return append(h, blk...)
}

// gzipWrap wraps raw into a single-member gzip stream with the given name.
func gzipWrap(name string, raw []byte, level int) []byte {
	var buf bytes.Buffer
	zw, _ := gzip.NewWriterLevel(&buf, level)
	zw.Name = name
	_, _ = zw.Write(raw)
	_ = zw.Close()
	return buf.Bytes()
}

// craftDump builds a well-formed dump whose blocks have the given sizes
// (the last size is repeated as needed).
func craftDump(es []dumpEntry, blockSizes []int) []byte {
	var raw []byte
	i, bi := 0, 0
	for i < len(es) {
		n := 128
		if len(blockSizes) > 0 {
			n = blockSizes[min(bi, len(blockSizes)-1)]
		}
		if n < 1 {
			n = 1
		}
		j := min(i+n, len(es))
		raw = append(raw, frameBlock(encodeBlock(es[i:j]))...)
		i = j
		bi++
	}
	return gzipWrap(dumpName, raw, gzip.BestSpeed)
}
