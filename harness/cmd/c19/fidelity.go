package main

// (a) Fidelity: cache A is filled through Exec and through injected aged
// entries, dumped, reloaded into a fresh cache B; the dump is decoded by the
// independent reader and A and B are asked every question back-to-back.

import (
	"fmt"
	"math"
	"math/rand"
	"os"
	"path/filepath"
	"strings"
	"time"

	"github.com/miekg/dns"
)

type scenario struct {
	Name       string `json:"name"`
	Lazy       int    `json:"lazy_cache_ttl"`
	NExec      int    `json:"n_exec"`
	NInject    int    `json:"n_inject"`
	ViaFile    bool   `json:"via_file"`  // restart path: Close() writes the file, NewCache loads it
	Big        int    `json:"big_bytes"` // >0: every Exec answer is a TXT set of about this size
	BlockSizes []int  `json:"block_sizes"`
	Seed       int64  `json:"seed"`
	TruncDump  bool   `json:"trunc_dump"` // its dump is used for the crash-point enumeration
	NoShort    bool   `json:"no_short"`   // no short-lived (TTL 1-2 s) Exec entries

	Sizes  []sizeMix `json:"sizes,omitempty"`       // (f) Exec answers of chosen uncompressed sizes
	Rounds int       `json:"rounds,omitempty"`      // (f) further dump -> reload rounds (each dump walks the cache in another order)
	Client string    `json:"http_client,omitempty"` // (e) the dump is downloaded from a real HTTP server by this client model ...
	Loader string    `json:"http_loader,omitempty"` // (e) ... and uploaded to a real server by this one
}

type scenState struct {
	sc     scenario
	A      *box
	specs  []*entSpec
	dir    string
	file   string
	nowS   int64
	failed bool
	D      []byte
	keys   []keyedQ
}

func floorSec(d time.Duration) int64 { return int64(math.Floor(d.Seconds())) }

func ttlModel(T []uint32, e int64) []uint32 {
	out := make([]uint32, len(T))
	for i, t := range T {
		if e >= 0 && int64(t) > e {
			out[i] = uint32(int64(t) - e)
		} else {
			out[i] = 1
		}
	}
	return out
}

func eqU32(a, b []uint32) bool {
	if len(a) != len(b) {
		return false
	}
	for i := range a {
		if a[i] != b[i] {
			return false
		}
	}
	return true
}

func fitElapsed(T, served []uint32, lo, hi int64) (int64, bool) {
	if hi-lo > 64 {
		hi = lo + 64
	}
	for e := lo; e <= hi; e++ {
		if eqU32(ttlModel(T, e), served) {
			return e, true
		}
	}
	return 0, false
}

// harvestKeys lets the plugin itself compute the cache key of every question:
// each question is stored once in a scratch cache with a token answer and the
// key is read back from that cache's dump.
func harvestKeys(specs []*entSpec) error {
	if len(specs) == 0 {
		return nil
	}
	k := newBox(0, "")
	defer k.close()
	for i, s := range specs {
		q := s.Q.msg(uint16(i))
		tok := new(dns.Msg)
		tok.SetReply(q)
		tok.Answer = []dns.RR{&dns.A{Hdr: hdr(s.Q.Name, dns.TypeA, 3600), A: []byte{10, byte(i >> 16), byte(i >> 8), byte(i)}}}
		if _, err := k.exec(q, tok); err != nil {
			return err
		}
	}
	code, b := k.dump()
	if code != 200 {
		return fmt.Errorf("key harvest: /dump status %d", code)
	}
	d, err := decodeDump(b)
	if err != nil {
		return fmt.Errorf("key harvest: %v", err)
	}
	n := 0
	for _, e := range d.Entries {
		m := new(dns.Msg)
		if m.Unpack(e.Msg) != nil || len(m.Answer) != 1 {
			continue
		}
		a, ok := m.Answer[0].(*dns.A)
		if !ok || len(a.A.To4()) != 4 {
			continue
		}
		ip := a.A.To4()
		i := int(ip[1])<<16 | int(ip[2])<<8 | int(ip[3])
		if i < len(specs) && specs[i].Key == nil {
			specs[i].Key = e.Key
			n++
		}
	}
	if n != len(specs) {
		return fmt.Errorf("key harvest: %d of %d keys found", n, len(specs))
	}
	return nil
}

func (s *entSpec) dumpEntry() dumpEntry {
	b, err := s.Resp.Pack()
	if err != nil {
		panic(err)
	}
	return dumpEntry{Key: s.Key, Msg: b, CacheExp: s.CacheExp, MsgExp: s.MsgExp, Stored: s.Stored}
}

func buildScenario(sc scenario) *scenState {
	st := &scenState{sc: sc}
	rng := rand.New(rand.NewSource(sc.Seed))
	caselog.Log(map[string]any{"phase": "fidelity-build", "scenario": sc})
	st.nowS = time.Now().Unix()
	nowS := st.nowS

	// ---- injected aged entries ----
	var inj []*entSpec
	for i := 0; i < sc.NInject; i++ {
		kind := replyKinds[rng.Intn(len(replyKinds))]
		if kind == "servfail" && rng.Intn(2) == 0 {
			kind = "a"
		}
		s := &entSpec{Idx: i, Via: "inject", Kind: kind}
		age := []int64{0, 1, 5, 59, 300, int64(rng.Intn(5000)), int64(10 + rng.Intn(100000))}[rng.Intn(7)]
		r := rng.Intn(100)
		var gen ttlGen
		switch {
		case r < 50:
			s.Group = "fresh"
			base := uint32(age) + 120 + uint32(rng.Intn(100000))
			gen = func() uint32 { return base + uint32(rng.Intn(3))*uint32(rng.Intn(1000)) }
		case r < 70:
			s.Group = "stale"
			if age < 10 {
				age = 10 + int64(rng.Intn(5000))
			}
			base := uint32(1 + rng.Int63n(age-5))
			first := true
			gen = func() uint32 {
				if first {
					first = false
					return base
				}
				return base + uint32(rng.Intn(2))*uint32(rng.Intn(100000))
			}
		case r < 85:
			s.Group = "dead"
			gen = longTTLs(rng)
		default:
			s.Group = "odd"
			if age < 10 {
				age = 10 + int64(rng.Intn(100))
			}
			gen = fixedTTLs([]uint32{uint32(1 + rng.Intn(8)), uint32(age), uint32(age) + 1, uint32(age) + 500, 4294967295})
		}
		q, up := genReply(rng, i, kind, gen, 0)
		s.Q, s.Resp = q, stripOpt(up)
		s.OrigTTL = ttlVector(s.Resp)
		s.MinTTL = minOf(s.OrigTTL)
		s.Stored = nowS - age
		far := int64(120 + rng.Intn(100000))
		switch s.Group {
		case "fresh":
			mt := int64(s.MinTTL)
			if len(s.OrigTTL) == 0 {
				mt = age + 120 + int64(rng.Intn(1000))
			}
			s.MsgExp = s.Stored + mt
			s.CacheExp = s.MsgExp
			if sc.Lazy > 0 && rng.Intn(2) == 0 {
				s.CacheExp = nowS + far + int64(sc.Lazy)
			}
		case "stale":
			s.MsgExp = s.Stored + int64(s.MinTTL)
			if len(s.OrigTTL) == 0 {
				s.MsgExp = nowS - 5 - int64(rng.Intn(1000))
			}
			s.CacheExp = nowS + far
		case "dead":
			s.CacheExp = nowS - 5 - int64(rng.Intn(100000))
			s.MsgExp = s.CacheExp
			if rng.Intn(2) == 0 {
				s.MsgExp = nowS + far
			}
		case "odd":
			s.MsgExp = nowS + far
			switch rng.Intn(3) {
			case 0:
				s.CacheExp = s.MsgExp + 100
			case 1:
				s.CacheExp = nowS + 120 + int64(rng.Intn(int(far-119))) // cache entry ends before the message does
				if s.CacheExp > s.MsgExp {
					s.CacheExp = s.MsgExp
				}
			default:
				s.CacheExp = 253402300799 // year 9999
			}
		}
		inj = append(inj, s)
	}
	if err := harvestKeys(inj); err != nil {
		rep.Inconclusive("%s: %v", sc.Name, err)
		st.failed = true
		return st
	}
	var X []byte
	if len(inj) > 0 {
		es := make([]dumpEntry, len(inj))
		for i, s := range inj {
			es[i] = s.dumpEntry()
		}
		X = craftDump(es, sc.BlockSizes)
		// sanity of the crafted file by the independent reader
		if d, err := decodeDump(X); err != nil || len(d.Entries) != len(es) {
			rep.Inconclusive("%s: crafted dump does not decode: %v", sc.Name, err)
			st.failed = true
			return st
		}
	}

	// ---- cache A ----
	if sc.ViaFile {
		dir, err := os.MkdirTemp(os.Getenv("VERIF_TMP"), "c19-file-")
		if err != nil {
			rep.Inconclusive("mkdtemp: %v", err)
			st.failed = true
			return st
		}
		st.dir = dir
		st.file = filepath.Join(dir, "cache.dump")
		if X != nil {
			_ = os.WriteFile(st.file, X, 0o644)
		}
		st.A = newBox(sc.Lazy, st.file)
		if X != nil {
			if errs := st.A.errorLogs(); len(errs) > 0 {
				rep.Violation("wellformed-dump-rejected", fmt.Sprintf("start-up load of a well-formed dump file (independent writer, %d entries, block sizes %v) logged: %v", len(inj), sc.BlockSizes, errs), map[string]any{"phase": "fidelity", "scenario": sc})
			}
		}
	} else {
		st.A = newBox(sc.Lazy, "")
		if X != nil {
			if code, msg := st.A.load(X); code != 200 {
				rep.Violation("wellformed-dump-rejected", fmt.Sprintf("POST /load_dump of a well-formed dump (independent writer, %d entries, block sizes %v) answered %d %q", len(inj), sc.BlockSizes, code, msg), map[string]any{"phase": "fidelity", "scenario": sc})
			}
		}
	}
	st.specs = append(st.specs, inj...)

	// ---- entries stored through Exec ----
	for i := 0; i < sc.NExec; i++ {
		idx := sc.NInject + i
		kind := replyKinds[i%len(replyKinds)]
		if sc.Big > 0 {
			kind = "bigtxt"
		}
		s := &entSpec{Idx: idx, Via: "exec", Kind: kind, Group: "long"}
		gen := longTTLs(rng)
		if sc.Big == 0 && !sc.NoShort && rng.Intn(100) < 15 {
			s.Group = "short"
			gen = shortTTLs(rng)
		}
		if sc.NoShort && sc.NExec == 1 {
			gen = fixedTTLs([]uint32{300, 3600}) // a plain, easily read witness
		}
		q, up := genReply(rng, idx, kind, gen, sc.Big)
		s.Q, s.Up, s.Resp = q, up, stripOpt(up)
		s.OrigTTL = ttlVector(s.Resp)
		s.MinTTL = minOf(s.OrigTTL)
		s.Plain = up.Rcode == dns.RcodeSuccess && len(up.Answer) > 0
		qm := q.msg(uint16(rng.Intn(65536)))
		upc := up.Copy()
		s.U0 = time.Now()
		r, err := st.A.exec(qm, upc)
		s.U1 = time.Now()
		if err != nil || r != upc {
			rep.Count("fill_not_a_miss", 1)
		}
		st.specs = append(st.specs, s)
	}

	// ---- (f) answers of chosen uncompressed sizes, stored through Exec ----
	idx := sc.NInject + sc.NExec
	for _, mix := range sc.Sizes {
		for k := 0; k < mix.N; k++ {
			bytes := mix.Bytes
			if mix.Spread && bytes > 2048 {
				bytes = 2048 + rng.Intn(bytes-2048)
			}
			s, err := genSized(rng, idx, bytes, mix.Raw)
			if err != nil {
				rep.Inconclusive("%s: %v", sc.Name, err)
				st.failed = true
				return st
			}
			idx++
			rep.Count("size_answers_stored", 1)
			rep.Max("size_max_wire_bytes_of_a_stored_answer", int64(s.WireLen))
			rep.Max("size_max_uncompressed_bytes_of_a_stored_answer", int64(s.PackedLen))
			rep.SetAdd("size_stored_answer_classes", fmt.Sprintf("%s %s: %s uncompressed", s.Kind, kib(mix.Bytes), msgBucket(s.PackedLen)))
			if mix.Raw {
				rep.Count("size_incompressible_answers_stored", 1)
			}
			upc := s.Up.Copy()
			s.U0 = time.Now()
			r, err := st.A.exec(s.Q.msg(uint16(rng.Intn(65536))), upc)
			s.U1 = time.Now()
			if err != nil || r != upc {
				rep.Count("fill_not_a_miss", 1)
			}
			st.specs = append(st.specs, s)
		}
	}
	return st
}

type probeObs struct {
	Scenario string   `json:"scenario"`
	Spec     *entSpec `json:"entry"`
	ClassA   string   `json:"a"`
	ClassB   string   `json:"b"`
	TTLA     []uint32 `json:"ttl_a,omitempty"`
	TTLB     []uint32 `json:"ttl_b,omitempty"`
	ElapsedA string   `json:"elapsed_a_range,omitempty"`
	ElapsedB string   `json:"elapsed_b_range,omitempty"`
	Dump     any      `json:"dump_entry,omitempty"`
	AnsA     string   `json:"answer_a,omitempty"`
	AnsB     string   `json:"answer_b,omitempty"`
}

type dumpFields struct {
	CacheExp int64 `json:"cache_expiration_time"`
	MsgExp   int64 `json:"msg_expiration_time"`
	Stored   int64 `json:"msg_stored_time"`
	MsgLen   int   `json:"msg_len"`
	KeyLen   int   `json:"key_len"`
}

func fieldsOf(e *dumpEntry) any {
	if e == nil {
		return nil
	}
	return dumpFields{e.CacheExp, e.MsgExp, e.Stored, len(e.Msg), len(e.Key)}
}

func probe(b *box, q *dns.Msg) (class string, r *dns.Msg) {
	c0 := b.counters()
	r, err := b.exec(q, nil)
	c1 := b.counters()
	switch {
	case err != nil:
		return "error", r
	case c1.lazy > c0.lazy && r != nil:
		return "stale", r
	case c1.hit > c0.hit && r != nil:
		return "hit", r
	case r == nil:
		return "miss", nil
	}
	return "odd", r
}

func questionKey(b []byte) (string, bool) {
	m := new(dns.Msg)
	if err := m.Unpack(b); err != nil || len(m.Question) != 1 {
		return "", false
	}
	return fmt.Sprintf("%s/%d", m.Question[0].Name, m.Question[0].Qtype), true
}

func compareScenario(st *scenState) {
	sc := st.sc
	if st.failed {
		return
	}
	rc := map[string]any{"phase": "fidelity", "scenario": sc}
	caselog.Log(map[string]any{"phase": "fidelity-compare", "scenario": sc})
	A := st.A
	defer func() {
		if st.dir != "" {
			os.RemoveAll(st.dir)
		}
	}()

	// ---- D ----
	var D []byte
	how := "" // (e) how D travelled
	tD0 := time.Now()
	if sc.ViaFile {
		A.close() // writes the dump file
		var errs []string
		for _, m := range A.errorLogs() {
			if strings.HasPrefix(m, "failed to dump cache") {
				errs = append(errs, m)
			}
		}
		if len(errs) > 0 {
			rep.Violation("dump-failed", fmt.Sprintf("%s: Close() could not write the dump file: %v", sc.Name, errs), rc)
			return
		}
		var err error
		D, err = os.ReadFile(st.file)
		if err != nil {
			rep.Inconclusive("%s: read dump file: %v", sc.Name, err)
			return
		}
	} else {
		defer A.close()
		if sc.Client != "" {
			// (e) through a real server and a real client
			srv, err := A.serve()
			if err != nil {
				rep.Inconclusive("%s: cannot serve the API: %v", sc.Name, err)
				return
			}
			fr := fetchDump(srv, sc.Client)
			srv.close()
			if fr.HarnessError {
				rep.Inconclusive("%s: client %s could not talk to the loopback server: %s", sc.Name, sc.Client, fr.Err)
				return
			}
			how = "; " + describeFetch(fr)
			if fr.Err != "" || fr.Status != 200 {
				rep.Violation("dump-download-fails", fmt.Sprintf("%s: GET /plugins/%s/dump: %s; error: %s", sc.Name, apiTag, describeFetch(fr), fr.Err), rc)
				return
			}
			D = fr.Saved
			rep.Count("fidelity_dumps_downloaded_over_http", 1)
		} else {
			code, b := A.dump()
			if code != 200 {
				rep.Violation("dump-failed", fmt.Sprintf("%s: GET /dump answered %d", sc.Name, code), rc)
				return
			}
			D = append([]byte(nil), b...)
		}
	}
	st.D = D
	rep.Count("dump_bytes_total", int64(len(D)))
	dd, err := decodeDump(D)
	if err != nil && sc.Client != "" {
		// what the client saved is not a dump for the independent reader: the verdict is the plugin's
		B := newBox(sc.Lazy, "")
		code, msg := B.load(D)
		B.close()
		if code != 200 {
			rep.Violation("downloaded-dump-rejected", fmt.Sprintf("%s: the dump downloaded from GET /plugins/%s/dump is refused by /load_dump of an empty cache: %d %q%s", sc.Name, apiTag, code, msg, how), rc)
			return
		}
	}
	if err != nil {
		rep.Violation("dump-undecodable", fmt.Sprintf("%s: the independent reader cannot decode the dump: %v%s", sc.Name, err, how), rc)
		return
	}
	if len(sc.Sizes) > 0 || sc.Rounds > 0 {
		observeBlocks(sc.Name, dd)
	}
	rep.Count("dump_entries_decoded", int64(len(dd.Entries)))
	rep.Count("dump_blocks_decoded", int64(len(dd.BlockSizes)))
	for _, n := range dd.BlockSizes {
		rep.Max("max_entries_per_block", int64(n))
	}

	// every field present and non-zero
	names := []string{"key", "msg", "cache_expiration_time", "msg_expiration_time", "msg_stored_time"}
	for i := range dd.Entries {
		e := &dd.Entries[i]
		zero := []bool{len(e.Key) == 0, len(e.Msg) == 0, e.CacheExp == 0, e.MsgExp == 0, e.Stored == 0}
		for f, z := range zero {
			if z {
				qk, _ := questionKey(e.Msg)
				rep.Violation("dump-field-zero-"+names[f], fmt.Sprintf("%s: dumped entry for %s has no/zero %s (fields seen on the wire: %05b; cache_exp=%d msg_exp=%d stored=%d)", sc.Name, qk, names[f], e.Present, e.CacheExp, e.MsgExp, e.Stored), rc)
			}
		}
	}

	byKey := map[string]*dumpEntry{}
	byQ := map[string]*dumpEntry{}
	for i := range dd.Entries {
		e := &dd.Entries[i]
		if byKey[string(e.Key)] != nil {
			rep.Violation("dump-duplicate-key", fmt.Sprintf("%s: key %x dumped twice", sc.Name, e.Key), rc)
		}
		byKey[string(e.Key)] = e
		if qk, ok := questionKey(e.Msg); ok {
			byQ[qk] = e
		}
	}
	entryOf := func(s *entSpec) *dumpEntry {
		if s.Key != nil {
			return byKey[string(s.Key)]
		}
		return byQ[fmt.Sprintf("%s/%d", s.Q.Name, s.Q.Qtype)]
	}

	for _, s := range st.specs {
		if e := entryOf(s); e != nil && len(st.keys) < 120 && s.Group != "short" {
			st.keys = append(st.keys, keyedQ{Q: s.Q, Key: e.Key})
		}
	}

	// the dump against what was put into A
	dumpNow := tD0.Unix()
	for _, s := range st.specs {
		e := entryOf(s)
		w := map[string]any{"phase": "fidelity", "scenario": sc, "entry": s, "dump_entry": fieldsOf(e)}
		if s.Via == "inject" {
			live := s.CacheExp > dumpNow+2
			if s.Group == "dead" {
				if e != nil {
					rep.Violation("dump-holds-expired-entry", fmt.Sprintf("%s: entry %s was loaded with cache expiry %d (in the past) and is in the dump taken at %d", sc.Name, s.Q.Name, s.CacheExp, dumpNow), w)
				}
				continue
			}
			if !live {
				continue
			}
			if e == nil {
				rep.Violation("dump-misses-live-entry", fmt.Sprintf("%s: loaded entry %s (cache expiry %d, now %d) is not in the dump", sc.Name, s.Q.Name, s.CacheExp, dumpNow), w)
				continue
			}
			want := s.dumpEntry()
			switch {
			case e.Stored != s.Stored && e.Stored == 0:
				// already reported as dump-field-zero-msg_stored_time
			case e.Stored != s.Stored:
				rep.Violation("dump-stored-time-wrong", fmt.Sprintf("%s: entry %s was loaded with msg_stored_time %d, the dump says %d", sc.Name, s.Q.Name, s.Stored, e.Stored), w)
			case e.MsgExp != s.MsgExp:
				rep.Violation("dump-msg-expiry-wrong", fmt.Sprintf("%s: entry %s was loaded with msg_expiration_time %d, the dump says %d", sc.Name, s.Q.Name, s.MsgExp, e.MsgExp), w)
			case e.CacheExp != s.CacheExp:
				rep.Violation("dump-cache-expiry-wrong", fmt.Sprintf("%s: entry %s was loaded with cache_expiration_time %d, the dump says %d", sc.Name, s.Q.Name, s.CacheExp, e.CacheExp), w)
			case canonMsg(e.Msg) != canonMsg(want.Msg):
				rep.Violation("dump-msg-differs", fmt.Sprintf("%s: entry %s: dumped message differs from the loaded one", sc.Name, s.Q.Name), w)
			}
			continue
		}
		if e == nil {
			continue // judged behaviourally below (A hit => B must hit)
		}
		if e.Stored != 0 && (e.Stored < s.U0.Unix() || e.Stored > s.U1.Unix()) {
			rep.Violation("dump-stored-time-wrong", fmt.Sprintf("%s: entry %s was stored during [%d,%d], the dump says msg_stored_time %d", sc.Name, s.Q.Name, s.U0.Unix(), s.U1.Unix(), e.Stored), w)
		}
		if s.Plain {
			lo, hi := s.U0.Add(time.Duration(s.MinTTL)*time.Second).Unix(), s.U1.Add(time.Duration(s.MinTTL)*time.Second).Unix()
			if e.MsgExp < lo || e.MsgExp > hi {
				rep.Violation("dump-msg-expiry-wrong", fmt.Sprintf("%s: entry %s (min TTL %d, stored during [%d,%d]) dumped with msg_expiration_time %d", sc.Name, s.Q.Name, s.MinTTL, s.U0.Unix(), s.U1.Unix(), e.MsgExp), w)
			}
			if sc.Lazy > 0 {
				lo, hi = s.U0.Add(time.Duration(sc.Lazy)*time.Second).Unix(), s.U1.Add(time.Duration(sc.Lazy)*time.Second).Unix()
			}
			if e.CacheExp < lo || e.CacheExp > hi {
				rep.Violation("dump-cache-expiry-wrong", fmt.Sprintf("%s: entry %s (min TTL %d, lazy %d, stored during [%d,%d]) dumped with cache_expiration_time %d", sc.Name, s.Q.Name, s.MinTTL, sc.Lazy, s.U0.Unix(), s.U1.Unix(), e.CacheExp), w)
			}
		}
		wb, _ := s.Resp.Pack()
		if canonMsg(e.Msg) != canonMsg(wb) {
			rep.Violation("dump-msg-differs", fmt.Sprintf("%s: entry %s: dumped message differs from the stored reply", sc.Name, s.Q.Name), w)
		}
	}

	// ---- B <- D ----
	var B *box
	if sc.ViaFile {
		B = newBox(sc.Lazy, st.file)
		if errs := B.errorLogs(); len(errs) > 0 {
			rep.Violation(sizeKey("intact-dump-rejected", dd), fmt.Sprintf("%s: restart with the dump file written by Close() (%d bytes, %d entries, uncompressed blocks end at %v) logged: %v; %s", sc.Name, len(D), len(dd.Entries), dd.BlockEnds, errs, describeBlocks(dd)), rc)
			B.close()
			return
		}
	} else {
		B = newBox(sc.Lazy, "")
		if sc.Loader != "" {
			srv, err := B.serve()
			if err != nil {
				rep.Inconclusive("%s: cannot serve the API: %v", sc.Name, err)
				B.close()
				return
			}
			pr := pushDump(srv, sc.Loader, D, sc.Seed)
			srv.close()
			if pr.HarnessError {
				rep.Inconclusive("%s: loader %s could not talk to the loopback server: %s", sc.Name, sc.Loader, pr.Err)
				B.close()
				return
			}
			if pr.Err != "" || pr.Status != 200 {
				rep.Violation("downloaded-dump-rejected", fmt.Sprintf("%s: POST /plugins/%s/load_dump (uploaded with %q) of the cache's own dump (%d bytes, %d entries) answered %d %q %s%s", sc.Name, apiTag, sc.Loader, len(D), len(dd.Entries), pr.Status, pr.Msg, pr.Err, how), rc)
				B.close()
				return
			}
			rep.Count("fidelity_dumps_uploaded_over_http", 1)
		} else if code, msg := B.load(D); code != 200 {
			rep.Violation(sizeKey("intact-dump-rejected", dd), fmt.Sprintf("%s: POST /load_dump of the cache's own dump (%d bytes, %d entries, uncompressed blocks end at %v) answered %d %q; %s", sc.Name, len(D), len(dd.Entries), dd.BlockEnds, code, msg, describeBlocks(dd)), rc)
			B.close()
			return
		}
	}
	defer B.close()
	rep.Count("reloads", 1)
	if sz := B.counters().size; sz != int64(len(dd.Entries)) {
		rep.Count("reload_size_differs_from_dump", 1)
	}

	// B's own dump against D
	codeB, DB := B.dump()
	tB := time.Now().Unix() // B dumps everything it holds that ends at or after the instant of its dump (<= tB)
	if codeB != 200 {
		rep.Violation("dump-failed", fmt.Sprintf("%s: GET /dump of the reloaded cache answered %d", sc.Name, codeB), rc)
	} else if ddB, err := decodeDump(DB); err != nil {
		rep.Violation("dump-undecodable", fmt.Sprintf("%s: dump of the reloaded cache: %v", sc.Name, err), rc)
	} else {
		sa, sb := tupleSet(dd.Entries), tupleSet(ddB.Entries)
		bk := map[string]*dumpEntry{}
		for i := range ddB.Entries {
			bk[string(ddB.Entries[i].Key)] = &ddB.Entries[i]
		}
		missing, extra, compared := 0, 0, 0
		what := ""
		for i := range dd.Entries {
			e := &dd.Entries[i]
			if e.CacheExp <= tB+1 {
				continue // may have run out between the two dumps
			}
			compared++
			if sb[tupleOf(*e)] > 0 {
				continue
			}
			missing++
			if what == "" {
				qk, _ := questionKey(e.Msg)
				if o := bk[string(e.Key)]; o == nil {
					what = fmt.Sprintf("%s is in D but not in the reloaded cache's dump", qk)
				} else {
					what = fmt.Sprintf("%s: D has (cache_exp=%d msg_exp=%d stored=%d msg %dB), reloaded cache dumps (cache_exp=%d msg_exp=%d stored=%d msg %dB)", qk, e.CacheExp, e.MsgExp, e.Stored, len(e.Msg), o.CacheExp, o.MsgExp, o.Stored, len(o.Msg))
				}
			}
		}
		for i := range ddB.Entries {
			e := &ddB.Entries[i]
			if sa[tupleOf(*e)] == 0 {
				extra++
				if what == "" {
					qk, _ := questionKey(e.Msg)
					what = fmt.Sprintf("%s (cache_exp=%d msg_exp=%d stored=%d) is dumped by the reloaded cache but is not in D", qk, e.CacheExp, e.MsgExp, e.Stored)
				}
			}
		}
		rep.Count("redump_entries_compared", int64(compared))
		if missing+extra > 0 {
			rep.Violation("redump-differs", fmt.Sprintf("%s: dump of the reloaded cache differs from D in %d missing / %d extra entries; first: %s", sc.Name, missing, extra, what), rc)
		}
	}

	// ---- ask every question of A and B back-to-back ----
	rng := rand.New(rand.NewSource(sc.Seed ^ 0x5eed))
	order := rng.Perm(len(st.specs))
	var extraQs []qspec // questions nobody stored
	for i := 0; i < 5; i++ {
		extraQs = append(extraQs, qspec{Name: fmt.Sprintf("absent%d-%s.c19.test.", i, randLabel(rng, 8)), Qtype: dns.TypeA})
	}
	for _, q := range extraQs {
		ca, _ := probe(A, q.msg(1))
		cb, _ := probe(B, q.msg(1))
		rep.Eval(1)
		if ca != "miss" || cb != "miss" {
			if cb != "miss" {
				rep.Violation("reload-class-differs", fmt.Sprintf("%s: question %s was never stored; A: %s, reloaded B: %s", sc.Name, q.Name, ca, cb), rc)
			}
		}
	}
	for _, oi := range order {
		s := st.specs[oi]
		e := entryOf(s)
		id := uint16(rng.Intn(65536))
		t0 := time.Now()
		ca, ra := probe(A, s.Q.msg(id))
		t1 := time.Now()
		cb, rb := probe(B, s.Q.msg(id))
		t2 := time.Now()
		rep.Eval(1)
		rep.Count("probe_A_"+ca, 1)
		rep.Count("probe_B_"+cb, 1)
		// entries whose expiry lies within the bracket (+- the whole-second rounding of the dump) are not judged
		if e != nil {
			// A keeps sub-second expiries in [x, x+1), B exactly x: both sides agree unless t0-1 < x <= t2
			near := func(x int64) bool {
				return x >= t0.Unix()-1 && x <= t2.Unix()+1
			}
			if near(e.MsgExp) || near(e.CacheExp) {
				rep.Count("probe_skipped_expiry_in_bracket", 1)
				continue
			}
		}
		obs := probeObs{Scenario: sc.Name, Spec: s, ClassA: ca, ClassB: cb, Dump: fieldsOf(e)}
		if ra != nil {
			obs.TTLA = ttlVector(ra)
		}
		if rb != nil {
			obs.TTLB = ttlVector(rb)
		}
		w := map[string]any{"phase": "fidelity", "scenario": sc, "observed": &obs}
		if s.Group == "dead" && ca != "miss" {
			rep.Violation("expired-entry-served-after-load", fmt.Sprintf("%s: %s was loaded from a dump with cache expiry %d (in the past at load time %d); the cache that loaded it answers %q", sc.Name, s.Q.Name, s.CacheExp, st.nowS, ca), w)
			continue
		}
		if ca != cb {
			rep.Violation("reload-class-differs-"+ca+"-"+cb, fmt.Sprintf("%s: %s (%s/%s): original cache answers %q, reloaded cache answers %q", sc.Name, s.Q.Name, s.Via, s.Group, ca, cb), w)
			continue
		}
		if ca == "miss" {
			if s.Group == "dead" {
				rep.Count("dead_entries_missed_in_both", 1)
				rep.Nontrivial(fmt.Sprintf("%s/%d/dead", sc.Name, s.Idx))
			}
			continue
		}
		if ca != "hit" && ca != "stale" {
			rep.Count("probe_unclassified", 1)
			continue
		}
		rep.Nontrivial(fmt.Sprintf("%s/%d/%s", sc.Name, s.Idx, ca))
		rep.SetAdd("compared_classes", fmt.Sprintf("%s/%s/%s/%s", s.Via, s.Group, s.Kind, ca))
		if ra.Id != id || rb.Id != id {
			rep.Count("id_not_rewritten", 1)
		}
		sa, sb, want := semantic(ra), semantic(rb), semantic(s.Resp)
		if sa != sb {
			obs.AnsA, obs.AnsB = sa, sb
			rep.Violation("reload-answer-differs", fmt.Sprintf("%s: %s: the reloaded cache serves a different answer", sc.Name, s.Q.Name), w)
			continue
		}
		if sa != want {
			rep.Count("a_answer_differs_from_stored", 1)
		}
		if ca == "stale" {
			ok := true
			for i := range obs.TTLA {
				if i >= len(obs.TTLB) || obs.TTLA[i] != obs.TTLB[i] {
					ok = false
				}
			}
			if !ok {
				rep.Violation("reload-ttl-differs", fmt.Sprintf("%s: %s (stale): TTLs A=%v B=%v", sc.Name, s.Q.Name, obs.TTLA, obs.TTLB), w)
			}
			continue
		}
		// fresh hit: remaining TTLs, to the second
		var aLo, aHi, bLo, bHi int64
		if s.Via == "exec" {
			aLo, aHi = floorSec(t0.Sub(s.U1)), floorSec(t1.Sub(s.U0))
			bLo = floorSec(t1.Sub(time.Unix(s.U1.Unix(), 0)))
			bHi = floorSec(t2.Sub(time.Unix(s.U0.Unix(), 0)))
		} else {
			sT := time.Unix(s.Stored, 0)
			aLo, aHi = floorSec(t0.Sub(sT)), floorSec(t1.Sub(sT))
			bLo, bHi = floorSec(t1.Sub(sT)), floorSec(t2.Sub(sT))
		}
		obs.ElapsedA, obs.ElapsedB = fmt.Sprintf("[%d,%d]", aLo, aHi), fmt.Sprintf("[%d,%d]", bLo, bHi)
		eA, okA := fitElapsed(s.OrigTTL, obs.TTLA, aLo, aHi)
		if !okA {
			rep.Count("a_ttl_outside_model", 1)
			if rep.Get("a_ttl_outside_model") <= 3 {
				rep.Extra(fmt.Sprintf("a_ttl_outside_model_%d", rep.Get("a_ttl_outside_model")), obs)
			}
			continue
		}
		eB, okB := fitElapsed(s.OrigTTL, obs.TTLB, bLo, bHi)
		if !okB {
			rep.Violation("reload-ttl-differs", fmt.Sprintf("%s: %s (%s/%s): original TTLs %v; the original cache serves %v (age %d s), the reloaded cache serves %v — not the remaining TTLs for any age in %s (dump says stored=%v)", sc.Name, s.Q.Name, s.Via, s.Group, s.OrigTTL, obs.TTLA, eA, obs.TTLB, obs.ElapsedB, fieldsOf(e)), w)
			continue
		}
		rep.Count(fmt.Sprintf("ttl_age_diff_%d", eB-eA), 1)
		rep.Count("ttl_vectors_compared", 1)
		if len(s.OrigTTL) > 0 && eqU32(obs.TTLA, s.OrigTTL) {
			rep.Count("ttl_unchanged_age0", 1)
		}
		if rep.WantSample() && (s.Idx%37 == 0 || s.Group == "odd") {
			rep.Sample(obs)
		}
		if s.SizeClass > 0 {
			rep.Count("size_answers_served_by_original_and_reloaded_cache", 1)
			if s.PackedLen > 65535 {
				rep.Count("size_answers_above_64KiB_served_by_original_and_reloaded_cache", 1)
			}
			if s.PackedLen >= 480<<10 {
				rep.Count("size_answers_above_480KiB_served_by_original_and_reloaded_cache", 1)
			}
		}
	}

	// ---- (f) more rounds: every dump walks the cache in another order ----
	if sc.Rounds > 0 && !sc.ViaFile {
		sizeRounds(st, A, rc)
	}
}

func scenarios(seed int64, thorough bool) []scenario {
	sc := []scenario{
		{Name: "empty", TruncDump: true},
		{Name: "one", NExec: 1, TruncDump: true, NoShort: true},
		{Name: "mixed-lazy-300", Lazy: 86400, NExec: 150, NInject: 150, BlockSizes: []int{1, 7, 128, 200}, TruncDump: true},
		{Name: "mixed-nolazy-200", NExec: 120, NInject: 80, BlockSizes: []int{128}, TruncDump: true},
		{Name: "file-restart-120", Lazy: 3600, NExec: 60, NInject: 60, ViaFile: true, BlockSizes: []int{50}},
		{Name: "file-restart-exec-only", NExec: 40, ViaFile: true},
		{Name: "big-answers-130x9k", NExec: 130, Big: 9000},
		{Name: "one-huge-60k", NExec: 1, Big: 60000},
		{Name: "inject-only-one-block", Lazy: 600, NInject: 260, BlockSizes: []int{260}},
	}
	if thorough {
		sc = append(sc,
			scenario{Name: "mixed-lazy-2000", Lazy: 7200, NExec: 1000, NInject: 1000, BlockSizes: []int{3, 128, 500}},
			scenario{Name: "mixed-nolazy-1500", NExec: 900, NInject: 600, BlockSizes: []int{128}},
			scenario{Name: "exact-blocks-256", Lazy: 60, NExec: 128, NInject: 128, BlockSizes: []int{128}},
			scenario{Name: "file-restart-1000", Lazy: 86400, NExec: 500, NInject: 500, ViaFile: true, BlockSizes: []int{128}},
			scenario{Name: "big-answers-300x5k", NExec: 300, Big: 5000},
			scenario{Name: "inject-tiny-blocks", NInject: 300, BlockSizes: []int{1}},
		)
	}
	// (e) one mixed cache whose dump travels over real HTTP in both directions, judged question by question
	sc = append(sc,
		scenario{Name: "mixed-lazy-200-over-http-default-client", Lazy: 3600, NExec: 100, NInject: 100, BlockSizes: []int{128}, Client: "go-default-transport", Loader: "post-chunked"},
		scenario{Name: "mixed-nolazy-120-over-http-decoding-client", NExec: 60, NInject: 60, BlockSizes: []int{50}, Client: "accept-gzip-and-decode", Loader: "post-raw-chunks-of-arbitrary-sizes"},
	)
	for i := range sc {
		sc[i].Seed = seed*1000003 + int64(i)*7919 + 17
	}
	// (f) entry size classes
	sc = append(sc, sizeScenarios(seed, thorough)...)
	return sc
}

// runFidelity builds all caches, lets the short-lived entries run out, then
// dumps / reloads / compares. It returns the dumps used for the crash-point phase.
func runFidelity(scs []scenario) []*scenState {
	var sts []*scenState
	for _, sc := range scs {
		sts = append(sts, buildScenario(sc))
	}
	time.Sleep(3300 * time.Millisecond) // entries with TTL 1-2 s expire (or go stale) before the dump
	for _, st := range sts {
		compareScenario(st)
	}
	return sts
}
