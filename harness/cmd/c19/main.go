// C19 — cache dumps reload faithfully; damaged dumps are harmless.
//
// (a) fidelity: the real cache plugin is filled through Exec and through
// crafted dumps with aged entries, dumped via its HTTP API (and via the
// Close()/start-up file path), reloaded into a fresh instance and both are
// asked every question back-to-back; the dump is also decoded by an independent
// reader (std gzip + hand-written framing/protobuf walker).
// (b) crash points: every prefix of several dumps (thorough; a dense selection
// in quick) is loaded into a fresh cache: an error must be reported and the
// entries held afterwards must be a subset of the intact dump's.
// (c) damage: byte flips, arbitrary bytes and well-formed gzip wrappers around
// hostile content; no panic, no hang, bounded heap growth.
// (d) configuration space: capacity.go. (e) the dump on the real transport
// (real net/http server, client and uploader models): transport.go. (f) entry
// size classes up to the largest answer a 64 KiB wire message can hold, and
// incompressible answers, dumped and reloaded in several orders: sizes.go.
// (b) and (c) run in child processes with a per-case log, a watchdog and a heap
// sampler so a crash / hang / memory blow-up is attributed to its input.
package main

import (
	"bytes"
	"encoding/json"
	"fmt"
	"math/rand"
	"os"
	"os/exec"
	"path/filepath"
	"regexp"
	"runtime"
	"sort"
	"strings"
	"sync"
	"time"

	"verifharness/lib/evid"
	"verifharness/lib/poolsan"
)

var (
	rep     *evid.Reporter
	caselog *evid.CaseLog
	tmpDir  string
)

type replayCase struct {
	Phase    string       `json:"phase"`
	Scenario *scenario    `json:"scenario,omitempty"`
	DumpName string       `json:"dump_name,omitempty"`
	Dump     []byte       `json:"dump,omitempty"`
	P        int          `json:"p,omitempty"`
	ViaFile  bool         `json:"via_file,omitempty"`
	Damage   *damageCase  `json:"damage,omitempty"`
	Cap      *capCase     `json:"capacity_case,omitempty"`
	HTTP     *httpCase    `json:"http_case,omitempty"`
	HTTPObs  *httpObs     `json:"http_observed,omitempty"`
	Result   *childResult `json:"result,omitempty"`
	Stderr   string       `json:"stderr,omitempty"`
}

func cleanup() {
	if tmpDir != "" {
		os.RemoveAll(tmpDir)
	}
}

func finish() {
	cleanup()
	rep.Finish()
}

func main() {
	if p := os.Getenv("VERIF_C19_CHILD"); p != "" {
		childMain(p)
		return
	}
	rep = evid.New("C19", "fault_enumeration")
	caselog = evid.OpenCaseLog()
	poolsan.Install(func(r poolsan.Report) {
		rep.Violation("poolsan-"+r.Kind, "buffer-pool sanitizer: "+r.Kind+": "+r.Info, map[string]any{"stack": r.Stack})
	})
	rep.SetRule("(a) scenario = cache contents {0, 1, hundreds..thousands of entries; 17 reply shapes incl. NXDOMAIN/NODATA/SERVFAIL/unknown types/9-60 KB answers; stored through Exec or injected with chosen age, message expiry and cache expiry (fresh, stale, expired, inconsistent)} x {lazy cache on/off} x {HTTP API, Close()+restart file}; one case = one question asked of the original and of the reloaded cache back-to-back; non-trivial = the original cache served it (fresh or stale) or it was an expired injected entry; " +
		"(b) one case = one prefix length p < |D| of a real dump loaded into a fresh cache; thorough enumerates every p of every dump, quick takes the first/last 64, a stride, random ones and +-16 around every p at which the number of admitted entries changes; non-trivial = the prefix gets past the gzip header; " +
		"(c) one case = one damaged input from 17 generator families (flips of real dumps in compressed and uncompressed form, splices, hand-made gzip headers/trailers, well-formed gzip+framing around hostile block lengths / random protobuf / hostile entries / garbage DNS messages / decompression bombs / 100-400-block streams of ~1 MiB blocks); non-trivial = the parser got past the gzip header; distinct = distinct inputs; " +
		"(d) one case = one dump -> reload round trip of a cache whose arguments are a point of the configuration space {size unset, 0, negative, 1, 63..65, 127..129, 300, 512, 640, 1000, 1023, 1024, 1025, 1087, 1088, 1500, 2048, 5000} x {lazy_cache_ttl 0, 3600, 86400} x {dump_interval unset, 0, negative, 1, 600, 3600} spelled as YAML arguments (decoded like coremain does) or as a sequence quick-setup string, x an entry count at a boundary {dump block multiples, configured size -1/0/+1 and its round-up to a block, between configured size and real capacity, capacity -1/0/+1, above capacity} x fill {Exec, hand-written dump with block sizes 1..1000, both} x writer/loader path {HTTP API, Close()+start-up file, periodic dump loop} x {same, other configuration on reload}; quick draws one count per boundary group and configuration, thorough takes all; non-trivial = the source held at least one live entry and the reloaded cache was compared; " +
		"(e) one case = one dump travelling over real HTTP: cache content {empty, one entry, 260 mixed entries with lazy cache, multi-block sized answers} x download client model {Go default transport (first and second request of a kept-alive connection), compression handling off, Accept-Encoding sent by the caller with and without removing the declared Content-Encoding, Accept-Encoding: identity, HTTP/1.0 close-delimited, hand-driven HTTP/1.1 keep-alive / pipelined / decoding} x upload model {Content-Length, chunked, Expect: 100-continue, reused keep-alive connection, hand-written chunks of arbitrary sizes}, API mounted like coremain mounts it and served by net/http on a loopback listener; quick pairs every client with one loader per content, thorough takes the product; two (a) scenarios also fetch and upload their dump this way; non-trivial = the saved file held entries and the reloaded cache was compared with it; " +
		"(f) scenario = cache holding Exec-stored answers of size classes {1, 8, 60, 70, 200, 440, 600 KiB, largest a 64 KiB wire message can hold (~2 MiB); thorough also 500, 900 KiB}, measured without name compression - A/AAAA/NS/MX/TXT RRsets under owner names of 24..254 bytes, each a legal <= 65535-byte message in the compressed form the upstream sent - alone, in groups (6x440K, 24x70K, 150x8K, 3x600K+3x440K, incompressible TXT answers (40x60K, 120 of 2..64 KiB, mixes), ladder of all classes, seed-drawn mixes of 0.5-4 MiB) and among 0..300 ordinary entries, via API and via Close()+restart file; judged like (a), then dumped and reloaded `rounds` more times (each dump walks the cache in another order); non-trivial = distinct (scenario, round, block length vector); " +
		"(g) one case = one dump taken while other dumps of the same cache (2600-3800 entries, >= 20 blocks) are in flight: rounds of 3-6 GET /dump requests (API handler and a real client on a real listener) released together while entries are stored and hit; rounds in which an API dump is held at its first write until the periodic dump-to-file goroutine (armed by 1100 fresh keys) resp. the final dump of Close() has re-created the dump file, then released with further API dumps; file-file rounds (own caches) in which the held API dump parks the armed periodic dump, Close() is called and the leader is released once both file dumps are inside the dump-to-file function - judged is the dump file a restart would read; every completed dump is read by the independent reader and reloaded into an empty cache and must lie between the lone dumps taken before and after the round; non-trivial = the dump provably overlapped another (logical clock stepped at first write / return)")
	rep.Assume("independent reader: Go standard library compress/gzip + hand-written 8-byte framing and protobuf field walker (no mosdns code, no generated protobuf code)")
	rep.Assume("cache keys are never computed by the harness: injected entries use keys read from the dump of a scratch cache that stored the same question")
	rep.Assume("wall-clock reads are bracketed: an entry whose message/cache expiry (whole seconds in the dump) lies within +-1 s of the bracket of its two probes is not judged; TTLs are judged against the set of ages possible within the bracket")
	rep.Assume("answers are compared record by record (header flags, question, owner/type/class/rdata text) - name compression of the served bytes is not compared; dump entries are compared after re-encoding the message without compression")
	rep.Assume("'hang' = one load does not finish within 120 s (nominal < 2 s); 'allocates without bound' = heap in use grows by more than 256 MiB while loading an input of at most 64 KiB (sampled every 0.3 ms, at every read of the input and when the load returns), or the process runs out of an 8 GiB address space, or - for streams of 100-400 well-formed ~1 MiB blocks and for zero-length-block bombs, where a block-by-block loader needs about one block - the LIVE heap (after a forced collection at every <=1 KiB read of the input) grows by more than 24 MiB")

	rep.Assume("(d) the number of entries a configuration can hold is never computed by the harness: the reference is the size gauge of a real cache with that configuration after the same questions were stored through Exec (same process, hence same shard hash seed); all entries of this phase live for at least 120 s")
	rep.Assume("(d) when a dump is loaded into a cache that cannot hold all of it, the cache must end up holding as many of the dump's entries as it holds when they arrive through Exec; which of them is free")

	rep.Assume("(e) a client model saves either the body as delivered or the body with the content codings removed that the response's Content-Encoding header declares (what net/http's transport, browsers and curl --compressed do); both kinds of client must end up with a loadable dump; byte identity of the saved file with the stream the handler wrote is counted, not demanded")
	rep.Assume("(f) the sized answers are built with miekg/dns (Compress=true), verified to be <= 65535 bytes and handed to the cache after Unpack, i.e. as the forward plugin's upstreams hand them over; the harness never states what block length the format permits - an intact dump of the plugin itself must load")

	var err error
	tmpDir, err = os.MkdirTemp(os.Getenv("VERIF_TMP"), "c19-")
	if err != nil {
		rep.Inconclusive("mkdtemp: %v", err)
		finish()
	}

	if rep.ReplayFile != "" {
		runReplay()
		finish()
	}

	scs := scenarios(rep.Seed, rep.Thorough())
	sts := runFidelity(scs)
	poolsan.Sweep()
	rep.Count("poolsan_gets", poolsan.Gets.Load())

	if rep.Get("a_ttl_outside_model") > 0 {
		rep.Inconclusive("the ORIGINAL cache served TTLs outside the harness' model %d times (see a_ttl_outside_model_*) - not a C19 matter, but the comparison was skipped", rep.Get("a_ttl_outside_model"))
	}
	if rep.Get("ttl_vectors_compared") == 0 && rep.Violations() == 0 {
		rep.Inconclusive("no fresh hit was compared between original and reloaded cache")
	}
	if rep.Get("probe_A_stale") == 0 {
		rep.Inconclusive("no stale (lazy) entry was observed in the original cache")
	}

	if rep.Violations() == 0 {
		if rep.Get("size_entries_above_64KiB_dumped") == 0 || rep.Get("size_answers_above_64KiB_served_by_original_and_reloaded_cache") == 0 {
			rep.Inconclusive("size phase: no answer above 64 KiB (uncompressed) was dumped, reloaded and served by both caches")
		}
		if rep.Get("size_entries_above_480KiB_dumped") == 0 || rep.Get("size_answers_above_480KiB_served_by_original_and_reloaded_cache") == 0 {
			rep.Inconclusive("size phase: no answer above 480 KiB (uncompressed) was dumped, reloaded and served by both caches")
		}
		if rep.Get("size_rounds_reloaded_completely") == 0 {
			rep.Inconclusive("size phase: no further dump -> reload round was completed")
		}
		if rep.Get("fidelity_dumps_downloaded_over_http") == 0 || rep.Get("fidelity_dumps_uploaded_over_http") == 0 {
			rep.Inconclusive("no fidelity scenario moved its dump over real HTTP")
		}
	}

	// ---- (e) the dump on the real transport ----
	runHTTPPhase()
	poolsan.Sweep()

	// ---- (d) the configuration space ----
	runCapacityPhase()
	poolsan.Sweep()

	// ---- (g) overlapping dumps ----
	runOverlapPhase()
	poolsan.Sweep()

	// ---- material for (b) and (c) ----
	var truncDumps []*scenState
	var keys []keyedQ
	for _, st := range sts {
		if st.sc.TruncDump && st.D != nil {
			truncDumps = append(truncDumps, st)
		}
		if len(keys) < 300 {
			keys = append(keys, st.keys...)
		}
	}
	if len(truncDumps) == 0 {
		rep.Inconclusive("no dump available for the crash-point and damage phases")
		finish()
	}
	runTruncPhase(truncDumps)
	runDamagePhase(truncDumps, keys)
	finish()
}

// ---------------------------------------------------------------------------
// child process management

type jobRun struct {
	job     childJob
	path    string
	results []childResult
}

var jobSeq int
var jobMu sync.Mutex

func spawn(job childJob, timeout time.Duration) (results []childResult, exit int, stderr string, lastCase map[string]any, timedOut bool) {
	jobMu.Lock()
	jobSeq++
	n := jobSeq
	jobMu.Unlock()
	base := filepath.Join(tmpDir, fmt.Sprintf("job%d", n))
	job.Out = base + ".out"
	job.CaseLog = base + ".case"
	job.Tmp = tmpDir
	jb, _ := json.Marshal(job)
	_ = os.WriteFile(base+".json", jb, 0o644)
	errF, _ := os.Create(base + ".err")
	cmd := exec.Command(os.Args[0])
	cmd.Env = append(os.Environ(), "VERIF_C19_CHILD="+base+".json", "GOTRACEBACK=all")
	cmd.Stdout = errF
	cmd.Stderr = errF
	if err := cmd.Start(); err != nil {
		errF.Close()
		return nil, -1, err.Error(), nil, false
	}
	done := make(chan error, 1)
	go func() { done <- cmd.Wait() }()
	select {
	case <-done:
	case <-time.After(timeout):
		timedOut = true
		_ = cmd.Process.Kill()
		<-done
	}
	errF.Close()
	exit = cmd.ProcessState.ExitCode()
	if b, err := os.ReadFile(base + ".err"); err == nil {
		if len(b) > 60000 {
			b = append(b[:30000], b[len(b)-30000:]...)
		}
		stderr = string(b)
	}
	if b, err := os.ReadFile(job.CaseLog); err == nil {
		_ = json.Unmarshal(bytes.TrimSpace(b), &lastCase)
	}
	if f, err := os.Open(job.Out); err == nil {
		dec := json.NewDecoder(f)
		for {
			var r childResult
			if err := dec.Decode(&r); err != nil {
				break
			}
			results = append(results, r)
		}
		f.Close()
	}
	os.Remove(job.Out)
	os.Remove(base + ".json")
	os.Remove(base + ".err")
	os.Remove(job.CaseLog)
	return
}

var fatalRe = regexp.MustCompile(`(?m)^(panic: .*|fatal error: .*)$`)

// runJob runs a job to completion, restarting after the case that killed a child.
// onResult sees every per-case result; onDeath gets the case that killed a child.
func runJob(job childJob, timeout time.Duration, onResult func(childResult), onDeath func(last map[string]any, kind, what, stderr string)) {
	for restarts := 0; ; restarts++ {
		results, exit, stderr, last, timedOut := spawn(job, timeout)
		finished := false
		for _, r := range results {
			if r.Done {
				finished = true
				continue
			}
			onResult(r)
		}
		if finished && exit == 0 {
			return
		}
		if timedOut {
			rep.Inconclusive("child for %s job exceeded the %v job watchdog (last case %v)", job.Mode, timeout, last)
			return
		}
		if last == nil {
			rep.Inconclusive("child for %s job died (exit %d) before logging a case: %.300s", job.Mode, exit, stderr)
			return
		}
		switch {
		case exit == exitHang:
			onDeath(last, "hang", fmt.Sprintf("load did not finish within %v", caseWatchdog), stderr)
		case exit == exitChildFail:
			rep.Inconclusive("child set-up failed: %.300s", stderr)
			return
		default:
			m := fatalRe.FindString(stderr)
			if m == "" {
				m = fmt.Sprintf("exit status %d", exit)
			}
			kind := "crash"
			if strings.Contains(m, "out of memory") || strings.Contains(m, "cannot allocate memory") {
				kind = "oom"
			}
			onDeath(last, kind, m, stderr)
		}
		// resume after the fatal case
		switch job.Mode {
		case "trunc":
			p, _ := last["p"].(float64)
			idx := -1
			for i, x := range job.Prefixes {
				if x == int(p) {
					idx = i
				}
			}
			if idx < 0 || idx+1 >= len(job.Prefixes) {
				return
			}
			job.Prefixes = job.Prefixes[idx+1:]
		case "damage":
			if len(job.Explicit) > 0 {
				return
			}
			i, _ := last["idx"].(float64)
			idx := -1
			for k, x := range job.Indices {
				if x == int(i) {
					idx = k
				}
			}
			if idx < 0 || idx+1 >= len(job.Indices) {
				return
			}
			job.Indices = job.Indices[idx+1:]
		}
		if restarts >= 12 {
			rep.Inconclusive("child for %s job died %d times; remaining cases not run", job.Mode, restarts+1)
			return
		}
	}
}

func runJobs(jobs []childJob, timeout time.Duration, onResult func(childResult), onDeath func(job childJob, last map[string]any, kind, what, stderr string)) {
	par := runtime.NumCPU()
	if par > 16 {
		par = 16
	}
	if par < 2 {
		par = 2
	}
	sem := make(chan struct{}, par)
	var wg sync.WaitGroup
	var mu sync.Mutex
	for _, j := range jobs {
		wg.Add(1)
		sem <- struct{}{}
		go func(j childJob) {
			defer wg.Done()
			defer func() { <-sem }()
			runJob(j, timeout,
				func(r childResult) { mu.Lock(); onResult(r); mu.Unlock() },
				func(last map[string]any, kind, what, stderr string) {
					mu.Lock()
					onDeath(j, last, kind, what, stderr)
					mu.Unlock()
				})
		}(j)
	}
	wg.Wait()
}

// ---------------------------------------------------------------------------
// (b) crash points

// changePoints finds every p in (lo,hi] at which admitted(p) != admitted(p-1).
func changePoints(f func(int) int, lo, hi int, flo, fhi int, out *[]int) {
	if flo == fhi || lo >= hi {
		return
	}
	if hi-lo == 1 {
		*out = append(*out, hi)
		return
	}
	mid := (lo + hi) / 2
	fm := f(mid)
	changePoints(f, lo, mid, flo, fm, out)
	changePoints(f, mid, hi, fm, fhi, out)
}

func selectPrefixes(name string, D []byte, rng *rand.Rand) []int {
	n := len(D)
	if rep.Thorough() || n <= 500 {
		ps := make([]int, n)
		for i := range ps {
			ps[i] = i
		}
		return ps
	}
	set := map[int]bool{}
	add := func(p int) {
		if p >= 0 && p < n {
			set[p] = true
		}
	}
	for i := 0; i < 64; i++ {
		add(i)
		add(n - 1 - i)
	}
	stride := n / 300
	if stride < 1 {
		stride = 1
	}
	for p := 0; p < n; p += stride {
		add(p)
	}
	for i := 0; i < 60; i++ {
		add(rng.Intn(n))
	}
	// positions at which the real loader admits one more block
	admitted := func(p int) int {
		caselog.Log(map[string]any{"phase": "trunc-boundary-search", "dump": name, "p": p})
		b := newBox(0, "")
		defer b.close()
		b.load(D[:p])
		return int(b.counters().size)
	}
	var cps []int
	changePoints(admitted, 0, n, 0, admitted(n), &cps)
	rep.Count("trunc_block_boundaries_found", int64(len(cps)))
	for _, c := range cps {
		for d := -16; d <= 16; d++ {
			add(c + d)
		}
	}
	ps := make([]int, 0, len(set))
	for p := range set {
		ps = append(ps, p)
	}
	sort.Ints(ps)
	return ps
}

func runTruncPhase(dumps []*scenState) {
	rng := rand.New(rand.NewSource(rep.Seed ^ 0x7c19))
	var jobs []childJob
	total := map[string]int{}
	dumpBytes := map[string][]byte{}
	allEnumerated := true
	for _, st := range dumps {
		name, D := st.sc.Name, st.D
		dumpBytes[name] = D
		f := filepath.Join(tmpDir, "dump-"+name+".bin")
		_ = os.WriteFile(f, D, 0o644)
		if dd, err := decodeDump(D); err == nil {
			total[name] = len(dd.Entries)
		}
		ps := selectPrefixes(name, D, rng)
		if len(ps) != len(D) {
			allEnumerated = false
		}
		rep.Count("trunc_dump_bytes:"+name, int64(len(D)))
		rep.Count("trunc_prefixes_selected:"+name, int64(len(ps)))
		chunks := 16
		if len(ps) < 2000 {
			chunks = 4
		}
		if len(ps) < 200 {
			chunks = 1
		}
		parts := make([][]int, chunks)
		for i, p := range ps {
			parts[i%chunks] = append(parts[i%chunks], p)
		}
		for _, part := range parts {
			jobs = append(jobs, childJob{Mode: "trunc", DumpName: name, DumpFile: f, Prefixes: part, FileEvery: rep.Pick(5, 16), Thorough: rep.Thorough()})
		}
	}
	rep.Exhaustive(allEnumerated)
	partial := map[string]bool{}
	onResult := func(r childResult) {
		if r.P >= 0 {
			rep.Eval(1)
			rep.Count("trunc_loads", 1)
			if r.ViaFile {
				rep.Count("trunc_loads_via_start_up_file", 1)
			}
			rep.Count(fmt.Sprintf("trunc_status_%d", r.Code), 1)
			rep.SetAdd("trunc_error_layers", r.Layer)
			rep.SetAdd("trunc_held_counts", fmt.Sprintf("%s:%d", r.Dump, r.Held))
			if r.Held > 0 {
				rep.Count("trunc_loads_that_admitted_entries", 1)
				if r.Held < total[r.Dump] {
					partial[r.Dump] = true
				}
			}
			rep.Max("trunc_slowest_load_us", r.Micros)
			if !strings.Contains(r.Layer, "gzip header") {
				rep.Nontrivial(fmt.Sprintf("trunc/%s/%d/%v", r.Dump, r.P, r.ViaFile))
			}
			if r.PostDump != "" {
				rep.Count("trunc_size_gauge_differs_from_dump", 1)
			}
		}
		for _, v := range r.Viols {
			rc := replayCase{Phase: "trunc", DumpName: r.Dump, Dump: dumpBytes[r.Dump], P: r.P, ViaFile: r.ViaFile, Result: &r}
			rep.Violation(v.Key, v.What, rc)
		}
	}
	onDeath := func(j childJob, last map[string]any, kind, what, stderr string) {
		p, _ := last["p"].(float64)
		vf, _ := last["via_file"].(bool)
		key := crashKey(stderr)
		if kind == "hang" {
			key = "hang-truncated-load"
		} else if kind == "oom" {
			key = "unbounded-allocation-truncated-load"
		}
		rep.Violation(key, fmt.Sprintf("loading the first %d bytes of dump %q killed the process: %s", int(p), j.DumpName, what),
			replayCase{Phase: "trunc", DumpName: j.DumpName, Dump: dumpBytes[j.DumpName], P: int(p), ViaFile: vf, Stderr: stderr})
	}
	runJobs(jobs, time.Duration(rep.Pick(400, 2400))*time.Second, onResult, onDeath)
	if rep.Get("trunc_loads") == 0 {
		rep.Inconclusive("no truncated load was executed")
	}
	for name, n := range total {
		if n > 128 && !partial[name] && rep.Violations() == 0 {
			rep.Inconclusive("dump %s (%d entries): no prefix produced a partially loaded cache", name, n)
		}
	}
	rep.Sample(map[string]any{"phase": "trunc", "meaning": "distinct (dump:entries held after loading a prefix) values seen", "dumps": total})
}

// ---------------------------------------------------------------------------
// (c) damage

func runDamagePhase(dumps []*scenState, keys []keyedQ) {
	var baseFiles []string
	dc := &damageCtx{Keys: keys}
	for _, st := range dumps {
		if len(st.D) > 200000 {
			continue
		}
		_, raw, err := gunzipAll(st.D)
		if err != nil {
			continue // reported by the fidelity phase
		}
		baseFiles = append(baseFiles, filepath.Join(tmpDir, "dump-"+st.sc.Name+".bin"))
		dc.Bases = append(dc.Bases, st.D)
		dc.Raws = append(dc.Raws, raw)
	}
	if len(baseFiles) == 0 {
		rep.Inconclusive("no base dump for the damage phase")
		return
	}
	keysFile := filepath.Join(tmpDir, "keys.json")
	kb, _ := json.Marshal(keys)
	_ = os.WriteFile(keysFile, kb, 0o644)
	rep.Count("damage_harvested_keys", int64(len(keys)))

	n := rep.Pick(1600, 20000)
	workers := 16
	parts := make([][]int, workers)
	for i := 0; i < n; i++ {
		parts[i%workers] = append(parts[i%workers], i)
	}
	var jobs []childJob
	for _, part := range parts {
		jobs = append(jobs, childJob{Mode: "damage", Seed: rep.Seed, Indices: part, BaseFiles: baseFiles, KeysFile: keysFile, Thorough: rep.Thorough()})
	}
	layers := map[string]bool{}
	onResult := func(r childResult) {
		rep.Eval(1)
		layers[r.Layer] = true
		rep.Count("damage_loads", 1)
		rep.Count(fmt.Sprintf("damage_status_%d", r.Code), 1)
		rep.SetAdd("damage_layers_reached", r.Layer)
		rep.SetAdd("damage_kind_x_layer", r.Kind+" -> "+r.Layer)
		rep.Max("damage_max_heap_growth_bytes", r.HeapGrow)
		rep.Max("damage_max_total_alloc_bytes", r.Alloc)
		if r.LiveObs > 0 {
			rep.Count("damage_live_heap_judged_inputs", 1)
			rep.Count("damage_live_heap_observations", int64(r.LiveObs))
			rep.Max("damage_max_live_heap_growth_bytes", r.LiveGrow)
			if r.Kind == "many-blocks-stream" {
				rep.Count("damage_many_block_streams", 1)
				rep.Max("damage_many_block_stream_max_live_growth_bytes", r.LiveGrow)
				rep.SetAdd("many_block_stream_cases", fmt.Sprintf("#%d %dus live=%d obs=%d %s", r.Idx, r.Micros, r.LiveGrow, r.LiveObs, r.Desc))
				if rep.Get("damage_many_block_streams") <= 2 {
					rep.Sample(map[string]any{"phase": "damage", "idx": r.Idx, "kind": r.Kind, "desc": r.Desc, "input_bytes": r.Len, "status": r.Code, "layer": r.Layer, "live_heap_growth_peak": r.LiveGrow, "live_observations": r.LiveObs, "live_limit": liveLimitStream})
				}
			}
		}
		rep.Max("damage_slowest_load_us", r.Micros)
		rep.Max("damage_max_input_bytes", int64(r.Len))
		rep.Max("damage_max_entries_admitted", int64(r.Held))
		if r.Len <= smallInput {
			rep.Count("damage_inputs_le_64KiB_heap_checked", 1)
		}
		rep.Count("damage_probes_of_hostile_entries", int64(r.Probed))
		rep.Count("damage_probes_served_from_hostile_entries", int64(r.ProbeHit))
		if r.PostDump != "" {
			rep.Count("damage_later_dump_fails", 1)
			rep.SetAdd("damage_later_dump_problem", r.Kind+": "+r.PostDump)
		}
		if !strings.Contains(r.Layer, "gzip header") {
			rep.Nontrivial(fmt.Sprintf("damage/%d", r.Idx))
		}
		if r.Idx%211 == 3 {
			rep.Sample(map[string]any{"phase": "damage", "idx": r.Idx, "kind": r.Kind, "desc": r.Desc, "input_bytes": r.Len, "status": r.Code, "layer": r.Layer, "entries_held": r.Held, "heap_growth": r.HeapGrow, "allocated": r.Alloc, "us": r.Micros})
		}
		for _, v := range r.Viols {
			c := genDamage(rep.Seed, r.Idx, dc, rep.Thorough())
			rep.Violation(v.Key, v.What, replayCase{Phase: "damage", Damage: &c, Result: &r})
		}
	}
	onDeath := func(j childJob, last map[string]any, kind, what, stderr string) {
		i, _ := last["idx"].(float64)
		c := genDamage(rep.Seed, int(i), dc, rep.Thorough())
		key := crashKey(stderr)
		if kind == "hang" {
			key = "hang-" + c.Kind
		} else if kind == "oom" {
			key = "unbounded-allocation-" + c.Kind
		}
		if len(c.Input) > 1<<20 {
			c.Input = nil // regenerate from (seed, idx)
		}
		rep.Violation(key, fmt.Sprintf("loading damaged input #%d (%s: %s, %d bytes) killed the process: %s", c.Idx, c.Kind, c.Desc, len(c.Input), what),
			replayCase{Phase: "damage", Damage: &c, Stderr: stderr})
	}
	runJobs(jobs, time.Duration(rep.Pick(400, 2400))*time.Second, onResult, onDeath)

	if rep.Violations() == 0 {
		var missing []string
		need := []string{"failed to read gzip header", "invalid or old cache dump", "failed to read block header", "invalid header", "failed to read block data", "failed to decode block data", "failed to decode dns msg", "accepted"}
		for _, l := range need {
			found := false
			for have := range layers {
				if strings.HasPrefix(have, l) {
					found = true
				}
			}
			if !found {
				missing = append(missing, l)
			}
		}
		// The layer names are the loader's error texts on the pinned tree; a tree that words
		// its errors differently is not less covered. What must be there: the loader both
		// accepted inputs and refused them in at least four distinguishable ways.
		if len(missing) > 0 && (len(layers) < 5 || !layers["accepted"]) {
			rep.Inconclusive("damage phase never reached parser layer(s) %q and only %d distinct loader outcomes were seen", missing, len(layers))
		} else if len(missing) > 0 {
			rep.Extra("damage_parser_layers_not_recognised_by_their_pinned_error_text", missing)
		}
		if rep.Get("damage_many_block_streams") == 0 || rep.Get("damage_live_heap_observations") == 0 {
			rep.Inconclusive("no many-block stream was loaded under the live-heap monitor")
		}
		if rep.Get("damage_probes_served_from_hostile_entries") == 0 {
			rep.Inconclusive("no admitted hostile entry was ever served")
		}
	}
}

// ---------------------------------------------------------------------------
// replay

func runReplay() {
	var c replayCase
	if err := rep.LoadReplay(&c); err != nil {
		fmt.Println("cannot load replay:", err)
		cleanup()
		os.Exit(3)
	}
	switch c.Phase {
	case "fidelity":
		if c.Scenario == nil {
			fmt.Println("replay: no scenario")
			cleanup()
			os.Exit(3)
		}
		runFidelity([]scenario{*c.Scenario})
	case "trunc":
		f := filepath.Join(tmpDir, "replay.bin")
		_ = os.WriteFile(f, c.Dump, 0o644)
		fe := 0
		if c.ViaFile {
			fe = 1
		}
		job := childJob{Mode: "trunc", DumpName: c.DumpName, DumpFile: f, Prefixes: []int{c.P}, FileEvery: fe}
		runJobs([]childJob{job}, 300*time.Second, func(r childResult) {
			rep.Eval(1)
			for _, v := range r.Viols {
				rep.Violation(v.Key, v.What, replayCase{Phase: "trunc", DumpName: c.DumpName, Dump: c.Dump, P: c.P, ViaFile: r.ViaFile, Result: &r})
			}
		}, func(j childJob, last map[string]any, kind, what, stderr string) {
			key := crashKey(stderr)
			if kind == "hang" {
				key = "hang-truncated-load"
			}
			rep.Violation(key, "replayed truncated load killed the process: "+what, replayCase{Phase: "trunc", DumpName: c.DumpName, Dump: c.Dump, P: c.P, Stderr: stderr})
		})
	case "damage":
		if c.Damage == nil {
			fmt.Println("replay: no damage case")
			cleanup()
			os.Exit(3)
		}
		if c.Damage.Input == nil {
			fmt.Println("replay: input was too large to store; re-run the tier with the same seed")
			cleanup()
			os.Exit(3)
		}
		job := childJob{Mode: "damage", Explicit: []damageCase{*c.Damage}}
		runJobs([]childJob{job}, 300*time.Second, func(r childResult) {
			rep.Eval(1)
			for _, v := range r.Viols {
				rep.Violation(v.Key, v.What, replayCase{Phase: "damage", Damage: c.Damage, Result: &r})
			}
		}, func(j childJob, last map[string]any, kind, what, stderr string) {
			key := crashKey(stderr)
			if kind == "hang" {
				key = "hang-" + c.Damage.Kind
			} else if kind == "oom" {
				key = "unbounded-allocation-" + c.Damage.Kind
			}
			rep.Violation(key, "replayed damaged input killed the process: "+what, replayCase{Phase: "damage", Damage: c.Damage, Stderr: stderr})
		})
	case "http":
		if c.HTTP == nil {
			fmt.Println("replay: no http case")
			cleanup()
			os.Exit(3)
		}
		runHTTPContent([]httpCase{*c.HTTP})
	case "overlap":
		for i := 0; i < 5 && rep.Violations() == 0; i++ {
			runOverlapPhase()
		}
	case "capacity":
		if c.Cap == nil {
			fmt.Println("replay: no capacity case")
			cleanup()
			os.Exit(3)
		}
		runCapCases([]capCase{*c.Cap})
	default:
		fmt.Println("replay: unknown phase", c.Phase)
		cleanup()
		os.Exit(3)
	}
}
