package main

// box wraps one instance of the real cache plugin: queries go through a
// sequence chain (cache -> terminal "upstream"), dumps go through the plugin's
// own HTTP API (chi router from (*Cache).Api(), driven with httptest).

import (
	"bytes"
	"context"
	"io"
	"net/http"
	"net/http/httptest"
	"strings"
	"time"

	"github.com/IrineSistiana/mosdns/v5/pkg/query_context"
	cacheplugin "github.com/IrineSistiana/mosdns/v5/plugin/executable/cache"
	"github.com/IrineSistiana/mosdns/v5/plugin/executable/sequence"
	"github.com/miekg/dns"
	"github.com/prometheus/client_golang/prometheus"
	"go.uber.org/zap"
	"go.uber.org/zap/zapcore"
	"go.uber.org/zap/zaptest/observer"
)

const boxSize = 1 << 18 // 4096 entries per shard: nothing is evicted in these workloads

type box struct {
	c    *cacheplugin.Cache
	api  http.Handler
	reg  *prometheus.Registry
	logs *observer.ObservedLogs
	fast map[string]prometheus.Metric // set by capCfg.open: the plugin's own collectors, read without Gather
}

// newBox creates a cache. With dumpFile set the plugin loads that file at
// start-up and writes it on Close (the restart path).
func newBox(lazyTTL int, dumpFile string) *box {
	core, logs := observer.New(zapcore.InfoLevel)
	c := cacheplugin.NewCache(&cacheplugin.Args{Size: boxSize, LazyCacheTTL: lazyTTL, DumpFile: dumpFile, DumpInterval: 3600},
		cacheplugin.Opts{Logger: zap.New(core)})
	b := &box{c: c, api: c.Api(), reg: prometheus.NewRegistry(), logs: logs}
	_ = c.RegMetricsTo(b.reg)
	return b
}

func (b *box) close() { _ = b.c.Close() }

func (b *box) dump() (int, []byte) {
	rec := httptest.NewRecorder()
	b.api.ServeHTTP(rec, httptest.NewRequest(http.MethodGet, "/dump", nil))
	return rec.Code, rec.Body.Bytes()
}

func (b *box) load(data []byte) (int, string) {
	return b.loadFrom(bytes.NewReader(data))
}

func (b *box) loadFrom(r io.Reader) (int, string) {
	rec := httptest.NewRecorder()
	b.api.ServeHTTP(rec, httptest.NewRequest(http.MethodPost, "/load_dump", r))
	return rec.Code, strings.TrimSpace(rec.Body.String())
}

// exec sends q through cache -> upstream. upstream == nil is a pure probe:
// nothing answers behind the cache, so nothing is stored.
func (b *box) exec(q *dns.Msg, upstream *dns.Msg) (*dns.Msg, error) {
	term := sequence.ExecutableFunc(func(_ context.Context, qCtx *query_context.Context) error {
		if upstream != nil && qCtx.R() == nil {
			qCtx.SetResponse(upstream)
		}
		return nil
	})
	chain := []*sequence.ChainNode{{RE: b.c}, {E: term}}
	w := sequence.NewChainWalker(chain, nil)
	qCtx := query_context.NewContext(q)
	ctx, cancel := context.WithTimeout(context.Background(), 10*time.Second)
	defer cancel()
	err := w.ExecNext(ctx, qCtx)
	return qCtx.R(), err
}

type counters struct{ query, hit, lazy, size int64 }

func (b *box) counters() counters {
	var c counters
	mfs, _ := b.reg.Gather()
	for _, mf := range mfs {
		if len(mf.Metric) == 0 {
			continue
		}
		m := mf.Metric[0]
		switch mf.GetName() {
		case "query_total":
			c.query = int64(m.GetCounter().GetValue())
		case "hit_total":
			c.hit = int64(m.GetCounter().GetValue())
		case "lazy_hit_total":
			c.lazy = int64(m.GetCounter().GetValue())
		case "size_current":
			c.size = int64(m.GetGauge().GetValue())
		}
	}
	return c
}

// errorLogs returns the messages logged at error level.
func (b *box) errorLogs() []string {
	var out []string
	for _, e := range b.logs.All() {
		if e.Level >= zapcore.ErrorLevel {
			s := e.Message
			for _, f := range e.Context {
				if f.Key == "error" && f.Interface != nil {
					if er, ok := f.Interface.(error); ok {
						s += ": " + er.Error()
					}
				}
			}
			out = append(out, s)
		}
	}
	return out
}
