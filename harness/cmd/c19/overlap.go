package main

// (g) overlapping dumps.
//
// Nothing serialises the writers of a dump: GET /dump requests, the periodic
// dump-to-file goroutine and the final dump of Close() may all run at the same
// time on one cache. Every one of them that completes is an intact dump and has
// to reload to what the cache holds, whatever the others were doing.
//
// One cache (DumpFile set, dump_interval 1 s) holding a few thousand entries
// (dozens of blocks per dump) goes through rounds:
//   - api:      k dumps through the plugin's API handler and l dumps fetched by a
//               real HTTP client from a real listener, all released together;
//               meanwhile new entries are stored and held ones are hit;
//   - periodic: > 1024 fresh entries arm the periodic dump; one API dump (the
//               leader) is held at its first write, the round waits until the
//               dump file is re-created, then releases the leader together with
//               more API dumps;
//   - close:    the same with the final dump of Close().
//   - file-file: (own caches, Close() ends one) the leader is held, the armed periodic
//               dump re-creates the dump file and parks behind the leader; Close() is
//               called and the round waits until two goroutines are inside the plugin's
//               dump-to-file function; then the leader is released. Judged: the dump
//               FILE as a restart would read it, after both writers have ended.
// Overlap is decided on events (a logical clock stepped at the first write and
// at the return of every dump), never on time.
//
// Oracle: B = entries of a lone dump taken before the round, A = entries of a
// lone dump taken after it (nothing expires or is evicted in this phase: every
// entry lives >= 1 h, the cache is far from full). Every dump D of the round,
// read by the independent reader and reloaded into a fresh cache R (R's content
// read through R's own dump): B <= D <= A and B <= R <= A as sets of (key,
// message, cache expiry, message expiry, stored time); the load reports success.

import (
	"fmt"
	"io"
	"math/rand"
	"net"
	"net/http"
	"net/http/httptest"
	"os"
	"path/filepath"
	"runtime"
	"strconv"
	"strings"
	"sync"
	"sync/atomic"
	"time"

	"github.com/IrineSistiana/mosdns/v5/coremain"
	cacheplugin "github.com/IrineSistiana/mosdns/v5/plugin/executable/cache"
	"github.com/prometheus/client_golang/prometheus"
	"go.uber.org/zap"
	"go.uber.org/zap/zapcore"
	"go.uber.org/zap/zaptest/observer"
)

const (
	ovWatchdog = 90 * time.Second // expiry = inconclusive
	ovSteering = 20 * time.Second // waits for "the file dump has begun"; expiry = inconclusive, and the phase stops
)

var ovGaveUp bool // a wait expired: the rest of the phase is not run

var ovKinds = []string{"a", "aaaa", "cname-a", "mx-extra", "txt", "srv", "ns-glue", "caa"}

type ovDump struct {
	Route string `json:"route"` // api-handler | api-listener | periodic-file | close-file | lone
	Round int    `json:"round"`
	Kind  string `json:"round_kind"`
	N     int    `json:"n"`

	start, end atomic.Int64  // logical clock: first write, return
	gate       chan struct{} // leader only: held at its first write until closed
	arrived    chan struct{}
	code       int
	data       []byte
	err        error
	note       string // extra context for messages
}

type ovClock struct{ atomic.Int64 }

func (c *ovClock) tick() int64 { return c.Add(1) }

type ovRW struct {
	http.ResponseWriter
	d     *ovDump
	clock *ovClock
	once  sync.Once
	hung  atomic.Bool
}

func (w *ovRW) Write(p []byte) (int, error) {
	w.once.Do(func() {
		w.d.start.Store(w.clock.tick())
		if w.d.gate != nil {
			close(w.d.arrived)
			select {
			case <-w.d.gate:
			case <-time.After(ovWatchdog):
				w.hung.Store(true)
			}
		}
	})
	return w.ResponseWriter.Write(p)
}

func (w *ovRW) Flush() {
	if f, ok := w.ResponseWriter.(http.Flusher); ok {
		f.Flush()
	}
}

type ovState struct {
	b     *box
	file  string
	clock ovClock
	rng   *rand.Rand
	next  int // next entry index
	qs    []qspec
	errs  int // error lines logged so far

	srv   *http.Server
	base  string
	slots sync.Map // id -> *ovDump (listener route)
	slotN atomic.Int64

	storesSinceFileDump int
	closed              bool
	gaveUp              bool
}

func newOvBox(file string) *box {
	core, logs := observer.New(zapcore.InfoLevel)
	c := cacheplugin.NewCache(&cacheplugin.Args{Size: boxSize, DumpFile: file, DumpInterval: 1},
		cacheplugin.Opts{Logger: zap.New(core)})
	b := &box{c: c, api: c.Api(), reg: prometheus.NewRegistry(), logs: logs}
	_ = c.RegMetricsTo(b.reg)
	return b
}

func (s *ovState) serve() error {
	m := coremain.NewTestMosdnsWithPlugins(map[string]any{apiTag: s.b.c})
	m.RegPluginAPI(apiTag, s.b.c.Api())
	router := m.GetAPIRouter()
	ln, err := net.Listen("tcp", "127.0.0.1:0")
	if err != nil {
		return err
	}
	s.base = "http://" + ln.Addr().String() + "/plugins/" + apiTag
	s.srv = &http.Server{Handler: http.HandlerFunc(func(w http.ResponseWriter, r *http.Request) {
		if v, ok := s.slots.Load(r.Header.Get("X-Ov-Id")); ok && r.Method == http.MethodGet && strings.HasSuffix(r.URL.Path, "/dump") {
			d := v.(*ovDump)
			router.ServeHTTP(&ovRW{ResponseWriter: w, d: d, clock: &s.clock}, r)
			d.end.Store(s.clock.tick())
			return
		}
		router.ServeHTTP(w, r)
	})}
	go func() { _ = s.srv.Serve(ln) }()
	return nil
}

// viaHandler runs one GET /dump on the plugin's API handler.
func (s *ovState) viaHandler(d *ovDump) {
	rec := httptest.NewRecorder()
	s.b.api.ServeHTTP(&ovRW{ResponseWriter: rec, d: d, clock: &s.clock}, httptest.NewRequest(http.MethodGet, "/dump", nil))
	d.end.Store(s.clock.tick())
	d.code, d.data = rec.Code, rec.Body.Bytes()
}

// viaListener fetches one dump with a real client from the real listener.
func (s *ovState) viaListener(d *ovDump) {
	id := strconv.FormatInt(s.slotN.Add(1), 10)
	s.slots.Store(id, d)
	defer s.slots.Delete(id)
	cl := &http.Client{Transport: &http.Transport{DisableCompression: true}, Timeout: httpTimeout}
	defer cl.CloseIdleConnections()
	req, _ := http.NewRequest(http.MethodGet, s.base+"/dump", nil)
	req.Header.Set("X-Ov-Id", id)
	resp, err := cl.Do(req)
	if err != nil {
		d.err = err
		return
	}
	defer resp.Body.Close()
	d.code = resp.StatusCode
	d.data, d.err = io.ReadAll(resp.Body)
}

func (s *ovState) storeFresh(into *box, n int, rng *rand.Rand) int {
	ok := 0
	for i := 0; i < n; i++ {
		s.next++
		kind := ovKinds[rng.Intn(len(ovKinds))]
		ttl := uint32(3600 + rng.Intn(80000))
		q, up := genReply(rng, s.next, kind, func() uint32 { return ttl }, 0)
		if err := into.store(q.msg(uint16(s.next)), up); err == nil {
			ok++
			s.qs = append(s.qs, q)
		}
	}
	return ok
}

func (s *ovState) fileDumpsLogged() int { return s.b.logs.FilterMessage("cache dumped").Len() }

// dumpSignal tells that a dump to the dump file has begun, however the tree writes the
// file: the file itself was re-created / replaced, a new entry appeared in its directory
// (a temporary file to be renamed), or a goroutine is inside the plugin's dump-to-file
// function coming from `who` (the dump loop resp. Close()).
type dumpSignal struct {
	file  string
	was   os.FileInfo
	names map[string]bool
	who   string
	polls int
	Seen  map[string]bool
}

func dirNames(dir string) map[string]bool {
	m := map[string]bool{}
	if es, err := os.ReadDir(dir); err == nil {
		for _, e := range es {
			m[e.Name()] = true
		}
	}
	return m
}

func newDumpSignal(file, who string) *dumpSignal {
	g := &dumpSignal{file: file, who: who, names: dirNames(filepath.Dir(file)), Seen: map[string]bool{}}
	g.was, _ = os.Stat(file)
	return g
}

// inDumpCache reports whether a goroutine with `who` in its stack is inside dumpCache.
func inDumpCache(who string) bool {
	buf := make([]byte, 4<<20)
	buf = buf[:runtime.Stack(buf, true)]
	for _, g := range strings.Split(string(buf), "\n\n") {
		if strings.Contains(g, "cache.(*Cache).dumpCache(") && strings.Contains(g, who) {
			return true
		}
	}
	return false
}

func (g *dumpSignal) begun() bool {
	if fileChanged(g.file, g.was) {
		g.Seen["dump file re-created or replaced"] = true
		rep.SetAdd("overlap_dump_begun_signals_seen", "dump file re-created or replaced")
		return true
	}
	for n := range dirNames(filepath.Dir(g.file)) {
		if !g.names[n] {
			g.Seen["new file in the dump directory"] = true
			rep.SetAdd("overlap_dump_begun_signals_seen", "new file in the dump directory")
			return true
		}
	}
	g.polls++
	if g.polls%4 == 0 && inDumpCache(g.who) { // stops the world: not on every poll
		g.Seen["goroutine inside dumpCache"] = true
		rep.SetAdd("overlap_dump_begun_signals_seen", "goroutine inside dumpCache")
		return true
	}
	return false
}

const (
	fromLoop  = "(*Cache).startDumpLoop"
	fromClose = "cache.(*Cache).Close("
)

// fileChanged reports whether the dump file is no longer what it was.
func fileChanged(path string, was os.FileInfo) bool {
	fi, err := os.Stat(path)
	if err != nil {
		return false
	}
	if was == nil {
		return true
	}
	return fi.Size() != was.Size() || !fi.ModTime().Equal(was.ModTime())
}

func (s *ovState) waitFor(what string, cond func() bool) bool {
	return s.waitForT(what, ovWatchdog, cond)
}

func (s *ovState) waitForT(what string, limit time.Duration, cond func() bool) bool {
	t0 := time.Now()
	for !cond() {
		if time.Since(t0) > limit {
			rep.Inconclusive("overlap phase: %s did not happen within %v", what, limit)
			s.gaveUp = true
			ovGaveUp = true
			return false
		}
		time.Sleep(300 * time.Microsecond)
	}
	return true
}

// lone takes one dump with nothing else running and decodes it.
func (s *ovState) lone(round int, kind, when string) map[string]int {
	d := &ovDump{Route: "lone", Round: round, Kind: kind}
	s.viaHandler(d)
	dd, err := decodeDump(d.data)
	if d.code != http.StatusOK || err != nil {
		rep.Violation("overlapping-dump-undecodable", fmt.Sprintf("round %d (%s): the reference dump taken %s the overlapping dumps (status %d) is not a well-formed dump: %v", round, kind, when, d.code, err),
			replayCase{Phase: "overlap"})
		return nil
	}
	return tupleSet(dd.Entries)
}

func ovQuestion(t string) string {
	// tuple = key|cexp|mexp|stored|hex(msg): show the question of the message
	i := strings.LastIndex(t, "|")
	if i < 0 {
		return "?"
	}
	var b []byte
	if _, err := fmt.Sscanf(t[i+1:], "%x", &b); err != nil {
		return "?"
	}
	qk, _ := questionKey(b)
	return qk
}

// judgeSet checks B <= got <= A. what names the thing got was read from.
func judgeSet(d *ovDump, what string, got []dumpEntry, B, A map[string]int, keyMiss, keyForeign string) (volatile int) {
	g := tupleSet(got)
	for t, n := range g {
		if n > 1 {
			rep.Count("overlap_duplicate_tuples_in_a_dump", 1)
		}
		if A[t] == 0 {
			rep.Violation(keyForeign, fmt.Sprintf("round %d (%s), dump #%d via %s: %s holds an entry the cache never held (question %s): it is in neither the lone dump before nor the lone dump after the round", d.Round, d.Kind, d.N, d.Route, what, ovQuestion(t)),
				replayCase{Phase: "overlap"})
			return
		}
		if B[t] == 0 {
			volatile++
		}
	}
	miss, first := 0, ""
	for t := range B {
		if g[t] == 0 {
			miss++
			if first == "" {
				first = ovQuestion(t)
			}
		}
	}
	if miss > 0 {
		rep.Violation(keyMiss, fmt.Sprintf("round %d (%s), dump #%d via %s: %s lacks %d of the %d entries the cache held throughout the round (first: %s); it has %d entries", d.Round, d.Kind, d.N, d.Route, what, miss, len(B), first, len(got)),
			replayCase{Phase: "overlap"})
	}
	return
}

func (s *ovState) judge(d *ovDump, B, A map[string]int) {
	rep.Eval(1)
	rep.Count("overlap_dumps_completed:"+d.Route, 1)
	if d.err != nil {
		rep.Inconclusive("overlap phase: download of dump #%d (round %d) failed in the client: %v", d.N, d.Round, d.err)
		return
	}
	if d.code != http.StatusOK {
		rep.Violation("overlapping-dump-failed", fmt.Sprintf("round %d (%s), dump #%d via %s: status %d", d.Round, d.Kind, d.N, d.Route, d.code), replayCase{Phase: "overlap"})
		return
	}
	dd, derr := decodeDump(d.data)
	// the property: the dump loads into an empty cache and reproduces the entries
	R := newBox(0, "")
	defer R.close()
	code, msg := R.load(d.data)
	if code != http.StatusOK {
		key := "overlapping-dump-rejected"
		if d.Kind == "file-file" && d.Route == "dump-file" {
			key = "overlapping-file-dumps-corrupt-dump-file"
		}
		rep.Violation(key, fmt.Sprintf("round %d (%s), dump #%d via %s (%d bytes, complete%s): loading it into an empty cache fails with status %d: %s (independent reader: %v)", d.Round, d.Kind, d.N, d.Route, len(d.data), d.note, code, msg, derr),
			replayCase{Phase: "overlap", Dump: clip(d.data)})
		return
	}
	if derr != nil {
		key := "overlapping-dump-undecodable"
		if d.Kind == "file-file" && d.Route == "dump-file" {
			key = "overlapping-file-dumps-corrupt-dump-file"
		}
		rep.Violation(key, fmt.Sprintf("round %d (%s), dump #%d via %s (%d bytes%s): the independent reader cannot read it: %v", d.Round, d.Kind, d.N, d.Route, len(d.data), d.note, derr),
			replayCase{Phase: "overlap", Dump: clip(d.data)})
		return
	}
	rep.Max("overlap_max_blocks_in_a_dump", int64(len(dd.BlockSizes)))
	vol := judgeSet(d, "the dump", dd.Entries, B, A, "overlapping-dump-misses-live-entry", "overlapping-dump-holds-foreign-entry")
	rc, rdata := R.dump()
	rd, rerr := decodeDump(rdata)
	if rc != http.StatusOK || rerr != nil {
		rep.Violation("overlapping-dump-reload-undumpable", fmt.Sprintf("round %d (%s), dump #%d via %s: the cache that loaded it cannot be dumped (status %d, %v)", d.Round, d.Kind, d.N, d.Route, rc, rerr), replayCase{Phase: "overlap"})
		return
	}
	judgeSet(d, "the cache reloaded from the dump", rd.Entries, B, A, "overlapping-dump-reload-misses-live-entry", "overlapping-dump-reload-holds-foreign-entry")
	rep.Count("overlap_dumps_reloaded_and_compared", 1)
	rep.Count("overlap_entries_compared", int64(len(rd.Entries)))
	if len(A) > len(B) {
		rep.Count("overlap_entries_stored_during_the_dump_present", int64(vol))
		rep.Count("overlap_entries_stored_during_the_dump_absent", int64(len(A)-len(B)-vol))
	}
}

func clip(b []byte) []byte {
	if len(b) > 4<<20 {
		return nil
	}
	return b
}

// round runs one round. kind: api | periodic | close.
func (s *ovState) round(n int, kind string, k, l int) {
	if s.gaveUp || ovGaveUp {
		return
	}
	rng := rand.New(rand.NewSource(s.rng.Int63()))
	caselog.Log(map[string]any{"phase": "overlap", "round": n, "kind": kind})
	before := s.fileDumpsLogged()
	who := fromLoop
	if kind == "close" {
		who = fromClose
	}
	sig := newDumpSignal(s.file, who)
	if kind == "periodic" {
		// arm the periodic dump: it runs at the next tick once >= 1024 keys were updated
		s.storeFresh(s.b, 1100, rng)
		s.storesSinceFileDump += 1100
	}
	B := s.lone(n, kind, "before")
	if B == nil {
		return
	}
	var dumps []*ovDump
	mk := func(route string) *ovDump {
		d := &ovDump{Route: route, Round: n, Kind: kind, N: len(dumps)}
		dumps = append(dumps, d)
		return d
	}
	var wg sync.WaitGroup
	run := func(d *ovDump, start chan struct{}) {
		wg.Add(1)
		go func() {
			defer wg.Done()
			if start != nil {
				<-start
			}
			if d.Route == "api-listener" {
				s.viaListener(d)
			} else {
				s.viaHandler(d)
			}
		}()
	}
	start := make(chan struct{})
	var fileDump *ovDump
	fileGuaranteed := false
	closeDone := make(chan struct{})
	var leader *ovDump
	if kind != "api" {
		leader = mk("api-handler")
		leader.gate, leader.arrived = make(chan struct{}), make(chan struct{})
		run(leader, nil)
		ok := s.waitFor("the leader dump's first write", func() bool {
			select {
			case <-leader.arrived:
				return true
			default:
				return false
			}
		})
		if !ok {
			close(leader.gate)
			wg.Wait()
			return
		}
		early := sig.begun() // the tick came before the leader was in place
		fileDump = mk(kind + "-file")
		if kind == "close" {
			go func() { s.b.close(); close(closeDone) }()
			s.closed = true
		}
		if !s.waitForT("the beginning of the "+kind+" dump (dump file re-created, new file in its directory, or a goroutine inside dumpCache)", ovSteering, sig.begun) {
			close(leader.gate)
			wg.Wait()
			return
		}
		fileDump.start.Store(s.clock.tick())
		// the file dump has begun, the leader is in the middle of its own dump; has the
		// file dump ended already? (it cannot pass the shard the leader holds, but decide on events)
		ended := s.fileDumpsLogged() > before
		if kind == "close" {
			select {
			case <-closeDone:
				ended = true
			default:
				ended = false
			}
		}
		fileGuaranteed = !early && !ended
	}
	for i := 0; i < k; i++ {
		run(mk("api-handler"), start)
	}
	for i := 0; i < l; i++ {
		run(mk("api-listener"), start)
	}
	// queries while the dumps run: fresh stores (budgeted: they must not arm a periodic dump) and hits
	stop := make(chan struct{})
	var qwg sync.WaitGroup
	if !s.closed || kind == "close" {
		nStore := 0
		if kind == "api" && s.storesSinceFileDump+60 < 900 {
			nStore = 60
			s.storesSinceFileDump += nStore
		}
		qwg.Add(1)
		go func() {
			defer qwg.Done()
			<-start
			held := len(s.qs)
			stored := s.storeFresh(s.b, nStore, rng)
			rep.Count("overlap_entries_stored_while_dumps_ran", int64(stored))
			for i := 0; held > 0; i++ {
				select {
				case <-stop:
					return
				default:
				}
				q := s.qs[rng.Intn(held)]
				if r, _ := s.b.exec(q.msg(uint16(i)), nil); r != nil {
					rep.Count("overlap_hits_served_while_dumps_ran", 1)
				}
				if i%16 == 15 {
					time.Sleep(200 * time.Microsecond)
				}
			}
		}()
	}
	close(start)
	if leader != nil {
		close(leader.gate)
	}
	wg.Wait()
	close(stop)
	qwg.Wait()
	if fileDump != nil {
		done := false
		if kind == "close" {
			done = s.waitFor("return of Close()", func() bool {
				select {
				case <-closeDone:
					return true
				default:
					return false
				}
			})
		} else {
			done = s.waitFor("the periodic dump's completion log", func() bool { return s.fileDumpsLogged() > before })
			s.storesSinceFileDump = 0
		}
		if !done {
			return
		}
		fileDump.end.Store(s.clock.tick())
		fileDump.code = http.StatusOK
		fileDump.data, fileDump.err = os.ReadFile(s.file)
		if errs := s.b.errorLogs(); len(errs) > s.errs {
			s.errs = len(errs)
			rep.Violation("overlapping-dump-failed", fmt.Sprintf("round %d (%s): the cache logged errors: %.300q", n, kind, errs), replayCase{Phase: "overlap"})
		}
	}
	A := s.lone(n, kind, "after")
	if A == nil {
		return
	}
	rep.Count("overlap_rounds:"+kind, 1)
	// overlap, on the logical clock
	pairs := 0
	for i, x := range dumps {
		for _, y := range dumps[i+1:] {
			if x == fileDump || y == fileDump {
				continue
			}
			xs, xe, ys, ye := x.start.Load(), x.end.Load(), y.start.Load(), y.end.Load()
			if xs > 0 && ys > 0 && xs < ye && ys < xe {
				pairs++
				rep.Count("overlap_pairs:"+x.Route+"~"+y.Route, 1)
			}
		}
	}
	rep.Count("overlap_pairs_of_api_dumps_in_flight_together", int64(pairs))
	if fileDump != nil {
		if fileGuaranteed {
			rep.Count("overlap_"+kind+"_file_dumps_begun_while_an_api_dump_was_in_flight", 1)
		} else {
			rep.Count("overlap_"+kind+"_file_dumps_not_provably_overlapped", 1)
		}
	}
	for _, d := range dumps {
		s.judge(d, B, A)
		if pairs > 0 || fileGuaranteed {
			rep.Nontrivial(fmt.Sprintf("overlap/%d/%s/%d/%s", n, kind, d.N, d.Route))
		}
	}
	if n < 2 || kind != "api" {
		routes := map[string]int{}
		for _, d := range dumps {
			routes[d.Route]++
		}
		rep.Sample(map[string]any{"phase": "overlap", "round": n, "kind": kind, "dumps": routes, "entries_before": len(B), "entries_after": len(A),
			"api_pairs_in_flight_together": pairs, "file_dump_begun_while_leader_in_flight": fileGuaranteed})
	}
}

// dumpCacheFrames counts the goroutines that are inside the plugin's dump-to-file
// function right now (periodic goroutine, Close()).
func dumpCacheFrames() int {
	buf := make([]byte, 4<<20)
	buf = buf[:runtime.Stack(buf, true)]
	return strings.Count(string(buf), "cache.(*Cache).dumpCache(")
}

// fileFileRound: the periodic dump and the final dump of Close() in flight together on
// the one DumpFile. Judged: the file a restart would read. Ends the cache.
func (s *ovState) fileFileRound(n int) {
	const kind = "file-file"
	if s.gaveUp || ovGaveUp {
		return
	}
	rng := rand.New(rand.NewSource(s.rng.Int63()))
	caselog.Log(map[string]any{"phase": "overlap", "round": n, "kind": kind})
	before := s.fileDumpsLogged()
	sig := newDumpSignal(s.file, fromLoop)
	s.storeFresh(s.b, 1100, rng) // arms the periodic dump for the next tick
	B := s.lone(n, kind, "before")
	if B == nil {
		return
	}
	leader := &ovDump{Route: "api-handler", Round: n, Kind: kind, N: 0}
	leader.gate, leader.arrived = make(chan struct{}), make(chan struct{})
	lead := make(chan struct{})
	go func() { s.viaHandler(leader); close(lead) }()
	chanDone := func(c chan struct{}) func() bool {
		return func() bool {
			select {
			case <-c:
				return true
			default:
				return false
			}
		}
	}
	bail := func() { close(leader.gate); <-lead }
	if !s.waitFor("the leader dump's first write", chanDone(leader.arrived)) {
		bail()
		return
	}
	early := sig.begun() // the tick came before the leader held its shard
	if !s.waitForT("the beginning of the periodic dump (dump file re-created, new file in its directory, or a goroutine inside dumpCache)", ovSteering, sig.begun) {
		bail()
		return
	}
	periodicEnded := s.fileDumpsLogged() > before
	// the periodic dump has begun; it cannot pass the shard the leader holds. Now the final dump.
	closeDone := make(chan struct{})
	go func() { s.b.close(); close(closeDone) }()
	s.closed = true
	// steering only: give Close() time to get into its dump; what is counted is what was seen
	both := false
	for t0 := time.Now(); time.Since(t0) < 5*time.Second && !chanDone(closeDone)(); time.Sleep(time.Millisecond) {
		if dumpCacheFrames() >= 2 {
			both = true
			break
		}
	}
	established := both && !early && !periodicEnded && s.fileDumpsLogged() == before && !chanDone(closeDone)()
	close(leader.gate)
	<-lead
	if !s.waitFor("return of Close()", chanDone(closeDone)) {
		return
	}
	// the periodic goroutine may still be streaming: both dumps logged, or nobody is inside
	// dumpCache any more and the file has stopped changing
	var last os.FileInfo
	stable := 0
	if !s.waitFor("the end of both file dumps", func() bool {
		if s.fileDumpsLogged() >= before+2 && dumpCacheFrames() == 0 {
			return true
		}
		fi, _ := os.Stat(s.file)
		if fi != nil && last != nil && fi.Size() == last.Size() && fi.ModTime().Equal(last.ModTime()) && dumpCacheFrames() == 0 {
			stable++
		} else {
			stable = 0
		}
		last = fi
		return stable >= 300 // ~100 ms without a change
	}) {
		return
	}
	fd := &ovDump{Route: "dump-file", Round: n, Kind: kind, N: 1, code: http.StatusOK}
	fd.data, fd.err = os.ReadFile(s.file)
	fd.note = fmt.Sprintf("; the file both the periodic dump and Close()'s dump streamed into, read after both had ended; 'cache dumped' entries logged: %v", s.b.infoCounts("cache dumped"))
	if errs := s.b.errorLogs(); len(errs) > s.errs {
		s.errs = len(errs)
		rep.Violation("overlapping-dump-failed", fmt.Sprintf("round %d (%s): the cache logged errors: %.300q", n, kind, errs), replayCase{Phase: "overlap"})
	}
	A := s.lone(n, kind, "after")
	if A == nil {
		return
	}
	rep.Count("overlap_rounds:"+kind, 1)
	if established {
		rep.Count("overlap_file_file_rounds_with_both_file_dumps_in_flight_together", 1)
	} else {
		rep.Count("overlap_file_file_rounds_not_provably_overlapped", 1)
	}
	for _, d := range []*ovDump{leader, fd} {
		s.judge(d, B, A)
		if established {
			rep.Nontrivial(fmt.Sprintf("overlap/%d/%s/%d/%s", n, kind, d.N, d.Route))
		}
	}
	if rep.WantSample() {
		rep.Sample(map[string]any{"phase": "overlap", "round": n, "kind": kind, "entries_before": len(B), "entries_after": len(A), "dump_file_bytes": len(fd.data),
			"both_file_dumps_in_flight_together": established, "cache_dumped_log_entries": s.b.infoCounts("cache dumped")})
	}
}

func newOvState(name string, seed int64) *ovState {
	s := &ovState{rng: rand.New(rand.NewSource(seed))}
	s.file = filepath.Join(tmpDir, "overlap-"+name+".dump")
	s.b = newOvBox(s.file)
	if err := s.serve(); err != nil {
		rep.Inconclusive("overlap phase: listen: %v", err)
		s.b.close()
		return nil
	}
	s.errs = len(s.b.errorLogs()) // "no dump file yet" at start-up
	// fill through a dump of a scratch cache: loading does not count as updated keys, so
	// the only periodic dumps are the ones the rounds arm
	entries := 2600 + s.rng.Intn(1200)
	F := newBox(0, "")
	stored := s.storeFresh(F, entries, s.rng)
	_, fd := F.dump()
	F.close()
	if code, msg := s.b.load(fd); code != http.StatusOK {
		rep.Inconclusive("overlap phase: filling the cache failed: %d %s", code, msg)
		s.shut()
		return nil
	}
	rep.Count("overlap_entries_in_the_cache", int64(stored))
	return s
}

func (s *ovState) shut() {
	_ = s.srv.Close()
	if !s.closed {
		s.b.close()
		s.closed = true
	}
	os.Remove(s.file)
}

func runOverlapPhase() {
	t0 := time.Now()
	ovGaveUp = false
	caches := rep.Pick(1, 3)
	for ci := 0; ci < caches; ci++ {
		s := newOvState(strconv.Itoa(ci), rep.Seed^0x0f19^int64(ci)<<20)
		if s == nil {
			return
		}
		n := 0
		for i := 0; i < rep.Pick(5, 30); i++ {
			s.round(n, "api", 2+s.rng.Intn(3), 1+s.rng.Intn(2))
			n++
		}
		for i := 0; i < rep.Pick(2, 5); i++ {
			s.round(n, "periodic", 2+s.rng.Intn(2), 1)
			n++
		}
		s.round(n, "close", 2+s.rng.Intn(2), 1)
		s.shut()
		if s.gaveUp || ovGaveUp {
			break
		}
	}
	// the two file routes against each other: Close() ends a cache, so one cache per round
	for ci := 0; ci < rep.Pick(3, 10); ci++ {
		s := newOvState("ff"+strconv.Itoa(ci), rep.Seed^0x1f19^int64(ci)<<20)
		if s == nil {
			return
		}
		s.fileFileRound(1000 + ci)
		s.shut()
		if s.gaveUp || ovGaveUp {
			break
		}
	}
	rep.Count("overlap_phase_ms", time.Since(t0).Milliseconds())
	if rep.Violations() == 0 {
		if rep.Get("overlap_file_file_rounds_with_both_file_dumps_in_flight_together") == 0 {
			rep.Inconclusive("overlap phase: the periodic dump and the dump of Close() were never seen in flight together")
		}
		if rep.Get("overlap_pairs_of_api_dumps_in_flight_together") == 0 {
			rep.Inconclusive("overlap phase: no two API dumps were ever in flight together")
		}
		if rep.Get("overlap_periodic_file_dumps_begun_while_an_api_dump_was_in_flight") == 0 {
			rep.Inconclusive("overlap phase: no periodic dump began while an API dump was in flight")
		}
		if rep.Get("overlap_close_file_dumps_begun_while_an_api_dump_was_in_flight") == 0 {
			rep.Inconclusive("overlap phase: no Close() dump began while an API dump was in flight")
		}
		if rep.Get("overlap_max_blocks_in_a_dump") < 8 {
			rep.Inconclusive("overlap phase: dumps had fewer than 8 blocks")
		}
	}
}
