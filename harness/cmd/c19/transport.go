package main

// (e) The dump on the transport it is offered on.
//
// Phases (a)-(d) drive the plugin's API router with httptest recorders: they
// see the bytes the handler writes, not what an API user ends up with. Here the
// router is mounted the way coremain mounts it (/plugins/<tag>, RegPluginAPI)
// and served by a real net/http server on a loopback listener. The dump is
// downloaded by a set of client models - Go's default transport (which
// negotiates and removes content codings by itself), the same without
// compression handling, clients that send Accept-Encoding themselves and decode
// what Content-Encoding declares (browsers, curl --compressed) or keep the body
// as is (curl -o), HTTP/1.0, and hand-written HTTP/1.1 exchanges that reuse one
// connection or pipeline on it - saved the way that client saves it, and
// uploaded to POST /load_dump of an empty cache behind a second server by a set
// of uploader models (Content-Length, chunked, Expect: 100-continue, a reused
// keep-alive connection, hand-written chunks of arbitrary sizes).
//
// Oracle: whatever an honest client saved from GET /dump must be accepted by
// POST /load_dump and reproduce the entries: the reloaded cache's own dump holds
// exactly the entries of the saved file (same key, message, three times), which
// in turn are the entries a direct dump of the source holds and the entries the
// file written by Close() holds.

import (
	"bufio"
	"bytes"
	"compress/gzip"
	"compress/zlib"
	"errors"
	"fmt"
	"io"
	"math/rand"
	"net"
	"net/http"
	"os"
	"strings"
	"sync"
	"time"

	"github.com/IrineSistiana/mosdns/v5/coremain"
)

const (
	apiTag      = "c19_cache"
	httpTimeout = 120 * time.Second // watchdog only
)

type apiSrv struct {
	ln   net.Listener
	srv  *http.Server
	base string // http://127.0.0.1:port/plugins/<tag>
	host string

	mu      sync.Mutex
	written []byte      // body of the last GET .../dump as the handler wrote it
	sentHdr http.Header // and the header fields the handler had set when it started writing
}

type teeRW struct {
	http.ResponseWriter
	buf *bytes.Buffer
	hdr http.Header
}

func (t *teeRW) WriteHeader(code int) {
	if t.hdr == nil {
		t.hdr = t.ResponseWriter.Header().Clone()
	}
	t.ResponseWriter.WriteHeader(code)
}

func (t *teeRW) Write(p []byte) (int, error) {
	if t.hdr == nil {
		t.hdr = t.ResponseWriter.Header().Clone()
	}
	t.buf.Write(p)
	return t.ResponseWriter.Write(p)
}

// serve puts the plugin's API behind a real HTTP server, mounted like coremain
// mounts plugin APIs.
func (b *box) serve() (*apiSrv, error) {
	m := coremain.NewTestMosdnsWithPlugins(map[string]any{apiTag: b.c})
	m.RegPluginAPI(apiTag, b.c.Api())
	router := m.GetAPIRouter()
	ln, err := net.Listen("tcp", "127.0.0.1:0")
	if err != nil {
		return nil, err
	}
	s := &apiSrv{ln: ln, host: ln.Addr().String()}
	s.base = "http://" + s.host + "/plugins/" + apiTag
	s.srv = &http.Server{Handler: http.HandlerFunc(func(w http.ResponseWriter, r *http.Request) {
		if r.Method == http.MethodGet && strings.HasSuffix(r.URL.Path, "/dump") {
			t := &teeRW{ResponseWriter: w, buf: new(bytes.Buffer)}
			router.ServeHTTP(t, r)
			s.mu.Lock()
			s.written, s.sentHdr = t.buf.Bytes(), t.hdr
			s.mu.Unlock()
			return
		}
		router.ServeHTTP(w, r)
	})}
	go func() { _ = s.srv.Serve(ln) }()
	return s, nil
}

func (s *apiSrv) close() { _ = s.srv.Close() }

func (s *apiSrv) lastWritten() ([]byte, http.Header) {
	s.mu.Lock()
	defer s.mu.Unlock()
	return s.written, s.sentHdr
}

// ---------------------------------------------------------------------------
// download models

var httpClients = []string{
	"go-default-transport",             // http.Get: adds Accept-Encoding: gzip and undoes the coding by itself
	"go-default-transport-second-get",  // the same client again on its kept-alive connection
	"go-transport-compression-off",     // Transport.DisableCompression
	"accept-gzip-and-decode",           // browser, curl --compressed: asks for gzip, removes what Content-Encoding declares
	"accept-gzip-keep-body",            // curl -H 'Accept-Encoding: gzip' -o file
	"accept-identity-keep-body",        // plain curl -o file
	"http10-close-delimited",           // HTTP/1.0 request, body ends with the connection
	"http11-raw-keepalive-second-get",  // two requests one after the other on one hand-driven connection
	"http11-raw-pipelined-second-get",  // both requests written before the first response is read
	"http11-raw-decode-content-coding", // hand-driven HTTP/1.1, body decoded as Content-Encoding declares
}

type fetchResult struct {
	Client       string      `json:"client"`
	Status       int         `json:"status"`
	Proto        string      `json:"proto,omitempty"`
	Header       http.Header `json:"response_header,omitempty"` // as the client sees it
	Sent         http.Header `json:"header_fields_set_by_the_handler,omitempty"`
	Framing      string      `json:"framing,omitempty"`
	Transparent  bool        `json:"client_library_decoded_transparently,omitempty"`
	DecodedBy    string      `json:"client_removed_codings,omitempty"`
	BodyLen      int         `json:"body_bytes_delivered"`
	SavedLen     int         `json:"saved_bytes"`
	SavedHead    string      `json:"saved_file_starts_with_hex,omitempty"`
	Err          string      `json:"error,omitempty"`
	HarnessError bool        `json:"-"`
	Saved        []byte      `json:"-"`
}

func framingOf(resp *http.Response) string {
	switch {
	case len(resp.TransferEncoding) > 0:
		return strings.Join(resp.TransferEncoding, ",")
	case resp.ContentLength >= 0:
		return "content-length"
	case resp.Close:
		return "close-delimited"
	}
	return "unknown-length"
}

// removeCodings undoes the content codings a response declares, the way a
// client that understands Content-Encoding does.
func removeCodings(body []byte, h http.Header) ([]byte, string, error) {
	var codings []string
	for _, v := range h.Values("Content-Encoding") {
		for _, c := range strings.Split(v, ",") {
			if c = strings.ToLower(strings.TrimSpace(c)); c != "" && c != "identity" {
				codings = append(codings, c)
			}
		}
	}
	var done []string
	for i := len(codings) - 1; i >= 0; i-- {
		switch codings[i] {
		case "gzip", "x-gzip":
			zr, err := gzip.NewReader(bytes.NewReader(body))
			if err != nil {
				return body, strings.Join(done, ","), fmt.Errorf("body is declared %s but: %v", codings[i], err)
			}
			out, err := io.ReadAll(zr)
			if err != nil {
				return body, strings.Join(done, ","), fmt.Errorf("body is declared %s but: %v", codings[i], err)
			}
			body = out
		case "deflate":
			zr, err := zlib.NewReader(bytes.NewReader(body))
			if err != nil {
				return body, strings.Join(done, ","), fmt.Errorf("body is declared deflate but: %v", err)
			}
			out, err := io.ReadAll(zr)
			if err != nil {
				return body, strings.Join(done, ","), fmt.Errorf("body is declared deflate but: %v", err)
			}
			body = out
		default:
			return body, strings.Join(done, ","), nil // a coding this client does not know: keep what is left
		}
		done = append(done, codings[i])
	}
	return body, strings.Join(done, ","), nil
}

func (fr *fetchResult) fromResponse(resp *http.Response, decode bool) {
	fr.Status = resp.StatusCode
	fr.Proto = resp.Proto
	fr.Header = resp.Header.Clone()
	fr.Framing = framingOf(resp)
	fr.Transparent = resp.Uncompressed
	body, err := io.ReadAll(resp.Body)
	resp.Body.Close()
	fr.BodyLen = len(body)
	if err != nil {
		fr.Err = "reading the response body: " + err.Error()
		return
	}
	fr.Saved = body
	if decode {
		out, by, err := removeCodings(body, resp.Header)
		fr.DecodedBy = by
		if err != nil {
			fr.Err = err.Error()
			return
		}
		fr.Saved = out
	}
}

func rawExchange(host string, reqs []string, pipelined bool) ([]*http.Response, [][]byte, bool, error) {
	conn, err := net.DialTimeout("tcp", host, httpTimeout)
	if err != nil {
		return nil, nil, true, err
	}
	defer conn.Close()
	_ = conn.SetDeadline(time.Now().Add(httpTimeout))
	br := bufio.NewReader(conn)
	var resps []*http.Response
	var bodies [][]byte
	if pipelined {
		if _, err := io.WriteString(conn, strings.Join(reqs, "")); err != nil {
			return nil, nil, false, err
		}
	}
	for _, rq := range reqs {
		if !pipelined {
			if _, err := io.WriteString(conn, rq); err != nil {
				return resps, bodies, false, fmt.Errorf("writing request %d on the connection: %v", len(resps)+1, err)
			}
		}
		resp, err := http.ReadResponse(br, &http.Request{Method: http.MethodGet})
		if err != nil {
			return resps, bodies, false, fmt.Errorf("reading response %d on the connection: %v", len(resps)+1, err)
		}
		body, err := io.ReadAll(resp.Body)
		resp.Body.Close()
		if err != nil {
			return resps, bodies, false, fmt.Errorf("reading the body of response %d on the connection: %v", len(resps)+1, err)
		}
		resps = append(resps, resp)
		bodies = append(bodies, body)
	}
	return resps, bodies, false, nil
}

// fetchDump downloads GET <base>/dump with the given client model.
func fetchDump(s *apiSrv, model string) *fetchResult {
	fr := &fetchResult{Client: model}
	url := s.base + "/dump"
	path := "/plugins/" + apiTag + "/dump"
	goGet := func(tr *http.Transport, hdr map[string]string, times int, decode bool) {
		defer tr.CloseIdleConnections()
		cl := &http.Client{Transport: tr, Timeout: httpTimeout}
		for i := 0; i < times; i++ {
			req, _ := http.NewRequest(http.MethodGet, url, nil)
			for k, v := range hdr {
				req.Header.Set(k, v)
			}
			resp, err := cl.Do(req)
			if err != nil {
				fr.Err = err.Error()
				var ne *net.OpError
				fr.HarnessError = errors.As(err, &ne) && ne.Op == "dial"
				return
			}
			*fr = fetchResult{Client: model}
			fr.fromResponse(resp, decode)
			if fr.Err != "" || fr.Status != 200 {
				return
			}
		}
	}
	raw := func(reqs []string, pipelined, decode bool) {
		resps, bodies, harness, err := rawExchange(s.host, reqs, pipelined)
		if err != nil {
			fr.Err, fr.HarnessError = err.Error(), harness
			if len(resps) > 0 {
				fr.Status = resps[len(resps)-1].StatusCode
			}
			return
		}
		for i, resp := range resps {
			fr.Status, fr.Proto, fr.Header, fr.Framing = resp.StatusCode, resp.Proto, resp.Header.Clone(), framingOf(resp)
			fr.BodyLen, fr.Saved = len(bodies[i]), bodies[i]
			if fr.Status != 200 {
				return
			}
		}
		if decode {
			out, by, err := removeCodings(fr.Saved, fr.Header)
			fr.DecodedBy = by
			if err != nil {
				fr.Err = err.Error()
				return
			}
			fr.Saved = out
		}
	}
	get11 := "GET " + path + " HTTP/1.1\r\nHost: " + s.host + "\r\nUser-Agent: c19-raw\r\nAccept: */*\r\n\r\n"
	switch model {
	case "go-default-transport":
		goGet(&http.Transport{}, nil, 1, false)
	case "go-default-transport-second-get":
		goGet(&http.Transport{}, nil, 2, false)
	case "go-transport-compression-off":
		goGet(&http.Transport{DisableCompression: true}, nil, 1, false)
	case "accept-gzip-and-decode":
		goGet(&http.Transport{DisableCompression: true}, map[string]string{"Accept-Encoding": "gzip, deflate"}, 1, true)
	case "accept-gzip-keep-body":
		goGet(&http.Transport{}, map[string]string{"Accept-Encoding": "gzip"}, 1, false)
	case "accept-identity-keep-body":
		goGet(&http.Transport{}, map[string]string{"Accept-Encoding": "identity"}, 1, false)
	case "http10-close-delimited":
		raw([]string{"GET " + path + " HTTP/1.0\r\nUser-Agent: c19-raw\r\n\r\n"}, false, false)
	case "http11-raw-keepalive-second-get":
		raw([]string{get11, get11}, false, false)
	case "http11-raw-pipelined-second-get":
		raw([]string{get11, get11}, true, false)
	case "http11-raw-decode-content-coding":
		raw([]string{strings.Replace(get11, "Accept: */*\r\n", "Accept: */*\r\nAccept-Encoding: gzip, deflate, br\r\n", 1)}, false, true)
	default:
		fr.Err, fr.HarnessError = "unknown client model "+model, true
	}
	_, fr.Sent = s.lastWritten()
	fr.SavedLen = len(fr.Saved)
	fr.SavedHead = fmt.Sprintf("%x", fr.Saved[:min(16, len(fr.Saved))])
	return fr
}

// ---------------------------------------------------------------------------
// upload models

var httpLoaders = []string{
	"post-content-length",
	"post-chunked",
	"post-expect-100-continue",
	"post-on-reused-keepalive-connection",
	"post-raw-chunks-of-arbitrary-sizes",
}

type pushResult struct {
	Loader       string `json:"loader"`
	Status       int    `json:"status"`
	Msg          string `json:"body,omitempty"`
	Err          string `json:"error,omitempty"`
	HarnessError bool   `json:"-"`
	After        string `json:"request_after_the_upload_on_the_same_connection,omitempty"`
	AfterBad     bool   `json:"-"`
}

type unsizedReader struct{ io.Reader } // hides the length: the transport sends chunks

func pushDump(s *apiSrv, model string, file []byte, seed int64) *pushResult {
	pr := &pushResult{Loader: model}
	url := s.base + "/load_dump"
	path := "/plugins/" + apiTag + "/load_dump"
	goPost := func(tr *http.Transport, body io.Reader, hdr map[string]string, getFirst bool) {
		defer tr.CloseIdleConnections()
		cl := &http.Client{Transport: tr, Timeout: httpTimeout}
		if getFirst {
			resp, err := cl.Get(s.base + "/dump")
			if err != nil {
				pr.Err, pr.HarnessError = "GET before the upload: "+err.Error(), true
				return
			}
			_, _ = io.Copy(io.Discard, resp.Body)
			resp.Body.Close()
		}
		req, _ := http.NewRequest(http.MethodPost, url, body)
		req.Header.Set("Content-Type", "application/octet-stream")
		for k, v := range hdr {
			req.Header.Set(k, v)
		}
		resp, err := cl.Do(req)
		if err != nil {
			pr.Err = err.Error()
			var ne *net.OpError
			pr.HarnessError = errors.As(err, &ne) && ne.Op == "dial"
			return
		}
		b, _ := io.ReadAll(io.LimitReader(resp.Body, 4096))
		resp.Body.Close()
		pr.Status, pr.Msg = resp.StatusCode, strings.TrimSpace(string(b))
	}
	switch model {
	case "post-content-length":
		goPost(&http.Transport{}, bytes.NewReader(file), nil, false)
	case "post-chunked":
		goPost(&http.Transport{}, unsizedReader{bytes.NewReader(file)}, nil, false)
	case "post-expect-100-continue":
		goPost(&http.Transport{ExpectContinueTimeout: 30 * time.Second}, bytes.NewReader(file), map[string]string{"Expect": "100-continue"}, false)
	case "post-on-reused-keepalive-connection":
		goPost(&http.Transport{MaxConnsPerHost: 1}, bytes.NewReader(file), nil, true)
	case "post-raw-chunks-of-arbitrary-sizes":
		rng := rand.New(rand.NewSource(seed ^ 0x6c6f6164))
		conn, err := net.DialTimeout("tcp", s.host, httpTimeout)
		if err != nil {
			pr.Err, pr.HarnessError = err.Error(), true
			return pr
		}
		defer conn.Close()
		_ = conn.SetDeadline(time.Now().Add(httpTimeout))
		bw := bufio.NewWriterSize(conn, 1500)
		fmt.Fprintf(bw, "POST %s HTTP/1.1\r\nHost: %s\r\nUser-Agent: c19-raw\r\nContent-Type: application/octet-stream\r\nTransfer-Encoding: chunked\r\n\r\n", path, s.host)
		var werr error
		for rest := file; len(rest) > 0 && werr == nil; {
			n := 1 + rng.Intn(3000)
			switch rng.Intn(8) {
			case 0:
				n = 1 + rng.Intn(3)
			case 1:
				n = 1 + rng.Intn(70000)
			}
			if n > len(rest) {
				n = len(rest)
			}
			fmt.Fprintf(bw, "%x\r\n", n)
			_, _ = bw.Write(rest[:n])
			_, werr = bw.WriteString("\r\n")
			if rng.Intn(4) == 0 && werr == nil {
				werr = bw.Flush() // a segment boundary inside the stream
			}
			rest = rest[n:]
		}
		if werr == nil {
			_, _ = bw.WriteString("0\r\n\r\n")
			werr = bw.Flush()
		}
		// the server may answer (and stop reading) before the upload is complete
		br := bufio.NewReader(conn)
		resp, err := http.ReadResponse(br, &http.Request{Method: http.MethodPost})
		if err != nil {
			pr.Err = fmt.Sprintf("reading the response to the upload: %v (write error: %v)", err, werr)
			return pr
		}
		b, _ := io.ReadAll(io.LimitReader(resp.Body, 4096))
		resp.Body.Close()
		pr.Status, pr.Msg = resp.StatusCode, strings.TrimSpace(string(b))
		if pr.Status == 200 && !resp.Close {
			// the connection stays usable: ask for the dump on it
			fmt.Fprintf(conn, "GET /plugins/%s/dump HTTP/1.1\r\nHost: %s\r\n\r\n", apiTag, s.host)
			r2, err := http.ReadResponse(br, &http.Request{Method: http.MethodGet})
			if err != nil {
				pr.After, pr.AfterBad = "GET /dump on the same connection: "+err.Error(), true
			} else {
				n, err := io.Copy(io.Discard, r2.Body)
				r2.Body.Close()
				pr.After = fmt.Sprintf("GET /dump on the same connection: %d, %d bytes, err=%v", r2.StatusCode, n, err)
				pr.AfterBad = err != nil || r2.StatusCode != 200
			}
		}
	default:
		pr.Err, pr.HarnessError = "unknown loader model "+model, true
	}
	return pr
}

// ---------------------------------------------------------------------------
// comparing dumps

// diffDumps compares the entries of dump a with those of dump b, taken later:
// entries of a that may have run out meanwhile are not demanded.
func diffDumps(a, b *decodedDump) (missing, extra int, what string) {
	tB := time.Now().Unix()
	sa, sb := tupleSet(a.Entries), tupleSet(b.Entries)
	bk := map[string]*dumpEntry{}
	for i := range b.Entries {
		bk[string(b.Entries[i].Key)] = &b.Entries[i]
	}
	for i := range a.Entries {
		e := &a.Entries[i]
		if e.CacheExp <= tB+1 {
			continue
		}
		if sb[tupleOf(*e)] > 0 {
			continue
		}
		missing++
		if what == "" {
			qk, _ := questionKey(e.Msg)
			if o := bk[string(e.Key)]; o == nil {
				what = fmt.Sprintf("%s (msg %d bytes) is in the first dump but not in the second", qk, len(e.Msg))
			} else {
				what = fmt.Sprintf("%s: first dump has (cache_exp=%d msg_exp=%d stored=%d msg %dB), second has (cache_exp=%d msg_exp=%d stored=%d msg %dB)", qk, e.CacheExp, e.MsgExp, e.Stored, len(e.Msg), o.CacheExp, o.MsgExp, o.Stored, len(o.Msg))
			}
		}
	}
	for i := range b.Entries {
		e := &b.Entries[i]
		if sa[tupleOf(*e)] == 0 {
			extra++
			if what == "" {
				qk, _ := questionKey(e.Msg)
				what = fmt.Sprintf("%s (cache_exp=%d msg_exp=%d stored=%d) is in the second dump but not in the first", qk, e.CacheExp, e.MsgExp, e.Stored)
			}
		}
	}
	return
}

// ---------------------------------------------------------------------------
// the phase

type httpCase struct {
	Content scenario `json:"cache_content"`
	Client  string   `json:"client"`
	Loader  string   `json:"loader"`
}

type httpObs struct {
	Case     httpCase     `json:"case"`
	Fetch    *fetchResult `json:"download,omitempty"`
	Push     *pushResult  `json:"upload,omitempty"`
	Entries  int          `json:"entries_in_saved_file"`
	Reloaded int          `json:"entries_held_after_upload"`
}

func describeFetch(fr *fetchResult) string {
	var hs []string
	for _, k := range []string{"Content-Type", "Content-Encoding", "Content-Length", "Content-Disposition", "Transfer-Encoding", "Vary"} {
		if v := fr.Header.Values(k); len(v) > 0 {
			hs = append(hs, k+": "+strings.Join(v, ", "))
		}
	}
	var sent []string
	for _, k := range []string{"Content-Type", "Content-Encoding", "Content-Length", "Content-Disposition", "Transfer-Encoding", "Vary"} {
		if v := fr.Sent.Values(k); len(v) > 0 {
			sent = append(sent, k+": "+strings.Join(v, ", "))
		}
	}
	s := fmt.Sprintf("client %q got %d %s, framing %s, header fields set by the /dump handler {%s}, as seen by the client {%s}, %d body bytes", fr.Client, fr.Status, fr.Proto, fr.Framing, strings.Join(sent, "; "), strings.Join(hs, "; "), fr.BodyLen)
	if fr.Transparent {
		s += ", the client library removed a content coding by itself"
	}
	if fr.DecodedBy != "" {
		s += ", the client removed the declared coding " + fr.DecodedBy
	}
	return s + fmt.Sprintf("; saved file: %d bytes starting %s", fr.SavedLen, fr.SavedHead)
}

// httpContents are the caches whose dumps travel.
func httpContents(seed int64, thorough bool) []scenario {
	K := 1 << 10
	sc := []scenario{
		{Name: "http-empty"},
		{Name: "http-one", NExec: 1},
		{Name: "http-mixed-lazy-260", Lazy: 86400, NExec: 130, NInject: 130, BlockSizes: []int{7, 128}},
		{Name: "http-sized-multi-block", NExec: 40, Sizes: []sizeMix{{Bytes: 8 * K, N: 20}, {Bytes: 70 * K, N: 3}, {Bytes: 200 * K, N: 2}, {Bytes: 30 * K, N: 10, Raw: true}}},
	}
	if thorough {
		sc = append(sc, scenario{Name: "http-mixed-1500", NExec: 900, NInject: 600, BlockSizes: []int{128}},
			scenario{Name: "http-sized-large", NExec: 100, Sizes: []sizeMix{{Bytes: 440 * K, N: 4}, {Bytes: 60 * K, N: 10}}})
	}
	for i := range sc {
		sc[i].NoShort = true
		sc[i].ViaFile = true // the source also writes its dump file on Close()
		sc[i].Seed = seed*1000003 + int64(i)*15485863 + 4099
	}
	return sc
}

func httpCases(seed int64, thorough bool) [][]httpCase {
	var out [][]httpCase
	for ci, sc := range httpContents(seed, thorough) {
		var cs []httpCase
		for i, cl := range httpClients {
			if thorough {
				for _, ld := range httpLoaders {
					cs = append(cs, httpCase{Content: sc, Client: cl, Loader: ld})
				}
				continue
			}
			cs = append(cs, httpCase{Content: sc, Client: cl, Loader: httpLoaders[(i+ci+int(seed))%len(httpLoaders)]})
		}
		out = append(out, cs)
	}
	return out
}

// runHTTPContent builds one source cache and runs its cases.
func runHTTPContent(cases []httpCase) {
	if len(cases) == 0 {
		return
	}
	sc := cases[0].Content
	st := buildScenario(sc)
	if st.failed {
		return
	}
	defer func() {
		if st.dir != "" {
			os.RemoveAll(st.dir)
		}
	}()
	A := st.A
	srvA, err := A.serve()
	if err != nil {
		rep.Inconclusive("%s: cannot serve the API: %v", sc.Name, err)
		A.close()
		return
	}
	var lastSaved *decodedDump
	lastClient := ""
	for _, c := range cases {
		caselog.Log(map[string]any{"phase": "http", "case": c})
		obs := &httpObs{Case: c}
		rc := replayCase{Phase: "http", HTTP: &c, HTTPObs: obs}
		rep.Eval(1)
		rep.Count("http_round_trips", 1)

		// ---- download ----
		fr := fetchDump(srvA, c.Client)
		obs.Fetch = fr
		if fr.HarnessError {
			rep.Inconclusive("%s: client %s could not talk to the loopback server: %s", sc.Name, c.Client, fr.Err)
			continue
		}
		rep.SetAdd("http_clients", c.Client)
		rep.SetAdd("http_dump_response_framings", fr.Proto+" "+fr.Framing)
		if ce := append(fr.Sent.Values("Content-Encoding"), fr.Header.Values("Content-Encoding")...); len(ce) > 0 {
			rep.SetAdd("http_content_encodings_declared_by_dump", strings.Join(ce, ","))
		}
		if fr.Transparent {
			rep.Count("http_downloads_decoded_transparently_by_the_client_library", 1)
		}
		if fr.DecodedBy != "" {
			rep.Count("http_downloads_decoded_by_the_client_model", 1)
		}
		if fr.Err != "" || fr.Status != 200 {
			rep.Violation("dump-download-fails", fmt.Sprintf("%s: GET %s/dump: %s; error: %s", sc.Name, "/plugins/"+apiTag, describeFetch(fr), fr.Err), rc)
			continue
		}
		rep.Max("http_max_saved_file_bytes", int64(fr.SavedLen))
		written, _ := srvA.lastWritten()
		if bytes.Equal(written, fr.Saved) {
			rep.Count("http_saved_files_identical_to_the_written_stream", 1)
		} else {
			rep.Count("http_saved_files_differing_from_the_written_stream", 1)
		}
		codeA, directA := A.dump()
		var ddA *decodedDump
		if codeA == 200 {
			ddA, _ = decodeDump(append([]byte(nil), directA...))
		}

		// ---- upload into an empty cache ----
		B := newBox(sc.Lazy, "")
		srvB, err := B.serve()
		if err != nil {
			rep.Inconclusive("%s: cannot serve the API: %v", sc.Name, err)
			B.close()
			continue
		}
		pr := pushDump(srvB, c.Loader, fr.Saved, sc.Seed+int64(len(c.Client)))
		obs.Push = pr
		finishB := func() { srvB.close(); B.close() }
		if pr.HarnessError {
			rep.Inconclusive("%s: loader %s could not talk to the loopback server: %s", sc.Name, c.Loader, pr.Err)
			finishB()
			continue
		}
		rep.SetAdd("http_loaders", c.Loader)
		rep.SetAdd("http_client_x_loader", c.Client+" -> "+c.Loader)
		if pr.After != "" {
			rep.Count("http_requests_after_upload_on_same_connection", 1)
		}
		if pr.Err != "" || pr.Status != 200 {
			rep.Violation("downloaded-dump-rejected", fmt.Sprintf("%s: the dump downloaded from GET /plugins/%s/dump is refused by POST /plugins/%s/load_dump of an empty cache: %d %q %s (uploaded with %q); download: %s", sc.Name, apiTag, apiTag, pr.Status, pr.Msg, pr.Err, c.Loader, describeFetch(fr)), rc)
			finishB()
			continue
		}
		if pr.AfterBad {
			rep.Violation("connection-unusable-after-load", fmt.Sprintf("%s: after a successful chunked POST /load_dump the next request on the same HTTP/1.1 connection failed: %s", sc.Name, pr.After), rc)
		}

		// ---- entries ----
		ddS, err := decodeDump(fr.Saved)
		if err != nil {
			rep.Inconclusive("%s: the file saved by %s was accepted by /load_dump but the independent reader cannot decode it: %v", sc.Name, c.Client, err)
			finishB()
			continue
		}
		obs.Entries = len(ddS.Entries)
		codeB, DB := B.dump()
		var ddB *decodedDump
		if codeB == 200 {
			ddB, err = decodeDump(DB)
		}
		if codeB != 200 || err != nil {
			rep.Violation("dump-failed", fmt.Sprintf("%s: dump of the cache that loaded the downloaded file: status %d, %v", sc.Name, codeB, err), rc)
			finishB()
			continue
		}
		obs.Reloaded = len(ddB.Entries)
		finishB()
		missing, extra, what := diffDumps(ddS, ddB)
		if missing+extra > 0 {
			rep.Violation("downloaded-dump-reload-differs", fmt.Sprintf("%s: the cache that loaded the downloaded file holds other entries than the file: %d missing / %d extra; first: %s; download: %s; uploaded with %q", sc.Name, missing, extra, what, describeFetch(fr), c.Loader), rc)
			continue
		}
		if ddA != nil {
			// the source was not touched between the download and the direct dump
			m1, x1, w1 := diffDumps(ddS, ddA)
			if m1+x1 > 0 {
				rep.Violation("downloaded-dump-differs-from-direct-dump", fmt.Sprintf("%s: the downloaded file and a dump written straight after it differ: %d / %d entries; first: %s; download: %s", sc.Name, m1, x1, w1, describeFetch(fr)), rc)
				continue
			}
			rep.Count("http_saved_files_equal_to_direct_dump", 1)
		}
		rep.Count("http_round_trips_reloaded_completely", 1)
		rep.Count("http_entries_compared", int64(len(ddS.Entries)))
		if len(ddS.Entries) > 0 {
			rep.Nontrivial(fmt.Sprintf("http/%s/%s/%s", sc.Name, c.Client, c.Loader))
		}
		lastSaved, lastClient = ddS, c.Client
		if rep.WantSample() && (c.Client == "go-default-transport" || c.Client == "http11-raw-pipelined-second-get") && sc.Name == "http-mixed-lazy-260" {
			rep.Sample(map[string]any{"phase": "http", "observed": obs})
		}
	}
	srvA.close()

	// ---- the file the source writes on Close() holds the same entries ----
	A.close()
	for _, m := range A.errorLogs() {
		if strings.HasPrefix(m, "failed to dump cache") {
			rep.Violation("dump-failed", fmt.Sprintf("%s: Close() could not write the dump file: %s", sc.Name, m), replayCase{Phase: "http", HTTP: &cases[len(cases)-1]})
			return
		}
	}
	if lastSaved == nil {
		return
	}
	fb, err := os.ReadFile(st.file)
	if err != nil {
		rep.Inconclusive("%s: read dump file: %v", sc.Name, err)
		return
	}
	ddF, err := decodeDump(fb)
	if err != nil {
		rep.Violation("dump-undecodable", fmt.Sprintf("%s: the independent reader cannot decode the dump file written by Close(): %v", sc.Name, err), replayCase{Phase: "http", HTTP: &cases[len(cases)-1]})
		return
	}
	if m, x, w := diffDumps(lastSaved, ddF); m+x > 0 {
		rep.Violation("downloaded-dump-differs-from-file-dump", fmt.Sprintf("%s: the file downloaded by %s and the dump file written by Close() differ: %d / %d entries; first: %s", sc.Name, lastClient, m, x, w), replayCase{Phase: "http", HTTP: &cases[len(cases)-1]})
		return
	}
	rep.Count("http_saved_files_equal_to_file_dump", 1)
}

func runHTTPPhase() {
	t0 := time.Now()
	groups := httpCases(rep.Seed, rep.Thorough())
	var wg sync.WaitGroup
	for _, g := range groups {
		wg.Add(1)
		go func(g []httpCase) {
			defer wg.Done()
			runHTTPContent(g)
		}(g)
	}
	wg.Wait()
	rep.Extra("http_phase_wall_ms", time.Since(t0).Milliseconds())
	if rep.Violations() == 0 {
		if rep.Get("http_round_trips_reloaded_completely") == 0 || rep.Get("http_entries_compared") == 0 {
			rep.Inconclusive("transport phase: no downloaded dump was reloaded and compared")
		}
		for _, cl := range httpClients {
			found := false
			for _, g := range groups {
				for _, c := range g {
					if c.Client == cl {
						found = true
					}
				}
			}
			if !found {
				rep.Inconclusive("transport phase: client model %s was not exercised", cl)
			}
		}
		if rep.SetLen("http_loaders") < len(httpLoaders) {
			rep.Inconclusive("transport phase: only %d of %d loader models were exercised", rep.SetLen("http_loaders"), len(httpLoaders))
		}
	}
}
