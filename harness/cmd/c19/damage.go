package main

// (c) Damage generator: byte flips of real dumps, arbitrary bytes, and
// well-formed gzip wrappers around hostile content so that every parser layer
// of readDump (gzip header, name, block header, block data, protobuf, DNS
// message, cache admission) is reached.

import (
	"bytes"
	"compress/gzip"
	"encoding/binary"
	"fmt"
	"hash/crc32"
	"math"
	"math/rand"
	"time"

	"github.com/miekg/dns"

	"verifharness/lib/wire"
)

type keyedQ struct {
	Q   qspec  `json:"q"`
	Key []byte `json:"key"`
}

type damageCtx struct {
	Bases [][]byte // real dumps (compressed)
	Raws  [][]byte // their uncompressed payloads
	Keys  []keyedQ // questions with the key the plugin computed for them
}

type damageCase struct {
	Idx    int     `json:"idx"`
	Kind   string  `json:"kind"`
	Desc   string  `json:"desc"`
	Input  []byte  `json:"input"` // base64 in JSON
	Probes []qspec `json:"probes,omitempty"`
	Seed   int64   `json:"seed"`
	// LiveLimit > 0: a loader that streams block by block needs a few block
	// lengths of memory for this input whatever its size; the heap that is
	// still LIVE (after a forced collection) at every read of the input must
	// not have grown by more than this many bytes.
	LiveLimit int64 `json:"live_limit,omitempty"`
}

const liveLimitStream = 24 << 20 // 24 x the 1 MiB block limit

var damageKinds = []string{
	"random-bytes", "gzip-header-games", "wrong-name", "wrapped-random", "wrapped-block-length",
	"wrapped-random-protobuf", "wrapped-hostile-entries", "wrapped-hostile-valid", "wrapped-many-tiny-entries",
	"flip-compressed", "flip-raw-rewrap", "splice", "trailer-games", "prefix-plus-garbage", "raw-truncate-rewrap",
	"many-blocks-stream", "wrapped-zero-blocks-bomb",
}

func randBytes(rng *rand.Rand, n int) []byte {
	b := make([]byte, n)
	rng.Read(b)
	return b
}

func hostileTime(rng *rand.Rand, now int64) int64 {
	switch rng.Intn(14) {
	case 0:
		return 0
	case 1:
		return -1
	case 2:
		return math.MinInt64
	case 3:
		return math.MaxInt64
	case 4:
		return now - int64(rng.Intn(100))
	case 5:
		return now + int64(rng.Intn(100))
	case 6:
		return 1 << 62
	case 7:
		return 253402300800 + int64(rng.Intn(1000)) // year 10000
	case 8:
		return math.MaxInt64 - 62135596800 + int64(rng.Intn(3)) - 1 // time.Unix internal overflow edge
	case 9:
		return -62135596800 - int64(rng.Intn(3)) // year 1 and before
	case 10:
		return int64(rng.Uint64())
	default:
		return now + 1000 + int64(rng.Intn(1000000))
	}
}

// hostileMsg returns bytes for the msg field: from plain garbage to messages
// that unpack but are unusual.
func hostileMsg(rng *rand.Rand, qname string, qtype uint16) (string, []byte) {
	raw := wire.EncodeName(qname)
	switch rng.Intn(16) {
	case 0:
		return "empty", nil
	case 1:
		return "random", randBytes(rng, rng.Intn(600))
	case 2:
		return "header-only", wire.NewBuilder(1, 0x8180).Bytes()
	case 3:
		return "counts-lie", wire.NewBuilder(1, 0x8180).Question(raw, qtype, 1).SetCounts(1, 65535, 65535, 65535).Bytes()
	case 4: // compression pointer loop in the question name
		b := wire.NewBuilder(1, 0x8180).Bytes()
		b = append(b, 0xC0, 12, 0, 1, 0, 1)
		binary.BigEndian.PutUint16(b[4:], 1)
		return "pointer-loop", b
	case 5: // A record with empty rdata, AAAA with 3 bytes
		b := wire.NewBuilder(1, 0x8180).Question(raw, qtype, 1).RR(0, raw, 1, 1, 300, nil).RR(0, raw, 28, 1, 300, []byte{1, 2, 3})
		return "short-rdata", b.Bytes()
	case 6: // OPT records in the answer section, two OPTs
		b := wire.NewBuilder(1, 0x8180).Question(raw, qtype, 1).RR(0, []byte{0}, 41, 4096, 0x8000, nil).RR(0, raw, 1, 1, 300, []byte{1, 2, 3, 4}).OPT(1232, 0, 0, true, 0, nil).OPT(512, 1, 2, false, 3, []wire.Option{{Code: 10, Data: randBytes(rng, 8)}})
		return "opt-everywhere", b.Bytes()
	case 7: // TTL extremes
		b := wire.NewBuilder(1, 0x8180).Question(raw, qtype, 1).RR(0, raw, 1, 1, 0, []byte{1, 2, 3, 4}).RR(0, raw, 1, 1, 0xFFFFFFFF, []byte{1, 2, 3, 5}).RR(1, raw, 1, 1, 0x80000000, []byte{1, 2, 3, 6})
		return "ttl-extremes", b.Bytes()
	case 8: // query (QR=0), odd opcode and rcode, TC
		b := wire.NewBuilder(uint16(rng.Intn(65536)), uint16(rng.Intn(65536))).Question(raw, qtype, 1).RR(0, raw, 1, 1, 60, []byte{9, 9, 9, 9})
		return "odd-flags", b.Bytes()
	case 9: // no question at all but records
		b := wire.NewBuilder(1, 0x8180).RR(0, raw, 16, 1, 120, wire.TXTRdata("x")).RR(2, raw, 1, 1, 120, []byte{1, 1, 1, 1})
		return "no-question", b.Bytes()
	case 10: // two questions
		b := wire.NewBuilder(1, 0x8180).Question(raw, qtype, 1).Question(raw, 28, 1).RR(0, raw, 1, 1, 60, []byte{9, 9, 9, 9})
		return "two-questions", b.Bytes()
	case 11: // thousands of records
		b := wire.NewBuilder(1, 0x8180).Question(raw, qtype, 1)
		for i, n := 0, 500+rng.Intn(3000); i < n; i++ {
			b.RR(0, []byte{0xC0, 12}, 1, 1, uint32(60+i), []byte{10, 0, byte(i >> 8), byte(i)})
		}
		return "many-records", b.Bytes()
	case 12: // unknown type / class, rdata 0..300 bytes
		b := wire.NewBuilder(1, 0x8180).Question(raw, qtype, 1).RR(0, raw, uint16(rng.Intn(65536)), uint16(rng.Intn(65536)), uint32(rng.Uint32()), randBytes(rng, rng.Intn(300)))
		return "unknown-rr", b.Bytes()
	case 13: // longest legal name
		var labels [][]byte
		for i := 0; i < 3; i++ {
			labels = append(labels, []byte(randLabel(rng, 63)))
		}
		labels = append(labels, []byte(randLabel(rng, 61)))
		ln := wire.EncodeLabels(labels)
		b := wire.NewBuilder(1, 0x8180).Question(ln, qtype, 1).RR(0, ln, 5, 1, 60, ln)
		return "long-names", b.Bytes()
	case 14: // valid reply cut short
		b := wire.NewBuilder(1, 0x8180).Question(raw, qtype, 1).RR(0, raw, 1, 1, 60, []byte{9, 9, 9, 9}).Bytes()
		return "cut-short", b[:rng.Intn(len(b))]
	default: // plain valid
		b := wire.NewBuilder(1, 0x8180).Question(raw, qtype, 1).RR(0, raw, 1, 1, 300, []byte{192, 0, 2, 1})
		return "plain", b.Bytes()
	}
}

func randomProtobuf(rng *rand.Rand, depth int, budget int) []byte {
	var b []byte
	for n := rng.Intn(12); n > 0 && len(b) < budget; n-- {
		num := 1 + rng.Intn(8)
		if rng.Intn(10) == 0 {
			num = rng.Intn(1 << 20)
		}
		switch rng.Intn(6) {
		case 0:
			b = putVarint(b, uint64(num)<<3|0)
			b = putVarint(b, rng.Uint64()>>uint(rng.Intn(64)))
		case 1:
			b = putVarint(b, uint64(num)<<3|1)
			b = append(b, randBytes(rng, 8)...)
		case 2:
			b = putVarint(b, uint64(num)<<3|5)
			b = append(b, randBytes(rng, 4)...)
		case 3:
			if depth < 4 {
				b = pbBytes(b, num, randomProtobuf(rng, depth+1, budget/2))
			} else {
				b = pbBytes(b, num, randBytes(rng, rng.Intn(40)))
			}
		case 4: // length that overruns
			b = putVarint(b, uint64(num)<<3|2)
			b = putVarint(b, uint64(rng.Intn(1<<30)))
			b = append(b, randBytes(rng, rng.Intn(20))...)
		default: // group / reserved wire types, over-long varints
			b = putVarint(b, uint64(num)<<3|uint64(3+rng.Intn(5))&7)
			if rng.Intn(2) == 0 {
				b = append(b, 0xff, 0xff, 0xff, 0xff, 0xff, 0xff, 0xff, 0xff, 0xff, 0xff, 0x7f)
			}
		}
	}
	return b
}

// gzipRaw builds a gzip member by hand (stored deflate blocks), so header
// flags, CRC and ISIZE can lie.
func gzipRaw(flags byte, extra, name, comment []byte, hcrc bool, payload []byte, crc, isize uint32) []byte {
	b := []byte{0x1f, 0x8b, 8, flags, 0, 0, 0, 0, 0, 255}
	if flags&4 != 0 {
		b = append(b, byte(len(extra)), byte(len(extra)>>8))
		b = append(b, extra...)
	}
	if flags&8 != 0 {
		b = append(b, name...)
	}
	if flags&16 != 0 {
		b = append(b, comment...)
	}
	if hcrc {
		c := crc32.ChecksumIEEE(b)
		b = append(b, byte(c), byte(c>>8))
	}
	for {
		n := min(len(payload), 65535)
		final := byte(0)
		if n == len(payload) {
			final = 1
		}
		b = append(b, final, byte(n), byte(n>>8), byte(^n), byte(^n>>8))
		b = append(b, payload[:n]...)
		payload = payload[n:]
		if final == 1 {
			break
		}
	}
	b = binary.LittleEndian.AppendUint32(b, crc)
	b = binary.LittleEndian.AppendUint32(b, isize)
	return b
}

func flipBytes(rng *rand.Rand, b []byte, n int, lo, hi int) string {
	if hi > len(b) {
		hi = len(b)
	}
	if lo >= hi {
		return "nothing to flip"
	}
	d := ""
	for i := 0; i < n; i++ {
		p := lo + rng.Intn(hi-lo)
		var x byte
		switch rng.Intn(3) {
		case 0:
			x = 1 << uint(rng.Intn(8))
		case 1:
			x = 0xff
		default:
			x = byte(1 + rng.Intn(255))
		}
		b[p] ^= x
		d += fmt.Sprintf(" @%d^%02x", p, x)
	}
	return d
}

// genDamage deterministically produces damaged input number idx.
func genDamage(seed int64, idx int, dc *damageCtx, thorough bool) damageCase {
	rng := rand.New(rand.NewSource(seed*2654435761 + int64(idx)*40503 + 11))
	kind := damageKinds[idx%(len(damageKinds)-2)] // the last two families are scheduled explicitly
	if idx%97 == 13 {
		kind = "wrapped-zero-blocks-bomb"
	}
	if idx%101 == 7 {
		kind = "many-blocks-stream"
	}
	c := damageCase{Idx: idx, Kind: kind, Seed: seed}
	now := time.Now().Unix()
	bi := rng.Intn(len(dc.Bases))
	base := append([]byte(nil), dc.Bases[bi]...)
	raw := append([]byte(nil), dc.Raws[bi]...)
	level := []int{gzip.NoCompression, gzip.BestSpeed, gzip.BestCompression}[rng.Intn(3)]
	pickKey := func() keyedQ {
		if len(dc.Keys) == 0 {
			return keyedQ{Q: qspec{Name: "nokey.c19.test.", Qtype: 1}, Key: []byte{0, 0, 1, 15}}
		}
		return dc.Keys[rng.Intn(len(dc.Keys))]
	}
	switch kind {
	case "random-bytes":
		n := []int{0, 1, 2, 3, 9, 10, 11, 18, 100, 4096, 65536}[rng.Intn(11)]
		c.Input = randBytes(rng, n)
		if rng.Intn(2) == 0 && n >= 4 { // plausible magic
			copy(c.Input, []byte{0x1f, 0x8b, 8, byte(rng.Intn(32))})
		}
		c.Desc = fmt.Sprintf("%d random bytes", n)
	case "gzip-header-games":
		flags := byte(rng.Intn(256))
		extra := randBytes(rng, rng.Intn(300))
		name := []byte(dumpName + "\x00")
		switch rng.Intn(4) {
		case 0:
			name = []byte(dumpName) // no terminator: runs into the payload
		case 1:
			name = append(randBytes(rng, 600), 0)
		case 2:
			name = []byte{0}
		}
		comment := append([]byte(randLabel(rng, rng.Intn(700))), 0)
		payload := raw
		if len(payload) > 4000 {
			payload = payload[:4000]
		}
		c.Input = gzipRaw(flags, extra, name, comment, flags&2 != 0 && rng.Intn(2) == 0, payload, crc32.ChecksumIEEE(payload), uint32(len(payload)))
		if rng.Intn(3) == 0 {
			c.Input = c.Input[:rng.Intn(len(c.Input))]
		}
		c.Desc = fmt.Sprintf("hand-made gzip header flags=%08b extra=%d name=%d comment=%d", flags, len(extra), len(name), len(comment))
	case "wrong-name":
		names := []string{"", "mosdns_cache_v1", "mosdns_cache_v2 ", "MOSDNS_CACHE_V2", "mosdns_cache_v3", "mosdns_cache_v", randLabel(rng, 400)}
		n := names[rng.Intn(len(names))]
		c.Input = gzipWrap(n, raw, level)
		c.Desc = fmt.Sprintf("valid dump content under gzip name %q", n)
	case "wrapped-random":
		n := []int{0, 1, 7, 8, 9, 100, 5000, 60000}[rng.Intn(8)]
		c.Input = gzipWrap(dumpName, randBytes(rng, n), level)
		c.Desc = fmt.Sprintf("well-formed gzip around %d random bytes", n)
	case "wrapped-block-length":
		ls := []uint64{0, 1, 1<<20 - 1, 1 << 20, 1<<20 + 1, 1 << 21, 1 << 31, 1<<31 - 1, 1 << 32, 1<<32 + 5, 1 << 40, 1 << 62, 1 << 63, 1<<63 - 1, math.MaxUint64, math.MaxUint64 - 7, rng.Uint64()}
		l := ls[rng.Intn(len(ls))]
		have := []int{0, 1, 100, 1 << 20, 1<<20 + 1}[rng.Intn(5)]
		var r []byte
		if rng.Intn(2) == 0 { // after a valid block
			cut := 0
			if d, err := decodeDump(base); err == nil && len(d.BlockEnds) > 0 {
				cut = d.BlockEnds[rng.Intn(len(d.BlockEnds))]
			}
			r = append(r, raw[:cut]...)
		}
		h := make([]byte, 8)
		binary.BigEndian.PutUint64(h, l)
		r = append(r, h...)
		fill := make([]byte, have)
		if rng.Intn(2) == 0 {
			rng.Read(fill)
		}
		r = append(r, fill...)
		c.Input = gzipWrap(dumpName, r, gzip.BestCompression)
		c.Desc = fmt.Sprintf("block header announces %d bytes, %d follow", l, have)
	case "wrapped-zero-blocks-bomb":
		n := 1 << 20
		if thorough {
			n = 4 << 20
		}
		c.Input = gzipWrap(dumpName, make([]byte, 8*n), gzip.BestCompression)
		c.Desc = fmt.Sprintf("%d zero-length blocks (%d bytes compressed)", n, len(c.Input))
		c.LiveLimit = liveLimitStream
	case "many-blocks-stream":
		// Well-formed stream of many blocks close to the 1 MiB limit that
		// compress ~1000:1 and carry few or no admissible entries: a streaming
		// loader holds about one block at a time.
		nblk := 100 + rng.Intn(101)
		if thorough {
			nblk = 100 + rng.Intn(301)
		}
		variant := rng.Intn(4)
		pad := func(blk []byte, total int, fill byte) []byte { // one big unknown field up to total bytes
			n := total - len(blk) - 5
			if n < 0 {
				n = 0
			}
			p := make([]byte, n)
			if fill != 0 {
				for i := range p {
					p[i] = fill
				}
			}
			return pbBytes(blk, 15, p)
		}
		var raw bytes.Buffer
		vdesc := ""
		for i := 0; i < nblk; i++ {
			size := 1<<20 - 64 - rng.Intn(1024)
			var blk []byte
			switch variant {
			case 0:
				vdesc = "no entries, one unknown field of zeros"
				blk = pad(nil, size, 0)
			case 1:
				vdesc = "3 live entries (same keys in every block) then an unknown field of zeros"
				for k := 0; k < 3 && k < len(dc.Keys); k++ {
					kq := dc.Keys[k]
					m := wire.NewBuilder(1, 0x8180).Question(wire.EncodeName(kq.Q.Name), kq.Q.Qtype, 1).RR(0, wire.EncodeName(kq.Q.Name), 1, 1, 300, []byte{192, 0, 2, byte(i)}).Bytes()
					blk = pbBytes(blk, 1, encodeEntry(dumpEntry{Key: kq.Key, Msg: m, CacheExp: now + 3600, MsgExp: now + 300, Stored: now}))
				}
				if len(c.Probes) == 0 {
					for k := 0; k < 3 && k < len(dc.Keys); k++ {
						c.Probes = append(c.Probes, dc.Keys[k].Q)
					}
				}
				blk = pad(blk, size, 0)
			case 2:
				vdesc = "4 expired entries with 60 KB TXT answers per block, then an unknown field of zeros"
				kq := pickKey()
				rawName := wire.EncodeName(kq.Q.Name)
				b := wire.NewBuilder(1, 0x8180).Question(rawName, 16, 1)
				txt := make([]byte, 0, 256*235)
				for t := 0; t < 235; t++ {
					txt = append(txt, 255)
					txt = append(txt, make([]byte, 255)...)
				}
				b.RR(0, rawName, 16, 1, 300, txt)
				e := encodeEntry(dumpEntry{Key: kq.Key, Msg: b.Bytes(), CacheExp: now - 100, MsgExp: now - 100, Stored: now - 400})
				for k := 0; k < 4; k++ {
					blk = pbBytes(blk, 1, e)
				}
				blk = pad(blk, size, 0)
			default:
				vdesc = "no entries, blocks of 0.5-1 MiB, unknown field of 0xAA"
				size = 1<<19 + rng.Intn(1<<19-64)
				blk = pad(nil, size, 0xAA)
			}
			raw.Write(frameBlock(blk))
		}
		c.Input = gzipWrap(dumpName, raw.Bytes(), gzip.BestCompression)
		c.Desc = fmt.Sprintf("%d well-formed blocks near the 1 MiB limit (%s): %d bytes compressed, %d MiB uncompressed", nblk, vdesc, len(c.Input), raw.Len()>>20)
		c.LiveLimit = liveLimitStream
	case "wrapped-random-protobuf":
		var r []byte
		for n := 1 + rng.Intn(4); n > 0; n-- {
			var blk []byte
			switch rng.Intn(4) {
			case 0:
				blk = randBytes(rng, rng.Intn(2000))
			case 1:
				blk = randomProtobuf(rng, 0, 4000)
			case 2: // entries field carrying random protobuf
				for k := rng.Intn(6); k >= 0; k-- {
					blk = pbBytes(blk, 1, randomProtobuf(rng, 1, 500))
				}
			default: // right field numbers, wrong wire types
				var e []byte
				e = pbInt(e, 1, rng.Int63())
				e = pbInt(e, 2, rng.Int63())
				e = pbBytes(e, 3, randBytes(rng, 9))
				e = pbBytes(e, 4, nil)
				e = append(putVarint(e, 5<<3|5), 1, 2, 3, 4)
				blk = pbBytes(blk, 1, e)
			}
			r = append(r, frameBlock(blk)...)
		}
		c.Input = gzipWrap(dumpName, r, level)
		c.Desc = "well-formed gzip and block framing around random protobuf"
	case "wrapped-hostile-entries", "wrapped-hostile-valid":
		var r []byte
		desc := ""
		for nb := 1 + rng.Intn(3); nb > 0; nb-- {
			var blk []byte
			for ne := 1 + rng.Intn(12); ne > 0; ne-- {
				kq := pickKey()
				mk, msg := hostileMsg(rng, kq.Q.Name, kq.Q.Qtype)
				if kind == "wrapped-hostile-valid" {
					// only messages the loader can decode, so the whole file is admitted
					for try := 0; try < 20 && new(dns.Msg).Unpack(msg) != nil; try++ {
						mk, msg = hostileMsg(rng, kq.Q.Name, kq.Q.Qtype)
					}
				}
				e := dumpEntry{Key: kq.Key, Msg: msg, CacheExp: hostileTime(rng, now), MsgExp: hostileTime(rng, now), Stored: hostileTime(rng, now)}
				if kind == "wrapped-hostile-valid" {
					// admitted and reachable by a query
					e.CacheExp = now + 1000 + int64(rng.Intn(100000))
					if rng.Intn(3) == 0 {
						e.CacheExp = math.MaxInt64 - int64(rng.Intn(2))
					}
					if rng.Intn(2) == 0 {
						e.MsgExp = now + 500
					}
					c.Probes = append(c.Probes, kq.Q)
				} else {
					switch rng.Intn(6) {
					case 0:
						e.Key = nil
					case 1:
						e.Key = randBytes(rng, rng.Intn(70000))
					case 2:
						e.Key = randBytes(rng, 1+rng.Intn(40))
					}
				}
				eb := encodeEntry(e)
				switch rng.Intn(8) {
				case 0: // fields missing
					eb = pbBytes(nil, 1, e.Key)
				case 1: // fields repeated, unknown fields in between
					eb = append(eb, pbBytes(nil, 9, randBytes(rng, 5))...)
					eb = append(eb, encodeEntry(e)...)
				}
				blk = pbBytes(blk, 1, eb)
				desc += mk + " "
			}
			r = append(r, frameBlock(blk)...)
		}
		c.Input = gzipWrap(dumpName, r, level)
		c.Desc = "well-formed dump with hostile entries: " + desc
	case "wrapped-many-tiny-entries":
		var one []byte
		switch rng.Intn(3) {
		case 0:
			one = pbBytes(nil, 1, nil) // empty entry
		case 1:
			one = pbBytes(nil, 1, pbBytes(nil, 2, wire.NewBuilder(0, 0x8000).Bytes()))
		default:
			e := dumpEntry{Key: []byte("k"), Msg: wire.NewBuilder(0, 0x8000).Bytes(), CacheExp: math.MaxInt64, MsgExp: math.MaxInt64, Stored: 1}
			one = pbBytes(nil, 1, encodeEntry(e))
		}
		per := (1<<20 - 16) / len(one)
		blk := make([]byte, 0, per*len(one))
		for i := 0; i < per; i++ {
			blk = append(blk, one...)
		}
		fb := frameBlock(blk)
		nblk := 2 + rng.Intn(3)
		if thorough {
			nblk = 4 + rng.Intn(28)
		}
		var r []byte
		for i := 0; i < nblk; i++ {
			r = append(r, fb...)
		}
		c.Input = gzipWrap(dumpName, r, gzip.BestCompression)
		c.Desc = fmt.Sprintf("%d blocks of %d tiny entries each (%d bytes compressed, %d raw)", nblk, per, len(c.Input), len(r))
	case "flip-compressed":
		n := []int{1, 1, 1, 2, 4, 8, 32}[rng.Intn(7)]
		lo, hi := 0, len(base)
		zone := "anywhere"
		switch rng.Intn(5) {
		case 0:
			hi, zone = 10+len(dumpName)+1, "gzip header"
		case 1:
			lo, hi, zone = 10+len(dumpName)+1, 10+len(dumpName)+40, "first deflate bytes"
		case 2:
			lo, zone = len(base)-8, "gzip trailer"
		}
		c.Desc = fmt.Sprintf("dump %d (%d bytes), %d flips in %s:%s", bi, len(base), n, zone, flipBytes(rng, base, n, lo, hi))
		c.Input = base
	case "flip-raw-rewrap":
		n := []int{1, 1, 2, 4, 16}[rng.Intn(5)]
		if len(raw) == 0 {
			raw = frameBlock(nil)
		}
		lo, hi := 0, len(raw)
		zone := "anywhere"
		switch rng.Intn(4) {
		case 0:
			hi, zone = 8, "first block header"
		case 1:
			lo, hi, zone = 8, 40, "first entry's tags"
		}
		c.Desc = fmt.Sprintf("dump %d uncompressed (%d bytes), %d flips in %s:%s, re-compressed with a correct checksum", bi, len(raw), n, zone, flipBytes(rng, raw, n, lo, hi))
		c.Input = gzipWrap(dumpName, raw, level)
	case "splice":
		switch rng.Intn(6) {
		case 0:
			c.Input = append(append([]byte(nil), base...), base...)
			c.Desc = "dump followed by itself (two gzip members)"
		case 1:
			c.Input = append(append([]byte(nil), base...), randBytes(rng, 1+rng.Intn(100))...)
			c.Desc = "dump followed by garbage"
		case 2:
			c.Input = append(append([]byte(nil), base...), gzipWrap("other", randBytes(rng, 100), level)...)
			c.Desc = "dump followed by a second member with garbage"
		case 3:
			if len(base) > 40 {
				a := 20 + rng.Intn(len(base)-30)
				l := 1 + rng.Intn(min(64, len(base)-a))
				c.Input = append(append([]byte(nil), base[:a]...), base[a+l:]...)
				c.Desc = fmt.Sprintf("%d bytes removed at %d", l, a)
			} else {
				c.Input, c.Desc = base[:len(base)/2], "half"
			}
		case 4:
			a := rng.Intn(len(base))
			l := 1 + rng.Intn(min(64, len(base)-a))
			c.Input = append(append(append([]byte(nil), base[:a+l]...), base[a:a+l]...), base[a+l:]...)
			c.Desc = fmt.Sprintf("%d bytes duplicated at %d", l, a)
		default:
			a := rng.Intn(len(raw) + 1)
			r2 := append(append(append([]byte(nil), raw[:a]...), raw...), raw[a:]...)
			c.Input = gzipWrap(dumpName, r2, level)
			c.Desc = fmt.Sprintf("uncompressed stream inserted into itself at %d, re-compressed", a)
		}
	case "trailer-games":
		crc, isz := crc32.ChecksumIEEE(raw), uint32(len(raw))
		switch rng.Intn(3) {
		case 0:
			crc ^= 1 << uint(rng.Intn(32))
			c.Desc = "stored-block gzip, wrong CRC"
		case 1:
			isz += uint32(1 + rng.Intn(1000))
			c.Desc = "stored-block gzip, wrong ISIZE"
		default:
			c.Desc = "stored-block gzip, correct trailer"
		}
		c.Input = gzipRaw(8, nil, []byte(dumpName+"\x00"), nil, false, raw, crc, isz)
	case "prefix-plus-garbage":
		p := rng.Intn(len(base) + 1)
		g := rng.Intn(200)
		c.Input = append(append([]byte(nil), base[:p]...), randBytes(rng, g)...)
		c.Desc = fmt.Sprintf("first %d bytes of dump %d then %d random bytes", p, bi, g)
	case "raw-truncate-rewrap":
		p := rng.Intn(len(raw) + 1)
		c.Input = gzipWrap(dumpName, raw[:p], level)
		c.Desc = fmt.Sprintf("uncompressed stream of dump %d cut at %d of %d, re-compressed (well-formed gzip)", bi, p, len(raw))
	}
	if c.Input == nil {
		c.Input = []byte{}
	}
	return c
}
