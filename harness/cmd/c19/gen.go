package main

// Seeded generators: questions, upstream replies of many shapes, and the
// per-entry expectations the fidelity oracle needs.

import (
	"encoding/hex"
	"fmt"
	"math/rand"
	"net"
	"strings"
	"time"

	"github.com/miekg/dns"
)

type qspec struct {
	Name  string `json:"name"`
	Qtype uint16 `json:"qtype"`
	AD    bool   `json:"ad,omitempty"`
	CD    bool   `json:"cd,omitempty"`
	DO    bool   `json:"do,omitempty"`
}

func (q qspec) msg(id uint16) *dns.Msg {
	m := new(dns.Msg)
	m.SetQuestion(q.Name, q.Qtype)
	m.Id = id
	m.AuthenticatedData = q.AD
	m.CheckingDisabled = q.CD
	if q.DO {
		m.SetEdns0(1232, true)
	}
	return m
}

type entSpec struct {
	Idx   int      `json:"idx"`
	Q     qspec    `json:"q"`
	Via   string   `json:"via"`   // exec | inject
	Kind  string   `json:"kind"`  // reply shape
	Group string   `json:"group"` // exec: long | short ; inject: fresh | stale | dead | odd
	Resp  *dns.Msg `json:"-"`     // what the cache is expected to hold (no OPT)
	Up    *dns.Msg `json:"-"`     // exec: the upstream reply as handed to the cache (may carry OPT)
	Plain bool     `json:"plain"` // NOERROR with answer records: message lifetime = min TTL

	U0, U1 time.Time `json:"-"` // exec: bracket of the store call

	Key      []byte `json:"-"` // inject
	Stored   int64  `json:"stored,omitempty"`
	MsgExp   int64  `json:"msg_exp,omitempty"`
	CacheExp int64  `json:"cache_exp,omitempty"`

	OrigTTL []uint32 `json:"orig_ttl"`
	MinTTL  uint32   `json:"min_ttl"`

	// (f) sized answers
	SizeClass int `json:"size_class,omitempty"`         // target uncompressed bytes
	WireLen   int `json:"wire_bytes,omitempty"`         // the upstream's (compressed) reply
	PackedLen int `json:"uncompressed_bytes,omitempty"` // what the cache re-packs
}

var replyKinds = []string{"a", "aaaa", "cname-a", "mx-extra", "txt", "nodata", "nxdomain", "servfail", "srv", "ns-glue", "unknown-type", "caa", "https", "bigtxt", "soa", "edns-a", "flags-a"}

func randLabel(rng *rand.Rand, n int) string {
	const cs = "abcdefghijklmnopqrstuvwxyz0123456789"
	b := make([]byte, n)
	for i := range b {
		b[i] = cs[rng.Intn(len(cs))]
	}
	return string(b)
}

func hdr(name string, t uint16, ttl uint32) dns.RR_Header {
	return dns.RR_Header{Name: name, Rrtype: t, Class: dns.ClassINET, Ttl: ttl}
}

func randIP4(rng *rand.Rand) net.IP {
	return net.IPv4(byte(1+rng.Intn(222)), byte(rng.Intn(256)), byte(rng.Intn(256)), byte(rng.Intn(256))).To4()
}

func randIP6(rng *rand.Rand) net.IP {
	ip := make(net.IP, 16)
	rng.Read(ip)
	ip[0] = 0x20
	return ip
}

// ttlGen returns the TTL of the next record; the first call fixes the minimum.
type ttlGen func() uint32

func longTTLs(rng *rand.Rand) ttlGen {
	bases := []uint32{120, 180, 300, 900, 3600, 86400, 604800, 2147483647, 4294967295 - 5000}
	base := bases[rng.Intn(len(bases))]
	same := rng.Intn(3) == 0
	return func() uint32 {
		if same {
			return base
		}
		return base + uint32(rng.Intn(4000))
	}
}

func shortTTLs(rng *rand.Rand) ttlGen {
	first := true
	base := uint32(1 + rng.Intn(2))
	return func() uint32 {
		if first {
			first = false
			return base
		}
		return base + uint32(rng.Intn(3))*uint32(rng.Intn(500))
	}
}

func fixedTTLs(v []uint32) ttlGen {
	i := 0
	return func() uint32 {
		t := v[i%len(v)]
		i++
		return t
	}
}

// genReply builds the question and an upstream reply of the given kind.
// bigBytes > 0 forces a TXT answer of about that many bytes.
func genReply(rng *rand.Rand, idx int, kind string, ttl ttlGen, bigBytes int) (qspec, *dns.Msg) {
	name := fmt.Sprintf("e%d-%s.%s.c19.test.", idx, randLabel(rng, 3+rng.Intn(12)), randLabel(rng, 1+rng.Intn(8)))
	q := qspec{Name: name, AD: rng.Intn(5) == 0, CD: rng.Intn(6) == 0, DO: rng.Intn(4) == 0}
	m := new(dns.Msg)
	soa := func(owner string, t uint32) *dns.SOA {
		return &dns.SOA{Hdr: hdr(owner, dns.TypeSOA, t), Ns: "ns1." + owner, Mbox: "hostmaster." + owner,
			Serial: rng.Uint32(), Refresh: 7200, Retry: 900, Expire: 1209600, Minttl: uint32(rng.Intn(86400))}
	}
	zone := name[strings.Index(name, ".")+1:]
	switch kind {
	case "a", "edns-a", "flags-a":
		q.Qtype = dns.TypeA
		for i, n := 0, 1+rng.Intn(4); i < n; i++ {
			m.Answer = append(m.Answer, &dns.A{Hdr: hdr(name, dns.TypeA, ttl()), A: randIP4(rng)})
		}
	case "aaaa":
		q.Qtype = dns.TypeAAAA
		for i, n := 0, 1+rng.Intn(3); i < n; i++ {
			m.Answer = append(m.Answer, &dns.AAAA{Hdr: hdr(name, dns.TypeAAAA, ttl()), AAAA: randIP6(rng)})
		}
	case "cname-a":
		q.Qtype = dns.TypeA
		owner := name
		for i, n := 0, 1+rng.Intn(3); i < n; i++ {
			tgt := "c" + randLabel(rng, 6) + "." + zone
			m.Answer = append(m.Answer, &dns.CNAME{Hdr: hdr(owner, dns.TypeCNAME, ttl()), Target: tgt})
			owner = tgt
		}
		m.Answer = append(m.Answer, &dns.A{Hdr: hdr(owner, dns.TypeA, ttl()), A: randIP4(rng)})
	case "mx-extra":
		q.Qtype = dns.TypeMX
		for i, n := 0, 1+rng.Intn(3); i < n; i++ {
			mx := fmt.Sprintf("mx%d.%s", i, zone)
			m.Answer = append(m.Answer, &dns.MX{Hdr: hdr(name, dns.TypeMX, ttl()), Preference: uint16(10 * (i + 1)), Mx: mx})
			m.Extra = append(m.Extra, &dns.A{Hdr: hdr(mx, dns.TypeA, ttl()), A: randIP4(rng)})
		}
	case "txt":
		q.Qtype = dns.TypeTXT
		var ss []string
		for i, n := 0, 1+rng.Intn(4); i < n; i++ {
			ss = append(ss, randLabel(rng, 1+rng.Intn(200)))
		}
		m.Answer = append(m.Answer, &dns.TXT{Hdr: hdr(name, dns.TypeTXT, ttl()), Txt: ss})
	case "bigtxt":
		q.Qtype = dns.TypeTXT
		total := bigBytes
		if total <= 0 {
			total = 1500 + rng.Intn(3000)
		}
		for total > 0 {
			var ss []string
			for i := 0; i < 4 && total > 0; i++ {
				ss = append(ss, randLabel(rng, 250))
				total -= 251
			}
			m.Answer = append(m.Answer, &dns.TXT{Hdr: hdr(name, dns.TypeTXT, ttl()), Txt: ss})
		}
	case "nodata":
		q.Qtype = []uint16{dns.TypeAAAA, dns.TypeMX, dns.TypeTXT}[rng.Intn(3)]
		m.Ns = append(m.Ns, soa(zone, ttl()))
	case "nxdomain":
		q.Qtype = dns.TypeA
		m.Rcode = dns.RcodeNameError
		m.Ns = append(m.Ns, soa(zone, ttl()))
	case "servfail":
		q.Qtype = dns.TypeA
		m.Rcode = dns.RcodeServerFailure
	case "srv":
		q.Qtype = dns.TypeSRV
		for i, n := 0, 1+rng.Intn(3); i < n; i++ {
			m.Answer = append(m.Answer, &dns.SRV{Hdr: hdr(name, dns.TypeSRV, ttl()), Priority: uint16(rng.Intn(100)), Weight: uint16(rng.Intn(100)), Port: uint16(1 + rng.Intn(65000)), Target: "t" + randLabel(rng, 5) + "." + zone})
		}
	case "ns-glue":
		q.Qtype = dns.TypeNS
		for i := 0; i < 2; i++ {
			ns := fmt.Sprintf("ns%d.%s", i, zone)
			m.Answer = append(m.Answer, &dns.NS{Hdr: hdr(name, dns.TypeNS, ttl()), Ns: ns})
			m.Extra = append(m.Extra, &dns.A{Hdr: hdr(ns, dns.TypeA, ttl()), A: randIP4(rng)})
			m.Extra = append(m.Extra, &dns.AAAA{Hdr: hdr(ns, dns.TypeAAAA, ttl()), AAAA: randIP6(rng)})
		}
	case "unknown-type":
		q.Qtype = 65280 + uint16(rng.Intn(200))
		rd := make([]byte, rng.Intn(60))
		rng.Read(rd)
		m.Answer = append(m.Answer, &dns.RFC3597{Hdr: hdr(name, q.Qtype, ttl()), Rdata: hex.EncodeToString(rd)})
	case "caa":
		q.Qtype = dns.TypeCAA
		m.Answer = append(m.Answer, &dns.CAA{Hdr: hdr(name, dns.TypeCAA, ttl()), Flag: 0, Tag: "issue", Value: randLabel(rng, 8) + ".test"})
	case "https":
		q.Qtype = dns.TypeHTTPS
		h := &dns.HTTPS{SVCB: dns.SVCB{Hdr: hdr(name, dns.TypeHTTPS, ttl()), Priority: 1, Target: ".",
			Value: []dns.SVCBKeyValue{&dns.SVCBAlpn{Alpn: []string{"h2", "h3"}}, &dns.SVCBIPv4Hint{Hint: []net.IP{randIP4(rng)}}}}}
		m.Answer = append(m.Answer, h)
	case "soa":
		q.Qtype = dns.TypeSOA
		m.Answer = append(m.Answer, soa(name, ttl()))
		m.Ns = append(m.Ns, &dns.NS{Hdr: hdr(name, dns.TypeNS, ttl()), Ns: "ns1." + name})
	default:
		panic("kind " + kind)
	}
	qm := q.msg(uint16(rng.Intn(65536)))
	rcode := m.Rcode
	m.SetReply(qm)
	m.Rcode = rcode
	m.RecursionAvailable = true
	if kind == "flags-a" {
		m.Authoritative = rng.Intn(2) == 0
		m.AuthenticatedData = rng.Intn(2) == 0
		m.CheckingDisabled = q.CD
		m.RecursionAvailable = rng.Intn(2) == 0
	}
	// make it a message that came off the wire, as an upstream's would
	wireb, err := m.Pack()
	if err != nil {
		panic(fmt.Sprintf("generator built an unpackable reply (%s): %v", kind, err))
	}
	up := new(dns.Msg)
	if err := up.Unpack(wireb); err != nil {
		panic(fmt.Sprintf("generator reply does not unpack (%s): %v", kind, err))
	}
	up.Compress = rng.Intn(2) == 0
	if kind == "edns-a" || (q.DO && rng.Intn(2) == 0) {
		up.SetEdns0(4096, q.DO)
	}
	return q, up
}

// stripOpt returns a copy of m without OPT records (what the cache keeps).
func stripOpt(m *dns.Msg) *dns.Msg {
	c := m.Copy()
	ex := c.Extra[:0]
	for _, rr := range c.Extra {
		if rr.Header().Rrtype != dns.TypeOPT {
			ex = append(ex, rr)
		}
	}
	c.Extra = ex
	return c
}

func ttlVector(m *dns.Msg) []uint32 {
	var v []uint32
	for _, sec := range [][]dns.RR{m.Answer, m.Ns, m.Extra} {
		for _, rr := range sec {
			if rr.Header().Rrtype == dns.TypeOPT {
				continue
			}
			v = append(v, rr.Header().Ttl)
		}
	}
	return v
}

func minOf(v []uint32) uint32 {
	if len(v) == 0 {
		return 0
	}
	m := v[0]
	for _, x := range v {
		if x < m {
			m = x
		}
	}
	return m
}

// semantic returns a TTL- and ID-free rendering of a response.
func semantic(m *dns.Msg) string {
	var sb strings.Builder
	fmt.Fprintf(&sb, "rcode=%d op=%d qr=%v aa=%v tc=%v rd=%v ra=%v z=%v ad=%v cd=%v|", m.Rcode, m.Opcode, m.Response, m.Authoritative, m.Truncated, m.RecursionDesired, m.RecursionAvailable, m.Zero, m.AuthenticatedData, m.CheckingDisabled)
	for _, q := range m.Question {
		fmt.Fprintf(&sb, "Q %s %d %d|", q.Name, q.Qtype, q.Qclass)
	}
	for si, sec := range [][]dns.RR{m.Answer, m.Ns, m.Extra} {
		for _, rr := range sec {
			if rr.Header().Rrtype == dns.TypeOPT {
				continue
			}
			c := dns.Copy(rr)
			c.Header().Ttl = 0
			fmt.Fprintf(&sb, "%d %s|", si, c.String())
		}
	}
	return sb.String()
}

// canonMsg renders wire bytes independent of name compression; undecodable
// input is returned as is.
func canonMsg(b []byte) string {
	m := new(dns.Msg)
	if err := m.Unpack(b); err != nil {
		return "raw:" + string(b)
	}
	m.Compress = false
	out, err := m.Pack()
	if err != nil {
		return "raw:" + string(b)
	}
	return string(out)
}

func tupleOf(e dumpEntry) string {
	return fmt.Sprintf("%x|%d|%d|%d|%x", e.Key, e.CacheExp, e.MsgExp, e.Stored, canonMsg(e.Msg))
}

func tupleSet(es []dumpEntry) map[string]int {
	s := make(map[string]int, len(es))
	for _, e := range es {
		s[tupleOf(e)]++
	}
	return s
}
