// C09 — per-connection concurrency limits hold and capacity never leaks.
//
// Monitors:
//   - barrier phases (adversary withholds every reply, nobody cancels): the
//     distinct queries seen on one connection are provably concurrently
//     unanswered -> must be <= L, and N callers need exactly ceil(N/L) conns;
//   - conservation invariant read under the code's own locks (VerifSnapshot /
//     VerifCounters) at quiescent points; negativity sampled during histories;
//   - capacity probe after random histories: every live connection must admit
//     exactly L withheld queries before a new dial is observed;
//   - early reservations made while the dial is held must all be served once
//     the dial succeeds with an equal limit.
package main

import (
	"context"
	"errors"
	"fmt"
	"math/rand"
	"os"
	"runtime"
	"strings"
	"sync"
	"sync/atomic"
	"time"

	"github.com/IrineSistiana/mosdns/v5/pkg/pool"
	"github.com/IrineSistiana/mosdns/v5/pkg/upstream/transport"

	"verifharness/lib/dnsadv"
	"verifharness/lib/evid"
	"verifharness/lib/fakenet"
	"verifharness/lib/poolsan"
	"verifharness/lib/sched"
	"verifharness/lib/wire"
)

var (
	rep     *evid.Reporter
	caselog *evid.CaseLog
	seqCtr  atomic.Int64
)

// ---------- adversary ----------

type world struct {
	net    *fakenet.Net
	stream bool
	mu     sync.Mutex
	rng    *rand.Rand
	seen   map[int]*fakenet.Conn          // seq -> first conn that carried it
	perCon map[*fakenet.Conn]map[int]bool // conn -> distinct seqs
	pend   map[int][]pendq                // seq -> pending (unanswered) transmissions
	mode   map[int]string                 // seq -> "reply" | "hold"
	seenCh map[int]chan struct{}
	defr   map[*fakenet.Conn]*wire.Deframer
	nrep   int
}

type pendq struct {
	c  *fakenet.Conn
	qi dnsadv.QueryInfo
}

func newWorld(stream bool, seed int64) *world {
	return &world{net: fakenet.NewNet(), stream: stream, rng: rand.New(rand.NewSource(seed)),
		seen: map[int]*fakenet.Conn{}, perCon: map[*fakenet.Conn]map[int]bool{}, pend: map[int][]pendq{},
		mode: map[int]string{}, seenCh: map[int]chan struct{}{}, defr: map[*fakenet.Conn]*wire.Deframer{}}
}

func (w *world) newConn() *fakenet.Conn {
	c := w.net.NewConn(w.stream)
	w.mu.Lock()
	w.defr[c] = &wire.Deframer{}
	w.perCon[c] = map[int]bool{}
	w.mu.Unlock()
	c.OnWrite = w.onWrite
	return c
}

// register a call before it is issued. mode: "reply" (answer at once) | "hold".
func (w *world) register(seq int, mode string) chan struct{} {
	ch := make(chan struct{})
	w.mu.Lock()
	w.mode[seq] = mode
	w.seenCh[seq] = ch
	w.mu.Unlock()
	return ch
}

func (w *world) onWrite(c *fakenet.Conn, data []byte) error {
	var frames [][]byte
	w.mu.Lock()
	if w.stream {
		frames = w.defr[c].Feed(data)
	} else {
		frames = [][]byte{data}
	}
	w.mu.Unlock()
	for _, f := range frames {
		qi, err := dnsadv.ParseQuery(f)
		if err != nil || qi.Seq < 0 {
			continue
		}
		w.mu.Lock()
		if _, ok := w.seen[qi.Seq]; !ok {
			w.seen[qi.Seq] = c
			if ch := w.seenCh[qi.Seq]; ch != nil {
				close(ch)
			}
		}
		w.perCon[c][qi.Seq] = true
		mode := w.mode[qi.Seq]
		if mode == "hold" {
			w.pend[qi.Seq] = append(w.pend[qi.Seq], pendq{c, qi})
		}
		w.mu.Unlock()
		if mode == "reply" {
			w.answer(c, qi)
		}
	}
	return nil
}

func (w *world) answer(c *fakenet.Conn, qi dnsadv.QueryInfo) {
	w.mu.Lock()
	w.nrep++
	n := w.nrep
	w.mu.Unlock()
	msg := dnsadv.Reply(qi.WireID, 0x8180, qi.QSect, fmt.Sprintf("r/c%d/q%d/n%d", c.ID, qi.Seq, n), 0, 0)
	if w.stream {
		msg = wire.Frame(msg)
	}
	c.Inject(msg)
}

// release answers every held transmission of seq.
func (w *world) release(seq int) {
	w.mu.Lock()
	ps := w.pend[seq]
	delete(w.pend, seq)
	w.mode[seq] = "reply"
	w.mu.Unlock()
	for _, p := range ps {
		w.answer(p.c, p.qi)
	}
}

// unhold makes future transmissions of seq be answered and forgets held ones
// (used after the connection carrying them was killed).
func (w *world) unhold(seq int) {
	w.mu.Lock()
	delete(w.pend, seq)
	w.mode[seq] = "reply"
	w.mu.Unlock()
}

func (w *world) distinctOn(c *fakenet.Conn) int {
	w.mu.Lock()
	defer w.mu.Unlock()
	return len(w.perCon[c])
}

func (w *world) connOf(seq int) *fakenet.Conn {
	w.mu.Lock()
	defer w.mu.Unlock()
	return w.seen[seq]
}

// ---------- transports ----------

type tcase struct {
	Kind    string `json:"kind"` // pipeline | reuse | tdc
	Stream  bool   `json:"stream"`
	L       int    `json:"limit"`
	Seed    int64  `json:"seed"`
	Phase   string `json:"phase"`
	N       int    `json:"n"`
	Procs   int    `json:"gomaxprocs"`
	Perturb bool   `json:"perturb"`
}

type dialCtl struct {
	mu    sync.Mutex
	gate  chan struct{} // non-nil: dial blocks until closed
	failN int           // next failN dials fail
	dials atomic.Int64
}

func (d *dialCtl) before(ctx context.Context) error {
	d.dials.Add(1)
	d.mu.Lock()
	g := d.gate
	fail := d.failN > 0
	if fail {
		d.failN--
	}
	d.mu.Unlock()
	if g != nil {
		select {
		case <-g:
		case <-ctx.Done():
			return ctx.Err()
		}
	}
	if fail {
		return errors.New("harness: dial refused")
	}
	return nil
}

func newPipeline(w *world, L int, dc *dialCtl) *transport.PipelineTransport {
	return transport.NewPipelineTransport(transport.PipelineOpts{
		DialContext: func(ctx context.Context) (transport.DnsConn, error) {
			if err := dc.before(ctx); err != nil {
				return nil, err
			}
			return transport.NewDnsConn(transport.TraditionalDnsConnOpts{WithLengthHeader: w.stream, IdleTimeout: 30 * time.Second, MaxConcurrentQuery: L}, w.newConn()), nil
		},
		MaxConcurrentQueryWhileDialing: L,
	})
}

func newReuse(w *world, dc *dialCtl) *transport.ReuseConnTransport {
	return transport.NewReuseConnTransport(transport.ReuseConnOpts{
		DialContext: func(ctx context.Context) (transport.NetConn, error) {
			if err := dc.before(ctx); err != nil {
				return nil, err
			}
			return w.newConn(), nil
		},
		IdleTimeout: 30 * time.Second,
	})
}

type exch interface {
	ExchangeContext(ctx context.Context, m []byte) (*[]byte, error)
	Close() error
}

// issue starts one call; returns seq, seen channel and a done channel carrying the error.
type pendingCall struct {
	seq    int
	seen   chan struct{}
	done   chan error
	cancel context.CancelFunc
}

func issue(w *world, t exch, mode string, timeout time.Duration) *pendingCall {
	seq := int(seqCtr.Add(1))
	pc := &pendingCall{seq: seq, seen: w.register(seq, mode), done: make(chan error, 1)}
	ctx, cancel := context.WithTimeout(context.Background(), timeout)
	pc.cancel = cancel
	q := dnsadv.Query(uint16(seq), seq, 1, "c09", 1)
	go func() {
		r, err := t.ExchangeContext(ctx, q)
		if err == nil {
			if ri, perr := dnsadv.ParseReply(*r); perr != nil || ri.Seq != seq {
				err = fmt.Errorf("foreign reply %v %v", ri, perr)
				rep.Violation("foreign-reply", err.Error(), nil)
			}
			pool.ReleaseBuf(r)
		}
		pc.done <- err
	}()
	return pc
}

func waitSeen(pcs []*pendingCall, d time.Duration) bool {
	t := time.NewTimer(d)
	defer t.Stop()
	for _, pc := range pcs {
		select {
		case <-pc.seen:
		case <-t.C:
			return false
		}
	}
	return true
}

// ---------- phase A: barrier (upper bound + exact connection count) ----------

func barrier(tc tcase) {
	caselog.Log(tc)
	defer timed("barrier-" + tc.Kind)()
	setup(tc)
	w := newWorld(tc.Stream, tc.Seed)
	dc := &dialCtl{}
	var t exch
	L := tc.L
	if tc.Kind == "reuse" {
		t, L = newReuse(w, dc), 1
	} else {
		t = newPipeline(w, L, dc)
	}
	defer t.Close()
	var pcs []*pendingCall
	for i := 0; i < tc.N; i++ {
		pcs = append(pcs, issue(w, t, "hold", 20*time.Second))
	}
	rep.Eval(1)
	// no call can have returned: replies withheld, nobody cancels, no faults.
	// A call that fails here (e.g. refused reservation) is reported below.
	failed := 0
	allSeen := make(chan bool, 1)
	go func() { allSeen <- waitSeen(pcs, 5*time.Second) }()
	var errs []string
	ok := <-allSeen
	for _, pc := range pcs {
		select {
		case err := <-pc.done:
			failed++
			if err != nil && len(errs) < 4 {
				errs = append(errs, err.Error())
			}
			pc.done <- err
		default:
		}
	}
	conns := w.net.Conns()
	maxOn := 0
	for _, c := range conns {
		if n := w.distinctOn(c); n > maxOn {
			maxOn = n
		}
	}
	wit := map[string]any{"case": tc, "connections": len(conns), "max_unanswered_on_one_conn": maxOn, "calls_failed_in_barrier": failed, "errors": errs}
	if maxOn > L {
		rep.Violation(fmt.Sprintf("limit-exceeded-%s", tc.Kind), fmt.Sprintf("a connection with limit %d carried %d unanswered queries at once", L, maxOn), wit)
	}
	want := (tc.N + L - 1) / L
	switch {
	case failed > 0:
		rep.Violation(fmt.Sprintf("query-refused-below-limit-%s", tc.Kind), fmt.Sprintf("%d of %d concurrent calls failed (%v) although every reply was only withheld and connections could be opened freely", failed, tc.N, errs), wit)
	case !ok:
		rep.Inconclusive("barrier %+v: not all queries reached the adversary within 5 s", tc)
	case len(conns) != want:
		kind := "capacity-lost"
		if len(conns) < want {
			kind = "limit-exceeded"
		}
		rep.Violation(fmt.Sprintf("%s-barrier-%s", kind, tc.Kind), fmt.Sprintf("%d callers with per-connection limit %d were spread over %d connections, expected exactly %d (max on one conn %d)", tc.N, L, len(conns), want, maxOn), wit)
	default:
		rep.Count("barrier_phases_ok", 1)
		rep.Nontrivial(fmt.Sprintf("barrier|%s|s%v|L%d|N%d", tc.Kind, tc.Stream, L, tc.N))
		if rep.WantSample() {
			rep.Sample(wit)
		}
	}
	rep.Max("max_unanswered_seen_on_one_conn", int64(maxOn))
	for _, pc := range pcs {
		w.release(pc.seq)
	}
	for _, pc := range pcs {
		select {
		case <-pc.done:
		case <-time.After(10 * time.Second):
			rep.Inconclusive("barrier %+v: call did not return after release", tc)
		}
		pc.cancel()
	}
}

// ---------- phase B: random history -> invariant -> capacity probe ----------

func timed(name string) func() {
	t0 := time.Now()
	return func() { rep.Count("wall_ms:"+name, time.Since(t0).Milliseconds()) }
}

func setup(tc tcase) {
	if tc.Procs > 0 {
		runtime.GOMAXPROCS(tc.Procs)
	}
	if tc.Perturb {
		sched.Perturb(tc.Seed, 0.3, 300*time.Microsecond)
	} else {
		sched.NoPerturb()
	}
}

func history(tc tcase) {
	caselog.Log(tc)
	defer timed("history-" + tc.Kind)()
	setup(tc)
	w := newWorld(tc.Stream, tc.Seed)
	dc := &dialCtl{}
	rng := rand.New(rand.NewSource(tc.Seed))
	L := tc.L
	var t exch
	var pt *transport.PipelineTransport
	var rt *transport.ReuseConnTransport
	if tc.Kind == "reuse" {
		rt = newReuse(w, dc)
		t, L = rt, 1
	} else {
		pt = newPipeline(w, L, dc)
		t = pt
	}
	defer t.Close()

	// sampler: counters must never be negative
	stopSampler := make(chan struct{})
	var samplerWg sync.WaitGroup
	samplerWg.Add(1)
	go func() {
		defer samplerWg.Done()
		for {
			select {
			case <-stopSampler:
				return
			default:
			}
			if pt != nil {
				_, cs := pt.VerifSnapshot()
				for _, s := range cs {
					rep.Count("snapshots_sampled", 1)
					if s.Reserved < 0 || s.Queued < 0 || s.LazyReserved < 0 {
						rep.Violation("counter-negative-"+tc.Kind, fmt.Sprintf("admission counter below zero: %+v", s), map[string]any{"case": tc})
					}
					if s.HasConn && !s.Closed && s.Limit > 0 && s.Queued > s.Limit {
						rep.Violation("limit-exceeded-queue-"+tc.Kind, fmt.Sprintf("waiter table holds %d queries, limit %d", s.Queued, s.Limit), map[string]any{"case": tc})
					}
				}
			} else {
				_, conns, idle, subset, busy := rt.VerifSnapshot()
				rep.Count("snapshots_sampled", 1)
				if !subset || idle > conns || busy > 0 {
					rep.Violation("reuse-idle-set-inconsistent", fmt.Sprintf("idle set inconsistent: conns=%d idle=%d subset=%v idle-but-busy=%d", conns, idle, subset, busy), map[string]any{"case": tc})
				}
			}
			time.Sleep(200 * time.Microsecond)
		}
	}()

	// ---- history ----
	var wg sync.WaitGroup
	ops := map[string]int{}
	var opsMu sync.Mutex
	callers := 1 + rng.Intn(24)
	perCaller := 3 + rng.Intn(8)
	for c := 0; c < callers; c++ {
		wg.Add(1)
		crng := rand.New(rand.NewSource(tc.Seed*977 + int64(c)))
		go func() {
			defer wg.Done()
			for i := 0; i < perCaller; i++ {
				op := []string{"reply", "reply", "reply", "cancel-waiting", "cancel-before", "write-error", "peer-close", "short-deadline", "dial-fail"}[crng.Intn(9)]
				opsMu.Lock()
				ops[op]++
				opsMu.Unlock()
				switch op {
				case "reply":
					pc := issue(w, t, "reply", 5*time.Second)
					<-pc.done
					pc.cancel()
				case "cancel-waiting":
					pc := issue(w, t, "hold", 5*time.Second)
					select {
					case <-pc.seen:
					case err := <-pc.done:
						pc.done <- err
					case <-time.After(2 * time.Second):
					}
					pc.cancel()
					<-pc.done
					if crng.Intn(2) == 0 {
						w.release(pc.seq) // late reply
					}
				case "cancel-before":
					seq := int(seqCtr.Add(1))
					w.register(seq, "reply")
					ctx, cancel := context.WithCancel(context.Background())
					cancel()
					r, err := t.ExchangeContext(ctx, dnsadv.Query(uint16(seq), seq, 1, "c09", 1))
					if err == nil {
						pool.ReleaseBuf(r)
					}
				case "short-deadline":
					pc := issue(w, t, "hold", time.Duration(1+crng.Intn(3))*time.Millisecond)
					<-pc.done
					pc.cancel()
				case "write-error":
					conns := w.net.Conns()
					if len(conns) > 0 {
						conns[crng.Intn(len(conns))].FailNextWrite(fakenet.ErrInjected)
					}
					pc := issue(w, t, "reply", 5*time.Second)
					<-pc.done
					pc.cancel()
				case "peer-close":
					pc := issue(w, t, "hold", 5*time.Second)
					select {
					case <-pc.seen:
						if c := w.connOf(pc.seq); c != nil {
							w.unhold(pc.seq)
							if crng.Intn(2) == 0 {
								c.InjectEOF()
							} else {
								c.InjectErr(fakenet.ErrInjected)
							}
						}
					case err := <-pc.done:
						pc.done <- err
					case <-time.After(2 * time.Second):
					}
					<-pc.done // fails, or is retried on another connection and answered there
					pc.cancel()
				case "dial-fail":
					dc.mu.Lock()
					dc.failN++
					dc.mu.Unlock()
					pc := issue(w, t, "reply", 5*time.Second)
					<-pc.done
					pc.cancel()
				}
			}
		}()
	}
	wg.Wait()
	close(stopSampler)
	samplerWg.Wait()
	dc.mu.Lock()
	dc.failN = 0
	dc.mu.Unlock()
	rep.Eval(1)
	for k, v := range ops {
		rep.Count("history_op:"+k, int64(v))
	}

	// ---- quiesce: connections hit by a fault must have been closed by the client ----
	sched.NoPerturb()
	for _, c := range w.net.Conns() {
		c.ClearWriteFaults()
		if c.ReadErrSet() && !c.WaitClosed(3*time.Second) {
			rep.Inconclusive("history %+v: connection with injected read error was not closed within 3 s", tc)
		}
	}
	time.Sleep(2 * time.Millisecond)

	// ---- conservation invariant under the code's own locks ----
	live := 0
	if pt != nil {
		_, cs := pt.VerifSnapshot()
		for _, s := range cs {
			if s.LazyReserved != 0 {
				rep.Violation("leak-lazy-reserved", fmt.Sprintf("no call in flight but a dialing connection still holds %d early reservations", s.LazyReserved), map[string]any{"case": tc, "state": fmt.Sprintf("%+v", s)})
			}
			if s.HasConn && !s.Closed && !s.LazyClosed {
				if s.Reserved != 0 || s.Queued != 0 {
					rep.Violation("leak-reserved-or-queued", fmt.Sprintf("no call in flight but a live connection holds reserved=%d queued=%d", s.Reserved, s.Queued), map[string]any{"case": tc, "state": fmt.Sprintf("%+v", s)})
				}
				if fc, ok := s.NetConn.(*fakenet.Conn); ok && !fc.IsClosed() {
					live++
				}
			}
		}
		rep.Count("conservation_checks", 1)
	} else {
		_, conns, idle, subset, busy := rt.VerifSnapshot()
		if !subset || busy > 0 || idle > conns {
			rep.Violation("reuse-idle-set-inconsistent", fmt.Sprintf("quiescent: conns=%d idle=%d subset=%v busy=%d", conns, idle, subset, busy), map[string]any{"case": tc})
		}
		// conservation for the non-pipelined pool: with no call in flight every tracked
		// connection is either idle (admits a query) or still waits for the reply of an
		// abandoned query; a healthy connection that is neither has lost its capacity
		// (a late dial result may still be on its way into the idle set: poll briefly)
		waiting := rt.VerifBusy()
		for i := 0; i < 400 && conns != idle+waiting; i++ {
			time.Sleep(5 * time.Millisecond)
			_, conns, idle, _, _ = rt.VerifSnapshot()
			waiting = rt.VerifBusy()
		}
		if conns != idle+waiting {
			rep.Violation("capacity-lost-reuse-conn-neither-idle-nor-busy", fmt.Sprintf("no call in flight: %d tracked connections, %d idle, %d still waiting for an abandoned query's reply: %d healthy connection(s) admit nothing", conns, idle, waiting, conns-idle-waiting), map[string]any{"case": tc, "history_ops": ops})
		}
		live = idle
		rep.Count("conservation_checks", 1)
	}

	// ---- capacity probe ----
	if live > 12 {
		// the transport scans at most 17 connections per reservation; stay below that
		rep.Count("capacity_probes_skipped_too_many_conns", 1)
		return
	}
	before := len(w.net.Conns())
	base := map[*fakenet.Conn]int{}
	for _, c := range w.net.Conns() {
		base[c] = w.distinctOn(c)
	}
	var probes []*pendingCall
	probeFail := ""
	for i := 0; i < live*L; i++ {
		pc := issue(w, t, "hold", 20*time.Second)
		probes = append(probes, pc)
		select {
		case <-pc.seen:
		case err := <-pc.done:
			probeFail = fmt.Sprintf("probe query %d of %d failed: %v", i+1, live*L, err)
			pc.done <- err
		case <-time.After(5 * time.Second):
			probeFail = fmt.Sprintf("probe query %d never reached a connection", i+1)
		}
		if probeFail != "" {
			break
		}
	}
	after := len(w.net.Conns())
	wit := map[string]any{"case": tc, "live_conns": live, "limit": L, "conns_before_probe": before, "conns_after_probe": after, "history_ops": ops}
	if probeFail != "" {
		rep.Violation("capacity-probe-failed-"+tc.Kind, probeFail, wit)
	} else if after != before {
		per := []int{}
		for c, b := range base {
			if !c.IsClosed() {
				per = append(per, w.distinctOn(c)-b)
			}
		}
		wit["admitted_per_live_conn"] = per
		// A new dial during the probe is a capacity loss only if a live connection REFUSED
		// although it carried fewer unanswered queries than its limit, i.e. its own admission
		// counters claim more than the adversary sees on it. A transport that merely chose to
		// dial while another connection had room (scan order, scan budget) follows a policy
		// the statement leaves open.
		leaked := false
		if pt != nil {
			_, cs := pt.VerifSnapshot()
			var st []string
			for _, x := range cs {
				st = append(st, fmt.Sprintf("%+v", x))
				fc, ok := x.NetConn.(*fakenet.Conn)
				if !ok || !x.HasConn || x.Closed || x.LazyClosed || fc.IsClosed() {
					continue
				}
				b, known := base[fc]
				if !known {
					continue // dialed during the probe
				}
				if seen := w.distinctOn(fc) - b; x.Reserved+x.Queued > seen {
					leaked = true
					wit["leaking_conn"] = fmt.Sprintf("conn %d: counters reserved=%d queued=%d, unanswered queries seen on it: %d", fc.ID, x.Reserved, x.Queued, seen)
				}
			}
			wit["pool_snapshot_after_probe"] = st
		} else {
			_, conns, idle, _, _ := rt.VerifSnapshot()
			if conns != idle+rt.VerifBusy() {
				leaked = true
				wit["pool_after_probe"] = fmt.Sprintf("conns=%d idle=%d busy=%d", conns, idle, rt.VerifBusy())
			}
		}
		if !leaked {
			rep.Count("probe_dialed_although_a_connection_had_room(transport policy, counters agree with the wire: not judged)", 1)
			for _, pc := range probes {
				w.release(pc.seq)
			}
			for _, pc := range probes {
				select {
				case <-pc.done:
				case <-time.After(10 * time.Second):
				}
				pc.cancel()
			}
			return
		}
		rep.Violation("capacity-lost-after-history-"+tc.Kind, fmt.Sprintf("%d live quiescent connections with limit %d admitted fewer than %d withheld queries: %d new connection(s) were dialed during the probe", live, L, live*L, after-before), wit)
	} else {
		for c, b := range base {
			if n := w.distinctOn(c) - b; n > L {
				rep.Violation("limit-exceeded-probe-"+tc.Kind, fmt.Sprintf("a connection with limit %d admitted %d withheld queries", L, n), wit)
			}
		}
		// one more must open a new connection
		pc := issue(w, t, "hold", 20*time.Second)
		probes = append(probes, pc)
		select {
		case <-pc.seen:
			if len(w.net.Conns()) != before+1 {
				// admitted by an existing connection: a violation iff that connection already
				// carried L withheld probe queries. (A connection that was still waiting for
				// the reply of an abandoned query when the snapshot was taken may have become
				// idle since; it then legitimately admits one.)
				c := w.connOf(pc.seq)
				n := 0
				if c != nil {
					n = w.distinctOn(c) - base[c]
				}
				if n > L {
					wit["admitting_conn"] = c.ID
					rep.Violation("limit-exceeded-probe-"+tc.Kind, fmt.Sprintf("query %d was admitted on connection %d, which already carried %d unanswered queries (limit %d)", live*L+1, c.ID, n-1, L), wit)
				} else {
					rep.Count("overflow_probe_admitted_by_connection_that_became_idle_late", 1)
				}
			} else {
				rep.Count("capacity_probes_ok", 1)
				rep.Nontrivial(fmt.Sprintf("probe|%s|s%v|L%d|live%d|seed%d", tc.Kind, tc.Stream, L, live, tc.Seed))
				if live > 0 {
					rep.Count("capacity_probes_with_live_conns", 1)
				}
			}
		case err := <-pc.done:
			pc.done <- err
			rep.Violation("capacity-probe-failed-"+tc.Kind, fmt.Sprintf("the overflow probe query failed instead of opening a connection: %v", err), wit)
		case <-time.After(5 * time.Second):
			rep.Inconclusive("probe %+v: overflow query never reached a connection", tc)
		}
	}
	for _, pc := range probes {
		w.release(pc.seq)
	}
	for _, pc := range probes {
		select {
		case <-pc.done:
		case <-time.After(10 * time.Second):
			rep.Inconclusive("probe %+v: call did not return after release", tc)
		}
		pc.cancel()
	}
}

// ---------- phase C: early reservations while the dial is held ----------

func early(tc tcase) {
	caselog.Log(tc)
	defer timed("early-" + tc.Kind)()
	setup(tc)
	w := newWorld(tc.Stream, tc.Seed)
	dc := &dialCtl{gate: make(chan struct{})}
	t := newPipeline(w, tc.L, dc)
	defer t.Close()
	k := tc.N // <= L early callers
	var pcs []*pendingCall
	for i := 0; i < k; i++ {
		pcs = append(pcs, issue(w, t, "reply", 10*time.Second))
	}
	// wait until all k are parked as early reservations on the one dialing connection
	deadline := time.Now().Add(3 * time.Second)
	for time.Now().Before(deadline) {
		_, cs := t.VerifSnapshot()
		if len(cs) == 1 && cs[0].LazyReserved == k {
			break
		}
		time.Sleep(100 * time.Microsecond)
	}
	_, cs := t.VerifSnapshot()
	if len(cs) != 1 || cs[0].LazyReserved != k || !cs[0].Dialing {
		rep.Inconclusive("early %+v: could not park %d early reservations on one dialing connection (%+v)", tc, k, cs)
		close(dc.gate)
		for _, pc := range pcs {
			<-pc.done
			pc.cancel()
		}
		return
	}
	// optionally race late (post-dial) callers against the early ones
	close(dc.gate)
	var late []*pendingCall
	if tc.Phase == "early+late" {
		for i := 0; i < 1+int(tc.Seed%3); i++ {
			late = append(late, issue(w, t, "reply", 10*time.Second))
		}
	}
	rep.Eval(1)
	failed := 0
	var errs []string
	for _, pc := range pcs {
		if err := <-pc.done; err != nil {
			failed++
			if len(errs) < 3 {
				errs = append(errs, err.Error())
			}
		}
		pc.cancel()
	}
	for _, pc := range late {
		<-pc.done
		pc.cancel()
	}
	wit := map[string]any{"case": tc, "early_callers": k, "failed": failed, "errors": errs, "conns": len(w.net.Conns())}
	if failed > 0 {
		rep.Violation("early-reservation-refused-after-dial", fmt.Sprintf("%d of %d queries queued while the connection was dialing failed (%v) although the dial succeeded with an equal limit %d", failed, k, errs, tc.L), wit)
	} else {
		rep.Count("early_phases_ok", 1)
		rep.Nontrivial(fmt.Sprintf("early|%s|L%d|k%d|p%v", tc.Phase, tc.L, k, tc.Perturb))
	}
}

// ---------- phase D: bare connection reserve / withdraw / exchange ----------

func bare(tc tcase) {
	caselog.Log(tc)
	defer timed("bare-" + tc.Kind)()
	setup(tc)
	w := newWorld(tc.Stream, tc.Seed)
	c := w.newConn()
	dc := transport.NewDnsConn(transport.TraditionalDnsConnOpts{WithLengthHeader: tc.Stream, IdleTimeout: 30 * time.Second, MaxConcurrentQuery: tc.L}, c)
	defer dc.Close()
	rng := rand.New(rand.NewSource(tc.Seed))
	var wg sync.WaitGroup
	for g := 0; g < 1+rng.Intn(8); g++ {
		wg.Add(1)
		grng := rand.New(rand.NewSource(tc.Seed + int64(g)*31))
		go func() {
			defer wg.Done()
			for i := 0; i < 30; i++ {
				rx, closed := dc.ReserveNewQuery()
				if closed {
					return
				}
				if rx == nil {
					runtime.Gosched()
					continue
				}
				switch grng.Intn(4) {
				case 0:
					rx.WithdrawReserved()
					rep.Count("bare_withdraw", 1)
				case 1:
					seq := int(seqCtr.Add(1))
					w.register(seq, "hold")
					ctx, cancel := context.WithTimeout(context.Background(), time.Duration(1+grng.Intn(3))*time.Millisecond)
					r, err := rx.ExchangeReserved(ctx, dnsadv.Query(uint16(seq), seq, 1, "c09", 1))
					cancel()
					if err == nil {
						pool.ReleaseBuf(r)
					}
					rep.Count("bare_exchange_timeout", 1)
				default:
					seq := int(seqCtr.Add(1))
					w.register(seq, "reply")
					ctx, cancel := context.WithTimeout(context.Background(), 5*time.Second)
					r, err := rx.ExchangeReserved(ctx, dnsadv.Query(uint16(seq), seq, 1, "c09", 1))
					cancel()
					if err == nil {
						pool.ReleaseBuf(r)
					}
					rep.Count("bare_exchange_ok", 1)
				}
				if res, q, _, _ := dc.VerifCounters(); res < 0 || q < 0 {
					rep.Violation("counter-negative-tdc", fmt.Sprintf("reserved=%d queued=%d", res, q), map[string]any{"case": tc})
				}
			}
		}()
	}
	wg.Wait()
	rep.Eval(1)
	res, q, lim, closed := dc.VerifCounters()
	wit := map[string]any{"case": tc, "reserved": res, "queued": q, "limit": lim}
	if closed {
		rep.Inconclusive("bare %+v: connection closed during history", tc)
		return
	}
	if res != 0 || q != 0 {
		rep.Violation("leak-reserved-or-queued-tdc", fmt.Sprintf("quiescent bare connection holds reserved=%d queued=%d", res, q), wit)
		return
	}
	// a used-then-quiescent connection admits exactly as many as a fresh one: L in-flight queries
	var pcs []*pendingCall
	admitted := 0
	for i := 0; i < tc.L+2; i++ {
		rx, _ := dc.ReserveNewQuery()
		if rx == nil {
			break
		}
		admitted++
		seq := int(seqCtr.Add(1))
		pc := &pendingCall{seq: seq, seen: w.register(seq, "hold"), done: make(chan error, 1)}
		ctx, cancel := context.WithTimeout(context.Background(), 20*time.Second)
		pc.cancel = cancel
		go func() {
			r, err := rx.ExchangeReserved(ctx, dnsadv.Query(uint16(seq), seq, 1, "c09", 1))
			if err == nil {
				pool.ReleaseBuf(r)
			}
			pc.done <- err
		}()
		select {
		case <-pc.seen:
		case <-time.After(5 * time.Second):
		}
		pcs = append(pcs, pc)
	}
	wit["admitted_in_flight"] = admitted
	if admitted != tc.L {
		kind := "capacity-lost-tdc"
		if admitted > tc.L {
			kind = "limit-exceeded-tdc"
		}
		rep.Violation(kind, fmt.Sprintf("a quiescent connection with limit %d admitted %d concurrently unanswered queries", tc.L, admitted), wit)
	} else {
		rep.Count("bare_probes_ok", 1)
		rep.Nontrivial(fmt.Sprintf("bare|s%v|L%d|seed%d", tc.Stream, tc.L, tc.Seed))
	}
	for _, pc := range pcs {
		w.release(pc.seq)
	}
	for _, pc := range pcs {
		select {
		case <-pc.done:
		case <-time.After(10 * time.Second):
		}
		pc.cancel()
	}
}

// qidExhaustion: 100 queries with consecutive wire IDs stay unanswered while
// 65436 others pass, so the 16-bit ID counter wraps onto that block and the next
// query cannot be given an ID (it fails with "too many queries": original
// behaviour). Whatever happens to that query, its reservation must be released:
// at quiescence the counters are zero and the connection admits its full limit.
func qidExhaustion(seed int64) {
	tc := tcase{Kind: "tdc", Stream: false, L: 4096, Seed: seed, Phase: "qid-exhaustion"}
	caselog.Log(tc)
	defer timed("qid-exhaustion")()
	runtime.GOMAXPROCS(16)
	sched.NoPerturb()
	w := newWorld(false, seed)
	c := w.newConn()
	dc := transport.NewDnsConn(transport.TraditionalDnsConnOpts{WithLengthHeader: false, IdleTimeout: 60 * time.Second, MaxConcurrentQuery: tc.L}, c)
	defer dc.Close()
	exchange := func(mode string, timeout time.Duration) *pendingCall {
		rx, _ := dc.ReserveNewQuery()
		if rx == nil {
			return nil
		}
		seq := int(seqCtr.Add(1))
		pc := &pendingCall{seq: seq, seen: w.register(seq, mode), done: make(chan error, 1)}
		ctx, cancel := context.WithTimeout(context.Background(), timeout)
		pc.cancel = cancel
		go func() {
			r, err := rx.ExchangeReserved(ctx, dnsadv.Query(uint16(seq), seq, 1, "c09", 1))
			if err == nil {
				pool.ReleaseBuf(r)
			}
			pc.done <- err
		}()
		return pc
	}
	var held []*pendingCall
	for i := 0; i < 100; i++ {
		pc := exchange("hold", 120*time.Second)
		if pc == nil {
			rep.Inconclusive("qid-exhaustion: reservation refused while holding")
			return
		}
		select {
		case <-pc.seen:
		case <-time.After(5 * time.Second):
			rep.Inconclusive("qid-exhaustion: held query never written")
			return
		}
		held = append(held, pc)
	}
	var wg sync.WaitGroup
	const fill = 65436
	for g := 0; g < 4; g++ {
		wg.Add(1)
		go func() {
			defer wg.Done()
			for i := 0; i < fill/4; i++ {
				pc := exchange("reply", 10*time.Second)
				if pc != nil {
					<-pc.done
					pc.cancel()
				}
			}
		}()
	}
	wg.Wait()
	// the ID counter now sits on the held block: these queries cannot get an ID
	failedNoID := 0
	for i := 0; i < 3; i++ {
		pc := exchange("reply", 2*time.Second)
		if pc == nil {
			continue
		}
		if err := <-pc.done; err != nil {
			failedNoID++
		}
		pc.cancel()
	}
	rep.Eval(1)
	// conservation: the 100 held queries are still unanswered on the wire, so the
	// connection must still count exactly 100 waiting queries (an admission counter
	// that has lost one of them admits more than the limit)
	if _, q, _, closed := dc.VerifCounters(); !closed && q != len(held) {
		rep.Violation("waiting-count-differs-from-unanswered-after-wire-id-wrap", fmt.Sprintf("%d queries are unanswered on the connection but it counts %d waiting queries after the wire-ID counter wrapped onto their IDs", len(held), q), map[string]any{"case": tc})
		for _, pc := range held {
			w.release(pc.seq)
			pc.cancel()
		}
		return
	}
	for _, pc := range held {
		w.release(pc.seq)
	}
	for _, pc := range held {
		select {
		case <-pc.done:
		case <-time.After(10 * time.Second):
		}
		pc.cancel()
	}
	res, q, lim, closed := dc.VerifCounters()
	wit := map[string]any{"case": tc, "queries_that_could_not_get_a_wire_id": failedNoID, "reserved": res, "queued": q, "limit": lim}
	rep.Count("qid_exhaustion_queries_refused_an_id", int64(failedNoID))
	if closed {
		rep.Inconclusive("qid-exhaustion: connection closed")
		return
	}
	if res != 0 || q != 0 {
		rep.Violation("leak-reserved-after-wire-id-exhaustion", fmt.Sprintf("after %d queries failed to obtain a wire ID (100 consecutive IDs were in use) the idle connection still counts reserved=%d queued=%d: capacity leaked", failedNoID, res, q), wit)
		return
	}
	if failedNoID > 0 {
		rep.Nontrivial("qid-exhaustion|refused-and-released")
	}
	rep.Count("qid_exhaustion_scenarios_ok", 1)
}

func main() {
	rep = evid.New("C09", "exploration")
	caselog = evid.OpenCaseLog()
	poolsan.Install(func(r poolsan.Report) {
		rep.Violation("poolsan-"+r.Kind, "buffer-pool sanitizer: "+r.Kind+": "+r.Info, map[string]any{"stack": r.Stack})
	})
	rep.SetRule("cases: barrier phases (N withheld queries, limit L, exact ceil(N/L) connections and <= L per connection), random histories of reply/cancel/deadline/write-error/peer-close/dial-failure followed by the conservation invariant (VerifSnapshot under mosdns' own locks) and a capacity probe (live*L withheld queries without a new dial, then one more must dial), early-reservation phases with the dial held, bare-connection reserve/withdraw/exchange histories + probe, single-driver admission ledgers on one connection (reserve / refused at the limit / withdraw / start / completed / failed / cancelled in scripted fill-refuse-giveback-retake rounds per give-back route and in random orders, directly and with the connection owned by a PipelineTransport; oracle after every step: below the limit a reservation must be admitted); non-trivial = a phase that completed its oracle (distinct by kind, framing, limit, N / live connections, seed)")
	rep.Assume("the adversary withholds replies in barrier/probe phases, so 'seen on the connection' implies 'concurrently unanswered'")

	if rep.ReplayFile != "" {
		var c struct {
			Case tcase `json:"case"`
		}
		if err := rep.LoadReplay(&c); err != nil {
			fmt.Println("cannot load replay:", err)
			os.Exit(3)
		}
		for i := 0; i < 10; i++ {
			switch c.Case.Phase {
			case "barrier":
				barrier(c.Case)
			case "history":
				history(c.Case)
			case "bare":
				bare(c.Case)
			case "ledger-random":
				ledgerCase(c.Case)
			default:
				if strings.HasPrefix(c.Case.Phase, "ledger-route:") {
					ledgerCase(c.Case)
					continue
				}
				early(c.Case)
			}
		}
		rep.Finish()
	}

	rng := rand.New(rand.NewSource(rep.Seed))
	limits := []int{1, 2, 4, 8, 64}
	procs := []int{1, 2, 16}
	// A: barrier
	for round := 0; round < rep.Pick(6, 30); round++ {
		for _, L := range limits {
			for _, stream := range []bool{true, false} {
				n := 1 + rng.Intn(6*L)
				if n > 160 {
					n = 160
				}
				if (n+L-1)/L > 8 {
					n = 8 * L // stay below the transport's 16-connection scan cap
				}
				barrier(tcase{Kind: "pipeline", Stream: stream, L: L, N: n, Seed: rng.Int63n(1 << 40), Phase: "barrier", Procs: procs[rng.Intn(3)], Perturb: rng.Intn(2) == 0})
			}
		}
		barrier(tcase{Kind: "reuse", Stream: true, L: 1, N: 1 + rng.Intn(24), Seed: rng.Int63n(1 << 40), Phase: "barrier", Procs: procs[rng.Intn(3)]})
	}
	// C: early reservations
	for round := 0; round < rep.Pick(10, 60); round++ {
		for _, L := range limits {
			for _, ph := range []string{"early", "early+late"} {
				k := L
				if rng.Intn(3) == 0 {
					k = 1 + rng.Intn(L)
				}
				early(tcase{Kind: "pipeline", Stream: rng.Intn(2) == 0, L: L, N: k, Seed: rng.Int63n(1 << 40), Phase: ph, Procs: procs[rng.Intn(3)], Perturb: rng.Intn(2) == 0})
			}
		}
	}
	// B: histories
	for i := 0; i < rep.Pick(400, 6000); i++ {
		kind := "pipeline"
		if i%5 == 4 {
			kind = "reuse"
		}
		history(tcase{Kind: kind, Stream: kind == "reuse" || rng.Intn(2) == 0, L: limits[rng.Intn(len(limits))], Seed: rng.Int63n(1 << 40), Phase: "history", Procs: procs[rng.Intn(3)], Perturb: rng.Intn(2) == 0})
	}
	// D: bare connection
	for i := 0; i < rep.Pick(200, 3000); i++ {
		bare(tcase{Kind: "tdc", Stream: rng.Intn(2) == 0, L: limits[rng.Intn(len(limits))], Seed: rng.Int63n(1 << 40), Phase: "bare", Procs: procs[rng.Intn(3)], Perturb: rng.Intn(2) == 0})
	}
	// E: admission ledger on one connection (ledger.go)
	ledgerPhase(rng, limits, procs)
	qidExhaustion(rep.Seed)
	runtime.GOMAXPROCS(16)
	sched.NoPerturb()
	for i := 0; i < rep.Pick(4, 40); i++ {
		reuseSurplusStorm(rep.Seed*131+int64(i), 8, rep.Pick(250, 1000))
	}
	realUpstreams()
	sched.NoPerturb()
	for name, n := range sched.Counts() {
		rep.Count("hook:"+name, n)
	}
	if rep.Get("capacity_probes_with_live_conns") == 0 && rep.Violations() == 0 {
		rep.Inconclusive("no capacity probe ran against a live connection")
	}
	rep.Finish()
}
