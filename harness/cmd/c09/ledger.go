package main

// Phase E — admission ledger on ONE connection.
//
// A single-threaded driver runs a history that mixes every way capacity is
// taken and given back on one healthy connection:
//
//	reserve            ReserveNewQuery (admitted below the limit, REFUSED at it)
//	withdraw           WithdrawReserved without ever exchanging
//	start              a reserved query is written and its reply withheld
//	completed          a withheld reply is released / an exchange answered at once
//	failed             an exchange whose deadline expires (reply withheld)
//	cancelled          a waiting exchange is cancelled / an exchange whose context
//	                   is already cancelled
//
// Every operation is synchronous for the driver (it returns only after the
// connection has finished the step: the query was seen on the wire, or the
// exchange call has returned), so the driver knows at every step exactly how
// many reservations it holds (H) and how many of its queries are unanswered on
// the wire (F). The oracle after EVERY step is the admission decision itself:
//
//	H+F <  L  ->  ReserveNewQuery must admit (capacity is never lost)
//	H+F == L  ->  admitting is a violation iff L+1 queries then really are
//	              unanswered on the wire at once
//
// No counter of the tree is used for a verdict (they appear in the witness
// only). In "pipeline" mode the connection is owned by a PipelineTransport
// (the driver keeps the object its dial function returned): queries issued
// through the transport while the connection is below its limit must be carried
// by that connection; if the transport dials instead, the verdict is again taken
// from the connection's own admission decision (a transport that merely prefers
// to dial follows a policy the statement leaves open).

import (
	"context"
	"fmt"
	"math/rand"
	"strings"
	"sync"
	"time"

	"github.com/IrineSistiana/mosdns/v5/pkg/pool"
	"github.com/IrineSistiana/mosdns/v5/pkg/upstream/transport"

	"verifharness/lib/dnsadv"
	"verifharness/lib/fakenet"
)

var ledgerRoutes = []string{"withdraw", "completed", "completed-at-once", "failed-deadline", "cancelled-waiting", "cancelled-before"}

type ledger struct {
	tc   tcase
	L    int
	w    *world
	rng  *rand.Rand
	dc   *transport.TraditionalDnsConn
	pt   *transport.PipelineTransport
	conn *fakenet.Conn

	held []transport.ReservedExchanger
	fly  []*pendingCall

	trace       []string
	lastGive    string // route of the last give-back
	refusedOpen bool   // a refusal at the limit happened and no admission since
	giveSince   string // first give-back route after that refusal
	dead        bool   // history cannot continue (verdict taken / watchdog)
}

func (lg *ledger) out() int { return len(lg.held) + len(lg.fly) }

func (lg *ledger) log(format string, a ...any) {
	if len(lg.trace) < 400 {
		lg.trace = append(lg.trace, fmt.Sprintf(format, a...))
	}
}

func (lg *ledger) witness() map[string]any {
	res, q, lim, closed := lg.dc.VerifCounters()
	tr := lg.trace
	if len(tr) > 60 {
		tr = append([]string{fmt.Sprintf("… %d earlier steps …", len(tr)-60)}, tr[len(tr)-60:]...)
	}
	return map[string]any{"case": lg.tc, "limit": lg.L, "driver_holds_reservations": len(lg.held), "driver_queries_unanswered_on_wire": len(lg.fly),
		"tree_counters(witness only)": fmt.Sprintf("reserved=%d queued=%d limit=%d closed=%v", res, q, lim, closed), "history": tr}
}

func newLedger(tc tcase) *ledger {
	lg := &ledger{tc: tc, L: tc.L, w: newWorld(tc.Stream, tc.Seed), rng: rand.New(rand.NewSource(tc.Seed)), lastGive: "nothing"}
	opts := transport.TraditionalDnsConnOpts{WithLengthHeader: tc.Stream, IdleTimeout: 60 * time.Second, MaxConcurrentQuery: tc.L}
	if tc.Kind == "pipeline" {
		var mu sync.Mutex
		lg.pt = transport.NewPipelineTransport(transport.PipelineOpts{
			DialContext: func(ctx context.Context) (transport.DnsConn, error) {
				c := lg.w.newConn()
				dc := transport.NewDnsConn(opts, c)
				mu.Lock()
				if lg.dc == nil {
					lg.dc, lg.conn = dc, c
				}
				mu.Unlock()
				return dc, nil
			},
			MaxConcurrentQueryWhileDialing: tc.L,
		})
		// establish the connection with one answered query (so the lazy wrapper is on its fast path or gets there)
		pc := issue(lg.w, lg.pt, "reply", 10*time.Second)
		err := <-pc.done
		pc.cancel()
		mu.Lock()
		ok := lg.dc != nil
		mu.Unlock()
		if err != nil || !ok {
			rep.Inconclusive("ledger %+v: could not establish the connection through the transport: %v", tc, err)
			lg.dead = true
		}
		lg.log("pipeline: first query answered on the new connection")
	} else {
		lg.conn = lg.w.newConn()
		lg.dc = transport.NewDnsConn(opts, lg.conn)
	}
	return lg
}

func (lg *ledger) close() {
	for _, rx := range lg.held {
		rx.WithdrawReserved()
	}
	lg.held = nil
	for _, pc := range lg.fly {
		lg.w.release(pc.seq)
	}
	for _, pc := range lg.fly {
		select {
		case <-pc.done:
		case <-time.After(10 * time.Second):
		}
		pc.cancel()
	}
	lg.fly = nil
	if lg.pt != nil {
		lg.pt.Close()
	} else if lg.dc != nil {
		lg.dc.Close()
	}
}

func (lg *ledger) closedAbort(where string) {
	rep.Count("ledger_histories_aborted_connection_closed", 1)
	lg.log("%s: connection reported closed", where)
	lg.dead = true
}

// gave records that capacity came back by route.
func (lg *ledger) gave(route string) {
	lg.lastGive = route
	rep.Count("ledger_giveback:"+route, 1)
	if lg.refusedOpen && lg.giveSince == "" {
		lg.giveSince = route
	}
}

func (lg *ledger) admitted() {
	rep.Count("ledger_reserve_admitted", 1)
	if lg.refusedOpen && lg.giveSince != "" {
		rep.Count("ledger_refused_then_giveback_then_admitted:"+lg.giveSince, 1)
	}
	lg.refusedOpen, lg.giveSince = false, ""
}

// reserve asks the connection for a reservation and judges the decision.
func (lg *ledger) reserve() {
	if lg.dead {
		return
	}
	below := lg.out() < lg.L
	rx, closed := lg.dc.ReserveNewQuery()
	if closed {
		lg.closedAbort("reserve")
		return
	}
	rep.Count("ledger_admission_decisions_judged", 1)
	switch {
	case rx != nil && below:
		lg.held = append(lg.held, rx)
		lg.log("reserve -> admitted (now %d reserved + %d unanswered of %d)", len(lg.held), len(lg.fly), lg.L)
		lg.admitted()
	case rx == nil && !below:
		lg.log("reserve -> REFUSED at the limit (%d reserved + %d unanswered of %d)", len(lg.held), len(lg.fly), lg.L)
		rep.Count("ledger_reserve_refused_at_limit", 1)
		lg.refusedOpen, lg.giveSince = true, ""
	case rx == nil && below:
		lg.log("reserve -> REFUSED below the limit (%d reserved + %d unanswered of %d)", len(lg.held), len(lg.fly), lg.L)
		rep.Violation(fmt.Sprintf("capacity-lost-reserve-refused-below-limit-after-%s-%s", lg.lastGive, lg.tc.Kind),
			fmt.Sprintf("a healthy connection with limit %d on which the caller holds %d reservations and %d unanswered queries refused a new reservation; the last capacity given back was by '%s'", lg.L, len(lg.held), len(lg.fly), lg.lastGive), lg.witness())
		lg.dead = true
	default: // admitted at the limit: a violation iff L+1 queries are then unanswered on the wire at once
		lg.held = append(lg.held, rx)
		lg.log("reserve -> admitted AT the limit")
		for len(lg.held) > 0 && !lg.dead {
			lg.start()
		}
		if !lg.dead && len(lg.fly) > lg.L {
			rep.Violation("limit-exceeded-reservation-admitted-at-limit-"+lg.tc.Kind,
				fmt.Sprintf("a connection with limit %d admitted a reservation while full; %d queries are now unanswered on it at once", lg.L, len(lg.fly)), lg.witness())
		} else {
			rep.Count("ledger_admitted_at_limit_but_wire_stayed_within_limit(not judged)", 1)
		}
		lg.dead = true
	}
}

func (lg *ledger) takeHeld() transport.ReservedExchanger {
	i := lg.rng.Intn(len(lg.held))
	rx := lg.held[i]
	lg.held = append(lg.held[:i], lg.held[i+1:]...)
	return rx
}

func (lg *ledger) takeFly() *pendingCall {
	i := lg.rng.Intn(len(lg.fly))
	pc := lg.fly[i]
	lg.fly = append(lg.fly[:i], lg.fly[i+1:]...)
	return pc
}

func (lg *ledger) withdraw() {
	if lg.dead || len(lg.held) == 0 {
		return
	}
	lg.takeHeld().WithdrawReserved()
	lg.log("withdraw a reservation")
	lg.gave("withdraw")
}

// exchangeOn runs ExchangeReserved on rx in a goroutine.
func (lg *ledger) exchangeOn(rx transport.ReservedExchanger, mode string, ctx context.Context, cancel context.CancelFunc) *pendingCall {
	seq := int(seqCtr.Add(1))
	pc := &pendingCall{seq: seq, seen: lg.w.register(seq, mode), done: make(chan error, 1), cancel: cancel}
	q := dnsadv.Query(uint16(seq), seq, 1, "c09", 1)
	go func() {
		r, err := rx.ExchangeReserved(ctx, q)
		if err == nil {
			pool.ReleaseBuf(r)
		}
		pc.done <- err
	}()
	return pc
}

// start turns one held reservation into a query that is unanswered on the wire.
func (lg *ledger) start() {
	if lg.dead || len(lg.held) == 0 {
		return
	}
	ctx, cancel := context.WithTimeout(context.Background(), 60*time.Second)
	pc := lg.exchangeOn(lg.takeHeld(), "hold", ctx, cancel)
	select {
	case <-pc.seen:
		lg.fly = append(lg.fly, pc)
		lg.log("start: reserved query written, reply withheld")
	case err := <-pc.done:
		lg.log("start: exchange returned early: %v", err)
		rep.Count("ledger_histories_aborted_exchange_failed_early", 1)
		lg.dead = true
	case <-time.After(10 * time.Second):
		rep.Inconclusive("ledger %+v: a reserved query was not written within 10 s", lg.tc)
		lg.dead = true
	}
}

// viaTransport issues one withheld query through the PipelineTransport while the
// connection is below its limit.
func (lg *ledger) viaTransport() {
	if lg.dead || lg.pt == nil || lg.out() >= lg.L {
		return
	}
	pc := issue(lg.w, lg.pt, "hold", 60*time.Second)
	select {
	case <-pc.seen:
	case err := <-pc.done:
		pc.done <- err
		lg.log("transport query failed: %v", err)
		rep.Violation("capacity-lost-transport-query-failed-below-limit-after-"+lg.lastGive,
			fmt.Sprintf("a query issued through the transport failed (%v) although its only connection is healthy and holds %d of %d", err, lg.out(), lg.L), lg.witness())
		lg.dead = true
		return
	case <-time.After(10 * time.Second):
		rep.Inconclusive("ledger %+v: a transport query was not written within 10 s", lg.tc)
		lg.dead = true
		return
	}
	rep.Count("ledger_transport_queries", 1)
	if lg.w.connOf(pc.seq) == lg.conn {
		lg.fly = append(lg.fly, pc)
		lg.log("transport query carried by the existing connection (now %d reserved + %d unanswered of %d)", len(lg.held), len(lg.fly), lg.L)
		rep.Count("ledger_transport_reused_existing_connection", 1)
		lg.admitted()
		return
	}
	// the transport dialed: ask the connection itself
	lg.log("transport DIALED a new connection while the existing one held %d of %d", lg.out(), lg.L)
	rx, closed := lg.dc.ReserveNewQuery()
	switch {
	case closed:
		lg.closedAbort("after transport dial")
	case rx == nil:
		rep.Violation("capacity-lost-transport-dialed-because-healthy-connection-refused-below-limit-after-"+lg.lastGive,
			fmt.Sprintf("the transport opened a new connection because its healthy connection (limit %d, %d reservations + %d unanswered queries held) refuses reservations; the last capacity given back was by '%s'", lg.L, len(lg.held), len(lg.fly), lg.lastGive), lg.witness())
	default:
		rx.WithdrawReserved()
		rep.Count("ledger_transport_dialed_although_connection_admits(policy, not judged)", 1)
	}
	lg.w.release(pc.seq)
	select {
	case <-pc.done:
	case <-time.After(10 * time.Second):
	}
	pc.cancel()
	lg.dead = true
}

func (lg *ledger) finish(pc *pendingCall, what string) (error, bool) {
	select {
	case err := <-pc.done:
		pc.cancel()
		return err, true
	case <-time.After(10 * time.Second):
		rep.Inconclusive("ledger %+v: %s: exchange did not return within 10 s", lg.tc, what)
		lg.dead = true
		return nil, false
	}
}

func (lg *ledger) complete() {
	if lg.dead || len(lg.fly) == 0 {
		return
	}
	pc := lg.takeFly()
	lg.w.release(pc.seq)
	if err, ok := lg.finish(pc, "completed"); ok {
		lg.log("reply released, exchange returned err=%v", err)
		if err == nil {
			lg.gave("completed")
		} else {
			lg.gave("failed-other")
		}
	}
}

func (lg *ledger) cancelWaiting() {
	if lg.dead || len(lg.fly) == 0 {
		return
	}
	pc := lg.takeFly()
	pc.cancel()
	if _, ok := lg.finish(pc, "cancelled-waiting"); ok {
		lg.w.unhold(pc.seq)
		lg.log("waiting exchange cancelled")
		lg.gave("cancelled-waiting")
	}
}

func (lg *ledger) completeAtOnce() {
	if lg.dead || len(lg.held) == 0 {
		return
	}
	ctx, cancel := context.WithTimeout(context.Background(), 30*time.Second)
	pc := lg.exchangeOn(lg.takeHeld(), "reply", ctx, cancel)
	if err, ok := lg.finish(pc, "completed-at-once"); ok {
		lg.log("exchange answered at once err=%v", err)
		if err == nil {
			lg.gave("completed-at-once")
		} else {
			lg.gave("failed-other")
		}
	}
}

func (lg *ledger) failDeadline() {
	if lg.dead || len(lg.held) == 0 {
		return
	}
	ctx, cancel := context.WithTimeout(context.Background(), time.Duration(1+lg.rng.Intn(2))*time.Millisecond)
	pc := lg.exchangeOn(lg.takeHeld(), "hold", ctx, cancel)
	if err, ok := lg.finish(pc, "failed-deadline"); ok {
		lg.w.unhold(pc.seq)
		lg.log("exchange failed: %v", err)
		lg.gave("failed-deadline")
	}
}

func (lg *ledger) cancelledBefore() {
	if lg.dead || len(lg.held) == 0 {
		return
	}
	ctx, cancel := context.WithCancel(context.Background())
	cancel()
	pc := lg.exchangeOn(lg.takeHeld(), "hold", ctx, cancel)
	if err, ok := lg.finish(pc, "cancelled-before"); ok {
		lg.w.unhold(pc.seq)
		lg.log("exchange with an already cancelled context returned %v", err)
		lg.gave("cancelled-before")
	}
}

// give gives one unit of capacity back by route; false if the route is not
// available in the current state.
func (lg *ledger) give(route string) bool {
	needFly := route == "completed" || route == "cancelled-waiting"
	if lg.dead || (needFly && len(lg.fly) == 0) || (!needFly && len(lg.held) == 0) {
		return false
	}
	switch route {
	case "withdraw":
		lg.withdraw()
	case "completed":
		lg.complete()
	case "completed-at-once":
		lg.completeAtOnce()
	case "failed-deadline":
		lg.failDeadline()
	case "cancelled-waiting":
		lg.cancelWaiting()
	case "cancelled-before":
		lg.cancelledBefore()
	}
	return true
}

// take takes one unit of capacity (below the limit): a direct reservation, or in
// pipeline mode sometimes a query through the transport.
func (lg *ledger) take() {
	if lg.pt != nil && lg.out() < lg.L && lg.rng.Intn(2) == 0 {
		lg.viaTransport()
		return
	}
	lg.reserve()
}

// ledgerCase runs one history. Phase "ledger-random": tc.N random steps.
// Phase "ledger-route:<route>": fill to the limit, get refused, give k back by
// <route>, take k again (all must be admitted), get refused again; then the same
// with the other routes in rotation.
func ledgerCase(tc tcase) {
	caselog.Log(tc)
	defer timed("ledger-" + tc.Kind)()
	setup(tc)
	lg := newLedger(tc)
	defer lg.close()
	if lg.dead {
		return
	}
	rep.Eval(1)
	if route, ok := strings.CutPrefix(tc.Phase, "ledger-route:"); ok {
		first := 0
		for i, r := range ledgerRoutes {
			if r == route {
				first = i
			}
		}
		rounds := 1 + lg.rng.Intn(len(ledgerRoutes))
		for round := 0; round < rounds && !lg.dead; round++ {
			r := ledgerRoutes[(first+round)%len(ledgerRoutes)]
			needFly := r == "completed" || r == "cancelled-waiting"
			for lg.out() < lg.L && !lg.dead {
				lg.take()
			}
			k := 1 + lg.rng.Intn(lg.L)
			if k > 8 {
				k = 8
			}
			// bring k units into the state the route needs
			if needFly {
				for len(lg.fly) < k && !lg.dead {
					lg.start()
				}
			} else if len(lg.held) < k {
				// too many already on the wire (taken through the transport): complete some, re-reserve directly
				for len(lg.held) < k && len(lg.fly) > 0 && !lg.dead {
					lg.complete()
					lg.reserve()
				}
			}
			// some of the others go on the wire too
			for n := lg.rng.Intn(lg.L - k + 1); n > 0 && len(lg.held) > 0 && !lg.dead; n-- {
				if needFly || len(lg.held) > k {
					lg.start()
				}
			}
			lg.reserve() // refused: at the limit
			if lg.rng.Intn(3) == 0 {
				lg.reserve() // refused twice
			}
			gave := 0
			for i := 0; i < k && !lg.dead; i++ {
				if lg.give(r) {
					gave++
				}
			}
			for i := 0; i < gave && !lg.dead; i++ {
				lg.take() // must be admitted
			}
			lg.reserve() // refused again
		}
	} else {
		for i := 0; i < tc.N && !lg.dead; i++ {
			x := lg.rng.Intn(100)
			switch {
			case x < 34:
				lg.take()
			case x < 42:
				lg.reserve()
			case x < 54:
				lg.withdraw()
			case x < 66:
				lg.start()
			case x < 74:
				lg.complete()
			case x < 80:
				lg.cancelWaiting()
			case x < 87:
				lg.completeAtOnce()
			case x < 92:
				lg.failDeadline()
			case x < 96:
				lg.cancelledBefore()
			default:
				// burst: take until refused
				for lg.out() < lg.L && !lg.dead {
					lg.take()
				}
				lg.reserve()
			}
		}
		// drain by random routes, then the connection must admit exactly L again
		for lg.out() > 0 && !lg.dead {
			if !lg.give(ledgerRoutes[lg.rng.Intn(len(ledgerRoutes))]) {
				continue
			}
		}
		for lg.out() < lg.L && !lg.dead {
			lg.reserve()
		}
		lg.reserve()
	}
	if !lg.dead {
		rep.Count("ledger_histories_ok", 1)
		rep.Count("ledger_steps", int64(len(lg.trace)))
		rep.Nontrivial(fmt.Sprintf("ledger|%s|%s|s%v|L%d|seed%d", tc.Phase, tc.Kind, tc.Stream, tc.L, tc.Seed))
		if rep.WantSample() && tc.L <= 4 {
			rep.Sample(lg.witness())
		}
	}
}

func ledgerPhase(rng *rand.Rand, limits, procs []int) {
	for rep0 := 0; rep0 < rep.Pick(1, 6); rep0++ {
		for _, L := range limits {
			for _, route := range ledgerRoutes {
				for _, kind := range []string{"tdc", "pipeline"} {
					ledgerCase(tcase{Kind: kind, Stream: rng.Intn(2) == 0, L: L, Seed: rng.Int63n(1 << 40), Phase: "ledger-route:" + route, Procs: procs[rng.Intn(3)], Perturb: rng.Intn(4) == 0})
				}
			}
		}
	}
	for i := 0; i < rep.Pick(120, 2000); i++ {
		kind := "tdc"
		if i%2 == 1 {
			kind = "pipeline"
		}
		ledgerCase(tcase{Kind: kind, Stream: rng.Intn(2) == 0, L: limits[rng.Intn(len(limits))], N: 20 + rng.Intn(100), Seed: rng.Int63n(1 << 40), Phase: "ledger-random", Procs: procs[rng.Intn(3)], Perturb: rng.Intn(4) == 0})
	}
	if rep.Violations() == 0 {
		for _, r := range ledgerRoutes {
			if rep.Get("ledger_refused_then_giveback_then_admitted:"+r) == 0 {
				rep.Inconclusive("ledger: no history observed 'refused at the limit, capacity given back by %s, admitted again'", r)
			}
		}
	}
}
