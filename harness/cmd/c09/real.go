package main

// The limits as upstream.NewUpstream configures them (the fake-connection phases
// build their transports with options of their own and never see that code):
// real tcp+pipeline / tls+pipeline upstreams against a loopback server that
// withholds every reply, so "received by the server" means "concurrently
// unanswered".
//
//   dial burst   (tls): the server delays the TLS handshake; N callers arrive
//                meanwhile and queue on the dialing connections. Once the
//                handshakes complete every queued query must be sent on the
//                connection it queued on: no further connection is opened and
//                no call fails ("queries queued while a connection was dialing
//                are not refused once the dial succeeds").
//   established  (tcp, tls): Q = the largest number of queries one connection
//                accepted from its dial queue. Q callers, started one after the
//                other on an established connection, must all be carried by
//                that one connection ("a healthy connection holding fewer
//                unanswered queries than its limit admits another one").

import (
	"context"
	"crypto/tls"
	"encoding/binary"
	"fmt"
	"io"
	"net"
	"sync"
	"sync/atomic"
	"time"

	"github.com/IrineSistiana/mosdns/v5/pkg/pool"
	"github.com/IrineSistiana/mosdns/v5/pkg/upstream"
	"github.com/IrineSistiana/mosdns/v5/pkg/upstream/transport"

	"verifharness/lib/dnsadv"
	"verifharness/lib/fakenet"
	"verifharness/lib/loopnet"
	"verifharness/lib/wire"
)

type holdServer struct {
	ln        net.Listener
	tlsCfg    *tls.Config   // nil: plain tcp
	hsRelease chan struct{} // closed: handshakes may proceed
	answer    chan struct{} // closed: replies are sent
	accepted  atomic.Int64
	received  atomic.Int64
	mu        sync.Mutex
	perConn   map[int]int
	conns     []net.Conn
}

func newHoldServer(tlsCfg *tls.Config) (*holdServer, error) {
	ln, err := net.Listen("tcp", "127.0.0.1:0")
	if err != nil {
		return nil, err
	}
	s := &holdServer{ln: ln, tlsCfg: tlsCfg, hsRelease: make(chan struct{}), answer: make(chan struct{}), perConn: map[int]int{}}
	go func() {
		for {
			c, err := ln.Accept()
			if err != nil {
				return
			}
			id := int(s.accepted.Add(1))
			s.mu.Lock()
			s.conns = append(s.conns, c)
			s.mu.Unlock()
			go s.serve(c, id)
		}
	}()
	return s, nil
}

func (s *holdServer) serve(raw net.Conn, id int) {
	var c net.Conn = raw
	if s.tlsCfg != nil {
		<-s.hsRelease
		tc := tls.Server(raw, s.tlsCfg)
		if err := tc.Handshake(); err != nil {
			raw.Close()
			return
		}
		c = tc
	}
	var wmu sync.Mutex
	for {
		hdr := make([]byte, 2)
		if _, err := io.ReadFull(c, hdr); err != nil {
			return
		}
		q := make([]byte, binary.BigEndian.Uint16(hdr))
		if _, err := io.ReadFull(c, q); err != nil {
			return
		}
		qi, err := dnsadv.ParseQuery(q)
		if err != nil {
			continue
		}
		s.mu.Lock()
		s.perConn[id]++
		s.mu.Unlock()
		s.received.Add(1)
		go func() {
			<-s.answer
			r := dnsadv.Reply(qi.WireID, 0x8180, qi.QSect, fmt.Sprintf("c09real/%d", qi.Seq), 0, 0)
			f := make([]byte, 2+len(r))
			binary.BigEndian.PutUint16(f, uint16(len(r)))
			copy(f[2:], r)
			wmu.Lock()
			c.Write(f)
			wmu.Unlock()
		}()
	}
}

func (s *holdServer) close() {
	s.ln.Close()
	s.mu.Lock()
	for _, c := range s.conns {
		c.Close()
	}
	s.mu.Unlock()
}

func (s *holdServer) maxPerConn() (max int, dist []int) {
	s.mu.Lock()
	defer s.mu.Unlock()
	for _, n := range s.perConn {
		dist = append(dist, n)
		if n > max {
			max = n
		}
	}
	return
}

// waitStable waits until f() has not changed for `quiet` (at most `limit`).
func waitStable(f func() int64, quiet, limit time.Duration) int64 {
	end := time.Now().Add(limit)
	last, since := f(), time.Now()
	for time.Now().Before(end) {
		time.Sleep(10 * time.Millisecond)
		if v := f(); v != last {
			last, since = v, time.Now()
		} else if time.Since(since) >= quiet {
			break
		}
	}
	return last
}

type realCall struct {
	done chan struct{}
	err  error
}

func realIssue(u upstream.Upstream, ctx context.Context) *realCall {
	rc := &realCall{done: make(chan struct{})}
	seq := int(seqCtr.Add(1))
	q := dnsadv.Query(uint16(seq), seq, 1, "c09", 1)
	go func() {
		r, err := u.ExchangeContext(ctx, q)
		rc.err = err
		if err == nil {
			pool.ReleaseBuf(r)
		}
		close(rc.done)
	}()
	return rc
}

func realCollect(name string, calls []*realCall, wit map[string]any) {
	failed := 0
	var firstErr error
	for _, c := range calls {
		select {
		case <-c.done:
			if c.err != nil {
				failed++
				if firstErr == nil {
					firstErr = c.err
				}
			}
		case <-time.After(20 * time.Second):
			rep.Inconclusive("real %s: a call did not return 20 s after the server answered everything", name)
			return
		}
	}
	rep.Count("real_calls_answered", int64(len(calls)-failed))
	if failed > 0 {
		wit["first_error"] = firstErr.Error()
		rep.Violation("real-"+name+"-query-refused-by-healthy-upstream", fmt.Sprintf("%d of %d queries failed although the server accepted every connection and answered every query it received: %v", failed, len(calls), firstErr), wit)
	}
}

func realUpstreams() {
	pki, err := loopnet.NewPKI([]net.IP{net.ParseIP("127.0.0.1")}, []string{"localhost"})
	if err != nil {
		rep.Inconclusive("real upstreams: pki: %v", err)
		return
	}
	opt := upstream.Opt{TLSConfig: &tls.Config{RootCAs: pki.Pool}}
	Q := 0
	// ---- dial burst (tls+pipeline, and tls with enable_pipeline) ----
	for _, variant := range []string{"tls+pipeline", "tls/enable_pipeline"} {
		for _, n := range []int{40, 150} {
			srv, err := newHoldServer(&tls.Config{Certificates: []tls.Certificate{pki.Cert}})
			if err != nil {
				rep.Inconclusive("real upstreams: listen: %v", err)
				return
			}
			o := opt
			url := "tls+pipeline://" + srv.ln.Addr().String()
			if variant == "tls/enable_pipeline" {
				url = "tls://" + srv.ln.Addr().String()
				o.EnablePipeline = true
			}
			u, err := upstream.NewUpstream(url, o)
			if err != nil {
				rep.Inconclusive("real upstreams: NewUpstream(%s): %v", url, err)
				srv.close()
				return
			}
			caselog.Log(map[string]any{"real_dial_burst": variant, "n": n})
			rep.Eval(1)
			ctx, cancel := context.WithTimeout(context.Background(), 30*time.Second)
			var calls []*realCall
			for i := 0; i < n; i++ {
				calls = append(calls, realIssue(u, ctx))
			}
			dialPhase := waitStable(srv.accepted.Load, 300*time.Millisecond, 4*time.Second)
			close(srv.hsRelease)
			// every caller's query reaches the server (or the count stops moving)
			end := time.Now().Add(10 * time.Second)
			for srv.received.Load() < int64(n) && time.Now().Before(end) {
				time.Sleep(10 * time.Millisecond)
			}
			waitStable(srv.received.Load, 200*time.Millisecond, 3*time.Second)
			total := srv.accepted.Load()
			max, dist := srv.maxPerConn()
			wit := map[string]any{"variant": variant, "callers": n, "connections_opened_while_dialing": dialPhase, "connections_total": total, "queries_per_connection": dist}
			rep.Max("real_dial_queue_per_connection:"+variant, int64(max))
			if dialPhase < 1 {
				rep.Inconclusive("real dial burst %s: no connection was opened", variant)
			} else if total > dialPhase {
				rep.Violation("real-queued-queries-moved-to-new-connection-"+variant, fmt.Sprintf("%d callers queued on %d dialing connection(s); after the dials succeeded %d more connection(s) were opened: queued queries were refused by the connection they waited for", n, dialPhase, total-dialPhase), wit)
			} else {
				rep.Count("real_dial_bursts_held", 1)
				rep.Nontrivial(fmt.Sprintf("real-dial-burst|%s|n%d|conns%d|max%d", variant, n, total, max))
			}
			if max > Q {
				Q = max
			}
			close(srv.answer)
			realCollect("dial-burst-"+variant, calls, wit)
			cancel()
			u.Close()
			srv.close()
		}
	}
	if Q < 2 {
		return
	}
	// ---- established connection ----
	for _, scheme := range []string{"tcp+pipeline", "tls+pipeline"} {
		var tcfg *tls.Config
		if scheme == "tls+pipeline" {
			tcfg = &tls.Config{Certificates: []tls.Certificate{pki.Cert}}
		}
		srv, err := newHoldServer(tcfg)
		if err != nil {
			rep.Inconclusive("real upstreams: listen: %v", err)
			return
		}
		close(srv.hsRelease)
		u, err := upstream.NewUpstream(scheme+"://"+srv.ln.Addr().String(), opt)
		if err != nil {
			rep.Inconclusive("real upstreams: NewUpstream(%s): %v", scheme, err)
			srv.close()
			return
		}
		caselog.Log(map[string]any{"real_established": scheme, "q": Q})
		rep.Eval(1)
		ctx, cancel := context.WithTimeout(context.Background(), 30*time.Second)
		var calls []*realCall
		stalled := false
		for i := 0; i < Q; i++ {
			calls = append(calls, realIssue(u, ctx))
			end := time.Now().Add(10 * time.Second)
			for srv.received.Load() < int64(i+1) && time.Now().Before(end) {
				time.Sleep(time.Millisecond)
			}
			if srv.received.Load() < int64(i+1) {
				stalled = true
				break
			}
		}
		total := srv.accepted.Load()
		_, dist := srv.maxPerConn()
		wit := map[string]any{"scheme": scheme, "unanswered_queries": len(calls), "limit_observed_from_dial_queue": Q, "connections_total": total, "queries_per_connection": dist}
		switch {
		case stalled:
			rep.Violation("real-established-query-never-sent-"+scheme, fmt.Sprintf("query #%d (fewer unanswered queries than the limit %d) did not reach the server within 10 s", len(calls), Q), wit)
		case total > 1:
			rep.Violation("real-established-connection-refused-below-limit-"+scheme, fmt.Sprintf("%d unanswered queries (the dial queue admits %d per connection) were spread over %d connections: a healthy connection below its limit refused a query", len(calls), Q, total), wit)
		default:
			rep.Count("real_established_held", 1)
			rep.Nontrivial(fmt.Sprintf("real-established|%s|q%d", scheme, Q))
		}
		close(srv.answer)
		realCollect("established-"+scheme, calls, wit)
		cancel()
		u.Close()
		srv.close()
	}
}

// reuseSurplusStorm: a non-pipelined transport against a server that answers
// every query twice. A surplus reply must never give a connection that is in use
// back to the pool (limit 1): the pool's own snapshot must never show an idle
// connection that carries a query, and mosdns' own "concurrent exchange calls"
// assertion must never fire (a panic is reported by the driver). Which reply a
// caller gets is not judged here (one reply per query is the stated scope of the
// non-pipelined transport).
func reuseSurplusStorm(seed int64, callers, perCaller int) {
	caselog.Log(map[string]any{"reuse_surplus_storm": seed, "callers": callers, "per_caller": perCaller})
	net := fakenet.NewNet()
	var mu sync.Mutex
	defr := map[*fakenet.Conn]*wire.Deframer{}
	t := transport.NewReuseConnTransport(transport.ReuseConnOpts{
		IdleTimeout: 30 * time.Second,
		DialContext: func(ctx context.Context) (transport.NetConn, error) {
			c := net.NewConn(true)
			mu.Lock()
			defr[c] = &wire.Deframer{}
			mu.Unlock()
			c.OnWrite = func(c *fakenet.Conn, data []byte) error {
				mu.Lock()
				msgs := defr[c].Feed(data)
				mu.Unlock()
				for _, m := range msgs {
					qi, err := dnsadv.ParseQuery(m)
					if err != nil {
						continue
					}
					r := wire.Frame(dnsadv.Reply(qi.WireID, 0x8180, qi.QSect, fmt.Sprintf("storm/%d", qi.Seq), 0, 0))
					c.Inject(r)
					c.Inject(r) // the surplus copy
				}
				return nil
			}
			return c, nil
		},
	})
	stop := make(chan struct{})
	var sw sync.WaitGroup
	sw.Add(1)
	go func() {
		defer sw.Done()
		for {
			select {
			case <-stop:
				return
			default:
			}
			_, conns, idle, subset, busy := t.VerifSnapshot()
			rep.Count("surplus_storm_snapshots", 1)
			if !subset || idle > conns || busy > 0 {
				rep.Violation("reuse-idle-set-inconsistent-surplus-reply", fmt.Sprintf("server answers twice: conns=%d idle=%d subset=%v idle-connections-that-carry-a-query=%d", conns, idle, subset, busy), map[string]any{"seed": seed})
				return
			}
			time.Sleep(50 * time.Microsecond)
		}
	}()
	var wg sync.WaitGroup
	var okN, errN atomic.Int64
	for c := 0; c < callers; c++ {
		wg.Add(1)
		go func() {
			defer wg.Done()
			for i := 0; i < perCaller; i++ {
				seq := int(seqCtr.Add(1))
				ctx, cancel := context.WithTimeout(context.Background(), 5*time.Second)
				r, err := t.ExchangeContext(ctx, dnsadv.Query(uint16(seq), seq, 1, "c09", 1))
				cancel()
				if err == nil {
					pool.ReleaseBuf(r)
					okN.Add(1)
				} else {
					errN.Add(1)
				}
			}
		}()
	}
	wg.Wait()
	close(stop)
	sw.Wait()
	t.Close()
	rep.Eval(1)
	rep.Count("surplus_storm_calls_returned_a_reply", okN.Load())
	rep.Count("surplus_storm_calls_failed", errN.Load())
	rep.Count("surplus_storm_connections", int64(len(net.Conns())))
	rep.Nontrivial(fmt.Sprintf("reuse-surplus-storm|%d|%d", callers, seed%64))
}
