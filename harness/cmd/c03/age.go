package main

// Connection-age / answer-latency phase.
//
// Every server protocol (UDP, TCP, DoT = ServeTCP behind a TLS listener, DoH
// over HTTP/1.1 keep-alive and over HTTP/2, DoQ) is driven by client SCRIPTS:
// one connection (client socket) per script, a sequence of well-formed queries
// with unique questions, each sent after a PAUSE of silence on that connection
// (so the connection is 0 s, ~1 s, ~2.5 s, ~4.5 s ... old when the query is
// sent; always far below the server's idle timeout) and each with a LATENCY
// the plugin chain takes to produce its outcome (0, ~0.5 s, ~2.5 s, ~4 s; the
// recorder around the entry executable sleeps that long inside the query's
// deadline before it runs the real chain - a slow upstream). Queries of one
// script are not serialised: a later query is sent while an earlier, slower one
// is still being processed. All scripts of a composition run concurrently, so
// the phase costs the longest script (about 5 s) once.
//
// Oracle: the usual one (judge): every query must get exactly one reply with
// its ID/question and the recorded chain outcome. No verdict depends on a tight
// timer: "no reply" is concluded only when the handler wrapper saw Handle
// RETURN a payload for that question and nothing arrived for deliverWait (10 s)
// afterwards (or the server closed the connection / finished the HTTP exchange /
// closed the QUIC stream without it). A query the handler never saw (the
// server's first-read / idle timer closed the connection of a starved client)
// is not judged; the script is run once more for coverage.

import (
	"bytes"
	"context"
	"crypto/tls"
	"encoding/base64"
	"fmt"
	"io"
	"math/rand"
	"net"
	"net/http"
	"net/http/httptrace"
	"strings"
	"sync"
	"time"

	"github.com/IrineSistiana/mosdns/v5/pkg/server"
	"github.com/IrineSistiana/mosdns/v5/pkg/utils"
	"github.com/quic-go/quic-go"

	"verifharness/lib/wire"
)

// AgeStep is one query of a script.
type AgeStep struct {
	PauseMs   int    `json:"pause_ms"`      // silence on the connection before this query is sent
	LatencyMs int    `json:"latency_ms"`    // time the plugin chain takes for this query
	How       string `json:"how,omitempty"` // DoH: get | post | post-nolen (chunked / h2 without content-length)
}

// AgeScript is the life of one client connection.
type AgeScript struct {
	Proto string    `json:"proto"` // udp | tcp | dot | doh-h1 | doh-h2 | doq
	Name  string    `json:"name"`
	Steps []AgeStep `json:"steps"`
}

var ageProtos = []string{"udp", "tcp", "dot", "doh-h1", "doh-h2", "doq"}

// genAgeScripts: the script classes x every protocol; pauses and latencies are
// jittered (x0.9..1.2) by the seed.
func genAgeScripts(r *rand.Rand, thorough bool) []AgeScript {
	j := func(ms int) int { return ms * (90 + r.Intn(31)) / 100 }
	type shape struct {
		name  string
		steps []AgeStep
	}
	mk := func() []shape {
		sh := []shape{
			{"fresh", []AgeStep{{0, 0, ""}}},
			{"first-query-after-1s", []AgeStep{{j(900), 0, ""}}}, // below the 2 s first-read timer
			{"reuse-after-1s", []AgeStep{{0, 0, ""}, {j(1000), 0, ""}}},
			{"reuse-after-2.5s", []AgeStep{{0, 0, ""}, {j(2500), 0, ""}}},
			{"reuse-after-4.5s", []AgeStep{{0, 0, ""}, {j(4000), 0, ""}}},
			{"three-queries-with-pauses", []AgeStep{{0, 0, ""}, {j(1200), 0, ""}, {j(1500), 0, ""}}},
			{"answer-takes-0.5s", []AgeStep{{0, j(500), ""}}},
			{"answer-takes-2.5s", []AgeStep{{0, j(2500), ""}}},
			{"answer-takes-4s", []AgeStep{{0, j(3700), ""}}},
			{"slow-then-fast-overlapping", []AgeStep{{0, j(2500), ""}, {0, 0, ""}, {j(300), j(500), ""}}},
			{"reuse-after-1s-answer-takes-2.5s", []AgeStep{{0, 0, ""}, {j(1000), j(2300), ""}}},
		}
		if thorough {
			sh = append(sh,
				shape{"reuse-after-9s", []AgeStep{{0, 0, ""}, {8300 + r.Intn(500), 0, ""}}},
				shape{"reuse-after-5s-answer-takes-4s", []AgeStep{{0, j(300), ""}, {j(5000), j(3700), ""}}},
				shape{"four-queries-6s", []AgeStep{{0, 0, ""}, {j(2000), j(500), ""}, {j(2000), 0, ""}, {j(2000), j(1000), ""}}},
			)
		}
		return sh
	}
	var out []AgeScript
	for _, p := range ageProtos {
		for _, sh := range mk() {
			sc := AgeScript{Proto: p, Name: sh.name, Steps: sh.steps}
			if strings.HasPrefix(p, "doh") {
				for i := range sc.Steps {
					sc.Steps[i].How = []string{"get", "post", "post-nolen"}[r.Intn(3)]
				}
			}
			out = append(out, sc)
		}
	}
	return out
}

type ageQ struct {
	*burstQ
	step      AgeStep
	idx       int
	sentAt    time.Time
	ageMs     int64 // age of the connection when the query was sent (measured)
	reused    bool  // DoH: the request went out on a connection that had served a request before
	sendErr   string
	watchdog  bool // never handled within the watchdog
	replyAtMs int64
}

// ---- servers the other phases do not have ----

func (s *sockets) startDoT() error {
	if s.dotl != nil {
		return nil
	}
	h2CertOnce.Do(func() { h2Cert, h2CertErr = utils.GenerateCertificate("c03.test") })
	if h2CertErr != nil {
		return h2CertErr
	}
	l, err := net.Listen("tcp4", "127.0.0.1:0")
	if err != nil {
		return err
	}
	s.dotl = tls.NewListener(l, &tls.Config{Certificates: []tls.Certificate{h2Cert}})
	go func(l net.Listener) { _ = server.ServeTCP(l, s.hw, server.TCPServerOpts{}) }(s.dotl)
	return nil
}

func (s *sockets) startDoQ() error {
	if s.doql != nil {
		return nil
	}
	h2CertOnce.Do(func() { h2Cert, h2CertErr = utils.GenerateCertificate("c03.test") })
	if h2CertErr != nil {
		return h2CertErr
	}
	pc, err := net.ListenPacket("udp4", "127.0.0.1:0")
	if err != nil {
		return err
	}
	qt := &quic.Transport{Conn: pc}
	// the configuration the quic_server plugin uses
	ql, err := qt.Listen(&tls.Config{Certificates: []tls.Certificate{h2Cert}, NextProtos: []string{"doq"}}, &quic.Config{
		MaxIdleTimeout:                 30 * time.Second,
		InitialStreamReceiveWindow:     4 * 1024,
		MaxStreamReceiveWindow:         4 * 1024,
		InitialConnectionReceiveWindow: 8 * 1024,
		MaxConnectionReceiveWindow:     16 * 1024,
		MaxIncomingUniStreams:          -1,
	})
	if err != nil {
		pc.Close()
		return err
	}
	s.doql, s.doqt, s.doqpc, s.doqAdr = ql, qt, pc, pc.LocalAddr().String()
	go func() { _ = server.ServeDoQ(ql, s.hw, server.DoQServerOpts{}) }()
	return nil
}

func (s *sockets) closeAgeServers() {
	if s.dotl != nil {
		s.dotl.Close()
		s.dotl = nil
	}
	if s.doql != nil {
		s.doql.Close()
		s.doqt.Close()
		s.doqpc.Close()
		s.doql = nil
	}
}

// ---- datagram / stream protocols: udp, tcp, dot ----

func (b *built) ageStream(sc *AgeScript, qs []*ageQ) (harness string) {
	sk := b.sk
	var c net.Conn
	var err error
	switch sc.Proto {
	case "udp":
		c, err = net.DialUDP("udp4", nil, &net.UDPAddr{IP: net.IPv4(127, 0, 0, 1), Port: sk.us.LocalAddr().(*net.UDPAddr).Port})
	case "tcp":
		c, err = net.DialTimeout("tcp4", sk.tl.Addr().String(), 5*time.Second)
	case "dot":
		c, err = tls.DialWithDialer(&net.Dialer{Timeout: 5 * time.Second}, "tcp4", sk.dotl.Addr().String(), &tls.Config{InsecureSkipVerify: true})
	}
	if err != nil {
		return sc.Proto + " client dial: " + err.Error()
	}
	born := time.Now()
	defer c.Close()
	in := make(chan []byte, 256)
	eofCh := make(chan struct{})
	go func() {
		buf := make([]byte, 70000)
		var d wire.Deframer
		for {
			n, err := c.Read(buf)
			if n > 0 {
				if sc.Proto == "udp" {
					in <- append([]byte(nil), buf[:n]...)
				} else {
					for _, f := range d.Feed(buf[:n]) {
						in <- f
					}
				}
			}
			if err != nil {
				if rest := d.Rest(); len(rest) > 0 {
					in <- append([]byte(nil), rest...)
				}
				close(eofCh)
				return
			}
		}
	}()
	for _, q := range qs {
		if q.step.PauseMs > 0 {
			time.Sleep(time.Duration(q.step.PauseMs) * time.Millisecond)
		}
		q.sentAt = time.Now()
		q.ageMs = q.sentAt.Sub(born).Milliseconds()
		msg := q.qw
		if sc.Proto != "udp" {
			msg = wire.Frame(q.qw)
		}
		if _, err := c.Write(msg); err != nil {
			q.sendErr = err.Error() // the server closed the connection under us
		}
	}
	byID := map[uint16]*ageQ{}
	for _, q := range qs {
		byID[q.pl.Q.ID] = q
	}
	var frames [][]byte
	replied := map[uint16]bool{}
	take := func(f []byte) {
		frames = append(frames, f)
		if len(f) >= 2 {
			id := uint16(f[0])<<8 | uint16(f[1])
			if q := byID[id]; q != nil && !replied[id] {
				replied[id] = true
				q.replyAtMs = time.Since(born).Milliseconds()
			}
		}
	}
	eof := false
	tick := time.NewTicker(10 * time.Millisecond)
	defer tick.Stop()
	for {
		waiting := false
		now := time.Now()
		for _, q := range qs {
			if q.sendErr != "" || replied[q.pl.Q.ID] {
				continue
			}
			hd := sk.hw.byName(q.key)
			switch {
			case hd.calls > 0:
				// Handle returned: the reply is written at once
				if !eof && now.Sub(hd.at) < deliverWait {
					waiting = true
				}
			case eof:
			case now.Sub(q.sentAt) < time.Duration(q.step.LatencyMs)*time.Millisecond+sk.wd+5*time.Second:
				waiting = true
			default:
				q.watchdog = true
			}
		}
		if !waiting {
			break
		}
		select {
		case f := <-in:
			take(f)
		case <-eofCh:
			eof = true
			eofCh = nil
		drain:
			for {
				select {
				case f := <-in:
					take(f)
				default:
					break drain
				}
			}
		case <-tick.C:
		}
	}
	// "none other"
	settle := time.NewTimer(10 * time.Millisecond)
	defer settle.Stop()
more:
	for {
		select {
		case f := <-in:
			take(f)
		case <-settle.C:
			break more
		}
	}
	bqs := make([]*burstQ, len(qs))
	for i, q := range qs {
		bqs[i] = q.burstQ
	}
	attribute(bqs, frames)
	for _, q := range qs {
		if len(q.replies) == 0 {
			hd := sk.hw.byName(q.key)
			q.note = strings.TrimSpace(fmt.Sprintf("%s nothing arrived on the connection (server closed it: %v, client write error: %q)", q.note, eof, q.sendErr))
			if hd.calls > 0 {
				q.note += fmt.Sprintf("; Handle had returned %d bytes %d ms after the query was sent, the client kept waiting for %v after that", hd.n, hd.at.Sub(q.sentAt).Milliseconds(), deliverWait)
			}
		}
	}
	return ""
}

// ---- request protocols: DoH over one keep-alive connection / one h2 connection ----

func (b *built) ageDoH(sc *AgeScript, qs []*ageQ) (harness string) {
	sk := b.sk
	h2 := sc.Proto == "doh-h2"
	tr := &http.Transport{MaxConnsPerHost: 1, MaxIdleConnsPerHost: 1, IdleConnTimeout: 90 * time.Second}
	url := sk.url
	if h2 {
		tr.TLSClientConfig = &tls.Config{InsecureSkipVerify: true}
		tr.ForceAttemptHTTP2 = true
		url = sk.h2url
	}
	defer tr.CloseIdleConnections()
	hc := &http.Client{Transport: tr}
	var mu sync.Mutex
	var born time.Time
	var wg sync.WaitGroup
	for _, q := range qs {
		if q.step.PauseMs > 0 {
			time.Sleep(time.Duration(q.step.PauseMs) * time.Millisecond)
		}
		wg.Add(1)
		go func(q *ageQ) {
			defer wg.Done()
			a := &arrival{}
			q.arr = a
			ctx, cancel := context.WithTimeout(context.Background(), time.Duration(q.step.LatencyMs)*time.Millisecond+sk.wd+30*time.Second)
			defer cancel()
			ctx = httptrace.WithClientTrace(ctx, &httptrace.ClientTrace{GotConn: func(ci httptrace.GotConnInfo) {
				mu.Lock()
				now := time.Now()
				if !ci.Reused || born.IsZero() {
					born = now
				}
				q.sentAt = now
				q.ageMs = now.Sub(born).Milliseconds()
				q.reused = ci.Reused
				mu.Unlock()
			}})
			var req *http.Request
			var err error
			switch q.step.How {
			case "get":
				req, err = http.NewRequestWithContext(ctx, http.MethodGet, url+"?dns="+base64.RawURLEncoding.EncodeToString(q.qw), nil)
				if err == nil {
					req.Header.Set("Accept", "application/dns-message")
				}
			case "post-nolen":
				// a body of unknown length: chunked over HTTP/1.1, no content-length over HTTP/2
				req, err = http.NewRequestWithContext(ctx, http.MethodPost, url, struct{ io.Reader }{bytes.NewReader(q.qw)})
				if err == nil {
					req.Header.Set("Content-Type", "application/dns-message")
				}
			default:
				req, err = http.NewRequestWithContext(ctx, http.MethodPost, url, bytes.NewReader(q.qw))
				if err == nil {
					req.Header.Set("Content-Type", "application/dns-message")
				}
			}
			if err != nil {
				a.harness = "http request: " + err.Error()
				return
			}
			resp, err := hc.Do(req)
			if err != nil {
				// judged only if the handler is known to have returned a payload for this question
				a.note = "http client: " + err.Error()
				return
			}
			if h2 && resp.ProtoMajor != 2 {
				a.harness = "the TLS listener did not negotiate HTTP/2"
			}
			readDoHResponse(a, resp)
			mu.Lock()
			q.replyAtMs = time.Since(born).Milliseconds()
			mu.Unlock()
		}(q)
	}
	wg.Wait()
	return ""
}

// ---- DoQ: one QUIC connection, one stream per query ----

func (b *built) ageDoQ(sc *AgeScript, qs []*ageQ) (harness string) {
	sk := b.sk
	dctx, dcancel := context.WithTimeout(context.Background(), 10*time.Second)
	defer dcancel()
	conn, err := quic.DialAddr(dctx, sk.doqAdr, &tls.Config{InsecureSkipVerify: true, ServerName: "c03.test", NextProtos: []string{"doq"}}, &quic.Config{MaxIdleTimeout: 30 * time.Second})
	if err != nil {
		return "quic dial: " + err.Error()
	}
	born := time.Now()
	defer conn.CloseWithError(0, "")
	var wg sync.WaitGroup
	for _, q := range qs {
		if q.step.PauseMs > 0 {
			time.Sleep(time.Duration(q.step.PauseMs) * time.Millisecond)
		}
		q.sentAt = time.Now()
		q.ageMs = q.sentAt.Sub(born).Milliseconds()
		wg.Add(1)
		go func(q *ageQ) {
			defer wg.Done()
			a := &arrival{}
			q.arr = a
			wdog := time.Duration(q.step.LatencyMs)*time.Millisecond + sk.wd + 15*time.Second
			ctx, cancel := context.WithTimeout(context.Background(), wdog)
			defer cancel()
			st, err := conn.OpenStreamSync(ctx)
			if err != nil {
				a.note = "quic open stream: " + err.Error()
				return
			}
			if _, err := st.Write(wire.Frame(q.qw)); err != nil {
				a.note = "quic stream write: " + err.Error()
				return
			}
			st.Close()
			_ = st.SetReadDeadline(time.Now().Add(wdog))
			data, err := io.ReadAll(st)
			var d wire.Deframer
			a.replies = d.Feed(data)
			if rest := d.Rest(); len(rest) > 0 {
				a.framing = fmt.Sprintf("%d stray bytes on the stream that are not a length-prefixed frame", len(rest))
				a.replies = append(a.replies, append([]byte(nil), rest...))
			}
			if len(a.replies) == 0 {
				a.note = fmt.Sprintf("the stream ended with %d bytes (read result: %v)", len(data), err)
			} else {
				q.replyAtMs = time.Since(born).Milliseconds()
			}
		}(q)
	}
	wg.Wait()
	return ""
}

// (protocol, connection age, chain latency) cells in which a reply was observed
var ageCells sync.Map

func ageCellList() []string {
	var out []string
	ageCells.Range(func(k, _ any) bool { out = append(out, k.(string)); return true })
	sortStrings(out)
	return out
}

func ageClass(ms int64) string {
	switch {
	case ms < 500:
		return "<0.5s"
	case ms < 2000:
		return "0.5-2s"
	case ms < 4000:
		return "2-4s"
	case ms < 8000:
		return "4-8s"
	}
	return ">8s"
}

// ageWitness is the replay case of this phase.
type ageWitness struct {
	compCase
	Script      *AgeScript `json:"failing_script,omitempty"`
	Step        int        `json:"failing_step"`
	ConnAgeMs   int64      `json:"connection_age_ms_when_sent"`
	HandledNote string     `json:"handler,omitempty"`
}

// agePhase runs every script of the composition concurrently and judges them.
func (b *built) agePhase(seed int64, cc compCase, replay bool) {
	c := b.comp
	sk, err := b.sockets()
	for try := 0; err != nil && try < 5; try++ {
		time.Sleep(100 * time.Millisecond)
		sk, err = b.sockets()
	}
	if err == nil {
		err = sk.startH2()
	}
	if err == nil {
		err = sk.startDoT()
	}
	if err == nil {
		err = sk.startDoQ()
	}
	if err != nil {
		rep.Inconclusive("age phase, composition %d: cannot start loopback servers: %v", c.Idx, err)
		return
	}
	r := rand.New(rand.NewSource(seed*2750159 + int64(c.Idx)*41 + 23))
	scripts := genAgeScripts(r, rep.Thorough())
	b.rt.begin(nil)
	b.rec.setBurst(true)
	sk.hw.setBurst(true)

	type run struct {
		sc      *AgeScript
		si      int
		attempt int
		qs      []*ageQ
		harness string
	}
	mkRun := func(si, attempt int) *run {
		sc := &scripts[si]
		qr := rand.New(rand.NewSource(seed*1299709 + int64(c.Idx)*1009 + int64(si)*17 + int64(attempt)))
		ru := &run{sc: sc, si: si, attempt: attempt}
		base := uint16(qr.Intn(65536))
		for i, st := range sc.Steps {
			bq := b.genBurstQ(qr, fmt.Sprintf("g%dx%dx%dx%d", si, attempt, i, c.Idx%97), base+uint16(i)*5, false)
			bq.pl.Transport = sc.Proto + "-aged"
			if st.LatencyMs > 0 {
				b.rec.setDelay(bq.key, time.Duration(st.LatencyMs)*time.Millisecond)
			}
			ru.qs = append(ru.qs, &ageQ{burstQ: bq, step: st, idx: i})
		}
		return ru
	}
	exec := func(ru *run) {
		switch ru.sc.Proto {
		case "udp", "tcp", "dot":
			ru.harness = b.ageStream(ru.sc, ru.qs)
		case "doh-h1", "doh-h2":
			ru.harness = b.ageDoH(ru.sc, ru.qs)
		case "doq":
			ru.harness = b.ageDoQ(ru.sc, ru.qs)
		}
	}
	unhandled := func(ru *run) bool {
		for _, q := range ru.qs {
			n, status := len(q.replies), 0
			if q.arr != nil {
				n, status = len(q.arr.replies), q.arr.status
			}
			if n == 0 && status == 0 && sk.hw.byName(q.key).calls == 0 {
				return true
			}
		}
		return false
	}
	t0 := time.Now()
	runs := make([]*run, len(scripts))
	var wg sync.WaitGroup
	for si := range scripts {
		runs[si] = mkRun(si, 0)
	}
	for si := range scripts {
		wg.Add(1)
		go func(si int) {
			defer wg.Done()
			exec(runs[si])
			if runs[si].harness == "" && unhandled(runs[si]) {
				// the server's first-read / idle timer closed the connection of a starved
				// client before the handler saw a query: timing, not behaviour. Once more.
				rep.Count("age_scripts_rerun_unhandled", 1)
				again := mkRun(si, 1)
				exec(again)
				runs[si] = again
			}
		}(si)
	}
	wg.Wait()
	rep.Count("age_phase_ms", time.Since(t0).Milliseconds())
	rep.Count("age_phase_compositions", 1)
	b.rec.mu.Lock()
	b.rec.burst = false
	b.rec.mu.Unlock()
	sk.hw.mu.Lock()
	sk.hw.burst = false
	sk.hw.mu.Unlock()

	for _, ru := range runs {
		sc := ru.sc
		rep.Count("age_scripts_"+sc.Proto, 1)
		if ru.harness != "" {
			rep.Count("age_unobserved", int64(len(ru.qs)))
			rep.Inconclusive("age phase, composition %d, script %s/%s: %s", c.Idx, sc.Proto, sc.Name, ru.harness)
			continue
		}
		for _, q := range ru.qs {
			e := b.rec.byName(q.key)
			hd := sk.hw.byName(q.key)
			arr := arrival{replies: q.replies, fromUDP: sc.Proto == "udp"}
			if q.arr != nil {
				arr = *q.arr
			}
			if arr.note == "" {
				arr.note = q.note
			}
			switch {
			case arr.harness != "":
				rep.Count("age_unobserved", 1)
				rep.Inconclusive("age phase, composition %d, script %s/%s step %d: %s", c.Idx, sc.Proto, sc.Name, q.idx, arr.harness)
				continue
			case len(arr.replies) == 0 && hd.calls == 0 && arr.status == 0:
				// never reached the handler (twice) and the server did not answer the
				// exchange either (an HTTP error status for a well-formed query IS judged):
				// the server's first-read / idle timer (10 s TCP/DoT, 30 s DoQ) closed the
				// connection before it read the query. Nothing of the statement to judge.
				rep.Count("age_not_judged_never_handled_"+sc.Proto, 1)
				if q.watchdog {
					rep.Count("age_unobserved", 1)
					rep.Inconclusive("age phase, composition %d, script %s/%s step %d: the query was not handed to the handler within the watchdog; server goroutines:\n%s", c.Idx, sc.Proto, sc.Name, q.idx, serverGoroutines())
				}
				continue
			}
			handler := fmt.Sprintf("Handle was called %d time(s) for this question and returned %d bytes (nil payload: %v)", hd.calls, hd.n, hd.nilPayload)
			if len(arr.replies) == 0 {
				arr.note = strings.TrimSpace(arr.note + "; " + handler)
			}
			tg := q.pl.Transport
			o := &observation{q: &q.pl.Q, qw: q.qw, arr: arr, recCalls: e.calls, recErr: e.err, recResp: e.resp, transport: tg}
			v := judge(o)
			rep.Eval(1)
			rep.Count("deliveries_"+tg, 1)
			rep.Count("class_"+strings.SplitN(v.class, "+", 2)[0], 1)
			rep.Count("valid_queries", 1)
			rep.Count("age_valid_queries", 1)
			lateMs := q.ageMs + int64(q.step.LatencyMs) // the reply is written at least this long after the connection was made
			ac, lc := ageClass(q.ageMs), ageClass(int64(q.step.LatencyMs))
			if len(arr.replies) == 1 {
				rep.Count("valid_queries_with_exactly_one_reply", 1)
				rep.Count("age_valid_queries_with_exactly_one_reply", 1)
				rep.Count("age_replies_"+sc.Proto, 1)
				if lateMs >= 2000 {
					rep.Count("age_replies_written_2s_or_more_after_connect_"+sc.Proto, 1)
				}
				if q.ageMs >= 2000 {
					rep.Count("age_replies_on_connections_older_than_2s_"+sc.Proto, 1)
				}
				if q.step.LatencyMs >= 2000 {
					rep.Count("age_replies_after_2s_or_more_in_the_chain_"+sc.Proto, 1)
				}
				if q.reused {
					rep.Count("age_doh_requests_on_reused_connection", 1)
				}
				rep.Max("age_max_connection_age_ms", q.ageMs)
				rep.Max("age_max_reply_ms_after_connect", q.replyAtMs)
				rep.SetAdd("age_cells", fmt.Sprintf("%s/conn-age %s/chain-latency %s/%s", sc.Proto, ac, lc, v.class))
				ageCells.Store(fmt.Sprintf("%s: connection %s old, chain takes %s", sc.Proto, ac, lc), true)
			}
			if v.truncated {
				rep.Count("truncated_replies", 1)
			}
			rep.Nontrivial(fmt.Sprintf("%s|%s|%s|%v|age%s|lat%s", c.Shape, v.class, tg, v.truncated, ac, lc))
			rep.SetAdd("outcome_transport", fmt.Sprintf("%s/%s/trunc=%v", v.class, tg, v.truncated))
			if len(v.fails) == 0 {
				if rep.WantSample() && lateMs >= 2000 && q.idx > 0 {
					rep.Sample(map[string]any{"composition": c.Idx, "age_script": sc, "step": q.idx, "connection_age_ms": q.ageMs,
						"reply_ms_after_connect": q.replyAtMs, "class": v.class, "query": q.pl.Q.NameStr})
				}
				continue
			}
			f := v.fails[0]
			w := ageWitness{compCase: cc, Script: sc, Step: q.idx, ConnAgeMs: q.ageMs, HandledNote: handler}
			w.UpTo = -1
			w.Age = true
			w.Comp = c
			w.Plan = &q.pl
			w.QueryHex = fmt.Sprintf("%x", q.qw)
			for _, rb := range arr.replies {
				w.Replies = append(w.Replies, hexShort(rb))
			}
			w.Chain = chainStr(o)
			w.Note = arr.note
			rep.Violation(f.class+"-"+tg, fmt.Sprintf("%s [composition %d shape %s, %s, script %q step %d of %d: sent when the connection was %d ms old (planned silence before it %d ms), chain latency %d ms, %s; query %q type %d class %d id %d]",
				f.what, c.Idx, c.Shape, tg, sc.Name, q.idx, len(sc.Steps), q.ageMs, q.step.PauseMs, q.step.LatencyMs, q.step.How, q.pl.Q.NameStr, q.pl.Q.Type, q.pl.Q.Class, q.pl.Q.ID), w)
			if replay {
				fmt.Printf("  %s/%s step %d: %s: %s\n", sc.Proto, sc.Name, q.idx, f.class, f.what)
			}
		}
	}
	sk.hw.drain()
}

// runAgeComp builds one composition for the age phase only.
func runAgeComp(seed int64, cc compCase, replay bool) {
	c := genComp(seed, cc.CompIdx, cc.Terminal)
	b, err := build(c)
	if err != nil {
		rep.Inconclusive("age phase: composition %d does not build (harness generator bug?): %v", c.Idx, err)
		return
	}
	defer b.Close()
	rep.SetAdd("shapes", c.Shape)
	rep.Count("compositions_terminal_"+c.Terminal, 1)
	b.agePhase(seed, cc, replay)
	b.rt.mu.Lock()
	herr := append([]string(nil), b.rt.harnErr...)
	b.rt.mu.Unlock()
	for _, e := range herr {
		rep.Inconclusive("composition %d: %s", c.Idx, e)
	}
	if replay {
		fmt.Printf("replayed the connection-age / answer-latency phase of composition %d\n", c.Idx)
	}
}
