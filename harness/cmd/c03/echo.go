package main

// The "upstream that echoes the question": an independent reply builder working
// on wire bytes (lib/wire only), used by
//   - the harness terminal plugin c03_echo (packs qCtx.Q() exactly like the real
//     forward plugin does, builds the reply bytes, unpacks them like forward), and
//   - the loopback UDP/TCP servers the real forward plugin talks to.
// The outcome for a question is a pure function of (composition script, lower-
// cased question name), so concurrent sub-queries (dual selector, fallback) and
// repeated queries see a consistent upstream.

import (
	"context"
	"encoding/binary"
	"errors"
	"hash/fnv"
	"net"
	"sync"
	"sync/atomic"
	"time"

	"github.com/IrineSistiana/mosdns/v5/coremain"
	"github.com/IrineSistiana/mosdns/v5/pkg/pool"
	"github.com/IrineSistiana/mosdns/v5/pkg/query_context"
	"github.com/IrineSistiana/mosdns/v5/plugin/executable/sequence"
	"github.com/miekg/dns"

	"verifharness/lib/wire"
)

// Outcome is one scripted upstream behaviour.
type Outcome struct {
	Kind   string `json:"kind"`  // answer | none | error
	Rcode  int    `json:"rcode"` // 0..15, or up to 4095 when the composition is OPT-only
	Size   int    `json:"size"`  // target wire size of the upstream reply (0 = minimal)
	Ans    int    `json:"ans"`   // typed answer records
	Ns     int    `json:"ns"`    // authority records
	Extra  int    `json:"extra"` // additional records
	TTL    uint32 `json:"ttl"`
	TC     bool   `json:"tc,omitempty"`
	AA     bool   `json:"aa,omitempty"`
	RA     bool   `json:"ra,omitempty"`
	UpOPT  bool   `json:"up_opt,omitempty"` // upstream reply carries OPT (echoing ECS / cookie options)
	Chunk  int    `json:"chunk"`            // filler record rdata size
	MaxFit int    `json:"max_fit"`          // hard cap on the reply size
}

func pickOutcome(script []Outcome, qname []byte) Outcome {
	h := fnv.New32a()
	h.Write(lowerWire(qname))
	return script[int(h.Sum32()%uint32(len(script)))]
}

func txtFill(n int, seed byte) []byte {
	// n >= 1 bytes of TXT rdata made of character-strings
	out := make([]byte, 0, n)
	for n > 0 {
		k := n - 1
		if k > 255 {
			k = 255
		}
		out = append(out, byte(k))
		for i := 0; i < k; i++ {
			out = append(out, 'a'+(seed+byte(i))%26)
		}
		n -= k + 1
	}
	return out
}

// splitQuestion returns (rawName, type, class) of an uncompressed first question.
func splitQuestion(msg []byte) (name []byte, typ, class uint16, err error) {
	qw, err := wire.QuestionWire(msg)
	if err != nil {
		return nil, 0, 0, err
	}
	n := len(qw) - 4
	return qw[:n], binary.BigEndian.Uint16(qw[n:]), binary.BigEndian.Uint16(qw[n+2:]), nil
}

// buildUpstreamReply builds the upstream's reply to the wire query q.
func buildUpstreamReply(q []byte, oc Outcome) ([]byte, error) {
	h, err := wire.ParseHeader(q)
	if err != nil {
		return nil, err
	}
	name, typ, class, err := splitQuestion(q)
	if err != nil {
		return nil, err
	}
	flags := uint16(0x8000) | uint16(h.Opcode())<<11 | uint16(oc.Rcode&0xF)
	if h.RD() {
		flags |= 0x0100
	}
	if h.CD() {
		flags |= 0x0010
	}
	if oc.AA {
		flags |= 0x0400
	}
	if oc.RA {
		flags |= 0x0080
	}
	if oc.TC {
		flags |= 0x0200
	}
	b := wire.NewBuilder(h.ID, flags).Question(name, typ, class)

	upOPT := oc.UpOPT || oc.Rcode > 15
	var optOpts []wire.Option
	optLen := 0
	if upOPT {
		if qm, err := wire.Parse(q); err == nil {
			for _, o := range qm.OPTs() {
				for _, op := range o.Options {
					if op.Code == 8 || op.Code == 10 {
						optOpts = append(optOpts, op)
					}
				}
			}
		}
		optOpts = append(optOpts, wire.Option{Code: 12, Data: make([]byte, 6)})
		optLen = 11
		for _, o := range optOpts {
			optLen += 4 + len(o.Data)
		}
	}

	rrBase := len(name) + 10
	cur := 12 + len(name) + 4
	limit := oc.MaxFit
	if limit <= 0 || limit > 65535 {
		limit = 65535
	}
	add := func(sec int, t uint16, rd []byte) bool {
		if cur+rrBase+len(rd)+optLen > limit {
			return false
		}
		b.RR(sec, name, t, class, oc.TTL, rd)
		cur += rrBase + len(rd)
		return true
	}
	typed := func(sec int, i int) bool {
		switch typ {
		case 1:
			return add(sec, 1, []byte{192, 0, 2, byte(1 + i)})
		case 28:
			return add(sec, 28, []byte{0x20, 0x01, 0x0d, 0xb8, 0, 0, 0, 0, 0, 0, 0, 0, 0, 0, 0, byte(1 + i)})
		}
		return add(sec, 16, wire.TXTRdata("c03-answer"))
	}
	for i := 0; i < oc.Ans; i++ {
		if !typed(0, i) {
			break
		}
	}
	// filler answers up to the target size, leaving room for ns/extra/opt
	tail := (oc.Ns+oc.Extra)*(rrBase+8) + optLen
	if oc.Size > 0 {
		chunk := oc.Chunk
		if chunk < 1 {
			chunk = 400
		}
		for {
			remain := oc.Size - cur - tail
			if remain < rrBase+1 {
				break
			}
			rd := remain - rrBase
			if rd > chunk {
				rd = chunk
				// do not leave a remainder that cannot hold a record
				if left := remain - rrBase - rd; left > 0 && left < rrBase+1 {
					rd -= rrBase + 1 - left
					if rd < 1 {
						rd = 1
					}
				}
			}
			if !add(0, 16, txtFill(rd, byte(cur))) {
				break
			}
		}
	}
	for i := 0; i < oc.Ns; i++ {
		if !add(1, 16, txtFill(7, byte(i))) {
			break
		}
	}
	for i := 0; i < oc.Extra; i++ {
		if !add(2, 16, txtFill(7, byte(i+3))) {
			break
		}
	}
	if upOPT {
		b.OPT(1232, uint8(oc.Rcode>>4), 0, false, 0, optOpts)
	}
	return b.Bytes(), nil
}

// ---- per-composition runtime shared by the harness plugins ----

type trace struct {
	cacheHit   bool
	redirected bool
	echoCalls  int
	echoSawR   bool
}

type compRuntime struct {
	idx    int
	script []Outcome

	mu       sync.Mutex
	origName []byte // lower-cased wire name of the query being processed
	tr       trace
	pre      map[*query_context.Context]*dns.Msg
	harnErr  []string

	echoTotal atomic.Int64
}

func (rt *compRuntime) begin(origLower []byte) {
	rt.mu.Lock()
	rt.origName = origLower
	rt.tr = trace{}
	for k := range rt.pre {
		delete(rt.pre, k)
	}
	rt.mu.Unlock()
}

func (rt *compRuntime) end() trace {
	rt.mu.Lock()
	defer rt.mu.Unlock()
	return rt.tr
}

func (rt *compRuntime) noteErr(s string) {
	rt.mu.Lock()
	if len(rt.harnErr) < 10 {
		rt.harnErr = append(rt.harnErr, s)
	}
	rt.mu.Unlock()
}

var runtimes sync.Map // comp idx -> *compRuntime

type harnArgs struct {
	Comp int `yaml:"comp"`
}

func lookupRT(args any) (*compRuntime, error) {
	a := args.(*harnArgs)
	v, ok := runtimes.Load(a.Comp)
	if !ok {
		return nil, errors.New("c03: unknown composition runtime")
	}
	return v.(*compRuntime), nil
}

var errScripted = errors.New("c03 scripted upstream error")

type echoPlugin struct{ rt *compRuntime }

var _ sequence.Executable = (*echoPlugin)(nil)

func (e *echoPlugin) Exec(_ context.Context, qCtx *query_context.Context) error {
	rt := e.rt
	rt.echoTotal.Add(1)
	// like forward.exchange: pack the (possibly rewritten) query with OPT
	payload, err := pool.PackBuffer(qCtx.Q())
	if err != nil {
		return err
	}
	qw := append([]byte(nil), *payload...)
	pool.ReleaseBuf(payload)
	name, _, _, err := splitQuestion(qw)
	if err != nil {
		rt.noteErr("echo: cannot split packed query: " + err.Error())
		return err
	}
	lname := lowerWire(name)
	rt.mu.Lock()
	rt.tr.echoCalls++
	if qCtx.R() != nil {
		rt.tr.echoSawR = true
	}
	if rt.origName != nil && string(lname) != string(rt.origName) {
		rt.tr.redirected = true
	}
	rt.mu.Unlock()
	oc := pickOutcome(rt.script, name)
	switch oc.Kind {
	case "error":
		return errScripted
	case "none":
		return nil
	}
	rb, err := buildUpstreamReply(qw, oc)
	if err != nil {
		rt.noteErr("echo: builder: " + err.Error())
		return err
	}
	r := new(dns.Msg)
	if err := r.Unpack(rb); err != nil {
		rt.noteErr("echo: built reply does not unpack: " + err.Error())
		return err
	}
	qCtx.SetResponse(r)
	return nil
}

// probes placed around every cache rule: hit = the response pointer changed
// between them without the rest of the chain having run.
type preProbe struct{ rt *compRuntime }
type postProbe struct{ rt *compRuntime }

func (p *preProbe) Exec(_ context.Context, qCtx *query_context.Context) error {
	p.rt.mu.Lock()
	if p.rt.pre == nil {
		p.rt.pre = map[*query_context.Context]*dns.Msg{}
	}
	p.rt.pre[qCtx] = qCtx.R()
	p.rt.mu.Unlock()
	return nil
}

func (p *postProbe) Exec(_ context.Context, qCtx *query_context.Context) error {
	p.rt.mu.Lock()
	before, ok := p.rt.pre[qCtx]
	if ok && qCtx.R() != nil && qCtx.R() != before {
		p.rt.tr.cacheHit = true
	}
	delete(p.rt.pre, qCtx)
	p.rt.mu.Unlock()
	return nil
}

func init() {
	coremain.RegNewPluginFunc("c03_echo", func(_ *coremain.BP, args any) (any, error) {
		rt, err := lookupRT(args)
		if err != nil {
			return nil, err
		}
		return &echoPlugin{rt: rt}, nil
	}, func() any { return new(harnArgs) })
	coremain.RegNewPluginFunc("c03_pre", func(_ *coremain.BP, args any) (any, error) {
		rt, err := lookupRT(args)
		if err != nil {
			return nil, err
		}
		return &preProbe{rt: rt}, nil
	}, func() any { return new(harnArgs) })
	coremain.RegNewPluginFunc("c03_post", func(_ *coremain.BP, args any) (any, error) {
		rt, err := lookupRT(args)
		if err != nil {
			return nil, err
		}
		return &postProbe{rt: rt}, nil
	}, func() any { return new(harnArgs) })
}

// ---- loopback echo servers for the real forward plugin ----

type loopUpstream struct {
	rt   *compRuntime
	uc   *net.UDPConn
	tl   net.Listener
	port int
	wg   sync.WaitGroup

	udpQueries atomic.Int64
	tcpQueries atomic.Int64
	truncated  atomic.Int64
}

func startLoopUpstream(rt *compRuntime) (*loopUpstream, error) {
	// same port number for UDP and TCP so that a TC reply can be retried over TCP
	var lu *loopUpstream
	var lastErr error
	for try := 0; try < 20; try++ {
		uc, err := net.ListenUDP("udp4", &net.UDPAddr{IP: net.IPv4(127, 0, 0, 1), Port: 0})
		if err != nil {
			lastErr = err
			continue
		}
		port := uc.LocalAddr().(*net.UDPAddr).Port
		tl, err := net.Listen("tcp4", net.JoinHostPort("127.0.0.1", itoa(port)))
		if err != nil {
			uc.Close()
			lastErr = err
			continue
		}
		lu = &loopUpstream{rt: rt, uc: uc, tl: tl, port: port}
		break
	}
	if lu == nil {
		return nil, lastErr
	}
	lu.wg.Add(2)
	go lu.serveUDP()
	go lu.serveTCP()
	return lu, nil
}

func (lu *loopUpstream) reply(q []byte, udp bool) []byte {
	name, _, _, err := splitQuestion(q)
	if err != nil {
		return nil
	}
	lname := lowerWire(name)
	rt := lu.rt
	rt.echoTotal.Add(1)
	rt.mu.Lock()
	rt.tr.echoCalls++
	if rt.origName != nil && string(lname) != string(rt.origName) {
		rt.tr.redirected = true
	}
	rt.mu.Unlock()
	oc := pickOutcome(rt.script, name)
	if oc.Kind != "answer" {
		return nil // silent upstream: forward fails when the query context expires
	}
	rb, err := buildUpstreamReply(q, oc)
	if err != nil {
		rt.noteErr("loop upstream builder: " + err.Error())
		return nil
	}
	if udp {
		adv := 512
		if qm, err := wire.Parse(q); err == nil {
			for _, o := range qm.OPTs() {
				if int(o.UDPSize) > adv {
					adv = int(o.UDPSize)
				}
			}
		}
		if len(rb) > adv {
			// header + question only, TC set: mosdns retries over TCP
			qw, _ := wire.QuestionWire(q)
			t := make([]byte, 12, 12+len(qw))
			copy(t, rb[:12])
			t[2] |= 0x02
			binary.BigEndian.PutUint16(t[4:], 1)
			binary.BigEndian.PutUint16(t[6:], 0)
			binary.BigEndian.PutUint16(t[8:], 0)
			binary.BigEndian.PutUint16(t[10:], 0)
			t = append(t, qw...)
			lu.truncated.Add(1)
			return t
		}
	}
	return rb
}

func (lu *loopUpstream) serveUDP() {
	defer lu.wg.Done()
	buf := make([]byte, 65536)
	for {
		n, addr, err := lu.uc.ReadFromUDPAddrPort(buf)
		if err != nil {
			return
		}
		lu.udpQueries.Add(1)
		if r := lu.reply(append([]byte(nil), buf[:n]...), true); r != nil {
			_, _ = lu.uc.WriteToUDPAddrPort(r, addr)
		}
	}
}

func (lu *loopUpstream) serveTCP() {
	defer lu.wg.Done()
	for {
		c, err := lu.tl.Accept()
		if err != nil {
			return
		}
		go func() {
			defer c.Close()
			var d wire.Deframer
			buf := make([]byte, 65536+2)
			for {
				_ = c.SetReadDeadline(time.Now().Add(30 * time.Second))
				n, err := c.Read(buf)
				if n > 0 {
					for _, f := range d.Feed(buf[:n]) {
						lu.tcpQueries.Add(1)
						if r := lu.reply(f, false); r != nil {
							if _, err := c.Write(wire.Frame(r)); err != nil {
								return
							}
						}
					}
				}
				if err != nil {
					return
				}
			}
		}()
	}
}

func (lu *loopUpstream) Close() {
	lu.uc.Close()
	lu.tl.Close()
	lu.wg.Wait()
}

func itoa(n int) string {
	if n == 0 {
		return "0"
	}
	var b [20]byte
	i := len(b)
	neg := n < 0
	if neg {
		n = -n
	}
	for n > 0 {
		i--
		b[i] = byte('0' + n%10)
		n /= 10
	}
	if neg {
		i--
		b[i] = '-'
	}
	return string(b[i:])
}
