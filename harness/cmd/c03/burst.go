package main

// Concurrent real-socket phase: several client sockets fire bursts of
// back-to-back queries (unique question per query, no waiting in between) at
// ServeUDP, pipelined queries on one connection at ServeTCP, and concurrent
// requests at the DoH handler. Every datagram / frame is collected per client
// socket and each query is judged against what came back on ITS socket with the
// usual oracle. The plugin-chain outcome is looked up by the query's unique
// question name (recorder burst mode), never by arrival order.

import (
	"errors"
	"fmt"
	"math/rand"
	"net"
	"strings"
	"sync"
	"sync/atomic"
	"time"

	"verifharness/lib/wire"
)

var burstExpiries = map[string]*atomic.Int64{"udp-burst": {}, "tcp-pipelined": {}, "doh-concurrent": {}}

type burstQ struct {
	pl      QPlan
	qw      []byte
	key     string
	replies [][]byte
	note    string
	arr     *arrival // DoH: complete arrival
}

func (b *built) genBurstQ(r *rand.Rand, tag string, id uint16, allowMalformed bool) *burstQ {
	c := b.comp
	// unique first label under a configured name (so that domain: rules of hosts /
	// redirect / matchers apply) or directly under the composition's domain
	var suffix []byte
	var cands [][]byte
	for _, p := range c.Pool {
		if (p.Kind == "plain" || p.Kind == "target" || p.Kind == "plain-sub") && len(p.Name) < 120 {
			cands = append(cands, p.Name)
		}
	}
	if len(cands) > 0 && r.Intn(4) > 0 {
		suffix = cands[r.Intn(len(cands))]
	} else {
		suffix = wire.EncodeName(fmt.Sprintf("c%d.test.", c.Idx))
	}
	name := append([]byte{byte(len(tag))}, tag...)
	name = append(name, suffix...)
	switch r.Intn(3) {
	case 0:
		name = flipCase(r, name, 0)
	case 1:
		name = lowerWire(name)
	}
	q := QSpec{ID: id, Name: name, NameStr: nameString(name), Class: 1, PoolIdx: -1}
	q.Type = []uint16{1, 1, 28, 28, 16, 5, 65}[r.Intn(7)]
	q.Flags = flagsFromCounter(r.Intn(2048), r.Intn(10) < 7)
	if c.OptOnly || r.Intn(2) == 0 {
		o := &OptSpec{Size: []uint16{0, 512, 1232, 1232}[r.Intn(4)], DO: r.Intn(3) == 0}
		if r.Intn(4) == 0 {
			o.Options = []OptOption{{Code: 8, Data: []byte{0, 1, 24, 0, 198, 51, 100}}}
		}
		q.OPT = o
	}
	if allowMalformed && r.Intn(10) == 0 {
		q.Malform = []string{"qr", "qd2", "ar2", "an1"}[r.Intn(4)]
	}
	return &burstQ{pl: QPlan{Q: q}, qw: q.Wire(), key: q.NameStr}
}

// attribute distributes what arrived on one client socket over the queries sent
// from it: by ID first; what matches no ID goes to queries that are still
// without reply (the oracle then reports the wrong ID / question), the rest to
// the first query as surplus.
func attribute(qs []*burstQ, got [][]byte) {
	byID := map[uint16]*burstQ{}
	for _, q := range qs {
		byID[q.pl.Q.ID] = q
	}
	var rest [][]byte
	for _, d := range got {
		if len(d) >= 2 {
			if q := byID[uint16(d[0])<<8|uint16(d[1])]; q != nil {
				q.replies = append(q.replies, d)
				continue
			}
		}
		rest = append(rest, d)
	}
	for _, d := range rest {
		placed := false
		for _, q := range qs {
			if len(q.replies) == 0 && q.pl.Q.Valid() {
				q.replies = append(q.replies, d)
				q.note = "this datagram/frame carries an ID that no query on this socket used"
				placed = true
				break
			}
		}
		if !placed && len(qs) > 0 {
			qs[0].replies = append(qs[0].replies, d)
			qs[0].note = "surplus datagram/frame on this socket"
		}
	}
}

type dgram struct {
	sock int
	data []byte
}

func (b *built) burstUDP(r *rand.Rand, round int) (all [][]*burstQ, expired bool, err error) {
	sk := b.sk
	port := sk.us.LocalAddr().(*net.UDPAddr).Port
	nsock := 4 + r.Intn(5)
	per := 3 + r.Intn(6)
	in := make(chan dgram, 8192)
	var conns []*net.UDPConn
	var rwg sync.WaitGroup
	defer func() {
		for _, c := range conns {
			c.Close()
		}
		rwg.Wait()
	}()
	sharedBase := uint16(r.Intn(65536))
	expected := 0
	for s := 0; s < nsock; s++ {
		c, e := net.DialUDP("udp4", nil, &net.UDPAddr{IP: net.IPv4(127, 0, 0, 1), Port: port})
		if e != nil {
			return nil, false, e
		}
		conns = append(conns, c)
		base := uint16(r.Intn(65536))
		if r.Intn(3) == 0 {
			base = sharedBase // the same IDs on several sockets: only the address tells them apart
		}
		var qs []*burstQ
		for i := 0; i < per; i++ {
			q := b.genBurstQ(r, fmt.Sprintf("u%dx%dx%d", round, s, i), base+uint16(i)*7, true)
			if q.pl.Q.Valid() {
				expected++
			}
			q.pl.Transport = "udp-burst"
			qs = append(qs, q)
		}
		all = append(all, qs)
		rwg.Add(1)
		go func(s int, c *net.UDPConn) {
			defer rwg.Done()
			buf := make([]byte, 65536)
			for {
				n, e := c.Read(buf)
				if e != nil {
					return
				}
				in <- dgram{s, append([]byte(nil), buf[:n]...)}
			}
		}(s, c)
	}
	start := make(chan struct{})
	var wwg sync.WaitGroup
	werr := make([]error, nsock)
	for s := 0; s < nsock; s++ {
		wwg.Add(1)
		go func(s int) {
			defer wwg.Done()
			<-start
			for _, q := range all[s] {
				if _, e := conns[s].Write(q.qw); e != nil {
					werr[s] = e
					return
				}
			}
		}(s)
	}
	close(start)
	wwg.Wait()
	for _, e := range werr {
		if e != nil {
			return nil, false, e
		}
	}
	got := make([][][]byte, nsock)
	n := 0
	wd := time.NewTimer(sk.wd)
	defer wd.Stop()
collect:
	for n < expected {
		select {
		case d := <-in:
			got[d.sock] = append(got[d.sock], d.data)
			n++
		case <-wd.C:
			expired = true
			break collect
		}
	}
	settle := time.NewTimer(10 * time.Millisecond)
	defer settle.Stop()
more:
	for {
		select {
		case d := <-in:
			got[d.sock] = append(got[d.sock], d.data)
		case <-settle.C:
			break more
		}
	}
	for s := range all {
		attribute(all[s], got[s])
	}
	return all, expired, nil
}

func (b *built) burstTCP(r *rand.Rand, round int) (all [][]*burstQ, expired bool, err error) {
	sk := b.sk
	nconn := 2 + r.Intn(2)
	per := 3 + r.Intn(6)
	for s := 0; s < nconn; s++ {
		base := uint16(r.Intn(65536))
		var qs []*burstQ
		for i := 0; i < per; i++ {
			q := b.genBurstQ(r, fmt.Sprintf("t%dx%dx%d", round, s, i), base+uint16(i)*11, false)
			q.pl.Transport = "tcp-pipelined"
			qs = append(qs, q)
		}
		all = append(all, qs)
	}
	oneWrite := r.Intn(2) == 0
	var wg sync.WaitGroup
	errs := make([]error, nconn)
	exp := make([]bool, nconn)
	for s := 0; s < nconn; s++ {
		wg.Add(1)
		go func(s int) {
			defer wg.Done()
			pending := all[s]
			for attempt := 0; attempt < 3 && len(pending) > 0; attempt++ {
				frames, timedOut, e := pipeline(sk, pending, oneWrite)
				if e != nil {
					errs[s] = e
					return
				}
				attribute(pending, frames)
				if timedOut {
					exp[s] = true
					return
				}
				// A connection the server closed before it handed some frames to the
				// handler (its 2 s first-read timer can fire when the client is starved
				// between connect and write): timing, not behaviour. Pipeline those
				// queries again on a new connection; what repeats is reported.
				var again []*burstQ
				for _, q := range pending {
					if len(q.replies) == 0 && sk.hw.byName(q.key).calls == 0 {
						again = append(again, q)
					}
				}
				if len(again) > 0 && attempt < 2 {
					rep.Count("burst_tcp_repipelined_unhandled", int64(len(again)))
				}
				pending = again
			}
		}(s)
	}
	wg.Wait()
	for s := range errs {
		if errs[s] != nil {
			return nil, false, errs[s]
		}
		expired = expired || exp[s]
	}
	return all, expired, nil
}

// pipeline writes all frames back to back on one new connection and collects
// the reply frames until there is one per query, EOF, or the watchdog.
func pipeline(sk *sockets, qs []*burstQ, oneWrite bool) (frames [][]byte, timedOut bool, err error) {
	c, e := net.DialTimeout("tcp4", sk.tl.Addr().String(), 5*time.Second)
	if e != nil {
		return nil, false, e
	}
	defer c.Close()
	var stream []byte
	for _, q := range qs {
		f := wire.Frame(q.qw)
		if oneWrite {
			stream = append(stream, f...)
		} else if _, e := c.Write(f); e != nil {
			return nil, false, nil // closed under us: the caller decides per query
		}
	}
	if oneWrite {
		if _, e := c.Write(stream); e != nil {
			return nil, false, nil
		}
	}
	var d wire.Deframer
	buf := make([]byte, 70000)
	_ = c.SetReadDeadline(time.Now().Add(sk.wd))
	eof := false
	for len(frames) < len(qs) {
		n, e := c.Read(buf)
		if n > 0 {
			frames = append(frames, d.Feed(buf[:n])...)
		}
		if e != nil {
			var ne net.Error
			if errors.As(e, &ne) && ne.Timeout() {
				timedOut = true
			}
			eof = true
			break
		}
	}
	if !eof {
		_ = c.SetReadDeadline(time.Now().Add(5 * time.Millisecond))
		for {
			n, e := c.Read(buf)
			if n > 0 {
				frames = append(frames, d.Feed(buf[:n])...)
			}
			if e != nil {
				break
			}
		}
	}
	if rest := d.Rest(); len(rest) > 0 {
		frames = append(frames, append([]byte(nil), rest...))
	}
	return frames, timedOut, nil
}

func (b *built) burstDoH(r *rand.Rand, round int) [][]*burstQ {
	sk := b.sk
	n := 4 + r.Intn(5)
	var qs []*burstQ
	for i := 0; i < n; i++ {
		q := b.genBurstQ(r, fmt.Sprintf("h%dx%d", round, i), uint16(r.Intn(65536)), true)
		q.pl.Transport = []string{"doh-get-concurrent", "doh-post-concurrent"}[r.Intn(2)]
		qs = append(qs, q)
	}
	var wg sync.WaitGroup
	for _, q := range qs {
		wg.Add(1)
		go func(q *burstQ) {
			defer wg.Done()
			a := sk.doh(q.qw, strings.HasPrefix(q.pl.Transport, "doh-post"))
			q.arr = &a
		}(q)
	}
	wg.Wait()
	return [][]*burstQ{qs}
}

// burstPhase runs the concurrent rounds for one composition and judges them.
func (b *built) burstPhase(seed int64, cc compCase, udpRounds, tcpRounds, dohRounds int) {
	c := b.comp
	sk, err := b.sockets()
	for try := 0; err != nil && try < 5; try++ {
		time.Sleep(100 * time.Millisecond)
		sk, err = b.sockets()
	}
	if err != nil {
		rep.Count("burst_rounds_skipped", 1)
		return
	}
	r := rand.New(rand.NewSource(seed*7368787 + int64(c.Idx)*31 + 11))
	b.rt.begin(nil)
	judgeAll := func(kind string, all [][]*burstQ, fromUDP bool, expired bool) {
		if expired {
			rep.Count("burst_watchdog_expired_"+kind, 1)
		}
		for _, qs := range all {
			for _, q := range qs {
				e := b.rec.byName(q.key)
				hd := sk.hw.byName(q.key)
				arr := arrival{replies: q.replies, fromUDP: fromUDP}
				if q.arr != nil {
					arr = *q.arr
				}
				if arr.harness != "" {
					rep.Count("burst_unobserved", 1)
					continue
				}
				if arr.note == "" {
					arr.note = q.note
				}
				if len(arr.replies) == 0 && q.pl.Q.Valid() {
					arr.note = fmt.Sprintf("%s; the handler was called %d time(s) for this question and returned %d bytes; watchdog expired=%v", arr.note, hd.calls, hd.n, expired)
				}
				tg := q.pl.Transport
				o := &observation{q: &q.pl.Q, qw: q.qw, arr: arr, recCalls: e.calls, recErr: e.err, recResp: e.resp, transport: tg}
				v := judge(o)
				rep.Eval(1)
				rep.Count("deliveries_"+kind, 1)
				rep.Count("class_"+strings.SplitN(v.class, "+", 2)[0], 1)
				if q.pl.Q.Valid() {
					rep.Count("valid_queries", 1)
					rep.Count("burst_valid_queries", 1)
					if len(arr.replies) == 1 {
						rep.Count("valid_queries_with_exactly_one_reply", 1)
						rep.Count("burst_valid_queries_with_exactly_one_reply", 1)
					}
					if v.truncated {
						rep.Count("truncated_replies", 1)
					}
					if e.calls > 1 {
						rep.Count("burst_questions_handled_more_than_once", 1)
					}
				} else {
					rep.Count("malformed_queries", 1)
					if len(arr.replies) == 0 {
						rep.Count("malformed_queries_without_reply", 1)
					}
				}
				rep.Nontrivial(fmt.Sprintf("%s|%s|%s|%v|false", c.Shape, v.class, tg, v.truncated))
				rep.SetAdd("outcome_transport", fmt.Sprintf("%s/%s/trunc=%v", v.class, tg, v.truncated))
				seen := map[string]bool{}
				for fi, f := range v.fails {
					if fi > 0 {
						break // concurrent mix-ups cascade: the primary failure names the class
					}
					key := f.class + "-" + kind
					if f.class == "reply-to-malformed" {
						key = f.class + "-" + q.pl.Q.Malform
					}
					if seen[key] {
						continue
					}
					seen[key] = true
					w := cc
					w.UpTo = -1
					w.Burst = true
					w.Comp = c
					w.Plan = &q.pl
					w.QueryHex = fmt.Sprintf("%x", q.qw)
					for _, rb := range arr.replies {
						w.Replies = append(w.Replies, hexShort(rb))
					}
					w.Chain = chainStr(o)
					w.Note = arr.note
					rep.Violation(key, fmt.Sprintf("%s [composition %d shape %s, %s (concurrent phase), query %q type %d class %d id %d]",
						f.what, c.Idx, c.Shape, tg, q.pl.Q.NameStr, q.pl.Q.Type, q.pl.Q.Class, q.pl.Q.ID), w)
				}
			}
		}
	}
	round := 0
	stop := map[string]bool{}
	phase := func(kind string, rounds int, run func(int) ([][]*burstQ, bool, error), fromUDP bool) {
		for i := 0; i < rounds; i++ {
			// replies that keep getting lost in one kind of round are reported once per
			// composition (and a few times per run): do not wait for more of the same
			if stop[kind] || burstExpiries[kind].Load() >= 8 {
				rep.Count("burst_rounds_skipped_after_loss_"+kind, 1)
				continue
			}
			round++
			b.rec.setBurst(true)
			sk.hw.setBurst(true)
			t0 := time.Now()
			all, expired, err := run(round)
			rep.Count("burst_ms_"+kind, time.Since(t0).Milliseconds())
			b.rec.mu.Lock()
			b.rec.burst = false
			b.rec.mu.Unlock()
			sk.hw.mu.Lock()
			sk.hw.burst = false
			sk.hw.mu.Unlock()
			if err != nil {
				rep.Count("burst_rounds_skipped", 1)
				continue
			}
			rep.Count("burst_rounds_"+kind, 1)
			judgeAll(kind, all, fromUDP, expired)
			if expired {
				stop[kind] = true
				burstExpiries[kind].Add(1)
			}
		}
	}
	phase("udp-burst", udpRounds, func(n int) ([][]*burstQ, bool, error) { return b.burstUDP(r, n) }, true)
	phase("tcp-pipelined", tcpRounds, func(n int) ([][]*burstQ, bool, error) { return b.burstTCP(r, n) }, false)
	phase("doh-concurrent", dohRounds, func(n int) ([][]*burstQ, bool, error) { return b.burstDoH(r, n), false, nil }, false)
	sk.hw.drain()
}
