package main

// Building a composition through the real loader, the recorder around the entry
// executable, and the arrival paths (direct EntryHandler.Handle, real sockets).

import (
	"bytes"
	"context"
	"encoding/base64"
	"errors"
	"fmt"
	"io"
	"net"
	"net/http"
	"net/netip"
	"strings"
	"sync"
	"time"

	"github.com/IrineSistiana/mosdns/v5/coremain"
	"github.com/IrineSistiana/mosdns/v5/mlog"
	"github.com/IrineSistiana/mosdns/v5/pkg/pool"
	"github.com/IrineSistiana/mosdns/v5/pkg/query_context"
	"github.com/IrineSistiana/mosdns/v5/pkg/server"
	"github.com/IrineSistiana/mosdns/v5/pkg/server_handler"
	_ "github.com/IrineSistiana/mosdns/v5/plugin" // registers every built-in plugin
	"github.com/IrineSistiana/mosdns/v5/plugin/executable/sequence"
	"github.com/miekg/dns"

	"verifharness/lib/poolsan"
	"verifharness/lib/wire"
)

// recorder wraps the entry executable and notes what the plugin chain returned.
type recorder struct {
	inner sequence.Executable
	mu    sync.Mutex
	calls int
	err   error
	resp  *dns.Msg
}

func (r *recorder) Exec(ctx context.Context, qCtx *query_context.Context) error {
	err := r.inner.Exec(ctx, qCtx)
	var snap *dns.Msg
	if m := qCtx.R(); m != nil {
		snap = m.Copy()
	}
	r.mu.Lock()
	r.calls++
	r.err = err
	r.resp = snap
	r.mu.Unlock()
	return err
}

func (r *recorder) reset() {
	r.mu.Lock()
	r.calls, r.err, r.resp = 0, nil, nil
	r.mu.Unlock()
}

func (r *recorder) get() (int, error, *dns.Msg) {
	r.mu.Lock()
	defer r.mu.Unlock()
	return r.calls, r.err, r.resp
}

// hwrap reports when Handle returned (event-based "no reply" over sockets).
type handled struct {
	nilPayload bool
	n          int
}

type hwrap struct {
	h  server.Handler
	ch chan handled
}

func (w *hwrap) Handle(ctx context.Context, q *dns.Msg, meta server.QueryMeta, pack func(m *dns.Msg) (*[]byte, error)) *[]byte {
	p := w.h.Handle(ctx, q, meta, pack)
	ev := handled{nilPayload: p == nil}
	if p != nil {
		ev.n = len(*p)
	}
	select {
	case w.ch <- ev:
	default:
	}
	return p
}

func (w *hwrap) drain() {
	for {
		select {
		case <-w.ch:
		default:
			return
		}
	}
}

type built struct {
	comp *Comp
	rt   *compRuntime
	m    *coremain.Mosdns
	rec  *recorder
	h    *server_handler.EntryHandler
	lu   *loopUpstream
	sk   *sockets
}

func subst(v any, up string) any {
	switch t := v.(type) {
	case string:
		return strings.ReplaceAll(t, "@UPSTREAM@", up)
	case []any:
		out := make([]any, len(t))
		for i := range t {
			out[i] = subst(t[i], up)
		}
		return out
	case []string:
		out := make([]any, len(t))
		for i := range t {
			out[i] = subst(t[i], up)
		}
		return out
	case map[string]any:
		out := make(map[string]any, len(t))
		for k, x := range t {
			out[k] = subst(x, up)
		}
		return out
	}
	return v
}

func build(c *Comp) (*built, error) {
	rt := &compRuntime{idx: c.Idx, script: c.Script}
	runtimes.Store(c.Idx, rt)
	b := &built{comp: c, rt: rt}
	up := ""
	if c.Terminal != "echo" {
		lu, err := startLoopUpstream(rt)
		if err != nil {
			return nil, fmt.Errorf("loopback upstream: %w", err)
		}
		b.lu = lu
		switch c.Terminal {
		case "forward-udp":
			up = fmt.Sprintf("udp://127.0.0.1:%d", lu.port)
			if c.Idx%2 == 0 {
				up = fmt.Sprintf("127.0.0.1:%d", lu.port)
			}
		case "forward-tcp":
			up = fmt.Sprintf("tcp://127.0.0.1:%d", lu.port)
			if c.Idx%3 == 0 {
				up = fmt.Sprintf("tcp+pipeline://127.0.0.1:%d", lu.port)
			}
		}
	}
	cfg := &coremain.Config{Log: mlog.LogConfig{Level: "fatal"}}
	for _, p := range c.Plugins {
		cfg.Plugins = append(cfg.Plugins, coremain.PluginConfig{Tag: p.Tag, Type: p.Type, Args: subst(p.Args, up)})
	}
	m, err := coremain.NewMosdns(cfg)
	if err != nil {
		if b.lu != nil {
			b.lu.Close()
		}
		runtimes.Delete(c.Idx)
		return nil, err
	}
	b.m = m
	entry, _ := m.GetPlugin("main").(sequence.Executable)
	if entry == nil {
		b.Close()
		return nil, errors.New("main sequence is not executable")
	}
	b.rec = &recorder{inner: entry}
	b.h = server_handler.NewEntryHandler(server_handler.EntryHandlerOpts{
		Entry:        b.rec,
		QueryTimeout: time.Duration(c.TimeoutMs) * time.Millisecond,
	})
	return b, nil
}

func (b *built) Close() {
	if b.sk != nil {
		b.sk.Close()
		b.sk = nil
	}
	if b.m != nil {
		b.m.CloseWithErr(nil)
		_ = b.m.GetSafeClose().WaitClosed()
	}
	if b.lu != nil {
		b.lu.Close()
	}
	runtimes.Delete(b.comp.Idx)
}

// result of sending one message.
type arrival struct {
	replies  [][]byte
	note     string // what happened before / instead of the handler
	stray    int    // datagrams that were pending before this query was sent
	framing  string // framing anomaly of the reply (length prefix, stray bytes, content type)
	harness  string // non-empty: the harness could not observe (inconclusive)
	fromUDP  bool
	status   int // HTTP status (DoH)
	released bool
}

// direct calls EntryHandler.Handle the way the three server kinds do.
func (b *built) direct(qw []byte, mode string, client netip.Addr) arrival {
	a := arrival{fromUDP: mode == "h-udp"}
	q := new(dns.Msg)
	if err := q.Unpack(qw); err != nil {
		a.note = "server-side unpack failed: " + err.Error()
		return a
	}
	meta := server.QueryMeta{ClientAddr: client, FromUDP: a.fromUDP}
	pack := pool.PackBuffer
	if mode == "h-tcp" {
		pack = pool.PackTCPBuffer
	}
	if mode == "h-doh" {
		meta.UrlPath = "/dns-query"
	}
	p := b.h.Handle(context.Background(), q, meta, pack)
	if p == nil {
		return a
	}
	if !poolsan.Check(p, "payload returned by EntryHandler.Handle") {
		a.released = true
	}
	out := append([]byte(nil), *p...)
	pool.ReleaseBuf(p)
	if mode == "h-tcp" {
		if len(out) < 2 || int(out[0])<<8|int(out[1]) != len(out)-2 {
			a.framing = "bad length prefix from PackTCPBuffer"
			a.replies = [][]byte{out}
			return a
		}
		out = out[2:]
	}
	a.replies = [][]byte{out}
	return a
}

// ---- real sockets ----

type sockets struct {
	hw *hwrap

	us *net.UDPConn
	uc *net.UDPConn

	tl net.Listener
	tc net.Conn
	td wire.Deframer

	hl  net.Listener
	hs  *http.Server
	hc  *http.Client
	url string

	wd      time.Duration
	rawN    int // stream bytes received since the current TCP query was written
	expired int // delivery waits that expired (the transport is then abandoned)
}

func (b *built) sockets() (*sockets, error) {
	if b.sk != nil {
		return b.sk, nil
	}
	s := &sockets{hw: &hwrap{h: b.h, ch: make(chan handled, 64)}}
	s.wd = time.Duration(b.comp.TimeoutMs)*time.Millisecond + 5*time.Second
	var err error
	// every other socket composition listens on the unspecified address, which
	// makes ServeUDP use its control-message (destination address) path
	lip := net.IPv4(127, 0, 0, 1)
	if b.comp.Idx%8 == 0 {
		lip = net.IPv4zero
	}
	s.us, err = net.ListenUDP("udp4", &net.UDPAddr{IP: lip})
	if err != nil {
		return nil, err
	}
	go func() { _ = server.ServeUDP(s.us, s.hw, server.UDPServerOpts{}) }()
	s.uc, err = net.DialUDP("udp4", nil, &net.UDPAddr{IP: net.IPv4(127, 0, 0, 1), Port: s.us.LocalAddr().(*net.UDPAddr).Port})
	if err != nil {
		s.Close()
		return nil, err
	}
	s.tl, err = net.Listen("tcp4", "127.0.0.1:0")
	if err != nil {
		s.Close()
		return nil, err
	}
	go func() { _ = server.ServeTCP(s.tl, s.hw, server.TCPServerOpts{}) }()
	s.hl, err = net.Listen("tcp4", "127.0.0.1:0")
	if err != nil {
		s.Close()
		return nil, err
	}
	s.hs = &http.Server{Handler: server.NewHttpHandler(s.hw, server.HttpHandlerOpts{})}
	go func() { _ = s.hs.Serve(s.hl) }()
	s.hc = &http.Client{Timeout: s.wd, Transport: &http.Transport{MaxIdleConns: 4, IdleConnTimeout: 30 * time.Second}}
	s.url = "http://" + s.hl.Addr().String() + "/dns-query"
	b.sk = s
	return s, nil
}

func (s *sockets) Close() {
	if s.uc != nil {
		s.uc.Close()
	}
	if s.us != nil {
		s.us.Close()
	}
	if s.tc != nil {
		s.tc.Close()
	}
	if s.tl != nil {
		s.tl.Close()
	}
	if s.hs != nil {
		_ = s.hs.Close()
	}
	if s.hc != nil {
		s.hc.CloseIdleConnections()
	}
}

// waitHandled waits for the "Handle returned" event.
func (s *sockets) waitHandled(d time.Duration) (handled, bool) {
	t := time.NewTimer(d)
	defer t.Stop()
	select {
	case ev := <-s.hw.ch:
		return ev, true
	case <-t.C:
		return handled{}, false
	}
}

func (s *sockets) readUDP(d time.Duration) []byte {
	buf := make([]byte, 65536)
	_ = s.uc.SetReadDeadline(time.Now().Add(d))
	n, err := s.uc.Read(buf)
	if err != nil {
		return nil
	}
	return buf[:n]
}

const deliverWait = 3 * time.Second      // loopback delivery of bytes the handler is known to have returned
const settleNone = 25 * time.Millisecond // "no reply" window after the handler is known to have returned nothing
const settleMore = 2 * time.Millisecond  // "none other" window after the reply

func (s *sockets) udp(qw []byte) arrival {
	a := arrival{fromUDP: true}
	s.hw.drain()
	// a datagram that is already pending belongs to an earlier query (a late
	// second reply); it must not be attributed to this one
	for {
		r := s.readUDP(time.Microsecond)
		if r == nil {
			break
		}
		a.stray++
	}
	if _, err := s.uc.Write(qw); err != nil {
		a.harness = "udp client write: " + err.Error()
		return a
	}
	ev, ok := s.waitHandled(200 * time.Millisecond)
	if !ok {
		// either the server dropped the datagram before the handler (it does not
		// unpack) or the handler is slow: look at the wire, then wait for the handler
		if r := s.readUDP(settleNone); r != nil {
			a.replies = append(a.replies, r)
		}
		ev, ok = s.waitHandled(time.Millisecond)
		if !ok {
			q := new(dns.Msg)
			if err := q.Unpack(qw); err != nil {
				a.note = "server-side unpack failed: " + err.Error()
				return a
			}
			ev, ok = s.waitHandled(s.wd)
			if !ok {
				a.harness = "handler did not return within the watchdog"
				return a
			}
		}
	}
	if ev.nilPayload {
		if r := s.readUDP(settleNone); r != nil {
			a.replies = append(a.replies, r)
		}
		return a
	}
	if len(a.replies) == 0 {
		r := s.readUDP(deliverWait)
		if r == nil {
			s.expired++
			a.note = fmt.Sprintf("handler returned a %d-byte payload but no datagram arrived within %v", ev.n, deliverWait)
			return a
		}
		a.replies = append(a.replies, r)
	}
	for {
		r := s.readUDP(settleMore)
		if r == nil {
			break
		}
		a.replies = append(a.replies, r)
	}
	return a
}

// readFrames reads until the deadline, EOF, `want` frames or (wantBytes > 0)
// until that many stream bytes have arrived since the query was written.
func (s *sockets) readFrames(d time.Duration, want int, wantBytes int) (frames [][]byte, eof bool) {
	buf := make([]byte, 70000)
	deadline := time.Now().Add(d)
	for {
		if wantBytes > 0 && s.rawN >= wantBytes {
			return frames, false
		}
		_ = s.tc.SetReadDeadline(deadline)
		n, err := s.tc.Read(buf)
		if n > 0 {
			s.rawN += n
			frames = append(frames, s.td.Feed(buf[:n])...)
		}
		if err != nil {
			var ne net.Error
			if errors.As(err, &ne) && ne.Timeout() {
				return frames, false
			}
			return frames, true
		}
		if want > 0 && len(frames) >= want {
			return frames, false
		}
	}
}

func (s *sockets) tcp(qw []byte, fresh bool) arrival {
	a := arrival{}
	for attempt := 0; attempt < 2; attempt++ {
		if s.tc != nil && (fresh || attempt > 0) {
			s.tc.Close()
			s.tc = nil
		}
		if s.tc == nil {
			c, err := net.DialTimeout("tcp4", s.tl.Addr().String(), 5*time.Second)
			if err != nil {
				a.harness = "tcp client dial: " + err.Error()
				return a
			}
			s.tc = c
			s.td = wire.Deframer{}
		}
		s.hw.drain()
		s.rawN = 0
		if _, err := s.tc.Write(wire.Frame(qw)); err != nil {
			continue // reused connection was closed by the idle timer: retry on a fresh one
		}
		ev, ok := s.waitHandled(300 * time.Millisecond)
		if !ok {
			// not (yet) handled: connection closed by the server (frame does not unpack)?
			frames, eof := s.readFrames(settleNone, 0, 0)
			a.replies = append(a.replies, frames...)
			if eof {
				s.tc.Close()
				s.tc = nil
				q := new(dns.Msg)
				if err := q.Unpack(qw); err != nil {
					a.note = "server-side unpack failed: " + err.Error()
					return a
				}
				if len(frames) == 0 && attempt == 0 {
					a = arrival{}
					continue // stale connection
				}
				a.note = "connection closed before the handler ran"
				return a
			}
			ev, ok = s.waitHandled(s.wd)
			if !ok {
				a.harness = "handler did not return within the watchdog"
				return a
			}
		}
		if ev.nilPayload {
			// the server aborts the connection; anything before EOF is a reply
			frames, eof := s.readFrames(2*time.Second, 1, 0)
			a.replies = append(a.replies, frames...)
			if !eof {
				a.note = "connection not closed after a nil payload"
			}
			s.tc.Close()
			s.tc = nil
			return a
		}
		if len(a.replies) == 0 {
			// the handler returned ev.n bytes: exactly those must arrive and be one frame
			frames, eof := s.readFrames(deliverWait, 0, ev.n)
			a.replies = append(a.replies, frames...)
			if len(frames) == 0 {
				rest := append([]byte(nil), s.td.Rest()...)
				if s.rawN < ev.n {
					s.expired++
					a.note = fmt.Sprintf("handler returned a %d-byte payload but only %d bytes arrived (eof=%v)", ev.n, s.rawN, eof)
				} else {
					a.framing = fmt.Sprintf("the %d bytes written for the reply are not one length-prefixed frame (prefix %x)", s.rawN, rest[:min(2, len(rest))])
					a.replies = append(a.replies, rest)
				}
				s.tc.Close()
				s.tc = nil
				return a
			}
			if eof {
				s.tc.Close()
				s.tc = nil
				return a
			}
		}
		frames, eof := s.readFrames(settleMore, 0, 0)
		a.replies = append(a.replies, frames...)
		if eof {
			s.tc.Close()
			s.tc = nil
		}
		if rest := s.td.Rest(); len(rest) > 0 {
			a.framing = fmt.Sprintf("%d stray bytes after the reply frame", len(rest))
			a.replies = append(a.replies, rest)
			if s.tc != nil {
				s.tc.Close()
				s.tc = nil
			}
		}
		return a
	}
	a.harness = "tcp client could not send"
	return a
}

func (s *sockets) doh(qw []byte, post bool) arrival {
	a := arrival{}
	var req *http.Request
	var err error
	if post {
		req, err = http.NewRequest(http.MethodPost, s.url, bytes.NewReader(qw))
		if err == nil {
			req.Header.Set("Content-Type", "application/dns-message")
		}
	} else {
		req, err = http.NewRequest(http.MethodGet, s.url+"?dns="+base64.RawURLEncoding.EncodeToString(qw), nil)
		if err == nil {
			req.Header.Set("Accept", "application/dns-message")
		}
	}
	if err != nil {
		a.harness = "http request: " + err.Error()
		return a
	}
	resp, err := s.hc.Do(req)
	if err != nil {
		a.harness = "http client: " + err.Error()
		return a
	}
	body, err := io.ReadAll(resp.Body)
	resp.Body.Close()
	a.status = resp.StatusCode
	if err != nil {
		a.harness = "http body: " + err.Error()
		return a
	}
	if resp.StatusCode == http.StatusOK {
		a.replies = [][]byte{body}
		if ct := resp.Header.Get("Content-Type"); ct != "application/dns-message" {
			a.framing = "200 with content-type " + ct
		}
	} else {
		a.note = fmt.Sprintf("http status %d", resp.StatusCode)
		if len(body) >= 12 && resp.Header.Get("Content-Type") == "application/dns-message" {
			a.replies = [][]byte{body}
		}
	}
	return a
}
