package main

// Building a composition through the real loader, the recorder around the entry
// executable, and the arrival paths (direct EntryHandler.Handle, real sockets).

import (
	"bytes"
	"context"
	"encoding/base64"
	"errors"
	"fmt"
	"io"
	"net"
	"net/http"
	"net/netip"
	"runtime"
	"strings"
	"sync"
	"sync/atomic"
	"time"

	"github.com/IrineSistiana/mosdns/v5/coremain"
	"github.com/IrineSistiana/mosdns/v5/mlog"
	"github.com/IrineSistiana/mosdns/v5/pkg/pool"
	"github.com/IrineSistiana/mosdns/v5/pkg/query_context"
	"github.com/IrineSistiana/mosdns/v5/pkg/server"
	"github.com/IrineSistiana/mosdns/v5/pkg/server_handler"
	_ "github.com/IrineSistiana/mosdns/v5/plugin" // registers every built-in plugin
	"github.com/IrineSistiana/mosdns/v5/plugin/executable/sequence"
	"github.com/miekg/dns"
	"github.com/quic-go/quic-go"

	"verifharness/lib/poolsan"
)

// recorder wraps the entry executable and notes what the plugin chain returned.
// In burst mode (concurrent deliveries) the outcome is keyed by the query's
// own, unique question name as the entry executable receives it, never by
// arrival order.
type recEntry struct {
	calls int
	err   error
	resp  *dns.Msg
}

type recorder struct {
	inner sequence.Executable
	mu    sync.Mutex
	calls int
	err   error
	resp  *dns.Msg
	burst bool
	byKey map[string]*recEntry

	// age phase: the time the plugin chain takes for a question (slow upstream)
	delayOn atomic.Bool
	delays  map[string]time.Duration
}

func (r *recorder) setDelay(key string, d time.Duration) {
	r.mu.Lock()
	if r.delays == nil {
		r.delays = map[string]time.Duration{}
	}
	r.delays[key] = d
	r.mu.Unlock()
	r.delayOn.Store(true)
}

func (r *recorder) Exec(ctx context.Context, qCtx *query_context.Context) error {
	key := qCtx.QQuestion().Name
	if r.delayOn.Load() {
		r.mu.Lock()
		d := r.delays[key]
		r.mu.Unlock()
		if d > 0 {
			time.Sleep(d)
		}
	}
	err := r.inner.Exec(ctx, qCtx)
	var snap *dns.Msg
	if m := qCtx.R(); m != nil {
		snap = m.Copy()
	}
	r.mu.Lock()
	r.calls++
	r.err = err
	r.resp = snap
	if r.burst {
		e := r.byKey[key]
		if e == nil {
			e = &recEntry{err: err, resp: snap}
			r.byKey[key] = e
		}
		e.calls++
	}
	r.mu.Unlock()
	return err
}

func (r *recorder) reset() {
	r.mu.Lock()
	r.calls, r.err, r.resp = 0, nil, nil
	r.mu.Unlock()
}

func (r *recorder) setBurst(on bool) {
	r.mu.Lock()
	r.burst = on
	r.byKey = map[string]*recEntry{}
	r.mu.Unlock()
}

func (r *recorder) byName(key string) recEntry {
	r.mu.Lock()
	defer r.mu.Unlock()
	if e := r.byKey[key]; e != nil {
		return *e
	}
	return recEntry{}
}

func (r *recorder) get() (int, error, *dns.Msg) {
	r.mu.Lock()
	defer r.mu.Unlock()
	return r.calls, r.err, r.resp
}

// hwrap reports when Handle returned (event-based "no reply" over sockets).
type handled struct {
	nilPayload bool
	n          int
	calls      int
	at         time.Time // when Handle returned (first call)
}

type hwrap struct {
	h  server.Handler
	ch chan handled

	mu    sync.Mutex
	burst bool
	byKey map[string]*handled // burst mode: per question name
	total int
}

func (w *hwrap) Handle(ctx context.Context, q *dns.Msg, meta server.QueryMeta, pack func(m *dns.Msg) (*[]byte, error)) *[]byte {
	key := ""
	if len(q.Question) > 0 {
		key = q.Question[0].Name
	}
	p := w.h.Handle(ctx, q, meta, pack)
	ev := handled{nilPayload: p == nil, at: time.Now()}
	if p != nil {
		ev.n = len(*p)
	}
	w.mu.Lock()
	burst := w.burst
	if burst {
		w.total++
		e := w.byKey[key]
		if e == nil {
			c := ev
			e = &c
			w.byKey[key] = e
		}
		e.calls++
	}
	w.mu.Unlock()
	if !burst {
		select {
		case w.ch <- ev:
		default:
		}
	}
	return p
}

func (w *hwrap) setBurst(on bool) {
	w.mu.Lock()
	w.burst = on
	w.byKey = map[string]*handled{}
	w.total = 0
	w.mu.Unlock()
}

func (w *hwrap) byName(key string) handled {
	w.mu.Lock()
	defer w.mu.Unlock()
	if e := w.byKey[key]; e != nil {
		return *e
	}
	return handled{}
}

func (w *hwrap) drain() {
	for {
		select {
		case <-w.ch:
		default:
			return
		}
	}
}

type built struct {
	comp *Comp
	rt   *compRuntime
	m    *coremain.Mosdns
	rec  *recorder
	h    *server_handler.EntryHandler
	lu   *loopUpstream
	sk   *sockets
}

func subst(v any, up string) any {
	switch t := v.(type) {
	case string:
		return strings.ReplaceAll(t, "@UPSTREAM@", up)
	case []any:
		out := make([]any, len(t))
		for i := range t {
			out[i] = subst(t[i], up)
		}
		return out
	case []string:
		out := make([]any, len(t))
		for i := range t {
			out[i] = subst(t[i], up)
		}
		return out
	case map[string]any:
		out := make(map[string]any, len(t))
		for k, x := range t {
			out[k] = subst(x, up)
		}
		return out
	}
	return v
}

func build(c *Comp) (*built, error) {
	rt := &compRuntime{idx: c.Idx, script: c.Script}
	runtimes.Store(c.Idx, rt)
	b := &built{comp: c, rt: rt}
	up := ""
	if c.Terminal != "echo" {
		lu, err := startLoopUpstream(rt)
		if err != nil {
			return nil, fmt.Errorf("loopback upstream: %w", err)
		}
		b.lu = lu
		switch c.Terminal {
		case "forward-udp":
			up = fmt.Sprintf("udp://127.0.0.1:%d", lu.port)
			if c.Idx%2 == 0 {
				up = fmt.Sprintf("127.0.0.1:%d", lu.port)
			}
		case "forward-tcp":
			up = fmt.Sprintf("tcp://127.0.0.1:%d", lu.port)
			if c.Idx%3 == 0 {
				up = fmt.Sprintf("tcp+pipeline://127.0.0.1:%d", lu.port)
			}
		}
	}
	cfg := &coremain.Config{Log: mlog.LogConfig{Level: "fatal"}}
	for _, p := range c.Plugins {
		cfg.Plugins = append(cfg.Plugins, coremain.PluginConfig{Tag: p.Tag, Type: p.Type, Args: subst(p.Args, up)})
	}
	m, err := coremain.NewMosdns(cfg)
	if err != nil {
		if b.lu != nil {
			b.lu.Close()
		}
		runtimes.Delete(c.Idx)
		return nil, err
	}
	b.m = m
	entry, _ := m.GetPlugin("main").(sequence.Executable)
	if entry == nil {
		b.Close()
		return nil, errors.New("main sequence is not executable")
	}
	b.rec = &recorder{inner: entry}
	b.h = server_handler.NewEntryHandler(server_handler.EntryHandlerOpts{
		Entry:        b.rec,
		QueryTimeout: time.Duration(c.TimeoutMs) * time.Millisecond,
	})
	return b, nil
}

func (b *built) Close() {
	if b.sk != nil {
		b.sk.Close()
		b.sk = nil
	}
	if b.m != nil {
		b.m.CloseWithErr(nil)
		done := make(chan struct{})
		go func() {
			_ = b.m.GetSafeClose().WaitClosed()
			close(done)
		}()
		t := time.NewTimer(closeWatchdog)
		select {
		case <-done:
			t.Stop()
		case <-t.C:
			// Not this property's business (C07: Close releases everything), but the
			// run must not hang on it: leak the instance, keep the witness.
			noteCloseHang(b.comp)
		}
	}
	if b.lu != nil {
		b.lu.Close()
	}
	runtimes.Delete(b.comp.Idx)
}

// result of sending one message.
type arrival struct {
	replies  [][]byte
	note     string // what happened before / instead of the handler
	stray    int    // datagrams that were pending before this query was sent
	framing  string // framing anomaly of the reply (length prefix, stray bytes, content type)
	harness  string // non-empty: the harness could not observe (inconclusive)
	fromUDP  bool
	status   int // HTTP status (DoH)
	released bool
}

// direct calls EntryHandler.Handle the way the three server kinds do.
func (b *built) direct(qw []byte, mode string, client netip.Addr) arrival {
	a := arrival{fromUDP: mode == "h-udp"}
	q := new(dns.Msg)
	if err := q.Unpack(qw); err != nil {
		a.note = "server-side unpack failed: " + err.Error()
		return a
	}
	meta := server.QueryMeta{ClientAddr: client, FromUDP: a.fromUDP}
	pack := pool.PackBuffer
	if mode == "h-tcp" {
		pack = pool.PackTCPBuffer
	}
	if mode == "h-doh" {
		meta.UrlPath = "/dns-query"
	}
	p := b.h.Handle(context.Background(), q, meta, pack)
	if p == nil {
		return a
	}
	if !poolsan.Check(p, "payload returned by EntryHandler.Handle") {
		a.released = true
	}
	out := append([]byte(nil), *p...)
	pool.ReleaseBuf(p)
	if mode == "h-tcp" {
		if len(out) < 2 || int(out[0])<<8|int(out[1]) != len(out)-2 {
			a.framing = "bad length prefix from PackTCPBuffer"
			a.replies = [][]byte{out}
			return a
		}
		out = out[2:]
	}
	a.replies = [][]byte{out}
	return a
}

// ---- real sockets ----

type sockets struct {
	hw *hwrap

	us *net.UDPConn
	uc *net.UDPConn

	udpIn chan []byte // datagrams read from the client socket

	tl net.Listener
	tc *tconn

	hl  net.Listener
	hs  *http.Server
	hc  *http.Client
	url string

	// HTTP/2 (TLS) listener for the same DoH handler, started by the hostile-client phase
	h2l   net.Listener
	h2s   *http.Server
	h2c   *http.Client
	h2url string

	// DoT (ServeTCP behind a TLS listener) and DoQ servers, started by the age phase
	dotl   net.Listener
	doql   *quic.Listener
	doqt   *quic.Transport
	doqpc  net.PacketConn
	doqAdr string

	wd      time.Duration
	expired int // delivery waits that expired (the transport is then abandoned)
}

func (b *built) sockets() (*sockets, error) {
	if b.sk != nil {
		return b.sk, nil
	}
	s := &sockets{hw: &hwrap{h: b.h, ch: make(chan handled, 64)}}
	s.wd = time.Duration(b.comp.TimeoutMs)*time.Millisecond + 5*time.Second
	var err error
	// every other socket composition listens on the unspecified address, which
	// makes ServeUDP use its control-message (destination address) path
	lip := net.IPv4(127, 0, 0, 1)
	if b.comp.Idx%8 == 0 {
		lip = net.IPv4zero
	}
	s.us, err = net.ListenUDP("udp4", &net.UDPAddr{IP: lip})
	if err != nil {
		return nil, err
	}
	go func() { _ = server.ServeUDP(s.us, s.hw, server.UDPServerOpts{}) }()
	s.uc, err = net.DialUDP("udp4", nil, &net.UDPAddr{IP: net.IPv4(127, 0, 0, 1), Port: s.us.LocalAddr().(*net.UDPAddr).Port})
	if err != nil {
		s.Close()
		return nil, err
	}
	s.udpIn = make(chan []byte, 64)
	go udpReader(s.uc, s.udpIn)
	s.tl, err = net.Listen("tcp4", "127.0.0.1:0")
	if err != nil {
		s.Close()
		return nil, err
	}
	go func() { _ = server.ServeTCP(s.tl, s.hw, server.TCPServerOpts{}) }()
	s.hl, err = net.Listen("tcp4", "127.0.0.1:0")
	if err != nil {
		s.Close()
		return nil, err
	}
	s.hs = &http.Server{Handler: server.NewHttpHandler(s.hw, server.HttpHandlerOpts{})}
	go func() { _ = s.hs.Serve(s.hl) }()
	s.hc = &http.Client{Timeout: s.wd, Transport: &http.Transport{MaxIdleConns: 4, IdleConnTimeout: 30 * time.Second}}
	s.url = "http://" + s.hl.Addr().String() + "/dns-query"
	b.sk = s
	return s, nil
}

func (s *sockets) Close() {
	if s.uc != nil {
		s.uc.Close()
	}
	if s.us != nil {
		s.us.Close()
	}
	if s.tc != nil {
		s.tc.c.Close()
	}
	if s.tl != nil {
		s.tl.Close()
	}
	if s.hs != nil {
		_ = s.hs.Close()
	}
	if s.hc != nil {
		s.hc.CloseIdleConnections()
	}
	s.closeH2()
	s.closeAgeServers()
}

const deliverWait = 10 * time.Second     // loopback delivery of bytes the handler is known to have returned
const closeWatchdog = 20 * time.Second   // shutting a composition down
const settleNone = 25 * time.Millisecond // "no reply" window after the handler is known to have returned nothing
const settleMore = 2 * time.Millisecond  // "none other" window after the reply

func (s *sockets) doh(qw []byte, post bool) arrival {
	a := arrival{}
	var resp *http.Response
	for attempt := 0; ; attempt++ {
		var req *http.Request
		var err error
		if post {
			req, err = http.NewRequest(http.MethodPost, s.url, bytes.NewReader(qw))
			if err == nil {
				req.Header.Set("Content-Type", "application/dns-message")
			}
		} else {
			req, err = http.NewRequest(http.MethodGet, s.url+"?dns="+base64.RawURLEncoding.EncodeToString(qw), nil)
			if err == nil {
				req.Header.Set("Accept", "application/dns-message")
			}
		}
		if err != nil {
			a.harness = "http request: " + err.Error()
			return a
		}
		resp, err = s.hc.Do(req)
		if err == nil {
			break
		}
		// client-side failure (stale keep-alive connection, watchdog): re-deliver once
		s.hc.CloseIdleConnections()
		if attempt == 0 {
			rep.Count("socket_redeliveries_doh", 1)
			continue
		}
		a.harness = "http client (also on the re-delivery): " + err.Error() + "; server goroutines:\n" + serverGoroutines()
		return a
	}
	body, err := io.ReadAll(resp.Body)
	resp.Body.Close()
	a.status = resp.StatusCode
	if err != nil {
		a.harness = "http body: " + err.Error()
		return a
	}
	if resp.StatusCode == http.StatusOK {
		a.replies = [][]byte{body}
		if ct := resp.Header.Get("Content-Type"); ct != "application/dns-message" {
			a.framing = "200 with content-type " + ct
		}
	} else {
		a.note = fmt.Sprintf("http status %d", resp.StatusCode)
		if len(body) >= 12 && resp.Header.Get("Content-Type") == "application/dns-message" {
			a.replies = [][]byte{body}
		}
	}
	return a
}

var closeHangs struct {
	sync.Mutex
	n     int
	stack string
	comps []int
}

// noteCloseHang records that shutting down a composition's plugins did not
// finish; the first occurrence keeps the mosdns frames of the blocked goroutines.
func noteCloseHang(c *Comp) {
	closeHangs.Lock()
	defer closeHangs.Unlock()
	closeHangs.n++
	if len(closeHangs.comps) < 20 {
		closeHangs.comps = append(closeHangs.comps, c.Idx)
	}
	if closeHangs.stack != "" {
		return
	}
	buf := make([]byte, 4<<20)
	buf = buf[:runtime.Stack(buf, true)]
	var keep []string
	for _, g := range strings.Split(string(buf), "\n\n") {
		if !strings.Contains(g, "mosdns/v5/pkg/upstream") && !strings.Contains(g, "safe_close") {
			continue
		}
		if !strings.Contains(g, "Lock") && !strings.Contains(g, "semacquire") && !strings.Contains(g, "WaitClosed") {
			continue
		}
		lines := strings.Split(g, "\n")
		if len(lines) > 24 {
			lines = lines[:24]
		}
		keep = append(keep, strings.Join(lines, "\n"))
		if len(keep) >= 6 {
			break
		}
	}
	closeHangs.stack = strings.Join(keep, "\n\n")
}
