package main

// The oracle: compares the reply bytes (parsed with lib/wire only) with the
// query bytes and with what the recorder saw the plugin chain return.

import (
	"bytes"
	"encoding/binary"
	"encoding/hex"
	"errors"
	"fmt"

	"github.com/miekg/dns"

	"verifharness/lib/wire"
)

type fail struct {
	class string
	what  string
}

type verdict struct {
	fails     []fail
	class     string // servfail | refused | answer | malformed-<kind> | lie | dropped
	truncated bool
	size      int
	skippedRR bool
}

type observation struct {
	q         *QSpec
	qw        []byte
	arr       arrival
	recCalls  int
	recErr    error
	recResp   *dns.Msg
	tr        trace
	transport string
}

func expandName(msg []byte, off int) (raw []byte, next int, err error) {
	next = -1
	hops := 0
	for {
		if off >= len(msg) {
			return nil, 0, errors.New("short")
		}
		l := int(msg[off])
		switch l & 0xC0 {
		case 0:
			if l == 0 {
				raw = append(raw, 0)
				if next < 0 {
					next = off + 1
				}
				return raw, next, nil
			}
			if off+1+l > len(msg) {
				return nil, 0, errors.New("short label")
			}
			raw = append(raw, msg[off:off+1+l]...)
			off += 1 + l
		case 0xC0:
			if off+2 > len(msg) {
				return nil, 0, errors.New("short pointer")
			}
			if next < 0 {
				next = off + 2
			}
			hops++
			if hops > 128 {
				return nil, 0, errors.New("pointer loop")
			}
			off = int(binary.BigEndian.Uint16(msg[off:]) & 0x3FFF)
		default:
			return nil, 0, errors.New("bad label type")
		}
	}
}

// canonRdata returns the rdata with embedded names decompressed for the record
// types whose layout is known here; ok=false for types it cannot normalise.
func canonRdata(msg []byte, rr wire.RR) ([]byte, bool) {
	end := rr.RdOff + len(rr.Rdata)
	switch rr.Type {
	case 1, 28, 16, 99, 257:
		return rr.Rdata, true
	case 2, 5, 12, 39:
		n, next, err := expandName(msg[:end], rr.RdOff)
		if err != nil || next != end {
			return nil, false
		}
		return n, true
	case 15:
		if len(rr.Rdata) < 3 {
			return nil, false
		}
		n, next, err := expandName(msg[:end], rr.RdOff+2)
		if err != nil || next != end {
			return nil, false
		}
		return append(append([]byte(nil), rr.Rdata[:2]...), n...), true
	case 6:
		n1, next, err := expandName(msg[:end], rr.RdOff)
		if err != nil {
			return nil, false
		}
		n2, next2, err := expandName(msg[:end], next)
		if err != nil || end-next2 != 20 {
			return nil, false
		}
		out := append(append([]byte(nil), n1...), n2...)
		return append(out, msg[next2:end]...), true
	}
	return nil, false
}

func caseOnlyDiff(a, b []byte) bool {
	return len(a) == len(b) && bytes.EqualFold(a, b)
}

func hexShort(b []byte) string {
	if len(b) > 96 {
		return hex.EncodeToString(b[:96]) + fmt.Sprintf("...(%d bytes)", len(b))
	}
	return hex.EncodeToString(b)
}

func judge(o *observation) verdict {
	var v verdict
	q := o.q
	addf := func(class, format string, a ...any) {
		v.fails = append(v.fails, fail{class: class, what: fmt.Sprintf(format, a...)})
	}
	if o.arr.stray > 0 {
		addf("multiple-replies", "%d datagram(s) arrived after the settle window of an earlier query (late extra reply)", o.arr.stray)
	}
	if q.Lie() {
		v.class = "lie"
		return v
	}
	if !q.Valid() {
		v.class = "malformed-" + q.Malform
		if len(o.arr.replies) > 0 {
			addf("reply-to-malformed", "malformed query (%s) got %d DNS repl(y/ies); first: %s", q.Malform, len(o.arr.replies), hexShort(o.arr.replies[0]))
		}
		if o.recCalls > 0 {
			// the chain must not even be run for a malformed query; not a refuting
			// event of the statement by itself, the reply is.
			v.class += "+chain-ran"
		}
		return v
	}
	switch {
	case o.recCalls == 0:
		v.class = "unhandled"
	case o.recErr != nil:
		v.class = "servfail"
	case o.recResp == nil:
		v.class = "refused"
	default:
		v.class = "answer"
	}
	if len(o.arr.replies) == 0 {
		addf("no-reply-valid-query", "well-formed query got no reply (%s; chain calls=%d, chain err=%v, chain response=%v, http status=%d)",
			o.arr.note, o.recCalls, o.recErr, o.recResp != nil, o.arr.status)
		return v
	}
	if len(o.arr.replies) > 1 {
		addf("multiple-replies", "%d replies to one query (%s)", len(o.arr.replies), o.arr.note)
	}
	if o.arr.released {
		addf("reply-buffer-released", "the payload returned by Handle is not a live pool buffer")
	}
	if o.arr.framing != "" {
		addf("reply-framing", "%s", o.arr.framing)
	}
	r := o.arr.replies[0]
	v.size = len(r)
	m, err := wire.Parse(r)
	if err != nil {
		addf("reply-unparsable", "reply does not parse: %v: %s", err, hexShort(r))
		return v
	}
	if m.Len != len(r) {
		addf("reply-unparsable", "reply has %d trailing bytes", len(r)-m.Len)
	}
	if m.ID != q.ID {
		addf("id-mismatch", "reply ID %d, query ID %d", m.ID, q.ID)
	}
	wantQ, _ := wire.QuestionWire(o.qw)
	if m.QD != 1 {
		addf("question-count", "reply QDCOUNT=%d", m.QD)
	} else {
		gotQ, err := wire.QuestionWire(r)
		switch {
		case err != nil:
			addf("question-changed", "reply question is not a plain uncompressed question: %v", err)
		case !bytes.Equal(gotQ, wantQ):
			gn, wn := gotQ[:len(gotQ)-4], wantQ[:len(wantQ)-4]
			g := m.Questions[0]
			switch {
			case !bytes.Equal(gn, wn) && !caseOnlyDiff(gn, wn):
				addf("question-name-changed", "reply question %q type %d class %d, query %q type %d class %d", g.Name, g.Type, g.Class, q.NameStr, q.Type, q.Class)
			case !bytes.Equal(gn, wn):
				addf("question-case-changed", "reply question name %q, query %q", g.Name, q.NameStr)
			case g.Type != q.Type:
				addf("question-type-changed", "reply question %q type %d class %d, query type %d class %d", g.Name, g.Type, g.Class, q.Type, q.Class)
			default:
				addf("question-class-changed", "reply question %q type %d class %d, query type %d class %d", g.Name, g.Type, g.Class, q.Type, q.Class)
			}
		}
	}
	if !m.QR() {
		addf("qr-clear", "reply has QR=0")
	}
	if !m.RA() {
		addf("ra-clear", "reply has RA=0")
	}
	opts := m.OPTs()
	if len(opts) > 1 {
		addf("multiple-opt", "reply carries %d OPT records", len(opts))
	}
	rcode := m.Rcode()
	if len(opts) > 0 {
		rcode |= int(opts[0].ExtRcode) << 4
	}
	qh, _ := wire.ParseHeader(o.qw)
	wantRcode, wantOpcode := 0, qh.Opcode()
	wantAn, wantNs, wantEx := 0, 0, 0
	wantTC := false
	switch {
	case o.recCalls == 0:
		v.class = "answer"
		addf("reply-without-chain", "a reply was sent although the entry executable was never called")
		return v
	case o.recErr != nil:
		v.class = "servfail"
		wantRcode = 2
	case o.recResp == nil:
		v.class = "refused"
		wantRcode = 5
	default:
		v.class = "answer"
		wantRcode = o.recResp.Rcode
		wantOpcode = o.recResp.Opcode
		wantAn, wantNs = len(o.recResp.Answer), len(o.recResp.Ns)
		for _, rr := range o.recResp.Extra {
			if rr.Header().Rrtype != dns.TypeOPT {
				wantEx++
			}
			if rr.Header().Rrtype == dns.TypeTSIG {
				v.skippedRR = true
			}
		}
		wantTC = o.recResp.Truncated
	}
	if rcode != wantRcode {
		addf("rcode-mismatch", "reply rcode %d, expected %d (%s)", rcode, wantRcode, v.class)
	}
	if m.Opcode() != wantOpcode {
		addf("opcode-mismatch", "reply opcode %d, expected %d", m.Opcode(), wantOpcode)
	}
	an, ns, ex := int(m.AN), int(m.NS), m.CountNonOPT()
	if an > wantAn || ns > wantNs || ex > wantEx {
		addf("records-added", "reply sections %d/%d/%d exceed the plugins' answer %d/%d/%d (%s)", an, ns, ex, wantAn, wantNs, wantEx, v.class)
	}
	shrank := an < wantAn || ns < wantNs || ex < wantEx
	v.truncated = shrank
	if shrank {
		if !o.arr.fromUDP {
			addf("records-dropped-nonudp", "records dropped on a non-UDP arrival: %d/%d/%d of %d/%d/%d", an, ns, ex, wantAn, wantNs, wantEx)
		} else if !m.TC() {
			addf("missing-TC", "records dropped to fit (%d/%d/%d of %d/%d/%d) but TC is clear", an, ns, ex, wantAn, wantNs, wantEx)
		}
	} else {
		if m.TC() && !wantTC {
			addf("tc-without-drop", "TC set although nothing was dropped and the plugins' answer had TC clear")
		}
	}
	if wantTC && !m.TC() {
		addf("tc-lost", "the plugins' answer had TC set, the reply has not")
	}
	if o.arr.fromUDP {
		limit := 512
		if adv := q.Advertised(); adv > limit {
			limit = adv
		}
		if len(r) > limit {
			addf("udp-oversize", "UDP reply of %d bytes exceeds max(512, advertised %d)", len(r), q.Advertised())
		}
	}
	// the records that are there must be the plugins' records, in order
	if v.class == "answer" && !v.skippedRR && (an > 0 || ns > 0 || ex > 0) {
		exp := o.recResp.Copy()
		exp.Rcode &= 0xF
		exp.Compress = false
		eb, err := exp.Pack()
		var em *wire.Msg
		if err == nil {
			em, err = wire.Parse(eb)
		}
		if err != nil {
			v.skippedRR = true
		} else {
			cmp := func(sec string, got, want []wire.RR) {
				j := 0
				for _, g := range got {
					if g.Type == 41 {
						continue
					}
					for j < len(want) && want[j].Type == 41 {
						j++
					}
					if j >= len(want) {
						return
					}
					w := want[j]
					j++
					if !bytes.Equal(g.NameRaw, w.NameRaw) || g.Type != w.Type || g.Class != w.Class || g.TTL != w.TTL {
						addf("record-mismatch", "%s record: reply has %q type %d class %d ttl %d, the plugins' answer %q type %d class %d ttl %d",
							sec, g.Name, g.Type, g.Class, g.TTL, w.Name, w.Type, w.Class, w.TTL)
						return
					}
					gd, ok1 := canonRdata(r, g)
					wd, ok2 := canonRdata(eb, w)
					if ok1 && ok2 && !bytes.Equal(gd, wd) {
						addf("record-mismatch", "%s record %q type %d: rdata differs from the plugins' answer", sec, g.Name, g.Type)
						return
					}
				}
			}
			cmp("answer", m.Answer, em.Answer)
			cmp("authority", m.Ns, em.Ns)
			cmp("additional", m.Extra, em.Extra)
		}
	}
	return v
}

// feature names the composition feature involved, for the violation key.
func feature(o *observation, v *verdict, f fail) string {
	switch f.class {
	case "reply-to-malformed":
		return o.q.Malform
	case "reply-framing", "reply-unparsable", "reply-buffer-released":
		return o.transport
	case "udp-oversize", "missing-TC":
		switch {
		case o.q.OPT == nil:
			return "no-opt"
		case o.q.OPT.Size < 512:
			return "opt-below-512"
		}
		return "opt"
	}
	switch {
	case v.class == "unhandled" || f.class == "multiple-replies":
		return v.class
	case o.tr.cacheHit:
		return "cache-hit"
	case o.tr.redirected:
		return "redirect"
	}
	return v.class
}
