package main

// Plugin compositions: generated as configuration data (plugin args + sequence
// rule text) and built through the real loader (coremain.NewMosdns ->
// registry NewPlugin / sequence quick setup).

import (
	"fmt"
	"math/rand"
	"strings"

	"verifharness/lib/wire"
)

// PluginCfg mirrors coremain.PluginConfig with JSON-able args.
type PluginCfg struct {
	Tag  string `json:"tag"`
	Type string `json:"type"`
	Args any    `json:"args,omitempty"`
}

// Rule is one sequence rule (text form).
type Rule struct {
	Matches []string `json:"matches,omitempty"`
	Exec    string   `json:"exec"`
}

// PoolQ is one question of the composition's question pool.
type PoolQ struct {
	Name  []byte `json:"name_wire"`
	Str   string `json:"name"`
	Type  uint16 `json:"type"`
	Class uint16 `json:"class"`
	Kind  string `json:"kind"`
}

// Comp is one generated composition.
type Comp struct {
	Idx       int         `json:"idx"`
	Plugins   []PluginCfg `json:"plugins"`
	Shape     string      `json:"shape"`
	Terminal  string      `json:"terminal"` // echo | forward-udp | forward-tcp
	OptOnly   bool        `json:"opt_only"`
	Script    []Outcome   `json:"script"`
	Pool      []PoolQ     `json:"pool"`
	TimeoutMs int         `json:"query_timeout_ms"`
	Features  []string    `json:"features"`
}

type cgen struct {
	r        *rand.Rand
	c        *Comp
	dom      string
	plain    []string // plain names usable in rule text (no trailing dot)
	targets  []string
	have     map[string]bool // tagged plugins already emitted
	plugins  []PluginCfg
	seqs     map[string][]Rule
	seqOrder []string
	termExec string
	feat     map[string]bool
	nsub     int
}

func (g *cgen) pick(ss ...string) string { return ss[g.r.Intn(len(ss))] }

func (g *cgen) pname() string { return g.plain[g.r.Intn(len(g.plain))] }

func (g *cgen) harn(tag, typ string) {
	if g.have[tag] {
		return
	}
	g.have[tag] = true
	g.plugins = append(g.plugins, PluginCfg{Tag: tag, Type: typ, Args: map[string]any{"comp": g.c.Idx}})
}

func (g *cgen) tagged(tag, typ string, args any) {
	if g.have[tag] {
		return
	}
	g.have[tag] = true
	g.plugins = append(g.plugins, PluginCfg{Tag: tag, Type: typ, Args: args})
}

func mixCase(r *rand.Rand, s string) string {
	b := []byte(s)
	for i, c := range b {
		if c >= 'a' && c <= 'z' && r.Intn(2) == 0 {
			b[i] = c - 32
		}
	}
	return string(b)
}

// matcher returns 0..2 random matcher expressions.
func (g *cgen) matchers(allowResp bool, pNone int) []string {
	r := g.r
	if r.Intn(100) < pNone {
		return nil
	}
	var out []string
	n := 1
	if r.Intn(4) == 0 {
		n = 2
	}
	for i := 0; i < n; i++ {
		neg := ""
		if r.Intn(4) == 0 {
			neg = "!"
		}
		k := r.Intn(14)
		if !allowResp && k >= 7 && k <= 11 {
			k = r.Intn(7)
		}
		switch k {
		case 0, 1:
			out = append(out, neg+"qtype "+g.pick("1", "28", "1 28", "16", "255 16", "5 15 2", "65 64"))
		case 2, 3:
			switch r.Intn(3) {
			case 0:
				out = append(out, neg+"qname full:"+g.pname())
			case 1:
				out = append(out, neg+"qname domain:"+g.pname()+" full:"+g.pname())
			default:
				out = append(out, neg+"qname keyword:"+g.pick("p1", "p2", "h", "r", "x"))
			}
		case 4:
			out = append(out, neg+"qclass "+g.pick("1", "3", "1 3", "255", "4 254"))
		case 5:
			out = append(out, g.pick("_true", "_true", "_false", "!_false"))
		case 6:
			out = append(out, neg+"qtype "+g.pick("1", "28"))
		case 7, 8:
			out = append(out, neg+"has_resp")
		case 9:
			out = append(out, neg+"rcode "+g.pick("0", "2", "3", "0 3", "5", "2 5"))
		case 10:
			out = append(out, neg+"has_wanted_ans")
		case 11:
			if r.Intn(2) == 0 {
				out = append(out, neg+"resp_ip "+g.pick("192.0.2.0/24", "2001:db8::/32 192.0.2.66", "192.0.2.1"))
			} else {
				out = append(out, neg+"cname keyword:alias domain:tgt."+g.dom)
			}
		case 12:
			out = append(out, neg+"client_ip "+g.pick("192.0.2.0/24", "2001:db8::/32", "127.0.0.1 192.0.2.55"))
		case 13:
			out = append(out, neg+"mark "+g.pick("1", "2", "1 2"))
		}
	}
	g.feat["matcher"] = true
	return out
}

func (g *cgen) rejectN() string {
	r := g.r
	if g.c.OptOnly && r.Intn(3) == 0 {
		return fmt.Sprint(16 + r.Intn(4080))
	}
	switch r.Intn(4) {
	case 0:
		return ""
	case 1:
		return g.pick("2", "3", "5", "0")
	}
	return fmt.Sprint(r.Intn(16))
}

// atom generates one non-terminal, non-wrapping rule.
func (g *cgen) atom(inner bool) Rule {
	r := g.r
	switch r.Intn(13) {
	case 12:
		g.feat["mark"] = true
		return Rule{Matches: g.matchers(inner, 50), Exec: "mark " + g.pick("1", "2", "1 2")}
	case 0, 1:
		g.ensureHosts()
		g.feat["hosts"] = true
		return Rule{Matches: g.matchers(inner, 70), Exec: "$hosts"}
	case 2:
		g.feat["black_hole"] = true
		m := g.matchers(inner, 15)
		return Rule{Matches: m, Exec: "black_hole " + g.pick("192.0.2.66 2001:db8::66", "192.0.2.67", "2001:db8::67 2001:db8::68", "192.0.2.1 192.0.2.2 192.0.2.3 2001:db8::1")}
	case 3, 4:
		g.ensureArb()
		g.feat["arbitrary"] = true
		return Rule{Matches: g.matchers(inner, 70), Exec: "$arb"}
	case 5, 6:
		g.feat["reject"] = true
		ex := strings.TrimSpace("reject " + g.rejectN())
		return Rule{Matches: g.matchers(inner, 5), Exec: ex}
	case 7:
		g.feat["ttl"] = true
		return Rule{Matches: g.matchers(true, 50), Exec: "ttl " + g.pick("5", "1", "60", "10-300", "0-30", "300-0", "3600")}
	case 8:
		g.feat["drop_resp"] = true
		return Rule{Matches: g.matchers(true, 20), Exec: "drop_resp"}
	case 9:
		g.feat["accept"] = true
		return Rule{Matches: []string{g.pick("has_resp", "has_resp", "rcode 0", "!rcode 2")}, Exec: "accept"}
	case 10:
		g.feat["return"] = true
		return Rule{Matches: g.matchers(true, 10), Exec: "return"}
	default:
		g.feat["reject"] = true
		return Rule{Matches: []string{g.pick("!has_resp", "rcode 2", "rcode 3", "qclass 3", "!qclass 1")}, Exec: strings.TrimSpace("reject " + g.rejectN())}
	}
}

func (g *cgen) ensureHosts() {
	if g.have["hosts"] {
		return
	}
	r := g.r
	var entries []string
	n := 2 + r.Intn(4)
	for i := 0; i < n; i++ {
		nm := g.pname()
		if r.Intn(3) == 0 {
			nm = g.targets[r.Intn(len(g.targets))]
		}
		kind := g.pick("full:", "full:", "domain:", "")
		ips := g.pick("192.0.2.10", "192.0.2.11 2001:db8::11", "2001:db8::12", "192.0.2.13 192.0.2.14 192.0.2.15 2001:db8::13 2001:db8::14")
		entries = append(entries, kind+strings.ToLower(nm)+" "+ips)
	}
	g.tagged("hosts", "hosts", map[string]any{"entries": entries})
}

func (g *cgen) ensureArb() {
	if g.have["arb"] {
		return
	}
	r := g.r
	var rules []string
	n := 2 + r.Intn(4)
	for i := 0; i < n; i++ {
		nm := g.pname()
		if r.Intn(4) == 0 {
			nm = g.targets[r.Intn(len(g.targets))]
		}
		nm = strings.ToLower(nm) + "."
		switch r.Intn(6) {
		case 0:
			rules = append(rules, nm+" 300 IN A 192.0.2.33")
		case 1:
			rules = append(rules, nm+" 120 IN AAAA 2001:db8::33")
		case 2:
			rules = append(rules, nm+" IN TXT \"arbitrary text\" \"second string\"")
		case 3:
			rules = append(rules, nm+" 5 CH TXT \"chaos\"")
		case 4:
			rules = append(rules, nm+" 60 IN CNAME alias."+g.dom+".")
		case 5:
			rules = append(rules, nm+" 60 IN A 192.0.2.34", nm+" 60 IN A 192.0.2.35", nm+" 60 IN MX 10 mx."+g.dom+".")
		}
	}
	g.tagged("arb", "arbitrary", map[string]any{"rules": rules})
}

// wrapper generates a recursive-executable rule (wraps the rest of the chain).
func (g *cgen) wrapper(used map[string]bool) []Rule {
	r := g.r
	for tries := 0; tries < 10; tries++ {
		switch k := r.Intn(9); k {
		case 0, 1, 2:
			if used["cache"] && r.Intn(3) > 0 {
				continue
			}
			used["cache"] = true
			g.feat["cache"] = true
			g.harn("c03_pre", "c03_pre")
			g.harn("c03_post", "c03_post")
			ex := "cache"
			switch r.Intn(4) {
			case 0:
				ex = "cache 2048"
			case 1:
				tag := fmt.Sprintf("cache_t%d", len(g.plugins))
				args := map[string]any{"size": 1024 + r.Intn(4096)}
				if r.Intn(2) == 0 {
					args["lazy_cache_ttl"] = 3600
					g.feat["lazy_cache"] = true
				}
				g.tagged(tag, "cache", args)
				ex = "$" + tag
			}
			m := g.matchers(false, 85)
			return []Rule{{Exec: "$c03_pre"}, {Matches: m, Exec: ex}, {Exec: "$c03_post"}}
		case 3, 4:
			if used["redirect"] && r.Intn(2) == 0 {
				continue
			}
			used["redirect"] = true
			g.feat["redirect"] = true
			tag := fmt.Sprintf("redir%d", len(g.plugins))
			var rules []string
			n := 2 + r.Intn(3)
			for i := 0; i < n; i++ {
				from := strings.ToLower(g.pname())
				to := g.targets[r.Intn(len(g.targets))]
				if r.Intn(5) == 0 {
					to = g.pname() // chains / self redirects
				}
				kind := g.pick("full:", "full:", "domain:", "")
				rules = append(rules, kind+from+" "+to)
			}
			g.tagged(tag, "redirect", map[string]any{"rules": rules})
			return []Rule{{Matches: g.matchers(false, 85), Exec: "$" + tag}}
		case 5:
			g.feat["ecs"] = true
			if r.Intn(2) == 0 {
				return []Rule{{Matches: g.matchers(false, 85), Exec: "ecs " + g.pick("198.51.100.7", "2001:db8:77::1", "198.51.100.7/24", "")}}
			}
			tag := fmt.Sprintf("ecsh%d", len(g.plugins))
			args := map[string]any{"forward": r.Intn(2) == 0, "send": r.Intn(2) == 0}
			if r.Intn(2) == 0 {
				args["preset"] = g.pick("203.0.113.9", "2001:db8:9::9")
			}
			if r.Intn(2) == 0 {
				args["mask4"] = 8 + r.Intn(24)
				args["mask6"] = 32 + r.Intn(64)
			}
			g.tagged(tag, "ecs_handler", args)
			return []Rule{{Matches: g.matchers(false, 85), Exec: "$" + tag}}
		case 6:
			g.feat["forward_edns0opt"] = true
			return []Rule{{Matches: g.matchers(false, 85), Exec: "forward_edns0opt " + g.pick("8", "10", "8 10 12", "3 65001", "")}}
		case 7, 8:
			if used["prefer"] {
				continue
			}
			used["prefer"] = true
			g.feat["dual_selector"] = true
			return []Rule{{Matches: g.matchers(false, 85), Exec: g.pick("prefer_ipv4", "prefer_ipv6")}}
		}
	}
	return nil
}

func (g *cgen) addSeq(tag string, rules []Rule) {
	g.seqs[tag] = rules
	g.seqOrder = append(g.seqOrder, tag)
	var ra []any
	for _, ru := range rules {
		m := map[string]any{"exec": ru.Exec}
		if len(ru.Matches) > 0 {
			ms := make([]any, len(ru.Matches))
			for i, s := range ru.Matches {
				ms[i] = s
			}
			m["matches"] = ms
		}
		ra = append(ra, m)
	}
	g.plugins = append(g.plugins, PluginCfg{Tag: tag, Type: "sequence", Args: ra})
}

// terminalRules returns the rule(s) that reach the echoing upstream.
func (g *cgen) terminalRules(depth int) []Rule {
	r := g.r
	k := r.Intn(10)
	if depth > 0 && k >= 6 {
		k = r.Intn(6)
	}
	switch {
	case k < 6:
		return []Rule{{Exec: g.termExec}}
	case k < 8: // via jump/goto into a sub-sequence that holds the terminal
		tag := fmt.Sprintf("sub%d", g.nsub)
		g.nsub++
		var rules []Rule
		for i := r.Intn(3); i > 0; i-- {
			rules = append(rules, g.atom(true))
		}
		rules = append(rules, g.terminalRules(depth+1)...)
		for i := r.Intn(2); i > 0; i-- {
			rules = append(rules, g.atom(true))
		}
		g.addSeq(tag, rules)
		how := g.pick("jump", "jump", "goto")
		g.feat[how] = true
		return []Rule{{Matches: g.matchers(true, 80), Exec: how + " " + tag}}
	default: // fallback over two sub-sequences
		g.feat["fallback"] = true
		p := fmt.Sprintf("fbp%d", g.nsub)
		s := fmt.Sprintf("fbs%d", g.nsub)
		fb := fmt.Sprintf("fb%d", g.nsub)
		g.nsub++
		var pr, sr []Rule
		if r.Intn(2) == 0 {
			pr = append(pr, g.atom(true))
		}
		pr = append(pr, Rule{Exec: g.termExec})
		switch r.Intn(4) {
		case 0:
			sr = append(sr, Rule{Exec: strings.TrimSpace("reject " + g.rejectN())})
			g.feat["reject"] = true
		case 1:
			g.ensureHosts()
			sr = append(sr, Rule{Exec: "$hosts"}, Rule{Matches: []string{"!has_resp"}, Exec: g.termExec})
		default:
			if r.Intn(2) == 0 {
				sr = append(sr, g.atom(true))
			}
			sr = append(sr, Rule{Exec: g.termExec})
		}
		g.addSeq(p, pr)
		g.addSeq(s, sr)
		g.tagged(fb, "fallback", map[string]any{
			"primary": p, "secondary": s,
			"threshold":      []int{5, 50, 500}[r.Intn(3)],
			"always_standby": r.Intn(2) == 0,
		})
		return []Rule{{Exec: "$" + fb}}
	}
}

func genOutcome(r *rand.Rand, c *Comp, redirect bool) Outcome {
	oc := Outcome{Kind: "answer", TTL: 300, Chunk: 100 + r.Intn(900)}
	switch r.Intn(16) {
	case 0, 1:
		oc.Kind = "none"
	case 2, 3:
		oc.Kind = "error"
	}
	if c.Terminal != "echo" && oc.Kind != "answer" && r.Intn(3) > 0 {
		oc.Kind = "answer" // silent upstreams cost a query timeout each
	}
	// rcode
	switch r.Intn(6) {
	case 0:
		oc.Rcode = r.Intn(16)
	case 1:
		oc.Rcode = []int{2, 3, 5}[r.Intn(3)]
	}
	if c.OptOnly && r.Intn(4) == 0 {
		oc.Rcode = 16 + r.Intn(4080)
	}
	if oc.Rcode == 0 || r.Intn(3) == 0 {
		oc.Ans = 1 + r.Intn(3)
		if r.Intn(6) == 0 {
			oc.Ans = 0
		}
	}
	switch r.Intn(8) {
	case 0:
		oc.TTL = 0
	case 1:
		oc.TTL = 1
	case 2:
		oc.TTL = uint32(r.Intn(100000))
	}
	if r.Intn(3) == 0 {
		oc.Ns = r.Intn(4)
	}
	if r.Intn(3) == 0 {
		oc.Extra = r.Intn(4)
	}
	oc.TC = r.Intn(15) == 0
	oc.AA = r.Intn(4) == 0
	oc.RA = r.Intn(2) == 0
	oc.UpOPT = r.Intn(3) == 0
	// size: the final reply (plus the client's OPT and a redirect CNAME) must fit 65535
	slack := 11 + 40
	if redirect {
		slack += 2 * (255 + 12 + 255)
	}
	oc.MaxFit = 65535 - slack
	switch r.Intn(20) {
	case 0, 1, 2:
		oc.Size = 480 + r.Intn(80) // around 512
	case 3:
		oc.Size = 512
	case 4, 5:
		oc.Size = 1180 + r.Intn(120) // around 1232
	case 6:
		oc.Size = 4000 + r.Intn(200)
	case 7:
		oc.Size = 600 + r.Intn(8000)
	case 8:
		oc.Size = 8191 - 40 + r.Intn(80) // around the pack buffer size
	case 9:
		oc.Size = 16000 + r.Intn(20000)
	case 10:
		oc.Size = 65535 // capped by MaxFit
		oc.Chunk = 800 + r.Intn(3000)
	case 11:
		oc.Size = 60000 + r.Intn(5536)
		oc.Chunk = 2000 + r.Intn(30000)
	}
	if c.Terminal == "forward-udp" && oc.Size > 1150 && r.Intn(3) > 0 {
		oc.Size = 300 + r.Intn(800) // most UDP-forward answers fit the upstream EDNS size
	}
	return oc
}

// genComp generates composition idx from the run seed.
func genComp(seed int64, idx int, terminalPlan string) *Comp {
	r := rand.New(rand.NewSource(seed*1000003 + int64(idx)*7919 + 17))
	c := &Comp{Idx: idx, TimeoutMs: 5000}
	g := &cgen{r: r, c: c, have: map[string]bool{}, seqs: map[string][]Rule{}, feat: map[string]bool{}}
	g.dom = fmt.Sprintf("c%d.test", idx)
	for i := 0; i < 8; i++ {
		g.plain = append(g.plain, fmt.Sprintf("p%d.%s", i, g.dom))
	}
	g.plain = append(g.plain, "h.p1."+g.dom, "x-1.r."+g.dom, g.dom)
	for i := 0; i < 3; i++ {
		t := fmt.Sprintf("t%d.tgt.%s", i, g.dom)
		if r.Intn(2) == 0 {
			t = mixCase(r, t)
		}
		g.targets = append(g.targets, t)
	}
	c.OptOnly = r.Intn(8) == 0
	c.Terminal = terminalPlan
	switch c.Terminal {
	case "echo":
		g.harn("echo", "c03_echo")
		g.termExec = "$echo"
	default:
		// "@UPSTREAM@" is replaced at build time (needs the loopback port)
		if r.Intn(2) == 0 {
			g.termExec = "forward @UPSTREAM@"
		} else {
			ups := []any{map[string]any{"addr": "@UPSTREAM@", "tag": "u0"}}
			if r.Intn(3) == 0 {
				ups = append(ups, map[string]any{"addr": "@UPSTREAM@", "tag": "u1", "idle_timeout": 5})
			}
			g.tagged("fwd", "forward", map[string]any{"upstreams": ups, "concurrent": r.Intn(4)})
			g.termExec = g.pick("$fwd", "$fwd", "$fwd u0")
		}
		c.TimeoutMs = 150
	}

	used := map[string]bool{}
	var main []Rule
	for i := r.Intn(3); i > 0; i-- {
		main = append(main, g.atom(false))
	}
	nw := r.Intn(5)
	for i := 0; i < nw; i++ {
		main = append(main, g.wrapper(used)...)
		if r.Intn(3) == 0 {
			main = append(main, g.atom(true))
		}
	}
	if used["cache"] && r.Intn(2) == 0 {
		main = append(main, Rule{Matches: []string{"has_resp"}, Exec: "accept"})
	}
	for i := r.Intn(3); i > 0; i-- {
		main = append(main, g.atom(true))
	}
	main = append(main, g.terminalRules(0)...)
	for i := r.Intn(3); i > 0; i-- {
		main = append(main, g.atom(true))
	}
	// an optional early jump into a side sequence without terminal
	if r.Intn(4) == 0 {
		tag := fmt.Sprintf("side%d", g.nsub)
		g.nsub++
		var rules []Rule
		for i := 1 + r.Intn(3); i > 0; i-- {
			rules = append(rules, g.atom(true))
		}
		g.addSeq(tag, rules)
		how := g.pick("jump", "goto")
		g.feat[how] = true
		pos := r.Intn(len(main) + 1)
		ru := Rule{Matches: g.matchers(true, 30), Exec: how + " " + tag}
		main = append(main[:pos], append([]Rule{ru}, main[pos:]...)...)
	}
	g.addSeq("main", main)
	c.Plugins = g.plugins
	c.Shape = g.shape("main", 0)
	for f := range g.feat {
		c.Features = append(c.Features, f)
	}
	sortStrings(c.Features)

	// upstream script
	n := 6 + r.Intn(6)
	for i := 0; i < n; i++ {
		c.Script = append(c.Script, genOutcome(r, c, g.feat["redirect"]))
	}
	// make sure the script is not degenerate
	c.Script[0].Kind = "answer"
	c.Script[0].Rcode = 0
	if c.Script[0].Ans == 0 {
		c.Script[0].Ans = 1
	}

	// question pool
	add := func(name [][]byte, t, cl uint16, kind string) {
		raw := wire.EncodeLabels(name)
		c.Pool = append(c.Pool, PoolQ{Name: raw, Str: wire.NameString(raw), Type: t, Class: cl, Kind: kind})
	}
	labelsOf := func(s string) [][]byte {
		var out [][]byte
		for _, l := range strings.Split(strings.TrimSuffix(s, "."), ".") {
			out = append(out, []byte(l))
		}
		return out
	}
	suffix := labelsOf(g.dom)
	for _, p := range g.plain {
		t := []uint16{1, 28, 1, 28, 16}[r.Intn(5)]
		if r.Intn(5) == 0 {
			t = randType(r)
		}
		add(labelsOf(p), t, 1, "plain")
		switch r.Intn(5) {
		case 0: // dual-stack sibling
			st := uint16(1)
			if t == 1 {
				st = 28
			}
			add(labelsOf(p), st, 1, "plain-sibling-af")
		case 1: // same name and low type byte, other class
			add(labelsOf(p), t, []uint16{3, 4, 255, 0x0101}[r.Intn(4)], "plain-sibling-class")
		case 2: // same name, type differs in the high byte only
			add(labelsOf(p), t+256*uint16(1+r.Intn(255)), 1, "plain-sibling-type-hi")
		}
	}
	for i, p := range g.plain[:4] {
		// sub-domain of a configured name (domain: rules)
		add(append([][]byte{[]byte(fmt.Sprintf("s%d", i))}, labelsOf(p)...), []uint16{1, 28}[r.Intn(2)], 1, "plain-sub")
	}
	for _, t := range g.targets[:1+r.Intn(2)] {
		add(labelsOf(t), []uint16{1, 28, 16}[r.Intn(3)], 1, "target")
	}
	nw = 3 + r.Intn(4)
	for i := 0; i < nw; i++ {
		kind := wildKinds[r.Intn(len(wildKinds))]
		add(wildName(r, kind, suffix), randType(r), randClass(r), kind)
	}
	return c
}

func sortStrings(s []string) {
	for i := 1; i < len(s); i++ {
		for j := i; j > 0 && s[j] < s[j-1]; j-- {
			s[j], s[j-1] = s[j-1], s[j]
		}
	}
}

// shape renders the exec types along a sequence, expanding jump/goto/fallback
// targets, without matchers and arguments.
func (g *cgen) shape(tag string, depth int) string {
	var parts []string
	for _, ru := range g.seqs[tag] {
		f := strings.Fields(ru.Exec)
		head := f[0]
		switch {
		case head == "$c03_pre" || head == "$c03_post":
			continue
		case (head == "jump" || head == "goto") && len(f) > 1 && depth < 4:
			parts = append(parts, head+"("+g.shape(f[1], depth+1)+")")
		case strings.HasPrefix(head, "$fb") && depth < 4:
			n := strings.TrimPrefix(head, "$fb")
			parts = append(parts, "fallback("+g.shape("fbp"+n, depth+1)+"/"+g.shape("fbs"+n, depth+1)+")")
		case strings.HasPrefix(head, "$"):
			t := strings.TrimPrefix(head, "$")
			t = strings.TrimRight(t, "0123456789")
			switch t {
			case "redir":
				t = "redirect"
			case "cache_t":
				t = "cache"
			case "ecsh":
				t = "ecs_handler"
			case "arb":
				t = "arbitrary"
			case "fwd":
				t = "forward"
			}
			parts = append(parts, t)
		default:
			if len(ru.Matches) > 0 && (head == "reject" || head == "accept" || head == "return" || head == "drop_resp") {
				head = "?" + head
			}
			parts = append(parts, head)
		}
	}
	return strings.Join(parts, ">")
}
