package main

// Hostile-client phase: on every server protocol (DoH POST/GET over HTTP/1.1
// and HTTP/2, TCP, UDP) requests that FAIL - body/frame shorter than announced
// followed by half-close / close / reset, broken chunked encoding, HTTP/2
// stream reset, oversized uploads, runt and garbage datagrams, uploads that are
// aborted while other traffic is in flight - are interleaved with well-behaved
// clients: ordinary concurrent requests and SLOW uploaders whose (exactly
// well-formed) query arrives in two parts, the second one only after the
// ordinary clients of the round have been served. Every well-behaved query has
// a unique question; its reply is judged by the usual oracle against the chain
// outcome recorded under that question. The failed requests themselves are not
// judged (except: a runt datagram must not be answered).
//
// What this adds over the concurrent phase: server-side per-request state
// (pooled body / frame buffers, connection state) that went through an ERROR
// path before and is held for a long, overlapping time afterwards.
//
// No verdict depends on a timer: the order "aborts, slow uploads started,
// ordinary clients served, slow uploads completed" is enforced by the clients
// themselves; the two short pauses only shape the schedule.

import (
	"bufio"
	"bytes"
	"context"
	"crypto/tls"
	"errors"
	"fmt"
	"io"
	"math/rand"
	"net"
	"net/http"
	"strings"
	"sync"
	"sync/atomic"
	"time"

	"github.com/IrineSistiana/mosdns/v5/pkg/server"
	"github.com/IrineSistiana/mosdns/v5/pkg/utils"

	"verifharness/lib/wire"
)

const (
	kindDoHAbort = "doh-after-abort"
	kindTCPAbort = "tcp-after-abort"
	kindUDPAbort = "udp-after-abort"
)

// replies that keep getting lost in one kind of round are reported a few times
// per run: after that the run does not wait for more of the same
var hostileExpiries = map[string]*atomic.Int64{kindTCPAbort: {}, kindUDPAbort: {}}

func hostileAbandoned(kind string) bool {
	if hostileExpiries[kind].Load() >= 8 {
		rep.Count("hostile_rounds_skipped_after_loss_"+kind, 1)
		return true
	}
	return false
}

// cutPoint picks where a message of n bytes is cut: the boundary classes
// (nothing, one byte, the ID, the header, all but one byte) or somewhere inside.
func cutPoint(r *rand.Rand, n int) int {
	switch r.Intn(7) {
	case 0:
		return 0
	case 1:
		return 1
	case 2:
		return 2
	case 3:
		return 12
	case 4:
		return n - 1
	}
	return 1 + r.Intn(n-1)
}

func postHead(host string, contentLength int, extra string) string {
	cl := ""
	if contentLength >= 0 {
		cl = fmt.Sprintf("Content-Length: %d\r\n", contentLength)
	}
	return "POST /dns-query HTTP/1.1\r\nHost: " + host + "\r\nContent-Type: application/dns-message\r\n" + cl + extra + "\r\n"
}

func chunk(b []byte) []byte {
	return append(append([]byte(fmt.Sprintf("%x\r\n", len(b))), b...), '\r', '\n')
}

type closeHow int

const (
	closeHalf closeHow = iota // FIN, then wait for the server's answer
	closeFull
	closeReset
)

func endConn(c net.Conn, how closeHow, wd time.Duration) (status int) {
	tc, _ := c.(*net.TCPConn)
	switch how {
	case closeHalf:
		if tc != nil {
			_ = tc.CloseWrite()
		}
		_ = c.SetReadDeadline(time.Now().Add(wd))
		if resp, err := http.ReadResponse(bufio.NewReader(c), nil); err == nil {
			status = resp.StatusCode
			_, _ = io.Copy(io.Discard, resp.Body)
			resp.Body.Close()
		}
		c.Close()
	case closeFull:
		c.Close()
	case closeReset:
		if tc != nil {
			_ = tc.SetLinger(0)
		}
		c.Close()
	}
	return status
}

var closeNames = map[closeHow]string{closeHalf: "halfclose", closeFull: "close", closeReset: "reset"}

// ---------------------------------------------------------------- DoH ----

// dohAbort is one request that is going to fail.
type dohAbort struct {
	kind  string
	how   closeHow
	first []byte // written at once (request head + what the client uploads)
	late  bool   // the abort itself happens only after the ordinary clients were served
	h2    bool
	body  []byte // h2: bytes uploaded before the stream is reset
	c     net.Conn
	stop  context.CancelFunc
	pw    *io.PipeWriter
	done  chan struct{}
}

var dohAbortKinds = []string{"cl-short", "cl-short", "cl-short", "chunk-truncated", "chunk-badsize", "oversized",
	"wrong-content-type", "get-bad-base64", "head-truncated", "cl-short-late", "h2-reset", "h2-reset", "h2-reset-late"}

func (b *built) genDoHAbort(r *rand.Rand, tag string) *dohAbort {
	host := b.sk.hl.Addr().String()
	fq := b.genBurstQ(r, tag, uint16(r.Intn(65536)), false)
	cut := cutPoint(r, len(fq.qw))
	a := &dohAbort{kind: dohAbortKinds[r.Intn(len(dohAbortKinds))], how: closeHow(r.Intn(3))}
	part := fq.qw[:cut]
	switch a.kind {
	case "cl-short", "cl-short-late":
		// announces more than it is ever going to send
		announced := len(fq.qw)
		if r.Intn(2) == 0 {
			announced = cut + 1 + r.Intn(200)
		}
		if announced <= cut {
			announced = cut + 1
		}
		a.first = append([]byte(postHead(host, announced, "")), part...)
		a.late = a.kind == "cl-short-late"
	case "chunk-truncated":
		a.first = append([]byte(postHead(host, -1, "Transfer-Encoding: chunked\r\n")), []byte(fmt.Sprintf("%x\r\n", len(fq.qw)))...)
		a.first = append(a.first, part...)
	case "chunk-badsize":
		a.first = append([]byte(postHead(host, -1, "Transfer-Encoding: chunked\r\n")), chunk(part)...)
		a.first = append(a.first, "zz\r\n"...)
		a.how = closeHalf
	case "oversized":
		// more than a DNS message can be; the complete query is at its head
		junk := make([]byte, 65536+r.Intn(4096))
		copy(junk, fq.qw)
		a.first = append([]byte(postHead(host, len(junk), "")), junk...)
		a.how = closeHalf
	case "wrong-content-type":
		a.first = []byte("POST /dns-query HTTP/1.1\r\nHost: " + host + fmt.Sprintf("\r\nContent-Type: text/plain\r\nContent-Length: %d\r\n\r\n", len(fq.qw)))
		a.first = append(a.first, part...)
	case "get-bad-base64":
		a.first = []byte("GET /dns-query?dns=%%%" + strings.Repeat("A", cut) + " HTTP/1.1\r\nHost: " + host + "\r\nAccept: application/dns-message\r\n\r\n")
		if r.Intn(2) == 0 {
			a.first = []byte("GET /dns-query?dns=" + strings.Repeat("*", 1+cut) + " HTTP/1.1\r\nHost: " + host + "\r\nAccept: application/dns-message\r\n\r\n")
		}
		a.how = closeHalf
	case "head-truncated":
		h := postHead(host, len(fq.qw), "")
		a.first = []byte(h[:1+r.Intn(len(h)-4)])
	case "h2-reset", "h2-reset-late":
		a.h2 = true
		a.body = part
		a.late = a.kind == "h2-reset-late"
	}
	return a
}

func (a *dohAbort) String() string {
	if a.h2 {
		return fmt.Sprintf("%s(%d body bytes)", a.kind, len(a.body))
	}
	return fmt.Sprintf("%s/%s", a.kind, closeNames[a.how])
}

// begin sends what the failing client sends; unless the abort is late it also
// ends the request. Returns the HTTP status if one was observed.
func (a *dohAbort) begin(sk *sockets) {
	if a.h2 {
		ctx, cancel := context.WithCancel(context.Background())
		a.stop = cancel
		pr, pw := io.Pipe()
		a.pw = pw
		a.done = make(chan struct{})
		req, err := http.NewRequestWithContext(ctx, http.MethodPost, sk.h2url, pr)
		if err != nil {
			close(a.done)
			return
		}
		req.Header.Set("Content-Type", "application/dns-message")
		go func() {
			defer close(a.done)
			resp, err := sk.h2c.Do(req)
			if err == nil {
				_, _ = io.Copy(io.Discard, resp.Body)
				resp.Body.Close()
				rep.Count("hostile_doh_h2_reset_answered_status_"+fmt.Sprint(resp.StatusCode), 1)
			}
		}()
		if len(a.body) > 0 {
			_, _ = pw.Write(a.body) // returns when the transport took the bytes for a DATA frame
		}
		if !a.late {
			a.end(sk)
		}
		return
	}
	c, err := net.DialTimeout("tcp4", sk.hl.Addr().String(), 5*time.Second)
	if err != nil {
		rep.Count("hostile_dial_failed", 1)
		return
	}
	a.c = c
	_ = c.SetWriteDeadline(time.Now().Add(sk.wd))
	_, _ = c.Write(a.first) // the server may stop reading an oversized upload: not an error of interest
	if !a.late {
		a.end(sk)
	}
}

func (a *dohAbort) end(sk *sockets) {
	if a.h2 {
		if a.stop != nil {
			a.stop() // RST_STREAM(CANCEL)
			_ = a.pw.CloseWithError(context.Canceled)
			select {
			case <-a.done:
			case <-time.After(sk.wd):
			}
			rep.Count("hostile_doh_h2_streams_reset", 1)
		}
		return
	}
	if a.c == nil {
		return
	}
	st := endConn(a.c, a.how, sk.wd)
	a.c = nil
	rep.Count("hostile_doh_requests_failed", 1)
	if st != 0 {
		rep.Count(fmt.Sprintf("hostile_doh_failed_request_status_%d", st), 1)
		if st >= 400 {
			rep.Count("hostile_doh_rejections_observed", 1)
		}
	}
}

// slowDoH is a well-behaved but slow uploader.
type slowDoH struct {
	q      *burstQ
	kind   string
	first  []byte
	rest   []byte
	judged bool
	h2     bool
	c      net.Conn
	pw     *io.PipeWriter
	respCh chan *arrival
}

func (b *built) genSlowDoH(r *rand.Rand, tag string, allowH2 bool) *slowDoH {
	host := b.sk.hl.Addr().String()
	q := b.genBurstQ(r, tag, uint16(r.Intn(65536)), false)
	cut := cutPoint(r, len(q.qw))
	s := &slowDoH{q: q, judged: true}
	switch k := r.Intn(10); {
	case k < 4:
		s.kind = fmt.Sprintf("split@%d/%d", cut, len(q.qw))
		s.first = append([]byte(postHead(host, len(q.qw), "Connection: close\r\n")), q.qw[:cut]...)
		s.rest = q.qw[cut:]
	case k < 6:
		s.kind = fmt.Sprintf("chunked@%d/%d", cut, len(q.qw))
		s.first = []byte(postHead(host, -1, "Transfer-Encoding: chunked\r\nConnection: close\r\n"))
		if cut > 0 {
			s.first = append(s.first, chunk(q.qw[:cut])...)
		}
		s.rest = append(chunk(q.qw[cut:]), "0\r\n\r\n"...)
	case k < 8 && allowH2:
		s.kind = fmt.Sprintf("h2-split@%d/%d", cut, len(q.qw))
		s.h2 = true
		s.first = q.qw[:cut]
		s.rest = q.qw[cut:]
	default:
		// the whole query at once, but the announced body has trailing bytes that
		// arrive late. Such a body is not a well-formed query: what the uploader
		// itself gets is not judged, it only holds server-side state for a long time.
		n := 1 + r.Intn(3)
		s.kind = fmt.Sprintf("trailing-bytes+%d(not judged)", n)
		s.judged = false
		s.first = append([]byte(postHead(host, len(q.qw)+n, "Connection: close\r\n")), q.qw...)
		s.rest = make([]byte, n)
	}
	q.pl.Transport = "doh-post-slow-" + strings.SplitN(s.kind, "@", 2)[0]
	return s
}

func (s *slowDoH) begin(sk *sockets) error {
	if s.h2 {
		pr, pw := io.Pipe()
		s.pw = pw
		s.respCh = make(chan *arrival, 1)
		req, err := http.NewRequest(http.MethodPost, sk.h2url, pr)
		if err != nil {
			return err
		}
		req.Header.Set("Content-Type", "application/dns-message")
		go func() {
			resp, err := sk.h2c.Do(req)
			a := &arrival{}
			if err != nil {
				a.harness = "h2 client: " + err.Error()
			} else {
				readDoHResponse(a, resp)
			}
			s.respCh <- a
		}()
		if len(s.first) > 0 {
			_, _ = pw.Write(s.first)
		}
		return nil
	}
	c, err := net.DialTimeout("tcp4", sk.hl.Addr().String(), 5*time.Second)
	if err != nil {
		return err
	}
	s.c = c
	_, err = c.Write(s.first)
	return err
}

func readDoHResponse(a *arrival, resp *http.Response) {
	body, err := io.ReadAll(resp.Body)
	resp.Body.Close()
	a.status = resp.StatusCode
	if err != nil {
		a.harness = "http body: " + err.Error()
		return
	}
	if resp.StatusCode == http.StatusOK {
		a.replies = [][]byte{body}
		if ct := resp.Header.Get("Content-Type"); ct != "application/dns-message" {
			a.framing = "200 with content-type " + ct
		}
	} else {
		a.note = fmt.Sprintf("http status %d", resp.StatusCode)
		if len(body) >= 12 && resp.Header.Get("Content-Type") == "application/dns-message" {
			a.replies = [][]byte{body}
		}
	}
}

// finish uploads the rest and collects the response.
func (s *slowDoH) finish(sk *sockets) {
	a := &arrival{}
	s.q.arr = a
	if s.h2 {
		_, _ = s.pw.Write(s.rest)
		s.pw.Close()
		select {
		case r := <-s.respCh:
			*a = *r
		case <-time.After(sk.wd + 5*time.Second):
			a.harness = "h2 slow upload: no response within the watchdog"
		}
		return
	}
	defer s.c.Close()
	if _, err := s.c.Write(s.rest); err != nil {
		a.note = "the server closed the connection of a slow upload before the body was complete: " + err.Error()
		// fall through: whatever the server wrote before is read below
	}
	_ = s.c.SetReadDeadline(time.Now().Add(sk.wd))
	resp, err := http.ReadResponse(bufio.NewReader(s.c), nil)
	if err != nil {
		var ne net.Error
		if errors.As(err, &ne) && ne.Timeout() {
			a.harness = "slow upload: no HTTP response within the watchdog; server goroutines:\n" + serverGoroutines()
			return
		}
		a.note = strings.TrimSpace(a.note + " no HTTP response: " + err.Error())
		return
	}
	readDoHResponse(a, resp)
}

// dohH2 performs an ordinary DoH request over the HTTP/2 (TLS) listener.
func (s *sockets) dohH2(qw []byte) arrival {
	a := arrival{}
	req, err := http.NewRequest(http.MethodPost, s.h2url, bytes.NewReader(qw))
	if err != nil {
		a.harness = err.Error()
		return a
	}
	req.Header.Set("Content-Type", "application/dns-message")
	resp, err := s.h2c.Do(req)
	if err != nil {
		a.harness = "h2 client: " + err.Error()
		return a
	}
	if resp.ProtoMajor != 2 {
		a.harness = "the TLS listener did not negotiate HTTP/2"
	}
	readDoHResponse(&a, resp)
	return a
}

var (
	h2CertOnce sync.Once
	h2Cert     tls.Certificate
	h2CertErr  error
)

// startH2 adds a TLS listener (HTTP/2 via ALPN) for the same DoH handler.
func (s *sockets) startH2() error {
	if s.h2l != nil {
		return nil
	}
	h2CertOnce.Do(func() { h2Cert, h2CertErr = utils.GenerateCertificate("c03.test") })
	if h2CertErr != nil {
		return h2CertErr
	}
	l, err := net.Listen("tcp4", "127.0.0.1:0")
	if err != nil {
		return err
	}
	s.h2l = l
	s.h2s = &http.Server{
		Handler:   server.NewHttpHandler(s.hw, server.HttpHandlerOpts{}),
		TLSConfig: &tls.Config{Certificates: []tls.Certificate{h2Cert}},
	}
	go func() { _ = s.h2s.ServeTLS(l, "", "") }()
	s.h2c = &http.Client{Timeout: s.wd, Transport: &http.Transport{
		TLSClientConfig:   &tls.Config{InsecureSkipVerify: true},
		ForceAttemptHTTP2: true,
		MaxIdleConns:      4,
		IdleConnTimeout:   30 * time.Second,
	}}
	s.h2url = "https://" + l.Addr().String() + "/dns-query"
	return nil
}

func (s *sockets) closeH2() {
	if s.h2s != nil {
		_ = s.h2s.Close()
		s.h2s, s.h2l = nil, nil
	}
	if s.h2c != nil {
		s.h2c.CloseIdleConnections()
	}
}

// hostileDoH runs one round; returns the well-behaved queries (ordinary + slow)
// to judge and the script of the round.
func (b *built) hostileDoH(r *rand.Rand, round int) (judged []*burstQ, script []string) {
	sk := b.sk
	h2ok := sk.startH2() == nil
	if !h2ok {
		rep.Count("hostile_doh_h2_unavailable", 1)
	}
	// --- plan (all randomness here, on this goroutine) ---
	var aborts []*dohAbort
	for i, n := 0, 2+r.Intn(4); i < n; i++ {
		a := b.genDoHAbort(r, fmt.Sprintf("f%dx%d", round, i))
		if a.h2 && !h2ok {
			continue
		}
		aborts = append(aborts, a)
		script = append(script, "abort:"+a.String())
	}
	var slows []*slowDoH
	for i, n := 0, 2+r.Intn(3); i < n; i++ {
		s := b.genSlowDoH(r, fmt.Sprintf("s%dx%d", round, i), h2ok)
		slows = append(slows, s)
		script = append(script, "slow:"+s.kind)
	}
	var ord []*burstQ
	for i, n := 0, 3+r.Intn(4); i < n; i++ {
		q := b.genBurstQ(r, fmt.Sprintf("o%dx%d", round, i), uint16(r.Intn(65536)), false)
		q.pl.Transport = []string{"doh-post-after-abort", "doh-post-after-abort", "doh-get-after-abort", "doh-h2-post-after-abort"}[r.Intn(4)]
		if !h2ok && strings.HasPrefix(q.pl.Transport, "doh-h2") {
			q.pl.Transport = "doh-post-after-abort"
		}
		ord = append(ord, q)
	}
	script = append(script, fmt.Sprintf("ordinary:%d concurrent requests while the slow uploads are pending", len(ord)))
	finishOrder := r.Perm(len(slows))

	// --- 1. the failing requests ---
	var wg sync.WaitGroup
	for _, a := range aborts {
		wg.Add(1)
		go func(a *dohAbort) { defer wg.Done(); a.begin(sk) }(a)
	}
	wg.Wait()
	// --- 2. slow uploaders send their first part ---
	var started []*slowDoH
	for _, s := range slows {
		if err := s.begin(sk); err != nil {
			rep.Count("hostile_unobserved", 1)
			if s.c != nil {
				s.c.Close()
			}
			continue
		}
		started = append(started, s)
	}
	time.Sleep(2 * time.Millisecond) // schedule shaping only: let the server pick the uploads up
	// --- 3. ordinary clients, concurrently, run to completion ---
	for _, q := range ord {
		wg.Add(1)
		go func(q *burstQ) {
			defer wg.Done()
			var a arrival
			switch q.pl.Transport {
			case "doh-get-after-abort":
				a = sk.doh(q.qw, false)
			case "doh-h2-post-after-abort":
				a = sk.dohH2(q.qw)
			default:
				a = sk.doh(q.qw, true)
			}
			q.arr = &a
		}(q)
	}
	wg.Wait()
	rep.Count("hostile_doh_ordinary_requests_served_while_slow_uploads_pending", int64(len(ord)))
	// --- 4. late aborts happen now, then the slow uploads complete ---
	for _, a := range aborts {
		if a.late {
			a.end(sk)
		}
	}
	for _, i := range finishOrder {
		if i >= len(started) {
			continue
		}
		wg.Add(1)
		go func(s *slowDoH) { defer wg.Done(); s.finish(sk) }(started[i])
	}
	wg.Wait()
	judged = append(judged, ord...)
	for _, s := range started {
		rep.SetAdd("hostile_slow_upload_kinds", "doh/"+strings.SplitN(s.kind, "@", 2)[0])
		if s.judged {
			judged = append(judged, s.q)
			rep.Count("hostile_doh_slow_uploads_judged", 1)
		} else {
			rep.Count("hostile_doh_slow_uploads_with_trailing_bytes_not_judged", 1)
		}
	}
	for _, a := range aborts {
		if a.h2 {
			rep.SetAdd("hostile_failed_request_kinds", "doh/"+a.kind)
		} else {
			rep.SetAdd("hostile_failed_request_kinds", "doh/"+a.kind+"/"+closeNames[a.how])
		}
	}
	return judged, script
}

// ---------------------------------------------------------------- TCP ----

var tcpAbortKinds = []string{"frame-short", "frame-short", "frame-short", "prefix-1byte", "len-zero", "len-12", "garbage-frame", "valid-then-short", "frame-short-late"}

type tcpAbort struct {
	kind  string
	how   closeHow
	first []byte
	late  bool
	c     net.Conn
}

func (b *built) genTCPAbort(r *rand.Rand, tag string) *tcpAbort {
	fq := b.genBurstQ(r, tag, uint16(r.Intn(65536)), false)
	fr := wire.Frame(fq.qw)
	cut := 2 + cutPoint(r, len(fq.qw))
	a := &tcpAbort{kind: tcpAbortKinds[r.Intn(len(tcpAbortKinds))], how: closeHow(r.Intn(3))}
	switch a.kind {
	case "frame-short", "frame-short-late":
		a.first = append([]byte(nil), fr[:cut]...)
		if r.Intn(2) == 0 { // announce something else than the query's length
			n := cut - 2 + 1 + r.Intn(3000)
			a.first[0], a.first[1] = byte(n>>8), byte(n)
		}
		a.late = a.kind == "frame-short-late"
	case "prefix-1byte":
		a.first = fr[:1]
	case "len-zero":
		a.first = []byte{0, 0}
	case "len-12":
		a.first = append([]byte{0, 12}, fq.qw[:12]...)
	case "garbage-frame":
		g := make([]byte, 13+r.Intn(300))
		r.Read(g)
		g[2] |= 0x80 // whatever it parses as, it is not a query
		a.first = wire.Frame(g)
	case "valid-then-short":
		// a complete query whose reply the client never reads, then a short frame
		a.first = append(append([]byte(nil), fr...), fr[:cut]...)
	}
	return a
}

func (a *tcpAbort) begin(sk *sockets) {
	c, err := net.DialTimeout("tcp4", sk.tl.Addr().String(), 5*time.Second)
	if err != nil {
		rep.Count("hostile_dial_failed", 1)
		return
	}
	a.c = c
	_, _ = c.Write(a.first)
	if !a.late {
		a.end(sk)
	}
}

func (a *tcpAbort) end(sk *sockets) {
	if a.c == nil {
		return
	}
	c := a.c
	a.c = nil
	tc, _ := c.(*net.TCPConn)
	switch a.how {
	case closeHalf:
		if tc != nil {
			_ = tc.CloseWrite()
		}
		// the server closes its side once it saw the short frame: an event, not a timer
		_ = c.SetReadDeadline(time.Now().Add(sk.wd))
		n, _ := io.Copy(io.Discard, c)
		if n > 0 {
			rep.Count("hostile_tcp_bytes_received_by_failing_clients", n)
		}
		rep.Count("hostile_tcp_server_close_observed", 1)
		c.Close()
	case closeFull:
		c.Close()
	case closeReset:
		if tc != nil {
			_ = tc.SetLinger(0)
		}
		c.Close()
	}
	rep.Count("hostile_tcp_connections_failed", 1)
}

// slowTCP: one connection, zero or more complete frames and a last frame whose
// tail arrives late.
type slowTCP struct {
	qs    []*burstQ
	kind  string
	first []byte
	rest  []byte
	c     net.Conn
}

func (b *built) genSlowTCP(r *rand.Rand, round, i int) *slowTCP {
	s := &slowTCP{}
	n := 1 + r.Intn(2)
	base := uint16(r.Intn(65536))
	for j := 0; j < n; j++ {
		q := b.genBurstQ(r, fmt.Sprintf("ts%dx%dx%d", round, i, j), base+uint16(j)*13, false)
		q.pl.Transport = "tcp-slow-frame"
		s.qs = append(s.qs, q)
	}
	for _, q := range s.qs[:n-1] {
		s.first = append(s.first, wire.Frame(q.qw)...)
	}
	last := wire.Frame(s.qs[n-1].qw)
	var cut int
	switch r.Intn(6) {
	case 0:
		cut = 1 // inside the length prefix
	case 1:
		cut = 2 // the prefix only
	case 2:
		cut = 2 + 12
	case 3:
		cut = len(last) - 1
	default:
		cut = 1 + r.Intn(len(last)-1)
	}
	s.first = append(s.first, last[:cut]...)
	s.rest = last[cut:]
	s.kind = fmt.Sprintf("%d complete frame(s) + frame split@%d/%d", n-1, cut, len(last))
	return s
}

func (s *slowTCP) begin(sk *sockets) error {
	c, err := net.DialTimeout("tcp4", sk.tl.Addr().String(), 5*time.Second)
	if err != nil {
		return err
	}
	s.c = c
	_, err = c.Write(s.first)
	return err
}

func readFrames(c net.Conn, want int, wd time.Duration) (frames [][]byte, timedOut bool) {
	var d wire.Deframer
	buf := make([]byte, 70000)
	_ = c.SetReadDeadline(time.Now().Add(wd))
	eof := false
	for len(frames) < want {
		n, e := c.Read(buf)
		if n > 0 {
			frames = append(frames, d.Feed(buf[:n])...)
		}
		if e != nil {
			var ne net.Error
			if errors.As(e, &ne) && ne.Timeout() {
				timedOut = true
			}
			eof = true
			break
		}
	}
	if !eof {
		_ = c.SetReadDeadline(time.Now().Add(5 * time.Millisecond))
		for {
			n, e := c.Read(buf)
			if n > 0 {
				frames = append(frames, d.Feed(buf[:n])...)
			}
			if e != nil {
				break
			}
		}
	}
	if rest := d.Rest(); len(rest) > 0 {
		frames = append(frames, append([]byte(nil), rest...))
	}
	return frames, timedOut
}

// repipeline delivers again - on a fresh connection, in one piece - the queries
// that got no reply AND never reached the handler: the server's 2 s first-read
// timer closed the connection of a starved client (timing, not behaviour).
func repipeline(sk *sockets, qs []*burstQ, counter string) (expired bool) {
	pending := qs
	for attempt := 0; attempt < 3; attempt++ {
		var again []*burstQ
		for _, q := range pending {
			if len(q.replies) == 0 && sk.hw.byName(q.key).calls == 0 {
				again = append(again, q)
			}
		}
		if len(again) == 0 {
			return false
		}
		rep.Count(counter, int64(len(again)))
		frames, timedOut, err := pipeline(sk, again, true)
		if err != nil {
			return false
		}
		attribute(again, frames)
		if timedOut {
			return true
		}
		pending = again
	}
	return false
}

func (s *slowTCP) finish(sk *sockets) (expired bool) {
	defer s.c.Close()
	_, _ = s.c.Write(s.rest)
	frames, timedOut := readFrames(s.c, len(s.qs), sk.wd)
	attribute(s.qs, frames)
	if timedOut {
		return true
	}
	return repipeline(sk, s.qs, "hostile_tcp_slow_redelivered_unhandled")
}

func (b *built) hostileTCP(r *rand.Rand, round int) (judged []*burstQ, script []string, expired bool) {
	sk := b.sk
	var aborts []*tcpAbort
	for i, n := 0, 2+r.Intn(4); i < n; i++ {
		a := b.genTCPAbort(r, fmt.Sprintf("tf%dx%d", round, i))
		aborts = append(aborts, a)
		script = append(script, "abort:"+a.kind+"/"+closeNames[a.how])
		rep.SetAdd("hostile_failed_request_kinds", "tcp/"+a.kind+"/"+closeNames[a.how])
	}
	var slows []*slowTCP
	for i, n := 0, 1+r.Intn(3); i < n; i++ {
		s := b.genSlowTCP(r, round, i)
		slows = append(slows, s)
		script = append(script, "slow:"+s.kind)
	}
	var conns [][]*burstQ
	for s, n := 0, 2+r.Intn(2); s < n; s++ {
		base := uint16(r.Intn(65536))
		var qs []*burstQ
		for i, per := 0, 2+r.Intn(4); i < per; i++ {
			q := b.genBurstQ(r, fmt.Sprintf("to%dx%dx%d", round, s, i), base+uint16(i)*11, false)
			q.pl.Transport = "tcp-pipelined-after-abort"
			qs = append(qs, q)
		}
		conns = append(conns, qs)
	}
	script = append(script, fmt.Sprintf("ordinary:%d pipelined connections while the slow frames are pending", len(conns)))
	oneWrite := r.Intn(2) == 0
	finishOrder := r.Perm(len(slows))

	var wg sync.WaitGroup
	for _, a := range aborts {
		wg.Add(1)
		go func(a *tcpAbort) { defer wg.Done(); a.begin(sk) }(a)
	}
	wg.Wait()
	var started []*slowTCP
	for _, s := range slows {
		if err := s.begin(sk); err != nil {
			rep.Count("hostile_unobserved", 1)
			if s.c != nil {
				s.c.Close()
			}
			continue
		}
		started = append(started, s)
	}
	time.Sleep(time.Millisecond) // schedule shaping only
	var mu sync.Mutex
	for _, qs := range conns {
		wg.Add(1)
		go func(qs []*burstQ) {
			defer wg.Done()
			frames, timedOut, err := pipeline(sk, qs, oneWrite)
			if err != nil {
				for _, q := range qs {
					q.arr = &arrival{harness: "tcp dial: " + err.Error()}
				}
				return
			}
			attribute(qs, frames)
			if !timedOut {
				timedOut = repipeline(sk, qs, "hostile_tcp_repipelined_unhandled")
			}
			if timedOut {
				mu.Lock()
				expired = true
				mu.Unlock()
			}
		}(qs)
	}
	wg.Wait()
	for _, a := range aborts {
		if a.late {
			a.end(sk)
		}
	}
	for _, i := range finishOrder {
		if i >= len(started) {
			continue
		}
		wg.Add(1)
		go func(s *slowTCP) {
			defer wg.Done()
			if s.finish(sk) {
				mu.Lock()
				expired = true
				mu.Unlock()
			}
		}(started[i])
	}
	wg.Wait()
	for _, qs := range conns {
		judged = append(judged, qs...)
	}
	for _, s := range started {
		judged = append(judged, s.qs...)
		rep.Count("hostile_tcp_slow_frames_judged", 1)
	}
	return judged, script, expired
}

// ---------------------------------------------------------------- UDP ----

// hostileUDP: client sockets firing well-formed queries with runt datagrams in
// between, sockets that send runts only (must stay silent) and sockets that
// send garbage / oversized / cut-off datagrams (not judged), all at once.
func (b *built) hostileUDP(r *rand.Rand, round int) (judged []*burstQ, script []string, runtReplies [][]byte, ok bool) {
	sk := b.sk
	port := sk.us.LocalAddr().(*net.UDPAddr).Port
	ngood := 3 + r.Intn(3)
	const (
		roleGood = iota
		roleRunt
		roleJunk
	)
	type usock struct {
		role  int
		c     *net.UDPConn
		sends [][]byte
		qs    []*burstQ
	}
	var socks []*usock
	runt := func() []byte {
		n := []int{0, 1, 2, 5, 11}[r.Intn(5)]
		d := make([]byte, n)
		r.Read(d)
		return d
	}
	expected := 0
	for s := 0; s < ngood; s++ {
		u := &usock{role: roleGood}
		base := uint16(r.Intn(65536))
		for i, per := 0, 3+r.Intn(4); i < per; i++ {
			q := b.genBurstQ(r, fmt.Sprintf("uo%dx%dx%d", round, s, i), base+uint16(i)*7, false)
			q.pl.Transport = "udp-burst-after-abort"
			u.qs = append(u.qs, q)
			u.sends = append(u.sends, q.qw)
			expected++
			if r.Intn(2) == 0 {
				u.sends = append(u.sends, runt())
			}
		}
		socks = append(socks, u)
	}
	nrunt, njunk := 0, 0
	for s, n := 0, 1+r.Intn(2); s < n; s++ {
		u := &usock{role: roleRunt}
		for i, per := 0, 2+r.Intn(4); i < per; i++ {
			u.sends = append(u.sends, runt())
			nrunt++
		}
		socks = append(socks, u)
	}
	big := false
	for s, n := 0, 1+r.Intn(2); s < n; s++ {
		u := &usock{role: roleJunk}
		for i, per := 0, 2+r.Intn(3); i < per; i++ {
			fq := b.genBurstQ(r, fmt.Sprintf("uf%dx%dx%d", round, s, i), uint16(r.Intn(65536)), false)
			var d []byte
			switch k := r.Intn(5); {
			case k == 0:
				d = append([]byte(nil), fq.qw[:12+r.Intn(len(fq.qw)-12)]...) // cut off inside / after the question
			case k == 1 && !big:
				big = true // one per round: the server's socket buffer is finite
				d = make([]byte, 20000+r.Intn(45000))
				copy(d, fq.qw)
			case k == 2:
				d = make([]byte, 12+r.Intn(1400))
				r.Read(d)
			case k == 3:
				d = append(append([]byte(nil), fq.qw...), make([]byte, 1+r.Intn(600))...) // trailing bytes
			default:
				d = append([]byte(nil), fq.qw...)
				d[2] |= 0x80 // a response, not a query
			}
			u.sends = append(u.sends, d)
			njunk++
		}
		socks = append(socks, u)
	}
	script = append(script, fmt.Sprintf("%d sockets with well-formed queries and runts in between, %d runt datagrams from runt-only sockets, %d garbage/oversized/cut-off datagrams", ngood, nrunt, njunk))

	in := make(chan dgram, 8192)
	var rwg sync.WaitGroup
	defer func() {
		for _, u := range socks {
			if u.c != nil {
				u.c.Close()
			}
		}
		rwg.Wait()
	}()
	for i, u := range socks {
		c, e := net.DialUDP("udp4", nil, &net.UDPAddr{IP: net.IPv4(127, 0, 0, 1), Port: port})
		if e != nil {
			return nil, nil, nil, false
		}
		u.c = c
		rwg.Add(1)
		go func(i int, c *net.UDPConn) {
			defer rwg.Done()
			buf := make([]byte, 65536)
			for {
				n, e := c.Read(buf)
				if e != nil {
					return
				}
				in <- dgram{i, append([]byte(nil), buf[:n]...)}
			}
		}(i, c)
	}
	start := make(chan struct{})
	var wwg sync.WaitGroup
	for _, u := range socks {
		wwg.Add(1)
		go func(u *usock) {
			defer wwg.Done()
			<-start
			for _, d := range u.sends {
				_, _ = u.c.Write(d)
			}
		}(u)
	}
	close(start)
	wwg.Wait()
	rep.Count("hostile_udp_runt_datagrams", int64(nrunt))
	rep.Count("hostile_udp_junk_datagrams", int64(njunk))

	got := make([][][]byte, len(socks))
	n := 0
	wd := time.NewTimer(sk.wd)
	defer wd.Stop()
	expired := false
collect:
	for n < expected {
		select {
		case d := <-in:
			got[d.sock] = append(got[d.sock], d.data)
			if socks[d.sock].role == roleGood {
				n++
			}
		case <-wd.C:
			expired = true
			break collect
		}
	}
	settle := time.NewTimer(10 * time.Millisecond)
	defer settle.Stop()
more:
	for {
		select {
		case d := <-in:
			got[d.sock] = append(got[d.sock], d.data)
		case <-settle.C:
			break more
		}
	}
	if expired {
		rep.Count("hostile_watchdog_expired_"+kindUDPAbort, 1)
		hostileExpiries[kindUDPAbort].Add(1)
	}
	for i, u := range socks {
		switch u.role {
		case roleGood:
			attribute(u.qs, got[i])
			for _, q := range u.qs {
				if expired && len(q.replies) == 0 && sk.hw.byName(q.key).calls == 0 {
					// the datagram never reached the handler within the watchdog: the
					// loopback delivery was not observed, nothing to judge
					q.arr = &arrival{harness: "datagram not handled within the watchdog"}
				}
				judged = append(judged, q)
			}
		case roleRunt:
			runtReplies = append(runtReplies, got[i]...)
		case roleJunk:
			rep.Count("hostile_udp_junk_datagrams_answered_not_judged", int64(len(got[i])))
		}
	}
	return judged, script, runtReplies, true
}

// ------------------------------------------------------------- driver ----

func (b *built) hostilePhase(seed int64, cc compCase, rounds int) {
	c := b.comp
	sk, err := b.sockets()
	for try := 0; err != nil && try < 5; try++ {
		time.Sleep(100 * time.Millisecond)
		sk, err = b.sockets()
	}
	if err != nil {
		rep.Count("hostile_rounds_skipped", 1)
		return
	}
	r := rand.New(rand.NewSource(seed*15485863 + int64(c.Idx)*37 + 17))
	b.rt.begin(nil)

	judgeAll := func(kind string, qs []*burstQ, fromUDP bool, script []string, expired bool) {
		for _, q := range qs {
			e := b.rec.byName(q.key)
			hd := sk.hw.byName(q.key)
			arr := arrival{replies: q.replies, fromUDP: fromUDP}
			if q.arr != nil {
				arr = *q.arr
				arr.fromUDP = fromUDP
			}
			if arr.harness != "" {
				rep.Count("hostile_unobserved", 1)
				continue
			}
			if arr.note == "" {
				arr.note = q.note
			}
			if len(arr.replies) == 0 {
				arr.note = fmt.Sprintf("%s; the handler was called %d time(s) for this question and returned %d bytes; watchdog expired=%v", arr.note, hd.calls, hd.n, expired)
			}
			tg := q.pl.Transport
			o := &observation{q: &q.pl.Q, qw: q.qw, arr: arr, recCalls: e.calls, recErr: e.err, recResp: e.resp, transport: tg}
			v := judge(o)
			rep.Eval(1)
			rep.Count("deliveries_"+kind, 1)
			rep.Count("deliveries_"+tg, 1)
			rep.Count("class_"+strings.SplitN(v.class, "+", 2)[0], 1)
			rep.Count("valid_queries", 1)
			rep.Count("hostile_valid_queries", 1)
			if len(arr.replies) == 1 {
				rep.Count("valid_queries_with_exactly_one_reply", 1)
				rep.Count("hostile_valid_queries_with_exactly_one_reply", 1)
			}
			if v.truncated {
				rep.Count("truncated_replies", 1)
			}
			rep.Nontrivial(fmt.Sprintf("%s|%s|%s|%v|false", c.Shape, v.class, tg, v.truncated))
			rep.SetAdd("outcome_transport", fmt.Sprintf("%s/%s/trunc=%v", v.class, tg, v.truncated))
			if len(v.fails) == 0 {
				continue
			}
			f := v.fails[0] // cross-client mix-ups cascade: the primary failure names the class
			w := cc
			w.UpTo = -1
			w.Hostile = true
			w.Comp = c
			w.Plan = &q.pl
			w.QueryHex = fmt.Sprintf("%x", q.qw)
			for _, rb := range arr.replies {
				w.Replies = append(w.Replies, hexShort(rb))
			}
			w.Chain = chainStr(o)
			w.Note = arr.note
			w.Script = script
			rep.Violation(f.class+"-"+kind, fmt.Sprintf("%s [composition %d shape %s, %s (hostile-client phase), query %q type %d class %d id %d; round: %s]",
				f.what, c.Idx, c.Shape, tg, q.pl.Q.NameStr, q.pl.Q.Type, q.pl.Q.Class, q.pl.Q.ID, strings.Join(script, "; ")), w)
		}
	}
	on := func() {
		b.rec.setBurst(true)
		sk.hw.setBurst(true)
	}
	off := func() {
		b.rec.mu.Lock()
		b.rec.burst = false
		b.rec.mu.Unlock()
		sk.hw.mu.Lock()
		sk.hw.burst = false
		sk.hw.mu.Unlock()
	}
	for round := 1; round <= rounds; round++ {
		// DoH
		on()
		t0 := time.Now()
		qs, script := b.hostileDoH(r, round)
		rep.Count("hostile_ms_"+kindDoHAbort, time.Since(t0).Milliseconds())
		off()
		rep.Count("hostile_rounds_"+kindDoHAbort, 1)
		judgeAll(kindDoHAbort, qs, false, script, false)

		// TCP
		if !hostileAbandoned(kindTCPAbort) {
			on()
			t0 = time.Now()
			qs, script, expired := b.hostileTCP(r, round)
			rep.Count("hostile_ms_"+kindTCPAbort, time.Since(t0).Milliseconds())
			off()
			rep.Count("hostile_rounds_"+kindTCPAbort, 1)
			if expired {
				rep.Count("hostile_watchdog_expired_"+kindTCPAbort, 1)
				hostileExpiries[kindTCPAbort].Add(1)
			}
			judgeAll(kindTCPAbort, qs, false, script, expired)
		}

		// UDP
		if hostileAbandoned(kindUDPAbort) {
			continue
		}
		on()
		t0 = time.Now()
		qs, script, runtReplies, ok := b.hostileUDP(r, round)
		rep.Count("hostile_ms_"+kindUDPAbort, time.Since(t0).Milliseconds())
		off()
		if !ok {
			rep.Count("hostile_rounds_skipped", 1)
			continue
		}
		rep.Count("hostile_rounds_"+kindUDPAbort, 1)
		judgeAll(kindUDPAbort, qs, true, script, false)
		if len(runtReplies) > 0 {
			w := cc
			w.UpTo = -1
			w.Hostile = true
			w.Comp = c
			for _, rb := range runtReplies {
				w.Replies = append(w.Replies, hexShort(rb))
			}
			w.Script = script
			rep.Violation("reply-to-malformed-udp-runt", fmt.Sprintf("%d datagram(s) arrived on a client socket that only ever sent datagrams shorter than a DNS header; first: %s [composition %d shape %s, hostile-client phase; round: %s]",
				len(runtReplies), hexShort(runtReplies[0]), c.Idx, c.Shape, strings.Join(script, "; ")), w)
		}
	}
	sk.hw.drain()
}
