// C03 — every valid query gets one reply with its own ID and question.
//
// Workload: wire-level generated client messages (well-formed and malformed) are
// delivered to server_handler.EntryHandler — directly the way the UDP, TCP and
// DoH servers call it, and through real loopback sockets served by
// server.ServeUDP / ServeTCP / NewHttpHandler — in front of randomly generated
// compositions of the built-in plugins (built from configuration data by the
// real loader) that end in an upstream echoing the question (a harness terminal
// plugin or the real forward plugin talking to a loopback echo server).
//
// Oracle: a recorder around the entry executable notes (error, response) when
// the plugin chain returns; the reply bytes are parsed with lib/wire and checked
// against the query bytes and that record (ID, question bytes, QR, RA, rcode
// class, sections vs. TC, UDP size bound, exactly one reply; no reply for
// malformed messages).
package main

import (
	"fmt"
	"math/rand"
	"net/netip"
	"os"
	"runtime"
	"sort"
	"strings"
	"sync"
	"time"

	"verifharness/lib/evid"
	"verifharness/lib/poolsan"
)

var (
	rep     *evid.Reporter
	caselog *evid.CaseLog
)

// QPlan is one planned delivery.
type QPlan struct {
	Q         QSpec  `json:"query"`
	Transport string `json:"transport"` // h-udp h-tcp h-doh | udp tcp tcp-fresh doh-get doh-post
	Client    string `json:"client,omitempty"`
}

// compCase is what a replay needs to re-execute a composition up to a query.
type compCase struct {
	CompIdx  int    `json:"comp_idx"`
	Terminal string `json:"terminal"`
	NQ       int    `json:"n_queries"`
	Sockets  bool   `json:"sockets"`
	UpTo     int    `json:"up_to_query"`
	Burst    bool   `json:"concurrent_phase,omitempty"`     // also run the concurrent real-socket rounds
	Hostile  bool   `json:"hostile_client_phase,omitempty"` // also run the failed-request / slow-upload rounds
	Age      bool   `json:"age_phase,omitempty"`            // run (only) the connection-age / answer-latency phase

	// for the reader (regenerated from the seed on replay)
	Comp     *Comp    `json:"composition,omitempty"`
	Plan     *QPlan   `json:"failing_delivery,omitempty"`
	QueryHex string   `json:"query_hex,omitempty"`
	Replies  []string `json:"replies_hex,omitempty"`
	Chain    string   `json:"chain_returned,omitempty"`
	Trace    string   `json:"trace,omitempty"`
	Note     string   `json:"note,omitempty"`
	Script   []string `json:"hostile_round_script,omitempty"`
}

var clients = []string{"", "192.0.2.55", "2001:db8::55", "::ffff:192.0.2.56", "127.0.0.1"}

func genPlans(seed int64, c *Comp, n int, sockets bool) []QPlan {
	r := rand.New(rand.NewSource(seed*999983 + int64(c.Idx)*104729 + 5))
	var plans []QPlan
	var history []QSpec
	flagCtr := r.Intn(2048)
	dom := [][]byte{[]byte(fmt.Sprintf("c%d", c.Idx)), []byte("test")}
	for i := 0; i < n; i++ {
		var q QSpec
		roll := r.Intn(100)
		switch {
		case roll < 35 && len(history) > 0:
			q = history[r.Intn(len(history))]
			if q.OPT != nil {
				o := *q.OPT
				q.OPT = &o
			}
			q.ID = randID(r)
			q.Repeat = true
			if r.Intn(3) == 0 { // bits that are not part of any cache key
				q.Flags ^= uint16(r.Intn(16)) << 6 // AA TC RD RA... (bits 6..9: Z RA RD TC)
			}
			if q.OPT != nil && r.Intn(3) == 0 {
				q.OPT.Size = optSizes[r.Intn(len(optSizes))]
			}
		default:
			q.ID = randID(r)
			if roll < 92 {
				pi := r.Intn(len(c.Pool))
				p := c.Pool[pi]
				q.PoolIdx = pi
				q.Type, q.Class = p.Type, p.Class
				mode := r.Intn(10)
				switch {
				case mode < 4:
					q.Name = append([]byte(nil), p.Name...)
				case mode < 8:
					q.Name = flipCase(r, p.Name, 0)
				case mode < 9:
					q.Name = flipCase(r, p.Name, 1)
				default:
					q.Name = flipCase(r, p.Name, 2)
				}
			} else {
				q.PoolIdx = -1
				kind := wildKinds[r.Intn(len(wildKinds))]
				var labels [][]byte
				if r.Intn(2) == 0 {
					labels = append([][]byte{randLabel(r, 1+r.Intn(20), ldh)}, dom...)
				} else {
					labels = wildName(r, kind, dom)
				}
				q.Name = encodeLabels(labels)
				q.Type, q.Class = randType(r), randClass(r)
			}
			flagCtr++
			q.Flags = flagsFromCounter(flagCtr*37, r.Intn(10) < 6)
			if r.Intn(12) == 0 {
				q.Flags |= uint16(r.Intn(16)) // RCODE field of the query
			}
			if c.OptOnly || r.Intn(100) < 65 {
				q.OPT = randOPT(r)
			} else if r.Intn(10) == 0 {
				q.ExtraRR = []string{"a", "txt"}[r.Intn(2)]
			}
		}
		q.NameStr = nameString(q.Name)
		q.Malform = ""
		if !q.Repeat {
			switch m := r.Intn(100); {
			case m < 8:
				q.Malform = malforms[r.Intn(len(malforms))]
			case m < 9:
				q.Malform = lies[r.Intn(len(lies))]
			}
		}
		if q.Valid() && !q.Repeat {
			history = append(history, q)
		}
		pl := QPlan{Q: q, Client: clients[r.Intn(len(clients))]}
		t := r.Intn(100)
		switch {
		case sockets && t < 30:
			pl.Transport = []string{"udp", "udp", "tcp", "tcp-fresh", "doh-get", "doh-post"}[r.Intn(6)]
		case t < 65:
			pl.Transport = "h-udp"
		case t < 85:
			pl.Transport = "h-tcp"
		default:
			pl.Transport = "h-doh"
		}
		if pl.Transport == "udp" && pl.Q.OPT != nil && pl.Q.OPT.Size > 65000 {
			// an IPv4 datagram cannot carry more than 65507 bytes of payload
			o := *pl.Q.OPT
			o.Size = 4096
			pl.Q.OPT = &o
		}
		plans = append(plans, pl)
	}
	return plans
}

func encodeLabels(labels [][]byte) []byte {
	var out []byte
	for _, l := range labels {
		out = append(out, byte(len(l)))
		out = append(out, l...)
	}
	return append(out, 0)
}

func tgroup(t string) string {
	if t == "tcp-fresh" {
		return "tcp"
	}
	return t
}

type compStats struct {
	harness []string
}

// runComp executes one composition; upTo < 0 runs every planned query.
func runComp(seed int64, cc compCase, replay bool) {
	c := genComp(seed, cc.CompIdx, cc.Terminal)
	plans := genPlans(seed, c, cc.NQ, cc.Sockets)
	b, err := build(c)
	if err != nil {
		rep.Inconclusive("composition %d does not build (harness generator bug?): %v", c.Idx, err)
		rep.Count("compositions_build_failed", 1)
		return
	}
	defer b.Close()
	rep.Count("compositions_built", 1)
	rep.SetAdd("shapes", c.Shape)
	for _, f := range c.Features {
		rep.Count("compositions_with_"+f, 1)
	}
	rep.Count("compositions_terminal_"+c.Terminal, 1)
	if rep.WantSample() && c.Idx%7 == 0 {
		rep.Sample(map[string]any{"composition": c.Idx, "shape": c.Shape, "plugins": c.Plugins, "upstream_script": c.Script[:min(3, len(c.Script))]})
	}

	last := len(plans) - 1
	if cc.UpTo >= 0 && cc.UpTo < last {
		last = cc.UpTo
	}
	for i := 0; i <= last; i++ {
		pl := &plans[i]
		q := &pl.Q
		qw := q.Wire()
		var client netip.Addr
		if pl.Client != "" {
			client = netip.MustParseAddr(pl.Client)
		}
		b.rec.reset()
		b.rt.begin(lowerWire(q.Name))
		var arr arrival
		if b.sk != nil && b.sk.expired >= 3 {
			// the socket path lost replies repeatedly (already reported): do not
			// spend the run waiting, use the direct calling convention instead
			switch tgroup(pl.Transport) {
			case "udp":
				pl.Transport = "h-udp"
			case "tcp":
				pl.Transport = "h-tcp"
			case "doh-get", "doh-post":
				pl.Transport = "h-doh"
			}
			rep.Count("socket_deliveries_abandoned", 1)
		}
		switch pl.Transport {
		case "h-udp", "h-tcp", "h-doh":
			arr = b.direct(qw, pl.Transport, client)
		default:
			sk, err := b.sockets()
			for try := 0; err != nil && try < 5; try++ { // transient port / fd pressure
				time.Sleep(100 * time.Millisecond)
				sk, err = b.sockets()
			}
			if err != nil {
				rep.Inconclusive("composition %d: cannot start loopback servers: %v", c.Idx, err)
				return
			}
			switch pl.Transport {
			case "udp":
				arr = sk.udp(qw)
			case "tcp":
				arr = sk.tcp(qw, false)
			case "tcp-fresh":
				arr = sk.tcp(qw, true)
			case "doh-get":
				arr = sk.doh(qw, false)
			case "doh-post":
				arr = sk.doh(qw, true)
			}
		}
		calls, rerr, rresp := b.rec.get()
		o := &observation{q: q, qw: qw, arr: arr, recCalls: calls, recErr: rerr, recResp: rresp, tr: b.rt.end(), transport: tgroup(pl.Transport)}
		rep.Eval(1)
		tg := tgroup(pl.Transport)
		rep.Count("deliveries_"+tg, 1)
		if arr.harness != "" {
			rep.Count("harness_unobserved", 1)
			rep.Inconclusive("composition %d query %d over %s: %s", c.Idx, i, pl.Transport, arr.harness)
			continue
		}
		v := judge(o)

		// ---- evidence ----
		rep.Count("class_"+strings.SplitN(v.class, "+", 2)[0], 1)
		if q.Valid() {
			rep.Count("valid_queries", 1)
			if len(arr.replies) == 1 {
				rep.Count("valid_queries_with_exactly_one_reply", 1)
			}
			if v.truncated {
				rep.Count("truncated_replies", 1)
			}
			if o.tr.cacheHit {
				rep.Count("cache_hits", 1)
			}
			if o.tr.redirected {
				rep.Count("redirected_queries", 1)
			}
			if o.tr.echoCalls > 1 {
				rep.Count("queries_with_several_upstream_calls", 1)
			}
			if q.Repeat {
				rep.Count("repeated_questions", 1)
			}
			if q.OPT == nil {
				rep.Count("valid_queries_without_opt", 1)
			}
			if q.ExtraRR != "" {
				rep.Count("valid_queries_with_non_opt_additional", 1)
			}
			if v.skippedRR {
				rep.Count("record_comparison_skipped", 1)
			}
			if arr.fromUDP && v.size > 512 {
				rep.Count("udp_replies_over_512", 1)
			}
			if o.recResp != nil && o.recResp.Rcode > 15 {
				rep.Count("extended_rcode_answers", 1)
			}
			rep.Max("max_reply_bytes", int64(v.size))
			rep.SetAdd("query_flag_words", fmt.Sprintf("%04x", q.Flags&0xFFF0))
			rep.SetAdd("name_lengths", fmt.Sprint(len(q.Name)))
			if q.PoolIdx >= 0 {
				rep.SetAdd("name_kinds", c.Pool[q.PoolIdx].Kind)
			}
			rep.Nontrivial(fmt.Sprintf("%s|%s|%s|%v|%v", c.Shape, v.class, tg, v.truncated, o.tr.cacheHit))
			rep.SetAdd("outcome_transport", fmt.Sprintf("%s/%s/trunc=%v/hit=%v", v.class, tg, v.truncated, o.tr.cacheHit))
		} else if q.Lie() {
			rep.Count("lying_counts_not_judged", 1)
			if len(arr.replies) > 0 {
				rep.Count("lying_counts_replied", 1)
			}
		} else {
			rep.Count("malformed_queries", 1)
			if len(arr.replies) == 0 {
				rep.Count("malformed_queries_without_reply", 1)
			}
			if strings.HasPrefix(arr.note, "server-side unpack failed") {
				rep.Count("malformed_dropped_by_server_unpack", 1)
			}
			rep.Nontrivial(fmt.Sprintf("%s|%s|%s", c.Shape, v.class, tg))
			rep.SetAdd("outcome_transport", fmt.Sprintf("%s/%s", v.class, tg))
		}
		if len(v.fails) == 0 && rep.WantSample() && q.Valid() && (o.tr.cacheHit || v.truncated || o.tr.redirected) && i%5 == 0 {
			rep.Sample(map[string]any{
				"composition": c.Idx, "shape": c.Shape, "delivery": pl, "query_hex": hexShort(qw),
				"chain_returned": chainStr(o), "reply_hex": hexShort(arr.replies[0]), "class": v.class,
				"truncated": v.truncated, "cache_hit": o.tr.cacheHit, "redirected": o.tr.redirected,
			})
		}

		// ---- verdict ----
		seen := map[string]bool{}
		for _, f := range v.fails {
			key := f.class + "-" + feature(o, &v, f)
			if seen[key] {
				continue
			}
			seen[key] = true
			w := cc
			w.UpTo = i
			w.Comp = c
			w.Plan = pl
			w.QueryHex = fmt.Sprintf("%x", qw)
			for _, rb := range arr.replies {
				w.Replies = append(w.Replies, hexShort(rb))
			}
			w.Chain = chainStr(o)
			w.Trace = fmt.Sprintf("%+v", o.tr)
			w.Note = arr.note
			rep.Violation(key, fmt.Sprintf("%s [composition %d shape %s, %s, query #%d %q type %d class %d id %d]",
				f.what, c.Idx, c.Shape, pl.Transport, i, q.NameStr, q.Type, q.Class, q.ID), w)
		}
		if replay && i == last {
			fmt.Printf("replayed composition %d up to query %d over %s (%d-byte message): class=%s replies=%d note=%q failures=%d\n", c.Idx, i, pl.Transport, len(qw), v.class, len(arr.replies), arr.note, len(v.fails))
			for _, f := range v.fails {
				fmt.Printf("  %s: %s\n", f.class, f.what)
			}
		}
	}
	if cc.Burst && cc.UpTo < 0 {
		reps := 1
		if replay {
			reps = 10 // schedule dependent
		}
		for i := 0; i < reps; i++ {
			b.burstPhase(seed+int64(i), cc, rep.Pick(3, 5), rep.Pick(1, 2), rep.Pick(1, 2))
		}
		if replay {
			fmt.Printf("replayed the concurrent phase of composition %d %d times\n", c.Idx, reps)
		}
	}
	if cc.Hostile && cc.UpTo < 0 {
		reps := 1
		if replay {
			reps = 10 // schedule dependent
		}
		for i := 0; i < reps; i++ {
			b.hostilePhase(seed+int64(i), cc, rep.Pick(2, 3))
		}
		if replay {
			fmt.Printf("replayed the hostile-client phase of composition %d %d times\n", c.Idx, reps)
		}
	}
	b.rt.mu.Lock()
	herr := append([]string(nil), b.rt.harnErr...)
	b.rt.mu.Unlock()
	for _, e := range herr {
		rep.Inconclusive("composition %d: %s", c.Idx, e)
	}
	rep.Count("upstream_calls", b.rt.echoTotal.Load())
	if b.lu != nil {
		rep.Count("loopback_upstream_udp_queries", b.lu.udpQueries.Load())
		rep.Count("loopback_upstream_tcp_queries", b.lu.tcpQueries.Load())
		rep.Count("loopback_upstream_tc_replies", b.lu.truncated.Load())
	}
}

func chainStr(o *observation) string {
	switch {
	case o.recCalls == 0:
		return "entry executable not called"
	case o.recErr != nil:
		return "error: " + o.recErr.Error()
	case o.recResp == nil:
		return "no response"
	}
	r := o.recResp
	q := ""
	if len(r.Question) > 0 {
		q = fmt.Sprintf("%q type %d class %d", r.Question[0].Name, r.Question[0].Qtype, r.Question[0].Qclass)
	}
	return fmt.Sprintf("response id=%d rcode=%d tc=%v question=%s sections=%d/%d/%d", r.Id, r.Rcode, r.Truncated, q, len(r.Answer), len(r.Ns), len(r.Extra))
}

func terminalFor(idx int) string {
	switch idx % 10 {
	case 3:
		return "forward-udp"
	case 7:
		return "forward-tcp"
	}
	return "echo"
}

func main() {
	var poolReports sync.Map
	poolsan.Install(func(r poolsan.Report) {
		poolReports.Store(r.Kind+": "+r.Info, true)
		if rep != nil {
			rep.Count("poolsan_reports_"+r.Kind, 1)
		}
	})
	rep = evid.New("C03", "exploration")
	caselog = evid.OpenCaseLog()
	rep.SetRule("compositions of the built-in plugins are generated from the seed as configuration data (sequence rule text with jump/goto/fallback sub-sequences over cache, redirect, hosts, black_hole, arbitrary, reject, ttl, ecs, ecs_handler, forward_edns0opt, prefer_ipv4/6, drop_resp and matchers) and built by coremain.NewMosdns; each ends in an echoing upstream (harness terminal plugin or real forward to a loopback echo server) whose scripted outcome (answer of 0..65535 bytes, rcode, none, error) is a function of the question name; each composition receives a generated stream of wire-level client messages (fresh / repeated questions, ID classes, re-cased and special names, all AA TC RD RA Z AD CD x opcode combinations, OPT variants, malformed section counts) via EntryHandler.Handle (UDP/TCP/DoH calling conventions) and via real loopback UDP/TCP/DoH sockets, sequentially and - for every fourth composition - in a concurrent phase (4-8 UDP client sockets firing back-to-back bursts, pipelined queries per TCP connection, concurrent DoH requests; unique question per query, chain outcome keyed by that question) and a hostile-client phase (per round and protocol: 2-5 requests that fail - DoH bodies shorter than announced / broken or cut-off chunked encoding / oversized / wrong media type / bad base64 / cut-off request head, ended by half-close, close or reset, HTTP/2 streams reset mid-upload, TCP frames shorter than their prefix / zero and 12-byte lengths / garbage frames, UDP runts, garbage, oversized and cut-off datagrams - some aborted only while other traffic is in flight; then well-formed queries of slow uploaders (HTTP/1.1 Content-Length or chunked bodies, HTTP/2 DATA frames and TCP frames that arrive in two parts cut at 0, 1, 2, 12, n-1 or a random offset, the second part only after the round's ordinary clients were served) overlapping with 3-6 ordinary concurrent clients; every well-behaved reply is judged against its own query); three extra compositions (echo and real-forward terminals) get the connection-age / answer-latency phase: on every server protocol (UDP, TCP, DoT, DoH over HTTP/1.1 keep-alive and over HTTP/2 incl. GET / POST / POST without announced length, DoQ) client scripts - one connection each, all concurrent - send 1-4 well-formed queries after 0 / ~1 / ~2.5 / ~4.5 s (thorough: ~9 s) of silence on the connection (always below the idle timeout) whose plugin chain takes 0 / ~0.5 / ~2.5 / ~4 s (below the query timeout; slow and fast queries overlap on one connection), each judged by the same oracle. A case is non-trivial when a verdict was reached for it; distinct = distinct (composition shape, outcome class, transport, truncated?, cache-hit?) tuple.")
	rep.Assume("lib/wire parses replies correctly (independent of miekg/dns; unit-tested)")
	rep.Assume("the recorder's snapshot of qCtx.R() taken when the entry executable returns is the plugins' answer")
	rep.Assume("loopback sockets neither lose nor duplicate datagrams/segments; 'none other' is judged within a settle window after the handler is known to have returned")
	rep.Assume("queries whose header counts promise records that are absent (count lies) are not judged")
	rep.Assume("hostile-client phase: requests that fail are not judged themselves (except that a datagram shorter than a DNS header must not be answered); a body with trailing bytes behind the query is not a well-formed query and its reply is not judged; a TCP query whose connection the server's 2 s first-read timer closed before the handler saw it is delivered again")
	rep.Assume("connection-age phase: a reply counts as missing only when the handler wrapper saw Handle return a payload for that question and nothing arrived for 10 s afterwards (or the server ended the connection / exchange / stream without it); a query the handler never saw (first-read or idle timer closed the connection) is not judged")
	rep.Assume("over real UDP sockets the advertised size is kept <= 65000 (an IPv4 datagram cannot carry a 65535-byte payload)")

	if rep.ReplayFile != "" {
		var cc compCase
		if err := rep.LoadReplay(&cc); err != nil {
			fmt.Fprintln(os.Stderr, "cannot load replay:", err)
			os.Exit(2)
		}
		cc.Comp, cc.Plan, cc.Replies, cc.Script = nil, nil, nil, nil
		caselog.Log(cc)
		if cc.Age {
			runAgeComp(rep.Seed, cc, true)
		} else {
			runComp(rep.Seed, cc, true)
		}
		rep.Finish()
	}

	nComp := rep.Pick(1500, 18000)
	nQ := rep.Pick(250, 400)
	// most of a composition's wall time is spent waiting (settle windows, silent
	// upstreams), so more workers than cores pays off
	workers := 2 * runtime.GOMAXPROCS(0)
	if workers > 32 {
		workers = 32
	}
	if workers < 8 {
		workers = 8
	}
	start := time.Now()
	// connection-age / answer-latency phase: a few extra compositions whose client
	// scripts sleep for seconds; they run beside the worker pool for the whole run
	var ageWG sync.WaitGroup
	for k, term := range []string{"echo", "forward-udp", "echo", "forward-tcp", "echo", "echo"}[:rep.Pick(3, 6)] {
		cc := compCase{CompIdx: nComp + k, Terminal: term, UpTo: -1, Age: true}
		caselog.Log(map[string]any{"age_phase": cc})
		ageWG.Add(1)
		go func() {
			defer ageWG.Done()
			runAgeComp(rep.Seed, cc, false)
		}()
	}
	var wg sync.WaitGroup
	jobs := make(chan compCase)
	var inflight sync.Map
	for w := 0; w < workers; w++ {
		wg.Add(1)
		go func() {
			defer wg.Done()
			for cc := range jobs {
				inflight.Store(cc.CompIdx, cc)
				var cur []compCase
				inflight.Range(func(_, v any) bool { cur = append(cur, v.(compCase)); return true })
				caselog.Log(map[string]any{"in_flight": cur})
				t0 := time.Now()
				runComp(rep.Seed, cc, false)
				if os.Getenv("C03_TIMING") != "" {
					fmt.Fprintf(os.Stderr, "comp %d %s sockets=%v nq=%d: %v\n", cc.CompIdx, cc.Terminal, cc.Sockets, cc.NQ, time.Since(t0))
				}
				inflight.Delete(cc.CompIdx)
			}
		}()
	}
	for idx := 0; idx < nComp; idx++ {
		cc := compCase{CompIdx: idx, Terminal: terminalFor(idx), NQ: nQ, Sockets: idx%4 == 0, Burst: idx%4 == 0, Hostile: idx%4 == 0, UpTo: -1}
		if cc.Terminal != "echo" {
			cc.NQ = nQ / 3
		}
		jobs <- cc
	}
	close(jobs)
	wg.Wait()
	rep.Extra("pool_run_s", time.Since(start).Seconds())
	ageWG.Wait()
	rep.Extra("age_phase_cells_with_a_judged_reply", ageCellList())
	poolsan.Sweep()
	rep.Count("poolsan_gets", poolsan.Gets.Load())
	rep.Count("poolsan_releases", poolsan.Releases.Load())
	var prs []string
	poolReports.Range(func(k, _ any) bool { prs = append(prs, k.(string)); return true })
	sort.Strings(prs)
	if len(prs) > 0 {
		if len(prs) > 10 {
			prs = prs[:10]
		}
		rep.Extra("poolsan_reports", prs)
	}
	closeHangs.Lock()
	if closeHangs.n > 0 {
		rep.Count("composition_shutdowns_hung", int64(closeHangs.n))
		rep.Extra("shutdown_hang", map[string]any{
			"note":         "closing the composition's plugins (Mosdns close -> plugin Close) did not finish within the watchdog; not judged by C03 (Close/termination is C07), the instance was leaked and the run continued",
			"compositions": closeHangs.comps,
			"blocked":      closeHangs.stack,
		})
	}
	closeHangs.Unlock()
	rep.Extra("workers", workers)
	rep.Extra("run_s", time.Since(start).Seconds())

	// a monitor that saw nothing proves nothing
	for _, need := range []string{"class_servfail", "class_refused", "class_answer", "truncated_replies", "cache_hits",
		"redirected_queries", "malformed_queries_without_reply", "deliveries_udp", "deliveries_tcp", "deliveries_doh-get",
		"deliveries_doh-post", "deliveries_h-udp", "deliveries_h-tcp", "deliveries_h-doh", "udp_replies_over_512",
		"loopback_upstream_udp_queries", "loopback_upstream_tcp_queries", "extended_rcode_answers",
		"deliveries_udp-burst", "deliveries_tcp-pipelined", "deliveries_doh-concurrent",
		"deliveries_doh-after-abort", "deliveries_tcp-after-abort", "deliveries_udp-after-abort",
		"hostile_doh_rejections_observed", "hostile_doh_h2_streams_reset", "hostile_doh_slow_uploads_judged",
		"hostile_tcp_server_close_observed", "hostile_tcp_slow_frames_judged", "hostile_udp_runt_datagrams",
		"age_replies_written_2s_or_more_after_connect_udp", "age_replies_written_2s_or_more_after_connect_tcp",
		"age_replies_written_2s_or_more_after_connect_dot", "age_replies_written_2s_or_more_after_connect_doh-h1",
		"age_replies_written_2s_or_more_after_connect_doh-h2", "age_replies_written_2s_or_more_after_connect_doq",
		"age_replies_on_connections_older_than_2s_tcp", "age_replies_on_connections_older_than_2s_dot",
		"age_replies_on_connections_older_than_2s_doh-h1", "age_replies_on_connections_older_than_2s_doh-h2",
		"age_replies_on_connections_older_than_2s_doq", "age_replies_after_2s_or_more_in_the_chain_tcp",
		"age_replies_after_2s_or_more_in_the_chain_dot", "age_replies_after_2s_or_more_in_the_chain_doq",
		"age_replies_after_2s_or_more_in_the_chain_udp", "age_doh_requests_on_reused_connection"} {
		if rep.Get(need) == 0 {
			rep.Inconclusive("monitor counter %s is zero: that part of the property was not exercised", need)
		}
	}
	rep.Finish()
}
