package main

// Event-driven UDP and TCP clients for the real-socket arrival paths.
//
// Nothing here decides on a short timer whether the server "is going to"
// handle a message: a reader goroutine per client socket turns datagrams /
// stream bytes / EOF into channel events, the handler wrapper turns "Handle
// returned" into an event, and the client waits for whichever comes first.
// Timers are only (a) the settle windows for "no (further) reply" once the
// handler is known to have returned and (b) a generous watchdog; when the
// watchdog expires the same message is re-delivered once (fresh connection for
// TCP) and only if that stalls too the delivery is reported as unobserved, with
// the server-side goroutines as evidence.

import (
	"fmt"
	"net"
	"runtime"
	"strings"
	"time"

	"github.com/miekg/dns"

	"verifharness/lib/wire"
)

func udpReader(c *net.UDPConn, out chan<- []byte) {
	buf := make([]byte, 65536)
	for {
		n, err := c.Read(buf)
		if err != nil {
			close(out)
			return
		}
		out <- append([]byte(nil), buf[:n]...)
	}
}

// serverGoroutines returns the stacks of goroutines inside pkg/server,
// server_handler or the plugins (evidence for a stall).
func serverGoroutines() string {
	buf := make([]byte, 8<<20)
	buf = buf[:runtime.Stack(buf, true)]
	var keep []string
	for _, g := range strings.Split(string(buf), "\n\n") {
		if !strings.Contains(g, "mosdns/v5/pkg/server") && !strings.Contains(g, "mosdns/v5/plugin/") {
			continue
		}
		lines := strings.Split(g, "\n")
		if len(lines) > 16 {
			lines = lines[:16]
		}
		keep = append(keep, strings.Join(lines, "\n"))
		if len(keep) >= 8 {
			break
		}
	}
	if len(keep) == 0 {
		return "(no goroutine inside pkg/server or a plugin)"
	}
	return strings.Join(keep, "\n\n")
}

func harnessParses(qw []byte) error {
	return new(dns.Msg).Unpack(qw)
}

// ---- UDP ----

func (s *sockets) udp(qw []byte) arrival {
	a := arrival{fromUDP: true}
	// a datagram that is already pending belongs to an earlier query (a late
	// second reply); it must not be attributed to this one
	for {
		select {
		case d, ok := <-s.udpIn:
			if !ok {
				a.harness = "udp client socket closed"
				return a
			}
			_ = d
			a.stray++
			continue
		default:
		}
		break
	}
	s.hw.drain()
	perr := harnessParses(qw)
	if _, err := s.uc.Write(qw); err != nil {
		a.harness = "udp client write: " + err.Error()
		return a
	}
	collect := func(d time.Duration) {
		t := time.NewTimer(d)
		defer t.Stop()
		for {
			select {
			case r, ok := <-s.udpIn:
				if !ok {
					return
				}
				a.replies = append(a.replies, r)
			case <-t.C:
				return
			}
		}
	}
	if perr != nil {
		// ServeUDP drops what does not unpack before the handler: no event will come
		a.note = "server-side unpack failed: " + perr.Error()
		collect(settleNone)
		return a
	}
	var ev handled
	got := false
	for attempt := 0; attempt < 2 && !got; attempt++ {
		t := time.NewTimer(s.wd)
	wait:
		for {
			select {
			case ev = <-s.hw.ch:
				got = true
				break wait
			case r, ok := <-s.udpIn:
				if !ok {
					t.Stop()
					a.harness = "udp client socket closed"
					return a
				}
				a.replies = append(a.replies, r)
			case <-t.C:
				break wait
			}
		}
		t.Stop()
		if !got {
			if attempt == 0 {
				rep.Count("socket_redeliveries_udp", 1)
				if _, err := s.uc.Write(qw); err != nil {
					a.harness = "udp client write (re-delivery): " + err.Error()
					return a
				}
				continue
			}
			a.harness = fmt.Sprintf("the UDP server did not hand the datagram to the handler within %v, neither on the re-delivery; server goroutines:\n%s", s.wd, serverGoroutines())
			return a
		}
	}
	if ev.nilPayload {
		collect(settleNone)
		return a
	}
	if len(a.replies) == 0 {
		t := time.NewTimer(deliverWait)
		select {
		case r, ok := <-s.udpIn:
			if ok {
				a.replies = append(a.replies, r)
			}
		case <-t.C:
			s.expired++
			a.note = fmt.Sprintf("handler returned a %d-byte payload but no datagram arrived within %v", ev.n, deliverWait)
		}
		t.Stop()
		if len(a.replies) == 0 {
			return a
		}
	}
	collect(settleMore)
	return a
}

// ---- TCP ----

type rdEv struct {
	data []byte
	eof  bool
}

type tconn struct {
	c      net.Conn
	rd     chan rdEv
	d      wire.Deframer
	rawN   int
	frames [][]byte
	eof    bool
	used   bool // a query was already sent on it
}

func (s *sockets) dialTCP() (*tconn, error) {
	c, err := net.DialTimeout("tcp4", s.tl.Addr().String(), 5*time.Second)
	if err != nil {
		return nil, err
	}
	tc := &tconn{c: c, rd: make(chan rdEv, 64)}
	go func() {
		buf := make([]byte, 70000)
		for {
			n, err := c.Read(buf)
			if n > 0 {
				tc.rd <- rdEv{data: append([]byte(nil), buf[:n]...)}
			}
			if err != nil {
				tc.rd <- rdEv{eof: true}
				return
			}
		}
	}()
	return tc, nil
}

func (tc *tconn) pump(e rdEv) {
	if len(e.data) > 0 {
		tc.rawN += len(e.data)
		tc.frames = append(tc.frames, tc.d.Feed(e.data)...)
	}
	if e.eof {
		tc.eof = true
	}
}

// pumpFor consumes stream events for d, or until EOF / stop() says so.
func (tc *tconn) pumpFor(d time.Duration, stop func() bool) {
	if tc.eof || (stop != nil && stop()) {
		return
	}
	t := time.NewTimer(d)
	defer t.Stop()
	for {
		select {
		case e := <-tc.rd:
			tc.pump(e)
			if tc.eof || (stop != nil && stop()) {
				return
			}
		case <-t.C:
			return
		}
	}
}

func (s *sockets) dropTCP() {
	if s.tc != nil {
		s.tc.c.Close()
		s.tc = nil
	}
}

func (s *sockets) tcp(qw []byte, fresh bool) arrival {
	a := arrival{}
	stalled := false
	for attempt := 0; attempt < 4; attempt++ {
		if s.tc != nil {
			// notice a connection the server's idle timer closed meanwhile
		poll:
			for {
				select {
				case e := <-s.tc.rd:
					s.tc.pump(e)
				default:
					break poll
				}
			}
			if s.tc.eof || fresh || attempt > 0 {
				s.dropTCP()
			}
		}
		if s.tc == nil {
			tc, err := s.dialTCP()
			if err != nil {
				a.harness = "tcp client dial: " + err.Error()
				return a
			}
			s.tc = tc
		}
		tc := s.tc
		reused := tc.used
		tc.used = true
		tc.rawN, tc.frames = 0, nil
		s.hw.drain()
		if _, err := tc.c.Write(wire.Frame(qw)); err != nil {
			s.dropTCP()
			if reused {
				continue // closed by the idle timer: retry on a fresh connection
			}
			a.harness = "tcp client write on a fresh connection: " + err.Error()
			return a
		}
		// phase 1: the handler returns, or the server closes the connection
		var ev handled
		got := false
		t := time.NewTimer(s.wd)
	wait:
		for !tc.eof {
			select {
			case ev = <-s.hw.ch:
				got = true
				break wait
			case e := <-tc.rd:
				tc.pump(e)
			case <-t.C:
				break wait
			}
		}
		t.Stop()
		if !got && tc.eof {
			// Handle's event is sent before the server closes: look once more
			select {
			case ev = <-s.hw.ch:
				got = true
			default:
			}
		}
		if !got && !tc.eof {
			// watchdog: neither handled nor closed. Re-deliver once on a fresh connection.
			dump := serverGoroutines()
			s.dropTCP()
			if !stalled {
				stalled = true
				rep.Count("socket_redeliveries_tcp", 1)
				continue
			}
			a.harness = fmt.Sprintf("the TCP server neither handed the frame to the handler nor closed the connection within %v, neither on the re-delivery; server goroutines:\n%s", s.wd, dump)
			return a
		}
		if !got {
			// closed without the handler having run
			a.replies = append(a.replies, tc.frames...)
			s.dropTCP()
			if err := harnessParses(qw); err != nil {
				a.note = "server-side unpack failed: " + err.Error()
				return a
			}
			if len(qw) <= 12 {
				a.note = "server refuses frames of <= 12 bytes before the handler"
				return a
			}
			if len(a.replies) == 0 && attempt < 3 {
				// the server's idle timer (reused connection) or its 2 s first-read
				// timer (client starved between connect and write) won a race with our
				// write: timing, not behaviour - deliver again on a fresh connection.
				// Only a close that repeats on every attempt is reported.
				if !reused {
					rep.Count("socket_redeliveries_tcp_closed_unhandled", 1)
				}
				a = arrival{}
				continue
			}
			a.note = fmt.Sprintf("connection closed before the handler ran (on each of %d connections)", attempt+1)
			return a
		}
		if ev.nilPayload {
			// the server aborts the connection; anything before EOF is a reply
			tc.pumpFor(2*time.Second, func() bool { return len(tc.frames) > 0 })
			a.replies = append(a.replies, tc.frames...)
			if !tc.eof && len(tc.frames) == 0 {
				a.note = "connection not closed after a nil payload"
			}
			s.dropTCP()
			return a
		}
		// the handler returned ev.n bytes: exactly those must arrive and be one frame
		tc.pumpFor(deliverWait, func() bool { return tc.rawN >= ev.n })
		if len(tc.frames) == 0 {
			rest := append([]byte(nil), tc.d.Rest()...)
			if tc.rawN < ev.n {
				s.expired++
				a.note = fmt.Sprintf("handler returned a %d-byte payload but only %d bytes arrived (eof=%v)", ev.n, tc.rawN, tc.eof)
			} else {
				a.framing = fmt.Sprintf("the %d bytes written for the reply are not one length-prefixed frame (prefix %x)", tc.rawN, rest[:min(2, len(rest))])
				a.replies = append(a.replies, rest)
			}
			s.dropTCP()
			return a
		}
		tc.pumpFor(settleMore, nil)
		a.replies = append(a.replies, tc.frames...)
		if rest := tc.d.Rest(); len(rest) > 0 {
			a.framing = fmt.Sprintf("%d stray bytes after the reply frame", len(rest))
			a.replies = append(a.replies, append([]byte(nil), rest...))
			s.dropTCP()
			return a
		}
		if tc.eof {
			s.dropTCP()
		}
		return a
	}
	a.harness = "tcp client could not deliver the frame on four connections"
	return a
}
