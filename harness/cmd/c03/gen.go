package main

// Wire-level query generator. Nothing here uses miekg/dns: queries are
// described by a QSpec and rendered to bytes with lib/wire.

import (
	"math/rand"

	"verifharness/lib/wire"
)

// OptOption is one EDNS0 option of a generated OPT record.
type OptOption struct {
	Code uint16 `json:"code"`
	Data []byte `json:"data"`
}

// OptSpec describes the client's OPT record.
type OptSpec struct {
	Size     uint16      `json:"size"`
	DO       bool        `json:"do"`
	Version  uint8       `json:"version"`
	ExtRcode uint8       `json:"ext_rcode"`
	Z        uint16      `json:"z"`
	Options  []OptOption `json:"options,omitempty"`
}

// QSpec is one generated client message.
type QSpec struct {
	ID      uint16   `json:"id"`
	Name    []byte   `json:"name_wire"` // wire form, case as sent
	NameStr string   `json:"name"`
	Type    uint16   `json:"type"`
	Class   uint16   `json:"class"`
	Flags   uint16   `json:"flags"`
	OPT     *OptSpec `json:"opt,omitempty"`
	ExtraRR string   `json:"extra_rr,omitempty"` // one non-OPT additional record ("a" | "txt") instead of / besides nothing
	Malform string   `json:"malform,omitempty"`  // "" = well-formed; qr | qd0 | qd2 | an1 | ns1 | ar2 | ar2oo | an1ns1 | lie-*
	PoolIdx int      `json:"pool_idx"`
	Repeat  bool     `json:"repeat,omitempty"`
}

// Valid reports whether the message is a well-formed query in the sense of the
// property statement.
func (q *QSpec) Valid() bool { return q.Malform == "" }

// Lie reports whether the malformation is a header count that promises records
// which are not there (not judged: the statement defines malformed by what the
// message contains).
func (q *QSpec) Lie() bool { return len(q.Malform) > 4 && q.Malform[:4] == "lie-" }

// Advertised returns the client's advertised UDP size (0 when no OPT).
func (q *QSpec) Advertised() int {
	if q.OPT == nil {
		return 0
	}
	return int(q.OPT.Size)
}

var aRdata = []byte{192, 0, 2, 77}

// Wire renders the message.
func (q *QSpec) Wire() []byte {
	flags := q.Flags
	if q.Malform == "qr" {
		flags |= 0x8000
	}
	b := wire.NewBuilder(q.ID, flags)
	if q.Malform != "qd0" {
		b.Question(q.Name, q.Type, q.Class)
	}
	if q.Malform == "qd2" {
		b.Question(wire.EncodeName("second.question.test."), 1, 1)
	}
	if q.Malform == "an1" || q.Malform == "an1ns1" {
		b.RR(0, q.Name, 1, 1, 60, aRdata)
	}
	if q.Malform == "ns1" || q.Malform == "an1ns1" {
		b.RR(1, q.Name, 2, 1, 60, wire.EncodeName("ns.c03.test."))
	}
	nAdd := 0
	switch q.ExtraRR {
	case "a":
		b.RR(2, q.Name, 1, 1, 60, aRdata)
		nAdd++
	case "txt":
		b.RR(2, wire.EncodeName("extra.c03.test."), 16, 1, 0, wire.TXTRdata("additional"))
		nAdd++
	}
	if q.OPT != nil {
		var opts []wire.Option
		for _, o := range q.OPT.Options {
			opts = append(opts, wire.Option{Code: o.Code, Data: o.Data})
		}
		b.OPT(q.OPT.Size, q.OPT.ExtRcode, q.OPT.Version, q.OPT.DO, q.OPT.Z, opts)
		nAdd++
		if q.Malform == "ar2oo" {
			b.OPT(1232, 0, 0, false, 0, nil)
			nAdd++
		}
	}
	if q.Malform == "ar2" || q.Malform == "ar2oo" {
		for nAdd < 2 {
			b.RR(2, q.Name, 1, 1, 60, aRdata)
			nAdd++
		}
	}
	out := b.Bytes()
	switch q.Malform {
	case "lie-an1":
		out[7]++
	case "lie-ns1":
		out[9]++
	case "lie-ar":
		out[11] += 2
	case "lie-qd2":
		out[5]++
	}
	return out
}

// ---- names ----

const lower = "abcdefghijklmnopqrstuvwxyz"
const ldh = "abcdefghijklmnopqrstuvwxyz0123456789-"

func randLabel(r *rand.Rand, n int, alphabet string) []byte {
	b := make([]byte, n)
	for i := range b {
		b[i] = alphabet[r.Intn(len(alphabet))]
	}
	// no leading/trailing '-' (irrelevant on the wire, keeps rule text sane)
	if b[0] == '-' {
		b[0] = 'x'
	}
	if b[n-1] == '-' {
		b[n-1] = 'x'
	}
	return b
}

var oddBytes = []byte{'.', '\\', ' ', '"', ';', '(', ')', '@', '$', 0x00, 0x01, 0x7f, 0x80, 0xff, '\t', '\n', '*', '_', '/', ':', '#', '\'', 'A', 'Z', 'a', 'z', '0'}

func oddLabel(r *rand.Rand, n int) []byte {
	b := make([]byte, n)
	for i := range b {
		if r.Intn(3) == 0 {
			b[i] = oddBytes[r.Intn(len(oddBytes))]
		} else if r.Intn(8) == 0 {
			b[i] = byte(r.Intn(256))
		} else {
			b[i] = lower[r.Intn(26)]
		}
	}
	return b
}

// flipCase returns a copy of a wire name with ASCII letters randomly re-cased.
func flipCase(r *rand.Rand, raw []byte, mode int) []byte {
	out := append([]byte(nil), raw...)
	i := 0
	for i < len(out) {
		l := int(out[i])
		if l == 0 {
			break
		}
		for j := i + 1; j <= i+l && j < len(out); j++ {
			c := out[j]
			isLo := c >= 'a' && c <= 'z'
			isUp := c >= 'A' && c <= 'Z'
			if !isLo && !isUp {
				continue
			}
			switch mode {
			case 0: // random
				if r.Intn(2) == 0 {
					out[j] = c ^ 0x20
				}
			case 1: // all upper
				if isLo {
					out[j] = c ^ 0x20
				}
			case 2: // all lower
				if isUp {
					out[j] = c ^ 0x20
				}
			}
		}
		i += 1 + l
	}
	return out
}

func lowerWire(raw []byte) []byte {
	return flipCase(nil, raw, 2)
}

// wildName generates a name of one of the special kinds; suffix (wire labels,
// without root) is appended where it fits.
func wildName(r *rand.Rand, kind string, suffix [][]byte) [][]byte {
	switch kind {
	case "root":
		return nil
	case "single":
		return [][]byte{randLabel(r, 1+r.Intn(12), ldh)}
	case "label63":
		return append([][]byte{randLabel(r, 63, ldh)}, suffix...)
	case "label63odd":
		return append([][]byte{oddLabel(r, 63)}, suffix...)
	case "max255", "max255odd":
		// total wire length 255 = sum(1+len) + 1
		rest := 254
		var tail [][]byte
		for _, s := range suffix {
			rest -= 1 + len(s)
		}
		tail = suffix
		var labs [][]byte
		for rest > 0 {
			n := 63
			if rest-1 < n {
				n = rest - 1
			}
			if rest-(1+n) == 1 { // would leave room for a 0-length label only
				n--
			}
			if kind == "max255odd" {
				labs = append(labs, oddLabel(r, n))
			} else {
				labs = append(labs, randLabel(r, n, ldh))
			}
			rest -= 1 + n
		}
		return append(labs, tail...)
	case "odd":
		n := 1 + r.Intn(3)
		var labs [][]byte
		for i := 0; i < n; i++ {
			labs = append(labs, oddLabel(r, 1+r.Intn(20)))
		}
		return append(labs, suffix...)
	case "many": // many one-octet labels
		var labs [][]byte
		n := 20 + r.Intn(100)
		for i := 0; i < n; i++ {
			labs = append(labs, []byte{lower[r.Intn(26)]})
		}
		return labs
	}
	return append([][]byte{randLabel(r, 1+r.Intn(10), ldh)}, suffix...)
}

var wildKinds = []string{"root", "single", "label63", "label63odd", "max255", "max255odd", "odd", "odd", "many"}

// ---- types / classes / ids / flags / opt ----

var commonTypes = []uint16{1, 1, 1, 1, 28, 28, 28, 16, 5, 15, 2, 6, 12, 33, 64, 65, 255, 257, 41, 250, 251, 252, 0, 65535, 256 + 1, 256 + 28, 99}

func randType(r *rand.Rand) uint16 {
	if r.Intn(6) == 0 {
		return uint16(r.Intn(65536))
	}
	return commonTypes[r.Intn(len(commonTypes))]
}

func randClass(r *rand.Rand) uint16 {
	switch r.Intn(12) {
	case 0:
		return 3
	case 1:
		return 4
	case 2:
		return []uint16{0, 254, 255, 256 + 1}[r.Intn(4)]
	case 3:
		return uint16(r.Intn(65536))
	}
	return 1
}

var idClasses = []uint16{0, 1, 0xFFFF, 0x8000, 0x00FF, 0xFF00, 0x7FFF, 0x0100}

func randID(r *rand.Rand) uint16 {
	if r.Intn(3) == 0 {
		return idClasses[r.Intn(len(idClasses))]
	}
	return uint16(r.Intn(65536))
}

// flagsFromCounter enumerates every combination of AA TC RD RA Z AD CD (7 bits)
// and opcode (4 bits): 2048 combinations; QR = 0, query RCODE field from hi bits.
func flagsFromCounter(n int, opcodeZero bool) uint16 {
	bits := n & 0x7F
	op := (n >> 7) & 0xF
	if opcodeZero {
		op = 0
	}
	var f uint16
	f |= uint16(op) << 11
	// bit order in header: AA 0x0400 TC 0x0200 RD 0x0100 RA 0x0080 Z 0x0040 AD 0x0020 CD 0x0010
	f |= uint16(bits) << 4
	return f
}

var optSizes = []uint16{0, 511, 512, 513, 1232, 4096, 65535}

func randOPT(r *rand.Rand) *OptSpec {
	o := &OptSpec{}
	if r.Intn(6) == 0 {
		o.Size = uint16(r.Intn(65536))
	} else {
		o.Size = optSizes[r.Intn(len(optSizes))]
	}
	o.DO = r.Intn(3) == 0
	if r.Intn(10) == 0 {
		o.Version = uint8(1 + r.Intn(255))
	}
	if r.Intn(12) == 0 {
		o.ExtRcode = uint8(1 + r.Intn(255))
	}
	if r.Intn(10) == 0 {
		o.Z = uint16(r.Intn(0x8000))
	}
	n := 0
	switch r.Intn(5) {
	case 0:
		n = 1
	case 1:
		n = 1 + r.Intn(3)
	}
	for i := 0; i < n; i++ {
		switch r.Intn(6) {
		case 0: // ECS v4 /24
			o.Options = append(o.Options, OptOption{Code: 8, Data: []byte{0, 1, 24, 0, 198, 51, 100}})
		case 1: // ECS v6 /56
			o.Options = append(o.Options, OptOption{Code: 8, Data: []byte{0, 2, 56, 0, 0x20, 0x01, 0x0d, 0xb8, 0, 1, 2}})
		case 2: // cookie
			d := make([]byte, 8)
			r.Read(d)
			o.Options = append(o.Options, OptOption{Code: 10, Data: d})
		case 3: // padding
			o.Options = append(o.Options, OptOption{Code: 12, Data: make([]byte, r.Intn(64))})
		case 4: // nsid request
			o.Options = append(o.Options, OptOption{Code: 3, Data: nil})
		case 5: // unknown / local option
			d := make([]byte, r.Intn(40))
			r.Read(d)
			o.Options = append(o.Options, OptOption{Code: uint16(65001 + r.Intn(500)), Data: d})
		}
	}
	return o
}

var malforms = []string{"qr", "qd0", "qd2", "an1", "ns1", "an1ns1", "ar2", "ar2oo", "qr", "qd2", "ar2"}
var lies = []string{"lie-an1", "lie-ns1", "lie-ar", "lie-qd2"}

func nameString(raw []byte) string { return wire.NameString(raw) }
