package main

// held — the query context is NOT fresh when it reaches the cache.
//
// In a real sequence time passes between the creation of the query context (the
// server accepted the query) and the cache lookup (a sleep / forward / fallback /
// hosts step in front of the cache, a goroutine that was not scheduled), and
// again between the lookup and the store (the upstream takes its time). The
// statement's "seconds elapsed since it was stored" and "once its smallest TTL
// has run out" are about the instant the answer is SERVED, whatever the age of
// the query that asks for it.
//
// Every case sends one question through the chain  front -> cache -> terminal
// (sequence.ChainWalker, context from query_context.NewContext). The front plugin
// holds the query for a chosen time (0 .. 3.1 s, real time, all cases of a batch
// concurrently) and the entry it will meet is
//   - stored before the query arrived or WHILE it is held (by another query's miss
//     through the real store path, or by /load_dump with a chosen age),
//   - still alive at the lookup, or expired before the query arrived, or expiring
//     (message TTL / cache entry, lazy window) while the query is held.
// On a miss the upstream answers after a chosen delay (0 / 1.2 s), then the cache
// stores; a follow-up query (held again for 0 / 1.1 s) is judged against that
// store instant. All verdicts come from judge() with the bracket of the LOOKUP
// [front plugin returned, terminal entered]; stale hits must have started a refresh.

import (
	"fmt"
	"math/rand"
	"sync"
	"time"
)

type heldCase struct {
	I       int      `json:"case"`
	Q       question `json:"question"`
	Spec    msgSpec  `json:"reply"`
	Spec2   msgSpec  `json:"upstream_reply_if_the_held_query_misses"`
	Via     string   `json:"stored_via"`      // exec (another query's miss) | inject (/load_dump)
	StoreAt int64    `json:"store_offset_ms"` // relative to the creation of the held query's context: < 0 before it, >= 0 while it is held
	Age     int64    `json:"injected_age_s"`
	L       int64    `json:"msg_lifetime_s"`
	C       int64    `json:"entry_lifetime_s"`
	HoldMs  int64    `json:"hold_ms"` // wanted age of the query context at the lookup
	UpMs    int64    `json:"upstream_delay_ms"`
	Hold2Ms int64    `json:"followup_hold_ms"`
	W       window   `json:"entry_window"`
	Store   *result  `json:"store_call,omitempty"`
	H       *result  `json:"held_query,omitempty"`
	stale   int
	maybe   int
	failed  string
}

var (
	heldHolds   = []int64{0, 400, 1000, 1300, 2200, 3100}
	heldBefore  = []int64{0, 300, 900}
	heldWantL   = []uint32{1, 2, 2, 3, 3, 4, 5, 30, 300, 3600, 1 << 31}
	heldLazyTTL = []int{86400, 3, 86400, 2}
)

// heldSpec draws a storable reply whose smallest TTL (for NOERROR) is want.
func heldSpec(rng *rand.Rand, marker, want uint32) msgSpec {
	s := genStorable(rng, marker)
	if s.Rcode != 0 {
		return s // lifetime fixed by the rcode (30 s / 5 s)
	}
	k := rng.Intn(len(s.RRs))
	for i := range s.RRs {
		switch {
		case i == k || rng.Intn(3) == 0:
			s.RRs[i].TTL = want
		default:
			t := pickTTL(rng, false)
			if t < want {
				t = want
			}
			s.RRs[i].TTL = t
		}
	}
	return s
}

func holdBucket(ms int64) string {
	switch {
	case ms < 100:
		return "ctx<0.1s"
	case ms < 1000:
		return "ctx<1s"
	case ms < 2000:
		return "ctx1-2s"
	case ms < 3000:
		return "ctx2-3s"
	}
	return "ctx>=3s"
}

func sleepUntil(t int64) {
	if d := t - nowNs(); d > 0 {
		time.Sleep(time.Duration(d))
	}
}

func genHeld(rng *rand.Rand, b batchDesc, lazyTTL int) []*heldCase {
	cases := make([]*heldCase, b.N)
	for i := range cases {
		hc := &heldCase{I: i, Q: genQuestion(rng, fmt.Sprintf("h%d", b.Idx), i)}
		hc.HoldMs = heldHolds[i%len(heldHolds)]
		if (i/len(heldHolds))%2 == 0 {
			hc.Via = "exec"
		} else {
			hc.Via = "inject"
		}
		if hc.HoldMs > 0 && rng.Intn(2) == 0 {
			hc.StoreAt = hc.HoldMs * int64(1+rng.Intn(9)) / 10 // while the query is held
		} else {
			hc.StoreAt = -1 - heldBefore[rng.Intn(len(heldBefore))]
		}
		marker := uint32(1 + rng.Intn(1<<26))
		wantL := heldWantL[rng.Intn(len(heldWantL))]
		if i < 6 {
			// fixed core of every batch: an answer with TTL 1 / 2 stored by another query just
			// before the held query arrives; held 1.3 / 2.2 / 3.1 s (TTL runs out while held, or one whole second of age)
			hc.HoldMs, hc.Via, hc.StoreAt, wantL = heldHolds[3+i%3], "exec", -1-heldBefore[rng.Intn(2)], uint32(1+i/3)
		}
		if hc.Via == "exec" {
			hc.Spec = heldSpec(rng, marker, wantL)
			for i < 6 && hc.Spec.class() != "noerror" {
				hc.Spec = heldSpec(rng, marker, wantL)
			}
			_, _, hc.L, _ = hc.Spec.admission()
			hc.C = hc.L
			if lazyTTL > 0 && hc.Spec.class() == "noerror" {
				hc.C = int64(lazyTTL)
			}
		} else {
			hc.Spec = genStorable(rng, marker)
			_, _, hc.L, _ = hc.Spec.admission()
			ages := []int64{0, 1, 2, hc.L - 4, hc.L - 3, hc.L - 2, hc.L - 1, hc.L, hc.L + 1, hc.L + 2, rng.Int63n(hc.L)}
			for hc.Age = -1; hc.Age < 0; {
				hc.Age = ages[rng.Intn(len(ages))]
			}
			hc.C = hc.L
			switch {
			case hc.Spec.class() != "noerror":
			case lazyTTL > 0:
				hc.C = hc.L + []int64{1, 2, 3, 3600, 86400}[rng.Intn(5)]
			case rng.Intn(3) == 0:
				hc.C = hc.L + 1 + rng.Int63n(3600) // dump of a lazy instance loaded with lazy off
			}
		}
		hc.Spec2 = genStorable(rng, marker+1)
		hc.UpMs = []int64{0, 0, 1200}[rng.Intn(3)]
		hc.Hold2Ms = []int64{0, 0, 1100}[rng.Intn(3)]
		cases[i] = hc
	}
	return cases
}

func runHeld(b batchDesc) {
	caselog.Log(b)
	rng := rand.New(rand.NewSource(b.Seed))
	lazyTTL := 0
	if b.Lazy {
		lazyTTL = heldLazyTTL[(b.Idx/2)%len(heldLazyTTL)]
	}
	cases := genHeld(rng, b, lazyTTL)
	var qs []question
	for _, hc := range cases {
		if hc.Via == "inject" {
			qs = append(qs, hc.Q)
		}
	}
	keys, err := learnKeys(qs)
	if err != nil {
		rep.Inconclusive("held batch %d: %v", b.Idx, err)
		return
	}
	env := newEnv(lazyTTL)
	defer env.close()

	var wg sync.WaitGroup
	for _, hc := range cases {
		wg.Add(1)
		go func(hc *heldCase) {
			defer wg.Done()
			runHeldCase(env, b, lazyTTL, hc, keys[hc.Q.Name])
		}(hc)
	}
	wg.Wait()
	for _, hc := range cases {
		if hc.failed != "" {
			rep.Inconclusive("held batch %d case %d: %s", b.Idx, hc.I, hc.failed)
			return
		}
	}

	// every stale hit must have started a background refresh of its question
	if b.Lazy {
		deadline := time.Now().Add(3 * time.Second)
		for _, hc := range cases {
			if hc.stale == 0 {
				continue
			}
			for env.unregRefreshes(hc.Q.Name) == 0 && time.Now().Before(deadline) {
				time.Sleep(time.Millisecond)
			}
			n := env.unregRefreshes(hc.Q.Name)
			rep.Count("held:refreshes_started_by_stale_hits", n)
			if n == 0 {
				report("refresh-none-started", hc.Spec, true, b, fmt.Sprintf("%d stale hits on %s (query context %d ms old at the lookup) started no background refresh within 3 s", hc.stale, hc.Q.Name, hc.H.Held.AgeMs), map[string]any{"held_case": hc})
			} else if n > int64(hc.stale+hc.maybe) {
				report("refresh-more-than-hits", hc.Spec, true, b, fmt.Sprintf("%d sequential stale hits on %s started %d refreshes", hc.stale+hc.maybe, hc.Q.Name, n), map[string]any{"held_case": hc})
			}
		}
	}
}

func runHeldCase(env *env, b batchDesc, lazyTTL int, hc *heldCase, key []byte) {
	lazy := lazyTTL > 0
	var optWant []uint32
	store := func() {
		if hc.Via == "exec" {
			r := env.exec(hc.Q, build(hc.Spec, hc.Q.Name, hc.Q.Qtype))
			hc.Store = &r
			if r.Hit || r.Reached != 1 || r.AnsT == 0 {
				hc.failed = "the storing query for a fresh name did not reach the upstream exactly once as a miss"
				return
			}
			hc.W = window{StLo: r.AnsT, StHi: r.T1, L: hc.L, C: hc.C}
			return
		}
		stored := nowNs()/sec - hc.Age
		de, err := makeDumpEntry(key, hc.Q, hc.Spec, stored, hc.L, hc.C)
		if err != nil {
			hc.failed = "cannot pack crafted reply: " + err.Error()
			return
		}
		l0, l1, err := env.load([]*dumpEntry{de})
		if err != nil {
			hc.failed = err.Error()
			return
		}
		hc.W = window{StLo: stored * sec, StHi: stored * sec, L: hc.L, C: hc.C, LoadLo: l0, LoadHi: l1}
		optWant = hc.Spec.optWords()
	}

	if hc.StoreAt < 0 {
		store()
		if hc.failed != "" {
			return
		}
		time.Sleep(time.Duration(-hc.StoreAt-1) * time.Millisecond)
	}
	r := env.execHeld(hc.Q, build(hc.Spec2, hc.Q.Name, hc.Q.Qtype), time.Duration(hc.UpMs)*time.Millisecond, func(created int64) {
		if hc.StoreAt >= 0 {
			// another query (or a dump load) puts the entry into the cache while this one is held
			sleepUntil(created + hc.StoreAt*1e6)
			store()
		}
		sleepUntil(created + hc.HoldMs*1e6)
	})
	hc.H = &r
	if hc.failed != "" {
		return
	}
	if r.Reached != 1 {
		hc.failed = fmt.Sprintf("the held query reached the terminal %d times", r.Reached)
		return
	}

	// ---- the held query, judged at the instant of its lookup ----
	v := judge(hc.W, lazy, hc.Spec, optWant, r)
	age := r.Held.AgeMs
	where := "before"
	if hc.StoreAt >= 0 {
		where = "while-held"
	}
	msgExp, entExp := hc.W.StHi+hc.L*sec, hc.W.StHi+hc.C*sec
	state := "alive-at-lookup"
	switch {
	case entExp <= r.Held.Created:
		state = "entry-gone-before-arrival"
	case entExp <= r.T0:
		state = "entry-gone-while-held"
	case msgExp <= r.Held.Created:
		state = "ttl-out-before-arrival"
	case msgExp <= r.T0:
		state = "ttl-out-while-held"
	}
	if v.Viol != "" {
		v.Detail = fmt.Sprintf("query context was %d ms old at the cache lookup (held in front of the cache); entry stored %s the query arrived via %s, %s: %s", age, where, hc.Via, state, v.Detail)
	} else {
		rep.Max("held:max_context_age_at_lookup_ms", age)
		rep.SetAdd("held:context_age_x_stored_x_entry_state_x_outcome", holdBucket(age)+"/stored-"+where+"/"+state+"/"+v.Outcome)
		if age >= 1000 {
			rep.Count("held:lookups_with_context_older_than_1s", 1)
			if v.Outcome == "fresh" && v.E >= 1 {
				rep.Count("held:fresh_hits_aged_by_whole_seconds_with_context_older_than_1s", 1)
			}
		}
		if hc.StoreAt >= 0 && (v.Outcome == "fresh" || v.Outcome == "stale") {
			rep.Count("held:hits_on_entries_stored_after_the_query_arrived", 1)
		}
		if state == "ttl-out-while-held" {
			switch v.Outcome {
			case "stale":
				rep.Count("held:stale_hits_on_answers_whose_ttl_ran_out_while_the_query_was_held", 1)
			case "miss":
				rep.Count("held:misses_on_answers_whose_ttl_ran_out_while_the_query_was_held", 1)
			}
		}
		if state == "entry-gone-while-held" && v.Outcome == "miss" {
			rep.Count("held:misses_on_entries_dropped_while_the_query_was_held", 1)
		}
	}
	switch v.Outcome {
	case "stale":
		hc.stale++
	case "fresh-or-stale":
		hc.maybe++
	}
	account("held", b, hc.Spec, lazy, v, r, fmt.Sprintf("%s/%s/%s/%s", holdBucket(age), hc.Via, where, state), map[string]any{"held_case": hc})
	if v.Viol != "" {
		return
	}
	if age >= 1000 && v.E >= 1 && v.Outcome == "fresh" && hc.StoreAt >= 0 && wantSample("held") {
		rep.Sample(map[string]any{"phase": "held", "lazy_cache_ttl": lazyTTL, "held_case": hc, "judged": v.Outcome, "elapsed_s": v.E})
	}

	// ---- what the cache holds now ----
	cur, curW, curOpt := hc.Spec, hc.W, optWant
	slowStore := false
	if !r.Hit && r.HasResp && r.AnsT != 0 {
		// the held query missed, the upstream answered (after UpMs) and the cache stored that answer
		_, _, L2, _ := hc.Spec2.admission()
		C2 := L2
		if lazy && hc.Spec2.class() == "noerror" {
			C2 = int64(lazyTTL)
		}
		cur, curW, curOpt = hc.Spec2, window{StLo: r.AnsT, StHi: r.Held.CallT1, L: L2, C: C2}, nil
		slowStore = true
		rep.Count("held:answers_stored_by_a_held_query", 1)
	}

	// ---- follow-up query (held again for Hold2Ms), judged at ITS lookup ----
	r2 := env.execHeld(hc.Q, nil, 0, func(created int64) { sleepUntil(created + hc.Hold2Ms*1e6) })
	v2 := judge(curW, lazy, cur, curOpt, r2)
	age2 := r2.Held.AgeMs
	if v2.Viol != "" {
		what := "the entry the held query met"
		if slowStore {
			what = fmt.Sprintf("the answer the held query stored (its context was %d ms old at the lookup, the upstream took %d ms, the store followed)", age, hc.UpMs)
		}
		v2.Detail = fmt.Sprintf("follow-up query (context %d ms old at its lookup) on %s: %s", age2, what, v2.Detail)
	} else {
		if slowStore && (v2.Outcome == "fresh" || v2.Outcome == "fresh-or-stale") {
			rep.Count("held:followup_hits_on_answers_stored_by_a_held_query", 1)
			if age+hc.UpMs >= 1000 {
				rep.Count("held:followup_hits_on_answers_stored_1s_or_more_after_the_query_arrived", 1)
			}
		}
		rep.SetAdd("held:followup_context_age_x_outcome", holdBucket(age2)+"/"+v2.Outcome)
	}
	switch v2.Outcome {
	case "stale":
		hc.stale++
	case "fresh-or-stale":
		hc.maybe++
	}
	fp := "followup/" + holdBucket(age2)
	if slowStore {
		fp += "/stored-by-held/" + holdBucket(age+hc.UpMs)
	}
	account("held", b, cur, lazy, v2, r2, fp, map[string]any{"held_case": hc, "followup": true, "entry_window_now": curW, "entry_reply_now": cur})
}
