// C05 — cached answers age correctly and expire on time.
//
// The real cache plugin (plugin/executable/cache) is driven through its Exec
// method with a harness terminal plugin behind it. Entries of arbitrary age are
// injected through the plugin's own /load_dump API (crafted stored / message-
// expiry / cache-expiry times), internal expiry is read back through /dump, and
// every Exec is bracketed by wall-clock instants t0/t1: an outcome is accepted
// iff it is right for some instant in [t0,t1]. Expiry boundaries are crossed
// for real (entries expiring at the next whole second are probed just before
// and just after it; replies stored through Exec are probed until they expire).
// Lazy refresh is observed with a terminal that tells background refreshes from
// foreground calls and blocks refreshes on a gate while bursts of concurrent
// queries hit the stale entry. The "held" workload (held.go) sends queries through
// a chain front -> cache -> terminal whose front plugin holds them for up to 3.1 s,
// so that the query context is old at the lookup (entries stored / expiring while
// the query waits); there the bracket is the one of the LOOKUP, not of the call.
package main

import (
	"fmt"
	"math/rand"
	"os"
	"runtime"
	"sort"
	"sync"
	"sync/atomic"
	"time"

	"github.com/miekg/dns"

	"verifharness/lib/evid"
)

var (
	rep     *evid.Reporter
	caselog *evid.CaseLog
)

type batchDesc struct {
	Phase string `json:"phase"` // aging | admission | boundary | live | burst | transition | held
	Seed  int64  `json:"seed"`
	Lazy  bool   `json:"lazy"`
	N     int    `json:"n"`
	Procs int    `json:"procs,omitempty"`
	Idx   int    `json:"idx"`
}

func lazyTag(l bool) string {
	if l {
		return "-lazy"
	}
	return ""
}

// reportsFiled counts report() calls that filed a violation (rep.Violations() counts distinct keys only).
var reportsFiled atomic.Int64

// report files a violation under a small, stable key (kind x reply class x lazy).
func report(kind string, spec msgSpec, lazy bool, b batchDesc, detail string, extra map[string]any) {
	if kind == "wrong-entry" || len(kind) > 8 && kind[:8] == "harness-" {
		rep.Inconclusive("%s in %s batch %d: %s", kind, b.Phase, b.Idx, detail)
		return
	}
	reportsFiled.Add(1)
	c := map[string]any{"batch": b, "reply": spec}
	for k, v := range extra {
		c[k] = v
	}
	key := kind + "-" + spec.class() + lazyTag(lazy)
	if spec.class() == "rcode-other" || kind == "reload-not-applied" {
		key = kind + lazyTag(lazy)
	}
	rep.Violation(key, detail, c)
}

// ---- shared statistics that evid has no primitive for ----

var stats struct {
	mu             sync.Mutex
	minHitBefore   int64 // smallest distance (ns) between the end of a fresh hit and the expiry instant that followed it
	minGoneAfter   int64 // smallest distance (ns) between the expiry instant and the start of a call that no longer got the fresh answer
	maxAgeServed   int64 // largest whole-second age subtracted on an accepted hit
	expectedHits   int64
	unexpectedMiss int64
	trExample      map[string]any // one written-out chain of the transition workload
}

func init() { stats.minHitBefore, stats.minGoneAfter = 1<<62, 1<<62 }

var sampleCap = struct {
	mu sync.Mutex
	n  map[string]int
}{n: map[string]int{}}

// wantSample keeps the written-out samples spread over the workloads (<= 2 each).
func wantSample(phase string) bool {
	if !rep.WantSample() {
		return false
	}
	sampleCap.mu.Lock()
	defer sampleCap.mu.Unlock()
	if sampleCap.n[phase] >= map[string]int{"aging": 2, "admission": 1, "boundary": 2, "live": 1, "burst": 2, "held": 1}[phase] {
		return false
	}
	sampleCap.n[phase]++
	return true
}

func noteVerdict(v verdict) {
	stats.mu.Lock()
	if v.ExpectedHit {
		stats.expectedHits++
		if v.Outcome == "miss-unexpected" {
			stats.unexpectedMiss++
		}
	}
	if (v.Outcome == "fresh" || v.Outcome == "fresh-or-stale") && v.E > stats.maxAgeServed {
		stats.maxAgeServed = v.E
	}
	stats.mu.Unlock()
}

func ageBucket(a, l int64) string {
	switch {
	case a == 0:
		return "0"
	case a < l-1:
		if a > 365*86400 {
			return "years"
		}
		return "mid"
	case a == l-1:
		return "L-1"
	case a == l:
		return "L"
	default:
		return ">L"
	}
}

// account handles the common bookkeeping of one judged probe.
func account(phase string, b batchDesc, spec msgSpec, lazy bool, v verdict, r result, fpExtra string, extra map[string]any) {
	rep.Eval(1)
	noteVerdict(v)
	if v.Viol != "" {
		if extra == nil {
			extra = map[string]any{}
		}
		extra["call"] = r
		report(v.Viol, spec, lazy, b, v.Detail, extra)
		rep.Count(phase+":violating_probes", 1)
		return
	}
	rep.Count(phase+":"+v.Outcome, 1)
	if r.Err != "" {
		rep.Count(phase+":exec_returned_error", 1)
	}
	if r.Reached != 1 {
		rep.Count(phase+":terminal_reached_not_once", 1)
	}
	switch v.Outcome {
	case "fresh", "stale", "fresh-or-stale", "miss":
		rep.Nontrivial(fmt.Sprintf("%s|%s|%v|%s|%s|e%d", phase, spec.shape(), lazy, fpExtra, v.Outcome, v.E))
		rep.SetAdd("reply_class_x_outcome", spec.class()+lazyTag(lazy)+"/"+v.Outcome)
	}
}

// ============================ aging (injected entries) ============================

type agingEnt struct {
	Q      question `json:"question"`
	Spec   msgSpec  `json:"reply"`
	Age    int64    `json:"age_s"`
	L      int64    `json:"msg_lifetime_s"`
	C      int64    `json:"entry_lifetime_s"`
	Stored int64    `json:"stored_unix"`
	w      window
	stale  int
	maybe  int
	fresh  int
}

func candidateAges(rng *rand.Rand, spec msgSpec, L, C int64, lazy bool) []int64 {
	lim := L
	if C > lim {
		lim = C
	}
	set := map[int64]bool{}
	add := func(a int64) {
		if a >= 0 && a <= lim+1 {
			set[a] = true
		}
	}
	for _, a := range []int64{0, 1, 2, L / 2, L - 2, L - 1, L, L + 1} {
		add(a)
	}
	for _, r := range spec.RRs {
		add(int64(r.TTL) - 1)
		add(int64(r.TTL))
		add(int64(r.TTL) + 1)
	}
	if C > L {
		add(C - 1)
		add(C)
		add(C + 1)
		add((L + C) / 2)
		add(L + rng.Int63n(C-L))
	}
	add(rng.Int63n(L))
	add(rng.Int63n(L))
	out := make([]int64, 0, len(set))
	for a := range set {
		out = append(out, a)
	}
	sort.Slice(out, func(i, j int) bool { return out[i] < out[j] })
	return out
}

func genStorable(rng *rand.Rand, marker uint32) msgSpec {
	for {
		var s msgSpec
		switch x := rng.Intn(100); {
		case x < 50:
			s = genSpec(rng, dns.RcodeSuccess, true, false, marker)
		case x < 65:
			s = genSpec(rng, dns.RcodeSuccess, false, false, marker)
		case x < 85:
			s = genSpec(rng, dns.RcodeNameError, rng.Intn(2) == 0, true, marker)
		default:
			s = genSpec(rng, dns.RcodeServerFailure, rng.Intn(2) == 0, true, marker)
		}
		if ok, _, _, _ := s.admission(); ok {
			return s
		}
	}
}

func entryLifetime(rng *rand.Rand, spec msgSpec, L int64, lazy bool) int64 {
	if spec.class() != "noerror" {
		return L
	}
	if !lazy {
		// a dump written by an instance with lazy caching on, loaded by one with it off:
		// the entry outlives its message, which must simply not be served any more
		if rng.Intn(3) == 0 {
			return L + 1 + rng.Int63n(3600)
		}
		return L
	}
	switch rng.Intn(6) {
	case 0:
		return L + 1
	case 1:
		return L + 5
	case 2:
		return L + 3600
	case 3:
		if L >= 2 {
			return L / 2 // lazy_cache_ttl smaller than the smallest TTL: entry dropped first
		}
		return L + 2
	case 4:
		return L + 86400
	default:
		return L + 1 + rng.Int63n(600)
	}
}

func makeDumpEntry(key []byte, q question, spec msgSpec, stored, L, C int64) (*dumpEntry, error) {
	wire, err := build(spec, q.Name, q.Qtype).Pack()
	if err != nil {
		return nil, err
	}
	return &dumpEntry{Key: key, Msg: wire, MsgStoredTime: stored, MsgExpirationTime: stored + L, CacheExpirationTime: stored + C}, nil
}

func runAging(b batchDesc) {
	caselog.Log(b)
	rng := rand.New(rand.NewSource(b.Seed))
	lazyTTL := 0
	if b.Lazy {
		lazyTTL = 86400
	}
	var ents []*agingEnt
	for len(ents) < b.N {
		spec := genStorable(rng, uint32(1+rng.Intn(1<<27)))
		_, _, L, _ := spec.admission()
		C := entryLifetime(rng, spec, L, b.Lazy)
		for _, a := range candidateAges(rng, spec, L, C, b.Lazy) {
			ents = append(ents, &agingEnt{Q: genQuestion(rng, fmt.Sprintf("a%d", b.Idx), len(ents)), Spec: spec, Age: a, L: L, C: C})
		}
	}
	qs := make([]question, len(ents))
	for i, e := range ents {
		qs[i] = e.Q
	}
	keys, err := learnKeys(qs)
	if err != nil {
		rep.Inconclusive("aging batch %d: %v", b.Idx, err)
		return
	}
	env := newEnv(lazyTTL)
	defer env.close()
	base := time.Now().Unix()
	des := make([]*dumpEntry, 0, len(ents))
	for _, e := range ents {
		e.Stored = base - e.Age
		de, err := makeDumpEntry(keys[e.Q.Name], e.Q, e.Spec, e.Stored, e.L, e.C)
		if err != nil {
			rep.Inconclusive("aging batch %d: cannot pack crafted reply: %v", b.Idx, err)
			return
		}
		des = append(des, de)
	}
	l0, l1, err := env.load(des)
	if err != nil {
		rep.Inconclusive("aging batch %d: %v", b.Idx, err)
		return
	}
	rep.Count("aging:entries_injected", int64(len(ents)))
	for _, e := range ents {
		e.w = window{StLo: e.Stored * sec, StHi: e.Stored * sec, L: e.L, C: e.C, LoadLo: l0, LoadHi: l1}
	}
	// read the injected state back: what is alive must be in /dump with the crafted expiries
	if dl, err := env.dump(); err != nil {
		rep.Inconclusive("aging batch %d: %v", b.Idx, err)
		return
	} else {
		byKey := map[string]*dumpEntry{}
		for _, de := range dl {
			byKey[string(de.GetKey())] = de
		}
		nowS := time.Now().Unix()
		for _, e := range ents {
			de := byKey[string(keys[e.Q.Name])]
			alive := e.Stored+e.C > nowS+1
			switch {
			case de == nil && alive:
				rep.Count("aging:injected_entry_missing_in_dump", 1)
			case de != nil:
				rep.Count("aging:entries_read_back", 1)
				if de.GetMsgExpirationTime() != e.Stored+e.L || de.GetCacheExpirationTime() != e.Stored+e.C {
					rep.Count("aging:read_back_expiry_differs", 1)
				}
			}
		}
	}
	for pass := 0; pass < 2; pass++ {
		for _, e := range ents {
			r := env.exec(e.Q, nil)
			v := judge(e.w, b.Lazy, e.Spec, e.Spec.optWords(), r)
			switch v.Outcome {
			case "stale":
				e.stale++
			case "fresh-or-stale":
				e.maybe++
			case "fresh":
				e.fresh++
			}
			if v.Outcome == "fresh" && len(e.Spec.optWords()) > 0 {
				rep.Count("aging:hits_with_opt_word_intact", 1)
			}
			if v.Outcome == "stale" && len(e.Spec.optWords()) > 0 {
				rep.Count("aging:stale_hits_with_opt_word_intact", 1)
			}
			account("aging", b, e.Spec, b.Lazy, v, r, fmt.Sprintf("age%d/%s/p%d", e.Age, ageBucket(e.Age, e.L), pass),
				map[string]any{"entry": e, "pass": pass})
			if pass == 0 && v.Viol == "" && v.E > 3 && len(e.Spec.RRs) >= 3 && rng.Intn(20) == 0 && wantSample("aging") {
				rep.Sample(map[string]any{"phase": "aging", "lazy": b.Lazy, "entry": e, "call": r, "judged": v.Outcome, "elapsed_s": v.E})
			}
		}
	}
	// every stale hit must have started a background refresh of its question
	if b.Lazy {
		deadline := time.Now().Add(3 * time.Second)
		for _, e := range ents {
			if e.stale == 0 {
				if n := env.unregRefreshes(e.Q.Name); n > int64(e.maybe) {
					rep.Count("aging:refreshes_started_by_fresh_hits(not_forbidden)", n)
				}
				continue
			}
			for env.unregRefreshes(e.Q.Name) == 0 && time.Now().Before(deadline) {
				time.Sleep(time.Millisecond)
			}
			n := env.unregRefreshes(e.Q.Name)
			rep.Count("aging:refreshes_started_by_stale_hits", n)
			if n == 0 {
				report("refresh-none-started", e.Spec, true, b, fmt.Sprintf("%d stale hits on %s started no background refresh within 3 s", e.stale, e.Q.Name), map[string]any{"entry": e})
			} else if n > int64(e.stale+e.maybe) {
				report("refresh-more-than-hits", e.Spec, true, b, fmt.Sprintf("%d sequential stale hits on %s started %d refreshes", e.stale+e.maybe, e.Q.Name, n), map[string]any{"entry": e})
			}
		}
	}
}

// ============================ admission (store path) ============================

func genAdmission(rng *rand.Rand, marker uint32) msgSpec {
	var s msgSpec
	x := rng.Intn(100)
	zero := rng.Intn(4) == 0
	switch {
	case x < 30:
		s = genSpec(rng, dns.RcodeSuccess, true, zero, marker)
	case x < 42:
		s = genSpec(rng, dns.RcodeSuccess, false, zero, marker)
	case x < 45:
		s = msgSpec{Rcode: dns.RcodeSuccess, Marker: marker} // no record at all
	case x < 60:
		s = genSpec(rng, dns.RcodeNameError, rng.Intn(2) == 0, true, marker)
	case x < 72:
		s = genSpec(rng, dns.RcodeServerFailure, rng.Intn(2) == 0, true, marker)
	default:
		rc := 1 + rng.Intn(23) // 1..23, includes the extended rcodes 16..23
		if rc == 2 || rc == 3 {
			rc = 4 + rng.Intn(12)
		}
		s = genSpec(rng, rc, rng.Intn(2) == 0, zero, marker)
	}
	s.TC = rng.Intn(5) == 0
	return s
}

type admEnt struct {
	Q    question `json:"question"`
	Spec msgSpec  `json:"reply"`
	r1   result
}

func runAdmission(b batchDesc) {
	caselog.Log(b)
	rng := rand.New(rand.NewSource(b.Seed))
	lazyTTL := 0
	if b.Lazy {
		lazyTTL = []int{5, 300, 86400, 1 << 31}[rng.Intn(4)]
	}
	env := newEnv(lazyTTL)
	defer env.close()
	ents := make([]*admEnt, b.N)
	for i := range ents {
		e := &admEnt{Q: genQuestion(rng, fmt.Sprintf("s%d", b.Idx), i), Spec: genAdmission(rng, uint32(1+rng.Intn(1<<27)))}
		ents[i] = e
		e.r1 = env.exec(e.Q, build(e.Spec, e.Q.Name, e.Q.Qtype))
		if e.r1.Hit || e.r1.Reached != 1 {
			rep.Inconclusive("admission batch %d: first query for a fresh name did not reach the upstream exactly once as a miss", b.Idx)
			return
		}
	}
	// internal expiry is read back through /dump; if the dump itself fails the
	// Exec-level oracle (second query) still runs and the run is marked inconclusive
	dumpOK := true
	var byName map[string]*dumpEntry
	dl, err := env.dump()
	if err == nil {
		byName, err = dumpByName(dl)
	}
	if err != nil {
		rep.Inconclusive("admission batch %d: %v", b.Idx, err)
		dumpOK = false
	}
	dumpT := nowNs()
	for _, e := range ents {
		storable, open, L, why := e.Spec.admission()
		C := L
		if b.Lazy && e.Spec.class() == "noerror" {
			C = int64(lazyTTL)
		}
		cls := e.Spec.class()
		de := byName[e.Q.Name]
		wit := map[string]any{"entry": e, "store_call": e.r1, "lazy_cache_ttl": lazyTTL}
		rep.Eval(1)
		storeHiS := floorDiv(e.r1.T1+slackNs, sec)
		storeLoS := floorDiv(e.r1.T0-slackNs, sec)
		switch {
		case !dumpOK:
		case !storable && !open:
			if de != nil {
				report("stored-"+why, e.Spec, b.Lazy, b, fmt.Sprintf("/dump holds an entry for a reply that must never be stored (%s): msg expiry %d, entry expiry %d", why, de.GetMsgExpirationTime(), de.GetCacheExpirationTime()), wit)
			} else {
				rep.Count("admission:refused_"+why, 1)
				rep.Nontrivial(fmt.Sprintf("adm|%s|%v|refused", e.Spec.shape(), b.Lazy))
			}
		case de == nil:
			if open {
				rep.Count("admission:no_record_noerror_not_stored(open_case)", 1)
			} else if dumpT < e.r1.T0+C*sec-sec {
				rep.Count("admission:storable_but_not_stored(allowed)", 1)
				// for the vacuity guard only entries count whose presence every reading of the
				// statement guarantees: a negative answer "lives at most" its limit, so one that
				// carries records may legitimately be gone once its own smallest TTL has run out
				G := C
				if cls != "noerror" {
					if m, ok := e.Spec.minTTL(); ok && int64(m) < G {
						G = int64(m)
					}
				}
				if dumpT < e.r1.T0+G*sec-sec {
					stats.mu.Lock()
					stats.expectedHits++
					stats.unexpectedMiss++
					stats.mu.Unlock()
				}
			}
		default:
			rep.Count("admission:stored_"+cls, 1)
			me, ce := de.GetMsgExpirationTime(), de.GetCacheExpirationTime()
			wit["dump_msg_expiry_unix"], wit["dump_entry_expiry_unix"] = me, ce
			if me > storeHiS+L {
				report("lifetime", e.Spec, b.Lazy, b, fmt.Sprintf("message expiry %d is %d s after the latest possible store second %d; the statement allows at most %d s for a %s reply", me, me-storeHiS, storeHiS, L, cls), wit)
			} else if ce > storeHiS+C && !(b.Lazy && cls == "noerror" && ce <= storeHiS+L) {
				// (with lazy cache on an entry may also be kept as long as its records are valid)
				report("entry-lifetime", e.Spec, b.Lazy, b, fmt.Sprintf("cache-entry expiry %d is %d s after the latest possible store second %d; at most %d s allowed for a %s reply (lazy_cache_ttl=%d)", ce, ce-storeHiS, storeHiS, C, cls, lazyTTL), wit)
			} else {
				if me < storeLoS+L {
					rep.Count("admission:lifetime_shorter_than_allowed", 1)
				} else {
					rep.Count("admission:lifetime_exact", 1)
				}
				rep.Nontrivial(fmt.Sprintf("adm|%s|%v|stored|%d|%d", e.Spec.shape(), b.Lazy, me-storeLoS, ce-storeLoS))
				rep.SetAdd("stored_lifetimes", fmt.Sprintf("%s:%d", cls, me-storeLoS))
			}
		}
		// second query: reaches the upstream or is served with aged TTLs
		r2 := env.exec(e.Q, nil)
		wit["second_call"] = r2
		if !storable && !open {
			rep.Eval(1)
			if r2.Hit {
				report("stored-"+why, e.Spec, b.Lazy, b, fmt.Sprintf("second query was served from cache although the reply must never be stored (%s)", why), wit)
			} else {
				rep.Count("admission:second_query_reached_upstream", 1)
			}
			continue
		}
		if len(e.Spec.RRs) == 0 && open {
			continue
		}
		w := window{StLo: e.r1.T0, StHi: e.r1.T1, L: L, C: C}
		v := judge(w, b.Lazy, e.Spec, nil, r2)
		account("admission", b, e.Spec, b.Lazy, v, r2, "second", wit)
		if v.Viol == "" && r2.Hit && len(r2.Obs.OPTs) > 0 {
			rep.Count("admission:hits_carrying_an_opt_record", 1)
		}
		if v.Outcome == "fresh" && cls != "noerror" && de != nil && rng.Intn(30) == 0 && wantSample("admission") {
			rep.Sample(map[string]any{"phase": "admission", "lazy_cache_ttl": lazyTTL, "entry": e, "dump_msg_expiry_unix": de.GetMsgExpirationTime(), "dump_entry_expiry_unix": de.GetCacheExpirationTime(), "store_call": e.r1, "second_call": r2})
		}
	}
}

// ============================ boundary (injected, crossed in real time) ============================

type bndEnt struct {
	Q     question `json:"question"`
	Spec  msgSpec  `json:"reply"`
	L     int64    `json:"msg_lifetime_s"`
	C     int64    `json:"entry_lifetime_s"`
	ExpAt int64    `json:"msg_expiry_unix"`
	w     window
}

func distBucket(d int64) string {
	s := "+"
	if d < 0 {
		s, d = "-", -d
	}
	switch ms := d / 1e6; {
	case ms < 1:
		return s + "<1ms"
	case ms < 5:
		return s + "<5ms"
	case ms < 20:
		return s + "<20ms"
	case ms < 100:
		return s + "<100ms"
	case ms < 1000:
		return s + "<1s"
	}
	return s + ">=1s"
}

func runBoundary(b batchDesc) {
	caselog.Log(b)
	rng := rand.New(rand.NewSource(b.Seed))
	lazyTTL := 0
	if b.Lazy {
		lazyTTL = 86400
	}
	ents := make([]*bndEnt, b.N)
	qs := make([]question, b.N)
	for i := range ents {
		var spec msgSpec
		var L int64
		for L < 5 { // stored = expiry - L must not lie in the future
			spec = genStorable(rng, uint32(1+rng.Intn(1<<27)))
			_, _, L, _ = spec.admission()
		}
		C := L
		if b.Lazy && spec.class() == "noerror" {
			C = L + 1
		}
		ents[i] = &bndEnt{Q: genQuestion(rng, fmt.Sprintf("b%d", b.Idx), i), Spec: spec, L: L, C: C}
		qs[i] = ents[i].Q
	}
	keys, err := learnKeys(qs)
	if err != nil {
		rep.Inconclusive("boundary batch %d: %v", b.Idx, err)
		return
	}
	env := newEnv(lazyTTL)
	defer env.close()
	now := nowNs()
	T := now/sec + 2
	if now%sec > 700e6 {
		T++
	}
	des := make([]*dumpEntry, 0, len(ents))
	for i, e := range ents {
		e.ExpAt = T + int64(i%2)
		stored := e.ExpAt - e.L
		de, err := makeDumpEntry(keys[e.Q.Name], e.Q, e.Spec, stored, e.L, e.C)
		if err != nil {
			rep.Inconclusive("boundary batch %d: %v", b.Idx, err)
			return
		}
		des = append(des, de)
		e.w = window{StLo: stored * sec, StHi: stored * sec, L: e.L, C: e.C}
	}
	l0, l1, err := env.load(des)
	if err != nil {
		rep.Inconclusive("boundary batch %d: %v", b.Idx, err)
		return
	}
	for _, e := range ents {
		e.w.LoadLo, e.w.LoadHi = l0, l1
	}
	rep.Count("boundary:entries_injected", int64(len(ents)))
	end := (T+1)*sec + 150e6
	if b.Lazy {
		end += sec
	}
	bounds := []int64{T * sec, (T + 1) * sec, (T + 2) * sec}
	sweeps := 0
	for nowNs() < end {
		sweeps++
		for _, e := range ents {
			r := env.exec(e.Q, nil)
			v := judge(e.w, b.Lazy, e.Spec, e.Spec.optWords(), r)
			exp := e.ExpAt * sec
			d := r.T0 - exp
			if r.T1 < exp {
				d = r.T1 - exp
			}
			if r.T0 < exp && r.T1 >= exp {
				rep.Count("boundary:call_brackets_straddling_the_expiry_instant", 1)
				d = 0
			}
			if v.Viol == "" {
				stats.mu.Lock()
				if v.Outcome == "fresh" && r.T1 < exp && exp-r.T1 < stats.minHitBefore {
					stats.minHitBefore = exp - r.T1
				}
				if (v.Outcome == "miss" || v.Outcome == "stale") && r.T0 >= exp && r.T0-exp < stats.minGoneAfter {
					stats.minGoneAfter = r.T0 - exp
				}
				stats.mu.Unlock()
				if r.T0 >= exp && r.T0-exp < 50e6 {
					rep.Count("boundary:"+v.Outcome+"_within_50ms_after_expiry", 1)
				}
				if r.T1 < exp && exp-r.T1 < 50e6 {
					rep.Count("boundary:"+v.Outcome+"_within_50ms_before_expiry", 1)
				}
			}
			account("boundary", b, e.Spec, b.Lazy, v, r, distBucket(d), map[string]any{"entry": e, "ns_after_expiry": r.T0 - exp})
			if v.Viol == "" && r.T0 >= exp && r.T0-exp < 3e6 && rng.Intn(10) == 0 && wantSample("boundary") {
				rep.Sample(map[string]any{"phase": "boundary", "lazy": b.Lazy, "entry": e, "call": r, "ns_after_expiry": r.T0 - exp, "judged": v.Outcome})
			}
		}
		// pace: tight around the whole-second boundaries, relaxed elsewhere
		n := nowNs()
		near := int64(1 << 62)
		for _, bd := range bounds {
			if x := bd - n; x > -40e6 && x < near {
				near = x
			}
		}
		switch {
		case near < 40e6: // inside a window (or it is about to begin)
		case near-40e6 < 25e6:
			time.Sleep(time.Duration(near - 40e6))
		default:
			time.Sleep(25 * time.Millisecond)
		}
	}
	rep.Count("boundary:sweeps", int64(sweeps))
}

// ============================ live (stored through Exec, expiry waited for) ============================

type liveEnt struct {
	Q    question `json:"question"`
	Spec msgSpec  `json:"reply"`
	L    int64    `json:"msg_lifetime_s"`
	C    int64    `json:"entry_lifetime_s"`
	r1   result
	w    window
}

func runLive(b batchDesc) {
	caselog.Log(b)
	rng := rand.New(rand.NewSource(b.Seed))
	lazyTTL := 0
	if b.Lazy {
		lazyTTL = 3
	}
	env := newEnv(lazyTTL)
	defer env.close()
	var specs []msgSpec
	mk := func(rcode int, rrs ...rrSpec) {
		specs = append(specs, msgSpec{Rcode: rcode, RRs: rrs, Marker: uint32(1 + rng.Intn(1<<27))})
	}
	big := func() uint32 { return []uint32{5, 30, 300, 1 << 31, 1<<32 - 1}[rng.Intn(5)] }
	for _, m := range []uint32{1, 2, 3, 4} {
		mk(0, rrSpec{0, "A", m}, rrSpec{0, "A", big()}, rrSpec{1, "NS", big()})
		mk(0, rrSpec{0, "CNAME", big()}, rrSpec{0, "A", big()}, rrSpec{2, "A", m})
		mk(0, rrSpec{1, "SOA", m}, rrSpec{2, "TXT", big()}) // empty NOERROR: min(300, m)
	}
	mk(2)                                                                     // bare SERVFAIL: 5 s
	mk(2, rrSpec{1, "SOA", 3}, rrSpec{2, "A", 0})                             // SERVFAIL with records
	mk(2, rrSpec{0, "A", 1 << 31})                                            //
	mk(3, rrSpec{1, "SOA", 3}, rrSpec{1, "NS", 300})                          // NXDOMAIN: 30 s, SOA floor at 1 after 3 s
	mk(3, rrSpec{1, "SOA", 0}, rrSpec{2, "TXT", 2})                           //
	mk(0, rrSpec{1, "SOA", 301}, rrSpec{1, "NS", 1 << 31})                    // empty NOERROR, min>300
	mk(0, rrSpec{0, "A", 1<<32 - 1}, rrSpec{0, "AAAA", 6}, rrSpec{2, "A", 7}) // expires at the end of the run
	ents := make([]*liveEnt, len(specs))
	var lastStore int64
	for i, s := range specs {
		_, _, L, _ := s.admission()
		C := L
		if b.Lazy && s.class() == "noerror" {
			C = int64(lazyTTL)
		}
		e := &liveEnt{Q: genQuestion(rng, fmt.Sprintf("l%d", b.Idx), i), Spec: s, L: L, C: C}
		e.r1 = env.exec(e.Q, build(s, e.Q.Name, e.Q.Qtype))
		if e.r1.Hit || e.r1.Reached != 1 {
			rep.Inconclusive("live batch %d: first query did not reach the upstream as a miss", b.Idx)
			return
		}
		e.w = window{StLo: e.r1.T0, StHi: e.r1.T1, L: L, C: C}
		ents[i] = e
		lastStore = e.r1.T1
	}
	rep.Count("live:replies_stored_through_exec", int64(len(ents)))
	end := lastStore + 6*sec + 400e6
	for nowNs() < end {
		for _, e := range ents {
			r := env.exec(e.Q, nil)
			v := judge(e.w, b.Lazy, e.Spec, nil, r)
			since := r.T0 - e.r1.T1
			if v.Viol == "" {
				exp := e.w.StHi + e.L*sec
				stats.mu.Lock()
				if (v.Outcome == "miss" || v.Outcome == "stale") && r.T0 >= exp && r.T0-exp < stats.minGoneAfter {
					stats.minGoneAfter = r.T0 - exp
				}
				stats.mu.Unlock()
			}
			account("live", b, e.Spec, b.Lazy, v, r, fmt.Sprintf("t%d", since/(250e6)), map[string]any{"entry": e, "store_call": e.r1})
			if v.Viol == "" && v.Outcome == "fresh" && v.E >= 2 && rng.Intn(40) == 0 && wantSample("live") {
				rep.Sample(map[string]any{"phase": "live", "lazy_cache_ttl": lazyTTL, "entry": e, "store_call": e.r1, "call": r, "elapsed_s": v.E})
			}
		}
		time.Sleep(8 * time.Millisecond)
	}
}

// ============================ lazy refresh bursts ============================

type burstQ struct {
	Q       question `json:"question"`
	Old     msgSpec  `json:"stale_reply"`
	New     msgSpec  `json:"refreshed_reply"`
	Age     int64    `json:"age_s"`
	L       int64    `json:"msg_lifetime_s"`
	N       int      `json:"queries"`
	K1      int      `json:"first_wave"`
	FailOne bool     `json:"first_refresh_fails"`
	st      *bgState
	w       window
}

func runBurst(b batchDesc) (violated bool) {
	caselog.Log(b)
	before := reportsFiled.Load()
	rng := rand.New(rand.NewSource(b.Seed))
	if b.Procs > 0 {
		runtime.GOMAXPROCS(b.Procs)
	}
	const lazyTTL = 7200
	nq := 1
	if rng.Intn(3) == 0 {
		nq = 2 + rng.Intn(3)
	}
	bqs := make([]*burstQ, nq)
	qs := make([]question, nq)
	for i := range bqs {
		old := genSpec(rng, 0, true, false, uint32(1+rng.Intn(1<<27)))
		old.OPT, old.OPT2 = false, false
		nw := genSpec(rng, 0, true, false, old.Marker+1)
		nw.OPT2 = false
		_, _, L, _ := old.admission()
		n := 2 + rng.Intn(63)
		if b.N > 0 {
			n = b.N
		}
		q := &burstQ{Q: genQuestion(rng, fmt.Sprintf("z%d", b.Idx), i), Old: old, New: nw, L: L, Age: L + rng.Int63n(120), N: n, FailOne: rng.Intn(4) == 0}
		q.K1 = 1 + rng.Intn(n)
		bqs[i] = q
		qs[i] = q.Q
	}
	keys, err := learnKeys(qs)
	if err != nil {
		rep.Inconclusive("burst %d: %v", b.Idx, err)
		return false
	}
	env := newEnv(lazyTTL)
	defer env.close()
	base := time.Now().Unix()
	var des []*dumpEntry
	gate1, gate2 := make(chan struct{}), make(chan struct{})
	for _, q := range bqs {
		stored := base - q.Age
		C := q.Age + 3600
		de, err := makeDumpEntry(keys[q.Q.Name], q.Q, q.Old, stored, q.L, C)
		if err != nil {
			rep.Inconclusive("burst %d: %v", b.Idx, err)
			return false
		}
		des = append(des, de)
		q.w = window{StLo: stored * sec, StHi: stored * sec, L: q.L, C: C}
		q.st = &bgState{q: q.Q, arrive: make(chan struct{}, 1)}
		if q.FailOne {
			q.st.steps = []bgStep{{gate: gate1, fail: true}, {gate: gate2, spec: q.New}}
		} else {
			q.st.steps = []bgStep{{gate: gate1, spec: q.New}, {gate: gate2, spec: q.New}}
		}
		env.bg.Store(q.Q.Name, q.st)
	}
	l0, l1, err := env.load(des)
	if err != nil {
		rep.Inconclusive("burst %d: %v", b.Idx, err)
		return false
	}
	for _, q := range bqs {
		q.w.LoadLo, q.w.LoadHi = l0, l1
	}

	wave := func(name string, count func(q *burstQ) int) {
		var wg sync.WaitGroup
		start := make(chan struct{})
		total := 0
		for _, q := range bqs {
			for i := 0; i < count(q); i++ {
				total++
				wg.Add(1)
				go func(q *burstQ) {
					defer wg.Done()
					<-start
					r := env.exec(q.Q, nil)
					v := judge(q.w, true, q.Old, []uint32{}, r)
					if v.Viol == "" && v.Outcome != "stale" {
						// the entry is years past its TTL: only a stale hit is a cached answer here
						if r.Hit {
							v.Viol, v.Detail = "stale-ttl-not-5", fmt.Sprintf("burst query judged %q", v.Outcome)
						} else {
							rep.Count("burst:miss_on_stale_entry(allowed)", 1)
						}
					}
					account("burst", b, q.Old, true, v, r, fmt.Sprintf("%s/n%d/k%d/q%d/p%d", name, q.N, q.K1, nq, b.Procs), map[string]any{"burst_question": q})
				}(q)
			}
		}
		close(start)
		wg.Wait()
		rep.Max("burst:max_concurrent_queries_in_a_wave", int64(total))
	}

	wave("w1", func(q *burstQ) int { return q.K1 })
	// at least one refresh per question must start
	for _, q := range bqs {
		select {
		case <-q.st.arrive:
		case <-time.After(3 * time.Second):
			report("refresh-none-started", q.Old, true, b, fmt.Sprintf("%d concurrent queries hit the stale entry %s and no background refresh reached the upstream within 3 s", q.K1, q.Q.Name), map[string]any{"burst_question": q})
		}
	}
	wave("w2", func(q *burstQ) int { return q.N - q.K1 })
	for i := 0; i < 100; i++ {
		runtime.Gosched()
	}
	time.Sleep(15 * time.Millisecond)
	for _, q := range bqs {
		started, maxIn, _ := q.st.snapshot()
		q.st.mu.Lock()
		hadResp := q.st.hadResp
		q.st.mu.Unlock()
		rep.Count("burst:refreshes_started_while_gated", int64(started))
		rep.Max("burst:max_refreshes_in_flight_per_question", int64(maxIn))
		rep.Count("burst:stale_queries", int64(q.N))
		if started > 1 || maxIn > 1 {
			report("refresh-concurrent", q.Old, true, b, fmt.Sprintf("%d queries on the stale entry %s: %d background refreshes started, %d in flight at once (the first one was still blocked in the upstream)", q.N, q.Q.Name, started, maxIn), map[string]any{"burst_question": q, "started": started, "max_in_flight": maxIn})
		} else if started == 1 {
			rep.Nontrivial(fmt.Sprintf("burst-sf|n%d|k%d|q%d|p%d|f%v", q.N, q.K1, nq, b.Procs, q.FailOne))
			rep.Count("burst:questions_with_exactly_one_refresh_in_flight", 1)
		}
		if hadResp > 0 {
			rep.Count("burst:refresh_entered_with_response_set", int64(hadResp))
		}
	}
	rel := nowNs()
	close(gate1)
	close(gate2)

	for _, q := range bqs {
		wit := map[string]any{"burst_question": q}
		if q.FailOne {
			// the failed refresh must not wedge the question: a later stale hit starts a new one
			ok := false
			deadline := time.Now().Add(3 * time.Second)
			for time.Now().Before(deadline) {
				if _, _, done := q.st.snapshot(); done >= 1 {
					r := env.exec(q.Q, nil)
					if !r.Hit {
						break
					}
					time.Sleep(2 * time.Millisecond)
					if s, _, _ := q.st.snapshot(); s >= 2 {
						ok = true
						break
					}
				} else {
					time.Sleep(time.Millisecond)
				}
			}
			if !ok {
				report("refresh-none-started", q.Old, true, b, fmt.Sprintf("after a failed refresh of %s, further stale hits started no new refresh within 3 s", q.Q.Name), wit)
				continue
			}
			rep.Count("burst:refresh_restarted_after_failure", 1)
		}
		// wait until the store shows the refreshed reply
		var seen int64
		deadline := time.Now().Add(3 * time.Second)
		for time.Now().Before(deadline) {
			dl, err := env.dump()
			if err != nil {
				rep.Inconclusive("burst %d: %v", b.Idx, err)
				return false
			}
			for _, de := range dl {
				if string(de.GetKey()) != string(keys[q.Q.Name]) {
					continue
				}
				m := new(dns.Msg)
				if m.Unpack(de.GetMsg()) == nil && sameRecords(q.New, observe(m, nil)) {
					seen = nowNs()
				}
			}
			if seen != 0 {
				break
			}
			time.Sleep(time.Millisecond)
		}
		if seen == 0 {
			report("refresh-not-applied", q.Old, true, b, fmt.Sprintf("the background refresh of %s returned a new reply but the entry still holds the old one 3 s later", q.Q.Name), wit)
			continue
		}
		_, _, L2, _ := q.New.admission()
		r := env.exec(q.Q, nil)
		v := judge(window{StLo: rel, StHi: seen, L: L2, C: lazyTTL}, true, q.New, []uint32{}, r)
		if v.Viol == "" && v.Outcome == "stale" && L2 > 2 {
			v.Viol, v.Detail = "refreshed-served-stale", "query after the refresh got TTL 5 instead of the fresh TTLs"
		}
		if v.Viol == "" && !r.Hit {
			rep.Count("burst:miss_after_refresh(allowed)", 1)
		}
		account("burst-after", b, q.New, true, v, r, fmt.Sprintf("n%d/q%d/p%d/f%v", q.N, nq, b.Procs, q.FailOne), wit)
		if v.Viol == "" && r.Hit {
			rep.Count("burst:refreshed_reply_served_with_fresh_ttls", 1)
		}
		if v.Viol == "" && rng.Intn(3) == 0 && wantSample("burst") {
			started, maxIn, done := q.st.snapshot()
			rep.Sample(map[string]any{"phase": "burst", "gomaxprocs": b.Procs, "burst_question": q, "refreshes_started": started, "max_in_flight": maxIn, "refreshes_done": done, "query_after_refresh": r})
		}
	}
	return reportsFiled.Load() > before
}

// ============================ driver ============================

func runBatch(b batchDesc) {
	switch b.Phase {
	case "aging":
		runAging(b)
	case "admission":
		runAdmission(b)
	case "boundary":
		runBoundary(b)
	case "live":
		runLive(b)
	case "burst":
		runBurst(b)
	case "transition":
		runTransition(b)
	case "held":
		runHeld(b)
	default:
		rep.Inconclusive("unknown phase %q", b.Phase)
	}
}

func main() {
	rep = evid.New("C05", "exploration")
	caselog = evid.OpenCaseLog()
	rep.SetRule("seven workloads on the real cache plugin (Exec + its /dump and /load_dump API): " +
		"aging = generated storable replies (TTL mix from {0,1,2,5,29..31,299..301,2^31,2^32-1,...} over the three sections, rcodes NOERROR/NXDOMAIN/SERVFAIL, with/without OPT) injected with every boundary age (0,1,L/2,L-1,L,L+1, each record TTL +-1, entry expiry +-1, random; up to 136 years) and probed twice; " +
		"admission = replies with rcode 0..23, TC on/off, zero TTLs, stored through Exec, then /dump and a second Exec; " +
		"boundary = entries expiring at the next whole seconds probed continuously across the expiry instant; live = replies stored through Exec and probed until they expire; " +
		"burst = 2..64 concurrent queries on a stale entry while the refresh is blocked in the upstream; " +
		"transition = one question answered / refreshed / re-stored again and again with answers of changing kind (positive long, short, tiny TTLs; NXDOMAIN; SERVFAIL; empty NOERROR; answers that are not stored: other rcode, TC, zero TTL, no answer, failure), " +
		"delivered by foreground misses, by gated background refreshes and by /load_dump into the running cache (same answer with its times moved into the past = shorter lifetime, or another answer with an earlier or later expiry), " +
		"each followed by: which entry is served next, with which TTLs, does the re-stored entry expire at its NEW time (waited out in real time), how many refreshes start; " +
		"held = the query context is not fresh at the lookup: queries go through the chain front -> cache -> terminal (context from query_context.NewContext) and the front plugin holds them 0 / 0.4 / 1 / 1.3 / 2.2 / 3.1 s in real time, " +
		"x the entry was stored before the query arrived or while it is held (another query's miss, or /load_dump with ages 0,1,2,L-4..L+2) x its TTL / its cache entry (lazy window 2 s, 3 s, 1 day, L+1..L+3) runs out before the arrival, while the query is held, or later " +
		"x the upstream takes 0 / 1.2 s before the store x a follow-up query held 0 / 1.1 s; judged against the bracket of the LOOKUP [front returned, terminal entered] and the store instant [upstream answered, call returned]. lazy_cache_ttl off/on everywhere. " +
		"One case = one judged Exec (or one dumped entry); non-trivial = the call was answered from the cache (fresh or stale) or was refused/expired by a rule of the statement; distinct = workload x reply shape x lazy x age/instant class x outcome x seconds subtracted")
	rep.Assume("the wall clock does not step during a run (mosdns compares time.Now() with Unix-second expiries; each call is bracketed by wall-clock readings widened by 2 us)")
	rep.Assume("entries injected through /load_dump with stored/msg-expiry/entry-expiry = (now-age, stored+lifetime, stored+entry lifetime) are states the store path itself produces, shifted in time")
	rep.Assume("remaining lifetime is per record; the zero-TTL rule applies to NOERROR replies; a NOERROR reply without any record has no smallest TTL and may or may not be stored (<= 300 s)")
	rep.Assume("a background refresh has completed once a successor refresh of the same question reaches the upstream (the statement's at-most-one-in-flight rule); a refresh that answered with a storable kind (NOERROR with TTL > 0, NXDOMAIN, SERVFAIL) has then updated the entry; a refresh whose answer is not stored leaves the stale entry in place")
	rep.Assume("/load_dump into a running cache replaces the entry of a key that is already cached, whatever the two expiries (this is how the transition workload moves an entry in time and re-stores a key with a shorter lifetime); a tree where the loaded entry is dropped or keeps the old expiry is reported under the separate key reload-not-applied")
	rep.Assume("a cache miss where a hit was possible is allowed by the statement (counted; > 1 % makes the run inconclusive)")

	if rep.ReplayFile != "" {
		var c struct {
			Batch batchDesc `json:"batch"`
		}
		if err := rep.LoadReplay(&c); err != nil || c.Batch.Phase == "" {
			fmt.Println("cannot load replay:", err)
			os.Exit(3)
		}
		n := 1
		if c.Batch.Phase == "burst" {
			n = 20
		}
		for i := 0; i < n; i++ {
			runBatch(c.Batch)
			if rep.Violations() > 0 {
				break
			}
		}
		rep.Finish()
	}

	rng := rand.New(rand.NewSource(rep.Seed))
	var pool []batchDesc // CPU-bound batches
	nAging, nAdm := rep.Pick(48, 1600), rep.Pick(24, 700)
	for i := 0; i < nAging; i++ {
		pool = append(pool, batchDesc{Phase: "aging", Seed: rng.Int63(), Lazy: i%2 == 1, N: 256, Idx: i})
	}
	for i := 0; i < nAdm; i++ {
		pool = append(pool, batchDesc{Phase: "admission", Seed: rng.Int63(), Lazy: i%2 == 1, N: 256, Idx: i})
	}
	var timed [][]batchDesc // rounds of real-time batches, each round runs concurrently
	rounds, perRound := rep.Pick(2, 24), rep.Pick(4, 6)
	for r := 0; r < rounds; r++ {
		var round []batchDesc
		for i := 0; i < perRound; i++ {
			round = append(round, batchDesc{Phase: "boundary", Seed: rng.Int63(), Lazy: i%2 == 1, N: 40, Idx: r*perRound + i})
		}
		round = append(round, batchDesc{Phase: "live", Seed: rng.Int63(), Lazy: false, Idx: 2 * r},
			batchDesc{Phase: "live", Seed: rng.Int63(), Lazy: true, Idx: 2*r + 1})
		timed = append(timed, round)
	}
	var bursts []batchDesc
	for i := 0; i < rep.Pick(60, 600); i++ {
		bursts = append(bursts, batchDesc{Phase: "burst", Seed: rng.Int63(), Lazy: true, Procs: []int{1, 2, 16}[i%3], Idx: i})
	}

	// transition batches mostly wait (for refreshes, for shortened lifetimes to run out): own workers
	var trans []batchDesc
	for i := 0; i < rep.Pick(12, 160); i++ {
		trans = append(trans, batchDesc{Phase: "transition", Seed: rng.Int63(), Lazy: i%3 != 2, N: 40, Idx: i})
	}

	// held batches sleep (all their cases concurrently, <= ~7 s a batch): own goroutines, a few at a time
	var held []batchDesc
	for i := 0; i < rep.Pick(6, 72); i++ {
		held = append(held, batchDesc{Phase: "held", Seed: rng.Int63(), Lazy: i%2 == 1, N: 48, Idx: i})
	}

	var wg sync.WaitGroup
	hsem := make(chan struct{}, 8)
	for _, b := range held {
		wg.Add(1)
		go func(b batchDesc) {
			defer wg.Done()
			hsem <- struct{}{}
			runBatch(b)
			<-hsem
		}(b)
	}
	twork := make(chan batchDesc)
	for w := 0; w < 12; w++ {
		wg.Add(1)
		go func() {
			defer wg.Done()
			for b := range twork {
				runBatch(b)
			}
		}()
	}
	wg.Add(1)
	go func() {
		defer wg.Done()
		for _, b := range trans {
			twork <- b
		}
		close(twork)
	}()
	work := make(chan batchDesc)
	for w := 0; w < 8; w++ {
		wg.Add(1)
		go func() {
			defer wg.Done()
			for b := range work {
				runBatch(b)
			}
		}()
	}
	wg.Add(1)
	go func() {
		defer wg.Done()
		for _, round := range timed {
			var rw sync.WaitGroup
			for _, b := range round {
				rw.Add(1)
				go func(b batchDesc) { defer rw.Done(); runBatch(b) }(b)
			}
			rw.Wait()
		}
	}()
	for _, b := range pool {
		work <- b
	}
	close(work)
	wg.Wait()

	violatedBursts := 0
	for _, b := range bursts {
		if runBurst(b) {
			// a violated burst has waited out its 3 s patience (several times): three witnesses are enough
			if violatedBursts++; violatedBursts >= 3 || rep.Violations() > 6 {
				break
			}
		}
	}
	runtime.GOMAXPROCS(16)

	// ---- evidence ----
	stats.mu.Lock()
	rep.Extra("largest_whole_second_age_subtracted_on_an_accepted_hit", stats.maxAgeServed)
	if stats.minHitBefore < 1<<62 {
		rep.Extra("closest_fresh_hit_before_an_expiry_instant_ns", stats.minHitBefore)
	}
	if stats.minGoneAfter < 1<<62 {
		rep.Extra("closest_expired_outcome_after_an_expiry_instant_ns", stats.minGoneAfter)
	}
	rep.Extra("probes_where_only_a_hit_was_the_cached_outcome", stats.expectedHits)
	rep.Extra("of_which_missed", stats.unexpectedMiss)
	if stats.trExample != nil {
		rep.Extra("transition_example_chain", stats.trExample)
	}
	exp, miss, hb, ga := stats.expectedHits, stats.unexpectedMiss, stats.minHitBefore, stats.minGoneAfter
	stats.mu.Unlock()

	if rep.Violations() == 0 {
		need := func(counter, what string) {
			if rep.Get(counter) == 0 {
				rep.Inconclusive("monitor observed nothing: %s (%s = 0)", what, counter)
			}
		}
		need("aging:fresh", "no injected entry was served fresh")
		need("aging:stale", "no injected entry was served stale")
		need("aging:miss", "no injected entry was seen expired")
		need("aging:hits_with_opt_word_intact", "no hit on an entry carrying an OPT record")
		need("admission:refused_truncated", "no truncated reply refused")
		need("admission:refused_zero-ttl", "no zero-TTL reply refused")
		need("admission:refused_other-rcode", "no other-rcode reply refused")
		need("admission:stored_nxdomain", "no NXDOMAIN stored")
		need("admission:stored_servfail", "no SERVFAIL stored")
		need("admission:stored_empty-noerror", "no empty NOERROR stored")
		need("admission:fresh", "no stored reply served to the second query")
		need("live:fresh", "no live entry served")
		need("live:miss", "no live entry seen expiring")
		need("live:stale", "no live entry served stale")
		need("burst:questions_with_exactly_one_refresh_in_flight", "no burst with a refresh in flight")
		need("burst:refreshed_reply_served_with_fresh_ttls", "no refreshed reply observed")
		need("transition:refreshed_entry_served_to_next_query", "no refreshed entry observed by the transition workload")
		need("transition:refresh_applied:noerror>nxdomain", "no positive answer refreshed into NXDOMAIN")
		need("transition:refresh_applied:noerror>empty-noerror", "no positive answer refreshed into an empty NOERROR")
		need("transition:refresh_applied:noerror>noerror", "no positive answer refreshed into another positive answer")
		need("transition:refreshes_of_answers_that_went_stale_in_real_time(no_reload_involved)", "no refresh of an answer that went stale in real time")
		need("transition:refreshes_with_an_answer_that_is_not_stored", "no refresh with an answer that is not stored")
		need("transition:re-stores_with_earlier_entry_expiry", "no entry re-stored with an earlier expiry")
		need("transition:reloaded_with_shorter_lifetime_gone_at_new_expiry", "no re-stored entry seen expiring at its new time")
		need("transition:fresh_hits_aged_by_reloaded_times", "no re-stored entry served with TTLs aged by its new times")
		need("held:fresh_hits_aged_by_whole_seconds_with_context_older_than_1s", "no aged hit by a query whose context was older than 1 s at the lookup")
		need("held:hits_on_entries_stored_after_the_query_arrived", "no hit on an entry stored after the query had arrived")
		need("held:stale_hits_on_answers_whose_ttl_ran_out_while_the_query_was_held", "no stale hit on an answer whose TTL ran out while the query was held")
		need("held:misses_on_entries_dropped_while_the_query_was_held", "no miss on an entry that was dropped (TTL with lazy off / lazy window) while the query was held")
		need("held:followup_hits_on_answers_stored_1s_or_more_after_the_query_arrived", "no hit on an answer stored by a query that was 1 s old or older")
		if exp == 0 || miss*100 > exp {
			rep.Inconclusive("%d of %d probes that could only be answered from the cache were misses (> 1 %%): the aging oracle would be vacuous", miss, exp)
		}
		if hb > 100e6 || ga > 100e6 {
			rep.Inconclusive("expiry boundaries were not approached closely (closest hit before: %d ns, closest expired outcome after: %d ns)", hb, ga)
		}
		if rep.Get("aging:injected_entry_missing_in_dump") > 0 {
			rep.Inconclusive("%d injected entries that should be alive were not in /dump", rep.Get("aging:injected_entry_missing_in_dump"))
		}
	}
	rep.Finish()
}
