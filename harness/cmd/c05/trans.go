package main

// transition — ONE question is answered, refreshed, re-stored and re-loaded many
// times with answers of changing kind (positive with long / short / tiny TTLs,
// NXDOMAIN, SERVFAIL, empty NOERROR, and answers that must not be stored) and
// after every change the next queries are judged: which entry is served, with
// which TTLs, and how many refreshes were started.
//
// Virtual time: the cache's own /dump is read, the three times of an entry are
// moved into the past by a chosen amount and the result is put back through
// /load_dump ("a dump loaded into a running cache"). That re-stores the key with
// a SHORTER lifetime; from then on the entry must age and expire by the new
// times. "inject" re-stores the key with a different answer the same way.
//
// Background refreshes block in the harness upstream until the harness releases
// them with the answer of its choice. A refresh has COMPLETED, by the
// statement's own at-most-one-refresh-in-flight rule, as soon as a successor
// refresh of the same question reaches the upstream; from that moment a query
// must not be answered with the pre-refresh records if the refreshed answer was
// of a kind that is stored.

import (
	"fmt"
	"math/rand"
	"sync/atomic"
	"time"

	"github.com/miekg/dns"
)

// Two verdicts of this workload need patience (5 s without any refresh reaching the
// upstream / without the refreshed answer appearing). Once one of them has been
// filed, further questions showing the same symptom are given up after 100 ms
// instead of being waited for, so that a broken tree does not cost 5 s per question.
var trGaveUp [2]atomic.Bool

func trPatience(i int) int64 {
	if trGaveUp[i].Load() {
		return sec / 10
	}
	return 5 * sec
}

type trAnswer struct {
	Kind string  `json:"kind"` // spec | none | fail
	Spec msgSpec `json:"reply"`
}

func (a trAnswer) storable() (bool, int64, string) {
	if a.Kind != "spec" {
		return false, 0, a.Kind
	}
	ok, _, L, why := a.Spec.admission()
	return ok, L, why
}

func (a trAnswer) class() string {
	ok, _, why := a.storable()
	if !ok {
		return "unstorable(" + why + ")"
	}
	return a.Spec.class()
}

var (
	trLong  = []uint32{300, 301, 3600, 86400, 1 << 31, 1<<32 - 1}
	trShort = []uint32{5, 6, 29, 30, 31, 60}
	trTiny  = []uint32{1, 2, 3, 4}
)

// genTrans draws the next answer of the upstream for one question.
func genTrans(rng *rand.Rand, marker uint32, forceStorable, bg bool) trAnswer {
	reTTL := func(s *msgSpec, pools ...[]uint32) {
		for i := range s.RRs {
			p := pools[rng.Intn(len(pools))]
			s.RRs[i].TTL = p[rng.Intn(len(p))]
		}
	}
	atLeastOne := func(s *msgSpec) {
		if len(s.RRs) == 0 {
			s.RRs = append(s.RRs, rrSpec{1, "SOA", pickTTL(rng, true)})
		}
	}
	var s msgSpec
	switch x := rng.Intn(100); {
	case x < 22:
		s = genSpec(rng, dns.RcodeSuccess, true, false, marker)
		reTTL(&s, trLong)
	case x < 34:
		s = genSpec(rng, dns.RcodeSuccess, true, false, marker)
		reTTL(&s, trShort, trLong)
	case x < 40:
		s = genSpec(rng, dns.RcodeSuccess, true, false, marker)
		reTTL(&s, trTiny, trShort)
	case x < 55:
		s = genSpec(rng, dns.RcodeNameError, rng.Intn(2) == 0, true, marker)
		atLeastOne(&s)
	case x < 70:
		// SERVFAIL "lives at most 5 s": as the answer of a background refresh it may replace the
		// stale entry (the pinned tree) or leave it in place (serve-stale on upstream failure);
		// the chains need refresh answers whose fate is decided, so refreshes get NXDOMAIN here
		rc := dns.RcodeServerFailure
		if bg {
			rc = dns.RcodeNameError
		}
		s = genSpec(rng, rc, rng.Intn(2) == 0, true, marker)
		atLeastOne(&s)
	case x < 84:
		s = genSpec(rng, dns.RcodeSuccess, false, false, marker)
		reTTL(&s, trLong, trShort, trTiny)
	default:
		if forceStorable {
			return genTrans(rng, marker, forceStorable, bg)
		}
		switch y := rng.Intn(5); {
		case y == 0:
			rc := 4 + rng.Intn(12)
			if rng.Intn(2) == 0 {
				rc = dns.RcodeRefused
			}
			s = genSpec(rng, rc, rng.Intn(2) == 0, true, marker)
			atLeastOne(&s)
		case y == 1:
			s = genSpec(rng, dns.RcodeSuccess, true, false, marker)
			s.TC = true
		case y == 2:
			s = genSpec(rng, dns.RcodeSuccess, rng.Intn(2) == 0, false, marker)
			s.RRs[rng.Intn(len(s.RRs))].TTL = 0
		case y == 3 && bg:
			return trAnswer{Kind: "fail"}
		default:
			return trAnswer{Kind: "none"}
		}
	}
	if s.Rcode == dns.RcodeNameError || s.Rcode == dns.RcodeServerFailure {
		// a negative reply with a zero-TTL record is the one input for which the statement
		// leaves storing open (see admission); the transition chains need answers whose fate
		// is decided, so negatives here carry TTLs >= 1
		for i := range s.RRs {
			if s.RRs[i].TTL == 0 {
				s.RRs[i].TTL = 1 + uint32(rng.Intn(60))
			}
		}
	}
	return trAnswer{Kind: "spec", Spec: s}
}

// trEntry is what the cache is believed to hold for the question.
type trEntry struct {
	Spec msgSpec `json:"reply"`
	W    window  `json:"window"`
	Via  string  `json:"via"`                            // store (foreground miss) | refresh | inject (/load_dump, other answer)
	PreW []window `json:"windows_before_reload,omitempty"` // the entry was re-loaded with its times moved into the past (latest last)
	Open bool    `json:"store_instant_open,omitempty"`   // refresh released, its store not yet observed
	seen bool
}

type trKey struct {
	Q        question         `json:"question"`
	Hist     []map[string]any `json:"history"`
	cur      *trEntry
	replaced []*trEntry // entries that were overwritten, oldest first
	unstored []msgSpec  // answers that were given but must not be in the cache
	st       *bgState
	resolved int // refreshes released by the harness
	proven   bool
	pend     *trAnswer
	needOK   bool // the next answer must be storable
	base     uint32
	seq      uint32
	dead     bool
	lazyHits int
	class    string // plan of the current round
}

func (k *trKey) log(op string, kv map[string]any) {
	if len(k.Hist) >= 80 {
		return
	}
	kv["op"] = op
	kv["n"] = len(k.Hist)
	k.Hist = append(k.Hist, kv)
}

type trRun struct {
	b       batchDesc
	rng     *rand.Rand
	env     *env
	lazy    bool
	lazyTTL int
	keys    []*trKey
	kb      map[string][]byte
	round   int
}

func (t *trRun) entryLifetimes(a trAnswer) (L, C int64) {
	_, L, _ = a.storable()
	C = L
	if t.lazy && a.Spec.class() == "noerror" {
		C = int64(t.lazyTTL)
	}
	return
}

func (t *trRun) answer(k *trKey, bg bool) trAnswer {
	if k.pend == nil || (k.pend.Kind == "fail" && !bg) {
		k.seq++
		a := genTrans(t.rng, k.base+k.seq, k.needOK, bg)
		k.pend = &a
	}
	if bg && k.pend.Kind == "spec" && k.pend.Spec.Rcode == dns.RcodeServerFailure {
		k.pend.Spec.Rcode = dns.RcodeNameError // (an answer drawn for the foreground, now used by a refresh; see genTrans)
	}
	return *k.pend
}

func (t *trRun) consume(k *trKey, a trAnswer) {
	k.pend = nil
	ok, _, _ := a.storable()
	k.needOK = !ok // never two unstorable answers in a row: keeps every chain finite
	if !ok && a.Kind == "spec" {
		k.unstored = append(k.unstored, a.Spec)
	}
}

func (t *trRun) wit(k *trKey, r *result) map[string]any {
	m := map[string]any{"key": k.Q, "history": k.Hist, "lazy_cache_ttl": t.lazyTTL, "round": t.round}
	if k.cur != nil {
		m["model_entry"] = k.cur
	}
	if r != nil {
		m["call"] = *r
	}
	return m
}

func (t *trRun) violation(k *trKey, kind string, spec msgSpec, detail string, r *result) {
	k.dead = true
	rep.Count("transition:violating_probes", 1)
	report(kind, spec, t.lazy, t.b, fmt.Sprintf("%s [question %s, round %d, %d recorded steps — see history]", detail, k.Q.Name, t.round, len(k.Hist)), t.wit(k, r))
}

func (t *trRun) curSpec(k *trKey) msgSpec {
	if k.cur != nil {
		return k.cur.Spec
	}
	return msgSpec{}
}

func trMatches(e *trEntry, o observation) bool {
	return e != nil && o.Rcode == e.Spec.Rcode && sameRecords(e.Spec, o)
}

func (t *trRun) prevClass(k *trKey) string {
	if n := len(k.replaced); n > 0 {
		return k.replaced[n-1].Spec.class()
	}
	return "none"
}

// install makes e the believed content of the cache.
func (t *trRun) install(k *trKey, e *trEntry) {
	if k.cur != nil {
		k.replaced = append(k.replaced, k.cur)
		if len(k.replaced) > 6 {
			k.replaced = k.replaced[1:]
		}
	}
	k.cur = e
	k.proven = false
}

// waitStarted polls until more than k.resolved refreshes of the question have
// reached the upstream, for at most d.
func (t *trRun) waitStarted(k *trKey, d time.Duration) bool {
	end := time.Now().Add(d)
	for {
		if s, _, _ := k.st.snapshot(); s > k.resolved {
			return true
		}
		if time.Now().After(end) {
			return false
		}
		time.Sleep(100 * time.Microsecond)
	}
}

// resolve releases the refresh that is blocked in the upstream with the next answer.
func (t *trRun) resolve(k *trKey) bool {
	a := t.answer(k, true)
	if a.Kind == "none" && t.rng.Intn(2) == 0 {
		a.Kind = "fail"
	}
	step := bgStep{}
	switch a.Kind {
	case "fail":
		step.fail = true
	case "none":
		step.none = true
	default:
		step.spec = a.Spec
	}
	rel := nowNs()
	select {
	case k.st.dyn <- step:
	case <-time.After(10 * time.Second):
		rep.Inconclusive("transition batch %d: a refresh of %s that had reached the upstream did not take its script step", t.b.Idx, k.Q.Name)
		k.dead = true
		return false
	}
	end := time.Now().Add(10 * time.Second)
	for {
		if _, _, done := k.st.snapshot(); done > k.resolved {
			break
		}
		if time.Now().After(end) {
			rep.Inconclusive("transition batch %d: released refresh of %s did not return from the upstream", t.b.Idx, k.Q.Name)
			k.dead = true
			return false
		}
		time.Sleep(50 * time.Microsecond)
	}
	k.resolved++
	t.consume(k, a)
	rep.Count("transition:refreshes_released", 1)
	if k.class == "ripen" {
		rep.Count("transition:refreshes_of_answers_that_went_stale_in_real_time(no_reload_involved)", 1)
	}
	ok, _, _ := a.storable()
	from := "?"
	if k.cur != nil {
		from = k.cur.Spec.class()
	}
	k.log("refresh-released", map[string]any{"answer": a, "answer_class": a.class(), "released_ns": rel, "over": from})
	rep.SetAdd("transition_refresh_answers", from+">"+a.class())
	if ok {
		L, C := t.entryLifetimes(a)
		t.install(k, &trEntry{Spec: a.Spec, W: window{StLo: rel, L: L, C: C}, Via: "refresh", Open: true})
		rep.Count("transition:refreshes_with_a_storable_answer", 1)
	} else {
		rep.Count("transition:refreshes_with_an_answer_that_is_not_stored", 1)
	}
	return true
}

// settle probes the question until what the cache holds for it has been
// observed and no refresh is pending.
func (t *trRun) settle(k *trKey) {
	watchdog := nowNs() + 30*sec
	var staleSince, tolSince int64
	tolerated, staleHits := 0, 0
	steps := 0
	holdSuccessor := false
outer:
	for !k.dead {
		if nowNs() > watchdog {
			rep.Inconclusive("transition batch %d: %s did not settle within 30 s", t.b.Idx, k.Q.Name)
			k.dead = true
			return
		}
		started, maxIn, _ := k.st.snapshot()
		if maxIn > 1 || started > k.resolved+1 {
			t.violation(k, "refresh-concurrent", t.curSpec(k), fmt.Sprintf("%d background refreshes of one question reached the upstream while only %d had been released (max in flight %d)", started, k.resolved, maxIn), nil)
			return
		}
		if started > k.resolved && !holdSuccessor {
			if !t.resolve(k) {
				return
			}
			staleSince = 0
		}
		holdSuccessor = false
		if steps++; steps > 400 {
			rep.Count("transition:chains_abandoned(too_many_steps)", 1)
			k.dead = true
			return
		}
		a := t.answer(k, false)
		var msg *dns.Msg
		if a.Kind == "spec" {
			msg = build(a.Spec, k.Q.Name, k.Q.Qtype)
		}
		r := t.env.exec(k.Q, msg)
		rep.Count("transition:probes", 1)

		// ---------- miss: the upstream was asked in the foreground ----------
		if !r.Hit {
			if r.Reached != 1 {
				rep.Inconclusive("transition batch %d: a miss reached the upstream %d times", t.b.Idx, r.Reached)
				k.dead = true
				return
			}
			if k.cur != nil && k.cur.Open {
				// the released refresh has not been seen in the store yet and the entry it was to
				// replace is gone: the refresh could still overwrite what this miss stores
				rep.Count("transition:chains_abandoned(miss_while_refresh_unobserved)", 1)
				k.dead = true
				return
			}
			outcome := "miss"
			if k.cur != nil {
				v := judge(k.cur.W, t.lazy, k.cur.Spec, nil, r)
				outcome = v.Outcome
				account("transition", t.b, k.cur.Spec, t.lazy, v, r, fmt.Sprintf("%s/%s", k.cur.Via, k.class), t.wit(k, &r))
				if outcome == "miss" {
					rep.Count("transition:expired_"+k.cur.Spec.class()+"_via_"+k.cur.Via+"_not_served", 1)
					if k.class == "expire" {
						rep.Count("transition:reloaded_with_shorter_lifetime_gone_at_new_expiry", 1)
					}
				}
			} else {
				rep.Eval(1)
				rep.Count("transition:miss_nothing_stored", 1)
			}
			t.consume(k, a)
			ok, _, why := a.storable()
			k.log("miss", map[string]any{"t0": r.T0, "t1": r.T1, "judged": outcome, "upstream_answer": a, "answer_class": a.class()})
			if ok {
				L, C := t.entryLifetimes(a)
				t.install(k, &trEntry{Spec: a.Spec, W: window{StLo: r.T0, StHi: r.T1, L: L, C: C}, Via: "store"})
			} else {
				rep.Count("transition:foreground_answer_not_stored_"+why, 1)
			}
			k.class = "after-miss"
			continue // what is served next?
		}
		if !r.HasResp {
			rep.Inconclusive("transition batch %d: hit without a response", t.b.Idx)
			k.dead = true
			return
		}

		// ---------- hit on the entry the cache should hold ----------
		if trMatches(k.cur, r.Obs) {
			c := k.cur
			w := c.W
			if c.Open {
				w.StHi = r.T1
			}
			v := judge(w, t.lazy, c.Spec, nil, r)
			if v.Viol != "" {
				for i := len(c.PreW) - 1; i >= 0; i-- {
					if v2 := judge(c.PreW[i], t.lazy, c.Spec, nil, r); v2.Viol == "" {
						v.Viol = "reload-not-applied"
						v.Detail = fmt.Sprintf("the entry was re-stored through /load_dump with its times moved into the past (new store second %d, entry expiry earlier than before) but is served as if it still had the times it had %d re-store(s) ago (%s by those); against the new times: %s", c.W.StLo/sec, len(c.PreW)-i, v2.Outcome, v.Detail)
						break
					}
				}
			}
			account("transition", t.b, c.Spec, t.lazy, v, r, fmt.Sprintf("%s/%s/%s", c.Via, k.class, t.prevClass(k)), t.wit(k, &r))
			if v.Viol != "" {
				k.dead = true
				return
			}
			k.log("hit", map[string]any{"t0": r.T0, "t1": r.T1, "judged": v.Outcome, "ttls": ttlsOf(r.Obs), "entry_via": c.Via, "entry_class": c.Spec.class()})
			if c.Open {
				c.Open, c.W.StHi = false, r.T1
			}
			if !c.seen {
				c.seen = true
				tr := t.prevClass(k) + ">" + c.Spec.class()
				rep.Count("transition:"+c.Via+"_applied:"+tr, 1)
				rep.SetAdd("transitions_observed_served", c.Via+lazyTag(t.lazy)+":"+tr)
				if c.Via == "refresh" {
					rep.Count("transition:refreshed_entry_served_to_next_query", 1)
				}
			}
			switch v.Outcome {
			case "fresh":
				if c.PreW != nil {
					rep.Count("transition:fresh_hits_aged_by_reloaded_times", 1)
				}
				if s, _, _ := k.st.snapshot(); s > k.resolved {
					continue // a successor refresh is waiting at the upstream
				}
				return
			case "stale":
				k.lazyHits++
				if t.waitStarted(k, 20*time.Millisecond) {
					continue
				}
				staleHits++
				if staleSince == 0 {
					staleSince = r.T0
				} else if r.T0-staleSince > trPatience(0) {
					if trGaveUp[0].Swap(true) {
						rep.Count("transition:chains_abandoned(no_refresh_started,already_reported)", 1)
						k.dead = true
						return
					}
					t.violation(k, "refresh-none-started", c.Spec, fmt.Sprintf("%d stale hits over 5 s started no background refresh", staleHits), &r)
					return
				}
				continue
			default: // fresh-or-stale: a refresh may or may not be on its way
				k.lazyHits++
				rep.Count("transition:chains_abandoned(probe_straddled_an_expiry_instant)", 1)
				k.dead = true
				return
			}
		}

		// ---------- hit on an entry that was replaced ----------
		for i := len(k.replaced) - 1; i >= 0; i-- {
			old := k.replaced[i]
			if !trMatches(old, r.Obs) {
				continue
			}
			succ := k.cur
			if i+1 < len(k.replaced) {
				succ = k.replaced[i+1]
			}
			k.lazyHits++
			k.log("hit-on-replaced-entry", map[string]any{"t0": r.T0, "t1": r.T1, "ttls": ttlsOf(r.Obs), "served_class": old.Spec.class(), "replaced_by": succ.Via, "replacement_class": succ.Spec.class()})
			if succ == k.cur && succ.Via == "refresh" && succ.Open && !k.proven {
				// the released refresh may still be on its way from the upstream to the store
				tolerated++
				rep.Count("transition:pre-refresh_answer_served_while_refresh_not_proven_complete(allowed)", 1)
				if tolSince == 0 {
					tolSince = r.T0
				}
				if t.waitStarted(k, 20*time.Millisecond) {
					// a successor refresh is at the upstream: the released one is no longer in flight
					k.proven = true
					holdSuccessor = true
					rep.Count("transition:refresh_completion_proven_by_successor_refresh", 1)
					k.log("successor-refresh-arrived", map[string]any{"t": nowNs()})
				} else if r.T0-tolSince > trPatience(1) {
					if trGaveUp[1].Swap(true) {
						rep.Count("transition:chains_abandoned(refresh_not_applied,already_reported)", 1)
						k.dead = true
						return
					}
					t.violation(k, "refresh-not-applied", succ.Spec, fmt.Sprintf("the background refresh returned a %s answer but %d queries over 5 s were all answered with the pre-refresh %s records", succ.Spec.class(), tolerated, old.Spec.class()), &r)
					return
				}
				continue outer
			}
			{
				kind := succ.Via + "-not-applied"
				if succ.Via == "inject" {
					kind = "reload-not-applied"
				}
				what := map[string]string{"refresh": "a completed background refresh (a successor refresh of the same question had already reached the upstream)", "store": "a foreground upstream answer stored by an earlier query", "inject": "another answer loaded through /load_dump"}[succ.Via]
				t.violation(k, kind, succ.Spec, fmt.Sprintf("query answered with the %s records (TTLs %v) that had been replaced by %s: a %s answer (entry lifetime %d s, replaced entry had %d s)", old.Spec.class(), ttlsOf(r.Obs), what, succ.Spec.class(), succ.W.C, old.W.C), &r)
				return
			}
		}
		// ---------- hit on something else ----------
		for _, u := range k.unstored {
			if r.Obs.Rcode == u.Rcode && sameRecords(u, r.Obs) {
				_, _, _, why := u.admission()
				t.violation(k, "stored-"+why, u, "query served from cache with an answer that must never be stored ("+why+")", &r)
				return
			}
		}
		rep.Inconclusive("transition batch %d: %s served records the harness never supplied: %+v", t.b.Idx, k.Q.Name, r.Obs)
		k.dead = true
		return
	}
}

func ttlsOf(o observation) []uint32 {
	var out []uint32
	for _, s := range o.Secs {
		for _, r := range s {
			out = append(out, r.TTL)
		}
	}
	return out
}

func min64(a, b int64) int64 {
	if a < b {
		return a
	}
	return b
}

func pickAge(rng *rand.Rand, cands ...int64) int64 { return cands[rng.Intn(len(cands))] }

func runTransition(b batchDesc) {
	caselog.Log(b)
	t := &trRun{b: b, rng: rand.New(rand.NewSource(b.Seed)), lazy: b.Lazy}
	rng := t.rng
	if b.Lazy {
		t.lazyTTL = []int{20, 600, 3600, 86400, 1 << 31}[rng.Intn(5)]
	}
	qs := make([]question, b.N)
	for i := range qs {
		qs[i] = genQuestion(rng, fmt.Sprintf("t%d", b.Idx), i)
	}
	kb, err := learnKeys(qs)
	if err != nil {
		rep.Inconclusive("transition batch %d: %v", b.Idx, err)
		return
	}
	t.kb = kb
	t.env = newEnv(t.lazyTTL)
	defer t.env.close()
	for i, q := range qs {
		k := &trKey{Q: q, base: uint32(1+rng.Intn(1<<20)) << 7, class: "first"}
		k.st = &bgState{q: q, arrive: make(chan struct{}, 1), dyn: make(chan bgStep)}
		t.env.bg.Store(q.Name, k.st)
		t.keys = append(t.keys, k)
		if b.Lazy && i%4 == 0 {
			// a share of the first answers is positive with tiny TTLs: they go stale in real time
			k.seq++
			sp := genSpec(rng, dns.RcodeSuccess, true, false, k.base+k.seq)
			for j := range sp.RRs {
				sp.RRs[j].TTL = trTiny[rng.Intn(len(trTiny))]
			}
			k.pend = &trAnswer{Kind: "spec", Spec: sp}
		}
	}
	// round 0: first answers
	for _, k := range t.keys {
		t.settle(k)
	}
	rounds := 4
	for t.round = 1; t.round <= rounds; t.round++ {
		if !t.reloadRound() {
			return
		}
	}
	// how many refreshes were started per question
	for _, k := range t.keys {
		started, _, _ := k.st.snapshot()
		rep.Count("transition:refreshes_started", int64(started))
		rep.Count("transition:stale_or_possibly_stale_hits", int64(k.lazyHits))
		k.st.mu.Lock()
		wd := k.st.watchdog
		k.st.mu.Unlock()
		if wd > 0 && !k.dead {
			rep.Inconclusive("transition batch %d: a refresh of %s was never released by the harness", b.Idx, k.Q.Name)
		}
		if started > k.lazyHits && !k.dead {
			t.violation(k, "refresh-more-than-hits", t.curSpec(k), fmt.Sprintf("%d hits that could start a refresh, %d refreshes reached the upstream", k.lazyHits, started), nil)
		}
		if !k.dead && started >= 2 && len(k.Hist) >= 12 {
			stats.mu.Lock()
			if stats.trExample == nil {
				stats.trExample = map[string]any{"lazy_cache_ttl": t.lazyTTL, "question": k.Q, "history": k.Hist}
			}
			stats.mu.Unlock()
		}
	}
}

// reloadRound re-stores every live question through /load_dump (same answer with
// its times moved into the past, or another answer), probes, lets the entries
// that were given two more seconds run out in real time and probes those.
func (t *trRun) reloadRound() bool {
	rng := t.rng
	dl, err := t.env.dump()
	if err != nil {
		rep.Inconclusive("transition batch %d: %v", t.b.Idx, err)
		return false
	}
	byKey := map[string]*dumpEntry{}
	for _, de := range dl {
		byKey[string(de.GetKey())] = de
	}
	type plan struct {
		k   *trKey
		de  *dumpEntry
		ent *trEntry // new model entry
	}
	var plans []plan
	nowS := time.Now().Unix()
	for _, k := range t.keys {
		if k.dead {
			continue
		}
		k.class = "none"
		de := byKey[string(t.kb[k.Q.Name])]
		c := k.cur
		// what /dump shows must be the believed entry with the lifetimes of the statement
		if c != nil && de != nil && !c.Open {
			m := new(dns.Msg)
			if m.Unpack(de.GetMsg()) == nil && trMatches(c, observe(m, nil)) {
				rep.Eval(1)
				rep.Count("transition:entries_read_back_from_dump", 1)
				st, me, ce := de.GetMsgStoredTime(), de.GetMsgExpirationTime(), de.GetCacheExpirationTime()
				if me-st > c.W.L {
					t.violation(k, "lifetime", c.Spec, fmt.Sprintf("/dump: entry put by %q lives %d s as a message, the statement allows %d s for a %s answer", c.Via, me-st, c.W.L, c.Spec.class()), nil)
					continue
				}
				if ce-st > c.W.C && !(t.lazy && c.Spec.class() == "noerror" && ce-st <= c.W.L) {
					t.violation(k, "entry-lifetime", c.Spec, fmt.Sprintf("/dump: entry put by %q is kept %d s, at most %d s allowed for a %s answer (lazy_cache_ttl=%d)", c.Via, ce-st, c.W.C, c.Spec.class(), t.lazyTTL), nil)
					continue
				}
				if me-st < c.W.L || ce-st < c.W.C {
					rep.Count("transition:dumped_lifetime_shorter_than_allowed", 1)
				}
			} else {
				de = nil // not the believed entry (expired and replaced…): leave it to the probes
			}
		}
		alive := c != nil && !c.Open && de != nil && nowS+3 < floorDiv(c.W.StLo, sec)+c.W.C
		x := rng.Intn(100)
		if alive && t.lazy && c.Spec.class() == "noerror" && c.W.L <= 4 && c.W.C >= c.W.L+8 && len(c.PreW) == 0 && x >= 15 {
			// no re-store: the answer's own (tiny) TTL runs out in real time, then it is refreshed
			k.class = "ripen"
			continue
		}
		if !alive || x < 22 {
			// another answer for the key, out of "another instance's dump"
			k.seq++
			a := genTrans(rng, k.base+k.seq, true, false)
			L, _ := t.entryLifetimes(a)
			C := L
			pos := a.Spec.class() == "noerror"
			switch {
			case pos && t.lazy:
				C = []int64{L + 3, L + 60, L + 3600, int64(t.lazyTTL), L + 86400}[rng.Intn(5)]
			case pos && rng.Intn(3) == 0:
				C = L + 1 + rng.Int63n(3600) // written by an instance with lazy caching on
			}
			m := L
			if C < m {
				m = C
			}
			var age int64
			switch {
			case m < 3:
				age = 0
				if C >= L+3 && t.lazy {
					age = pickAge(rng, L, L+1, C-3)
				}
			case t.lazy && C >= L+3 && rng.Intn(2) == 0:
				age = pickAge(rng, L, L+1, min64((L+C)/2, C-3), C-3)
				k.class = "inject-stale"
			default:
				age = pickAge(rng, 0, 1, (m-2)/2, m-2)
			}
			if k.class == "none" {
				k.class = "inject"
			}
			de2, err := makeDumpEntry(t.kb[k.Q.Name], k.Q, a.Spec, nowS-age, L, C)
			if err != nil {
				rep.Inconclusive("transition batch %d: %v", t.b.Idx, err)
				return false
			}
			plans = append(plans, plan{k, de2, &trEntry{Spec: a.Spec, W: window{StLo: (nowS - age) * sec, StHi: (nowS - age) * sec, L: L, C: C}, Via: "inject"}})
			continue
		}
		// same answer, times moved (lifetimes as dumped: they were checked to be within the allowed ones)
		L, C := de.GetMsgExpirationTime()-de.GetMsgStoredTime(), de.GetCacheExpirationTime()-de.GetMsgStoredTime()
		m := L
		if C < m {
			m = C
		}
		var age int64 = -1
		staleOK := t.lazy && C >= L+3
		switch {
		case x < 40 && C >= 2:
			age, k.class = C-2, "expire"
		case staleOK && x < 80:
			age, k.class = pickAge(rng, L, L+1, min64((L+C)/2, C-3), C-3), "stale"
		case m >= 3:
			age, k.class = pickAge(rng, 0, 1, (m-2)/2, m-2), "fresh"
		case staleOK:
			age, k.class = pickAge(rng, L, L+1, C-3), "stale"
		case C >= 2:
			age, k.class = C-2, "expire"
		}
		if age < 0 {
			continue
		}
		st := nowS - age
		de2 := &dumpEntry{Key: de.GetKey(), Msg: de.GetMsg(), MsgStoredTime: st, MsgExpirationTime: st + L, CacheExpirationTime: st + C}
		pre := append(append([]window{}, c.PreW...), c.W)
		plans = append(plans, plan{k, de2, &trEntry{Spec: c.Spec, W: window{StLo: st * sec, StHi: st * sec, L: L, C: C}, Via: c.Via, PreW: pre, seen: c.seen}})
	}
	if len(plans) > 0 {
		des := make([]*dumpEntry, len(plans))
		for i, p := range plans {
			des[i] = p.de
		}
		l0, l1, err := t.env.load(des)
		if err != nil {
			rep.Inconclusive("transition batch %d: %v", t.b.Idx, err)
			return false
		}
		for _, p := range plans {
			k := p.k
			p.ent.W.LoadLo, p.ent.W.LoadHi = l0, l1
			if l1+slackNs >= p.de.GetCacheExpirationTime()*sec {
				// the store refuses entries whose expiry has passed: the load took too long to be sure
				rep.Count("transition:chains_abandoned(slow_load)", 1)
				k.dead = true
				continue
			}
			shorter := k.cur != nil && p.de.GetCacheExpirationTime()*sec < k.cur.W.StLo+k.cur.W.C*sec
			k.log("reload", map[string]any{"class": k.class, "stored_unix": p.de.GetMsgStoredTime(), "msg_expiry_unix": p.de.GetMsgExpirationTime(),
				"entry_expiry_unix": p.de.GetCacheExpirationTime(), "answer_class": p.ent.Spec.class(), "reply": p.ent.Spec, "load_ns": []int64{l0, l1}, "entry_expires_earlier_than_the_one_it_replaces": shorter})
			if shorter {
				rep.Count("transition:re-stores_with_earlier_entry_expiry", 1)
			} else {
				rep.Count("transition:re-stores_with_later_or_equal_entry_expiry", 1)
			}
			rep.Count("transition:reloads_"+k.class, 1)
			if p.ent.PreW != nil {
				k.cur = p.ent // same answer: nothing was replaced
			} else {
				t.install(k, p.ent)
			}
		}
	}
	// phase A: everything but the entries that are to run out
	var waitFor int64
	for _, k := range t.keys {
		if k.dead {
			continue
		}
		if k.class == "expire" {
			if e := k.cur.W.StLo + k.cur.W.C*sec; e > waitFor {
				waitFor = e
			}
			continue
		}
		if k.class == "ripen" {
			if e := k.cur.W.StHi + k.cur.W.L*sec; e > waitFor {
				waitFor = e
			}
			continue
		}
		t.settle(k)
	}
	// phase B: real time passes the new expiry of the re-stored entries
	if waitFor != 0 {
		if d := waitFor + 30e6 - nowNs(); d > 0 {
			if d > 4*sec {
				d = 4 * sec
			}
			time.Sleep(time.Duration(d))
		}
		for _, k := range t.keys {
			if k.dead || (k.class != "expire" && k.class != "ripen") {
				continue
			}
			if k.class == "expire" {
				rep.Count("transition:probes_after_waiting_out_a_shortened_lifetime", 1)
			} else {
				rep.Count("transition:probes_after_waiting_out_a_tiny_ttl_in_real_time", 1)
			}
			t.settle(k)
		}
	}
	return true
}
