package main

// One cache plugin instance + the terminal plugin behind it + the plugin's own
// HTTP API (dump / load_dump) driven through httptest.

import (
	"bytes"
	"compress/gzip"
	"context"
	"encoding/binary"
	"errors"
	"fmt"
	"io"
	"net/http"
	"net/http/httptest"
	"sync"
	"sync/atomic"
	"time"

	"github.com/IrineSistiana/mosdns/v5/pkg/query_context"
	cacheplugin "github.com/IrineSistiana/mosdns/v5/plugin/executable/cache"
	"github.com/IrineSistiana/mosdns/v5/plugin/executable/sequence"
	"github.com/miekg/dns"
	"google.golang.org/protobuf/proto"
)

const dumpName = "mosdns_cache_v2"

func nowNs() int64 { return time.Now().UnixNano() } // wall clock: what mosdns compares Unix-second expiries with

type fgKey struct{}

// fgCall is attached to the context of a foreground Exec; the terminal plugin
// finds it there. A background refresh runs on context.Background() and has none.
type fgCall struct {
	reached int           // times the terminal ran on the caller's goroutine
	sawResp bool          // a response was already set when it ran (= served from cache)
	answer  *dns.Msg      // what the "upstream" answers on a miss (nil = nothing)
	upDelay time.Duration // the "upstream" takes this long before it answers a miss (time between lookup and store)
	enterT  int64         // instant the terminal was first entered (the cache lookup lies before it)
	ansT    int64         // instant the upstream's answer was handed over (the store lies after it)
}

type heldKey struct{}

// heldCall is attached to the context of a query that is held up in front of the
// cache: the front plugin of the held chain runs hold() (sleeps, lets other
// queries store ...) and notes the instant it lets the query go on to the cache.
type heldCall struct {
	created int64 // instant right after the query context was created
	hold    func(created int64)
	goT     int64 // instant the front plugin returned (the cache lookup lies after it)
}

type bgStep struct {
	gate chan struct{} // refresh blocks here until closed
	fail bool          // refresh returns an error and no response
	none bool          // refresh returns neither an error nor a response
	spec msgSpec       // otherwise it answers with this
}

// bgState scripts and records the background refreshes of one question.
type bgState struct {
	q       question
	mu      sync.Mutex
	steps   []bgStep
	started int
	in      int
	maxIn   int
	done    int
	hadResp int // refreshes that were entered with a response already set (unexpected)
	arrive  chan struct{}
	// dyn != nil: every refresh blocks at the upstream until the harness hands it
	// its script step through this channel (the transition workload decides what a
	// refresh answers only when it releases it)
	dyn      chan bgStep
	watchdog int // refreshes that the harness never released (20 s)
}

func (b *bgState) snapshot() (started, maxIn, done int) {
	b.mu.Lock()
	defer b.mu.Unlock()
	return b.started, b.maxIn, b.done
}

type env struct {
	c       *cacheplugin.Cache
	api     http.Handler
	lazyTTL int
	walker  sequence.ChainWalker
	held    sequence.ChainWalker // front (slow plugin) -> cache -> terminal, walked from the top
	bg      sync.Map             // qname -> *bgState
	bgUnreg sync.Map             // qname -> *atomic.Int64 (refreshes of questions without a script: answered with nothing)
}

func newEnv(lazyTTL int) *env {
	e := &env{lazyTTL: lazyTTL}
	e.c = cacheplugin.NewCache(&cacheplugin.Args{Size: 1 << 20, LazyCacheTTL: lazyTTL}, cacheplugin.Opts{})
	e.api = e.c.Api()
	e.walker = sequence.NewChainWalker([]*sequence.ChainNode{{E: sequence.ExecutableFunc(e.terminal)}}, nil)
	e.held = sequence.NewChainWalker([]*sequence.ChainNode{
		{E: sequence.ExecutableFunc(e.front)}, {RE: e.c}, {E: sequence.ExecutableFunc(e.terminal)}}, nil)
	return e
}

func (e *env) close() { _ = e.c.Close() }

// front is the slow plugin in front of the cache (a sleep / forward / fallback step of a real sequence).
func (e *env) front(ctx context.Context, qCtx *query_context.Context) error {
	if hc, _ := ctx.Value(heldKey{}).(*heldCall); hc != nil {
		if hc.hold != nil {
			hc.hold(hc.created)
		}
		hc.goT = nowNs()
	}
	return nil
}

func (e *env) terminal(ctx context.Context, qCtx *query_context.Context) error {
	if fc, _ := ctx.Value(fgKey{}).(*fgCall); fc != nil {
		if fc.reached == 0 {
			fc.enterT = nowNs()
		}
		fc.reached++
		if qCtx.R() != nil {
			fc.sawResp = true
		} else if fc.answer != nil {
			if fc.upDelay > 0 {
				time.Sleep(fc.upDelay)
			}
			fc.ansT = nowNs()
			qCtx.SetResponse(fc.answer)
		}
		return nil
	}
	// background refresh
	name := qCtx.QQuestion().Name
	v, ok := e.bg.Load(name)
	if !ok {
		c, _ := e.bgUnreg.LoadOrStore(name, new(atomic.Int64))
		c.(*atomic.Int64).Add(1)
		return nil
	}
	st := v.(*bgState)
	st.mu.Lock()
	n := st.started
	st.started++
	st.in++
	if st.in > st.maxIn {
		st.maxIn = st.in
	}
	if qCtx.R() != nil {
		st.hadResp++
	}
	var step bgStep
	if st.dyn == nil {
		step = st.steps[len(st.steps)-1]
		if n < len(st.steps) {
			step = st.steps[n]
		}
	}
	st.mu.Unlock()
	select {
	case st.arrive <- struct{}{}:
	default:
	}
	if st.dyn != nil {
		select {
		case step = <-st.dyn:
		case <-time.After(20 * time.Second): // harness watchdog; never expected
			step = bgStep{none: true}
			st.mu.Lock()
			st.watchdog++
			st.mu.Unlock()
		}
	} else {
		select {
		case <-step.gate:
		case <-time.After(20 * time.Second): // harness watchdog; never expected
		}
	}
	var err error
	switch {
	case step.fail:
		err = errors.New("scripted refresh failure")
	case step.none:
	default:
		qCtx.SetResponse(build(step.spec, st.q.Name, st.q.Qtype))
	}
	st.mu.Lock()
	st.in--
	st.done++
	st.mu.Unlock()
	return err
}

func (e *env) unregRefreshes(name string) int64 {
	if c, ok := e.bgUnreg.Load(name); ok {
		return c.(*atomic.Int64).Load()
	}
	return 0
}

// result of one foreground Exec.
type result struct {
	T0, T1  int64 // wall-clock bracket, ns
	Err     string
	Reached int
	Hit     bool // the terminal found a response already set
	HasResp bool
	Obs     observation
	AnsT    int64      `json:",omitempty"` // instant the upstream's answer was handed over on a miss (the store follows it)
	Held    *heldTimes `json:",omitempty"` // set for queries that went through the held chain; then [T0,T1] brackets the LOOKUP, not the call
}

// heldTimes are the instants of a query that was held up in front of the cache.
type heldTimes struct {
	CallT0  int64 `json:"call_begin_ns"`
	Created int64 `json:"context_created_by_ns"` // query_context.NewContext ran in [call_begin, this]
	CallT1  int64 `json:"call_end_ns"`
	AgeMs   int64 `json:"context_age_at_lookup_ms"`
}

var idCounter atomic.Uint32

func (e *env) exec(q question, answer *dns.Msg) result {
	qm := q.msg(uint16(idCounter.Add(1)))
	qc := query_context.NewContext(qm)
	fc := &fgCall{answer: answer}
	ctx, cancel := context.WithTimeout(context.WithValue(context.Background(), fgKey{}, fc), 10*time.Second)
	defer cancel()
	var r result
	r.T0 = nowNs()
	err := e.c.Exec(ctx, qc, e.walker)
	r.T1 = nowNs()
	if err != nil {
		r.Err = err.Error()
	}
	r.Reached = fc.reached
	r.Hit = fc.sawResp
	r.AnsT = fc.ansT
	if resp := qc.R(); resp != nil {
		r.HasResp = true
		r.Obs = observe(resp, qc.UpstreamOpt())
	}
	return r
}

// execHeld sends a query through front -> cache -> terminal. The query context is
// created by the real constructor first; then the front plugin holds the query
// (hold runs on the query's goroutine, with the instant the context existed) and
// only then the cache is reached. T0/T1 of the result bracket the cache LOOKUP:
// [front plugin returned, terminal entered] (the cache always runs the rest of
// the chain, on a hit as well as on a miss).
func (e *env) execHeld(q question, answer *dns.Msg, upDelay time.Duration, hold func(created int64)) result {
	qm := q.msg(uint16(idCounter.Add(1)))
	fc := &fgCall{answer: answer, upDelay: upDelay}
	hc := &heldCall{hold: hold}
	ctx, cancel := context.WithTimeout(context.WithValue(context.WithValue(context.Background(), fgKey{}, fc), heldKey{}, hc), 60*time.Second)
	defer cancel()
	var r result
	ht := &heldTimes{}
	r.Held = ht
	ht.CallT0 = nowNs()
	qc := query_context.NewContext(qm)
	ht.Created = nowNs()
	hc.created = ht.Created
	w := e.held
	err := w.ExecNext(ctx, qc)
	ht.CallT1 = nowNs()
	if err != nil {
		r.Err = err.Error()
	}
	r.T0, r.T1 = hc.goT, fc.enterT
	if fc.reached == 0 || r.T0 == 0 {
		r.T0, r.T1 = ht.CallT0, ht.CallT1
	}
	ht.AgeMs = (r.T0 - ht.Created) / 1e6
	r.Reached = fc.reached
	r.Hit = fc.sawResp
	r.AnsT = fc.ansT
	if resp := qc.R(); resp != nil {
		r.HasResp = true
		r.Obs = observe(resp, qc.UpstreamOpt())
	}
	return r
}

// ---- dump files ----

type dumpEntry = cacheplugin.CachedEntry

func encodeDump(entries []*dumpEntry) []byte {
	var buf bytes.Buffer
	gw := gzip.NewWriter(&buf)
	gw.Name = dumpName
	for len(entries) > 0 {
		n := len(entries)
		if n > 128 {
			n = 128
		}
		blk := &cacheplugin.CacheDumpBlock{Entries: entries[:n]}
		entries = entries[n:]
		b, err := proto.Marshal(blk)
		if err != nil {
			panic(err)
		}
		var l [8]byte
		binary.BigEndian.PutUint64(l[:], uint64(len(b)))
		gw.Write(l[:])
		gw.Write(b)
	}
	gw.Close()
	return buf.Bytes()
}

func decodeDump(b []byte) ([]*dumpEntry, error) {
	gr, err := gzip.NewReader(bytes.NewReader(b))
	if err != nil {
		return nil, err
	}
	if gr.Name != dumpName {
		return nil, fmt.Errorf("dump header %q", gr.Name)
	}
	var out []*dumpEntry
	for {
		var l [8]byte
		if _, err := io.ReadFull(gr, l[:]); err != nil {
			if err == io.EOF {
				return out, nil
			}
			return out, err
		}
		n := binary.BigEndian.Uint64(l[:])
		if n > 1<<24 {
			return out, fmt.Errorf("block length %d", n)
		}
		blk := make([]byte, n)
		if _, err := io.ReadFull(gr, blk); err != nil {
			return out, err
		}
		var cb cacheplugin.CacheDumpBlock
		if err := proto.Unmarshal(blk, &cb); err != nil {
			return out, err
		}
		out = append(out, cb.GetEntries()...)
	}
}

func (e *env) dump() ([]*dumpEntry, error) {
	rec := httptest.NewRecorder()
	e.api.ServeHTTP(rec, httptest.NewRequest(http.MethodGet, "/dump", nil))
	if rec.Code != http.StatusOK {
		return nil, fmt.Errorf("/dump status %d: %s", rec.Code, rec.Body.String())
	}
	return decodeDump(rec.Body.Bytes())
}

// load posts a crafted dump; it returns the wall-clock bracket of the load.
func (e *env) load(entries []*dumpEntry) (l0, l1 int64, err error) {
	body := encodeDump(entries)
	rec := httptest.NewRecorder()
	req := httptest.NewRequest(http.MethodPost, "/load_dump", bytes.NewReader(body))
	l0 = nowNs()
	e.api.ServeHTTP(rec, req)
	l1 = nowNs()
	if rec.Code != http.StatusOK {
		return l0, l1, fmt.Errorf("/load_dump status %d: %s", rec.Code, rec.Body.String())
	}
	return l0, l1, nil
}

// dumpByName indexes a dump by the question name inside each stored message.
func dumpByName(es []*dumpEntry) (map[string]*dumpEntry, error) {
	out := make(map[string]*dumpEntry, len(es))
	for _, de := range es {
		m := new(dns.Msg)
		if err := m.Unpack(de.GetMsg()); err != nil {
			return nil, fmt.Errorf("dump entry does not unpack: %w", err)
		}
		if len(m.Question) != 1 {
			return nil, fmt.Errorf("dump entry with %d questions", len(m.Question))
		}
		out[m.Question[0].Name] = de
	}
	return out, nil
}

// learnKeys lets a scratch cache instance store one answer per question and
// reads the key bytes back from its /dump, so the harness never re-implements
// the key function.
func learnKeys(qs []question) (map[string][]byte, error) {
	sc := newEnv(0)
	defer sc.close()
	for _, q := range qs {
		seed := msgSpec{Rcode: 0, RRs: []rrSpec{{0, "A", 3600}}, Marker: 1}
		r := sc.exec(q, build(seed, q.Name, q.Qtype))
		if r.Hit || r.Reached != 1 {
			return nil, fmt.Errorf("key learning: unexpected hit/reach for %s", q.Name)
		}
	}
	es, err := sc.dump()
	if err != nil {
		return nil, err
	}
	byName, err := dumpByName(es)
	if err != nil {
		return nil, err
	}
	keys := make(map[string][]byte, len(qs))
	for _, q := range qs {
		de := byName[q.Name]
		if de == nil || len(de.GetKey()) == 0 {
			return nil, fmt.Errorf("key learning: %s not in scratch dump", q.Name)
		}
		keys[q.Name] = de.GetKey()
	}
	return keys, nil
}
