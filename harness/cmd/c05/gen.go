package main

// Reply generators, message builder and the observation side (reading TTLs,
// markers and OPT words back out of what cache.Exec left in the query context).

import (
	"fmt"
	"math/rand"
	"net"
	"strconv"
	"strings"

	"github.com/miekg/dns"
)

// rrSpec is one record of a generated reply.
type rrSpec struct {
	Sec  int    `json:"sec"`  // 0 answer, 1 authority, 2 additional
	Kind string `json:"kind"` // A AAAA TXT SOA NS CNAME
	TTL  uint32 `json:"ttl"`
}

// msgSpec describes a reply completely; build() turns it into a dns.Msg.
type msgSpec struct {
	Rcode   int      `json:"rcode"`
	TC      bool     `json:"tc,omitempty"`
	RRs     []rrSpec `json:"rrs"`
	OPT     bool     `json:"opt,omitempty"`
	OPTTTL  uint32   `json:"opt_ttl_field,omitempty"` // ext-rcode/version/flags word of the OPT record
	OPTPos  int      `json:"opt_pos,omitempty"`       // position inside the additional section
	OPT2    bool     `json:"opt2,omitempty"`          // a second OPT record (first in additional)
	OPT2TTL uint32   `json:"opt2_ttl_field,omitempty"`
	Marker  uint32   `json:"marker"` // carried in the rdata of every record
}

func (s msgSpec) section(sec int) []rrSpec {
	var out []rrSpec
	for _, r := range s.RRs {
		if r.Sec == sec {
			out = append(out, r)
		}
	}
	return out
}

func (s msgSpec) nAnswer() int { return len(s.section(0)) }

// minTTL over all (non-OPT) records; ok=false if there is no record.
func (s msgSpec) minTTL() (uint32, bool) {
	if len(s.RRs) == 0 {
		return 0, false
	}
	m := ^uint32(0)
	for _, r := range s.RRs {
		if r.TTL < m {
			m = r.TTL
		}
	}
	return m, true
}

// class names the lifetime rule of the statement that applies to the reply.
func (s msgSpec) class() string {
	switch {
	case s.Rcode == dns.RcodeNameError:
		return "nxdomain"
	case s.Rcode == dns.RcodeServerFailure:
		return "servfail"
	case s.Rcode == dns.RcodeSuccess && s.nAnswer() == 0:
		return "empty-noerror"
	case s.Rcode == dns.RcodeSuccess:
		return "noerror"
	}
	return "rcode-other"
}

// admission is the statement's rule: may the reply be stored, and for how long
// (message lifetime in seconds). "open" marks the one input the statement
// leaves undecided (NOERROR without any record: there is no smallest TTL).
func (s msgSpec) admission() (storable bool, open bool, life int64, why string) {
	if s.TC {
		return false, false, 0, "truncated"
	}
	// NXDOMAIN / SERVFAIL "live at most 30 s / 5 s": a shorter life (e.g. capped by the
	// reply's own smallest TTL) is within the statement, and for a negative reply that carries
	// a zero-TTL record the statement has two readings ("zero-TTL replies are never stored" /
	// "NXDOMAIN lives at most 30 s"): storing it or not are both accepted (open).
	neg := func(limit int64) (bool, bool, int64, string) {
		if m, ok := s.minTTL(); ok && m == 0 {
			return false, true, limit, "negative-with-zero-ttl-record"
		}
		return true, false, limit, ""
	}
	switch s.Rcode {
	case dns.RcodeNameError:
		return neg(30)
	case dns.RcodeServerFailure:
		return neg(5)
	case dns.RcodeSuccess:
		m, ok := s.minTTL()
		if !ok {
			return false, true, 300, "no-record"
		}
		if m == 0 {
			return false, false, 0, "zero-ttl"
		}
		if s.nAnswer() == 0 {
			if m > 300 {
				m = 300
			}
			return true, false, int64(m), ""
		}
		return true, false, int64(m), ""
	}
	return false, false, 0, "other-rcode"
}

func (s msgSpec) shape() string {
	var b strings.Builder
	fmt.Fprintf(&b, "r%d", s.Rcode)
	if s.TC {
		b.WriteString("/tc")
	}
	for sec := 0; sec < 3; sec++ {
		b.WriteString("/")
		for _, r := range s.section(sec) {
			b.WriteString(strconv.FormatUint(uint64(r.TTL), 10))
			b.WriteByte(',')
		}
	}
	if s.OPT {
		fmt.Fprintf(&b, "/opt%x", s.OPTTTL)
	}
	if s.OPT2 {
		fmt.Fprintf(&b, "/opt2%x", s.OPT2TTL)
	}
	return b.String()
}

var ttlPool = []uint32{0, 1, 2, 5, 29, 30, 31, 299, 300, 301, 1 << 31, 1<<32 - 1,
	3, 4, 6, 60, 3600, 86400, 1<<31 - 1, 1<<31 + 1, 1<<32 - 2}

// optWords: the low 24 bits of the OPT "TTL" (version, DO, Z). The top byte
// (extended rcode) is rewritten by miekg's Pack from Msg.Rcode, so it stays 0.
var optWords = []uint32{0, 0x8000, 0x00010000, 0x00018000, 0x0000ffff, 0x00ff8001, 5, 1}

func pickTTL(rng *rand.Rand, allowZero bool) uint32 {
	for {
		var t uint32
		if rng.Intn(10) < 8 {
			t = ttlPool[rng.Intn(12)] // the design's listed values
		} else {
			t = ttlPool[rng.Intn(len(ttlPool))]
		}
		if t == 0 && !allowZero {
			continue
		}
		return t
	}
}

// genSpec draws a reply of the wanted class. zeroOK allows TTL 0 records.
func genSpec(rng *rand.Rand, rcode int, withAnswer bool, zeroOK bool, marker uint32) msgSpec {
	s := msgSpec{Rcode: rcode, Marker: marker}
	var nA, nN, nX int
	switch {
	case rcode == dns.RcodeSuccess && withAnswer:
		nA, nN, nX = 1+rng.Intn(3), rng.Intn(3), rng.Intn(3)
	case rcode == dns.RcodeSuccess:
		nA, nN, nX = 0, rng.Intn(3), rng.Intn(3)
		if nN+nX == 0 {
			nN = 1
		}
	default:
		if withAnswer {
			nA = rng.Intn(2)
		}
		nN, nX = rng.Intn(3), rng.Intn(2)
	}
	same := rng.Intn(10) < 3
	sameTTL := pickTTL(rng, zeroOK)
	ttl := func() uint32 {
		if same {
			return sameTTL
		}
		return pickTTL(rng, zeroOK)
	}
	ansKinds := []string{"A", "AAAA", "TXT", "CNAME"}
	nsKinds := []string{"SOA", "NS"}
	exKinds := []string{"A", "AAAA", "TXT"}
	for i := 0; i < nA; i++ {
		s.RRs = append(s.RRs, rrSpec{0, ansKinds[rng.Intn(len(ansKinds))], ttl()})
	}
	for i := 0; i < nN; i++ {
		s.RRs = append(s.RRs, rrSpec{1, nsKinds[rng.Intn(len(nsKinds))], ttl()})
	}
	for i := 0; i < nX; i++ {
		s.RRs = append(s.RRs, rrSpec{2, exKinds[rng.Intn(len(exKinds))], ttl()})
	}
	if rng.Intn(10) < 4 {
		s.OPT = true
		s.OPTTTL = optWords[rng.Intn(len(optWords))]
		s.OPTPos = rng.Intn(nX + 1)
		if rng.Intn(8) == 0 {
			s.OPT2 = true
			s.OPT2TTL = optWords[rng.Intn(len(optWords))]
		}
	}
	return s
}

func recVal(marker uint32, idx int) uint32 { return marker<<4 | uint32(idx&15) }

// build materialises the reply for a question.
func build(s msgSpec, qname string, qtype uint16) *dns.Msg {
	m := new(dns.Msg)
	m.Response = true
	m.RecursionDesired = true
	m.RecursionAvailable = true
	m.Rcode = s.Rcode
	m.Truncated = s.TC
	m.Question = []dns.Question{{Name: qname, Qtype: qtype, Qclass: dns.ClassINET}}
	for i, r := range s.RRs {
		v := recVal(s.Marker, i)
		var rr dns.RR
		owner := qname
		if r.Sec == 1 {
			owner = "c05.test."
		} else if r.Sec == 2 {
			owner = "glue.c05.test."
		}
		switch r.Kind {
		case "A":
			rr = &dns.A{Hdr: dns.RR_Header{Name: owner, Rrtype: dns.TypeA, Class: dns.ClassINET, Ttl: r.TTL},
				A: net.IPv4(byte(v>>24), byte(v>>16), byte(v>>8), byte(v)).To4()}
		case "AAAA":
			ip := net.ParseIP("2001:db8::")
			ip[12], ip[13], ip[14], ip[15] = byte(v>>24), byte(v>>16), byte(v>>8), byte(v)
			rr = &dns.AAAA{Hdr: dns.RR_Header{Name: owner, Rrtype: dns.TypeAAAA, Class: dns.ClassINET, Ttl: r.TTL}, AAAA: ip}
		case "TXT":
			rr = &dns.TXT{Hdr: dns.RR_Header{Name: owner, Rrtype: dns.TypeTXT, Class: dns.ClassINET, Ttl: r.TTL},
				Txt: []string{"m=" + strconv.FormatUint(uint64(v), 10)}}
		case "SOA":
			rr = &dns.SOA{Hdr: dns.RR_Header{Name: owner, Rrtype: dns.TypeSOA, Class: dns.ClassINET, Ttl: r.TTL},
				Ns: "ns.c05.test.", Mbox: "h.c05.test.", Serial: v, Refresh: 7200, Retry: 900, Expire: 86400, Minttl: 3600}
		case "NS":
			rr = &dns.NS{Hdr: dns.RR_Header{Name: owner, Rrtype: dns.TypeNS, Class: dns.ClassINET, Ttl: r.TTL},
				Ns: "n" + strconv.FormatUint(uint64(v), 10) + ".c05.test."}
		case "CNAME":
			rr = &dns.CNAME{Hdr: dns.RR_Header{Name: owner, Rrtype: dns.TypeCNAME, Class: dns.ClassINET, Ttl: r.TTL},
				Target: "t" + strconv.FormatUint(uint64(v), 10) + ".c05.test."}
		default:
			panic("bad kind " + r.Kind)
		}
		switch r.Sec {
		case 0:
			m.Answer = append(m.Answer, rr)
		case 1:
			m.Ns = append(m.Ns, rr)
		default:
			m.Extra = append(m.Extra, rr)
		}
	}
	if s.OPT {
		opt := &dns.OPT{Hdr: dns.RR_Header{Name: ".", Rrtype: dns.TypeOPT, Class: 1232, Ttl: s.OPTTTL}}
		pos := s.OPTPos
		if pos > len(m.Extra) {
			pos = len(m.Extra)
		}
		m.Extra = append(m.Extra[:pos], append([]dns.RR{opt}, m.Extra[pos:]...)...)
		if s.OPT2 {
			opt2 := &dns.OPT{Hdr: dns.RR_Header{Name: ".", Rrtype: dns.TypeOPT, Class: 4096, Ttl: s.OPT2TTL}}
			m.Extra = append([]dns.RR{opt2}, m.Extra...)
		}
	}
	return m
}

// obsRR is one record as observed in a response.
type obsRR struct {
	Kind string `json:"kind"`
	Val  uint32 `json:"val"`
	TTL  uint32 `json:"ttl"`
}

type observation struct {
	Rcode int        `json:"rcode"`
	Secs  [3][]obsRR `json:"sections"`
	OPTs  []uint32   `json:"opt_ttl_fields"` // every OPT word seen (left in additional + the one moved to UpstreamOpt)
}

func trailingNum(s, prefix string) uint32 {
	s = strings.TrimPrefix(s, prefix)
	if i := strings.IndexByte(s, '.'); i >= 0 {
		s = s[:i]
	}
	n, _ := strconv.ParseUint(s, 10, 32)
	return uint32(n)
}

func observe(m *dns.Msg, upstreamOpt *dns.OPT) observation {
	var o observation
	o.Rcode = m.Rcode
	for si, sec := range [][]dns.RR{m.Answer, m.Ns, m.Extra} {
		for _, rr := range sec {
			h := rr.Header()
			x := obsRR{TTL: h.Ttl}
			switch v := rr.(type) {
			case *dns.OPT:
				o.OPTs = append(o.OPTs, h.Ttl)
				continue
			case *dns.A:
				x.Kind = "A"
				if ip := v.A.To4(); ip != nil {
					x.Val = uint32(ip[0])<<24 | uint32(ip[1])<<16 | uint32(ip[2])<<8 | uint32(ip[3])
				}
			case *dns.AAAA:
				x.Kind = "AAAA"
				if ip := v.AAAA.To16(); ip != nil {
					x.Val = uint32(ip[12])<<24 | uint32(ip[13])<<16 | uint32(ip[14])<<8 | uint32(ip[15])
				}
			case *dns.TXT:
				x.Kind = "TXT"
				if len(v.Txt) > 0 {
					x.Val = trailingNum(v.Txt[0], "m=")
				}
			case *dns.SOA:
				x.Kind = "SOA"
				x.Val = v.Serial
			case *dns.NS:
				x.Kind = "NS"
				x.Val = trailingNum(v.Ns, "n")
			case *dns.CNAME:
				x.Kind = "CNAME"
				x.Val = trailingNum(v.Target, "t")
			default:
				x.Kind = dns.TypeToString[h.Rrtype]
			}
			o.Secs[si] = append(o.Secs[si], x)
		}
	}
	if upstreamOpt != nil {
		o.OPTs = append(o.OPTs, upstreamOpt.Hdr.Ttl)
	}
	return o
}

// sameRecords checks that the observed response consists of exactly the
// records of spec (kind + marker, in order), whatever their TTLs.
func sameRecords(s msgSpec, o observation) bool {
	for sec := 0; sec < 3; sec++ {
		if len(s.section(sec)) != len(o.Secs[sec]) {
			return false
		}
	}
	cnt := [3]int{}
	for i, r := range s.RRs {
		got := o.Secs[r.Sec][cnt[r.Sec]]
		cnt[r.Sec]++
		if got.Kind != r.Kind || got.Val != recVal(s.Marker, i) {
			return false
		}
	}
	return true
}

// flatTTLs returns (expected original, observed) TTLs in spec order.
func flatTTLs(s msgSpec, o observation) (orig, got []uint32) {
	cnt := [3]int{}
	for _, r := range s.RRs {
		orig = append(orig, r.TTL)
		got = append(got, o.Secs[r.Sec][cnt[r.Sec]].TTL)
		cnt[r.Sec]++
	}
	return
}

var qtypes = []uint16{dns.TypeA, dns.TypeAAAA, dns.TypeTXT, dns.TypeMX, dns.TypeHTTPS}

type question struct {
	Name  string `json:"name"`
	Qtype uint16 `json:"qtype"`
	AD    bool   `json:"ad,omitempty"`
	CD    bool   `json:"cd,omitempty"`
}

func genQuestion(rng *rand.Rand, tag string, i int) question {
	return question{
		Name:  fmt.Sprintf("e%d.%s.c05.test.", i, tag),
		Qtype: qtypes[rng.Intn(len(qtypes))],
		AD:    rng.Intn(8) == 0,
		CD:    rng.Intn(8) == 0,
	}
}

func (q question) msg(id uint16) *dns.Msg {
	m := new(dns.Msg)
	m.SetQuestion(q.Name, q.Qtype)
	m.Id = id
	m.AuthenticatedData = q.AD
	m.CheckingDisabled = q.CD
	return m
}
