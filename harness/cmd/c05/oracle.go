package main

// The TTL / expiry oracle. Everything is decided against the wall-clock bracket
// [t0,t1] of the Exec call: an outcome is accepted iff it is right for SOME
// instant in the bracket (and some store instant in the store bracket).

import (
	"fmt"
	"github.com/miekg/dns"
)

const (
	sec      = int64(1e9)
	slackNs  = int64(2000) // bracket widening: float rounding of Duration.Seconds() near x.9999995 s for ages of decades
	staleTTL = 5
)

// window describes what the cache is known to hold for one question.
type window struct {
	StLo, StHi int64 // store instant (ns); equal for injected entries (whole Unix seconds)
	L, C       int64 // message lifetime / cache-entry lifetime in seconds, counted from the store instant
	LoadLo     int64 // earliest instant the entry could have been put into the store (ns); 0 = same as StLo
	LoadHi     int64 // latest such instant; 0 = same as StHi
}

func floorDiv(a, b int64) int64 {
	q := a / b
	if a%b != 0 && (a < 0) != (b < 0) {
		q--
	}
	return q
}

func aged(ttl0 uint32, e int64) uint32 {
	v := int64(ttl0) - e
	if v < 1 {
		return 1
	}
	return uint32(v)
}

type verdict struct {
	Outcome     string // fresh | stale | fresh-or-stale | miss | miss-unexpected | miss-never-loaded
	Viol        string // violation kind ("" = accepted)
	Detail      string
	E           int64 // whole seconds subtracted (fresh hits)
	ExpectedHit bool  // a hit was the only correct cached outcome (entry surely loaded, surely alive)
}

// judge decides one probe. spec is the reply the entry was made from; optWant
// are the OPT words the served message must still carry (nil = do not check).
func judge(w window, lazy bool, spec msgSpec, optWant []uint32, r result) verdict {
	t0, t1 := r.T0-slackNs, r.T1+slackNs
	loadLo, loadHi := w.LoadLo, w.LoadHi
	if loadLo == 0 {
		loadLo = w.StLo
	}
	if loadHi == 0 {
		loadHi = w.StHi
	}
	msgExpLo, msgExpHi := w.StLo+w.L*sec, w.StHi+w.L*sec
	cacheExpLo, cacheExpHi := w.StLo+w.C*sec, w.StHi+w.C*sec
	if lazy && w.LoadLo == 0 && w.L > w.C {
		// stored through Exec with lazy cache on: the statement does not make an entry vanish
		// lazy_cache_ttl seconds after the store while its records are still valid; it may be
		// kept (and served fresh) until its smallest TTL has run out
		cacheExpHi = w.StHi + w.L*sec
	}

	loadPossible := loadLo <= cacheExpHi                // Store() is a no-op once the cache expiry has passed
	loadSure := loadHi+slackNs <= cacheExpLo            //
	inCachePossible := loadPossible && t0 <= cacheExpHi // the store drops entries strictly after their expiry
	freshPossible := inCachePossible && t0 < msgExpHi
	stalePossible := lazy && inCachePossible && t1 >= msgExpLo

	var v verdict
	v.ExpectedHit = loadSure && t1 <= cacheExpLo && (t1 < msgExpLo || lazy)
	if v.ExpectedHit && w.LoadLo == 0 && spec.Rcode != dns.RcodeSuccess {
		// stored through Exec: a negative answer "lives at most" its limit - with records of
		// its own it may legitimately be gone once their smallest TTL has run out, so a hit is
		// the only correct outcome (for the vacuity guard) only before that
		if m, ok := spec.minTTL(); ok && t1 >= w.StLo+int64(m)*sec {
			v.ExpectedHit = false
		}
	}

	if !r.Hit {
		switch {
		case !loadPossible:
			v.Outcome = "miss-never-loaded"
		case v.ExpectedHit:
			v.Outcome = "miss-unexpected"
		default:
			v.Outcome = "miss"
		}
		return v
	}
	if !r.HasResp {
		v.Viol, v.Detail = "harness-hit-without-response", "terminal saw a response but none is left in the context"
		return v
	}

	// ---- a response was served from the cache ----
	if !sameRecords(spec, r.Obs) {
		v.Viol = "wrong-entry"
		v.Detail = fmt.Sprintf("served records %+v do not match the stored reply (marker %d)", r.Obs.Secs, spec.Marker)
		return v
	}
	if optWant != nil {
		if len(r.Obs.OPTs) == 0 && len(optWant) > 0 {
			// the entry was stored (loaded) without its OPT record: "cached answers never
			// contain one" (C15) - nothing left that a TTL rewrite could touch
			rep.Count("hits_on_entries_whose_opt_record_was_dropped_by_the_cache(allowed)", 1)
		} else if !sameWords(optWant, r.Obs.OPTs) {
			v.Viol = "opt-ttl-touched"
			v.Detail = fmt.Sprintf("OPT ext-rcode/version/flags words stored %#x, served %#x", optWant, r.Obs.OPTs)
			return v
		}
	}
	orig, got := flatTTLs(spec, r.Obs)

	allStale := true
	for _, g := range got {
		if g != staleTTL {
			allStale = false
		}
	}
	okStale := stalePossible && allStale

	// feasible whole-second ages for a fresh hit
	okFresh := false
	var eLo, eHi int64
	if freshPossible {
		dLo := t0 - w.StHi
		dHi := t1 - w.StLo
		if m := w.L*sec - 1; dHi > m {
			dHi = m
		}
		if m := w.C * sec; dHi > m {
			dHi = m
		}
		eLo, eHi = floorDiv(dLo, sec), floorDiv(dHi, sec)
		if eLo < 0 {
			eLo = 0
		}
		if eHi < eLo {
			eHi = eLo
		}
		for e := eLo; e <= eHi && e <= eLo+64; e++ {
			ok := true
			for i := range orig {
				if got[i] != aged(orig[i], e) {
					ok = false
					break
				}
			}
			if ok {
				okFresh = true
				v.E = e
				break
			}
		}
	}
	switch {
	case okFresh && okStale:
		v.Outcome = "fresh-or-stale"
		return v
	case okFresh:
		v.Outcome = "fresh"
		return v
	case okStale:
		v.Outcome = "stale"
		return v
	}

	// ---- not acceptable: classify ----
	base := fmt.Sprintf("stored TTLs %v served as %v; call bracket [%d,%d] ns; store instant [%d,%d] ns; message lifetime %d s, entry lifetime %d s, lazy=%v",
		orig, got, r.T0, r.T1, w.StLo, w.StHi, w.L, w.C, lazy)
	switch {
	case !inCachePossible:
		v.Viol = "served-after-entry-expiry"
		v.Detail = "hit although the cache entry's expiry had passed before the call began: " + base
	case !freshPossible && !lazy:
		v.Viol = "served-after-expiry"
		v.Detail = fmt.Sprintf("hit %d ms after the smallest TTL ran out (lazy off): %s", (t0-msgExpHi)/1e6, base)
	case !freshPossible:
		v.Viol = "stale-ttl-not-5"
		v.Detail = "stale (lazy) hit whose record TTLs are not all 5: " + base
	default:
		above, below, zero := false, false, false
		for i := range orig {
			hi, lo := aged(orig[i], eLo), aged(orig[i], eHi)
			if got[i] > hi {
				above = true
			}
			if got[i] < lo {
				below = true
				if got[i] == 0 {
					zero = true
				}
			}
		}
		switch {
		case zero:
			v.Viol = "ttl-below-1"
		case above:
			v.Viol = "ttl-above-remaining"
		case below:
			v.Viol = "ttl-too-low"
		default:
			v.Viol = "ttl-inconsistent-elapsed"
		}
		v.Detail = fmt.Sprintf("whole seconds elapsed since store are in [%d,%d]: %s", eLo, eHi, base)
	}
	return v
}

func sameWords(a, b []uint32) bool {
	if len(a) != len(b) {
		return false
	}
	used := make([]bool, len(b))
outer:
	for _, x := range a {
		for j, y := range b {
			if !used[j] && x == y {
				used[j] = true
				continue outer
			}
		}
		return false
	}
	return true
}

func (s msgSpec) optWords() []uint32 {
	out := []uint32{}
	if s.OPT {
		out = append(out, s.OPTTTL)
		if s.OPT2 {
			out = append(out, s.OPT2TTL)
		}
	}
	return out
}
