package main

// Hand-over windows: one exchange (A) is held at a schedule point of the
// transport while a second exchange (B) starts on the same transport; A is then
// released and the server stays silent for B, whose context is unbounded. The
// idle timeout of every connection is one hour, so only the transport's
// waiting-reply timeouts may end B in time.
//
// Two oracles:
//   - state invariant (logical): once things have settled, a connection that
//     carries an unanswered query has a read deadline in force that lies within
//     the liveness bound ("tens of seconds"), never the idle timeout;
//   - bounded progress: B returns with an error within wSilence.

import (
	"context"
	"fmt"
	"sync"
	"sync/atomic"
	"time"

	"github.com/IrineSistiana/mosdns/v5/pkg/pool"
	"github.com/IrineSistiana/mosdns/v5/pkg/upstream/transport"

	"verifharness/lib/dnsadv"
	"verifharness/lib/fakenet"
	"verifharness/lib/leak"
	"verifharness/lib/sched"
	"verifharness/lib/wire"
)

type winCase struct {
	Transport string `json:"transport"` // reuse | pipe-stream | pipe-dgram
	Hook      string `json:"hook"`
	NB        int    `json:"second_callers"`
	Rep       int    `json:"rep"`
}

func (w winCase) key() string { return fmt.Sprintf("%s-%s", w.Transport, w.Hook) }

const winLiveBound = 30 * time.Second // "tens of seconds at most"

type winWorld struct {
	wc     winCase
	net    *fakenet.Net
	mu     sync.Mutex
	defr   map[*fakenet.Conn]*wire.Deframer
	aSeq   int
	wrote  map[int]*fakenet.Conn // seq -> conn that carried it
	wroteC chan int
}

func (w *winWorld) onWrite(c *fakenet.Conn, data []byte) error {
	var msgs [][]byte
	w.mu.Lock()
	if c.Stream {
		msgs = w.defr[c].Feed(data)
	} else {
		msgs = [][]byte{append([]byte(nil), data...)}
	}
	w.mu.Unlock()
	for _, m := range msgs {
		qi, err := dnsadv.ParseQuery(m)
		if err != nil {
			continue
		}
		w.mu.Lock()
		_, dup := w.wrote[qi.Seq]
		w.wrote[qi.Seq] = c
		isA := qi.Seq == w.aSeq
		w.mu.Unlock()
		if !dup {
			select {
			case w.wroteC <- qi.Seq:
			default:
			}
		}
		if isA && !dup {
			r := dnsadv.Reply(qi.WireID, 0x8180, qi.QSect, fmt.Sprintf("win/%d", qi.Seq), 0, 0)
			if c.Stream {
				r = wire.Frame(r)
			}
			c.Inject(r)
		}
	}
	return nil
}

func (w *winWorld) dial(ctx context.Context) (*fakenet.Conn, error) {
	c := w.net.NewConnUser(w.wc.Transport != "pipe-dgram", w)
	w.mu.Lock()
	w.defr[c] = &wire.Deframer{}
	w.mu.Unlock()
	c.OnWrite = w.onWrite
	return c, nil
}

func (w *winWorld) transport() exch {
	const idle = time.Hour
	if w.wc.Transport == "reuse" {
		return transport.NewReuseConnTransport(transport.ReuseConnOpts{
			IdleTimeout: idle,
			DialContext: func(ctx context.Context) (transport.NetConn, error) {
				c, err := w.dial(ctx)
				if err != nil {
					return nil, err
				}
				return c, nil
			},
		})
	}
	stream := w.wc.Transport == "pipe-stream"
	return transport.NewPipelineTransport(transport.PipelineOpts{
		DialContext: func(ctx context.Context) (transport.DnsConn, error) {
			c, err := w.dial(ctx)
			if err != nil {
				return nil, err
			}
			return transport.NewDnsConn(transport.TraditionalDnsConnOpts{WithLengthHeader: stream, MaxConcurrentQuery: 64, IdleTimeout: idle}, c), nil
		},
		MaxConcurrentQueryWhileDialing: 64,
	})
}

type winCall struct {
	seq  int
	done chan struct{}
	err  error
}

func (w *winWorld) call(t exch, ctx context.Context, seq int) *winCall {
	wc := &winCall{seq: seq, done: make(chan struct{})}
	q := dnsadv.Query(uint16(seq*3), seq, 1, "c07", 1)
	go func() {
		r, err := t.ExchangeContext(ctx, q)
		wc.err = err
		if err == nil {
			pool.ReleaseBuf(r)
		}
		close(wc.done)
	}()
	return wc
}

func (w *winWorld) waitWrote(seq int, d time.Duration) *fakenet.Conn {
	deadline := time.Now().Add(d)
	for {
		w.mu.Lock()
		c := w.wrote[seq]
		w.mu.Unlock()
		if c != nil || time.Now().After(deadline) {
			return c
		}
		select {
		case <-w.wroteC:
		case <-time.After(5 * time.Millisecond):
		}
	}
}

// runWindow runs one case up to the point where B's verdict only needs waiting;
// the returned function does that waiting (and the teardown).
func runWindow(wc winCase) (finish func()) {
	caselog.Log(map[string]any{"window": wc})
	rep.Eval(1)
	w := &winWorld{wc: wc, net: fakenet.NewNet(), defr: map[*fakenet.Conn]*wire.Deframer{}, wrote: map[int]*fakenet.Conn{}, wroteC: make(chan int, 64)}
	t := w.transport()
	w.aSeq = int(seqCtr.Add(1))
	gate := sched.NewGate()
	var first atomic.Bool
	remove := sched.On(wc.Hook, func(_ string, arg any) {
		mine := false
		switch a := arg.(type) {
		case *fakenet.Conn:
			mine = a.User == any(w)
		default:
			mine = arg == any(t)
		}
		if mine && first.CompareAndSwap(false, true) {
			gate.Wait(3 * time.Second)
		}
	})
	ctxA, cancelA := context.WithTimeout(context.Background(), wCtx)
	a := w.call(t, ctxA, w.aSeq)
	reached := false
	arrived := make(chan struct{})
	go func() {
		if gate.WaitArrived(3 * time.Second) {
			close(arrived)
		}
	}()
	select {
	case <-a.done:
	case <-arrived:
		reached = true
	case <-time.After(3 * time.Second):
	}
	var bs []*winCall
	for i := 0; i < wc.NB; i++ {
		bs = append(bs, w.call(t, context.Background(), int(seqCtr.Add(1))))
	}
	if reached {
		// let B run into the window: until its query is on the wire, or it
		// evidently waits for something A holds
		w.waitWrote(bs[0].seq, 150*time.Millisecond)
	}
	gate.Open()
	remove()
	select {
	case <-a.done:
	case <-time.After(wCtx + time.Second):
		rep.Violation("call-did-not-return-window-"+wc.key(), "the held exchange did not return after release although its reply was delivered and its context ended", map[string]any{"window": wc, "goroutines": trunc(leak.Full(), 60000)})
	}
	cancelA()
	if reached {
		rep.Count("windows_reached", 1)
		rep.Count("window_reached:"+wc.key(), 1)
	} else {
		rep.Count("windows_point_not_on_path", 1)
	}
	t0 := time.Now()
	// state invariant, per B: poll (scheduling may lag on a loaded machine)
	for _, b := range bs {
		c := w.waitWrote(b.seq, 5*time.Second)
		if c == nil {
			select {
			case <-b.done:
				rep.Count("window_second_call_ended_before_sending", 1)
			default:
				rep.Count("window_second_call_not_sent_yet", 1)
			}
			continue
		}
		okState := false
		var lastIn time.Duration
		var lastSet bool
		for time.Since(t0) < 6*time.Second {
			select {
			case <-b.done:
				okState = true
			default:
			}
			if okState || c.IsClosed() {
				okState = true
				break
			}
			lastIn, lastSet = c.ReadDeadlineIn()
			if lastSet && lastIn <= winLiveBound {
				okState = true
				break
			}
			time.Sleep(10 * time.Millisecond)
		}
		if okState {
			rep.Count("window_deadline_invariant_held", 1)
			if reached {
				rep.Nontrivial(fmt.Sprintf("window|%s|nb%d|rep%d|q%d", wc.key(), wc.NB, wc.Rep, b.seq-w.aSeq))
			}
		} else {
			what := fmt.Sprintf("read deadline %.0f s away", lastIn.Seconds())
			if !lastSet {
				what = "no read deadline in force"
			}
			rep.Violation("unanswered-query-without-liveness-deadline-"+wc.key(), fmt.Sprintf("a query has been on the wire unanswered for %.1f s on a connection with %s (idle timeout 1 h): a silent server holds the call that long", time.Since(t0).Seconds(), what),
				map[string]any{"window": wc, "deadline_log": c.Deadlines(), "conn_id": c.ID})
		}
	}
	return func() {
		for _, b := range bs {
			select {
			case <-b.done:
				if b.err == nil {
					rep.Violation("reply-from-nowhere-window-"+wc.key(), "exchange the server never answered returned success", map[string]any{"window": wc})
				} else {
					rep.Count("window_second_calls_returned_with_error", 1)
				}
			case <-time.After(time.Until(t0.Add(wSilence))):
				rep.Violation("call-did-not-return-window-"+wc.key()+"-silent", fmt.Sprintf("exchange with an unbounded context still blocked %.0f s after the server went silent", wSilence.Seconds()), map[string]any{"window": wc, "goroutines": trunc(leak.Full(), 60000)})
			}
		}
		closed := make(chan struct{})
		go func() { t.Close(); close(closed) }()
		select {
		case <-closed:
		case <-time.After(wCtx):
			rep.Violation("close-did-not-return-window-"+wc.key(), "transport Close() still blocked after 10 s", map[string]any{"window": wc})
			return
		}
		for _, c := range w.net.Conns() {
			if !c.WaitClosed(wCtx) {
				rep.Violation("conn-not-closed-after-close-window-"+wc.key(), "connection still open 10 s after transport Close", map[string]any{"window": wc, "conn_id": c.ID})
			}
		}
	}
}

func winCases(reps int) []winCase {
	hooks := map[string][]string{
		"reuse":       {"reuse.readloop.read", "reuse.readloop.idle", "reuse.exchange.written"},
		"pipe-stream": {"pipeline.reserved", "tdc.exchange.queued", "tdc.exchange.written", "tdc.exchange.arming", "tdc.readloop.read", "tdc.readloop.dispatched"},
		"pipe-dgram":  {"pipeline.reserved", "tdc.exchange.queued", "tdc.exchange.written", "tdc.exchange.arming", "tdc.readloop.read", "tdc.readloop.dispatched"},
	}
	var out []winCase
	for _, tr := range []string{"reuse", "pipe-stream", "pipe-dgram"} {
		for _, h := range hooks[tr] {
			for r := 0; r < reps; r++ {
				out = append(out, winCase{Transport: tr, Hook: h, NB: 1 + 2*(r%2), Rep: r})
			}
		}
	}
	return out
}

// runWindows runs the windows (perturbation must be off: gates decide the
// schedule) and returns the function that collects the slow verdicts.
func runWindows(reps int) (finish func()) {
	var fins []func()
	var mu sync.Mutex
	var wg sync.WaitGroup
	sem := make(chan struct{}, 8)
	for _, wc := range winCases(reps) {
		wg.Add(1)
		sem <- struct{}{}
		go func(wc winCase) {
			defer wg.Done()
			defer func() { <-sem }()
			f := runWindow(wc)
			mu.Lock()
			fins = append(fins, f)
			mu.Unlock()
		}(wc)
	}
	wg.Wait()
	return func() {
		var fw sync.WaitGroup
		for _, f := range fins {
			fw.Add(1)
			go func(f func()) { defer fw.Done(); f() }(f)
		}
		fw.Wait()
	}
}

// closeRaces: transport Close() racing with the failure of the connections it
// has to tear down (every reader sees a read error at the moment Close starts).
// Both sides close the same connections and update the same pool bookkeeping;
// Close must return and every call must end, whatever the order.
func closeRaces(trials int) {
	var wg sync.WaitGroup
	sem := make(chan struct{}, 8)
	var stop atomic.Bool
	for i := 0; i < trials && !stop.Load(); i++ {
		wg.Add(1)
		sem <- struct{}{}
		go func(i int) {
			defer wg.Done()
			defer func() { <-sem }()
			tr := []string{"reuse", "reuse", "pipe-stream", "pipe-dgram"}[i%4]
			k := 1 + i%6
			wc := winCase{Transport: tr, Hook: "close-race", NB: k, Rep: i}
			w := &winWorld{wc: wc, net: fakenet.NewNet(), defr: map[*fakenet.Conn]*wire.Deframer{}, wrote: map[int]*fakenet.Conn{}, wroteC: make(chan int, 64), aSeq: -1}
			t := w.transport()
			rep.Eval(1)
			var calls []*winCall
			for j := 0; j < k; j++ {
				c := w.call(t, context.Background(), int(seqCtr.Add(1)))
				calls = append(calls, c)
				if w.waitWrote(c.seq, 5*time.Second) == nil {
					rep.Count("close_race_setup_incomplete", 1)
				}
			}
			conns := w.net.Conns()
			start := make(chan struct{})
			var rw sync.WaitGroup
			for _, c := range conns {
				rw.Add(1)
				go func(c *fakenet.Conn) {
					defer rw.Done()
					<-start
					c.InjectErr(fakenet.ErrInjected)
				}(c)
			}
			closed := make(chan struct{})
			go func() { <-start; t.Close(); close(closed) }()
			close(start)
			rw.Wait()
			select {
			case <-closed:
			case <-time.After(wCtx):
				if !stop.Swap(true) {
					rep.Violation("close-did-not-return-close-race-"+tr, fmt.Sprintf("transport Close() racing with read errors on its %d connection(s) still blocked after %.0f s", len(conns), wCtx.Seconds()), map[string]any{"transport": tr, "calls_in_flight": k, "trial": i, "goroutines": trunc(leak.Full(), 80000)})
				}
				return
			}
			for _, c := range calls {
				select {
				case <-c.done:
				case <-time.After(wCtx):
					if !stop.Swap(true) {
						rep.Violation("call-did-not-return-close-race-"+tr, "exchange still blocked 10 s after its connection failed and the transport was closed", map[string]any{"transport": tr, "trial": i, "goroutines": trunc(leak.Full(), 80000)})
					}
					return
				}
			}
			for _, c := range conns {
				if !c.WaitClosed(wCtx) {
					rep.Violation("conn-not-closed-after-close-race-"+tr, "connection still open 10 s after transport Close", map[string]any{"transport": tr, "trial": i})
				}
			}
			rep.Count("close_races_survived:"+tr, 1)
			rep.Nontrivial(fmt.Sprintf("close-race|%s|k%d|%d", tr, k, i%64))
		}(i)
	}
	wg.Wait()
}

// expiredIdleWindows: a connection whose idle timer has fired but whose reader
// has not reacted yet (the timed-out Read returns late) is still in the pool /
// still the pipeline's connection. A query that arrives in that window may be
// retried or may fail, but it must return, later calls must return, and Close
// must return and release everything.
func expiredIdleWindows(rounds int) {
	var wg sync.WaitGroup
	for i := 0; i < rounds; i++ {
		for _, tr := range []string{"reuse", "pipe-stream", "pipe-dgram"} {
			wg.Add(1)
			go func(i int, tr string) {
				defer wg.Done()
				rep.Eval(1)
				caselog.Log(map[string]any{"expired_idle_window": tr, "round": i})
				const idle = 40 * time.Millisecond
				lateBy := time.Duration(150+50*(i%3)) * time.Millisecond
				net := fakenet.NewNet()
				var mu sync.Mutex
				defr := map[*fakenet.Conn]*wire.Deframer{}
				stream := tr != "pipe-dgram"
				onWrite := func(c *fakenet.Conn, data []byte) error {
					var msgs [][]byte
					mu.Lock()
					if stream {
						msgs = defr[c].Feed(data)
					} else {
						msgs = [][]byte{append([]byte(nil), data...)}
					}
					mu.Unlock()
					for _, m := range msgs {
						qi, err := dnsadv.ParseQuery(m)
						if err != nil {
							continue
						}
						r := dnsadv.Reply(qi.WireID, 0x8180, qi.QSect, fmt.Sprintf("eiw/%d", qi.Seq), 0, 0)
						if stream {
							r = wire.Frame(r)
						}
						c.Inject(r)
					}
					return nil
				}
				dial := func() *fakenet.Conn {
					c := net.NewConn(stream)
					c.DelayReadTimeout = lateBy
					mu.Lock()
					defr[c] = &wire.Deframer{}
					mu.Unlock()
					c.OnWrite = onWrite
					return c
				}
				var t exch
				if tr == "reuse" {
					t = transport.NewReuseConnTransport(transport.ReuseConnOpts{IdleTimeout: idle,
						DialContext: func(ctx context.Context) (transport.NetConn, error) { return dial(), nil }})
				} else {
					t = transport.NewPipelineTransport(transport.PipelineOpts{MaxConcurrentQueryWhileDialing: 64,
						DialContext: func(ctx context.Context) (transport.DnsConn, error) {
							return transport.NewDnsConn(transport.TraditionalDnsConnOpts{WithLengthHeader: stream, MaxConcurrentQuery: 64, IdleTimeout: idle}, dial()), nil
						}})
				}
				wit := map[string]any{"transport": tr, "idle_timeout_ms": idle.Milliseconds(), "timed_out_read_returns_late_by_ms": lateBy.Milliseconds(), "round": i}
				one := func(what string) bool {
					seq := int(seqCtr.Add(1))
					ctx, cancel := context.WithTimeout(context.Background(), 2*time.Second)
					defer cancel()
					done := make(chan error, 1)
					go func() {
						r, err := t.ExchangeContext(ctx, dnsadv.Query(uint16(seq), seq, 1, "c07", 1))
						if err == nil {
							pool.ReleaseBuf(r)
						}
						done <- err
					}()
					select {
					case err := <-done:
						if err == nil {
							rep.Count("expired_idle_window_calls_answered", 1)
						} else {
							rep.Count("expired_idle_window_calls_failed(returned)", 1)
							rep.SetAdd("expired_idle_window_errors", tr+": "+what+": "+err.Error())
						}
						return true
					case <-time.After(2*time.Second + wCtx):
						wit["goroutines"] = trunc(leak.Full(), 80000)
						rep.Violation("call-did-not-return-expired-idle-window-"+tr, fmt.Sprintf("%s: exchange did not return %.0f s after its context ended (server answers every query at once)", what, wCtx.Seconds()), wit)
						return false
					}
				}
				ok := one("first query")
				for k := 0; ok && k < 3; k++ {
					// inside the window: the idle timer has fired, the reader returns lateBy later
					time.Sleep(idle + time.Duration(20+30*k)*time.Millisecond)
					ok = one(fmt.Sprintf("query sent %d ms after the idle timer fired", 20+30*k))
				}
				closed := make(chan struct{})
				go func() { t.Close(); close(closed) }()
				select {
				case <-closed:
					if ok {
						rep.Nontrivial(fmt.Sprintf("expired-idle-window|%s|%d", tr, i))
					}
				case <-time.After(wCtx):
					if ok {
						wit["goroutines"] = trunc(leak.Full(), 80000)
						rep.Violation("close-did-not-return-expired-idle-window-"+tr, "transport Close() still blocked after 10 s", wit)
					}
					return
				}
				for _, c := range net.Conns() {
					if !c.WaitClosed(wCtx) {
						rep.Violation("conn-not-closed-after-close-expired-idle-window-"+tr, "connection still open 10 s after transport Close", wit)
					}
				}
			}(i, tr)
		}
	}
	wg.Wait()
}

// silentStagger: a pipelined connection whose server has gone silent keeps
// getting new queries from other callers (staggered in time). The liveness
// deadline belongs to the OLDEST unanswered query: later queries must not push
// it back, or a steady trickle of traffic keeps a dead connection alive and a
// caller with an unbounded context waits forever. Oracle on the deadline log
// (logical): while nothing is read, no read deadline later than "first
// unanswered write + liveness bound" may be in force; plus bounded return.
func silentStagger(rounds int) (finish func()) {
	type pend struct {
		tr    string
		first *winCall
		t0    time.Time
		t     exch
		net   *fakenet.Net
	}
	var mu sync.Mutex
	var pends []pend
	var wg sync.WaitGroup
	for i := 0; i < rounds; i++ {
		for _, tr := range []string{"pipe-stream", "pipe-dgram"} {
			wg.Add(1)
			go func(i int, tr string) {
				defer wg.Done()
				rep.Eval(1)
				wc := winCase{Transport: tr, Hook: "silent-stagger", NB: 3, Rep: i}
				caselog.Log(map[string]any{"silent_stagger": wc})
				w := &winWorld{wc: wc, net: fakenet.NewNet(), defr: map[*fakenet.Conn]*wire.Deframer{}, wrote: map[int]*fakenet.Conn{}, wroteC: make(chan int, 64), aSeq: -1}
				t := w.transport()
				first := w.call(t, context.Background(), int(seqCtr.Add(1)))
				c := w.waitWrote(first.seq, 5*time.Second)
				if c == nil {
					rep.Count("silent_stagger_setup_incomplete", 1)
					t.Close()
					return
				}
				t0 := time.Now()
				// the bound for this connection: deadline armed for the first query (+ slack)
				limit := time.Duration(0)
				for k := 0; k < 40; k++ {
					if d, ok := c.ReadDeadlineIn(); ok && d <= winLiveBound {
						limit = time.Since(t0) + d + 1500*time.Millisecond
						break
					}
					time.Sleep(5 * time.Millisecond)
				}
				if limit == 0 {
					rep.Violation("unanswered-query-without-liveness-deadline-silent-stagger-"+tr, "a query is on the wire unanswered and no read deadline within the liveness bound is in force", map[string]any{"window": wc, "deadline_log": c.Deadlines()})
					t.Close()
					return
				}
				for k := 1; k <= wc.NB; k++ {
					time.Sleep(time.Duration(900+100*(i%3)) * time.Millisecond)
					ctx, cancel := context.WithTimeout(context.Background(), 300*time.Millisecond)
					later := w.call(t, ctx, int(seqCtr.Add(1)))
					lc := w.waitWrote(later.seq, 2*time.Second)
					<-later.done
					cancel()
					if lc != c {
						rep.Count("silent_stagger_later_query_on_another_connection", 1)
						continue
					}
					// give a late arming goroutine time, then look at the deadline in force
					time.Sleep(30 * time.Millisecond)
					if d, ok := c.ReadDeadlineIn(); !c.IsClosed() && (!ok || time.Since(t0)+d > limit) {
						what := "none"
						if ok {
							what = fmt.Sprintf("%.1f s after the first unanswered query", (time.Since(t0) + d).Seconds())
						}
						rep.Violation("liveness-deadline-pushed-back-by-later-query-"+tr, fmt.Sprintf("silent server: the read deadline of the connection was due %.1f s after the first unanswered query; after query #%d (sent %.1f s later) the deadline in force is %s: further traffic keeps a dead connection alive", (limit - 1500*time.Millisecond).Seconds(), k+1, time.Since(t0).Seconds(), what),
							map[string]any{"window": wc, "deadline_log": c.Deadlines()})
						t.Close()
						return
					}
					rep.Count("silent_stagger_deadline_checks_held", 1)
				}
				rep.Nontrivial(fmt.Sprintf("silent-stagger|%s|%d", tr, i))
				mu.Lock()
				pends = append(pends, pend{tr, first, t0, t, w.net})
				mu.Unlock()
			}(i, tr)
		}
	}
	wg.Wait()
	return func() {
		for _, p := range pends {
			select {
			case <-p.first.done:
				rep.Count("silent_stagger_first_calls_returned", 1)
			case <-time.After(time.Until(p.t0.Add(wSilence))):
				rep.Violation("call-did-not-return-silent-stagger-"+p.tr, fmt.Sprintf("exchange with an unbounded context still blocked %.0f s after the server went silent (other callers kept sending)", wSilence.Seconds()), map[string]any{"transport": p.tr, "goroutines": trunc(leak.Full(), 60000)})
			}
			p.t.Close()
		}
	}
}
