package main

// Real upstreams (upstream.NewUpstream over loopback sockets) against silent
// peers: the dial / handshake / read paths of pkg/upstream/upstream.go itself,
// which the fake-connection cases never enter.

import (
	"context"
	"crypto/tls"
	"fmt"
	"net"
	"sync"
	"sync/atomic"
	"time"

	"github.com/IrineSistiana/mosdns/v5/pkg/pool"
	"github.com/IrineSistiana/mosdns/v5/pkg/upstream"

	"verifharness/lib/dnsadv"
	"verifharness/lib/leak"
	"verifharness/lib/loopnet"
)

type silentServer struct {
	addr     string
	ln       net.Listener
	pc       net.PacketConn
	accepted atomic.Int64
	closedBy atomic.Int64 // connections on which the server saw EOF / error (client closed)
	wg       sync.WaitGroup
}

// newSilentTCP accepts connections, reads whatever comes and never writes a byte.
func newSilentTCP() (*silentServer, error) {
	ln, err := net.Listen("tcp", "127.0.0.1:0")
	if err != nil {
		return nil, err
	}
	s := &silentServer{addr: ln.Addr().String(), ln: ln}
	go func() {
		for {
			c, err := ln.Accept()
			if err != nil {
				return
			}
			s.accepted.Add(1)
			s.wg.Add(1)
			go func() {
				defer s.wg.Done()
				buf := make([]byte, 4096)
				for {
					if _, err := c.Read(buf); err != nil {
						s.closedBy.Add(1)
						c.Close()
						return
					}
				}
			}()
		}
	}()
	return s, nil
}

func newSilentUDP() (*silentServer, error) {
	pc, err := net.ListenPacket("udp", "127.0.0.1:0")
	if err != nil {
		return nil, err
	}
	s := &silentServer{addr: pc.LocalAddr().String(), pc: pc}
	go func() {
		buf := make([]byte, 4096)
		for {
			if _, _, err := pc.ReadFrom(buf); err != nil {
				return
			}
		}
	}()
	return s, nil
}

func (s *silentServer) close() {
	if s.ln != nil {
		s.ln.Close()
	}
	if s.pc != nil {
		s.pc.Close()
	}
}

// realSilentPeers: for each scheme one exchange with an UNBOUNDED context against
// a peer that never answers (for tls: never answers the ClientHello). The call
// must return with an error within wSilence; after Close every connection the
// upstream opened must be closed and no upstream goroutine may remain.
func realSilentPeers() {
	type rc struct {
		scheme string
		udp    bool
	}
	cases := []rc{{"udp", true}, {"tcp", false}, {"tcp+pipeline", false}, {"tls", false}, {"tls+pipeline", false}}
	var wg sync.WaitGroup
	for _, c := range cases {
		wg.Add(1)
		go func(c rc) {
			defer wg.Done()
			var srv *silentServer
			var err error
			if c.udp {
				srv, err = newSilentUDP()
			} else {
				srv, err = newSilentTCP()
			}
			if err != nil {
				rep.Inconclusive("real-silent %s: cannot start server: %v", c.scheme, err)
				return
			}
			defer srv.close()
			u, err := upstream.NewUpstream(c.scheme+"://"+srv.addr, upstream.Opt{})
			if err != nil {
				rep.Inconclusive("real-silent %s: NewUpstream: %v", c.scheme, err)
				return
			}
			caselog.Log(map[string]any{"real_silent_peer": c.scheme})
			rep.Eval(1)
			seq := int(seqCtr.Add(1))
			done := make(chan error, 1)
			t0 := time.Now()
			go func() {
				r, err := u.ExchangeContext(context.Background(), dnsadv.Query(uint16(seq), seq, 1, "c07", 1))
				if err == nil {
					pool.ReleaseBuf(r)
				}
				done <- err
			}()
			wit := map[string]any{"scheme": c.scheme, "server": srv.addr}
			select {
			case err := <-done:
				rep.Max("real_silent_peer_return_ms:"+c.scheme, time.Since(t0).Milliseconds())
				if err == nil {
					rep.Violation("reply-from-nowhere-real-"+c.scheme, "exchange against a peer that never sent a byte returned success", wit)
				} else {
					rep.Count("real_silent_peer_calls_returned_with_error", 1)
					rep.Nontrivial("real-silent|" + c.scheme)
				}
			case <-time.After(wSilence):
				wit["goroutines"] = trunc(leak.Full(), 60000)
				rep.Violation("call-did-not-return-real-"+c.scheme+"-silent-peer", fmt.Sprintf("exchange with an unbounded context against a silent %s peer still blocked after %.0f s", c.scheme, wSilence.Seconds()), wit)
			}
			closed := make(chan struct{})
			go func() { u.Close(); close(closed) }()
			select {
			case <-closed:
			case <-time.After(wCtx):
				rep.Violation("close-did-not-return-real-"+c.scheme, "upstream Close() still blocked after 10 s", wit)
				return
			}
			if !c.udp {
				// every accepted connection must be closed by the client side
				deadline := time.Now().Add(wCtx)
				for time.Now().Before(deadline) && srv.closedBy.Load() < srv.accepted.Load() {
					time.Sleep(5 * time.Millisecond)
				}
				if a, cl := srv.accepted.Load(), srv.closedBy.Load(); cl < a {
					wit["accepted"], wit["closed_by_client"] = a, cl
					rep.Violation("conn-not-closed-after-close-real-"+c.scheme, fmt.Sprintf("%d of %d connections the upstream opened were still open 10 s after Close", a-cl, a), wit)
				} else {
					rep.Count("real_conns_closed_after_close", a)
				}
			}
		}(c)
	}
	wg.Wait()
}

// serveTruncatingUDPWithMuteTCP: a UDP listener answering every query with TC set
// and an empty answer section, and on the same port a TCP listener that accepts,
// reads and never writes.
func serveTruncatingUDPWithMuteTCP(h loopnet.Handler) (*loopnet.Server, error) {
	for try := 0; try < 50; try++ {
		pc, err := net.ListenPacket("udp", "127.0.0.1:0")
		if err != nil {
			return nil, err
		}
		ln, err := net.Listen("tcp", pc.LocalAddr().String())
		if err != nil {
			pc.Close()
			continue
		}
		go func() {
			buf := make([]byte, 65535)
			for {
				n, from, err := pc.ReadFrom(buf)
				if err != nil {
					return
				}
				qi, err := dnsadv.ParseQuery(buf[:n])
				if err != nil {
					continue
				}
				h(append([]byte(nil), buf[:n]...), "udp-truncated", 0, func([]byte) {})
				pc.WriteTo(dnsadv.Reply(qi.WireID, 0x8380, qi.QSect, "tc", 0, 0), from)
			}
		}()
		go func() {
			for {
				c, err := ln.Accept()
				if err != nil {
					return
				}
				go func() {
					defer c.Close()
					buf := make([]byte, 4096)
					for {
						if _, err := c.Read(buf); err != nil {
							return
						}
					}
				}()
			}
		}()
		return loopnet.NewServer("udp", pc.LocalAddr().String(), func() { pc.Close(); ln.Close() }), nil
	}
	return nil, fmt.Errorf("no port pair")
}

// realCancelledCalls: every scheme NewUpstream knows (incl. DoH over h2 and h3
// and DoQ, whose per-query reader goroutines live outside the fake-connection
// cases) against a server that completes every handshake, reads the query and
// never answers. Callers use short context deadlines: each call must return an
// error within wCtx of its deadline; the upstream is then closed and the final
// leak sweep of main() must find no goroutine of the upstream packages.
func realCancelledCalls() {
	pki, err := loopnet.NewPKI([]net.IP{net.ParseIP("127.0.0.1")}, []string{"localhost"})
	if err != nil {
		rep.Inconclusive("real-cancelled: pki: %v", err)
		return
	}
	var seen sync.Map // scheme -> *atomic.Int64 queries the mute server received
	mute := func(q []byte, proto string, connID int, reply func([]byte)) {
		v, _ := seen.LoadOrStore(proto, new(atomic.Int64))
		v.(*atomic.Int64).Add(1)
	}
	type rc struct {
		scheme   string
		pipeline bool
		serve    func() (*loopnet.Server, error)
	}
	cases := []rc{
		{"udp", false, func() (*loopnet.Server, error) { return loopnet.ServeUDP(mute) }},
		{"tcp", false, func() (*loopnet.Server, error) { return loopnet.ServeTCP(mute) }},
		{"tcp", true, func() (*loopnet.Server, error) { return loopnet.ServeTCP(mute) }},
		{"tls", false, func() (*loopnet.Server, error) { return loopnet.ServeTLS(pki, mute) }},
		{"tls", true, func() (*loopnet.Server, error) { return loopnet.ServeTLS(pki, mute) }},
		{"https", false, func() (*loopnet.Server, error) { return loopnet.ServeDoH(pki, mute) }},
		{"h3", false, func() (*loopnet.Server, error) { return loopnet.ServeDoH3(pki, mute) }},
		{"quic", false, func() (*loopnet.Server, error) { return loopnet.ServeDoQ(pki, mute) }},
		// plain udp whose every reply is truncated, with a TCP side that accepts and
		// never answers: the call is then waiting in the TCP retry when its context ends
		{"udp-truncated-then-mute-tcp", false, func() (*loopnet.Server, error) { return serveTruncatingUDPWithMuteTCP(mute) }},
	}
	var wg sync.WaitGroup
	for _, c := range cases {
		wg.Add(1)
		go func(c rc) {
			defer wg.Done()
			srv, err := c.serve()
			if err != nil {
				rep.Inconclusive("real-cancelled %s: cannot start server: %v", c.scheme, err)
				return
			}
			defer srv.Close()
			url := srv.URL(c.pipeline)
			name := c.scheme
			if c.pipeline {
				name += "+pipeline"
			}
			u, err := upstream.NewUpstream(url, upstream.Opt{TLSConfig: &tls.Config{RootCAs: pki.Pool}})
			if err != nil {
				rep.Inconclusive("real-cancelled %s: NewUpstream: %v", name, err)
				return
			}
			caselog.Log(map[string]any{"real_cancelled_calls": name})
			const callers = 6
			var cw sync.WaitGroup
			for i := 0; i < callers; i++ {
				cw.Add(1)
				go func(i int) {
					defer cw.Done()
					rep.Eval(1)
					d := time.Duration(60+60*i) * time.Millisecond
					// one attempt: returns how long after the context deadline the call came back
					// (-1: not within wCtx)
					attempt := func() (lag time.Duration, err error) {
						seq := int(seqCtr.Add(1))
						ctx, cancel := context.WithTimeout(context.Background(), d)
						defer cancel()
						done := make(chan error, 1)
						t0 := time.Now()
						go func() {
							r, err := u.ExchangeContext(ctx, dnsadv.Query(uint16(seq), seq, 1, "c07", 1))
							if err == nil {
								pool.ReleaseBuf(r)
							}
							done <- err
						}()
						select {
						case err := <-done:
							lag := time.Since(t0) - d
							if lag < 0 {
								lag = 0 // returned (with an error) before its deadline
							}
							return lag, err
						case <-time.After(d + wCtx):
							return -1, nil
						}
					}
					wit := map[string]any{"scheme": name, "ctx_timeout_ms": d.Milliseconds()}
					lag, err := attempt()
					if lag > wPrompt {
						// "promptly": a lag of seconds is either the transport ignoring the context or a
						// badly loaded machine; only a lag that repeats on a quiet retry is judged
						rep.Count("real_cancelled_calls_late_once(retried)", 1)
						time.Sleep(200 * time.Millisecond)
						lag2, err2 := attempt()
						if lag2 > wPrompt || lag2 < 0 {
							wit["lag_ms_first"], wit["lag_ms_retry"] = lag.Milliseconds(), lag2.Milliseconds()
							rep.Violation("call-returned-late-real-"+name+"-ctx-deadline", fmt.Sprintf("exchange returned %.1f s (retry: %.1f s) after its context deadline; the server never answers and nothing but the context can end the call promptly", lag.Seconds(), lag2.Seconds()), wit)
							return
						}
						lag, err = lag2, err2
					}
					switch {
					case lag < 0:
						wit["goroutines"] = trunc(leak.Full(), 60000)
						rep.Violation("call-did-not-return-real-"+name+"-ctx-deadline", fmt.Sprintf("exchange still blocked %.0f s after its context deadline (server never answers)", wCtx.Seconds()), wit)
					case err == nil:
						rep.Violation("reply-from-nowhere-real-"+name, "exchange against a server that never answers returned success", wit)
					default:
						rep.Count("real_cancelled_calls_returned_with_error", 1)
						rep.Max("real_cancelled_call_lag_ms:"+name, lag.Milliseconds())
						rep.Nontrivial(fmt.Sprintf("real-cancelled|%s|%d", name, i))
					}
				}(i)
			}
			cw.Wait()
			closed := make(chan struct{})
			go func() { u.Close(); close(closed) }()
			select {
			case <-closed:
			case <-time.After(wCtx):
				rep.Violation("close-did-not-return-real-"+name, "upstream Close() still blocked after 10 s", map[string]any{"scheme": name})
			}
		}(c)
	}
	wg.Wait()
	seen.Range(func(k, v any) bool {
		rep.Count("real_cancelled_queries_seen_by_mute_server:"+k.(string), v.(*atomic.Int64).Load())
		return true
	})
}

// realMuteUnbounded: DoQ and DoH (h2, h3) upstreams against servers that
// complete every handshake, read the query and never answer, with an UNBOUNDED
// caller context: only the upstream's own per-query timeouts can end the call.
func realMuteUnbounded() {
	pki, err := loopnet.NewPKI([]net.IP{net.ParseIP("127.0.0.1")}, []string{"localhost"})
	if err != nil {
		rep.Inconclusive("real-mute: pki: %v", err)
		return
	}
	mute := func(q []byte, proto string, connID int, reply func([]byte)) {}
	cases := []struct {
		name  string
		serve func() (*loopnet.Server, error)
	}{
		{"quic", func() (*loopnet.Server, error) { return loopnet.ServeDoQ(pki, mute) }},
		{"https", func() (*loopnet.Server, error) { return loopnet.ServeDoH(pki, mute) }},
		{"h3", func() (*loopnet.Server, error) { return loopnet.ServeDoH3(pki, mute) }},
	}
	var wg sync.WaitGroup
	for _, c := range cases {
		wg.Add(1)
		go func(name string, serve func() (*loopnet.Server, error)) {
			defer wg.Done()
			srv, err := serve()
			if err != nil {
				rep.Inconclusive("real-mute %s: cannot start server: %v", name, err)
				return
			}
			defer srv.Close()
			u, err := upstream.NewUpstream(srv.URL(false), upstream.Opt{TLSConfig: &tls.Config{RootCAs: pki.Pool}})
			if err != nil {
				rep.Inconclusive("real-mute %s: NewUpstream: %v", name, err)
				return
			}
			caselog.Log(map[string]any{"real_mute_unbounded": name})
			rep.Eval(1)
			seq := int(seqCtr.Add(1))
			done := make(chan error, 1)
			t0 := time.Now()
			go func() {
				r, err := u.ExchangeContext(context.Background(), dnsadv.Query(uint16(seq), seq, 1, "c07", 1))
				if err == nil {
					pool.ReleaseBuf(r)
				}
				done <- err
			}()
			wit := map[string]any{"scheme": name, "server": srv.Addr}
			select {
			case err := <-done:
				rep.Max("real_mute_unbounded_return_ms:"+name, time.Since(t0).Milliseconds())
				if err == nil {
					rep.Violation("reply-from-nowhere-real-"+name, "exchange against a server that never answers returned success", wit)
				} else {
					rep.Count("real_mute_unbounded_calls_returned_with_error", 1)
					rep.Nontrivial("real-mute-unbounded|" + name)
				}
			case <-time.After(wSilence):
				wit["goroutines"] = trunc(leak.Full(), 60000)
				rep.Violation("call-did-not-return-real-"+name+"-silent-peer", fmt.Sprintf("exchange with an unbounded context against a %s server that reads the query and never answers still blocked after %.0f s", name, wSilence.Seconds()), wit)
			}
			closed := make(chan struct{})
			go func() { u.Close(); close(closed) }()
			select {
			case <-closed:
			case <-time.After(wCtx):
				rep.Violation("close-did-not-return-real-"+name, "upstream Close() still blocked after 10 s", wit)
			}
		}(c.name, c.serve)
	}
	wg.Wait()
}
