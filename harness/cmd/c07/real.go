package main

// Real upstreams (upstream.NewUpstream over loopback sockets) against silent
// peers: the dial / handshake / read paths of pkg/upstream/upstream.go itself,
// which the fake-connection cases never enter.

import (
	"context"
	"fmt"
	"net"
	"sync"
	"sync/atomic"
	"time"

	"github.com/IrineSistiana/mosdns/v5/pkg/pool"
	"github.com/IrineSistiana/mosdns/v5/pkg/upstream"

	"verifharness/lib/dnsadv"
	"verifharness/lib/leak"
)

type silentServer struct {
	addr     string
	ln       net.Listener
	pc       net.PacketConn
	accepted atomic.Int64
	closedBy atomic.Int64 // connections on which the server saw EOF / error (client closed)
	wg       sync.WaitGroup
}

// newSilentTCP accepts connections, reads whatever comes and never writes a byte.
func newSilentTCP() (*silentServer, error) {
	ln, err := net.Listen("tcp", "127.0.0.1:0")
	if err != nil {
		return nil, err
	}
	s := &silentServer{addr: ln.Addr().String(), ln: ln}
	go func() {
		for {
			c, err := ln.Accept()
			if err != nil {
				return
			}
			s.accepted.Add(1)
			s.wg.Add(1)
			go func() {
				defer s.wg.Done()
				buf := make([]byte, 4096)
				for {
					if _, err := c.Read(buf); err != nil {
						s.closedBy.Add(1)
						c.Close()
						return
					}
				}
			}()
		}
	}()
	return s, nil
}

func newSilentUDP() (*silentServer, error) {
	pc, err := net.ListenPacket("udp", "127.0.0.1:0")
	if err != nil {
		return nil, err
	}
	s := &silentServer{addr: pc.LocalAddr().String(), pc: pc}
	go func() {
		buf := make([]byte, 4096)
		for {
			if _, _, err := pc.ReadFrom(buf); err != nil {
				return
			}
		}
	}()
	return s, nil
}

func (s *silentServer) close() {
	if s.ln != nil {
		s.ln.Close()
	}
	if s.pc != nil {
		s.pc.Close()
	}
}

// realSilentPeers: for each scheme one exchange with an UNBOUNDED context against
// a peer that never answers (for tls: never answers the ClientHello). The call
// must return with an error within wSilence; after Close every connection the
// upstream opened must be closed and no upstream goroutine may remain.
func realSilentPeers() {
	type rc struct {
		scheme string
		udp    bool
	}
	cases := []rc{{"udp", true}, {"tcp", false}, {"tcp+pipeline", false}, {"tls", false}, {"tls+pipeline", false}}
	var wg sync.WaitGroup
	for _, c := range cases {
		wg.Add(1)
		go func(c rc) {
			defer wg.Done()
			var srv *silentServer
			var err error
			if c.udp {
				srv, err = newSilentUDP()
			} else {
				srv, err = newSilentTCP()
			}
			if err != nil {
				rep.Inconclusive("real-silent %s: cannot start server: %v", c.scheme, err)
				return
			}
			defer srv.close()
			u, err := upstream.NewUpstream(c.scheme+"://"+srv.addr, upstream.Opt{})
			if err != nil {
				rep.Inconclusive("real-silent %s: NewUpstream: %v", c.scheme, err)
				return
			}
			caselog.Log(map[string]any{"real_silent_peer": c.scheme})
			rep.Eval(1)
			seq := int(seqCtr.Add(1))
			done := make(chan error, 1)
			t0 := time.Now()
			go func() {
				r, err := u.ExchangeContext(context.Background(), dnsadv.Query(uint16(seq), seq, 1, "c07", 1))
				if err == nil {
					pool.ReleaseBuf(r)
				}
				done <- err
			}()
			wit := map[string]any{"scheme": c.scheme, "server": srv.addr}
			select {
			case err := <-done:
				rep.Max("real_silent_peer_return_ms:"+c.scheme, time.Since(t0).Milliseconds())
				if err == nil {
					rep.Violation("reply-from-nowhere-real-"+c.scheme, "exchange against a peer that never sent a byte returned success", wit)
				} else {
					rep.Count("real_silent_peer_calls_returned_with_error", 1)
					rep.Nontrivial("real-silent|" + c.scheme)
				}
			case <-time.After(wSilence):
				wit["goroutines"] = trunc(leak.Full(), 60000)
				rep.Violation("call-did-not-return-real-"+c.scheme+"-silent-peer", fmt.Sprintf("exchange with an unbounded context against a silent %s peer still blocked after %.0f s", c.scheme, wSilence.Seconds()), wit)
			}
			closed := make(chan struct{})
			go func() { u.Close(); close(closed) }()
			select {
			case <-closed:
			case <-time.After(wCtx):
				rep.Violation("close-did-not-return-real-"+c.scheme, "upstream Close() still blocked after 10 s", wit)
				return
			}
			if !c.udp {
				// every accepted connection must be closed by the client side
				deadline := time.Now().Add(wCtx)
				for time.Now().Before(deadline) && srv.closedBy.Load() < srv.accepted.Load() {
					time.Sleep(5 * time.Millisecond)
				}
				if a, cl := srv.accepted.Load(), srv.closedBy.Load(); cl < a {
					wit["accepted"], wit["closed_by_client"] = a, cl
					rep.Violation("conn-not-closed-after-close-real-"+c.scheme, fmt.Sprintf("%d of %d connections the upstream opened were still open 10 s after Close", a-cl, a), wit)
				} else {
					rep.Count("real_conns_closed_after_close", a)
				}
			}
		}(c)
	}
	wg.Wait()
}
