// C07 — exchanges always terminate; Close releases everything.
//
// Fault enumeration: {fault} x {injection point} x {ender} x {transport} x
// {callers}. Bounded-progress oracle: every call returns within W after its
// enabling event (context end, Close, connection fault; silence: the transport's
// own timeouts). After Close: later calls fail without dialing or writing, every
// fake connection is closed and no transport goroutine remains.
package main

import (
	"context"
	"errors"
	"fmt"
	"math/rand"
	"os"
	"runtime"
	"sort"
	"strings"
	"sync"
	"sync/atomic"
	"time"

	"github.com/IrineSistiana/mosdns/v5/pkg/pool"
	"github.com/IrineSistiana/mosdns/v5/pkg/upstream/transport"

	"verifharness/lib/dnsadv"
	"verifharness/lib/evid"
	"verifharness/lib/fakenet"
	"verifharness/lib/leak"
	"verifharness/lib/poolsan"
	"verifharness/lib/sched"
	"verifharness/lib/wire"
)

var (
	rep     *evid.Reporter
	caselog *evid.CaseLog
	seqCtr  atomic.Int64
)

const (
	wCtx     = 10 * time.Second // after context end / Close / connection fault
	wPrompt  = 3 * time.Second  // "promptly after its context ends" for real upstreams (judged only if it repeats)
	wSilence = 45 * time.Second // unbounded context, silent server: own timeouts (3 attempts x 10 s worst case)
)

type fcase struct {
	Transport string `json:"transport"` // pipe-stream | pipe-dgram | reuse
	Callers   int    `json:"callers"`
	Fault     string `json:"fault"`
	K         int    `json:"k"`
	Point     string `json:"point"`     // before | dialing | sent | waiting | replied
	Ender     string `json:"ender"`     // cancel | deadline | close | none
	LateDial  bool   `json:"late_dial"` // blocked dial is released (succeeds) after the ender
	Seed      int64  `json:"seed"`
}

func (f fcase) key() string {
	return fmt.Sprintf("%s-%s-%s-%s", f.Transport, f.Fault, f.Point, f.Ender)
}

func (f fcase) stream() bool { return f.Transport != "pipe-dgram" }

type world struct {
	fc               fcase
	net              *fakenet.Net
	rng              *rand.Rand
	mu               sync.Mutex
	dialN            int
	dialGate         chan struct{} // closed to let gated dials proceed
	dialEnter        chan struct{} // receives one token per dial entered
	seenSeq          map[int]bool
	seenCh           chan int
	held             []heldq
	replies          map[int]bool // seq -> the adversary produced at least one reply
	closedAt         atomic.Int64 // net.Seq value when transport Close returned (0 = not yet)
	dialsAfterClose  atomic.Int64
	writesAfterClose atomic.Int64
	connReplies      map[*fakenet.Conn]int
	connWrites       map[*fakenet.Conn]int
	defr             map[*fakenet.Conn]*wire.Deframer
	holdReplies      bool
}

type heldq struct {
	c  *fakenet.Conn
	qi dnsadv.QueryInfo
}

func newWorld(fc fcase) *world {
	return &world{fc: fc, net: fakenet.NewNet(), rng: rand.New(rand.NewSource(fc.Seed)),
		dialGate: make(chan struct{}), dialEnter: make(chan struct{}, 1024),
		seenSeq: map[int]bool{}, seenCh: make(chan int, 4096), replies: map[int]bool{},
		connReplies: map[*fakenet.Conn]int{}, connWrites: map[*fakenet.Conn]int{}, defr: map[*fakenet.Conn]*wire.Deframer{}}
}

var errDial = errors.New("harness: dial refused")

// dial is the common part of both dial functions.
func (w *world) dial(ctx context.Context) (*fakenet.Conn, error) {
	if w.closedAt.Load() != 0 && ctx.Err() == nil {
		// (a dial function entered with an already cancelled context is the tail of a
		// dial goroutine started before Close, not a new dial)
		w.dialsAfterClose.Add(1)
	}
	w.mu.Lock()
	w.dialN++
	w.mu.Unlock()
	select {
	case w.dialEnter <- struct{}{}:
	default:
	}
	switch w.fc.Fault {
	case "dial-error":
		return nil, errDial
	case "dial-block":
		if w.fc.LateDial {
			select {
			case <-w.dialGate: // succeeds late, ignoring its context (a dial function may return a conn after cancel)
			case <-time.After(20 * time.Second):
				return nil, errors.New("harness: gate never opened")
			}
		} else {
			<-ctx.Done()
			return nil, ctx.Err()
		}
	}
	if w.fc.Point == "dialing" && w.fc.Fault != "dial-block" {
		select {
		case <-w.dialGate:
		case <-ctx.Done():
			if !w.fc.LateDial {
				return nil, ctx.Err()
			}
			<-w.dialGate
		}
	}
	c := w.net.NewConn(w.fc.stream())
	w.mu.Lock()
	w.defr[c] = &wire.Deframer{}
	w.mu.Unlock()
	c.OnWrite = w.onWrite
	if w.fc.Fault == "write-error" {
		c.FailWrite(w.fc.K, fakenet.ErrInjected)
	}
	return c, nil
}

func (w *world) onWrite(c *fakenet.Conn, data []byte) error {
	if w.closedAt.Load() != 0 {
		w.writesAfterClose.Add(1)
	}
	w.mu.Lock()
	var frames [][]byte
	if c.Stream {
		frames = w.defr[c].Feed(data)
	} else {
		frames = [][]byte{data}
	}
	w.connWrites[c]++
	w.mu.Unlock()
	for _, f := range frames {
		qi, err := dnsadv.ParseQuery(f)
		if err != nil || qi.Seq < 0 {
			continue
		}
		w.mu.Lock()
		first := !w.seenSeq[qi.Seq]
		w.seenSeq[qi.Seq] = true
		hold := w.holdReplies
		if hold {
			w.held = append(w.held, heldq{c, qi})
		}
		w.mu.Unlock()
		if first {
			select {
			case w.seenCh <- qi.Seq:
			default:
			}
		}
		if !hold {
			w.react(c, qi)
		}
	}
	return nil
}

// react applies the fault script to one received query.
func (w *world) react(c *fakenet.Conn, qi dnsadv.QueryInfo) {
	w.mu.Lock()
	n := w.connReplies[c] + 1 // this would be the n-th reply on c
	w.mu.Unlock()
	inject := func(b []byte) {
		if c.Stream {
			c.Inject(wire.Frame(b))
		} else {
			c.Inject(b)
		}
	}
	good := func() {
		w.mu.Lock()
		w.connReplies[c]++
		w.replies[qi.Seq] = true
		w.mu.Unlock()
		inject(dnsadv.Reply(qi.WireID, 0x8180, qi.QSect, fmt.Sprintf("r/c%d/q%d", c.ID, qi.Seq), w.rngIntn(200), 0))
	}
	switch w.fc.Fault {
	case "none", "write-error", "dial-block", "dial-error":
		good()
	case "read-error":
		if n >= w.fc.K {
			c.InjectErr(fakenet.ErrInjected)
		} else {
			good()
		}
	case "eof", "peer-close-inflight":
		if n >= w.fc.K {
			if w.fc.Fault == "peer-close-inflight" {
				// wait until every caller's query is in flight on some connection
				go func() {
					deadline := time.Now().Add(300 * time.Millisecond)
					for time.Now().Before(deadline) {
						w.mu.Lock()
						got := len(w.seenSeq)
						w.mu.Unlock()
						if got >= w.fc.Callers {
							break
						}
						time.Sleep(200 * time.Microsecond)
					}
					c.InjectEOF()
				}()
			} else {
				c.InjectEOF()
			}
		} else {
			good()
		}
	case "short-frame":
		w.mu.Lock()
		w.replies[qi.Seq] = true // junk was produced for this query
		w.mu.Unlock()
		if c.Stream {
			l := w.rngIntn(13) // announced length 0..12
			b := make([]byte, 2+l)
			b[1] = byte(l)
			c.Inject(b)
		} else {
			c.Inject(make([]byte, w.rngIntn(12))) // ignored by the reader -> silence
		}
	case "truncated-frame":
		w.mu.Lock()
		w.replies[qi.Seq] = true
		w.mu.Unlock()
		if c.Stream {
			b := []byte{0, 100, 1, 2, 3, 4, 5, 6, 7, 8, 9, 10}
			c.Inject(b)
			c.InjectEOF()
		} else {
			c.Inject([]byte{1, 2, 3})
			c.InjectEOF()
		}
	case "garbage":
		w.mu.Lock()
		w.replies[qi.Seq] = true
		w.mu.Unlock()
		g := make([]byte, 20+w.rngIntn(200))
		w.mu.Lock()
		w.rng.Read(g)
		w.mu.Unlock()
		if !c.Stream {
			// keep the wire id from matching: flip it
			g[0], g[1] = byte(qi.WireID>>8)^0x80, byte(qi.WireID)
		}
		c.Inject(g)
		c.InjectEOF()
	case "stray-then-silence":
		// a reply whose ID matches no outstanding query (duplicate / stray), then nothing
		w.mu.Lock()
		already := w.connReplies[c] > 0
		w.connReplies[c]++
		w.mu.Unlock()
		if already {
			return // exactly one stray per connection, then the peer is silent (also towards resends)
		}
		qs := append(wire.EncodeName("stray.c07.test."), 0, 1, 0, 1)
		inject(dnsadv.Reply(qi.WireID+0x4000, 0x8180, qs, "stray", 0, 0))
	case "silence", "silence-after-first":
		if w.fc.Fault == "silence-after-first" && n == 1 {
			good()
		}
	}
}

func (w *world) rngIntn(n int) int {
	w.mu.Lock()
	defer w.mu.Unlock()
	return w.rng.Intn(n)
}

func (w *world) releaseHeld() {
	w.mu.Lock()
	hs := w.held
	w.held = nil
	w.holdReplies = false
	w.mu.Unlock()
	for _, h := range hs {
		w.react(h.c, h.qi)
	}
}

type exch interface {
	ExchangeContext(ctx context.Context, m []byte) (*[]byte, error)
	Close() error
}

func (w *world) makeTransport() exch {
	switch w.fc.Transport {
	case "reuse":
		return transport.NewReuseConnTransport(transport.ReuseConnOpts{
			DialContext: func(ctx context.Context) (transport.NetConn, error) {
				c, err := w.dial(ctx)
				if err != nil {
					return nil, err
				}
				return c, nil
			},
		})
	default:
		stream := w.fc.stream()
		return transport.NewPipelineTransport(transport.PipelineOpts{
			DialContext: func(ctx context.Context) (transport.DnsConn, error) {
				c, err := w.dial(ctx)
				if err != nil {
					return nil, err
				}
				// idle timeout far above every bound used here (the plain-UDP upstream uses
				// 5 minutes): only the waiting-reply timeout may end a silent connection in time
				return transport.NewDnsConn(transport.TraditionalDnsConnOpts{WithLengthHeader: stream, MaxConcurrentQuery: 64, IdleTimeout: 5 * time.Minute}, c), nil
			},
			MaxConcurrentQueryWhileDialing: 64,
		})
	}
}

type callState struct {
	seq    int
	done   chan struct{}
	err    error
	ok     bool
	retAt  time.Time
	cancel context.CancelFunc
	ddl    time.Time // context deadline (zero if none)
}

func startCall(w *world, t exch, ctx context.Context, cancel context.CancelFunc) *callState {
	seq := int(seqCtr.Add(1))
	cs := &callState{seq: seq, done: make(chan struct{}), cancel: cancel}
	if d, ok := ctx.Deadline(); ok {
		cs.ddl = d
	}
	q := dnsadv.Query(uint16(seq*7), seq, 1, "c07", 1)
	go func() {
		r, err := t.ExchangeContext(ctx, q)
		cs.err = err
		if err == nil {
			ri, perr := dnsadv.ParseReply(*r)
			w.mu.Lock()
			produced := w.replies[seq]
			w.mu.Unlock()
			garbageFault := w.fc.Fault == "garbage" || w.fc.Fault == "short-frame" || w.fc.Fault == "truncated-frame"
			if garbageFault && produced {
				// the adversary answered this query with junk; a transport without ID
				// matching may hand junk that happens to frame correctly to the caller
				rep.Count("junk_frames_returned_as_reply(garbage faults)", 1)
			} else if perr != nil || ri.Seq != seq || !produced {
				rep.Violation("reply-from-nowhere-"+w.fc.Transport, fmt.Sprintf("call q%d returned a reply (%q, %v) the adversary never produced for it", seq, ri.Token, perr), map[string]any{"case": w.fc})
			}
			poolsan.Check(r, "c07 reply")
			pool.ReleaseBuf(r)
			cs.ok = true
		}
		cs.retAt = time.Now()
		close(cs.done)
	}()
	return cs
}

// awaitAll waits until every call returned or the bound after `from` expired.
func awaitAll(calls []*callState, from time.Time, bound time.Duration) (stuck []*callState) {
	deadline := from.Add(bound)
	for _, c := range calls {
		d := time.Until(deadline)
		if d < 0 {
			d = 0
		}
		select {
		case <-c.done:
		case <-time.After(d):
			select {
			case <-c.done:
			default:
				stuck = append(stuck, c)
			}
		}
	}
	return stuck
}

type outcome struct {
	reached bool
	maxLag  time.Duration
}

func runCase(fc fcase) {
	caselog.Log(fc)
	w := newWorld(fc)
	t := w.makeTransport()
	closed := false
	closeStuck := false
	doClose := func() {
		if !closed {
			closed = true
			done := make(chan struct{})
			go func() {
				t.Close()
				close(done)
			}()
			select {
			case <-done:
			case <-time.After(wCtx):
				closeStuck = true
				rep.Violation("close-did-not-return-"+fc.Transport, fmt.Sprintf("transport Close() still blocked after %.0f s", wCtx.Seconds()), map[string]any{"case": fc, "goroutines": trunc(leak.Full(), 80000)})
			}
			w.closedAt.Store(w.net.Seq.Add(1))
		}
	}
	rep.Eval(1)
	wit := func(extra map[string]any) map[string]any {
		m := map[string]any{"case": fc}
		for k, v := range extra {
			m[k] = v
		}
		return m
	}
	// hold replies when the ender must hit "sent"/"waiting" before anything comes back
	if (fc.Point == "sent" || fc.Point == "waiting") && fc.Ender != "none" {
		w.holdReplies = true
	}
	var calls []*callState
	var enabling time.Time
	bound := wCtx
	mkctx := func() (context.Context, context.CancelFunc) {
		if fc.Ender == "deadline" {
			if fc.Point == "before" {
				return context.WithDeadline(context.Background(), time.Now().Add(-time.Millisecond))
			}
			return context.WithTimeout(context.Background(), 30*time.Millisecond)
		}
		return context.WithCancel(context.Background())
	}
	applyEnder := func() {
		switch fc.Ender {
		case "cancel":
			for _, c := range calls {
				c.cancel()
			}
			enabling = time.Now()
		case "deadline":
			// enabling event = the (latest) deadline itself
			for _, c := range calls {
				if c.ddl.After(enabling) {
					enabling = c.ddl
				}
			}
			if time.Now().Before(enabling) {
				time.Sleep(time.Until(enabling))
			}
		case "close":
			doClose()
			enabling = time.Now()
		}
	}

	reached := true
	switch fc.Point {
	case "before":
		if fc.Ender == "close" {
			doClose()
		}
		for i := 0; i < fc.Callers; i++ {
			ctx, cancel := mkctx()
			if fc.Ender == "cancel" {
				cancel()
			}
			calls = append(calls, startCall(w, t, ctx, cancel))
		}
		enabling = time.Now()
		if fc.Ender == "none" {
			switch fc.Fault {
			case "silence", "silence-after-first", "dial-block", "stray-then-silence":
				bound = wSilence
			default:
				if !fc.stream() && (fc.Fault == "short-frame") {
					bound = wSilence
				}
			}
		}
	default:
		for i := 0; i < fc.Callers; i++ {
			ctx, cancel := mkctx()
			calls = append(calls, startCall(w, t, ctx, cancel))
		}
		// wait for the point (reachability was decided statically by reachable();
		// the generous timeouts only guard against a broken tree)
		switch fc.Point {
		case "dialing":
			select {
			case <-w.dialEnter:
			case <-time.After(10 * time.Second):
				reached = false
			}
		case "sent", "waiting", "replied":
			need := fc.Callers
			timeout := time.After(10 * time.Second)
			var ddl <-chan time.Time
			if fc.Ender == "deadline" {
				// a 30 ms deadline may end some calls before their query is written;
				// the point is then "as many as got there before the deadline"
				ddl = time.After(40 * time.Millisecond)
			}
		loop:
			for got := 0; got < need; {
				select {
				case <-w.seenCh:
					got++
				case <-ddl:
					break loop
				case <-timeout:
					reached = false
					break loop
				}
			}
			if fc.Point == "waiting" && reached && (w.holdReplies || fc.Fault == "silence") {
				for _, c := range w.net.Conns() {
					c.WaitReaderParked(2 * time.Second)
				}
			}
			if fc.Point == "replied" {
				if stuck := awaitAll(calls, time.Now(), 10*time.Second); len(stuck) > 0 {
					reached = false
				}
			}
		}
		if !reached {
			rep.Inconclusive("case %+v: injection point not reached within 10 s", fc)
		}
		if reached {
			applyEnder()
		} else {
			enabling = time.Now()
		}
		if fc.Ender == "none" || !reached {
			enabling = time.Now()
			switch fc.Fault {
			case "silence", "silence-after-first", "dial-block", "stray-then-silence":
				bound = wSilence
			case "short-frame":
				if !fc.stream() {
					bound = wSilence
				}
			}
			if w.holdReplies {
				w.releaseHeld()
			}
		}
		// a gated dial of a no-fault case proceeds now (ender=none) or is released late below
		if fc.Point == "dialing" && (fc.Ender == "none" || !fc.LateDial) {
			close(w.dialGate)
		}
	}
	if reached {
		rep.Count("cases_point_reached", 1)
	} else {
		rep.Count("cases_point_unreachable_for_this_fault", 1)
	}

	// ---- bounded progress ----
	stuck := awaitAll(calls, enabling, bound)
	if len(stuck) > 0 {
		dump := leak.Full()
		inMosdns := strings.Contains(dump, "mosdns/v5/pkg/upstream/transport.")
		dls := map[string]any{}
		for _, c := range w.net.Conns() {
			var l []string
			ds := c.Deadlines()
			if len(ds) > 12 {
				ds = ds[len(ds)-12:]
			}
			for _, d := range ds {
				l = append(l, fmt.Sprintf("%s at=%.1fms in=%.0fms", d.Kind, float64(d.At)/1e6, float64(d.In)/1e6))
			}
			dls[fmt.Sprintf("conn%d(closed=%v,writes=%d)", c.ID, c.IsClosed(), c.WriteCount())] = l
		}
		if inMosdns {
			defer func(k string) { _ = k }(fc.key())
			rep.Extra("last_stuck_case_deadline_log", dls)
			rep.Violation("call-did-not-return-"+fc.key(), fmt.Sprintf("%d of %d calls still blocked %.0f s after the enabling event (%s)", len(stuck), len(calls), bound.Seconds(), fc.Ender), wit(map[string]any{"goroutines": trunc(dump, 60000)}))
		} else {
			rep.Inconclusive("case %+v: watchdog expired but no goroutine is inside the transport", fc)
		}
		for _, c := range calls {
			c.cancel()
		}
		awaitAll(calls, time.Now(), 5*time.Second)
	} else {
		var maxLag time.Duration
		for _, c := range calls {
			if lag := c.retAt.Sub(enabling); lag > maxLag {
				maxLag = lag
			}
		}
		rep.Max("max_return_lag_ms_after_enabling_event", maxLag.Milliseconds())
		if bound == wSilence {
			rep.Max("max_return_lag_ms_silence_class", maxLag.Milliseconds())
		}
	}
	// ---- expected error-ness ----
	okN, errN := 0, 0
	for _, c := range calls {
		select {
		case <-c.done:
			if c.ok {
				okN++
			} else {
				errN++
			}
		default:
		}
	}
	if fc.Point == "before" && fc.Ender == "close" && okN > 0 {
		rep.Violation("call-succeeded-after-close-"+fc.Transport, "a call started after Close returned succeeded", wit(nil))
	}
	if reached && fc.Ender == "close" && fc.Point != "replied" && fc.Point != "before" && okN > 0 && w.holdReplies {
		rep.Violation("pending-call-succeeded-after-close-"+fc.Transport, "a pending call whose reply was withheld returned success after Close", wit(nil))
	}

	// ---- Close releases everything ----
	doClose()
	if fc.Point == "dialing" || fc.Fault == "dial-block" {
		select {
		case <-w.dialGate:
		default:
			close(w.dialGate) // late dials now succeed: their connections must be closed by the transport
		}
	}
	if closeStuck {
		// nothing after a hung Close can be judged; unblock what we can and stop here
		for _, c := range calls {
			c.cancel()
		}
		for _, c := range w.net.Conns() {
			c.Close()
		}
		return
	}
	// later calls fail at once, without dialing or writing
	d0, w0 := w.dialsAfterClose.Load(), w.writesAfterClose.Load()
	ctx, cancel := context.WithTimeout(context.Background(), wCtx)
	late := startCall(w, t, ctx, cancel)
	if st := awaitAll([]*callState{late}, time.Now(), wCtx); len(st) > 0 {
		rep.Violation("call-after-close-blocked-"+fc.Transport, "a call issued after Close did not return", wit(map[string]any{"goroutines": trunc(leak.Full(), 60000)}))
	} else if late.ok {
		rep.Violation("call-succeeded-after-close-"+fc.Transport, "a call issued after Close succeeded", wit(nil))
	} else {
		rep.Count("calls_after_close_failed_fast", 1)
	}
	cancel()
	if fc.Point != "dialing" && fc.Fault != "dial-block" {
		// (with gated dials, in-flight dial goroutines may legitimately finish after Close)
		if d := w.dialsAfterClose.Load() - d0; d > 0 {
			rep.Violation("dial-after-close-"+fc.Transport, fmt.Sprintf("%d dial(s) started by a call issued after Close", d), wit(nil))
		}
	}
	if n := w.writesAfterClose.Load() - w0; n > 0 {
		rep.Violation("write-after-close-"+fc.Transport, fmt.Sprintf("%d write(s) on a connection by a call issued after Close", n), wit(nil))
	}
	// NOTE: the callers' contexts are deliberately NOT cancelled here: a helper
	// goroutine that is only released by its caller's context (instead of by Close
	// or by the call returning) must show up in the final goroutine-leak check.
	// every connection handed to the transport must be closed
	deadline := time.Now().Add(wCtx)
	for _, c := range w.net.Conns() {
		if !c.WaitClosed(time.Until(deadline)) {
			rep.Violation("conn-not-closed-after-close-"+fc.key(), fmt.Sprintf("connection %d was not closed within %.0f s after transport Close (late dial=%v)", c.ID, wCtx.Seconds(), fc.LateDial), wit(nil))
			break
		}
	}
	rep.Count("connections_opened", int64(len(w.net.Conns())))
	rep.Count("calls_ok", int64(okN))
	rep.Count("calls_err", int64(errN))
	if reached {
		rep.Nontrivial(fmt.Sprintf("%s|n%d|k%d|late%v", fc.key(), fc.Callers, fc.K, fc.LateDial))
	}
	if rep.WantSample() && reached && fc.Fault != "none" && fc.Ender != "none" {
		rep.Sample(map[string]any{"case": fc, "calls_ok": okN, "calls_err": errN, "conns": len(w.net.Conns())})
	}
}

// reachable decides statically whether the fault script lets a call get to the point.
func reachable(fc fcase) bool {
	if fc.Ender == "none" && fc.Point != "before" {
		return false // without an ender the point is irrelevant: run once, as "before"
	}
	switch fc.Point {
	case "before":
		return true
	case "dialing":
		return fc.Fault != "dial-error" // the dial returns at once, nothing to interrupt
	case "sent", "waiting":
		switch fc.Fault {
		case "dial-error", "dial-block":
			return false
		case "write-error":
			return fc.K > 1 && fc.Callers == 1 // the first write must succeed for every caller
		}
		return true
	case "replied":
		switch fc.Fault {
		case "none":
			return true
		case "write-error", "read-error", "eof":
			return fc.K > 1 && fc.Callers == 1
		case "silence-after-first":
			return fc.Callers == 1
		}
		return false
	}
	return false
}

func trunc(s string, n int) string {
	if len(s) > n {
		return s[:n] + "...[cut]"
	}
	return s
}

// leakCheck: after a batch (all transports closed) no transport goroutine may remain.
func leakCheck(batch []fcase) {
	left := leak.WaitNone([]string{"mosdns/v5/pkg/upstream/transport.", "mosdns/v5/pkg/upstream.", "mosdns/v5/pkg/upstream/doh."}, nil, wCtx)
	rep.Count("leak_checks", 1)
	if len(left) == 0 {
		return
	}
	seen := map[string]bool{}
	for _, g := range left {
		fp := leak.Fingerprint(g)
		if seen[fp] {
			continue
		}
		seen[fp] = true
		top := "?"
		for _, l := range strings.Split(g.Text, "\n") {
			if strings.Contains(l, "mosdns/v5/pkg/upstream/transport.") || strings.Contains(l, "mosdns/v5/pkg/upstream.") || strings.Contains(l, "mosdns/v5/pkg/upstream/doh.") {
				top = strings.TrimSpace(l)
				if i := strings.LastIndexByte(top, '('); i > 0 {
					top = top[:i] // drop the argument list
				}
				top = top[strings.LastIndexByte(top, '/')+1:]
				top = strings.NewReplacer("(", "", ")", "", "*", "").Replace(top)
				break
			}
		}
		var keys []string
		for _, b := range batch {
			keys = append(keys, b.key())
		}
		sort.Strings(keys)
		if len(keys) > 40 {
			keys = keys[:40]
		}
		rep.Violation("goroutine-leak-"+top, fmt.Sprintf("transport goroutine still alive %.0f s after every transport of the batch was closed", wCtx.Seconds()), map[string]any{"goroutine": g.Text, "batch_cases": keys})
	}
}

func runBatch(cases []fcase, par int) {
	sem := make(chan struct{}, par)
	var wg sync.WaitGroup
	for _, fc := range cases {
		wg.Add(1)
		sem <- struct{}{}
		go func(fc fcase) {
			defer wg.Done()
			defer func() { <-sem }()
			runCase(fc)
		}(fc)
	}
	wg.Wait()
	leakCheck(cases)
}

func main() {
	rep = evid.New("C07", "fault_enumeration")
	caselog = evid.OpenCaseLog()
	poolsan.Install(func(r poolsan.Report) {
		rep.Violation("poolsan-"+r.Kind, "buffer-pool sanitizer: "+r.Kind+": "+r.Info, map[string]any{"stack": r.Stack})
	})
	rep.SetRule("complete enumeration of single faults {none, dial-error, dial-block, write-error k, read-error k, eof k, short-frame, truncated-frame, garbage, peer-close-inflight, silence, silence-after-first} x points {before, dialing, sent, waiting, replied} x enders {cancel, deadline, close, none} x transports {pipeline stream, pipeline datagram, reuse} x callers; pairs of faults sampled in thorough; one case = one scripted transport lifetime; non-trivial = the injection point was actually reached (distinct by transport, fault, point, ender, callers, k)")
	rep.Assume("liveness restated as bounded progress: 10 s after context end / Close / connection fault, 45 s for a silent server with unbounded context (3 attempts x 10 s own timeout)")
	rep.Assume("goroutine leaks are attributed to a batch of concurrently run cases, not to one case")

	if rep.ReplayFile != "" {
		var c struct {
			Case fcase `json:"case"`
		}
		if err := rep.LoadReplay(&c); err != nil {
			fmt.Println("cannot load replay:", err)
			os.Exit(3)
		}
		// schedule-dependent cases: many perturbed repetitions, run concurrently
		sched.Perturb(rep.Seed, 0.2, 200*time.Microsecond)
		var many []fcase
		for i := 0; i < 96; i++ {
			cc := c.Case
			cc.Seed += int64(i)
			many = append(many, cc)
		}
		runBatch(many, 32)
		rep.Finish()
	}
	rng := rand.New(rand.NewSource(rep.Seed))
	sched.Perturb(rep.Seed, 0.2, 200*time.Microsecond)
	transports := []string{"pipe-stream", "pipe-dgram", "reuse"}
	points := []string{"before", "dialing", "sent", "waiting", "replied"}
	enders := []string{"cancel", "deadline", "close", "none"}
	type fk struct {
		f string
		k int
	}
	faults := []fk{{"none", 0}, {"dial-error", 0}, {"write-error", 1}, {"write-error", 2}, {"write-error", 3}, {"read-error", 1}, {"read-error", 2}, {"eof", 1}, {"eof", 2}, {"short-frame", 0}, {"truncated-frame", 0}, {"garbage", 0}, {"peer-close-inflight", 1}}
	slowFaults := []fk{{"dial-block", 0}, {"silence", 0}, {"silence-after-first", 0}, {"stray-then-silence", 0}}
	callersSet := []int{1, 4, 32}
	var fast, slow []fcase
	skipped := 0
	for _, tr := range transports {
		for _, f := range faults {
			for _, p := range points {
				for _, e := range enders {
					for _, n := range callersSet {
						if !rep.Thorough() && n == 32 && (f.k > 1 || p == "replied") {
							continue
						}
						fc := fcase{Transport: tr, Callers: n, Fault: f.f, K: f.k, Point: p, Ender: e, Seed: rng.Int63n(1 << 40)}
						if !reachable(fc) {
							skipped++
							continue
						}
						if p == "dialing" && e != "none" && rng.Intn(2) == 0 {
							fc.LateDial = true
						}
						if !fc.stream() && f.f == "short-frame" && e == "none" {
							slow = append(slow, fc) // ignored datagrams = silence class
							continue
						}
						fast = append(fast, fc)
					}
				}
			}
		}
		for _, f := range slowFaults {
			for _, p := range points {
				for _, e := range enders {
					for _, n := range callersSet {
						if p == "replied" && f.f != "silence-after-first" {
							continue
						}
						fc := fcase{Transport: tr, Callers: n, Fault: f.f, K: f.k, Point: p, Ender: e, Seed: rng.Int63n(1 << 40)}
						if !reachable(fc) || (f.f == "stray-then-silence" && tr == "reuse") {
							// (the non-pipelined transport has no ID matching: any frame is "the" reply)
							skipped++
							continue
						}
						if f.f == "dial-block" && rng.Intn(2) == 0 {
							fc.LateDial = e != "none"
						}
						if e == "none" || (f.f == "dial-block" && p != "before" && p != "dialing") {
							// natural expiry of the transport's own timeouts: expensive, limit in quick
							if !rep.Thorough() && n != 1 && !(f.f == "silence-after-first" && n == 4 && p == "before") {
								continue
							}
							slow = append(slow, fc)
							if f.f == "silence-after-first" && n == 4 && tr != "reuse" {
								// the deadline hand-over between reader and callers is schedule
								// dependent: repeat under different perturbation seeds (runs
								// concurrently with the other slow cases, costs no wall time)
								for k := 0; k < 24; k++ {
									fc2 := fc
									fc2.Seed = rng.Int63n(1 << 40)
									slow = append(slow, fc2)
								}
							}
						} else {
							fast = append(fast, fc)
						}
					}
				}
			}
		}
	}
	rng.Shuffle(len(fast), func(i, j int) { fast[i], fast[j] = fast[j], fast[i] })
	// slow cases run concurrently with the fast batches
	var slowWg sync.WaitGroup
	slowWg.Add(1)
	go func() {
		defer slowWg.Done()
		var wg sync.WaitGroup
		for _, fc := range slow {
			wg.Add(1)
			go func(fc fcase) {
				defer wg.Done()
				runCase(fc)
			}(fc)
		}
		wg.Wait()
	}()
	slowWg.Add(1)
	go func() {
		defer slowWg.Done()
		realSilentPeers()
	}()
	slowWg.Add(1)
	go func() {
		defer slowWg.Done()
		realCancelledCalls()
	}()
	slowWg.Add(1)
	go func() {
		defer slowWg.Done()
		runWindows(rep.Pick(2, 8))()
	}()
	slowWg.Add(1)
	go func() {
		defer slowWg.Done()
		closeRaces(rep.Pick(1200, 12000))
	}()
	slowWg.Add(1)
	go func() {
		defer slowWg.Done()
		expiredIdleWindows(rep.Pick(6, 40))
	}()
	slowWg.Add(1)
	go func() {
		defer slowWg.Done()
		silentStagger(rep.Pick(3, 12))()
	}()
	slowWg.Add(1)
	go func() {
		defer slowWg.Done()
		realMuteUnbounded()
	}()
	rep.Count("slow_cases(own timeouts expire naturally)", int64(len(slow)))
	rep.Count("fast_cases", int64(len(fast)))
	rep.Count("combinations_statically_unreachable(not run)", int64(skipped))
	// fast cases: leak check needs quiescence of the *fast* set only; slow cases keep goroutines alive,
	// so fast batches are leak-checked after the slow set finished, in one final sweep; per-batch we
	// only run the cases.
	const batchSize = 64
	for i := 0; i < len(fast); i += batchSize {
		j := i + batchSize
		if j > len(fast) {
			j = len(fast)
		}
		sem := make(chan struct{}, 16)
		var wg sync.WaitGroup
		for _, fc := range fast[i:j] {
			wg.Add(1)
			sem <- struct{}{}
			go func(fc fcase) {
				defer wg.Done()
				defer func() { <-sem }()
				runCase(fc)
			}(fc)
		}
		wg.Wait()
	}
	slowWg.Wait()
	sched.NoPerturb()
	leakCheck(append(fast, slow...))
	rep.Exhaustive(true)
	runtime.GC()
	for name, n := range sched.Counts() {
		rep.Count("hook:"+name, n)
	}
	if rep.Get("cases_point_reached") == 0 {
		rep.Inconclusive("no injection point was ever reached")
	}
	rep.Finish()
}
